import VrpProofs.Props.C12b

/-! helper lemmas for `Props/C12c.lean` (order independence of the three closing calls of the MIRP builder).

The central notion is `Rel ex Q g g'`: the graph `g'` has the nodes of `g` followed by `ex`, and its arc dictionary
reads as the dictionary of `g` overridden by the partial function `Q`.  Running the same closing call on both sides
keeps the relation as long as `Q` is undefined at every key the call writes. -/
namespace Vrp.C12c
open Vrp Vrp.C12 Vrp.C12b

/-! ### `dictGet` / `dictHas` -/

theorem dictHas_eq_isSome (d : List (Key × Arc)) (k : Key) : dictHas d k = (dictGet d k).isSome := by
  induction d with
  | nil => rfl
  | cons e rest ih =>
    unfold dictHas dictGet at ih ⊢
    by_cases h : e.1 = k
    · simp [h]
    · simp only [List.any_cons, h, decide_false, Bool.false_or, List.find?_cons]
      exact ih

theorem dictGet_none_of_not_has {d : List (Key × Arc)} {k : Key} (h : ¬ dictHas d k = true) :
    dictGet d k = none := by
  rw [dictHas_eq_isSome] at h
  cases hd : dictGet d k with
  | none => rfl
  | some a => rw [hd] at h; exact absurd rfl h

theorem dictHas_of_get_some {d : List (Key × Arc)} {k : Key} {a : Arc} (h : dictGet d k = some a) :
    dictHas d k = true := by
  rw [dictHas_eq_isSome, h]; rfl

theorem dictGet_dictSet (d : List (Key × Arc)) (k k' : Key) (a : Arc) :
    dictGet (dictSet d k a) k' = if k' = k then some a else dictGet d k' := by
  by_cases h : k' = k
  · subst h; rw [if_pos rfl, dictGet_dictSet_self]
  · rw [if_neg h, dictGet_dictSet_ne _ _ h]

/-! ### two parallel folds -/

theorem foldl_rel {α β γ : Type} (R : β → γ → Prop) (f : β → α → β) (f' : γ → α → γ) (l : List α)
    (hstep : ∀ b c, R b c → ∀ x ∈ l, R (f b x) (f' c x)) (b : β) (c : γ) (h : R b c) :
    R (l.foldl f b) (l.foldl f' c) := by
  induction l generalizing b c with
  | nil => exact h
  | cons x rest ih =>
    simp only [List.foldl_cons]
    exact ih (fun b c hbc y hy => hstep b c hbc y (List.mem_cons_of_mem _ hy)) _ _
      (hstep b c h x List.mem_cons_self)

/-! ### the relation -/

/-- `g'` = the nodes of `g` followed by `ex`; arcs of `g'` = arcs of `g` overridden by `Q` -/
structure Rel (ex : List Node) (Q : Key → Option Arc) (g g' : Graph) : Prop where
  nodes : g'.nodes = g.nodes ++ ex
  arcs : ∀ k, dictGet g'.arcs k = (Q k).or (dictGet g.arcs k)

theorem gAddArc_eq_self_of_not {g : Graph} {o d : String} {t c : ℚ} {i j : ℕ}
    (hi : g.indexOf? o = some i) (hj : g.indexOf? d = some j)
    (hok : ¬ leE (g.lo i + t) (g.hi j) = true) : gAddArc g o d t c = g := by
  rcases gAddArc_cases g o d t c with h | ⟨i', j', hi', hj', hok', _⟩
  · exact h
  · rw [hi] at hi'; rw [hj] at hj'; cases hi'; cases hj'; exact absurd hok' hok

theorem gAddArc_eq_self_of_none {g : Graph} {o d : String} {t c : ℚ}
    (h : g.indexOf? o = none ∨ g.indexOf? d = none) : gAddArc g o d t c = g := by
  rcases gAddArc_cases g o d t c with h' | ⟨i', j', hi', hj', _, _⟩
  · exact h'
  · rcases h with h | h
    · rw [h] at hi'; cases hi'
    · rw [h] at hj'; cases hj'

/-- one `add_arc` on both sides; the two names are looked up identically on both sides, and `Q` is undefined at the key
    written -/
theorem gAddArc_rel {ex : List Node} {Q : Key → Option Arc} {g g' : Graph} (o d : String) (t c : ℚ)
    (h : Rel ex Q g g')
    (hfound : ex = [] ∨ ((∃ i, g.indexOf? o = some i) ∧ ∃ j, g.indexOf? d = some j))
    (hQ : ∀ i j, g.indexOf? o = some i → g.indexOf? d = some j → Q (i, j) = none) :
    Rel ex Q (gAddArc g o d t c) (gAddArc g' o d t c) := by
  have hio : g'.indexOf? o = g.indexOf? o := by
    rcases hfound with rfl | ⟨⟨i, hi⟩, _⟩
    · exact Graph.indexOf?_congr (by rw [h.nodes, List.append_nil]) o
    · rw [hi]; exact Graph.indexOf?_append_old h.nodes hi
  have hid : g'.indexOf? d = g.indexOf? d := by
    rcases hfound with rfl | ⟨_, ⟨j, hj⟩⟩
    · exact Graph.indexOf?_congr (by rw [h.nodes, List.append_nil]) d
    · rw [hj]; exact Graph.indexOf?_append_old h.nodes hj
  cases hi : g.indexOf? o with
  | none =>
    rw [gAddArc_eq_self_of_none (Or.inl hi), gAddArc_eq_self_of_none (Or.inl (hio.trans hi))]
    exact h
  | some i =>
    cases hj : g.indexOf? d with
    | none =>
      rw [gAddArc_eq_self_of_none (Or.inr hj), gAddArc_eq_self_of_none (Or.inr (hid.trans hj))]
      exact h
    | some j =>
      have hi' := hio.trans hi
      have hj' := hid.trans hj
      have hlo : g'.lo i = g.lo i := ma_lo_append_old h.nodes (Graph.indexOf?_lt hi)
      have hhi : g'.hi j = g.hi j := ma_hi_append_old h.nodes (Graph.indexOf?_lt hj)
      by_cases hok : leE (g.lo i + t) (g.hi j) = true
      · have hok' : leE (g'.lo i + t) (g'.hi j) = true := by rw [hlo, hhi]; exact hok
        rw [gAddArc_eq_of hi hj hok, gAddArc_eq_of hi' hj' hok']
        refine ⟨h.nodes, fun k => ?_⟩
        show dictGet (dictSet g'.arcs (i, j) _) k = (Q k).or (dictGet (dictSet g.arcs (i, j) _) k)
        rw [dictGet_dictSet, dictGet_dictSet]
        by_cases hk : k = (i, j)
        · subst hk
          rw [if_pos rfl, if_pos rfl, hQ i j hi hj]; rfl
        · rw [if_neg hk, if_neg hk]; exact h.arcs k
      · have hok' : ¬ leE (g'.lo i + t) (g'.hi j) = true := by rw [hlo, hhi]; exact hok
        rw [gAddArc_eq_self_of_not hi hj hok, gAddArc_eq_self_of_not hi' hj' hok']
        exact h

/-! ### `add_travel_arcs` / `add_exit_arcs` as graph functions -/

def travelG (sup dem : List String) (nof : String → List String) (dist : String → String → ℚ) (speed unit : ℚ)
    (sfee dfee : String → ℚ) (g : Graph) : Graph :=
  sup.foldl (fun g sp => dem.foldl (fun g dp =>
    (nof sp).foldl (fun g sn => (nof dp).foldl (fun g dn =>
      travelStep dist speed unit sfee dfee sp dp sn dn g) g) g) g) g

theorem travel_g (m : Mirp) (dist : String → String → ℚ) (speed unit : ℚ) (sfee dfee : String → ℚ) :
    (m.addTravelArcs dist speed unit sfee dfee).g =
      travelG m.supply m.demand m.nodesOf dist speed unit sfee dfee m.g := rfl

def exitG (ports : List String) (nof : String → List String) (t c : ℚ) (g : Graph) : Graph :=
  ports.foldl (fun g port => (nof port).foldl (fun g nm => gAddArc g nm "Depot" t c) g) g

theorem exit_g (m : Mirp) (t c : ℚ) :
    (m.addExitArcs t c).g = exitG (m.supply ++ m.demand) m.nodesOf t c m.g := rfl

/-- a pair of graphs over the base node list of `g0` -/
def RelOn (g0 : Graph) (ex : List Node) (Q : Key → Option Arc) (g g' : Graph) : Prop :=
  g.nodes = g0.nodes ∧ Rel ex Q g g'

theorem gAddArc_relOn {g0 : Graph} {ex : List Node} {Q : Key → Option Arc} {g g' : Graph} (o d : String) (t c : ℚ)
    {i j : ℕ} (hi : g0.indexOf? o = some i) (hj : g0.indexOf? d = some j) (hQ : Q (i, j) = none)
    (h : RelOn g0 ex Q g g') : RelOn g0 ex Q (gAddArc g o d t c) (gAddArc g' o d t c) := by
  obtain ⟨hn, hr⟩ := h
  have e1 : g.indexOf? o = some i := by rw [Graph.indexOf?_congr hn]; exact hi
  have e2 : g.indexOf? d = some j := by rw [Graph.indexOf?_congr hn]; exact hj
  refine ⟨(gAddArc_nodes _ _ _ _ _).trans hn, gAddArc_rel o d t c hr (Or.inr ⟨⟨i, e1⟩, ⟨j, e2⟩⟩) ?_⟩
  intro i' j' hi' hj'
  rw [e1] at hi'; rw [e2] at hj'; cases hi'; cases hj'; exact hQ

theorem travelG_rel {g0 : Graph} {ex : List Node} {Q : Key → Option Arc} (sup dem : List String)
    (nof : String → List String) (dist : String → String → ℚ) (speed unit : ℚ) (sfee dfee : String → ℚ)
    (hs : ∀ sp ∈ sup, ∀ sn ∈ nof sp, ∃ i, g0.indexOf? sn = some i ∧ 0 < i)
    (hd : ∀ dp ∈ dem, ∀ dn ∈ nof dp, ∃ j, g0.indexOf? dn = some j ∧ 0 < j)
    (hQ : ∀ i j, 0 < i → i < g0.nodes.length → 0 < j → j < g0.nodes.length → Q (i, j) = none)
    {g g' : Graph} (h : RelOn g0 ex Q g g') :
    RelOn g0 ex Q (travelG sup dem nof dist speed unit sfee dfee g)
      (travelG sup dem nof dist speed unit sfee dfee g') := by
  unfold travelG
  refine foldl_rel (RelOn g0 ex Q) _ _ sup ?_ g g' h
  intro g g' h sp hsp
  refine foldl_rel (RelOn g0 ex Q) _ _ dem ?_ g g' h
  intro g g' h dp hdp
  refine foldl_rel (RelOn g0 ex Q) _ _ (nof sp) ?_ g g' h
  intro g g' h sn hsn
  refine foldl_rel (RelOn g0 ex Q) _ _ (nof dp) ?_ g g' h
  intro g g' h dn hdn
  obtain ⟨i, hi, hi0⟩ := hs sp hsp sn hsn
  obtain ⟨j, hj, hj0⟩ := hd dp hdp dn hdn
  have hil := Graph.indexOf?_lt hi
  have hjl := Graph.indexOf?_lt hj
  unfold travelStep
  exact gAddArc_relOn dn sn _ _ hj hi (hQ j i hj0 hjl hi0 hil)
    (gAddArc_relOn sn dn _ _ hi hj (hQ i j hi0 hil hj0 hjl) h)

theorem exitG_rel {g0 : Graph} {ex : List Node} {Q : Key → Option Arc} (ports : List String)
    (nof : String → List String) (t c : ℚ)
    (hp : ∀ p ∈ ports, ∀ nm ∈ nof p, ∃ i, g0.indexOf? nm = some i ∧ 0 < i)
    (hdep : g0.indexOf? "Depot" = some 0)
    (hQ : ∀ i, 0 < i → i < g0.nodes.length → Q (i, 0) = none)
    {g g' : Graph} (h : RelOn g0 ex Q g g') :
    RelOn g0 ex Q (exitG ports nof t c g) (exitG ports nof t c g') := by
  unfold exitG
  refine foldl_rel (RelOn g0 ex Q) _ _ ports ?_ g g' h
  intro g g' h p hpp
  refine foldl_rel (RelOn g0 ex Q) _ _ (nof p) ?_ g g' h
  intro g g' h nm hnm
  obtain ⟨i, hi, hi0⟩ := hp p hpp nm hnm
  exact gAddArc_relOn nm "Depot" t c hi hdep (hQ i hi0 (Graph.indexOf?_lt hi)) h

/-! ### `add_entry_arcs` on two graphs with the same nodes -/

theorem nodes_eq_of_rel_nil {Q : Key → Option Arc} {g g' : Graph} (h : Rel [] Q g g') : g'.nodes = g.nodes := by
  rw [h.nodes, List.append_nil]

theorem addNodeStep_rel {Q : Key → Option Arc} {g g' : Graph} (h : Rel [] Q g g') (nm : String) (d lo : ℚ)
    (hi : ERat) :
    (addNodeStep g' nm d lo hi).2 = (addNodeStep g nm d lo hi).2 ∧
      Rel [] Q (addNodeStep g nm d lo hi).1 (addNodeStep g' nm d lo hi).1 := by
  have hn := nodes_eq_of_rel_nil h
  have hnames : g'.names = g.names := by unfold Graph.names; rw [hn]
  unfold addNodeStep
  rw [hnames]
  split_ifs
  · exact ⟨rfl, h⟩
  · exact ⟨rfl, h⟩
  · exact ⟨rfl, ⟨by simp [hn], h.arcs⟩⟩

theorem entryStep_of_not (m : Mirp) (limit time cost : ℚ) {g : Graph} {k : ℕ} {nm : String}
    (h : nodeHiLt g nm limit = false) : entryStep m limit time cost (some (g, k)) nm = some (g, k) := by
  unfold entryStep
  simp only [h, Bool.false_eq_true, if_false]

theorem entryStep_of_err (m : Mirp) (limit time cost : ℚ) {g : Graph} {k : ℕ} {nm : String} {e : Err}
    (h : nodeHiLt g nm limit = true)
    (he : (addNodeStep g ("Dum" ++ toString k) (-m.size) 0 none).2 = .error e) :
    entryStep m limit time cost (some (g, k)) nm = none := by
  unfold entryStep
  simp only [h, if_true, he]

theorem entryStep_of_ok (m : Mirp) (limit time cost : ℚ) {g : Graph} {k : ℕ} {nm : String} {x : Option Bool}
    (h : nodeHiLt g nm limit = true)
    (he : (addNodeStep g ("Dum" ++ toString k) (-m.size) 0 none).2 = .ok x) :
    entryStep m limit time cost (some (g, k)) nm =
      some (gAddArc (gAddArc (addNodeStep g ("Dum" ++ toString k) (-m.size) 0 none).1 "Depot"
        ("Dum" ++ toString k) 0 0) ("Dum" ++ toString k) nm time cost, k + 1) := by
  unfold entryStep
  simp only [h, if_true, he]

/-- states of the second loop of `add_entry_arcs`, run on two graphs -/
def ORel (N : List Node) (Q : Key → Option Arc) : Option (Graph × ℕ) → Option (Graph × ℕ) → Prop
  | none, none => True
  | some (g, k), some (g', k') => k' = k ∧ (∃ ex, g.nodes = N ++ ex) ∧ Rel [] Q g g'
  | _, _ => False

theorem entryStep_rel {m : Mirp} (hinv : Inv m) {Q : Key → Option Arc}
    (hQ : ∀ a b, (a = 0 ∨ m.g.nodes.length ≤ a) → Q (a, b) = none) (limit time cost : ℚ)
    (nm : String) {st st' : Option (Graph × ℕ)} (h : ORel m.g.nodes Q st st') :
    ORel m.g.nodes Q (entryStep m limit time cost st nm) (entryStep m limit time cost st' nm) := by
  cases st with
  | none =>
    cases st' with
    | none => exact h
    | some gk' => exact h.elim
  | some gk =>
    cases st' with
    | none => exact h.elim
    | some gk' =>
      obtain ⟨g, k⟩ := gk
      obtain ⟨g', k'⟩ := gk'
      obtain ⟨hk, ⟨ex, hex⟩, hr⟩ := h
      have hk' := hk.symm
      subst hk'
      have hn := nodes_eq_of_rel_nil hr
      have hlt : nodeHiLt g' nm limit = nodeHiLt g nm limit := ma_nodeHiLt_congr hn nm limit
      by_cases hlim : nodeHiLt g nm limit = true
      · obtain ⟨hres, hra⟩ := addNodeStep_rel hr ("Dum" ++ toString k) (-m.size) 0 none
        cases hx : (addNodeStep g ("Dum" ++ toString k) (-m.size) 0 none).2 with
        | error e =>
          rw [entryStep_of_err m limit time cost hlim hx,
            entryStep_of_err m limit time cost (hlt.trans hlim) (hres.trans hx)]
          trivial
        | ok x =>
          rw [entryStep_of_ok m limit time cost hlim hx,
            entryStep_of_ok m limit time cost (hlt.trans hlim) (hres.trans hx)]
          obtain ⟨hfresh, hna, _⟩ := addNodeStep_ok hx
          have hga : (addNodeStep g ("Dum" ++ toString k) (-m.size) 0 none).1.nodes =
              m.g.nodes ++ (ex ++ [⟨"Dum" ++ toString k, -m.size, 0, none⟩]) := by
            rw [hna, hex, List.append_assoc]
          have hdep := Graph.indexOf?_append_old hga hinv.depot_index
          have hdum : (addNodeStep g ("Dum" ++ toString k) (-m.size) 0 none).1.indexOf? ("Dum" ++ toString k) =
              some g.nodes.length :=
            Graph.indexOf?_append_new (n := ⟨"Dum" ++ toString k, -m.size, 0, none⟩) hna hfresh
          have hg2n := gAddArc_nodes (addNodeStep g ("Dum" ++ toString k) (-m.size) 0 none).1 "Depot"
            ("Dum" ++ toString k) 0 0
          have hdum2 := (Graph.indexOf?_congr hg2n ("Dum" ++ toString k)).trans hdum
          have hlen : m.g.nodes.length ≤ g.nodes.length := by rw [hex, List.length_append]; omega
          have hrb := gAddArc_rel "Depot" ("Dum" ++ toString k) 0 0 hra (Or.inl rfl) (by
            intro a b ha _
            rw [hdep] at ha; cases ha
            exact hQ 0 b (Or.inl rfl))
          have hrc := gAddArc_rel ("Dum" ++ toString k) nm time cost hrb (Or.inl rfl) (by
            intro a b ha _
            rw [hdum2] at ha; cases ha
            exact hQ _ b (Or.inr hlen))
          refine ⟨rfl, ⟨ex ++ [⟨"Dum" ++ toString k, -m.size, 0, none⟩], ?_⟩, hrc⟩
          rw [gAddArc_nodes, gAddArc_nodes, hga]
      · have hlim' : nodeHiLt g nm limit = false := by simpa using hlim
        rw [entryStep_of_not m limit time cost hlim', entryStep_of_not m limit time cost (hlt.trans hlim')]
        exact ⟨rfl, ⟨ex, hex⟩, hr⟩

theorem entryG1_rel {m : Mirp} (hinv : Inv m) {Q : Key → Option Arc}
    (hQ : ∀ a b, (a = 0 ∨ m.g.nodes.length ≤ a) → Q (a, b) = none) (limit time cost : ℚ)
    {g' : Graph} (h : Rel [] Q m.g g') :
    RelOn m.g [] Q (entryG1 m limit time cost) (entryG1 { m with g := g' } limit time cost) := by
  unfold entryG1
  refine foldl_rel (RelOn m.g [] Q) _ _ m.supply ?_ m.g g' ⟨rfl, h⟩
  intro g1 g2 h12 p hp
  refine foldl_rel (RelOn m.g [] Q) _ _ (m.nodesOf p) ?_ g1 g2 h12
  intro g1 g2 h12 nm hnm
  obtain ⟨j, hj, _⟩ := hinv.supplyNodes p hp nm hnm
  show RelOn m.g [] Q (if nodeHiLt g1 nm limit then gAddArc g1 "Depot" nm time cost else g1)
    (if nodeHiLt g2 nm limit then gAddArc g2 "Depot" nm time cost else g2)
  rw [ma_nodeHiLt_congr (nodes_eq_of_rel_nil h12.2) nm limit]
  split_ifs
  · exact gAddArc_relOn "Depot" nm time cost hinv.depot_index hj (hQ 0 j (Or.inl rfl)) h12
  · exact h12

/-- `add_entry_arcs` on `m` and on `m` with its arc dictionary overridden by `Q` (`Q` undefined on the keys that
    `add_entry_arcs` writes: origin at position 0 or at a new position) -/
theorem entry_rel {m : Mirp} (hinv : Inv m) {Q : Key → Option Arc}
    (hQ : ∀ a b, (a = 0 ∨ m.g.nodes.length ≤ a) → Q (a, b) = none) (limit time cost : ℚ)
    {g' : Graph} (h : Rel [] Q m.g g') :
    (∀ a, m.addEntryArcs limit time cost = some a →
      ∃ b, ({ m with g := g' } : Mirp).addEntryArcs limit time cost = some b ∧ Rel [] Q a.g b.g ∧
        b = { a with g := b.g }) ∧
    (m.addEntryArcs limit time cost = none → ({ m with g := g' } : Mirp).addEntryArcs limit time cost = none) := by
  have hfold : ORel m.g.nodes Q
      (m.demand.foldl (fun st port => (m.nodesOf port).foldl (entryStep m limit time cost) st)
        (some (entryG1 m limit time cost, 0)))
      (m.demand.foldl (fun st port => (m.nodesOf port).foldl (entryStep m limit time cost) st)
        (some (entryG1 { m with g := g' } limit time cost, 0))) := by
    refine foldl_rel (ORel m.g.nodes Q) _ _ m.demand ?_ _ _ ?_
    · intro st st' hst p hp
      refine foldl_rel (ORel m.g.nodes Q) _ _ (m.nodesOf p) ?_ st st' hst
      intro st st' hst nm _
      exact entryStep_rel hinv hQ limit time cost nm hst
    · obtain ⟨h1, h2⟩ := entryG1_rel hinv hQ limit time cost h
      exact ⟨rfl, ⟨[], by rw [h1, List.append_nil]⟩, h2⟩
  have e1 := addEntryArcs_eq m limit time cost
  have e2 : ({ m with g := g' } : Mirp).addEntryArcs limit time cost =
      (m.demand.foldl (fun st port => (m.nodesOf port).foldl (entryStep m limit time cost) st)
        (some (entryG1 { m with g := g' } limit time cost, 0))).map
          fun (g, _) => { m with g := g } := rfl
  rw [e1, e2]
  generalize (m.demand.foldl (fun st port => (m.nodesOf port).foldl (entryStep m limit time cost) st)
        (some (entryG1 m limit time cost, 0))) = r at hfold
  generalize (m.demand.foldl (fun st port => (m.nodesOf port).foldl (entryStep m limit time cost) st)
        (some (entryG1 { m with g := g' } limit time cost, 0))) = r' at hfold
  cases r with
  | none =>
    cases r' with
    | none => exact ⟨fun a ha => (by cases ha), fun _ => rfl⟩
    | some gk' => exact hfold.elim
  | some gk =>
    cases r' with
    | none => exact hfold.elim
    | some gk' =>
      obtain ⟨g1, k1⟩ := gk
      obtain ⟨g2, k2⟩ := gk'
      obtain ⟨_, _, hr⟩ := hfold
      refine ⟨fun a ha => ?_, fun hn => (by cases hn)⟩
      simp only [Option.map_some, Option.some.injEq] at ha
      subst ha
      exact ⟨_, rfl, hr, rfl⟩

/-! ### the Mirp level -/

/-- everything but the graph agrees -/
structure SameTabs (m s : Mirp) : Prop where
  size : s.size = m.size
  horizon : s.horizon = m.horizon
  supply : s.supply = m.supply
  demand : s.demand = m.demand
  mapping : s.mapping = m.mapping

theorem SameTabs.refl (m : Mirp) : SameTabs m m := ⟨rfl, rfl, rfl, rfl, rfl⟩

theorem SameTabs.trans {m s r : Mirp} (h1 : SameTabs m s) (h2 : SameTabs s r) : SameTabs m r :=
  ⟨h2.size.trans h1.size, h2.horizon.trans h1.horizon, h2.supply.trans h1.supply, h2.demand.trans h1.demand,
    h2.mapping.trans h1.mapping⟩

theorem SameTabs.eq {m s : Mirp} (h : SameTabs m s) : s = { m with g := s.g } := by
  obtain ⟨h1, h2, h3, h4, h5⟩ := h
  cases s; cases m
  simp only at h1 h2 h3 h4 h5
  subst h1 h2 h3 h4 h5
  rfl

theorem SameTabs.nodesOf {m s : Mirp} (h : SameTabs m s) : s.nodesOf = m.nodesOf := by
  funext p; unfold Mirp.nodesOf; rw [h.mapping]

theorem sameTabs_travel (m : Mirp) (dist : String → String → ℚ) (speed unit : ℚ) (sfee dfee : String → ℚ) :
    SameTabs m (m.addTravelArcs dist speed unit sfee dfee) := ⟨rfl, rfl, rfl, rfl, rfl⟩

theorem sameTabs_exit (m : Mirp) (t c : ℚ) : SameTabs m (m.addExitArcs t c) := ⟨rfl, rfl, rfl, rfl, rfl⟩

theorem sameTabs_entry {m me : Mirp} {limit time cost : ℚ} (h : m.addEntryArcs limit time cost = some me) :
    SameTabs m me := by
  rw [addEntryArcs_eq, Option.map_eq_some_iff] at h
  obtain ⟨⟨g, k⟩, _, rfl⟩ := h
  exact ⟨rfl, rfl, rfl, rfl, rfl⟩

theorem dictGet_nil (k : Key) : dictGet [] k = none := rfl

/-- a state reached from the port-declaration state `m` by `add_travel_arcs` / `add_exit_arcs` calls only -/
structure Mid (m s : Mirp) : Prop where
  tabs : SameTabs m s
  nodes : s.g.nodes = m.g.nodes
  inv : Inv s
  support : ∀ a b, s.g.hasArc a b = true → 0 < a ∧ a < m.g.nodes.length

theorem mid_refl {m : Mirp} (hm : PortsDeclared m) : Mid m m :=
  ⟨SameTabs.refl m, rfl, hm.inv, fun a b h => absurd h (no_old_arcs hm a b)⟩

theorem mid_travel {m s : Mirp} (h : Mid m s) (dist : String → String → ℚ) (speed unit : ℚ)
    (sfee dfee : String → ℚ) : Mid m (s.addTravelArcs dist speed unit sfee dfee) := by
  obtain ⟨hn, ha⟩ := ma_travel_arcs s h.inv dist speed unit sfee dfee
  refine ⟨h.tabs.trans (sameTabs_travel s _ _ _ _ _), hn.trans h.nodes,
    addTravelArcs_inv h.inv _ _ _ _ _, fun a b hab => ?_⟩
  rcases (ha a b).mp hab with h0 | ⟨sp, hsp, dp, hdp, sn, hsn, dn, hdn, ⟨h1, _, _⟩ | ⟨h1, _, _⟩⟩
  · exact h.support a b h0
  · exact ⟨(h.inv.supply_at hsp hsn h1).1, by rw [← h.nodes]; exact Graph.indexOf?_lt h1⟩
  · exact ⟨(h.inv.demand_at hdp hdn h1).1, by rw [← h.nodes]; exact Graph.indexOf?_lt h1⟩

theorem mid_exit {m s : Mirp} (h : Mid m s) (t c : ℚ) : Mid m (s.addExitArcs t c) := by
  obtain ⟨hn, ha⟩ := ma_exit_arcs s h.inv t c
  refine ⟨h.tabs.trans (sameTabs_exit s _ _), hn.trans h.nodes, addExitArcs_inv h.inv _ _, fun a b hab => ?_⟩
  rcases (ha a b).mp hab with h0 | ⟨p, hp, nm, hnm, h1, _⟩
  · exact h.support a b h0
  · refine ⟨?_, by rw [← h.nodes]; exact Graph.indexOf?_lt h1⟩
    rcases List.mem_append.mp hp with hp | hp
    · exact (h.inv.supply_at hp hnm h1).1
    · exact (h.inv.demand_at hp hnm h1).1

/-- `s'` is `s` after an `add_entry_arcs` call: the nodes of `me`, the arcs of `s` and (first) those of `me` -/
structure Ext (m me s s' : Mirp) : Prop where
  tabs : SameTabs m s'
  nodes : s'.g.nodes = me.g.nodes
  arcs : ∀ k, dictGet s'.g.arcs k = (dictGet me.g.arcs k).or (dictGet s.g.arcs k)

/-- the keys written by `add_entry_arcs` start at position 0 or at a new position -/
theorem entry_support {m me : Mirp} (hm : PortsDeclared m) {limit time cost : ℚ}
    (he : m.addEntryArcs limit time cost = some me) (a b : ℕ) (h : me.g.hasArc a b = true) :
    a = 0 ∨ m.g.nodes.length ≤ a := by
  obtain ⟨hE, _⟩ := ma_entry_spec m hm.inv limit time cost me he
  rcases (hE.arcs a b).mp h with h1 | ⟨h1, _⟩ | ⟨h1, _⟩
  · rcases ((ma_entryG1_arcs m hm.inv limit time cost).2 a b).mp h1 with h2 | ⟨_, _, _, _, h2, _⟩
    · exact absurd h2 (no_old_arcs hm a b)
    · exact Or.inl h2
  · exact Or.inl h1
  · exact Or.inr h1

theorem entry_get_none {m me : Mirp} (hm : PortsDeclared m) {limit time cost : ℚ}
    (he : m.addEntryArcs limit time cost = some me) {a b : ℕ} (h0 : 0 < a) (hlt : a < m.g.nodes.length) :
    dictGet me.g.arcs (a, b) = none := by
  apply dictGet_none_of_not_has
  intro h
  rcases entry_support hm he a b h with h1 | h1 <;> omega

theorem ext_refl {m me : Mirp} (hm : PortsDeclared m) {limit time cost : ℚ}
    (he : m.addEntryArcs limit time cost = some me) : Ext m me m me :=
  ⟨sameTabs_entry he, rfl, fun k => by rw [hm.noArcs, dictGet_nil, Option.or_none]⟩

theorem rel_of_mid {m s : Mirp} (hm : PortsDeclared m) (h : Mid m s) :
    Rel [] (dictGet s.g.arcs) m.g s.g :=
  ⟨by rw [h.nodes, List.append_nil], fun k => by rw [hm.noArcs, dictGet_nil, Option.or_none]⟩

theorem mid_get_none {m s : Mirp} (h : Mid m s) {a b : ℕ} (ha : a = 0 ∨ m.g.nodes.length ≤ a) :
    dictGet s.g.arcs (a, b) = none := by
  apply dictGet_none_of_not_has
  intro hab
  have := h.support a b hab
  omega

theorem entry_none {m s : Mirp} (hm : PortsDeclared m) (h : Mid m s) {limit time cost : ℚ}
    (he : m.addEntryArcs limit time cost = none) : s.addEntryArcs limit time cost = none := by
  have := (entry_rel hm.inv (Q := dictGet s.g.arcs) (fun a b hab => mid_get_none h hab) limit time cost
    (rel_of_mid hm h)).2 he
  rw [← h.tabs.eq] at this
  exact this

theorem entry_some {m s me : Mirp} (hm : PortsDeclared m) (h : Mid m s) {limit time cost : ℚ}
    (he : m.addEntryArcs limit time cost = some me) :
    ∃ s', s.addEntryArcs limit time cost = some s' ∧ Ext m me s s' := by
  obtain ⟨b, hb, hr, hbe⟩ := (entry_rel hm.inv (Q := dictGet s.g.arcs) (fun a b hab => mid_get_none h hab)
    limit time cost (rel_of_mid hm h)).1 me he
  rw [← h.tabs.eq] at hb
  refine ⟨b, hb, ?_, nodes_eq_of_rel_nil hr, fun k => ?_⟩
  · have h1 := sameTabs_entry he
    rw [hbe]
    exact ⟨h1.size, h1.horizon, h1.supply, h1.demand, h1.mapping⟩
  · rw [hr.arcs k]
    obtain ⟨a, c⟩ := k
    cases hq : dictGet s.g.arcs (a, c) with
    | none => rw [Option.none_or, Option.or_none]
    | some x =>
      have hs := h.support a c (dictHas_of_get_some hq)
      rw [entry_get_none hm he hs.1 hs.2]
      rfl

theorem ext_travel {m me s s' : Mirp} (hm : PortsDeclared m) (h : Mid m s) {limit time cost : ℚ}
    (he : m.addEntryArcs limit time cost = some me) (hx : Ext m me s s')
    (dist : String → String → ℚ) (speed unit : ℚ) (sfee dfee : String → ℚ) :
    Ext m me (s.addTravelArcs dist speed unit sfee dfee) (s'.addTravelArcs dist speed unit sfee dfee) := by
  obtain ⟨⟨ex, hex⟩, _⟩ := ma_entry_nodes m me limit time cost he
  have hst : SameTabs s s' := ⟨hx.tabs.size.trans h.tabs.size.symm, hx.tabs.horizon.trans h.tabs.horizon.symm,
    hx.tabs.supply.trans h.tabs.supply.symm, hx.tabs.demand.trans h.tabs.demand.symm,
    hx.tabs.mapping.trans h.tabs.mapping.symm⟩
  have hlen : s.g.nodes.length = m.g.nodes.length := by rw [h.nodes]
  have hrel : RelOn s.g ex (dictGet me.g.arcs) s.g s'.g :=
    ⟨rfl, by rw [hx.nodes, hex, h.nodes], hx.arcs⟩
  have := travelG_rel (g0 := s.g) s.supply s.demand s.nodesOf dist speed unit sfee dfee
    (fun sp hsp sn hsn => by
      obtain ⟨i, h1, h2, _⟩ := h.inv.supplyNodes sp hsp sn hsn; exact ⟨i, h1, h2⟩)
    (fun dp hdp dn hdn => by
      obtain ⟨i, h1, h2, _⟩ := h.inv.demandNodes dp hdp dn hdn; exact ⟨i, h1, h2⟩)
    (fun i j hi hil _ _ => entry_get_none hm he hi (by rw [← hlen]; exact hil)) hrel
  rw [← travel_g, ← hst.supply, ← hst.demand, ← hst.nodesOf, ← travel_g] at this
  exact ⟨hx.tabs.trans (sameTabs_travel s' _ _ _ _ _), (ma_travel_nodes s' _ _ _ _ _).trans hx.nodes, this.2.arcs⟩

theorem ext_exit {m me s s' : Mirp} (hm : PortsDeclared m) (h : Mid m s) {limit time cost : ℚ}
    (he : m.addEntryArcs limit time cost = some me) (hx : Ext m me s s') (t c : ℚ) :
    Ext m me (s.addExitArcs t c) (s'.addExitArcs t c) := by
  obtain ⟨⟨ex, hex⟩, _⟩ := ma_entry_nodes m me limit time cost he
  have hst : SameTabs s s' := ⟨hx.tabs.size.trans h.tabs.size.symm, hx.tabs.horizon.trans h.tabs.horizon.symm,
    hx.tabs.supply.trans h.tabs.supply.symm, hx.tabs.demand.trans h.tabs.demand.symm,
    hx.tabs.mapping.trans h.tabs.mapping.symm⟩
  have hlen : s.g.nodes.length = m.g.nodes.length := by rw [h.nodes]
  have hrel : RelOn s.g ex (dictGet me.g.arcs) s.g s'.g :=
    ⟨rfl, by rw [hx.nodes, hex, h.nodes], hx.arcs⟩
  have := exitG_rel (g0 := s.g) (s.supply ++ s.demand) s.nodesOf t c
    (fun p hp nm hnm => by
      rcases List.mem_append.mp hp with hp | hp
      · obtain ⟨i, h1, h2, _⟩ := h.inv.supplyNodes p hp nm hnm; exact ⟨i, h1, h2⟩
      · obtain ⟨i, h1, h2, _⟩ := h.inv.demandNodes p hp nm hnm; exact ⟨i, h1, h2⟩)
    h.inv.depot_index
    (fun i hi hil => entry_get_none hm he hi (by rw [← hlen]; exact hil)) hrel
  rw [← exit_g, ← hst.supply, ← hst.demand, ← hst.nodesOf, ← exit_g] at this
  exact ⟨hx.tabs.trans (sameTabs_exit s' _ _), (ma_exit_nodes s' _ _).trans hx.nodes, this.2.arcs⟩

/-! ### `add_travel_arcs` and `add_exit_arcs` commute -/

theorem travel_dest_pos {m : Mirp} (hm : PortsDeclared m) (dist : String → String → ℚ) (speed unit : ℚ)
    (sfee dfee : String → ℚ) {a b : ℕ} (h : (m.addTravelArcs dist speed unit sfee dfee).g.hasArc a b = true) :
    0 < b := by
  rcases ((ma_travel_arcs m hm.inv dist speed unit sfee dfee).2 a b).mp h with
    h0 | ⟨sp, hsp, dp, hdp, sn, hsn, dn, hdn, ⟨_, h1, _⟩ | ⟨_, h1, _⟩⟩
  · exact absurd h0 (no_old_arcs hm a b)
  · exact (hm.inv.demand_at hdp hdn h1).1
  · exact (hm.inv.supply_at hsp hsn h1).1

theorem exit_dest_zero {m : Mirp} (hm : PortsDeclared m) (t c : ℚ) {a b : ℕ}
    (h : (m.addExitArcs t c).g.hasArc a b = true) : b = 0 := by
  rcases ((ma_exit_arcs m hm.inv t c).2 a b).mp h with h0 | ⟨_, _, _, _, _, h1⟩
  · exact absurd h0 (no_old_arcs hm a b)
  · exact h1

theorem comm_travel_exit {m : Mirp} (hm : PortsDeclared m) (dist : String → String → ℚ) (speed unit : ℚ)
    (sfee dfee : String → ℚ) (t c : ℚ) (k : Key) :
    dictGet ((m.addExitArcs t c).addTravelArcs dist speed unit sfee dfee).g.arcs k =
      dictGet ((m.addTravelArcs dist speed unit sfee dfee).addExitArcs t c).g.arcs k := by
  have hs : ∀ sp ∈ m.supply, ∀ sn ∈ m.nodesOf sp, ∃ i, m.g.indexOf? sn = some i ∧ 0 < i := fun sp hsp sn hsn => by
    obtain ⟨i, h1, h2, _⟩ := hm.inv.supplyNodes sp hsp sn hsn; exact ⟨i, h1, h2⟩
  have hd : ∀ dp ∈ m.demand, ∀ dn ∈ m.nodesOf dp, ∃ i, m.g.indexOf? dn = some i ∧ 0 < i := fun dp hdp dn hdn => by
    obtain ⟨i, h1, h2, _⟩ := hm.inv.demandNodes dp hdp dn hdn; exact ⟨i, h1, h2⟩
  -- travel after exit
  have h1 : RelOn m.g [] (dictGet (m.addExitArcs t c).g.arcs) m.g (m.addExitArcs t c).g :=
    ⟨rfl, by rw [ma_exit_nodes, List.append_nil], fun k => by rw [hm.noArcs, dictGet_nil, Option.or_none]⟩
  have r1 := travelG_rel (g0 := m.g) m.supply m.demand m.nodesOf dist speed unit sfee dfee hs hd
    (fun i j _ _ hj _ => dictGet_none_of_not_has (fun hab => by
      have := exit_dest_zero hm t c hab; omega)) h1
  have e1 : dictGet ((m.addExitArcs t c).addTravelArcs dist speed unit sfee dfee).g.arcs k =
      (dictGet (m.addExitArcs t c).g.arcs k).or (dictGet (m.addTravelArcs dist speed unit sfee dfee).g.arcs k) :=
    r1.2.arcs k
  -- exit after travel
  have h2 : RelOn m.g [] (dictGet (m.addTravelArcs dist speed unit sfee dfee).g.arcs) m.g
      (m.addTravelArcs dist speed unit sfee dfee).g :=
    ⟨rfl, by rw [ma_travel_nodes, List.append_nil], fun k => by rw [hm.noArcs, dictGet_nil, Option.or_none]⟩
  have r2 := exitG_rel (g0 := m.g) (m.supply ++ m.demand) m.nodesOf t c
    (fun p hp nm hnm => by
      rcases List.mem_append.mp hp with hp | hp
      · exact hs p hp nm hnm
      · exact hd p hp nm hnm)
    hm.inv.depot_index
    (fun i _ _ => dictGet_none_of_not_has (fun hab => by
      have := travel_dest_pos hm dist speed unit sfee dfee hab; omega)) h2
  have e2 : dictGet ((m.addTravelArcs dist speed unit sfee dfee).addExitArcs t c).g.arcs k =
      (dictGet (m.addTravelArcs dist speed unit sfee dfee).g.arcs k).or (dictGet (m.addExitArcs t c).g.arcs k) :=
    r2.2.arcs k
  rw [e1, e2]
  obtain ⟨a, b⟩ := k
  cases hx : dictGet (m.addExitArcs t c).g.arcs (a, b) with
  | none => rw [Option.none_or, Option.or_none]
  | some x =>
    cases ht : dictGet (m.addTravelArcs dist speed unit sfee dfee).g.arcs (a, b) with
    | none => rfl
    | some y =>
      have := exit_dest_zero hm t c (dictHas_of_get_some hx)
      have := travel_dest_pos hm dist speed unit sfee dfee (dictHas_of_get_some ht)
      omega

end Vrp.C12c
