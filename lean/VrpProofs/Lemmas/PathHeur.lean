import VrpModel.Heuristics
import VrpProofs.Props.C06
import VrpProofs.Lemmas.MirpGraph
import VrpProofs.Lemmas.Sum

/-!
# Helper lemmas for the path-based construction heuristic (`PathInst.makeFeasible`)

* `Cov` — the bookkeeping invariant "every customer is unvisited or lies in exactly one local route";
* `genRoute` only visits unvisited nodes (when the sampler picks among the candidates);
* `freshDummy` returns an unused name (pigeonhole);
* small graph lemmas (`nameOf`, `gAddArc` keeps vehicle data, `arc?` after `gAddArc`, `lo`/`hi` under append);
* pool lemmas (`PoolInv` only depends on the node count; facts about a call of `addRoute` reporting "feasible");
* the stored vector of an exact cover satisfies the constraint data.
-/
namespace Vrp
open Vrp

/-! ### cover bookkeeping (pure lists) -/

/-- `unv` = nodes not yet covered, `routes` = the local route list; `N` = current number of nodes -/
structure Cov (N : ℕ) (unv : List ℕ) (routes : List (List ℕ)) : Prop where
  nodup : unv.Nodup
  bound : ∀ u ∈ unv, u < N
  disj : ∀ r ∈ routes, ∀ k ∈ r, k ≠ 0 → k ∉ unv
  cover : ∀ k, 1 ≤ k → k < N → k ∈ unv ∨ ∃ r ∈ routes, k ∈ r
  uniq : ∀ r ∈ routes, ∀ r' ∈ routes, ∀ k, k ≠ 0 → k ∈ r → k ∈ r' → r = r'
  rbound : ∀ r ∈ routes, ∀ k ∈ r, k < N

theorem cov_init (N : ℕ) : Cov N (List.range N) [] :=
  ⟨List.nodup_range, fun _ hu => List.mem_range.1 hu, by simp,
   fun k _ hk => Or.inl (List.mem_range.2 hk), by simp, by simp⟩

/-- greedy phase: an accepted route built from unvisited nodes -/
theorem Cov.greedy {N : ℕ} {unv : List ℕ} {routes : List (List ℕ)} (h : Cov N unv routes) (r : List ℕ)
    (hr : ∀ k ∈ r, k = 0 ∨ k ∈ unv) (hb : ∀ k ∈ r, k < N) :
    Cov N (unv.filter (fun n => n = 0 ∨ n ∉ r)) (routes ++ [r]) := by
  refine ⟨h.nodup.filter _, fun u hu => h.bound u (List.mem_of_mem_filter hu), ?_, ?_, ?_, ?_⟩
  · intro r' hr' k hk hk0 hmem
    rw [List.mem_filter] at hmem
    rcases List.mem_append.1 hr' with hr' | hr'
    · exact h.disj r' hr' k hk hk0 hmem.1
    · rw [List.mem_singleton] at hr'; subst hr'
      have := hmem.2
      simp [hk0, hk] at this
  · intro k hk1 hkN
    rcases h.cover k hk1 hkN with hu | ⟨r', hr', hk⟩
    · by_cases hkr : k ∈ r
      · exact Or.inr ⟨r, by simp, hkr⟩
      · left; rw [List.mem_filter]; exact ⟨hu, by simp [hkr]⟩
    · exact Or.inr ⟨r', List.mem_append_left _ hr', hk⟩
  · intro r1 h1 r2 h2 k hk0 hk1 hk2
    rcases List.mem_append.1 h1 with h1 | h1 <;> rcases List.mem_append.1 h2 with h2 | h2
    · exact h.uniq r1 h1 r2 h2 k hk0 hk1 hk2
    · rw [List.mem_singleton.1 h2] at hk2
      rcases hr k hk2 with h0 | hu
      · exact absurd h0 hk0
      · exact absurd hu (h.disj r1 h1 k hk1 hk0)
    · rw [List.mem_singleton.1 h1] at hk1
      rcases hr k hk1 with h0 | hu
      · exact absurd h0 hk0
      · exact absurd hu (h.disj r2 h2 k hk2 hk0)
    · rw [List.mem_singleton] at h1 h2; rw [h1, h2]
  · intro r' hr' k hk
    rcases List.mem_append.1 hr' with hr' | hr'
    · exact h.rbound r' hr' k hk
    · rw [List.mem_singleton] at hr'; subst hr'; exact hb k hk

/-- between the phases the depot is dropped from the unvisited list -/
theorem Cov.dropZero {N : ℕ} {unv : List ℕ} {routes : List (List ℕ)} (h : Cov N unv routes) :
    Cov N (unv.filter (· ≠ 0)) routes := by
  refine ⟨h.nodup.filter _, fun u hu => h.bound u (List.mem_of_mem_filter hu), ?_, ?_, h.uniq, h.rbound⟩
  · intro r hr k hk hk0 hmem
    exact h.disj r hr k hk hk0 (List.mem_of_mem_filter hmem)
  · intro k hk1 hkN
    rcases h.cover k hk1 hkN with hu | hx
    · left; rw [List.mem_filter]; exact ⟨hu, by simp; omega⟩
    · exact Or.inr hx

/-- dummy phase: node `N` is appended and the route `[0, N, u, 0]` covers it and the unvisited `u` -/
theorem Cov.dummy {N u : ℕ} {rest : List ℕ} {routes : List (List ℕ)} (h : Cov N (u :: rest) routes)
    (hu0 : u ≠ 0) : Cov (N + 1) rest (routes ++ [[0, N, u, 0]]) := by
  have hnd := List.nodup_cons.1 h.nodup
  have huN : u < N := h.bound u List.mem_cons_self
  refine ⟨hnd.2, fun v hv => Nat.lt_succ_of_lt (h.bound v (List.mem_cons_of_mem _ hv)), ?_, ?_, ?_, ?_⟩
  · intro r hr k hk hk0 hmem
    rcases List.mem_append.1 hr with hr | hr
    · exact h.disj r hr k hk hk0 (List.mem_cons_of_mem _ hmem)
    · rw [List.mem_singleton] at hr; subst hr
      simp only [List.mem_cons, List.not_mem_nil, or_false] at hk
      rcases hk with rfl | rfl | rfl | rfl
      · exact hk0 rfl
      · exact absurd (h.bound _ (List.mem_cons_of_mem _ hmem)) (lt_irrefl _)
      · exact hnd.1 hmem
      · exact hk0 rfl
  · intro k hk1 hkN
    by_cases hkN' : k = N
    · exact Or.inr ⟨[0, N, u, 0], by simp, by simp [hkN']⟩
    · rcases h.cover k hk1 (by omega) with hm | ⟨r, hr, hk⟩
      · rcases List.mem_cons.1 hm with rfl | hm
        · exact Or.inr ⟨[0, N, k, 0], by simp, by simp⟩
        · exact Or.inl hm
      · exact Or.inr ⟨r, List.mem_append_left _ hr, hk⟩
  · have key : ∀ r ∈ routes, ∀ k, k ≠ 0 → k ∈ r → k ∈ [0, N, u, 0] → False := by
      intro r hr k hk0 hk hk'
      simp only [List.mem_cons, List.not_mem_nil, or_false] at hk'
      rcases hk' with rfl | rfl | rfl | rfl
      · exact hk0 rfl
      · exact absurd (h.rbound r hr _ hk) (lt_irrefl _)
      · exact h.disj r hr _ hk hk0 List.mem_cons_self
      · exact hk0 rfl
    intro r1 h1 r2 h2 k hk0 hk1 hk2
    rcases List.mem_append.1 h1 with h1 | h1 <;> rcases List.mem_append.1 h2 with h2 | h2
    · exact h.uniq r1 h1 r2 h2 k hk0 hk1 hk2
    · rw [List.mem_singleton.1 h2] at hk2
      exact (key r1 h1 k hk0 hk1 hk2).elim
    · rw [List.mem_singleton.1 h1] at hk1
      exact (key r2 h2 k hk0 hk2 hk1).elim
    · rw [List.mem_singleton] at h1 h2; rw [h1, h2]
  · intro r hr k hk
    rcases List.mem_append.1 hr with hr | hr
    · exact Nat.lt_succ_of_lt (h.rbound r hr k hk)
    · rw [List.mem_singleton] at hr; subst hr
      simp only [List.mem_cons, List.not_mem_nil, or_false] at hk
      rcases hk with rfl | rfl | rfl | rfl <;> omega

/-- at the end every customer lies in exactly one local route -/
theorem Cov.exact {N : ℕ} {routes : List (List ℕ)} (h : Cov N [] routes) (k : ℕ) (hk1 : 1 ≤ k) (hk : k < N) :
    ∃ r ∈ routes, k ∈ r ∧ ∀ r' ∈ routes, k ∈ r' → r' = r := by
  rcases h.cover k hk1 hk with hm | ⟨r, hr, hkr⟩
  · cases hm
  · exact ⟨r, hr, hkr, fun r' hr' hk' => h.uniq r' hr' r hr k (by omega) hk' hkr⟩

/-! ### `genRoute` -/

/-- a sampler that picks among the candidates only ever walks through unvisited nodes -/
theorem genRoute_mem (g : Graph) (cap : ℚ) (pick : ℕ → List ℕ → ℕ)
    (hpick : ∀ c l, l ≠ [] → pick c l ∈ l) (unv : List ℕ) :
    ∀ legs cur x time load r c, (∀ k ∈ r, k = 0 ∨ k ∈ unv) →
      ∀ k ∈ (genRoute g cap pick legs cur x time load unv r c).1, k = 0 ∨ k ∈ unv := by
  intro legs
  induction legs with
  | zero => intro cur x time load r c hr; simpa [genRoute] using hr
  | succ legs ih =>
    intro cur x time load r c hr
    rw [genRoute]
    simp only
    by_cases hemp : (routeCands g cap cur time load unv).isEmpty = true
    · rw [if_pos hemp]; exact hr
    · rw [if_neg hemp]
      have hne : routeCands g cap cur time load unv ≠ [] := by simpa using hemp
      have hin := hpick c _ hne
      have hu : pick c (routeCands g cap cur time load unv) ∈ unv := by
        unfold routeCands at hin ⊢
        exact List.mem_of_mem_filter hin
      cases hca : checkArc g cap time load cur (pick c (routeCands g cap cur time load unv)) with
      | none => exact hr
      | some p =>
        obtain ⟨t, l⟩ := p
        simp only
        by_cases h0 : pick c (routeCands g cap cur time load unv) = 0
        · rw [if_pos h0]
          intro k hk
          rcases List.mem_append.1 hk with hk | hk
          · exact hr k hk
          · left; simpa using hk
        · rw [if_neg h0]
          apply ih
          intro k hk
          rcases List.mem_append.1 hk with hk | hk
          · exact hr k hk
          · right; rw [List.mem_singleton] at hk; rw [hk]; exact hu

/-! ### `freshDummy` -/

theorem freshDummy_fresh_aux (g : Graph) (u : ℕ) : ∀ fuel nm (T : List String), T.Nodup → T ⊆ g.names →
    (∀ s ∈ T, s.length < nm.length) → g.names.length < T.length + fuel →
    freshDummy g u fuel nm ∉ g.names := by
  intro fuel
  induction fuel with
  | zero =>
    intro nm T hT hsub _ hlen
    have := (hT.subperm hsub).length_le
    omega
  | succ fuel ih =>
    intro nm T hT hsub hshort hlen
    rw [freshDummy]
    split_ifs with hmem
    · refine ih (nm ++ "_") (nm :: T) ?_ ?_ ?_ ?_
      · refine List.nodup_cons.2 ⟨fun hin => ?_, hT⟩
        exact absurd (hshort nm hin) (lt_irrefl _)
      · intro s hs
        rcases List.mem_cons.1 hs with rfl | hs
        · exact hmem
        · exact hsub hs
      · intro s hs
        rw [String.length_append]
        rcases List.mem_cons.1 hs with rfl | hs
        · have : "_".length = 1 := by decide
          omega
        · have := hshort s hs; omega
      · simp only [List.length_cons]; omega
    · exact hmem

/-- with more candidates than existing names the returned name is unused -/
theorem freshDummy_fresh (g : Graph) (u fuel : ℕ) (nm : String) (h : g.names.length < fuel) :
    freshDummy g u fuel nm ∉ g.names :=
  freshDummy_fresh_aux g u fuel nm [] List.nodup_nil (by simp) (by simp) (by simpa using h)

/-! ### graph lemmas -/

theorem gAdd_eq (g : Graph) (o d : String) (t c : ℚ) :
    PathInst.makeFeasible.gAdd g o d t c = gAddArc g o d t c := rfl

theorem indexOf?_nameOf (g : Graph) (hn : g.names.Nodup) (i : ℕ) (hi : i < g.nodes.length) :
    g.indexOf? (nameOf g i) = some i := by
  have hi' : i < g.names.length := by rw [g.names_length]; exact hi
  have h1 : nameOf g i = g.names[i] := by simp [nameOf, List.getElem?_eq_getElem hi']
  unfold Graph.indexOf?
  simp only
  rw [h1, hn.idxOf_getElem i hi', if_pos hi]

theorem nameOf_congr {g g' : Graph} (h : g'.nodes = g.nodes) (i : ℕ) : nameOf g' i = nameOf g i := by
  simp [nameOf, Graph.names, h]

theorem gAddArc_cap (g : Graph) (o d : String) (t c : ℚ) : (gAddArc g o d t c).cap = g.cap := by
  rcases gAddArc_cases g o d t c with h | ⟨i, j, _, _, _, h⟩ <;> rw [h]

theorem gAddArc_init (g : Graph) (o d : String) (t c : ℚ) : (gAddArc g o d t c).init = g.init := by
  rcases gAddArc_cases g o d t c with h | ⟨i, j, _, _, _, h⟩ <;> rw [h]

theorem gAddArc_names (g : Graph) (o d : String) (t c : ℚ) : (gAddArc g o d t c).names = g.names := by
  simp [Graph.names, gAddArc_nodes]

theorem Graph.lo_append_old {g g' : Graph} {ex : List Node} (h : g'.nodes = g.nodes ++ ex)
    {i : ℕ} (hi : i < g.nodes.length) : g'.lo i = g.lo i := by
  simp [Graph.lo, h, List.getElem?_append_left hi]

theorem Graph.hi_append_old {g g' : Graph} {ex : List Node} (h : g'.nodes = g.nodes ++ ex)
    {i : ℕ} (hi : i < g.nodes.length) : g'.hi i = g.hi i := by
  simp [Graph.hi, h, List.getElem?_append_left hi]

theorem Graph.lo_append_new {g g' : Graph} {n : Node} (h : g'.nodes = g.nodes ++ [n]) :
    g'.lo g.nodes.length = n.lo := by
  simp [Graph.lo, h]

theorem Graph.hi_append_new {g g' : Graph} {n : Node} (h : g'.nodes = g.nodes ++ [n]) :
    g'.hi g.nodes.length = n.hi := by
  simp [Graph.hi, h]

theorem gAddArc_arc?_self {g : Graph} {o d : String} {t c : ℚ} {i j : ℕ}
    (hi : g.indexOf? o = some i) (hj : g.indexOf? d = some j)
    (hok : leE (g.lo i + t) (g.hi j) = true) :
    (gAddArc g o d t c).arc? i j = some ⟨o, d, t, c⟩ := by
  rw [gAddArc_eq_of hi hj hok]
  exact dictGet_dictSet_self _ _ _

theorem gAddArc_arc?_ne {g : Graph} {o d : String} {t c : ℚ} {i j i' j' : ℕ}
    (hi : g.indexOf? o = some i) (hj : g.indexOf? d = some j) (hne : (i', j') ≠ (i, j)) :
    (gAddArc g o d t c).arc? i' j' = g.arc? i' j' := by
  rcases gAddArc_cases g o d t c with h | ⟨i2, j2, h1, h2, _, h⟩ <;> rw [h]
  rw [hi] at h1; rw [hj] at h2; cases h1; cases h2
  exact dictGet_dictSet_ne _ _ hne

theorem hasArc_arc? {g : Graph} {i j : ℕ} (h : g.hasArc i j = true) : ∃ a, g.arc? i j = some a := by
  obtain ⟨e, he, hek⟩ := dictHas_iff.mp h
  unfold Graph.arc? dictGet
  cases hf : g.arcs.find? (fun e => e.1 = (i, j)) with
  | none =>
    have := List.find?_eq_none.1 hf e he
    simp [hek] at this
  | some a => exact ⟨a.2, rfl⟩

/-! ### pool lemmas -/

theorem PoolInv.mem_bound {P : PathInst} (h : C06.PoolInv P) {r : List ℕ} (hr : r ∈ P.routes) :
    ∀ i ∈ r, i < P.g.nodes.length := by
  obtain ⟨k, hk, rfl⟩ := List.getElem_of_mem hr
  intro i hi
  exact (h.visits k hk i).2 hi

/-- `PoolInv` refers to the graph only through the node count -/
theorem poolInv_graph (P : PathInst) (g' : Graph) (h : C06.PoolInv P)
    (hl : P.g.nodes.length ≤ g'.nodes.length) : C06.PoolInv ({ P with g := g' } : PathInst) := by
  refine ⟨h.nodup, h.lenC, h.lenV, ?_, h.ends⟩
  intro k hk i
  refine ⟨(h.visits k hk i).1, fun hi => ?_⟩
  exact lt_of_lt_of_le ((h.visits k hk i).2 hi) hl

/-- a call of `add_route` on an index route that reports "feasible": the route is in the pool afterwards -/
theorem addRoute_feas_facts (P : PathInst) (hg : C15.Inv P.g) (h : C06.PoolInv P) (r : List ℕ) (x : Bool)
    (ha : (P.addRoute (r.map Stop.idx)).2 = .ok (true, x)) :
    C06.PoolInv (P.addRoute (r.map Stop.idx)).1 ∧ (P.addRoute (r.map Stop.idx)).1.g = P.g ∧
    r ∈ (P.addRoute (r.map Stop.idx)).1.routes ∧
    ∀ r' ∈ P.routes, r' ∈ (P.addRoute (r.map Stop.idx)).1.routes := by
  obtain ⟨h1, h2, h3, _⟩ := C06.addRoute_inv P hg h (r.map Stop.idx)
  obtain ⟨e1, e2, e3⟩ := h3 true x ha
  rw [resolveAll_map_idx] at e1 e3
  refine ⟨h1, h2, ?_, ?_⟩
  · cases x with
    | true => rw [e3 rfl]; simp
    | false =>
      rw [e2 rfl]
      by_contra hn
      have := e1.2 ⟨rfl, hn⟩
      cases this
  · intro r' hr'
    cases x with
    | true => rw [e3 rfl]; exact List.mem_append_left _ hr'
    | false => rw [e2 rfl]; exact hr'

/-! ### the stored vector -/

/-- the vector `make_feasible` stores: 1 at the positions of the pool routes that are local routes -/
def solOf (Q : PathInst) (routes : List (List ℕ)) : List ℚ :=
  (List.range Q.costs.length).map fun i => if (Q.routes[i]?).any (· ∈ routes) then 1 else 0

theorem solOf_length (Q : PathInst) (routes : List (List ℕ)) : (solOf Q routes).length = Q.data.n := by
  simp [solOf, PathInst.data]

theorem solOf_bin (Q : PathInst) (routes : List (List ℕ)) : ∀ v ∈ solOf Q routes, v = 0 ∨ v = 1 := by
  intro v hv
  simp only [solOf, List.mem_map] at hv
  obtain ⟨i, _, rfl⟩ := hv
  split_ifs <;> simp

theorem vecOf_solOf (Q : PathInst) (routes : List (List ℕ)) (b : ℕ) (hb : b < Q.routes.length)
    (hl : Q.costs.length = Q.routes.length) :
    vecOf (solOf Q routes) b = if Q.routes[b] ∈ routes then 1 else 0 := by
  have hb' : b < Q.costs.length := by omega
  simp [vecOf, solOf, hb', hb]

theorem sumTo_zero (n : ℕ) : sumTo n (fun _ => (0 : ℚ)) = 0 := by
  induction n with
  | zero => rfl
  | succ k ih => simp [sumTo, ih]

/-- the stored vector of an exact cover by pool routes satisfies the constraint data -/
theorem solOf_feasible (Q : PathInst) (hp : C06.PoolInv Q) (routes : List (List ℕ))
    (hsub : ∀ r ∈ routes, r ∈ Q.routes) (hcov : Cov Q.g.nodes.length [] routes) :
    Q.data.feasibleB (vecOf (solOf Q routes)) = true := by
  unfold MPData.feasibleB
  rw [Bool.and_eq_true]
  constructor
  · rw [List.all_eq_true]
    intro r hr
    have hr' : r < Q.g.nodes.length - 1 := List.mem_range.1 hr
    rw [decide_eq_true_eq]
    obtain ⟨r0, hr0, hk0, huniq⟩ := hcov.exact (r + 1) (by omega) (by omega)
    obtain ⟨j0, hj0, hj0e⟩ := List.getElem_of_mem (hsub r0 hr0)
    have hn : Q.data.n = Q.routes.length := hp.lenC
    have hb1 : Q.data.bvec r = 1 :=
      (C06.path_cover_matrix Q hp j0 (r + 1) hj0 (by omega) (by omega)).2.2.2.1 r hr'
    rw [hb1]
    unfold MPData.rowVal
    rw [sumTo_eq, hn, Finset.sum_eq_single j0]
    · have hA := (C06.path_cover_matrix Q hp j0 (r + 1) hj0 (by omega) (by omega)).1
      simp only [Nat.add_sub_cancel] at hA
      rw [hA, vecOf_solOf Q routes j0 hj0 hp.lenC, hj0e, if_pos hk0, if_pos hr0]
      norm_num
    · intro b hb hne
      have hb' : b < Q.routes.length := Finset.mem_range.1 hb
      have hA := (C06.path_cover_matrix Q hp b (r + 1) hb' (by omega) (by omega)).1
      simp only [Nat.add_sub_cancel] at hA
      rw [hA, vecOf_solOf Q routes b hb' hp.lenC]
      by_cases h1 : r + 1 ∈ Q.routes[b]
      · by_cases h2 : Q.routes[b] ∈ routes
        · exfalso
          have := huniq _ h2 h1
          rw [← hj0e] at this
          exact hne ((hp.nodup.getElem_inj_iff).1 this)
        · rw [if_neg h2]; simp
      · rw [if_neg h1]; simp
    · intro hnot
      exact absurd (Finset.mem_range.2 hj0) hnot
  · rw [decide_eq_true_eq]
    have hR : Q.data.Rmat = fun _ _ => 0 := by
      funext i j
      simp [MPData.Rmat, PathInst.data]
    rw [hR]
    simp [quad, sumTo_zero]

end Vrp
