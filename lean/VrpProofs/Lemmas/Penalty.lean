import VrpModel.Program
import VrpProofs.Lemmas.QuboBridge
import Mathlib.Algebra.Order.BigOperators.Group.Finset
import Mathlib.Algebra.Order.BigOperators.Group.List
import Mathlib.Algebra.Order.BigOperators.Ring.Finset
import Mathlib.Algebra.BigOperators.Group.List.Basic
import Mathlib.Algebra.Order.Ring.Abs
import Mathlib.Tactic.Linarith
import Mathlib.Tactic.Ring

/-! generic lemmas for C04: `absR`, integrality, list sums, keyed triangle inequalities -/
namespace Vrp
open Finset

theorem absR_eq (x : ℚ) : absR x = |x| := by
  unfold absR
  split_ifs with h
  · exact (abs_of_neg h).symm
  · exact (abs_of_nonneg (not_lt.1 h)).symm

/-! ### integrality -/

/-- `q` is an integer -/
def IsInt (q : ℚ) : Prop := ∃ z : ℤ, q = (z : ℚ)

theorem IsInt.zero : IsInt 0 := ⟨0, by simp⟩
theorem IsInt.one : IsInt 1 := ⟨1, by simp⟩
theorem IsInt.natCast (k : ℕ) : IsInt (k : ℚ) := ⟨k, by simp⟩
theorem IsInt.add {a b : ℚ} (ha : IsInt a) (hb : IsInt b) : IsInt (a + b) := by
  obtain ⟨x, rfl⟩ := ha; obtain ⟨y, rfl⟩ := hb; exact ⟨x + y, by push_cast; rfl⟩
theorem IsInt.sub {a b : ℚ} (ha : IsInt a) (hb : IsInt b) : IsInt (a - b) := by
  obtain ⟨x, rfl⟩ := ha; obtain ⟨y, rfl⟩ := hb; exact ⟨x - y, by push_cast; rfl⟩
theorem IsInt.mul {a b : ℚ} (ha : IsInt a) (hb : IsInt b) : IsInt (a * b) := by
  obtain ⟨x, rfl⟩ := ha; obtain ⟨y, rfl⟩ := hb; exact ⟨x * y, by push_cast; rfl⟩
theorem IsInt.neg {a : ℚ} (ha : IsInt a) : IsInt (-a) := by
  obtain ⟨x, rfl⟩ := ha; exact ⟨-x, by push_cast; rfl⟩

theorem IsInt.sumTo {n : ℕ} {f : ℕ → ℚ} (h : ∀ i < n, IsInt (f i)) : IsInt (sumTo n f) := by
  induction n with
  | zero => exact IsInt.zero
  | succ k ih =>
    exact (ih fun i hi => h i (Nat.lt_succ_of_lt hi)).add (h k (Nat.lt_succ_self k))

theorem IsInt.listSum {l : List ℚ} (h : ∀ q ∈ l, IsInt q) : IsInt l.sum := by
  induction l with
  | nil => exact IsInt.zero
  | cons a l ih =>
    rw [List.sum_cons]
    exact (h a List.mem_cons_self).add (ih fun q hq => h q (List.mem_cons_of_mem _ hq))

theorem IsInt.sumList {l : List ℚ} (h : ∀ q ∈ l, IsInt q) : IsInt (sumList l) := by
  rw [sumList_eq]; exact IsInt.listSum h

theorem IsInt.of_bin {n : ℕ} {x : Vec} (hx : IsBin n x) {i : ℕ} (hi : i < n) : IsInt (x i) := by
  rcases hx i hi with h | h <;> rw [h]
  · exact IsInt.zero
  · exact IsInt.one

theorem IsInt.vecOf {l : List ℚ} (h : ∀ q ∈ l, IsInt q) (i : ℕ) : IsInt (vecOf l i) := by
  unfold Vrp.vecOf
  rw [List.getD_eq_getElem?_getD]
  cases hq : l[i]? with
  | none => exact IsInt.zero
  | some q => exact h q (List.mem_of_getElem? hq)

theorem IsInt.cooEntry {t : List (ℕ × ℕ × ℚ)} (h : ∀ e ∈ t, IsInt e.2.2) (i j : ℕ) :
    IsInt (cooEntry t i j) := by
  unfold Vrp.cooEntry
  apply IsInt.sumList
  intro q hq
  obtain ⟨e, he, rfl⟩ := List.mem_map.1 hq
  exact h e (List.mem_filter.1 he).1

/-- a non-negative non-zero integer is at least one -/
theorem IsInt.one_le {q : ℚ} (h : IsInt q) (h0 : 0 ≤ q) (hne : q ≠ 0) : 1 ≤ q := by
  obtain ⟨z, rfl⟩ := h
  have h1 : (0 : ℤ) ≤ z := by exact_mod_cast h0
  have h2 : z ≠ 0 := by intro hz; apply hne; simp [hz]
  have h3 : (1 : ℤ) ≤ z := by omega
  exact_mod_cast h3

/-! ### list sums -/

theorem sumTo_getD (l : List ℚ) (f : ℚ → ℚ) :
    sumTo l.length (fun i => f (l.getD i 0)) = (l.map f).sum := by
  rw [sumTo_eq]
  induction l with
  | nil => simp
  | cons a l ih =>
    rw [List.length_cons, Finset.sum_range_succ', List.map_cons, List.sum_cons]
    simp only [List.getD_cons_succ, List.getD_cons_zero]
    rw [ih]; ring

theorem sum_flatMap_map {α β : Type*} (l : List α) (f : α → List β) (w : β → ℚ) :
    ((l.flatMap f).map w).sum = (l.map fun a => ((f a).map w).sum).sum := by
  induction l with
  | nil => simp
  | cons a l ih => simp [List.flatMap_cons, List.map_append, List.sum_append, ih]

theorem sum_filterMap_map {α β : Type*} (l : List α) (f : α → Option β) (w : β → ℚ) :
    ((l.filterMap f).map w).sum
      = (l.map fun a => (f a).elim 0 w).sum := by
  induction l with
  | nil => simp
  | cons a l ih =>
    cases h : f a with
    | none => simp [h, ih]
    | some y => simp [h, ih]

theorem sum_map_le_sum_map {α : Type*} (l : List α) (f g : α → ℚ) (h : ∀ a ∈ l, f a ≤ g a) :
    (l.map f).sum ≤ (l.map g).sum := by
  induction l with
  | nil => simp
  | cons a l ih =>
    simp only [List.map_cons, List.sum_cons]
    have := h a List.mem_cons_self
    have := ih fun b hb => h b (List.mem_cons_of_mem _ hb)
    linarith

theorem sum_map_nonneg {α : Type*} (l : List α) (f : α → ℚ) (h : ∀ a ∈ l, 0 ≤ f a) :
    0 ≤ (l.map f).sum := by
  have := sum_map_le_sum_map l (fun _ => 0) f h
  simpa using this

theorem sum_map_const_of_mem {α : Type*} (l : List α) (f : α → ℚ) (c : ℚ) (h : ∀ a ∈ l, f a = c) :
    (l.map f).sum = (l.length : ℚ) * c := by
  induction l with
  | nil => simp
  | cons a l ih =>
    simp only [List.map_cons, List.sum_cons, List.length_cons]
    rw [h a List.mem_cons_self, ih fun b hb => h b (List.mem_cons_of_mem _ hb)]
    push_cast; ring

theorem abs_list_sum_le (l : List ℚ) : |l.sum| ≤ (l.map fun q => |q|).sum := by
  induction l with
  | nil => simp
  | cons a l ih =>
    simp only [List.sum_cons, List.map_cons]
    exact (abs_add_le a l.sum).trans (by linarith)

/-! ### keyed triangle inequalities -/

/-- summing, over all keys `k < n`, the weights of the entries filed under `k` gives at most the total weight -/
theorem sum_keyed_le {α : Type*} (t : List α) (key : α → ℕ) (w : α → ℚ) (hw : ∀ a ∈ t, 0 ≤ w a) (n : ℕ) :
    ∑ k ∈ range n, ((t.filter fun a => key a = k).map w).sum ≤ (t.map w).sum := by
  induction t with
  | nil => simp
  | cons a t ih =>
    have ih' := ih fun b hb => hw b (List.mem_cons_of_mem _ hb)
    have ha := hw a List.mem_cons_self
    have : ∀ k, (((a :: t).filter fun a => key a = k).map w).sum
        = (if key a = k then w a else 0) + ((t.filter fun a => key a = k).map w).sum := by
      intro k
      by_cases hk : key a = k <;> simp [hk]
    simp only [this, Finset.sum_add_distrib, List.map_cons, List.sum_cons]
    have h1 : ∑ k ∈ range n, (if key a = k then w a else 0) ≤ w a := by
      rw [Finset.sum_ite_eq]
      split_ifs <;> linarith
    linarith

/-- two-key analogue -/
theorem sum_keyed2_le {α : Type*} (t : List α) (k1 k2 : α → ℕ) (w : α → ℚ) (hw : ∀ a ∈ t, 0 ≤ w a)
    (n : ℕ) :
    ∑ i ∈ range n, ∑ j ∈ range n, ((t.filter fun a => k1 a = i ∧ k2 a = j).map w).sum ≤ (t.map w).sum := by
  induction t with
  | nil => simp
  | cons a t ih =>
    have ih' := ih fun b hb => hw b (List.mem_cons_of_mem _ hb)
    have ha := hw a List.mem_cons_self
    have : ∀ i j, (((a :: t).filter fun a => k1 a = i ∧ k2 a = j).map w).sum
        = (if k1 a = i then (if k2 a = j then w a else 0) else 0)
          + ((t.filter fun a => k1 a = i ∧ k2 a = j).map w).sum := by
      intro i j
      by_cases hi : k1 a = i <;> by_cases hj : k2 a = j <;> simp [hi, hj]
    simp only [this, Finset.sum_add_distrib, List.map_cons, List.sum_cons]
    have h1 : ∑ i ∈ range n, ∑ j ∈ range n, (if k1 a = i then (if k2 a = j then w a else 0) else 0)
        ≤ w a := by
      have : ∀ i ∈ range n, ∑ j ∈ range n, (if k1 a = i then (if k2 a = j then w a else 0) else 0)
          = if k1 a = i then (if k2 a ∈ range n then w a else 0) else 0 := by
        intro i _
        by_cases hi : k1 a = i
        · simp only [hi, if_true]; rw [Finset.sum_ite_eq]
        · simp [hi]
      rw [Finset.sum_congr rfl this, Finset.sum_ite_eq]
      split_ifs <;> linarith
    linarith

/-- `Σ_{i,j<n} |cooEntry t i j| ≤ Σ_t |value|` -/
theorem sum_abs_cooEntry_le (t : List (ℕ × ℕ × ℚ)) (n : ℕ) :
    ∑ i ∈ range n, ∑ j ∈ range n, |cooEntry t i j| ≤ (t.map fun e => |e.2.2|).sum := by
  refine le_trans ?_ (sum_keyed2_le t (·.1) (·.2.1) (fun e => |e.2.2|) (fun _ _ => abs_nonneg _) n)
  refine Finset.sum_le_sum fun i _ => Finset.sum_le_sum fun j _ => ?_
  unfold cooEntry
  rw [sumList_eq]
  refine (abs_list_sum_le _).trans (le_of_eq ?_)
  rw [List.map_map]; rfl

/-- `Σ_{k<n} |Σ of the values filed under k| ≤ Σ_t |value|` -/
theorem sum_abs_keyed_le (t : List (ℕ × ℚ)) (n : ℕ) :
    ∑ k ∈ range n, |sumList ((t.filter fun e => e.1 = k).map (·.2))| ≤ (t.map fun e => |e.2|).sum := by
  refine le_trans ?_ (sum_keyed_le t (·.1) (fun e => |e.2|) (fun _ _ => abs_nonneg _) n)
  refine Finset.sum_le_sum fun k _ => ?_
  rw [sumList_eq]
  refine (abs_list_sum_le _).trans (le_of_eq ?_)
  rw [List.map_map]; rfl

end Vrp
