import VrpModel.Program
import VrpModel.ArcBased
import VrpModel.PathBased
import VrpModel.SeqBased
import VrpProofs.Lemmas.Sum
import Mathlib.Tactic.SplitIfs
import Mathlib.Tactic.ByContra

/-!
# Helper lemmas about the constrained-program data of the three formulations

index-range facts for `zip (range n)`, `idxOf?`, `SeqInst.varIndex`; the `quadCons` fold of the
sequence-based formulation (`qstep`), and the facts about the fixing rules `SeqInst.fixed` that make
every consistency assertion of `quadratic_constraint_logic` hold when `3 ≤ L`.
-/
namespace Vrp

theorem mem_range_zip {α} {l : List α} {n : ℕ} {p : ℕ × α} (h : p ∈ (List.range n).zip l) :
    p.1 < n ∧ p.2 ∈ l := by
  obtain ⟨a, b⟩ := p
  have := List.of_mem_zip h
  exact ⟨List.mem_range.mp this.1, this.2⟩

theorem idxOf?_lt {α} [BEq α] {l : List α} {a : α} {r : ℕ} (h : idxOf? l a = some r) : r < l.length := by
  unfold idxOf? at h
  simp only at h
  split_ifs at h with hlt
  simp only [Option.some.injEq] at h
  omega

/-! ### sequence-based formulation -/

theorem seq_varIndex_some {I : SeqInst} {u : STup} {k : ℕ} (h : I.varIndex u = some k) :
    k < I.vars.length ∧ u ∈ I.vars := by
  unfold SeqInst.varIndex at h
  simp only at h
  split_ifs at h with hlt
  simp only [Option.some.injEq] at h
  subst h
  exact ⟨hlt, List.idxOf_lt_length_iff.mp hlt⟩

theorem seq_mem_vars {I : SeqInst} {v p n : ℕ} (h : (v, p, n) ∈ I.vars) : I.fixed p n = none := by
  unfold SeqInst.vars at h
  simp only [List.mem_flatMap, List.mem_range] at h
  obtain ⟨p', _, n', _, h⟩ := h
  split_ifs at h with hf
  · simp at h
  · simp only [List.mem_map, List.mem_range, Prod.mk.injEq] at h
    obtain ⟨_, _, _, rfl, rfl⟩ := h
    simpa using hf

/-- the step function of the `quadCons` fold -/
def qstep (I : SeqInst) (acc : Option (List (ℕ × ℕ))) (t : ℕ × ℕ × ℕ × ℕ) : Option (List (ℕ × ℕ)) :=
  match acc, I.quadLogic t.1 t.2.1 t.2.2.1 t.2.2.2 with
  | some l, some (some e) => some (l ++ [e])
  | some l, some none => some l
  | _, _ => none

theorem quadCons_eq (I : SeqInst) : ∃ l : List (ℕ × ℕ × ℕ × ℕ), I.quadCons = l.foldl (qstep I) (some []) ∧
    ∀ t ∈ l, t.1 < I.V ∧ t.2.1 < I.L - 1 ∧
      ((I.g.hasArc t.2.2.1 t.2.2.2 = false) ∨ (t.2.2.1 = 0 ∧ 1 ≤ t.2.1 ∧ 1 ≤ t.2.2.2)) := by
  refine ⟨_, rfl, ?_⟩
  intro t ht
  simp only [List.mem_append, List.mem_flatMap, List.mem_range] at ht
  rcases ht with ⟨ni, _, nj, _, ht⟩ | ⟨v, hv, p', hp, nj', hn, ht⟩
  · split_ifs at ht with ha
    · simp at ht
    · simp only [List.mem_flatMap, List.mem_range, List.mem_map] at ht
      obtain ⟨p, hp, v, hv, rfl⟩ := ht
      exact ⟨hv, hp, Or.inl (by simpa using ha)⟩
  · split_ifs at ht with ha
    · simp only [List.mem_singleton] at ht
      subst ht
      refine ⟨hv, by simp only; omega, Or.inr ⟨rfl, by simp, by simp⟩⟩
    · simp at ht

theorem qstep_foldl_none (I : SeqInst) (l : List (ℕ × ℕ × ℕ × ℕ)) : l.foldl (qstep I) none = none := by
  induction l with
  | nil => rfl
  | cons t l ih => simpa [List.foldl_cons, qstep] using ih

theorem qstep_foldl_total (I : SeqInst) (l : List (ℕ × ℕ × ℕ × ℕ))
    (h : ∀ t ∈ l, I.quadLogic t.1 t.2.1 t.2.2.1 t.2.2.2 ≠ none) (acc : List (ℕ × ℕ)) :
    ∃ r, l.foldl (qstep I) (some acc) = some r := by
  induction l generalizing acc with
  | nil => exact ⟨acc, rfl⟩
  | cons t l ih =>
    have ht := h t List.mem_cons_self
    have hl := fun t' ht' => h t' (List.mem_cons_of_mem _ ht')
    rw [List.foldl_cons]
    cases hq : I.quadLogic t.1 t.2.1 t.2.2.1 t.2.2.2 with
    | none => exact absurd hq ht
    | some o =>
      cases o with
      | none => simp only [qstep, hq]; exact ih hl acc
      | some e => simp only [qstep, hq]; exact ih hl _

theorem qstep_foldl_all (I : SeqInst) (P : ℕ × ℕ → Prop) (l : List (ℕ × ℕ × ℕ × ℕ))
    (h : ∀ t ∈ l, ∀ e, I.quadLogic t.1 t.2.1 t.2.2.1 t.2.2.2 = some (some e) → P e)
    (acc R : List (ℕ × ℕ)) (hacc : ∀ e ∈ acc, P e) (hR : l.foldl (qstep I) (some acc) = some R) :
    ∀ e ∈ R, P e := by
  induction l generalizing acc with
  | nil => simp only [List.foldl_nil, Option.some.injEq] at hR; subst hR; exact hacc
  | cons t l ih =>
    have ht := h t List.mem_cons_self
    have hl := fun t' ht' => h t' (List.mem_cons_of_mem _ ht')
    rw [List.foldl_cons] at hR
    cases hq : I.quadLogic t.1 t.2.1 t.2.2.1 t.2.2.2 with
    | none => simp only [qstep, hq] at hR; rw [qstep_foldl_none] at hR; exact absurd hR (by simp)
    | some o =>
      cases o with
      | none => simp only [qstep, hq] at hR; exact ih hl acc hacc hR
      | some e =>
        simp only [qstep, hq] at hR
        refine ih hl _ ?_ hR
        intro e' he'
        simp only [List.mem_append, List.mem_singleton] at he'
        rcases he' with he' | rfl
        · exact hacc _ he'
        · exact ht _ hq

theorem quadLogic_some {I : SeqInst} {v p ni nj : ℕ} {e : ℕ × ℕ}
    (h : I.quadLogic v p ni nj = some (some e)) : e.1 < I.vars.length ∧ e.2 < I.vars.length := by
  unfold SeqInst.quadLogic at h
  split at h
  · split_ifs at h; simp at h
  · split_ifs at h; simp at h
  · split_ifs at h; simp at h
  · rename_i k1 k2 h1 h2
    simp only [Option.some.injEq] at h
    subst h
    exact ⟨(seq_varIndex_some h1).1, (seq_varIndex_some h2).1⟩

/-! facts about the fixing rules -/

theorem fixed_getD_ne_zero {I : SeqInst} {p n : ℕ} (h : (I.fixed p n).getD 0 ≠ 0) :
    n = 0 ∧ (p = 0 ∨ p = I.L - 1) := by
  unfold SeqInst.fixed at h
  split_ifs at h with h1 h2 h3 h4 h5 h6 <;> simp at h
  · exact ⟨h1.2, Or.inl h1.1⟩
  · exact ⟨h4.2, Or.inr h4.1⟩

theorem fixed_one_none {I : SeqInst} {n : ℕ} (h : I.fixed 1 n = none) : I.g.hasArc 0 n = true := by
  by_contra hh
  have hh' : I.g.hasArc 0 n = false := by simpa using hh
  simp [SeqInst.fixed, hh'] at h

theorem fixed_pen_none {I : SeqInst} {p n : ℕ} (hp : p = I.L - 2) (h : I.fixed p n = none) :
    I.g.hasArc n 0 = true := by
  by_contra hh
  unfold SeqInst.fixed at h
  split_ifs at h with h1 h2 h3 h4 h5 h6
  exact h6 ⟨hp, by simpa using hh⟩


theorem quadLogic_ne_none (I : SeqInst) (hL : 3 ≤ I.L) (v p ni nj : ℕ) (hp : p < I.L - 1)
    (h : I.g.hasArc ni nj = false ∨ (ni = 0 ∧ 1 ≤ p ∧ 1 ≤ nj)) : I.quadLogic v p ni nj ≠ none := by
  unfold SeqInst.quadLogic
  split
  · rw [if_pos]; · simp
    by_contra hne
    obtain ⟨ha, hb⟩ := mul_ne_zero_iff.mp hne
    have h1 := fixed_getD_ne_zero ha
    have h2 := fixed_getD_ne_zero hb
    omega
  · rename_i k2 _ hk2
    rw [if_pos]; · simp
    by_contra ha
    have h1 := fixed_getD_ne_zero ha
    have hp0 : p = 0 := by omega
    subst hp0
    have h3 := fixed_one_none (seq_mem_vars (seq_varIndex_some hk2).2)
    rcases h with h | h
    · rw [h1.1, h3] at h; exact absurd h (by simp)
    · omega
  · rename_i k1 hk1 _
    rw [if_pos]; · simp
    by_contra hb
    have h2 := fixed_getD_ne_zero hb
    have h3 := fixed_pen_none (by omega) (seq_mem_vars (seq_varIndex_some hk1).2)
    rcases h with h | h
    · rw [h2.1, h3] at h; exact absurd h (by simp)
    · omega
  · simp

end Vrp
