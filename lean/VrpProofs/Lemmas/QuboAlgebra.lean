import Mathlib.Algebra.BigOperators.Ring.Finset
import Mathlib.Algebra.BigOperators.Field
import Mathlib.Algebra.BigOperators.Group.Finset.Sigma
import Mathlib.Algebra.BigOperators.Group.Finset.Piecewise
import Mathlib.Algebra.CharZero.Defs
import Mathlib.Tactic.Ring
import Mathlib.Tactic.LinearCombination
import Mathlib.Tactic.FieldSimp

/-!
# QUBO / Ising algebra over an arbitrary field of characteristic zero

Everything here is stated for any field `K` with `CharZero K` (so it covers `ℝ`, as the properties
speak about real matrices, and `ℚ`, which the executable model uses).
-/
set_option linter.unusedSectionVars false
namespace Vrp.G
open Finset

variable {K : Type*} [Field K]

def quad (n : ℕ) (M : ℕ → ℕ → K) (x : ℕ → K) : K := ∑ i ∈ range n, ∑ j ∈ range n, M i j * x i * x j
def evalQubo (n : ℕ) (Q : ℕ → ℕ → K) (c : K) (x : ℕ → K) : K := quad n Q x + c
def evalIsing (n : ℕ) (J : ℕ → ℕ → K) (h : ℕ → K) (c : K) (s : ℕ → K) : K :=
  quad n J s + ∑ i ∈ range n, h i * s i + c
def isingJ (Q : ℕ → ℕ → K) (i j : ℕ) : K := if i = j then 0 else Q i j / 4
def isingH (n : ℕ) (Q : ℕ → ℕ → K) (i : ℕ) : K := -(∑ j ∈ range n, Q j i + ∑ j ∈ range n, Q i j) / 4
def isingC (n : ℕ) (Q : ℕ → ℕ → K) (c : K) : K :=
  (∑ i ∈ range n, ∑ j ∈ range n, Q i j + ∑ i ∈ range n, Q i i) / 4 + c
def quboOfIsingQ (n : ℕ) (J : ℕ → ℕ → K) (h : ℕ → K) (i j : ℕ) : K :=
  4 * J i j - (if i = j then 2 * (∑ k ∈ range n, J k i + ∑ k ∈ range n, J i k + h i) else 0)
def quboOfIsingC (n : ℕ) (J : ℕ → ℕ → K) (h : ℕ → K) (c : K) : K :=
  ∑ i ∈ range n, ∑ j ∈ range n, J i j + ∑ i ∈ range n, h i + c
def toUpper (M : ℕ → ℕ → K) (i j : ℕ) : K := if i < j then M i j + M j i else if i = j then M i i else 0
def toSym (M : ℕ → ℕ → K) (i j : ℕ) : K := (M i j + M j i) / 2

/-- a diagonal matrix contributes a linear term on idempotent vectors -/
theorem diag_sum (n : ℕ) (d x : ℕ → K) (hx : ∀ i < n, x i * x i = x i) :
    ∑ i ∈ range n, ∑ j ∈ range n, (if i = j then d i else 0) * x i * x j = ∑ i ∈ range n, d i * x i := by
  refine Finset.sum_congr rfl (fun i hi => ?_)
  have : ∀ j ∈ range n, (if i = j then d i else 0) * x i * x j = if i = j then d i * x i else 0 := by
    intro j _
    by_cases h : i = j
    · subst h; simp only [if_true]; rw [mul_assoc, hx i (Finset.mem_range.1 hi)]
    · simp [h]
  rw [Finset.sum_congr rfl this, Finset.sum_ite_eq (range n) i]
  simp [hi]

/-- a diagonal matrix contributes a constant on ±1 vectors -/
theorem diag_sum_spin (n : ℕ) (d s : ℕ → K) (hs : ∀ i < n, s i * s i = 1) :
    ∑ i ∈ range n, ∑ j ∈ range n, (if i = j then d i else 0) * s i * s j = ∑ i ∈ range n, d i := by
  refine Finset.sum_congr rfl (fun i hi => ?_)
  have : ∀ j ∈ range n, (if i = j then d i else 0) * s i * s j = if i = j then d i else 0 := by
    intro j _
    by_cases h : i = j
    · subst h; simp only [if_true]; rw [mul_assoc, hs i (Finset.mem_range.1 hi), mul_one]
    · simp [h]
  rw [Finset.sum_congr rfl this, Finset.sum_ite_eq (range n) i]
  simp [hi]

theorem quad_add (n : ℕ) (A B : ℕ → ℕ → K) (x : ℕ → K) :
    quad n (fun i j => A i j + B i j) x = quad n A x + quad n B x := by
  unfold quad
  simp only [← Finset.sum_add_distrib]
  exact Finset.sum_congr rfl fun i _ => Finset.sum_congr rfl fun j _ => by ring

theorem quad_sub (n : ℕ) (A B : ℕ → ℕ → K) (x : ℕ → K) :
    quad n (fun i j => A i j - B i j) x = quad n A x - quad n B x := by
  unfold quad
  simp only [← Finset.sum_sub_distrib]
  exact Finset.sum_congr rfl fun i _ => Finset.sum_congr rfl fun j _ => by ring

theorem quad_smul (n : ℕ) (a : K) (A : ℕ → ℕ → K) (x : ℕ → K) :
    quad n (fun i j => a * A i j) x = a * quad n A x := by
  unfold quad
  simp only [Finset.mul_sum]
  exact Finset.sum_congr rfl fun i _ => Finset.sum_congr rfl fun j _ => by ring

theorem quad_transpose (n : ℕ) (A : ℕ → ℕ → K) (x : ℕ → K) :
    quad n (fun i j => A j i) x = quad n A x := by
  unfold quad
  rw [Finset.sum_comm]
  exact Finset.sum_congr rfl fun i _ => Finset.sum_congr rfl fun j _ => by ring

/-- Σᵢⱼ M i j · x j = Σⱼ (Σᵢ M i j) x j etc. are used below in expanded form -/
theorem sum_rows (n : ℕ) (M : ℕ → ℕ → K) (x : ℕ → K) :
    ∑ i ∈ range n, ∑ j ∈ range n, M i j * x i = ∑ i ∈ range n, (∑ j ∈ range n, M i j) * x i := by
  exact Finset.sum_congr rfl fun i _ => by rw [Finset.sum_mul]

theorem sum_cols (n : ℕ) (M : ℕ → ℕ → K) (x : ℕ → K) :
    ∑ i ∈ range n, ∑ j ∈ range n, M i j * x j = ∑ i ∈ range n, (∑ j ∈ range n, M j i) * x i := by
  rw [Finset.sum_comm]
  exact Finset.sum_congr rfl fun i _ => by rw [Finset.sum_mul]

/-- expansion of the quadratic form at the spin image `1 - 2x` of an idempotent vector -/
theorem quad_spin (n : ℕ) (M : ℕ → ℕ → K) (x : ℕ → K) :
    quad n M (fun i => 1 - 2 * x i)
      = ∑ i ∈ range n, ∑ j ∈ range n, M i j
        - 2 * ∑ i ∈ range n, (∑ j ∈ range n, M i j) * x i
        - 2 * ∑ i ∈ range n, (∑ j ∈ range n, M j i) * x i
        + 4 * quad n M x := by
  rw [← sum_rows, ← sum_cols]
  unfold quad
  simp only [Finset.mul_sum, ← Finset.sum_add_distrib, ← Finset.sum_sub_distrib]
  exact Finset.sum_congr rfl fun i _ => Finset.sum_congr rfl fun j _ => by ring

variable [CharZero K]

/-- **QUBO → Ising energy identity**, any matrix, any constant, any idempotent (0/1) vector -/
theorem qubo_to_ising_energy (n : ℕ) (Q : ℕ → ℕ → K) (c : K) (x : ℕ → K)
    (hx : ∀ i < n, x i * x i = x i) :
    evalIsing n (isingJ Q) (isingH n Q) (isingC n Q c) (fun i => 1 - 2 * x i) = evalQubo n Q c x := by
  have hs : ∀ i < n, (1 - 2 * x i) * (1 - 2 * x i) = 1 := by
    intro i hi; have := hx i hi; linear_combination 4 * this
  -- J = Q/4 - diag(Q)/4
  have hJ : quad n (isingJ Q) (fun i => 1 - 2 * x i)
      = quad n (fun i j => Q i j / 4) (fun i => 1 - 2 * x i) - ∑ i ∈ range n, Q i i / 4 := by
    have : isingJ Q = fun i j => Q i j / 4 - (if i = j then Q i i / 4 else 0) := by
      funext i j; unfold isingJ; by_cases h : i = j
      · subst h; simp
      · simp [h]
    rw [this, quad_sub]
    congr 1
    exact diag_sum_spin n (fun i => Q i i / 4) _ hs
  have hq4 : quad n (fun i j => Q i j / 4) (fun i => 1 - 2 * x i)
      = quad n Q (fun i => 1 - 2 * x i) / 4 := by
    have : (fun i j => Q i j / 4) = fun i j => (1/4 : K) * Q i j := by funext i j; ring
    rw [this, quad_smul]; ring
  have hH : ∑ i ∈ range n, isingH n Q i * (1 - 2 * x i)
      = -(∑ i ∈ range n, ∑ j ∈ range n, Q i j) / 2
        + (∑ i ∈ range n, (∑ j ∈ range n, Q j i) * x i) / 2
        + (∑ i ∈ range n, (∑ j ∈ range n, Q i j) * x i) / 2 := by
    unfold isingH
    have e : ∀ i ∈ range n, -(∑ j ∈ range n, Q j i + ∑ j ∈ range n, Q i j) / 4 * (1 - 2 * x i)
        = -(∑ j ∈ range n, Q j i) / 4 - (∑ j ∈ range n, Q i j) / 4
          + ((∑ j ∈ range n, Q j i) * x i) / 2 + ((∑ j ∈ range n, Q i j) * x i) / 2 := by
      intro i _; ring
    rw [Finset.sum_congr rfl e]
    simp only [Finset.sum_add_distrib, Finset.sum_sub_distrib, ← Finset.sum_div, ← Finset.sum_neg_distrib]
    have hc : ∑ i ∈ range n, ∑ j ∈ range n, Q j i = ∑ i ∈ range n, ∑ j ∈ range n, Q i j := Finset.sum_comm
    simp only [Finset.sum_neg_distrib]
    rw [hc]; ring
  have hd : ∑ i ∈ range n, Q i i / 4 = (∑ i ∈ range n, Q i i) / 4 := (Finset.sum_div _ _ _).symm
  unfold evalIsing evalQubo isingC
  rw [hJ, hq4, quad_spin, hH, hd]
  ring

/-- **Ising → QUBO energy identity**, couplings with arbitrary diagonal, any ±1 vector `s`;
    the binary image is `(1 - s)/2` -/
theorem ising_to_qubo_energy (n : ℕ) (J : ℕ → ℕ → K) (h : ℕ → K) (c : K) (s : ℕ → K)
    (hs : ∀ i < n, s i * s i = 1) :
    evalQubo n (quboOfIsingQ n J h) (quboOfIsingC n J h c) (fun i => (1 - s i) / 2)
      = evalIsing n J h c s := by
  set x : ℕ → K := fun i => (1 - s i) / 2 with hxdef
  have hx : ∀ i < n, x i * x i = x i := by
    intro i hi; have := hs i hi; simp only [hxdef]; linear_combination (1/4 : K) * this
  have hsx : s = fun i => 1 - 2 * x i := by funext i; simp only [hxdef]; ring
  have hQ : quad n (quboOfIsingQ n J h) x
      = 4 * quad n J x - 2 * ∑ i ∈ range n, (∑ k ∈ range n, J k i + ∑ k ∈ range n, J i k + h i) * x i := by
    have : quboOfIsingQ n J h = fun i j => 4 * J i j -
        (if i = j then 2 * (∑ k ∈ range n, J k i + ∑ k ∈ range n, J i k + h i) else 0) := rfl
    rw [this, quad_sub, quad_smul]
    have hdg := diag_sum n (fun i => 2 * (∑ k ∈ range n, J k i + ∑ k ∈ range n, J i k + h i)) x hx
    unfold quad at hdg ⊢
    rw [hdg]
    congr 1
    rw [Finset.mul_sum]
    exact Finset.sum_congr rfl fun i _ => by ring
  unfold evalQubo evalIsing quboOfIsingC
  rw [hQ, hsx, quad_spin]
  have e : ∀ i ∈ range n, h i * (1 - 2 * x i) = h i - 2 * (h i * x i) := fun i _ => by ring
  rw [Finset.sum_congr rfl e, Finset.sum_sub_distrib, ← Finset.mul_sum]
  have e2 : ∀ i ∈ range n, (∑ k ∈ range n, J k i + ∑ k ∈ range n, J i k + h i) * x i
      = (∑ k ∈ range n, J k i) * x i + (∑ k ∈ range n, J i k) * x i + h i * x i := fun i _ => by ring
  rw [Finset.sum_congr rfl e2, Finset.sum_add_distrib, Finset.sum_add_distrib]
  ring

omit [CharZero K] in
theorem isingJ_diag (Q : ℕ → ℕ → K) (i : ℕ) : isingJ Q i i = 0 := by simp [isingJ]

/-! ## pattern conversions -/

theorem toSym_quad (n : ℕ) (M : ℕ → ℕ → K) (y : ℕ → K) : quad n (toSym M) y = quad n M y := by
  have : toSym M = fun i j => (1/2 : K) * ((fun i j => M i j + (fun i j => M j i) i j) i j) := by
    funext i j; unfold toSym; ring
  rw [this, quad_smul, quad_add, quad_transpose]; ring

omit [CharZero K] in
theorem toSym_symm (M : ℕ → ℕ → K) (i j : ℕ) : toSym M i j = toSym M j i := by
  unfold toSym; ring

omit [CharZero K] in
theorem toUpper_lower_zero (M : ℕ → ℕ → K) (i j : ℕ) (h : j < i) : toUpper M i j = 0 := by
  unfold toUpper
  have h1 : ¬ i < j := by omega
  have h2 : ¬ i = j := by omega
  simp [h1, h2]

omit [CharZero K] in
/-- strict upper part + strict lower part + diagonal -/
theorem toUpper_quad (n : ℕ) (M : ℕ → ℕ → K) (y : ℕ → K) : quad n (toUpper M) y = quad n M y := by
  -- toUpper M = M + L - Lᵀ' where L i j = [i<j] M j i  (the transposed strict lower part)
  have hdecomp : toUpper M = fun i j => M i j + (if i < j then M j i else 0) - (if j < i then M i j else 0) := by
    funext i j; unfold toUpper
    rcases Nat.lt_trichotomy i j with h | h | h
    · have : ¬ j < i := by omega
      simp [h, this]
    · subst h; simp
    · have h1 : ¬ i < j := by omega
      have h2 : ¬ i = j := by omega
      simp [h, h1, h2]
  rw [hdecomp, quad_sub, quad_add]
  have : quad n (fun i j => if i < j then M j i else 0) y = quad n (fun i j => if j < i then M i j else 0) y := by
    rw [← quad_transpose n (fun i j => if j < i then M i j else 0)]
  rw [this]; ring

end Vrp.G
