import VrpModel.Qubo
import VrpProofs.Lemmas.Sum
import VrpProofs.Lemmas.QuboAlgebra

/-! the executable model's definitions are the generic ones at `K = ℚ` -/
namespace Vrp
open Finset

theorem quad_eq (n : ℕ) (M : Mat) (x : Vec) : quad n M x = G.quad n M x := by
  simp [quad, G.quad, sumTo_eq]
theorem dot_eq (n : ℕ) (a b : Vec) : dot n a b = ∑ i ∈ range n, a i * b i := by
  simp [dot, sumTo_eq]
theorem evalQubo_eq (n : ℕ) (Q : Mat) (c : ℚ) (x : Vec) : evalQubo n Q c x = G.evalQubo n Q c x := by
  simp [evalQubo, G.evalQubo, quad_eq]
theorem evalIsing_eq (n : ℕ) (J : Mat) (h : Vec) (c : ℚ) (s : Vec) :
    evalIsing n J h c s = G.evalIsing n J h c s := by
  simp [evalIsing, G.evalIsing, quad_eq, dot_eq]
theorem isingJ_eq (Q : Mat) : isingJ Q = G.isingJ Q := rfl
theorem isingH_eq (n : ℕ) (Q : Mat) : isingH n Q = G.isingH n Q := by
  funext i; simp [isingH, G.isingH, sumTo_eq]
theorem isingC_eq (n : ℕ) (Q : Mat) (c : ℚ) : isingC n Q c = G.isingC n Q c := by
  simp [isingC, G.isingC, sumTo_eq]
theorem quboOfIsingQ_eq (n : ℕ) (J : Mat) (h : Vec) : quboOfIsingQ n J h = G.quboOfIsingQ n J h := by
  funext i j; simp [quboOfIsingQ, G.quboOfIsingQ, sumTo_eq]
theorem quboOfIsingC_eq (n : ℕ) (J : Mat) (h : Vec) (c : ℚ) :
    quboOfIsingC n J h c = G.quboOfIsingC n J h c := by
  simp [quboOfIsingC, G.quboOfIsingC, sumTo_eq]
theorem toUpper_eq (M : Mat) : toUpper M = G.toUpper M := rfl
theorem toSym_eq (M : Mat) : toSym M = G.toSym M := rfl

/-- `x` takes values in {0,1} on `0..n-1` -/
def IsBin (n : ℕ) (x : Vec) : Prop := ∀ i < n, x i = 0 ∨ x i = 1
/-- `s` takes values in {-1,+1} on `0..n-1` -/
def IsSpin (n : ℕ) (s : Vec) : Prop := ∀ i < n, s i = 1 ∨ s i = -1

theorem IsBin.idem {n : ℕ} {x : Vec} (h : IsBin n x) : ∀ i < n, x i * x i = x i := by
  intro i hi; rcases h i hi with h | h <;> rw [h] <;> norm_num
theorem IsSpin.sq {n : ℕ} {s : Vec} (h : IsSpin n s) : ∀ i < n, s i * s i = 1 := by
  intro i hi; rcases h i hi with h | h <;> rw [h] <;> norm_num

end Vrp
