import VrpModel.Heuristics
import VrpProofs.Props.C15
import VrpProofs.Lemmas.MirpGraph
import VrpProofs.Lemmas.Enum
import VrpProofs.Lemmas.SeqHeur
import VrpProofs.Lemmas.SeqHeurInv

/-! helper lemmas for `Props/C07c.lean`: the dict entry `(0,0)` (the depot self-loop of the sequence-based
    object) under the construction calls and under the sequence-based construction heuristic -/
namespace Vrp
open Vrp

/-! ### `arc? 0 0` under `add_arc` / `add_node` -/

/-- two names that both resolve to the same position are equal -/
theorem rc_indexOf_inj {g : Graph} {o d : String} {i : Nat} (ho : g.indexOf? o = some i)
    (hd : g.indexOf? d = some i) : o = d := by
  obtain ⟨n1, h1, e1⟩ := Graph.indexOf?_eq_some ho
  obtain ⟨n2, h2, e2⟩ := Graph.indexOf?_eq_some hd
  rw [h1] at h2
  cases h2
  exact e1.symm.trans e2

/-- `add_arc` under any rule leaves the entry `(0,0)` alone unless both names resolve to position 0 -/
theorem rc_addArcWith_arc00 (g : Graph) (o d : String) (t c : Rat) (rule : Nat → Bool)
    (h : ¬ (g.indexOf? o = some 0 ∧ g.indexOf? d = some 0)) :
    (addArcWith g o d t c rule).1.arc? 0 0 = g.arc? 0 0 := by
  cases hi : g.indexOf? o with
  | none => rw [C15.addArcWith_err _ _ _ _ _ _ (Or.inl hi)]
  | some i =>
    cases hj : g.indexOf? d with
    | none => rw [C15.addArcWith_err _ _ _ _ _ _ (Or.inr hj)]
    | some j =>
      rw [C15.addArcWith_eq g o d t c rule i j hi hj]
      split_ifs
      · show dictGet (dictSet g.arcs (i, j) _) (0, 0) = dictGet g.arcs (0, 0)
        apply dictGet_dictSet_ne
        intro heq
        have h1 : (0 : Nat) = i := congrArg Prod.fst heq
        have h2 : (0 : Nat) = j := congrArg Prod.snd heq
        subst h1; subst h2
        exact h ⟨hi, hj⟩
      · rfl

theorem rc_addNodeStep_arcs (g : Graph) (nm : String) (dm lo : Rat) (hi : ERat) :
    (addNodeStep g nm dm lo hi).1.arcs = g.arcs := by
  unfold addNodeStep
  split_ifs <;> rfl

/-- node additions append: a non-empty node list keeps its first node -/
theorem rc_addNodeStep_head (g : Graph) (nm : String) (dm lo : Rat) (hi : ERat) (n0 : Node)
    (h0 : g.nodes.head? = some n0) : (addNodeStep g nm dm lo hi).1.nodes.head? = some n0 := by
  unfold addNodeStep
  split_ifs
  · exact h0
  · exact h0
  · show (g.nodes ++ [_]).head? = some n0
    cases hn : g.nodes with
    | nil => rw [hn] at h0; cases h0
    | cons a l => rw [hn] at h0; simpa using h0

/-! ### `arc? 0 0` under the sequence-based construction heuristic -/

namespace SeqHeur

/-- `add_arc` between two existing positions other than `(0,0)` leaves the entry `(0,0)` alone -/
theorem rc_addArcOrFail_arc00 {fl : Flavor} {g : Graph} {o d : Nat} {t c : Rat} {g' : Graph}
    (hinv : C15.Inv g) (ho : o < g.nodes.length) (hd : d < g.nodes.length) (hne : ¬ (o = 0 ∧ d = 0))
    (h : addArcOrFail fl g o d t c = some g') : g'.arc? 0 0 = g.arc? 0 0 := by
  unfold addArcOrFail at h
  obtain ⟨rule, hr⟩ := C15.gstep_addArc fl g (nameOf g o) (nameOf g d) t c
  rw [hr] at h
  have hk := rc_addArcWith_arc00 g (nameOf g o) (nameOf g d) t c rule (by
    rw [nameOf_index g hinv o ho, nameOf_index g hinv d hd]
    rintro ⟨h1, h2⟩
    exact hne ⟨Option.some.inj h1, Option.some.inj h2⟩)
  split at h
  · next g'' heq =>
    simp only [Option.some.injEq] at h
    subst h
    rw [heq] at hk
    exact hk
  · cases h

/-- "add the arc `o → d` unless it exists" (`_ensure_exit_arc` and the two dummy-vehicle arcs): when the depot
    self-loop exists it is never the arc that gets added -/
theorem rc_ensureArc_arc00 {fl : Flavor} {g : Graph} {o d : Nat} {t c : Rat} {g' : Graph}
    (hinv : C15.Inv g) (ho : o < g.nodes.length) (hd : d < g.nodes.length) (h00 : g.hasArc 0 0 = true)
    (h : (if g.hasArc o d then some g else addArcOrFail fl g o d t c) = some g') :
    g'.arc? 0 0 = g.arc? 0 0 := by
  split_ifs at h with ha
  · simp only [Option.some.injEq] at h; subst h; rfl
  · refine rc_addArcOrFail_arc00 hinv ho hd ?_ h
    rintro ⟨rfl, rfl⟩
    exact ha h00

theorem rc_ensureExit_arc00 {fl : Flavor} {g : Graph} {cur : Nat} {g' : Graph}
    (hinv : C15.Inv g) (hc : cur < g.nodes.length) (h0 : 0 < g.nodes.length) (h00 : g.hasArc 0 0 = true)
    (h : ensureExit fl g cur = some g') : g'.arc? 0 0 = g.arc? 0 0 := by
  unfold ensureExit at h
  exact rc_ensureArc_arc00 hinv hc h0 h00 h

theorem rc_seqFill_arc00 (fl : Flavor) (L v : Nat) (k p cur : Nat) (g : Graph) (unv : List Nat)
    (used : List STup) (res : RegState)
    (hinv : C15.Inv g) (h0 : 0 < g.nodes.length) (hc : cur < g.nodes.length)
    (hu : ∀ n ∈ unv, n < g.nodes.length) (h00 : g.hasArc 0 0 = true)
    (h : seqFill fl L v k p cur g unv used = some res) : res.1.arc? 0 0 = g.arc? 0 0 := by
  induction k generalizing p cur unv used with
  | zero =>
    simp only [seqFill, Option.map_eq_some_iff] at h
    obtain ⟨g', hg', rfl⟩ := h
    exact rc_ensureExit_arc00 hinv hc h0 h00 hg'
  | succ k ih =>
    unfold seqFill at h
    split at h
    · next n hfind =>
      have hmem : n ∈ unv := List.mem_of_find?_eq_some hfind
      exact ih _ n _ _ (hu n hmem) (fun m hm => hu m (List.mem_of_mem_erase hm)) h
    · simp only [Option.map_eq_some_iff] at h
      obtain ⟨g', hg', rfl⟩ := h
      exact rc_ensureExit_arc00 hinv hc h0 h00 hg'

/-- the regular vehicles -/
theorem rc_reg_fold_arc00 (fl : Flavor) (L : Nat) (l : List Nat) (st0 st : RegState)
    (hinv : C15.Inv st0.1) (h0 : 0 < st0.1.nodes.length) (hu : ∀ n ∈ st0.2.1, n < st0.1.nodes.length)
    (h00 : st0.1.hasArc 0 0 = true)
    (h : l.foldl (regStep fl L) (some st0) = some st) :
    st.1.arc? 0 0 = st0.1.arc? 0 0 ∧ ∀ n ∈ st.2.1, n < st0.1.nodes.length := by
  induction l generalizing st0 with
  | nil => simp only [List.foldl_nil, Option.some.injEq] at h; subst h; exact ⟨rfl, hu⟩
  | cons v l ih =>
    rw [List.foldl_cons] at h
    cases hs : regStep fl L (some st0) v with
    | none => rw [hs, foldl_regStep_none] at h; cases h
    | some st1 =>
      rw [hs] at h
      simp only [regStep, Option.bind_some] at hs
      have a := rc_seqFill_arc00 fl L v _ _ _ _ _ _ st1 hinv h0 h0 hu h00 hs
      obtain ⟨r, _, hg, hi1, _, hperm, _⟩ := seqFill_spec fl L v _ _ _ _ _ _ st1 hinv h0 h0 hu hs
      have hn1 : st1.1.nodes.length = st0.1.nodes.length := by rw [hg.nodes]
      have hu1 : ∀ n ∈ st1.2.1, n < st1.1.nodes.length := fun n hn => by
        rw [hn1]; exact hu n (hperm.mem_iff.2 (List.mem_append_right _ hn))
      obtain ⟨b1, b2⟩ := ih st1 hi1 (by rw [hn1]; exact h0) hu1 (hg.mono 0 0 h00) h
      exact ⟨b1.trans a, fun n hn => hn1 ▸ b2 n hn⟩

/-- one dummy vehicle -/
theorem rc_dummyStep_arc00 {fl : Flavor} {high : Rat} {s s' : SeqInst × List STup} {ni : Nat}
    (hinv : C15.Inv s.1.g) (h0 : 0 < s.1.g.nodes.length) (hni : ni < s.1.g.nodes.length)
    (h00 : s.1.g.hasArc 0 0 = true)
    (h : dummyStep fl high (some s) ni = some s') : s'.1.g.arc? 0 0 = s.1.g.arc? 0 0 := by
  obtain ⟨g1, g2, e1, e2, rfl⟩ := dummyStep_some h
  obtain ⟨a1, a2, _⟩ := ensureArc_spec fl s.1.g 0 ni 0 high g1 hinv h0 hni e1
  have c1 := rc_ensureArc_arc00 hinv h0 hni h00 e1
  have hn1 : g1.nodes.length = s.1.g.nodes.length := by rw [a1.nodes]
  have c2 := rc_ensureArc_arc00 a2 (by rw [hn1]; exact hni) (by rw [hn1]; exact h0) (a1.mono 0 0 h00) e2
  exact c2.trans c1

/-- the dummy vehicles -/
theorem rc_dummy_fold_arc00 (fl : Flavor) (high : Rat) (l : List Nat) (s out : SeqInst × List STup)
    (hinv : C15.Inv s.1.g) (h0 : 0 < s.1.g.nodes.length) (hl : ∀ n ∈ l, n < s.1.g.nodes.length)
    (h00 : s.1.g.hasArc 0 0 = true)
    (h : l.foldl (dummyStep fl high) (some s) = some out) : out.1.g.arc? 0 0 = s.1.g.arc? 0 0 := by
  induction l generalizing s with
  | nil => simp only [List.foldl_nil, Option.some.injEq] at h; subst h; rfl
  | cons ni l ih =>
    rw [List.foldl_cons] at h
    cases hs : dummyStep fl high (some s) ni with
    | none => rw [hs, foldl_dummyStep_none] at h; cases h
    | some s1 =>
      rw [hs] at h
      have hni : ni < s.1.g.nodes.length := hl ni List.mem_cons_self
      have a := rc_dummyStep_arc00 hinv h0 hni h00 hs
      have hg := dummyStep_gle hs
      have hn1 : s1.1.g.nodes.length = s.1.g.nodes.length := by rw [hg.nodes]
      have b := ih s1 (em_dummyStep_inv hinv hs) (by rw [hn1]; exact h0)
        (fun n hn => by rw [hn1]; exact hl n (List.mem_cons_of_mem _ hn)) (hg.mono 0 0 h00) h
      exact b.trans a

/-- **`make_feasible` never assigns the key `(0,0)`** when the instance's graph is self-consistent and already
    holds a depot self-arc: the arcs it adds are `cur → depot` (`_ensure_exit_arc`, only when missing),
    `depot → u` and `u → depot` for still unvisited customers `u` (only when missing) -/
theorem rc_makeFeasible_arc00 {I : SeqInst} {high : Rat} {J : SeqInst} {sol : List Rat}
    (hg : C15.Inv I.g) (h00 : I.g.hasArc 0 0 = true) (h : I.makeFeasible high = .ok (J, sol)) :
    J.g.arc? 0 0 = I.g.arc? 0 0 := by
  have h0 : 0 < I.g.nodes.length := by
    obtain ⟨e, he, hek⟩ := dictHas_iff.mp h00
    obtain ⟨ni, _, h1, _⟩ := hg.filed e he
    rw [hek] at h1
    exact (List.getElem?_eq_some_iff.mp h1).1
  obtain ⟨st, used, idxs, h1, h2, _, _⟩ := makeFeasible_ok h
  have hu : ∀ n ∈ unv0 I, n < I.g.nodes.length := fun n hn => ((mem_unv0 I n).1 hn).2
  obtain ⟨a1, a2⟩ := rc_reg_fold_arc00 _ _ _ (I.g, unv0 I, []) st hg h0 hu h00 h1
  have hgle := reg_fold_gle _ _ _ _ _ h1
  have hinv1 : C15.Inv st.1 := em_reg_fold_inv _ _ _ (I.g, unv0 I, []) st hg h1
  have hn1 : st.1.nodes.length = I.g.nodes.length := by rw [hgle.nodes]
  have b := rc_dummy_fold_arc00 _ _ _ ({ I with g := st.1 }, st.2.2) (J, used) hinv1
    (by show 0 < st.1.nodes.length; rw [hn1]; exact h0)
    (fun n hn => by show n < st.1.nodes.length; rw [hn1]; exact a2 n hn)
    (hgle.mono 0 0 h00) h2
  exact b.trans a1

end SeqHeur

end Vrp
