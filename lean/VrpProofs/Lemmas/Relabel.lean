import VrpProofs.Lemmas.QuboAlgebra

/-!
# Renumbering the variables changes nothing the properties speak about

The correspondence check compares the model with the implementation **modulo the numbering of the decision variables**
(`harness/vh/form_util.py`, "enumeration order"): when the implementation enumerates the same decision tuples in another order,
model output is relabelled before the diff.  This file is the justification: for a permutation `σ` of `0 … n-1`, the data
`(Q, k, A, b)` and the data relabelled by `σ` have the same quadratic values, the same constraint rows and the same SET of values on
binary vectors (hence the same minimum and the same zero set up to the relabelling of the vector) — so every statement of C02–C09
about "all binary vectors" holds for one numbering iff it holds for the other.
-/
set_option linter.unusedSectionVars false
namespace Vrp.G
open Finset

variable {K : Type*} [Field K]

/-- `σ` renumbers the variables `0 … n-1` (it moves nothing outside that range) -/
def Renumbering (n : ℕ) (σ : Equiv.Perm ℕ) : Prop := ∀ a, σ a ≠ a → a < n

/-- a vector is binary on the variables `0 … n-1` -/
def BinaryOn (n : ℕ) (x : ℕ → K) : Prop := ∀ i, i < n → x i = 0 ∨ x i = 1

theorem Renumbering.symm {n : ℕ} {σ : Equiv.Perm ℕ} (h : Renumbering n σ) : Renumbering n σ.symm := by
  intro a ha
  by_contra hlt
  have : σ a = a := by
    by_contra hne
    exact hlt (h a hne)
  exact ha (by rw [Equiv.symm_apply_eq]; exact this.symm)

theorem Renumbering.lt {n : ℕ} {σ : Equiv.Perm ℕ} (h : Renumbering n σ) {i : ℕ} (hi : i < n) : σ i < n := by
  by_cases he : σ i = i
  · rw [he]; exact hi
  · have : σ (σ i) ≠ σ i := fun hh => he (σ.injective hh)
    exact h _ this

theorem sum_renumber {n : ℕ} {σ : Equiv.Perm ℕ} (h : Renumbering n σ) (f : ℕ → K) :
    ∑ i ∈ range n, f (σ i) = ∑ i ∈ range n, f i :=
  Equiv.Perm.sum_comp σ (range n) f (by intro a ha; simpa using h a ha)

/-- a constraint row: relabelled coefficients against the relabelled vector give the same left-hand side -/
theorem row_renumber {n : ℕ} {σ : Equiv.Perm ℕ} (h : Renumbering n σ) (a x : ℕ → K) :
    ∑ j ∈ range n, a (σ j) * x (σ j) = ∑ j ∈ range n, a j * x j :=
  sum_renumber h (fun j => a j * x j)

/-- the quadratic form of the relabelled matrix at the relabelled vector -/
theorem quad_renumber {n : ℕ} {σ : Equiv.Perm ℕ} (h : Renumbering n σ) (M : ℕ → ℕ → K) (x : ℕ → K) :
    quad n (fun i j => M (σ i) (σ j)) (fun i => x (σ i)) = quad n M x := by
  unfold quad
  rw [← sum_renumber h (fun i => ∑ j ∈ range n, M i j * x i * x j)]
  refine Finset.sum_congr rfl (fun i _ => ?_)
  exact sum_renumber h (fun j => M (σ i) j * x (σ i) * x j)

theorem evalQubo_renumber {n : ℕ} {σ : Equiv.Perm ℕ} (h : Renumbering n σ) (Q : ℕ → ℕ → K) (c : K) (x : ℕ → K) :
    evalQubo n (fun i j => Q (σ i) (σ j)) c (fun i => x (σ i)) = evalQubo n Q c x := by
  unfold evalQubo; rw [quad_renumber h]

theorem binaryOn_renumber {n : ℕ} {σ : Equiv.Perm ℕ} (h : Renumbering n σ) {x : ℕ → K} (hx : BinaryOn n x) :
    BinaryOn n (fun i => x (σ i)) := fun i hi => hx (σ i) (h.lt hi)

/-- the relabelled QUBO takes exactly the same values on binary vectors: same minimum, same zero set (up to the relabelling of the
vector), whatever the numbering -/
theorem evalQubo_values_renumber {n : ℕ} {σ : Equiv.Perm ℕ} (h : Renumbering n σ) (Q : ℕ → ℕ → K) (c v : K) :
    (∃ x, BinaryOn n x ∧ evalQubo n (fun i j => Q (σ i) (σ j)) c x = v) ↔ (∃ y, BinaryOn n y ∧ evalQubo n Q c y = v) := by
  constructor
  · rintro ⟨x, hx, hv⟩
    refine ⟨fun i => x (σ.symm i), binaryOn_renumber h.symm hx, ?_⟩
    rw [← evalQubo_renumber h Q c (fun i => x (σ.symm i))]
    simpa using hv
  · rintro ⟨y, hy, hv⟩
    exact ⟨fun i => y (σ i), binaryOn_renumber h hy, by rw [evalQubo_renumber h]; exact hv⟩

/-- non-vacuity: the swap of variables 0 and 1 is a renumbering of three variables, and a binary vector exists -/
example : Renumbering 3 (Equiv.swap 0 1) ∧ BinaryOn 3 (fun i => if i = 1 then (1 : ℚ) else 0) := by
  constructor
  · intro a ha
    by_contra hlt
    have h0 : a ≠ 0 := by omega
    have h1 : a ≠ 1 := by omega
    exact ha (Equiv.swap_apply_of_ne_of_ne h0 h1)
  · intro i _; by_cases hi : i = 1 <;> simp [hi]

end Vrp.G
