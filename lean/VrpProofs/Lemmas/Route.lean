import VrpModel.PathBased
import VrpProofs.Lemmas.Graph
import VrpProofs.Lemmas.Program
import Mathlib.Data.List.Nodup
import Mathlib.Data.List.Basic
import Mathlib.Algebra.Order.Field.Rat
import Mathlib.Tactic.SplitIfs
import Mathlib.Tactic.Ring

/-!
# Helper lemmas for the path-based route admission model (`VrpModel/PathBased.lean`)

* `resolve` / `resolveAll` / `AllRes` (every stop resolves);
* `checkLoop` / `checkRoute` only look at the stops through `resolve`;
* an accepted `checkLoop` has resolved every stop;
* `sortNat` keeps membership;
* `cooEntry` of the exact-cover triples.
-/
namespace Vrp

/-! ### `resolve` -/

@[simp] theorem resolve_idx (g : Graph) (i : ℕ) : resolve g (.idx i) = .ok i := rfl

theorem resolve_name_of_mem (g : Graph) (nm : String) (h : nm ∈ g.names) :
    ∃ i, resolve g (.name nm) = .ok i := by
  obtain ⟨i, hi⟩ := (g.mem_names_iff nm).1 h
  exact ⟨i, by simp [resolve, hi]⟩

theorem resolve_name_of_not_mem (g : Graph) (nm : String) (h : nm ∉ g.names) :
    resolve g (.name nm) = .error .value := by
  have := (g.indexOf?_eq_none_iff nm).2 h
  simp [resolve, this]

/-- every stop of the list resolves -/
def AllRes (g : Graph) (stops : List Stop) : Prop := ∀ s ∈ stops, ∃ i, resolve g s = .ok i

theorem allRes_of_known (g : Graph) (stops : List Stop)
    (hk : ∀ s ∈ stops, ∀ nm, s = Stop.name nm → nm ∈ g.names) : AllRes g stops := by
  intro s hs
  cases s with
  | idx i => exact ⟨i, rfl⟩
  | name nm => exact resolve_name_of_mem g nm (hk _ hs nm rfl)

theorem AllRes.known {g : Graph} {stops : List Stop} (h : AllRes g stops) :
    ∀ s ∈ stops, ∀ nm, s = Stop.name nm → nm ∈ g.names := by
  intro s hs nm he
  subst he
  by_contra hn
  obtain ⟨i, hi⟩ := h _ hs
  rw [resolve_name_of_not_mem g nm hn] at hi
  cases hi

theorem allRes_nil (g : Graph) : AllRes g [] := by intro s hs; cases hs

theorem allRes_cons {g : Graph} {s : Stop} {stops : List Stop} :
    AllRes g (s :: stops) ↔ (∃ i, resolve g s = .ok i) ∧ AllRes g stops := by
  simp [AllRes]

theorem resolveAll_nil (g : Graph) : resolveAll g [] = [] := rfl

theorem resolveAll_cons_ok {g : Graph} {s : Stop} {i : ℕ} (h : resolve g s = .ok i) (stops : List Stop) :
    resolveAll g (s :: stops) = i :: resolveAll g stops := by
  simp [resolveAll, h]

theorem resolveAll_map_idx (g : Graph) (r : List ℕ) : resolveAll g (r.map Stop.idx) = r := by
  induction r with
  | nil => rfl
  | cons a r ih => rw [List.map_cons, resolveAll_cons_ok (resolve_idx g a), ih]

theorem resolveAll_length {g : Graph} {stops : List Stop} (h : AllRes g stops) :
    (resolveAll g stops).length = stops.length := by
  induction stops with
  | nil => rfl
  | cons s stops ih =>
    obtain ⟨⟨i, hi⟩, h'⟩ := allRes_cons.1 h
    rw [resolveAll_cons_ok hi, List.length_cons, List.length_cons, ih h']

/-- resolving the stops one by one is the same as resolving the index form of `resolveAll` -/
theorem map_resolve_eq {g : Graph} {stops : List Stop} (h : AllRes g stops) :
    stops.map (resolve g) = ((resolveAll g stops).map Stop.idx).map (resolve g) := by
  induction stops with
  | nil => rfl
  | cons s stops ih =>
    obtain ⟨⟨i, hi⟩, h'⟩ := allRes_cons.1 h
    rw [resolveAll_cons_ok hi, List.map_cons, List.map_cons, List.map_cons, ih h', hi, resolve_idx]

/-! ### `checkLoop` -/

theorem checkLoop_resolved (g : Graph) (cap : ℚ) (stops : List Stop) (h : AllRes g stops) :
    ∀ cur time load cost vis,
      checkLoop g cap cur stops time load cost vis =
        checkLoop g cap cur ((resolveAll g stops).map Stop.idx) time load cost vis := by
  induction stops with
  | nil => intro cur time load cost vis; rfl
  | cons s stops ih =>
    intro cur time load cost vis
    obtain ⟨⟨i, hi⟩, h'⟩ := allRes_cons.1 h
    rw [resolveAll_cons_ok hi, List.map_cons]
    unfold checkLoop
    split_ifs with hv
    · rfl
    · simp only [hi, resolve_idx]
      cases hca : checkArc g cap time load cur i with
      | none => rfl
      | some p =>
        obtain ⟨t, l⟩ := p
        exact ih h' _ _ _ _ _

/-- an accepted loop has resolved every stop -/
theorem checkLoop_feas_allRes (g : Graph) (cap : ℚ) (stops : List Stop) :
    ∀ cur time load cost vis rc, checkLoop g cap cur stops time load cost vis = .ok rc → rc.feas = true →
      AllRes g stops := by
  induction stops with
  | nil => intro _ _ _ _ _ _ _ _; exact allRes_nil g
  | cons s stops ih =>
    intro cur time load cost vis rc h hf
    unfold checkLoop at h
    split_ifs at h with hv
    · cases h; cases hf
    · cases hr : resolve g s with
      | error e => simp only [hr] at h; cases h
      | ok i =>
        simp only [hr] at h
        cases hca : checkArc g cap time load cur i with
        | none => simp only [hca] at h; cases h; cases hf
        | some p =>
          obtain ⟨t, l⟩ := p
          simp only [hca] at h
          exact allRes_cons.2 ⟨⟨i, hr⟩, ih _ _ _ _ _ _ h hf⟩

/-! ### `checkRoute` -/

/-- value of `checkRoute` once the first stop, the second and the last one resolve -/
theorem checkRoute_eq (g : Graph) (first : Stop) (rest : List Stop) (f l : ℕ) (hf : resolve g first = .ok f)
    (hh : ∃ i, (rest.map (resolve g)).head? = some (.ok i))
    (hl : (rest.map (resolve g)).getLast? = some (.ok l)) :
    checkRoute g (first :: rest) =
      if f ≠ 0 ∨ l ≠ 0 then .ok ⟨false, 0, []⟩
      else match g.cap, g.init with
        | some cap, some init => checkLoop g cap f rest (g.lo 0) init 0 []
        | _, _ => .error .type := by
  obtain ⟨i, hh⟩ := hh
  have hne : rest ≠ [] := by rintro rfl; simp at hh
  have hlen : ¬ ((first :: rest).length < 2) := by
    cases rest with
    | nil => exact absurd rfl hne
    | cons a b => simp
  rw [List.head?_map] at hh
  rw [List.getLast?_map] at hl
  unfold checkRoute
  rw [if_neg hlen]
  simp only [hf, hh, hl]
  split_ifs
  · rfl
  · cases g.cap <;> cases g.init <;> rfl

theorem checkRoute_resolved (g : Graph) (stops : List Stop) (h : AllRes g stops) :
    checkRoute g stops = checkRoute g ((resolveAll g stops).map Stop.idx) := by
  by_cases hlen : stops.length < 2
  · have h2 : ((resolveAll g stops).map Stop.idx).length < 2 := by
      rw [List.length_map, resolveAll_length h]; exact hlen
    unfold checkRoute
    rw [if_pos hlen, if_pos h2]
  · match stops, h, hlen with
    | first :: s2 :: rest, h, _ =>
      obtain ⟨⟨f, hf⟩, h'⟩ := allRes_cons.1 h
      have hm := map_resolve_eq h'
      obtain ⟨⟨i2, hi2⟩, h''⟩ := allRes_cons.1 h'
      have hne : (s2 :: rest).map (resolve g) ≠ [] := by simp
      obtain ⟨l, hl⟩ : ∃ l, ((s2 :: rest).map (resolve g)).getLast? = some (.ok l) := by
        have hmem := List.getLast_mem hne
        obtain ⟨s, hs, hse⟩ := List.mem_map.1 hmem
        obtain ⟨l, hl⟩ := h' s hs
        exact ⟨l, by rw [List.getLast?_eq_some_getLast hne, ← hse, hl]⟩
      have hh : ∃ i, ((s2 :: rest).map (resolve g)).head? = some (.ok i) := ⟨i2, by simp [hi2]⟩
      rw [checkRoute_eq g first (s2 :: rest) f l hf hh hl]
      rw [resolveAll_cons_ok hf, List.map_cons]
      rw [hm] at hh hl
      rw [checkRoute_eq g (.idx f) _ f l (resolve_idx g f) hh hl]
      split_ifs with hc
      · rfl
      · cases g.cap <;> cases g.init <;> simp only
        exact checkLoop_resolved g _ _ h' _ _ _ _ _
    | [], _, hlen => simp at hlen
    | [_], _, hlen => simp at hlen

/-- an accepted route has resolved every stop, the vehicle data are set, and the verdict comes from the loop -/
theorem checkRoute_feas (g : Graph) (stops : List Stop) (rc : RouteCheck) (h : checkRoute g stops = .ok rc)
    (hf : rc.feas = true) :
    AllRes g stops ∧ ∃ first rest cap init, stops = first :: rest ∧ rest ≠ [] ∧ resolve g first = .ok 0 ∧
      (rest.map (resolve g)).getLast? = some (.ok 0) ∧ g.cap = some cap ∧ g.init = some init ∧
      checkLoop g cap 0 rest (g.lo 0) init 0 [] = .ok rc := by
  unfold checkRoute at h
  split_ifs at h with hlen
  · cases h; cases hf
  · match stops, h, hlen with
    | [], _, hlen => simp at hlen
    | first :: rest, h, hlen =>
      have hne : rest ≠ [] := by rintro rfl; simp at hlen
      simp only at h
      cases hr : resolve g first with
      | error e => simp only [hr] at h; cases h
      | ok f =>
        simp only [hr] at h
        split at h
        · cases h
        · cases h
        · rename_i l hl _
          split_ifs at h with hc
          · cases h; cases hf
          · have hf0 : f = 0 := by by_contra hx; exact hc (Or.inl hx)
            have hl0 : l = 0 := by by_contra hx; exact hc (Or.inr hx)
            subst hf0; subst hl0
            cases hcap : g.cap with
            | none => simp only [hcap] at h; cases h
            | some cap =>
              cases hinit : g.init with
              | none => simp only [hcap, hinit] at h; cases h
              | some init =>
                simp only [hcap, hinit] at h
                have hall := checkLoop_feas_allRes g cap rest _ _ _ _ _ rc h hf
                refine ⟨allRes_cons.2 ⟨⟨0, hr⟩, hall⟩, first, rest, cap, init, rfl, hne, hr, ?_, rfl, rfl, h⟩
                rw [List.getLast?_map]; exact hl
        · cases h; cases hf

/-! ### `sortNat` -/

theorem mem_insertNat (x i : ℕ) (l : List ℕ) : i ∈ PathInst.addRoute.insertNat x l ↔ i = x ∨ i ∈ l := by
  induction l with
  | nil => simp [PathInst.addRoute.insertNat]
  | cons y ys ih =>
    unfold PathInst.addRoute.insertNat
    split_ifs with h
    · simp
    · simp only [List.mem_cons, ih]; tauto

theorem mem_sortNat (i : ℕ) (l : List ℕ) : i ∈ PathInst.addRoute.sortNat l ↔ i ∈ l := by
  induction l with
  | nil => simp [PathInst.addRoute.sortNat]
  | cons y ys ih =>
    have : PathInst.addRoute.sortNat (y :: ys) =
        PathInst.addRoute.insertNat y (PathInst.addRoute.sortNat ys) := rfl
    rw [this, mem_insertNat, ih]; simp

/-! ### `cooEntry` of the exact-cover triples -/

theorem sumList_append (a b : List ℚ) : sumList (a ++ b) = sumList a + sumList b := by
  induction a with
  | nil => simp [sumList]
  | cons x a ih =>
    simp only [sumList, List.cons_append, List.foldr_cons] at ih ⊢
    rw [ih]; ring

theorem cooEntry_nil (i j : ℕ) : cooEntry [] i j = 0 := rfl

theorem cooEntry_append (a b : List (ℕ × ℕ × ℚ)) (i j : ℕ) :
    cooEntry (a ++ b) i j = cooEntry a i j + cooEntry b i j := by
  simp [cooEntry, List.filter_append, List.map_append, sumList_append]

theorem cooEntry_cons (e : ℕ × ℕ × ℚ) (a : List (ℕ × ℕ × ℚ)) (i j : ℕ) :
    cooEntry (e :: a) i j = (if e.1 = i ∧ e.2.1 = j then e.2.2 else 0) + cooEntry a i j := by
  have : e :: a = [e] ++ a := rfl
  rw [this, cooEntry_append]
  congr 1
  by_cases h : e.1 = i ∧ e.2.1 = j
  · simp [cooEntry, h, sumList]
  · simp [cooEntry, h, sumList]

theorem nodup_eraseDups (l : List ℕ) : l.eraseDups.Nodup := by
  induction hn : l.length using Nat.strong_induction_on generalizing l with
  | _ n ih =>
    cases l with
    | nil => simp
    | cons a as =>
      rw [List.eraseDups_cons, List.nodup_cons]
      refine ⟨?_, ?_⟩
      · simp [List.mem_eraseDups]
      · refine ih _ ?_ _ rfl
        subst hn
        exact Nat.lt_succ_of_le (List.length_filter_le _ _)

/-- the triples of one column -/
def coverCol (col : ℕ) (vs : List ℕ) : List (ℕ × ℕ × ℚ) :=
  vs.filterMap fun k => if k = 0 then none else some (k - 1, col, (1 : ℚ))

theorem cooEntry_coverCol (col : ℕ) (vs : List ℕ) (hn : vs.Nodup) (r c : ℕ) :
    cooEntry (coverCol col vs) r c = if col = c ∧ (r + 1) ∈ vs then 1 else 0 := by
  induction vs with
  | nil => simp [coverCol, cooEntry_nil]
  | cons x vs ih =>
    rw [List.nodup_cons] at hn
    have ih' := ih hn.2
    by_cases hx : x = 0
    · have : coverCol col (x :: vs) = coverCol col vs := by simp [coverCol, hx]
      rw [this, ih']
      have : (r + 1 ∈ x :: vs) ↔ r + 1 ∈ vs := by simp [hx]
      simp only [this]
    · have : coverCol col (x :: vs) = (x - 1, col, (1 : ℚ)) :: coverCol col vs := by
        simp [coverCol, hx]
      rw [this, cooEntry_cons, ih']
      simp only
      by_cases hxr : x = r + 1
      · subst hxr
        have hnot : r + 1 ∉ vs := hn.1
        by_cases hc : col = c <;> simp [hc, hnot]
      · have h1 : ¬ (x - 1 = r) := by omega
        have h2 : (r + 1 ∈ x :: vs) ↔ r + 1 ∈ vs := by
          simp only [List.mem_cons]; constructor
          · rintro (h | h)
            · exact absurd h.symm hxr
            · exact h
          · exact Or.inr
        simp only [h1, false_and, if_false, zero_add, h2]

/-- entry `(r, c)` of the exact-cover matrix assembled column by column -/
theorem cooEntry_cover (V : List (List ℕ)) (r c : ℕ) : ∀ s,
    cooEntry (((List.range' s V.length).zip V).flatMap fun (p : ℕ × List ℕ) => coverCol p.1 p.2.eraseDups) r c =
      if s ≤ c ∧ c < s + V.length then (if (r + 1) ∈ V.getD (c - s) [] then 1 else 0) else 0 := by
  induction V with
  | nil => intro s; simp [cooEntry_nil]
  | cons v V ih =>
    intro s
    rw [List.length_cons, List.range'_succ, List.zip_cons_cons, List.flatMap_cons, cooEntry_append,
      cooEntry_coverCol _ _ (nodup_eraseDups v), ih (s + 1)]
    simp only [List.mem_eraseDups]
    by_cases hs : s = c
    · subst hs
      simp
    · by_cases hin : s + 1 ≤ c ∧ c < s + 1 + V.length
      · have hin' : s ≤ c ∧ c < s + (V.length + 1) := by omega
        have hsub : c - s = (c - (s + 1)) + 1 := by omega
        rw [if_pos hin, if_pos hin', hsub, List.getD_cons_succ]
        simp [hs]
      · have hin' : ¬ (s ≤ c ∧ c < s + (V.length + 1)) := by omega
        rw [if_neg hin, if_neg hin']
        simp [hs]

end Vrp
