import VrpModel.SeqBased
import VrpProofs.Props.C18
import VrpProofs.Props.C02
import VrpProofs.Lemmas.Program
import VrpProofs.Lemmas.Penalty
import VrpProofs.Lemmas.Route
import VrpProofs.Lemmas.SeqWalksProto

/-!
# Bridge between the flat 0/1 vector of the sequence-based program and the tuple-indexed prototype

generic facts about COO rows / `Rmat` entries as list sums, then the row and quadratic semantics of
`SeqInst.data` in terms of the tuple-indexed assignment `yOf I x`.
-/
namespace Vrp
open Finset

/-! ### generic list-sum lemmas -/

theorem sum_map_range (n : ℕ) (f : ℕ → ℚ) : ((List.range n).map f).sum = ∑ i ∈ range n, f i := by
  induction n with
  | zero => simp
  | succ k ih => simp [List.range_succ, Finset.sum_range_succ, ih]

theorem list_sum_eq_zero_iff {α : Type*} (l : List α) (f : α → ℚ) (h : ∀ a ∈ l, 0 ≤ f a) :
    (l.map f).sum = 0 ↔ ∀ a ∈ l, f a = 0 := by
  induction l with
  | nil => simp
  | cons a l ih =>
    have ha := h a List.mem_cons_self
    have hl := fun b hb => h b (List.mem_cons_of_mem _ hb)
    have hs := sum_map_nonneg l f hl
    simp only [List.map_cons, List.sum_cons, List.forall_mem_cons]
    rw [← ih hl]
    constructor
    · intro h0; constructor <;> linarith
    · rintro ⟨h1, h2⟩; rw [h1, h2]; ring

/-- selecting the entry with index `r` from `zip (range' s _) l` -/
theorem sum_zip_range'_ite {α : Type*} (l : List α) (F : α → ℚ) (s r : ℕ) :
    (((List.range' s l.length).zip l).map fun p => if p.1 = s + r then F p.2 else 0).sum
      = (l[r]?).elim 0 F := by
  induction l generalizing s r with
  | nil => simp
  | cons a l ih =>
    simp only [List.length_cons, List.range'_succ, List.zip_cons_cons, List.map_cons, List.sum_cons]
    cases r with
    | zero =>
      have hz : (((List.range' (s + 1) l.length).zip l).map
          fun p => if p.1 = s + 0 then F p.2 else 0).sum = 0 := by
        apply List.sum_eq_zero
        intro q hq
        simp only [List.mem_map] at hq
        obtain ⟨p, hp, rfl⟩ := hq
        have := (List.of_mem_zip hp).1
        rw [List.mem_range'_1] at this
        rw [if_neg (by omega)]
      rw [hz]; simp
    | succ r =>
      have := ih (s + 1) r
      have he : s + 1 + r = s + (r + 1) := by omega
      rw [he] at this
      rw [this]; simp

theorem sum_zip_range_ite {α : Type*} (l : List α) (F : α → ℚ) (r : ℕ) :
    (((List.range l.length).zip l).map fun p => if p.1 = r then F p.2 else 0).sum
      = (l[r]?).elim 0 F := by
  have := sum_zip_range'_ite l F 0 r
  simpa [List.range_eq_range'] using this

/-! ### COO rows and `Rmat` as list sums -/

theorem coo_row_sum (t : List (ℕ × ℕ × ℚ)) (n : ℕ) (ht : ∀ e ∈ t, e.2.1 < n) (x : Vec) (r : ℕ) :
    ∑ j ∈ range n, cooEntry t r j * x j
      = (t.map fun e => if e.1 = r then e.2.2 * x e.2.1 else 0).sum := by
  induction t with
  | nil => simp [cooEntry_nil]
  | cons e t ih =>
    have he := ht e List.mem_cons_self
    have ih' := ih fun b hb => ht b (List.mem_cons_of_mem _ hb)
    simp only [cooEntry_cons, add_mul, Finset.sum_add_distrib, List.map_cons, List.sum_cons, ih']
    congr 1
    by_cases h1 : e.1 = r
    · simp only [h1, true_and, if_true, ite_mul, zero_mul]
      rw [Finset.sum_ite_eq]
      simp [he]
    · simp [h1]

theorem rmat_quad_sum (R : List (ℕ × ℕ)) (n : ℕ) (hR : ∀ e ∈ R, e.1 < n ∧ e.2 < n) (x : Vec) :
    ∑ i ∈ range n, ∑ j ∈ range n, ((R.filter fun e => e.1 = i ∧ e.2 = j).length : ℚ) * x i * x j
      = (R.map fun e => x e.1 * x e.2).sum := by
  induction R with
  | nil => simp
  | cons e R ih =>
    have he := hR e List.mem_cons_self
    have ih' := ih fun b hb => hR b (List.mem_cons_of_mem _ hb)
    have : ∀ i j, ((((e :: R).filter fun e => e.1 = i ∧ e.2 = j).length : ℕ) : ℚ)
        = (if e.1 = i then (if e.2 = j then 1 else 0) else 0)
          + ((R.filter fun e => e.1 = i ∧ e.2 = j).length : ℚ) := by
      intro i j
      by_cases hi : e.1 = i <;> by_cases hj : e.2 = j <;> simp [hi, hj]
      ring
    simp only [this, add_mul, Finset.sum_add_distrib, ih', List.map_cons, List.sum_cons]
    congr 1
    have h2 : ∀ i ∈ range n, ∑ j ∈ range n, (if e.1 = i then (if e.2 = j then (1 : ℚ) else 0) else 0) * x i * x j
        = if e.1 = i then x i * x e.2 else 0 := by
      intro i _
      by_cases hi : e.1 = i
      · simp only [hi, if_true, ite_mul, one_mul, zero_mul]
        rw [Finset.sum_ite_eq]; simp [he.2]
      · simp [hi]
    rw [Finset.sum_congr rfl h2, Finset.sum_ite_eq]
    simp [he.1]

/-! ### the tuple-indexed view of the flat vector -/

/-- tuple-indexed view of the flat vector: free variables read `x`, fixed ones their fixed value -/
def yOf (I : SeqInst) (x : Vec) (v p n : ℕ) : ℚ :=
  match I.varIndex (v, p, n) with
  | some k => x k
  | none => (I.fixed p n).getD 0

/-- the abstract instance of the prototype -/
def toP7 (I : SeqInst) : P7.SeqInst := ⟨I.g.nodes.length, I.V, I.L, fun a b => I.g.hasArc a b⟩

theorem p7_fixed_eq (J : P7.SeqInst) (I : SeqInst) (hL : J.L = I.L)
    (ha : ∀ a b, J.arc a b = I.g.hasArc a b) (p n : ℕ) : J.fixed p n = I.fixed p n := by
  simp only [P7.SeqInst.fixed, SeqInst.fixed, hL, ha, Bool.not_eq_true']
  by_cases h0 : p = 0
  · by_cases hn : n = 0 <;> simp [h0, hn]
  · by_cases h1 : p = 1 ∧ I.g.hasArc 0 n = false
    · simp [h1]
    · by_cases hl : p = I.L - 1
      · by_cases hn : n = 0
        · simp only [h0, hn, false_and, if_false, ← hl, true_and, if_true]
        · simp only [h0, h1, hn, and_false, if_false, ← hl, if_true]
      · simp only [h0, h1, hl, false_and, if_false]

theorem toP7_fixed (I : SeqInst) (p n : ℕ) : (toP7 I).fixed p n = I.fixed p n :=
  p7_fixed_eq (toP7 I) I rfl (fun _ _ => rfl) p n

def freePart (I : SeqInst) (x : Vec) (u : STup) : ℚ :=
  match I.varIndex u with
  | some k => x k
  | none => 0

def fixPart (I : SeqInst) (u : STup) : ℚ :=
  match I.varIndex u with
  | some _ => 0
  | none => (I.fixed u.2.1 u.2.2).getD 0

theorem yOf_split (I : SeqInst) (x : Vec) (u : STup) :
    yOf I x u.1 u.2.1 u.2.2 = freePart I x u + fixPart I u := by
  obtain ⟨v, p, n⟩ := u
  unfold yOf freePart fixPart
  cases I.varIndex (v, p, n) <;> simp

def custRows (I : SeqInst) : List (List STup) :=
  (List.range (I.g.nodes.length - 1)).map fun k =>
    (List.range I.L).flatMap fun p => (List.range I.V).map fun v => (v, p, k + 1)

def slotRows (I : SeqInst) : List (List STup) :=
  (List.range (I.L - 2)).flatMap fun p' =>
    (List.range I.V).map fun v => (List.range I.g.nodes.length).map fun n => (v, p' + 1, n)

def seqRows (I : SeqInst) : List (List STup) := custRows I ++ slotRows I

theorem linCons_fst (I : SeqInst) : I.linCons.1 =
    ((List.range (seqRows I).length).zip (seqRows I)).flatMap fun a =>
      a.2.filterMap fun u => (I.varIndex u).map fun k => (a.1, k, (1 : ℚ)) := rfl

theorem linCons_snd (I : SeqInst) : I.linCons.2 =
    (seqRows I).map fun tuples => 1 - sumList (tuples.map (fixPart I)) := rfl

theorem seq_data_fields {I : SeqInst} {d : MPData} (h : I.data = some d) :
    d.n = I.vars.length ∧ d.m = (seqRows I).length ∧ d.A = I.linCons.1 ∧ d.b = I.linCons.2 ∧
      I.quadCons = some d.R := by
  unfold SeqInst.data at h
  cases hqc : I.quadCons with
  | none => simp [hqc] at h
  | some R =>
    simp only [hqc, Option.some.injEq] at h
    subst h
    refine ⟨rfl, ?_, rfl, rfl, rfl⟩
    simp [linCons_snd]

/-! ### linear rows -/

theorem seq_rowVal {I : SeqInst} {d : MPData} (h : I.data = some d) (x : Vec) (r : ℕ)
    (hr : r < (seqRows I).length) :
    d.rowVal x r = (((seqRows I)[r]).map (freePart I x)).sum := by
  obtain ⟨hn, _, hA, _, _⟩ := seq_data_fields h
  have hws := C02.seq_wellShaped I d h
  unfold MPData.wellShaped at hws
  simp only [Bool.and_eq_true, decide_eq_true_eq, List.all_eq_true] at hws
  have hcol : ∀ e ∈ d.A, e.2.1 < d.n := fun e he => (hws.1.1.2 e he).2
  unfold MPData.rowVal MPData.Amat
  rw [sumTo_eq, coo_row_sum d.A d.n hcol x r, hA, linCons_fst, sum_flatMap_map]
  have key : ∀ a : ℕ × List STup,
      ((a.2.filterMap fun u => (I.varIndex u).map fun k => (a.1, k, (1 : ℚ))).map
        fun e => if e.1 = r then e.2.2 * x e.2.1 else 0).sum
      = if a.1 = r then (a.2.map (freePart I x)).sum else 0 := by
    intro a
    rw [sum_filterMap_map]
    by_cases har : a.1 = r
    · rw [if_pos har]
      congr 1
      apply List.map_congr_left
      intro u _
      unfold freePart
      cases I.varIndex u <;> simp [har]
    · rw [if_neg har]
      apply List.sum_eq_zero
      intro q hq
      simp only [List.mem_map] at hq
      obtain ⟨u, _, rfl⟩ := hq
      cases I.varIndex u <;> simp [har]
  simp only [key]
  rw [sum_zip_range_ite (seqRows I) (fun t => (t.map (freePart I x)).sum) r,
    List.getElem?_eq_getElem hr]
  rfl

theorem seq_bvec {I : SeqInst} {d : MPData} (h : I.data = some d) (r : ℕ)
    (hr : r < (seqRows I).length) :
    d.bvec r = 1 - (((seqRows I)[r]).map (fixPart I)).sum := by
  obtain ⟨_, _, _, hb, _⟩ := seq_data_fields h
  unfold MPData.bvec vecOf
  rw [hb, linCons_snd, List.getD_eq_getElem?_getD, List.getElem?_map, List.getElem?_eq_getElem hr]
  simp [sumList_eq]

/-- a row holds iff the tuple-indexed values over the row sum to one -/
theorem seq_row_iff {I : SeqInst} {d : MPData} (h : I.data = some d) (x : Vec) (r : ℕ)
    (hr : r < (seqRows I).length) :
    d.rowVal x r = d.bvec r ↔ (((seqRows I)[r]).map fun u => yOf I x u.1 u.2.1 u.2.2).sum = 1 := by
  rw [seq_rowVal h x r hr, seq_bvec h r hr]
  have : (((seqRows I)[r]).map fun u => yOf I x u.1 u.2.1 u.2.2).sum
      = (((seqRows I)[r]).map (freePart I x)).sum + (((seqRows I)[r]).map (fixPart I)).sum := by
    rw [← List.sum_map_add]
    congr 1
    apply List.map_congr_left
    intro u _
    exact yOf_split I x u
  rw [this]
  constructor <;> intro h' <;> linarith

theorem seq_rows_iff {I : SeqInst} {d : MPData} (h : I.data = some d) (x : Vec) :
    (∀ r < d.m, d.rowVal x r = d.bvec r) ↔
      ∀ t ∈ seqRows I, (t.map fun u => yOf I x u.1 u.2.1 u.2.2).sum = 1 := by
  obtain ⟨_, hm, _, _, _⟩ := seq_data_fields h
  rw [hm]
  constructor
  · intro hall t ht
    obtain ⟨r, hr, rfl⟩ := List.getElem_of_mem ht
    exact (seq_row_iff h x r hr).1 (hall r hr)
  · intro hall r hr
    exact (seq_row_iff h x r hr).2 (hall _ (List.getElem_mem hr))

theorem custRow_sum (L V : ℕ) (y : ℕ → ℕ → ℕ → ℚ) (k : ℕ) :
    (((List.range L).flatMap fun p => (List.range V).map fun v => ((v, p, k) : STup)).map
      fun u => y u.1 u.2.1 u.2.2).sum = ∑ p ∈ range L, ∑ v ∈ range V, y v p k := by
  rw [sum_flatMap_map, sum_map_range]
  refine Finset.sum_congr rfl fun p _ => ?_
  rw [List.map_map, sum_map_range]
  rfl

theorem slotRow_sum (N : ℕ) (y : ℕ → ℕ → ℕ → ℚ) (v p : ℕ) :
    (((List.range N).map fun n => ((v, p, n) : STup)).map fun u => y u.1 u.2.1 u.2.2).sum
      = ∑ n ∈ range N, y v p n := by
  rw [List.map_map, sum_map_range]
  rfl

theorem seq_rows_cust_slot (I : SeqInst) (y : ℕ → ℕ → ℕ → ℚ) :
    (∀ t ∈ seqRows I, (t.map fun u => y u.1 u.2.1 u.2.2).sum = 1) ↔
      (toP7 I).Cust y ∧ (toP7 I).Slot y := by
  constructor
  · intro hall
    refine ⟨fun k hk1 hkN => ?_, fun p hp1 hp2 v hv => ?_⟩
    · have hmem : ((List.range I.L).flatMap fun p => (List.range I.V).map fun v => ((v, p, k) : STup))
          ∈ seqRows I := by
        simp only [seqRows, custRows, List.mem_append, List.mem_map, List.mem_range]
        refine Or.inl ⟨k - 1, ?_, ?_⟩
        · have : k < I.g.nodes.length := hkN
          omega
        · have : k - 1 + 1 = k := by omega
          rw [this]
      have := hall _ hmem
      rw [custRow_sum] at this
      exact this
    · have hmem : ((List.range I.g.nodes.length).map fun n => ((v, p, n) : STup)) ∈ seqRows I := by
        simp only [seqRows, slotRows, List.mem_append, List.mem_flatMap, List.mem_map, List.mem_range]
        refine Or.inr ⟨p - 1, ?_, v, hv, ?_⟩
        · have : p ≤ I.L - 2 := hp2
          omega
        · have : p - 1 + 1 = p := by omega
          rw [this]
      have := hall _ hmem
      rw [slotRow_sum] at this
      exact this
  · rintro ⟨hc, hs⟩ t ht
    simp only [seqRows, custRows, slotRows, List.mem_append, List.mem_flatMap, List.mem_map,
      List.mem_range] at ht
    rcases ht with ⟨k, hk, rfl⟩ | ⟨p', hp', v, hv, rfl⟩
    · rw [custRow_sum]
      exact hc (k + 1) (by omega) (by show k + 1 < I.g.nodes.length; omega)
    · rw [slotRow_sum]
      exact hs (p' + 1) (by omega) (by show p' + 1 ≤ I.L - 2; omega) v hv

/-! ### quadratic constraints -/

theorem yOf_some {I : SeqInst} {x : Vec} {v p n k : ℕ} (h : I.varIndex (v, p, n) = some k) :
    yOf I x v p n = x k := by
  unfold yOf; rw [h]

theorem yOf_none {I : SeqInst} {x : Vec} {v p n : ℕ} (h : I.varIndex (v, p, n) = none) :
    yOf I x v p n = (I.fixed p n).getD 0 := by
  unfold yOf; rw [h]

/-- the list of (vehicle, position, node, node) quadruples `quadCons` folds over -/
def qlist (I : SeqInst) : List (ℕ × ℕ × ℕ × ℕ) :=
  ((List.range I.g.nodes.length).flatMap fun ni => (List.range I.g.nodes.length).flatMap fun nj =>
      if I.g.hasArc ni nj then [] else
        (List.range (I.L - 1)).flatMap fun p => (List.range I.V).map fun v => (v, p, ni, nj))
  ++ ((List.range I.V).flatMap fun v => (List.range (I.L - 2)).flatMap fun p' =>
      (List.range (I.g.nodes.length - 1)).flatMap fun nj' =>
        if I.g.hasArc 0 (nj' + 1) then [(v, p' + 1, 0, nj' + 1)] else [])

theorem quadCons_qlist (I : SeqInst) : I.quadCons = (qlist I).foldl (qstep I) (some []) := rfl

theorem mem_qlist (I : SeqInst) (v p ni nj : ℕ) :
    (v, p, ni, nj) ∈ qlist I ↔
      v < I.V ∧ p < I.L - 1 ∧ ni < I.g.nodes.length ∧ nj < I.g.nodes.length ∧
        (I.g.hasArc ni nj = false ∨ (ni = 0 ∧ 1 ≤ p ∧ 1 ≤ nj ∧ I.g.hasArc 0 nj = true)) := by
  simp only [qlist, List.mem_append, List.mem_flatMap, List.mem_range]
  constructor
  · rintro (⟨ni', hni, nj', hnj, ht⟩ | ⟨v', hv, p', hp, nj', hn, ht⟩)
    · split_ifs at ht with ha
      · simp at ht
      · simp only [List.mem_flatMap, List.mem_range, List.mem_map, Prod.mk.injEq] at ht
        obtain ⟨p'', hp, v', hv, rfl, rfl, rfl, rfl⟩ := ht
        exact ⟨hv, hp, hni, hnj, Or.inl (by simpa using ha)⟩
    · split_ifs at ht with ha
      · simp only [List.mem_singleton, Prod.mk.injEq] at ht
        obtain ⟨rfl, rfl, rfl, rfl⟩ := ht
        refine ⟨hv, by omega, by omega, by omega, Or.inr ⟨rfl, by omega, by omega, ha⟩⟩
      · simp at ht
  · rintro ⟨hv, hp, hni, hnj, hc⟩
    by_cases ha : I.g.hasArc ni nj = true
    · rcases hc with hc | ⟨rfl, hp1, hn1, ha0⟩
      · rw [ha] at hc; exact absurd hc (by simp)
      · refine Or.inr ⟨v, hv, p - 1, by omega, nj - 1, by omega, ?_⟩
        have e1 : nj - 1 + 1 = nj := by omega
        have e2 : p - 1 + 1 = p := by omega
        rw [e1, e2, if_pos ha0]
        simp
    · refine Or.inl ⟨ni, hni, nj, hnj, ?_⟩
      rw [if_neg ha]
      simp only [List.mem_flatMap, List.mem_range, List.mem_map]
      exact ⟨p, hp, v, hv, rfl⟩

theorem qstep_foldl_mem (I : SeqInst) (l : List (ℕ × ℕ × ℕ × ℕ)) (acc R : List (ℕ × ℕ))
    (hR : l.foldl (qstep I) (some acc) = some R) (e : ℕ × ℕ) :
    e ∈ R ↔ e ∈ acc ∨ ∃ t ∈ l, I.quadLogic t.1 t.2.1 t.2.2.1 t.2.2.2 = some (some e) := by
  induction l generalizing acc with
  | nil =>
    simp only [List.foldl_nil, Option.some.injEq] at hR
    subst hR; simp
  | cons t l ih =>
    rw [List.foldl_cons] at hR
    cases hq : I.quadLogic t.1 t.2.1 t.2.2.1 t.2.2.2 with
    | none => simp only [qstep, hq] at hR; rw [qstep_foldl_none] at hR; exact absurd hR (by simp)
    | some o =>
      cases o with
      | none =>
        simp only [qstep, hq] at hR
        rw [ih acc hR]
        simp [hq]
      | some e' =>
        simp only [qstep, hq] at hR
        rw [ih _ hR]
        simp only [List.mem_append, List.mem_singleton, List.exists_mem_cons_iff, hq,
          Option.some.injEq]
        constructor
        · rintro ((h1 | h1) | h1)
          · exact Or.inl h1
          · exact Or.inr (Or.inl h1.symm)
          · exact Or.inr (Or.inr h1)
        · rintro (h1 | h1 | h1)
          · exact Or.inl (Or.inl h1)
          · exact Or.inl (Or.inr h1.symm)
          · exact Or.inr h1

theorem quadLogic_some_iff (I : SeqInst) (v p ni nj : ℕ) (e : ℕ × ℕ) :
    I.quadLogic v p ni nj = some (some e) ↔
      I.varIndex (v, p, ni) = some e.1 ∧ I.varIndex (v, p + 1, nj) = some e.2 := by
  unfold SeqInst.quadLogic
  cases h1 : I.varIndex (v, p, ni) <;> cases h2 : I.varIndex (v, p + 1, nj)
  · simp only; split_ifs <;> simp
  · simp only; split_ifs <;> simp
  · simp only; split_ifs <;> simp
  · simp only [Option.some.injEq]
    constructor
    · rintro rfl; exact ⟨rfl, rfl⟩
    · rintro ⟨rfl, rfl⟩; rfl

theorem seq_quad_iff {I : SeqInst} {d : MPData} (h : I.data = some d) (x : Vec) (hx : IsBin d.n x) :
    quad d.n d.Rmat x = 0 ↔
      ∀ v p ni nj, (v, p, ni, nj) ∈ qlist I → ∀ k1 k2, I.varIndex (v, p, ni) = some k1 →
        I.varIndex (v, p + 1, nj) = some k2 → x k1 * x k2 = 0 := by
  obtain ⟨_, _, _, _, hqc⟩ := seq_data_fields h
  have hws := C02.seq_wellShaped I d h
  unfold MPData.wellShaped at hws
  simp only [Bool.and_eq_true, decide_eq_true_eq, List.all_eq_true] at hws
  have hR : ∀ e ∈ d.R, e.1 < d.n ∧ e.2 < d.n := fun e he => hws.1.2 e he
  have hnn : ∀ e ∈ d.R, 0 ≤ x e.1 * x e.2 := by
    intro e he
    obtain ⟨h1, h2⟩ := hR e he
    rcases hx _ h1 with a | a <;> rcases hx _ h2 with b | b <;> rw [a, b] <;> norm_num
  have hmem := qstep_foldl_mem I (qlist I) [] d.R (by rw [← quadCons_qlist, hqc])
  simp only [quad, sumTo_eq, MPData.Rmat]
  rw [rmat_quad_sum d.R d.n hR x, list_sum_eq_zero_iff d.R _ hnn]
  constructor
  · intro hall v p ni nj ht k1 k2 h1 h2
    have : (k1, k2) ∈ d.R :=
      (hmem (k1, k2)).2 (Or.inr ⟨(v, p, ni, nj), ht, (quadLogic_some_iff I v p ni nj (k1, k2)).2 ⟨h1, h2⟩⟩)
    exact hall _ this
  · intro hall e he
    rcases (hmem e).1 he with h0 | ⟨⟨v, p, ni, nj⟩, ht, hq⟩
    · simp at h0
    · obtain ⟨h1, h2⟩ := (quadLogic_some_iff I v p ni nj e).1 hq
      exact hall v p ni nj ht e.1 e.2 h1 h2

/-! ### connection with the prototype -/

theorem varIndex_isSome_of_free {I : SeqInst} {v p n : ℕ} (hv : v < I.V) (hp : p < I.L)
    (hn : n < I.g.nodes.length) (hf : I.fixed p n = none) : ∃ k, I.varIndex (v, p, n) = some k := by
  cases hk : I.varIndex (v, p, n) with
  | some k => exact ⟨k, rfl⟩
  | none => exact absurd ⟨hv, hp, hn, hf⟩ ((C18.seq_index_none_iff I (v, p, n)).1 hk)

theorem varIndex_none_of_fixed {I : SeqInst} {v p n : ℕ} {f : ℚ} (hf : I.fixed p n = some f) :
    I.varIndex (v, p, n) = none := by
  rw [C18.seq_index_none_iff]
  rintro ⟨_, _, _, h⟩
  simp only at h
  rw [hf] at h
  exact absurd h (by simp)

theorem yOf_agree (I : SeqInst) (x : Vec) : (toP7 I).Agree (yOf I x) := by
  intro v _ p _ n _ f hf
  rw [toP7_fixed] at hf
  rw [yOf_none (varIndex_none_of_fixed hf), hf]
  rfl

theorem fixed_val (I : SeqInst) (p n : ℕ) (f : ℚ) (h : I.fixed p n = some f) : f = 0 ∨ f = 1 := by
  unfold SeqInst.fixed at h
  split_ifs at h <;> simp only [Option.some.injEq] at h <;> subst h <;> simp

theorem yOf_bin (I : SeqInst) (x : Vec) (hx : IsBin I.vars.length x) : (toP7 I).Bin (yOf I x) := by
  intro v hv p hp n hn
  cases hk : I.varIndex (v, p, n) with
  | some k =>
    rw [yOf_some hk]
    exact hx k (seq_varIndex_some hk).1
  | none =>
    rw [yOf_none hk]
    cases hf : I.fixed p n with
    | none => exact absurd ⟨hv, hp, hn, hf⟩ ((C18.seq_index_none_iff I (v, p, n)).1 hk)
    | some f => exact fixed_val I p n f hf

theorem seq_quad_proto (I : SeqInst) (x : Vec) (hb : (toP7 I).Bin (yOf I x)) :
    (∀ v p ni nj, (v, p, ni, nj) ∈ qlist I → ∀ k1 k2, I.varIndex (v, p, ni) = some k1 →
        I.varIndex (v, p + 1, nj) = some k2 → x k1 * x k2 = 0) ↔ (toP7 I).Quad (yOf I x) := by
  constructor
  · intro hall
    unfold P7.SeqInst.Quad
    refine Finset.sum_eq_zero (fun v hv => Finset.sum_eq_zero (fun p hp => Finset.sum_eq_zero
      (fun n hn => Finset.sum_eq_zero (fun n' hn' => ?_))))
    have hv' : v < I.V := Finset.mem_range.1 hv
    have hp' : p < I.L - 1 := Finset.mem_range.1 hp
    have hn1 : n < I.g.nodes.length := Finset.mem_range.1 hn
    have hn2 : n' < I.g.nodes.length := Finset.mem_range.1 hn'
    unfold P7.SeqInst.quadTerm
    split
    · next hc =>
      obtain ⟨hf, hfr1, hfr2⟩ := hc
      unfold P7.SeqInst.free at hfr1 hfr2
      rw [toP7_fixed] at hfr1 hfr2
      obtain ⟨k1, hk1⟩ := varIndex_isSome_of_free hv' (by omega) hn1 hfr1
      obtain ⟨k2, hk2⟩ := varIndex_isSome_of_free hv' (by omega) hn2 hfr2
      rw [yOf_some hk1, yOf_some hk2]
      refine hall v p n n' ((mem_qlist I v p n n').2 ⟨hv', hp', hn1, hn2, ?_⟩) k1 k2 hk1 hk2
      rcases hf with hf | ⟨h0, hne, hp1⟩
      · exact Or.inl hf
      · by_cases ha : I.g.hasArc 0 n' = true
        · exact Or.inr ⟨h0, hp1, by omega, ha⟩
        · refine Or.inl ?_
          rw [h0]
          simpa using ha
    · rfl
  · intro hq v p ni nj ht k1 k2 hk1 hk2
    obtain ⟨hv, hp, hn1, hn2, hc⟩ := (mem_qlist I v p ni nj).1 ht
    have hz := (toP7 I).quadTerm_zero (yOf I x) hb hq v p ni nj hv
      (by show p + 1 < I.L; omega) hn1 hn2
    unfold P7.SeqInst.quadTerm at hz
    have hforb : (toP7 I).forb p ni nj := by
      rcases hc with hc | ⟨h0, hp1, hn1', _⟩
      · exact Or.inl hc
      · exact Or.inr ⟨h0, by omega, hp1⟩
    have hfr1 : (toP7 I).free p ni := by
      unfold P7.SeqInst.free
      rw [toP7_fixed]
      exact seq_mem_vars (seq_varIndex_some hk1).2
    have hfr2 : (toP7 I).free (p + 1) nj := by
      unfold P7.SeqInst.free
      rw [toP7_fixed]
      exact seq_mem_vars (seq_varIndex_some hk2).2
    rw [if_pos ⟨hforb, hfr1, hfr2⟩, yOf_some hk1, yOf_some hk2] at hz
    exact hz

/-- **the feasibility predicate of the data, in terms of the tuple-indexed prototype** -/
theorem seq_feasible_iff_proto {I : SeqInst} {d : MPData} (h : I.data = some d) (x : Vec)
    (hx : IsBin d.n x) :
    d.feasibleB x = true ↔
      (toP7 I).Cust (yOf I x) ∧ (toP7 I).Slot (yOf I x) ∧ (toP7 I).Quad (yOf I x) := by
  have hn := (seq_data_fields h).1
  have hb : (toP7 I).Bin (yOf I x) := yOf_bin I x (hn ▸ hx)
  unfold MPData.feasibleB
  simp only [Bool.and_eq_true, List.all_eq_true, List.mem_range, decide_eq_true_eq]
  rw [seq_rows_iff h x, seq_rows_cust_slot I (yOf I x), seq_quad_iff h x hx, seq_quad_proto I x hb,
    and_assoc]

end Vrp
