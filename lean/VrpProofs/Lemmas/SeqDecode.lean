import VrpProofs.Lemmas.SeqMoves

/-!
# Helper lemmas for C07b: the operational decoder of the sequence-based model

* `stupLe` is a total order on tuples; `sortS` (insertion sort) returns the unique sorted permutation,
* the selected + fixed-to-1 tuples of a walk indicator are a permutation of the walk's own tuples `allT`,
* `decodeVehicle` / `decode.go` on the sorted tuple list of a walk return the walk.
-/
namespace Vrp.C07
open Vrp

/-! ### the lexicographic order and insertion sort -/

theorem stupLe_iff (a b : STup) : stupLe a b = true ↔
    a.1 < b.1 ∨ (a.1 = b.1 ∧ (a.2.1 < b.2.1 ∨ (a.2.1 = b.2.1 ∧ a.2.2 ≤ b.2.2))) := by
  simp [stupLe]

theorem stupLe_total {a b : STup} (h : ¬ stupLe a b = true) : stupLe b a = true := by
  rw [stupLe_iff] at *; omega

theorem stupLe_trans {a b c : STup} (h1 : stupLe a b = true) (h2 : stupLe b c = true) :
    stupLe a c = true := by
  rw [stupLe_iff] at *; omega

theorem stupLe_antisymm {a b : STup} (h1 : stupLe a b = true) (h2 : stupLe b a = true) : a = b := by
  rw [stupLe_iff] at *
  obtain ⟨a1, a2, a3⟩ := a
  obtain ⟨b1, b2, b3⟩ := b
  simp only [Prod.mk.injEq] at *
  omega

theorem insertS_perm (x : STup) (l : List STup) : (insertS x l).Perm (x :: l) := by
  induction l with
  | nil => simp [insertS]
  | cons y ys ih =>
    simp only [insertS]
    split_ifs
    · exact List.Perm.refl _
    · exact (List.Perm.cons y ih).trans (List.Perm.swap x y ys)

theorem insertS_sorted (x : STup) (l : List STup) (h : l.Pairwise (fun a b => stupLe a b = true)) :
    (insertS x l).Pairwise (fun a b => stupLe a b = true) := by
  induction l with
  | nil => simp [insertS]
  | cons y ys ih =>
    rw [List.pairwise_cons] at h
    simp only [insertS]
    split_ifs with hxy
    · refine List.pairwise_cons.2 ⟨?_, List.pairwise_cons.2 h⟩
      intro z hz
      rcases List.mem_cons.1 hz with rfl | hz
      · exact hxy
      · exact stupLe_trans hxy (h.1 z hz)
    · refine List.pairwise_cons.2 ⟨?_, ih h.2⟩
      intro z hz
      have hz' := (insertS_perm x ys).mem_iff.1 hz
      rcases List.mem_cons.1 hz' with rfl | hz'
      · exact stupLe_total hxy
      · exact h.1 z hz'

theorem sortS_sorted_perm (l : List STup) :
    (sortS l).Pairwise (fun a b => stupLe a b = true) ∧ (sortS l).Perm l := by
  unfold sortS
  induction l with
  | nil => simp
  | cons x xs ih =>
    simp only [List.foldr_cons]
    exact ⟨insertS_sorted x _ ih.1, (insertS_perm x _).trans (List.Perm.cons x ih.2)⟩

/-- insertion sort of a permutation of a sorted list returns that list -/
theorem sortS_eq_of_perm_sorted (l s : List STup) (hp : l.Perm s)
    (hs : s.Pairwise (fun a b => stupLe a b = true)) : sortS l = s :=
  List.Perm.eq_of_pairwise (fun _ _ _ _ h1 h2 => stupLe_antisymm h1 h2) (sortS_sorted_perm l).1 hs
    ((sortS_sorted_perm l).2.trans hp)

/-! ### the tuples of a walk assignment -/

/-- all `(v, p, w v p)`, vehicle-major -/
def allT (I : SeqInst) (w : ℕ → ℕ → ℕ) : List STup :=
  (List.range I.V).flatMap fun v => (List.range I.L).map fun p => (v, p, w v p)

theorem mem_allT (I : SeqInst) (w : ℕ → ℕ → ℕ) (u : STup) :
    u ∈ allT I w ↔ u.1 < I.V ∧ u.2.1 < I.L ∧ u.2.2 = w u.1 u.2.1 := by
  obtain ⟨v, p, n⟩ := u
  simp only [allT, List.mem_flatMap, List.mem_map, List.mem_range, Prod.mk.injEq]
  constructor
  · rintro ⟨v', hv, p', hp, rfl, rfl, rfl⟩
    exact ⟨hv, hp, rfl⟩
  · rintro ⟨hv, hp, rfl⟩
    exact ⟨v, hv, p, hp, rfl, rfl, rfl⟩

theorem allT_strict (I : SeqInst) (w : ℕ → ℕ → ℕ) :
    (allT I w).Pairwise (fun a b => a.1 < b.1 ∨ (a.1 = b.1 ∧ a.2.1 < b.2.1)) := by
  unfold allT
  rw [List.pairwise_flatMap]
  constructor
  · intro v _
    rw [List.pairwise_map]
    exact List.pairwise_lt_range.imp fun h => Or.inr ⟨rfl, h⟩
  · refine List.pairwise_lt_range.imp ?_
    intro v v' hlt x hx y hy
    simp only [List.mem_map] at hx hy
    obtain ⟨p, _, rfl⟩ := hx
    obtain ⟨p', _, rfl⟩ := hy
    exact Or.inl hlt

theorem allT_sorted (I : SeqInst) (w : ℕ → ℕ → ℕ) :
    (allT I w).Pairwise (fun a b => stupLe a b = true) := by
  refine (allT_strict I w).imp ?_
  intro a b h
  rw [stupLe_iff]; omega

theorem allT_nodup (I : SeqInst) (w : ℕ → ℕ → ℕ) : (allT I w).Nodup := by
  refine (allT_strict I w).imp ?_
  intro a b h hab
  subst hab
  omega

/-! ### selected tuples of an indicator vector -/

theorem zip_range_map (n : ℕ) (f : ℕ → ℚ) :
    (List.range n).zip ((List.range n).map f) = (List.range n).map fun k => (k, f k) := by
  rw [List.zip_map_right]
  apply List.ext_getElem?
  intro i
  by_cases hi : i < n
  · simp [hi]
  · simp [hi]

theorem range_map_getElem? {α : Type*} (l : List α) :
    (List.range l.length).map (fun k => l[k]?) = l.map some := by
  apply List.ext_getElem?
  intro i
  by_cases hi : i < l.length
  · simp [hi]
  · simp [hi]

theorem filterMap_ite_eq_filter {α : Type*} (l : List α) (P : α → Prop) [DecidablePred P] :
    l.filterMap (fun u => if P u then some u else none) = l.filter (fun u => decide (P u)) := by
  induction l with
  | nil => rfl
  | cons a l ih => by_cases h : P a <;> simp [h, ih]

theorem sel_fun (w : ℕ → ℕ → ℕ) (o : Option STup) :
    (if (match o with
          | some (v, p, n) => if w v p = n then (1 : ℚ) else 0
          | none => 0) = 0 then none else o)
      = o.bind fun u => if w u.1 u.2.1 = u.2.2 then some u else none := by
  cases o with
  | none => simp
  | some u =>
    obtain ⟨v, p, n⟩ := u
    by_cases hw : w v p = n <;> simp [hw]

theorem selected_indicator (I : SeqInst) (w : ℕ → ℕ → ℕ) :
    I.selected ((List.range I.vars.length).map (indicator I w))
      = I.vars.filter (fun u => decide (w u.1 u.2.1 = u.2.2)) := by
  unfold SeqInst.selected
  simp only [List.length_map, List.length_range]
  rw [zip_range_map, List.filterMap_map]
  have h1 : ((fun x : ℕ × ℚ => match x with | (k, v) => if v = 0 then none else I.varTuple k)
        ∘ fun k => (k, indicator I w k))
      = (fun o : Option STup => o.bind fun u => if w u.1 u.2.1 = u.2.2 then some u else none)
        ∘ fun k => I.vars[k]? := by
    funext k
    simp only [Function.comp, indicator, SeqInst.varTuple]
    exact sel_fun w _
  rw [h1, ← List.filterMap_map, range_map_getElem?, List.filterMap_map]
  rw [← filterMap_ite_eq_filter]
  rfl

theorem mem_selected_indicator (I : SeqInst) (w : ℕ → ℕ → ℕ) (u : STup) :
    u ∈ I.selected ((List.range I.vars.length).map (indicator I w))
      ↔ (u.1 < I.V ∧ u.2.1 < I.L ∧ u.2.2 < I.g.nodes.length ∧ I.fixed u.2.1 u.2.2 = none)
          ∧ w u.1 u.2.1 = u.2.2 := by
  rw [selected_indicator, List.mem_filter, C18.seq_vars_mem_iff]
  simp

theorem selected_indicator_nodup (I : SeqInst) (w : ℕ → ℕ → ℕ) :
    (I.selected ((List.range I.vars.length).map (indicator I w))).Nodup := by
  rw [selected_indicator]
  exact (C18.seq_vars_nodup I).filter _

/-! ### tuples fixed to 1 -/

theorem mem_fixedOnes (I : SeqInst) (u : STup) :
    u ∈ I.fixedOnes ↔ (u.1 < I.V ∧ u.2.1 < I.L ∧ u.2.2 < I.g.nodes.length ∧ I.fixed u.2.1 u.2.2 = some 1) := by
  obtain ⟨v, p, n⟩ := u
  simp only [SeqInst.fixedOnes, List.mem_flatMap, List.mem_range]
  constructor
  · rintro ⟨p', hp', n', hn', h⟩
    split_ifs at h with hf
    · simp only [List.mem_map, List.mem_range, Prod.mk.injEq] at h
      obtain ⟨v', hv', rfl, rfl, rfl⟩ := h
      exact ⟨hv', hp', hn', hf⟩
    · simp at h
  · rintro ⟨hv, hp, hn, hf⟩
    refine ⟨p, hp, n, hn, ?_⟩
    simp [hf, hv]

theorem fixedOnes_nodup (I : SeqInst) : I.fixedOnes.Nodup := by
  unfold SeqInst.fixedOnes
  rw [List.nodup_flatMap]
  constructor
  · intro p _
    rw [List.nodup_flatMap]
    constructor
    · intro n _
      split_ifs
      · exact List.Nodup.map (fun v v' h => by simpa using h) List.nodup_range
      · exact List.nodup_nil
    · refine List.Pairwise.imp ?_ (List.nodup_range (n := I.g.nodes.length))
      intro n n' hne u hu hu'
      beta_reduce at hu hu'
      split_ifs at hu hu' <;> simp only [List.mem_map, List.not_mem_nil] at hu hu'
      obtain ⟨v, _, h⟩ := hu
      obtain ⟨v', _, h'⟩ := hu'
      rw [← h'] at h
      simp only [Prod.mk.injEq] at h
      exact hne h.2.2
  · refine List.Pairwise.imp ?_ (List.nodup_range (n := I.L))
    intro p p' hne u hu hu'
    simp only [List.mem_flatMap] at hu hu'
    obtain ⟨n, _, hu⟩ := hu
    obtain ⟨n', _, hu'⟩ := hu'
    split_ifs at hu hu' <;> simp only [List.mem_map, List.not_mem_nil] at hu hu'
    obtain ⟨v, _, h⟩ := hu
    obtain ⟨v', _, h'⟩ := hu'
    rw [← h'] at h
    simp only [Prod.mk.injEq] at h
    exact hne h.2.1

/-- **(a)** selected + fixed-to-1 tuples of a walk indicator are exactly the walk's own tuples -/
theorem sel_fixed_perm (I : SeqInst) (w : ℕ → ℕ → ℕ) (hw : Walk I w) :
    (I.selected ((List.range I.vars.length).map (indicator I w)) ++ I.fixedOnes).Perm (allT I w) := by
  rw [List.perm_ext_iff_of_nodup _ (allT_nodup I w)]
  · intro u
    rw [List.mem_append, mem_selected_indicator, mem_fixedOnes, mem_allT]
    obtain ⟨v, p, n⟩ := u
    simp only
    constructor
    · rintro (⟨⟨hv, hp, _, _⟩, hwn⟩ | ⟨hv, hp, hn, hf⟩)
      · exact ⟨hv, hp, hwn.symm⟩
      · refine ⟨hv, hp, ?_⟩
        have := walk_fixed_agree I w hw v hv p hp n 1 hf
        unfold yW at this
        by_contra hne
        rw [if_neg (fun h => hne h.symm)] at this
        norm_num at this
    · rintro ⟨hv, hp, rfl⟩
      have hn := hw.lt v hv p hp
      cases hf : I.fixed p (w v p) with
      | none => exact Or.inl ⟨⟨hv, hp, hn, rfl⟩, rfl⟩
      | some f =>
        have := walk_fixed_agree I w hw v hv p hp _ f hf
        unfold yW at this
        rw [if_pos rfl] at this
        subst this
        exact Or.inr ⟨hv, hp, hn, rfl⟩
  · rw [List.nodup_append]
    refine ⟨selected_indicator_nodup I w, fixedOnes_nodup I, ?_⟩
    intro a ha b hb hab
    subst hab
    rw [mem_selected_indicator] at ha
    rw [mem_fixedOnes] at hb
    rw [ha.1.2.2.2] at hb
    simp at hb

/-! ### the per-vehicle loop -/

/-- **(c)** popping the `k` consecutive tuples of one vehicle returns its nodes -/
theorem decodeVehicle_walk (g : Graph) (v : ℕ) (f : ℕ → ℕ) :
    ∀ (k p : ℕ) (rest : List STup) (prev : Option ℕ) (acc : List ℕ),
      (0 < k → ∀ q, prev = some q → q = 0 ∨ g.hasArc q (f p) = true) →
      (∀ i, i + 1 < k → g.hasArc (f (p + i)) (f (p + i + 1)) = true) →
      decodeVehicle g v k p (((List.range k).map fun i => ((v, p + i, f (p + i)) : STup)) ++ rest) prev acc
        = some (rest, acc ++ (List.range k).map fun i => f (p + i)) := by
  intro k
  induction k with
  | zero => intros; simp [decodeVehicle]
  | succ k ih =>
    intro p rest prev acc hprev harcs
    rw [List.range_succ_eq_map]
    simp only [List.map_cons, List.map_map, List.cons_append, Nat.add_zero]
    have hshift : (List.range k).map ((fun i => ((v, p + i, f (p + i)) : STup)) ∘ Nat.succ)
        = (List.range k).map fun i => ((v, p + 1 + i, f (p + 1 + i)) : STup) := by
      apply List.map_congr_left
      intro i _
      show ((v, p + (i + 1), f (p + (i + 1))) : STup) = _
      rw [show p + (i + 1) = p + 1 + i by omega]
    have hshift2 : (List.range k).map ((fun i => f (p + i)) ∘ Nat.succ)
        = (List.range k).map fun i => f (p + 1 + i) := by
      apply List.map_congr_left
      intro i _
      show f (p + (i + 1)) = _
      rw [show p + (i + 1) = p + 1 + i by omega]
    rw [hshift, hshift2]
    have hnext := ih (p + 1) rest (some (f p)) (acc ++ [f p])
      (by
        intro hk q hq
        simp only [Option.some.injEq] at hq
        subst hq
        have := harcs 0 (by omega)
        simp only [Nat.add_zero] at this
        exact Or.inr this)
      (by
        intro i hi
        have := harcs (i + 1) (by omega)
        rw [show p + (i + 1) = p + 1 + i by omega] at this
        exact this)
    rw [List.append_assoc] at hnext
    cases prev with
    | none =>
      simp only [decodeVehicle, ne_eq, not_true_eq_false, or_self, if_false]
      exact hnext
    | some q =>
      simp only [decodeVehicle, ne_eq, not_true_eq_false, or_self, if_false]
      have hq := hprev (by omega) q rfl
      have hcond : ¬ (¬ q = 0 ∧ (!g.hasArc q (f p)) = true) := by
        rintro ⟨h1, h2⟩
        rcases hq with hq | hq
        · exact h1 hq
        · rw [hq] at h2; simp at h2
      rw [if_neg hcond]
      exact hnext

/-- the loop over the vehicles -/
theorem go_walk (I : SeqInst) (w : ℕ → ℕ → ℕ)
    (harcs : ∀ v < I.V, ∀ p, p + 1 < I.L → I.g.hasArc (w v p) (w v (p + 1)) = true) :
    ∀ (fuel v : ℕ) (acc : List (List ℕ)), v + fuel ≤ I.V →
      SeqInst.decode.go I v fuel
          ((List.range fuel).flatMap fun i => (List.range I.L).map fun p => ((v + i, p, w (v + i) p) : STup)) acc
        = .ok (acc ++ (List.range fuel).map fun i => (List.range I.L).map fun p => w (v + i) p) := by
  intro fuel
  induction fuel with
  | zero => intro v acc _; simp [SeqInst.decode.go]
  | succ fuel ih =>
    intro v acc hv
    rw [List.range_succ_eq_map]
    simp only [List.flatMap_cons, List.map_cons, List.flatMap_map, List.map_map, Nat.add_zero]
    have hshift : ((List.range fuel).flatMap
          (fun a => (List.range I.L).map fun p => ((v + a.succ, p, w (v + a.succ) p) : STup)))
        = (List.range fuel).flatMap fun i => (List.range I.L).map fun p => ((v + 1 + i, p, w (v + 1 + i) p) : STup) := by
      congr 1
      funext i
      show (List.range I.L).map (fun p => ((v + (i + 1), p, w (v + (i + 1)) p) : STup)) = _
      rw [show v + (i + 1) = v + 1 + i by omega]
    have hshift2 : (List.range fuel).map ((fun i => (List.range I.L).map fun p => w (v + i) p) ∘ Nat.succ)
        = (List.range fuel).map fun i => (List.range I.L).map fun p => w (v + 1 + i) p := by
      apply List.map_congr_left
      intro i _
      show (List.range I.L).map (fun p => w (v + (i + 1)) p) = _
      rw [show v + (i + 1) = v + 1 + i by omega]
    rw [hshift, hshift2]
    have hdv := decodeVehicle_walk I.g v (w v) I.L 0
      ((List.range fuel).flatMap fun i => (List.range I.L).map fun p => ((v + 1 + i, p, w (v + 1 + i) p) : STup))
      none [] (by intro _ q hq; cases hq)
      (by intro i hi; simp only [Nat.zero_add]; exact harcs v (by omega) i hi)
    simp only [Nat.zero_add, List.nil_append] at hdv
    unfold SeqInst.decode.go
    rw [hdv]
    simp only
    rw [ih (v + 1) _ (by omega), List.append_assoc]
    rfl

end Vrp.C07
