import VrpModel.Heuristics
import VrpProofs.Props.C15
import VrpProofs.Props.C18
import VrpProofs.Lemmas.MirpGraph
import Mathlib.Data.List.Nodup
import Mathlib.Data.List.Perm.Basic

/-! helper lemmas for the operational model of the sequence-based construction heuristic
    (`SeqInst.makeFeasible`): graph growth, the greedy fill of one vehicle, the fold invariants -/
namespace Vrp.SeqHeur
open Vrp

/-! ### graphs only grow -/

/-- `g'` has the nodes of `g` and at least its arcs -/
structure GLe (g g' : Graph) : Prop where
  nodes : g'.nodes = g.nodes
  mono : ∀ i j, g.hasArc i j = true → g'.hasArc i j = true

theorem GLe.refl (g : Graph) : GLe g g := ⟨rfl, fun _ _ h => h⟩

theorem GLe.trans {a b c : Graph} (h1 : GLe a b) (h2 : GLe b c) : GLe a c :=
  ⟨h2.nodes.trans h1.nodes, fun i j h => h2.mono i j (h1.mono i j h)⟩

theorem nameOf_index (g : Graph) (h : C15.Inv g) (i : Nat) (hi : i < g.nodes.length) :
    g.indexOf? (nameOf g i) = some i := by
  have hl : i < g.names.length := by rw [g.names_length]; exact hi
  have hn : nameOf g i = g.names[i] := by
    unfold nameOf
    rw [List.getElem?_eq_getElem hl]; rfl
  unfold Graph.indexOf?
  simp only
  rw [hn, h.nodup.idxOf_getElem i hl]
  simp [hi]

theorem addArcOrFail_spec (fl : Flavor) (g : Graph) (o d : Nat) (t c : Rat) (g' : Graph)
    (hinv : C15.Inv g) (ho : o < g.nodes.length) (hd : d < g.nodes.length)
    (h : addArcOrFail fl g o d t c = some g') :
    GLe g g' ∧ C15.Inv g' ∧ g'.hasArc o d = true := by
  unfold addArcOrFail at h
  have hI := C15.gstep_inv fl g (.addArc (nameOf g o) (nameOf g d) t c) hinv
  obtain ⟨rule, hr⟩ := C15.gstep_addArc fl g (nameOf g o) (nameOf g d) t c
  rw [hr] at h hI
  rw [C15.addArcWith_eq g _ _ t c rule o d (nameOf_index g hinv o ho) (nameOf_index g hinv d hd)] at h hI
  by_cases hok : C15.okTiming g (rule o) o d t = true
  · rw [if_pos hok] at h hI
    simp only [Option.some.injEq] at h
    subst h
    refine ⟨⟨rfl, fun i j hij => dictHas_dictSet_mono hij⟩, hI, dictHas_dictSet_self _ _ _⟩
  · rw [if_neg hok] at h
    simp at h

theorem ensureExit_spec (fl : Flavor) (g : Graph) (cur : Nat) (g' : Graph)
    (hinv : C15.Inv g) (hc : cur < g.nodes.length) (h0 : 0 < g.nodes.length)
    (h : ensureExit fl g cur = some g') :
    GLe g g' ∧ C15.Inv g' ∧ g'.hasArc cur 0 = true := by
  unfold ensureExit at h
  split_ifs at h with ha
  · simp only [Option.some.injEq] at h
    subst h
    exact ⟨GLe.refl g, hinv, ha⟩
  · exact addArcOrFail_spec fl g cur 0 0 0 g' hinv hc h0 h


/-! ### the greedy fill of one vehicle -/

/-- a route out of `cur`: consecutive arcs, and an arc back to the depot from its last node -/
def Chain (g : Graph) : Nat → List Nat → Prop
  | cur, [] => g.hasArc cur 0 = true
  | cur, n :: l => g.hasArc cur n = true ∧ Chain g n l

theorem Chain.mono {g g' : Graph} (h : GLe g g') {cur : Nat} {r : List Nat} (hc : Chain g cur r) :
    Chain g' cur r := by
  induction r generalizing cur with
  | nil => exact h.mono _ _ hc
  | cons n l ih => exact ⟨h.mono _ _ hc.1, ih hc.2⟩

/-- `u` is one of the tuples vehicle `v` gets for positions `p0 .. p0+k-1` when it serves `r` from `p0` on -/
def MemT (v p0 k : Nat) (r : List Nat) (u : STup) : Prop :=
  u.1 = v ∧ p0 ≤ u.2.1 ∧ u.2.1 < p0 + k ∧ u.2.2 = r.getD (u.2.1 - p0) 0

theorem memT_nil (v p k : Nat) (u : STup) : MemT v p k [] u ↔ ∃ q < k, u = (v, p + q, 0) := by
  obtain ⟨a, b, c⟩ := u
  simp only [MemT, List.getD_nil, Prod.mk.injEq]
  constructor
  · rintro ⟨rfl, h1, h2, rfl⟩
    exact ⟨b - p, by omega, rfl, by omega, rfl⟩
  · rintro ⟨q, hq, rfl, rfl, rfl⟩
    exact ⟨rfl, by omega, by omega, rfl⟩

theorem memT_cons (v p k n : Nat) (r : List Nat) (u : STup) :
    MemT v p (k + 1) (n :: r) u ↔ u = (v, p, n) ∨ MemT v (p + 1) k r u := by
  obtain ⟨a, b, c⟩ := u
  simp only [MemT, Prod.mk.injEq]
  constructor
  · rintro ⟨rfl, h1, h2, rfl⟩
    by_cases hb : b = p
    · subst hb; left; simp
    · right
      refine ⟨rfl, by omega, by omega, ?_⟩
      have : b - p = (b - (p + 1)) + 1 := by omega
      rw [this, List.getD_cons_succ]
  · rintro (⟨rfl, rfl, rfl⟩ | ⟨rfl, h1, h2, rfl⟩)
    · exact ⟨rfl, le_refl _, by omega, by simp⟩
    · refine ⟨rfl, by omega, by omega, ?_⟩
      have : b - p = (b - (p + 1)) + 1 := by omega
      rw [this, List.getD_cons_succ]

theorem seqFill_spec (fl : Flavor) (L v : Nat) (k p cur : Nat) (g : Graph) (unv : List Nat)
    (used : List STup) (res : Graph × List Nat × List STup)
    (hinv : C15.Inv g) (h0 : 0 < g.nodes.length) (hc : cur < g.nodes.length)
    (hu : ∀ n ∈ unv, n < g.nodes.length)
    (h : seqFill fl L v k p cur g unv used = some res) :
    ∃ r : List Nat, r.length ≤ k ∧ GLe g res.1 ∧ C15.Inv res.1 ∧ Chain res.1 cur r ∧
      unv.Perm (r ++ res.2.1) ∧ (∀ u, u ∈ res.2.2 ↔ u ∈ used ∨ MemT v p k r u) := by
  induction k generalizing p cur unv used with
  | zero =>
    simp only [seqFill, Option.map_eq_some_iff] at h
    obtain ⟨g', hg', rfl⟩ := h
    obtain ⟨h1, h2, h3⟩ := ensureExit_spec fl g cur g' hinv hc h0 hg'
    refine ⟨[], le_refl _, h1, h2, h3, List.Perm.refl _, fun u => ?_⟩
    simp [memT_nil]
  | succ k ih =>
    unfold seqFill at h
    split at h
    · next n hfind =>
      have hmem : n ∈ unv := List.mem_of_find?_eq_some hfind
      have harc : g.hasArc cur n = true := by simpa using List.find?_some hfind
      obtain ⟨r, hr1, hr2, hr3, hr4, hr5, hr6⟩ := ih (p + 1) n (unv.erase n) (used ++ [(v, p, n)])
        (hu n hmem) (fun m hm => hu m (List.mem_of_mem_erase hm)) h
      refine ⟨n :: r, by simpa using hr1, hr2, hr3, ⟨hr2.mono _ _ harc, hr4⟩, ?_, fun u => ?_⟩
      · exact (List.perm_cons_erase hmem).trans (List.Perm.cons n hr5)
      · rw [hr6 u, memT_cons, List.mem_append, List.mem_singleton, or_assoc]
    · simp only [Option.map_eq_some_iff] at h
      obtain ⟨g', hg', rfl⟩ := h
      obtain ⟨h1, h2, h3⟩ := ensureExit_spec fl g cur g' hinv hc h0 hg'
      refine ⟨[], Nat.zero_le _, h1, h2, h3, List.Perm.refl _, fun u => ?_⟩
      simp only [List.mem_append, List.mem_map, List.mem_range, memT_nil]
      constructor
      · rintro (h | ⟨q, hq, rfl⟩)
        · exact Or.inl h
        · exact Or.inr ⟨q, hq, rfl⟩
      · rintro (h | ⟨q, hq, rfl⟩)
        · exact Or.inl h
        · exact Or.inr ⟨q, hq, rfl⟩


/-! ### the three folds of `SeqInst.makeFeasible`, named -/

abbrev RegState := Graph × List Nat × List STup

def regStep (fl : Flavor) (L : Nat) (st : Option RegState) (v : Nat) : Option RegState :=
  st.bind fun st => seqFill fl L v (L - 2) 1 0 st.1 st.2.1 st.2.2

def dummyStep (fl : Flavor) (high : Rat) (s : Option (SeqInst × List STup)) (ni : Nat) :
    Option (SeqInst × List STup) :=
  s.bind fun s =>
    let J := s.1
    let v := J.V
    (if J.g.hasArc 0 ni then some J.g else addArcOrFail fl J.g 0 ni 0 high).bind fun g1 =>
    (if g1.hasArc ni 0 then some g1 else addArcOrFail fl g1 ni 0 0 high).map fun g2 =>
    ({ J with g := g2, V := v + 1, vcost := J.vcost ++ [high] },
     s.2 ++ [(v, 1, ni)] ++ (List.range (J.L - 3)).map fun q => (v, q + 2, 0))

def idxStep (J : SeqInst) (acc : Option (List Nat)) (u : STup) : Option (List Nat) :=
  match acc, J.varIndex u with
  | some l, some k => some (l ++ [k])
  | _, _ => none

def unv0 (I : SeqInst) : List Nat := sortByHi I.g ((List.range (I.g.nodes.length - 1)).map (· + 1))

theorem makeFeasible_eq (I : SeqInst) (high : Rat) :
    I.makeFeasible high =
      match (List.range I.V).foldl (regStep (.seq I.strict) I.L) (some (I.g, unv0 I, [])) with
      | none => .error .value
      | some st =>
        match st.2.1.foldl (dummyStep (.seq I.strict) high) (some ({ I with g := st.1 }, st.2.2)) with
        | none => .error .value
        | some st2 =>
          match st2.2.foldl (idxStep st2.1) (some []) with
          | none => .error .value
          | some idxs =>
            .ok (st2.1, (List.range st2.1.vars.length).map fun k => if k ∈ idxs then 1 else 0) := rfl

theorem makeFeasible_ok {I : SeqInst} {high : Rat} {J : SeqInst} {sol : List Rat}
    (h : I.makeFeasible high = .ok (J, sol)) :
    ∃ (st : RegState) (used : List STup) (idxs : List Nat),
      (List.range I.V).foldl (regStep (.seq I.strict) I.L) (some (I.g, unv0 I, [])) = some st ∧
      st.2.1.foldl (dummyStep (.seq I.strict) high) (some ({ I with g := st.1 }, st.2.2)) = some (J, used) ∧
      used.foldl (idxStep J) (some []) = some idxs ∧
      sol = (List.range J.vars.length).map fun k => if k ∈ idxs then 1 else 0 := by
  rw [makeFeasible_eq] at h
  split at h
  · cases h
  · next st hst =>
    split at h
    · cases h
    · next st2 hst2 =>
      split at h
      · cases h
      · next idxs hidx =>
        simp only [Except.ok.injEq, Prod.mk.injEq] at h
        obtain ⟨rfl, rfl⟩ := h
        exact ⟨st, st2.2, idxs, hst, hst2, hidx, rfl⟩


/-! ### frame facts (no hypotheses on the instance) -/

theorem addArcWith_gle (g : Graph) (o d : String) (t c : Rat) (rule : Nat → Bool) :
    GLe g (addArcWith g o d t c rule).1 := by
  cases hi : g.indexOf? o with
  | none => rw [C15.addArcWith_err _ _ _ _ _ _ (Or.inl hi)]; exact GLe.refl g
  | some i =>
    cases hj : g.indexOf? d with
    | none => rw [C15.addArcWith_err _ _ _ _ _ _ (Or.inr hj)]; exact GLe.refl g
    | some j =>
      rw [C15.addArcWith_eq g o d t c rule i j hi hj]
      split_ifs
      · exact ⟨rfl, fun i j hij => dictHas_dictSet_mono hij⟩
      · exact GLe.refl g

theorem addArcOrFail_gle {fl : Flavor} {g : Graph} {o d : Nat} {t c : Rat} {g' : Graph}
    (h : addArcOrFail fl g o d t c = some g') : GLe g g' := by
  unfold addArcOrFail at h
  obtain ⟨rule, hr⟩ := C15.gstep_addArc fl g (nameOf g o) (nameOf g d) t c
  rw [hr] at h
  split at h
  · next g'' heq =>
    simp only [Option.some.injEq] at h
    subst h
    have := addArcWith_gle g (nameOf g o) (nameOf g d) t c rule
    rw [heq] at this
    exact this
  · cases h

theorem ensureExit_gle {fl : Flavor} {g : Graph} {cur : Nat} {g' : Graph}
    (h : ensureExit fl g cur = some g') : GLe g g' := by
  unfold ensureExit at h
  split_ifs at h
  · simp only [Option.some.injEq] at h; subst h; exact GLe.refl g
  · exact addArcOrFail_gle h

theorem seqFill_gle (fl : Flavor) (L v : Nat) (k p cur : Nat) (g : Graph) (unv : List Nat)
    (used : List STup) (res : RegState) (h : seqFill fl L v k p cur g unv used = some res) :
    GLe g res.1 := by
  induction k generalizing p cur unv used with
  | zero =>
    simp only [seqFill, Option.map_eq_some_iff] at h
    obtain ⟨g', hg', rfl⟩ := h
    exact ensureExit_gle hg'
  | succ k ih =>
    unfold seqFill at h
    split at h
    · exact ih _ _ _ _ h
    · simp only [Option.map_eq_some_iff] at h
      obtain ⟨g', hg', rfl⟩ := h
      exact ensureExit_gle hg'

theorem foldl_regStep_none (fl : Flavor) (L : Nat) (l : List Nat) :
    l.foldl (regStep fl L) none = none := by
  induction l with
  | nil => rfl
  | cons x l ih => simpa [regStep] using ih

theorem foldl_dummyStep_none (fl : Flavor) (high : Rat) (l : List Nat) :
    l.foldl (dummyStep fl high) none = none := by
  induction l with
  | nil => rfl
  | cons x l ih => simpa [dummyStep] using ih

theorem reg_fold_gle (fl : Flavor) (L : Nat) (l : List Nat) (st0 st : RegState)
    (h : l.foldl (regStep fl L) (some st0) = some st) : GLe st0.1 st.1 := by
  induction l generalizing st0 with
  | nil => simp only [List.foldl_nil, Option.some.injEq] at h; subst h; exact GLe.refl _
  | cons v l ih =>
    rw [List.foldl_cons] at h
    cases hs : regStep fl L (some st0) v with
    | none => rw [hs, foldl_regStep_none] at h; cases h
    | some st1 =>
      rw [hs] at h
      exact (seqFill_gle fl L v _ _ _ _ _ _ st1 hs).trans (ih st1 h)

theorem dummyStep_some {fl : Flavor} {high : Rat} {s s' : SeqInst × List STup} {ni : Nat}
    (h : dummyStep fl high (some s) ni = some s') :
    ∃ g1 g2, (if s.1.g.hasArc 0 ni then some s.1.g else addArcOrFail fl s.1.g 0 ni 0 high) = some g1 ∧
      (if g1.hasArc ni 0 then some g1 else addArcOrFail fl g1 ni 0 0 high) = some g2 ∧
      s' = ({ s.1 with g := g2, V := s.1.V + 1, vcost := s.1.vcost ++ [high] },
            s.2 ++ [(s.1.V, 1, ni)] ++ (List.range (s.1.L - 3)).map fun q => (s.1.V, q + 2, 0)) := by
  simp only [dummyStep, Option.bind_some, Option.bind_eq_some_iff, Option.map_eq_some_iff] at h
  obtain ⟨g1, h1, g2, h2, rfl⟩ := h
  exact ⟨g1, g2, h1, h2, rfl⟩

theorem dummyStep_gle {fl : Flavor} {high : Rat} {s s' : SeqInst × List STup} {ni : Nat}
    (h : dummyStep fl high (some s) ni = some s') : GLe s.1.g s'.1.g := by
  obtain ⟨g1, g2, h1, h2, rfl⟩ := dummyStep_some h
  have a : GLe s.1.g g1 := by
    split_ifs at h1
    · simp only [Option.some.injEq] at h1; subst h1; exact GLe.refl _
    · exact addArcOrFail_gle h1
  have b : GLe g1 g2 := by
    split_ifs at h2
    · simp only [Option.some.injEq] at h2; subst h2; exact GLe.refl _
    · exact addArcOrFail_gle h2
  exact a.trans b

theorem dummy_fold_frame (fl : Flavor) (high : Rat) (l : List Nat) (s out : SeqInst × List STup)
    (h : l.foldl (dummyStep fl high) (some s) = some out) :
    GLe s.1.g out.1.g ∧ out.1.strict = s.1.strict ∧ out.1.L = s.1.L ∧ out.1.V = s.1.V + l.length ∧
      out.1.vcost = s.1.vcost ++ List.replicate l.length high := by
  induction l generalizing s with
  | nil =>
    simp only [List.foldl_nil, Option.some.injEq] at h; subst h
    exact ⟨GLe.refl _, rfl, rfl, rfl, by simp⟩
  | cons ni l ih =>
    rw [List.foldl_cons] at h
    cases hs : dummyStep fl high (some s) ni with
    | none => rw [hs, foldl_dummyStep_none] at h; cases h
    | some s1 =>
      rw [hs] at h
      obtain ⟨a1, a2, a3, a4, a5⟩ := ih s1 h
      have hg := dummyStep_gle hs
      obtain ⟨g1, g2, _, _, rfl⟩ := dummyStep_some hs
      refine ⟨hg.trans a1, a2, a3, ?_, ?_⟩
      · rw [a4]; simp only [List.length_cons]; omega
      · rw [a5]; simp [List.replicate_succ]

theorem makeFeasible_frame {I : SeqInst} {high : Rat} {J : SeqInst} {sol : List Rat}
    (h : I.makeFeasible high = .ok (J, sol)) :
    GLe I.g J.g ∧ J.strict = I.strict ∧ J.L = I.L ∧ I.V ≤ J.V ∧
      J.vcost = I.vcost ++ List.replicate (J.V - I.V) high := by
  obtain ⟨st, used, idxs, h1, h2, _, _⟩ := makeFeasible_ok h
  have a := reg_fold_gle _ _ _ _ _ h1
  obtain ⟨b1, b2, b3, b4, b5⟩ := dummy_fold_frame _ _ _ _ _ h2
  simp only at b1 b2 b3 b4 b5
  refine ⟨a.trans b1, b2, b3, by omega, ?_⟩
  rw [b5, b4]; congr 2; omega


/-! ### the state invariant of the two construction folds -/

/-- the node vehicle `v` occupies at position `p` when the vehicles serve the routes `R` -/
def wOf (R : List (List Nat)) (v p : Nat) : Nat := ((0 :: (R[v]?.getD []))[p]?).getD 0

theorem wOf_zero (R : List (List Nat)) (v : Nat) : wOf R v 0 = 0 := by simp [wOf]

theorem wOf_succ (R : List (List Nat)) (v q : Nat) :
    wOf R v (q + 1) = ((R[v]?.getD [])[q]?).getD 0 := by simp [wOf]

theorem wOf_append_lt (R : List (List Nat)) (r : List Nat) (v p : Nat) (hv : v < R.length) :
    wOf (R ++ [r]) v p = wOf R v p := by
  unfold wOf
  rw [List.getElem?_append_left hv]

theorem wOf_append_eq (R : List (List Nat)) (r : List Nat) (p : Nat) :
    wOf (R ++ [r]) R.length p = ((0 :: r)[p]?).getD 0 := by
  unfold wOf
  rw [List.getElem?_append_right (le_refl _)]
  simp

structure SInv (g : Graph) (L : Nat) (U : List Nat) (R : List (List Nat)) (rest : List Nat)
    (used : List STup) : Prop where
  used_iff : ∀ u : STup, u ∈ used ↔
    (u.1 < R.length ∧ 1 ≤ u.2.1 ∧ u.2.1 + 2 ≤ L ∧ u.2.2 = wOf R u.1 u.2.1)
  route : ∀ r ∈ R, r.length + 2 ≤ L ∧ Chain g 0 r
  perm : (R.flatten ++ rest).Perm U

theorem SInv.init (g : Graph) (L : Nat) (U : List Nat) : SInv g L U [] U [] :=
  ⟨fun u => (by simp), fun r hr => (by cases hr), (by simp)⟩

theorem SInv.push {g g' : Graph} {L : Nat} {U : List Nat} {R : List (List Nat)} {rest : List Nat}
    {used : List STup} (h : SInv g L U R rest used) (hg : GLe g g') (hL : 2 ≤ L)
    (r rest' : List Nat) (used' : List STup)
    (hlen : r.length ≤ L - 2) (hch : Chain g' 0 r) (hperm : rest.Perm (r ++ rest'))
    (hused : ∀ u, u ∈ used' ↔ u ∈ used ∨ MemT R.length 1 (L - 2) r u) :
    SInv g' L U (R ++ [r]) rest' used' := by
  refine ⟨fun u => ?_, fun r' hr' => ?_, ?_⟩
  · obtain ⟨a, b, c⟩ := u
    rw [hused, h.used_iff]
    simp only [MemT, List.length_append, List.length_singleton]
    constructor
    · rintro (⟨h1, h2, h3, h4⟩ | ⟨h1, h2, h3, h4⟩)
      · exact ⟨by omega, h2, h3, by rw [wOf_append_lt _ _ _ _ h1]; exact h4⟩
      · subst h1
        refine ⟨by omega, h2, by omega, ?_⟩
        rw [wOf_append_eq, h4, List.getD_eq_getElem?_getD]
        obtain ⟨q, rfl⟩ : ∃ q, b = q + 1 := ⟨b - 1, by omega⟩
        simp
    · rintro ⟨h1, h2, h3, h4⟩
      by_cases ha : a < R.length
      · left
        exact ⟨ha, h2, h3, by rw [wOf_append_lt _ _ _ _ ha] at h4; exact h4⟩
      · right
        have ha' : a = R.length := by omega
        subst ha'
        refine ⟨rfl, h2, by omega, ?_⟩
        rw [h4, wOf_append_eq, List.getD_eq_getElem?_getD]
        obtain ⟨q, rfl⟩ : ∃ q, b = q + 1 := ⟨b - 1, by omega⟩
        simp
  · rcases List.mem_append.mp hr' with hr' | hr'
    · exact ⟨(h.route r' hr').1, (h.route r' hr').2.mono hg⟩
    · simp only [List.mem_singleton] at hr'
      subst hr'
      exact ⟨by omega, hch⟩
  · have h1 : ((R ++ [r]).flatten ++ rest').Perm (R.flatten ++ (r ++ rest')) := by simp
    exact h1.trans ((List.Perm.append_left _ hperm.symm).trans h.perm)

theorem SInv.rest_mem {g : Graph} {L : Nat} {U : List Nat} {R : List (List Nat)} {rest : List Nat}
    {used : List STup} (h : SInv g L U R rest used) {n : Nat} (hn : n ∈ rest) : n ∈ U :=
  h.perm.mem_iff.1 (List.mem_append_right _ hn)

/-- the regular vehicles -/
theorem reg_fold_spec (fl : Flavor) (L : Nat) (U : List Nat) (g0 : Graph) (hinv : C15.Inv g0)
    (h0 : 0 < g0.nodes.length) (hU : ∀ n ∈ U, n < g0.nodes.length) (hL : 2 ≤ L)
    (V : Nat) (st : RegState)
    (h : (List.range V).foldl (regStep fl L) (some (g0, U, [])) = some st) :
    ∃ R : List (List Nat), R.length = V ∧ GLe g0 st.1 ∧ C15.Inv st.1 ∧ SInv st.1 L U R st.2.1 st.2.2 := by
  induction V generalizing st with
  | zero =>
    simp only [List.range_zero, List.foldl_nil, Option.some.injEq] at h
    subst h
    exact ⟨[], rfl, GLe.refl _, hinv, SInv.init _ _ _⟩
  | succ V ih =>
    rw [List.range_succ, List.foldl_append, List.foldl_cons, List.foldl_nil] at h
    cases hs : (List.range V).foldl (regStep fl L) (some (g0, U, [])) with
    | none => rw [hs] at h; simp [regStep] at h
    | some st1 =>
      rw [hs] at h
      obtain ⟨R, hRV, hg1, hi1, hS1⟩ := ih st1 hs
      have hn1 : st1.1.nodes.length = g0.nodes.length := by rw [hg1.nodes]
      simp only [regStep, Option.bind_some] at h
      obtain ⟨r, hr1, hr2, hr3, hr4, hr5, hr6⟩ := seqFill_spec fl L V (L - 2) 1 0 st1.1 st1.2.1 st1.2.2 st
        hi1 (by rw [hn1]; exact h0) (by rw [hn1]; exact h0)
        (fun n hn => by rw [hn1]; exact hU n (hS1.rest_mem hn)) h
      refine ⟨R ++ [r], by simp [hRV], hg1.trans hr2, hr3, ?_⟩
      exact hS1.push hr2 hL r st.2.1 st.2.2 hr1 hr4 hr5 (by rw [hRV]; exact hr6)

theorem ensureArc_spec (fl : Flavor) (g : Graph) (o d : Nat) (t c : Rat) (g' : Graph)
    (hinv : C15.Inv g) (ho : o < g.nodes.length) (hd : d < g.nodes.length)
    (h : (if g.hasArc o d then some g else addArcOrFail fl g o d t c) = some g') :
    GLe g g' ∧ C15.Inv g' ∧ g'.hasArc o d = true := by
  split_ifs at h with ha
  · simp only [Option.some.injEq] at h
    subst h
    exact ⟨GLe.refl g, hinv, ha⟩
  · exact addArcOrFail_spec fl g o d t c g' hinv ho hd h

/-- the dummy vehicles -/
theorem dummy_fold_spec (fl : Flavor) (high : Rat) (L : Nat) (U : List Nat) (hL : 3 ≤ L)
    (l : List Nat) (s out : SeqInst × List STup) (R : List (List Nat))
    (hinv : C15.Inv s.1.g) (h0 : 0 < s.1.g.nodes.length) (hl : ∀ n ∈ l, n < s.1.g.nodes.length)
    (hRV : R.length = s.1.V) (hLs : s.1.L = L) (hS : SInv s.1.g L U R l s.2)
    (h : l.foldl (dummyStep fl high) (some s) = some out) :
    ∃ R' : List (List Nat), R'.length = out.1.V ∧ C15.Inv out.1.g ∧ SInv out.1.g L U R' [] out.2 := by
  induction l generalizing s R with
  | nil =>
    simp only [List.foldl_nil, Option.some.injEq] at h; subst h
    exact ⟨R, hRV, hinv, hS⟩
  | cons ni l ih =>
    rw [List.foldl_cons] at h
    cases hs : dummyStep fl high (some s) ni with
    | none => rw [hs, foldl_dummyStep_none] at h; cases h
    | some s1 =>
      rw [hs] at h
      obtain ⟨g1, g2, e1, e2, hs1⟩ := dummyStep_some hs
      have hni : ni < s.1.g.nodes.length := hl ni List.mem_cons_self
      obtain ⟨a1, a2, a3⟩ := ensureArc_spec fl s.1.g 0 ni 0 high g1 hinv h0 hni e1
      have hn1 : g1.nodes.length = s.1.g.nodes.length := by rw [a1.nodes]
      obtain ⟨b1, b2, b3⟩ := ensureArc_spec fl g1 ni 0 0 high g2 a2 (by rw [hn1]; exact hni)
        (by rw [hn1]; exact h0) e2
      have hn2 : g2.nodes.length = s.1.g.nodes.length := by rw [b1.nodes, hn1]
      have eg : s1.1.g = g2 := by rw [hs1]
      have eV : s1.1.V = s.1.V + 1 := by rw [hs1]
      have eL : s1.1.L = s.1.L := by rw [hs1]
      have eu : s1.2 = s.2 ++ [(s.1.V, 1, ni)] ++ (List.range (s.1.L - 3)).map fun q => (s.1.V, q + 2, 0) := by
        rw [hs1]
      refine ih s1 (R ++ [[ni]]) (eg ▸ b2) (by rw [eg, hn2]; exact h0)
        (fun n hn => by rw [eg, hn2]; exact hl n (List.mem_cons_of_mem _ hn))
        (by simp [hRV, eV]) (eL.trans hLs) ?_ h
      rw [eg]
      refine hS.push (a1.trans b1) (by omega) [ni] l _ (by simp; omega) ⟨b1.mono _ _ a3, b3⟩
        (List.Perm.refl _) (fun u => ?_)
      rw [eu]
      have hk : L - 2 = (L - 3) + 1 := by omega
      rw [hk, memT_cons, memT_nil, hRV, hLs]
      simp only [List.mem_append, List.mem_singleton, List.mem_map, List.mem_range, or_assoc]
      constructor
      · rintro (h | h | ⟨q, hq, rfl⟩)
        · exact Or.inl h
        · exact Or.inr (Or.inl h)
        · exact Or.inr (Or.inr ⟨q, hq, by rw [Nat.add_comm]⟩)
      · rintro (h | h | ⟨q, hq, rfl⟩)
        · exact Or.inl h
        · exact Or.inr (Or.inl h)
        · exact Or.inr (Or.inr ⟨q, hq, by rw [Nat.add_comm]⟩)


/-! ### the initial customer list -/

theorem insertByHi_perm (g : Graph) (x : Nat) (l : List Nat) : (insertByHi g x l).Perm (x :: l) := by
  induction l with
  | nil => exact List.Perm.refl _
  | cons y ys ih =>
    unfold insertByHi
    split_ifs
    · exact (List.Perm.cons y ih).trans (List.Perm.swap x y ys)
    · exact List.Perm.refl _

theorem foldl_insertByHi_perm (g : Graph) (l acc : List Nat) :
    (l.foldl (fun acc x => insertByHi g x acc) acc).Perm (l ++ acc) := by
  induction l generalizing acc with
  | nil => exact List.Perm.refl _
  | cons x l ih =>
    rw [List.foldl_cons]
    exact (ih _).trans ((List.Perm.append_left l (insertByHi_perm g x acc)).trans List.perm_middle)

theorem unv0_perm (I : SeqInst) : (unv0 I).Perm ((List.range (I.g.nodes.length - 1)).map (· + 1)) := by
  unfold unv0 sortByHi
  simpa using foldl_insertByHi_perm I.g ((List.range (I.g.nodes.length - 1)).map (· + 1)) []

theorem unv0_nodup (I : SeqInst) : (unv0 I).Nodup :=
  (unv0_perm I).nodup_iff.2 (List.Nodup.map (fun a b h => by simpa using h) List.nodup_range)

theorem mem_unv0 (I : SeqInst) (n : Nat) : n ∈ unv0 I ↔ 1 ≤ n ∧ n < I.g.nodes.length := by
  rw [(unv0_perm I).mem_iff]
  simp only [List.mem_map, List.mem_range]
  constructor
  · rintro ⟨a, ha, rfl⟩; omega
  · rintro ⟨h1, h2⟩; exact ⟨n - 1, by omega, by omega⟩

/-! ### the index fold -/

theorem foldl_idxStep_none (J : SeqInst) (l : List STup) : l.foldl (idxStep J) none = none := by
  induction l with
  | nil => rfl
  | cons x l ih => simpa [idxStep] using ih

theorem idx_fold (J : SeqInst) (used : List STup) (acc idxs : List Nat)
    (h : used.foldl (idxStep J) (some acc) = some idxs) :
    (∀ u ∈ used, ∃ k, J.varIndex u = some k) ∧
      ∀ k, k ∈ idxs ↔ k ∈ acc ∨ ∃ u ∈ used, J.varIndex u = some k := by
  induction used generalizing acc with
  | nil =>
    simp only [List.foldl_nil, Option.some.injEq] at h; subst h
    simp
  | cons u l ih =>
    rw [List.foldl_cons] at h
    cases hk : J.varIndex u with
    | none =>
      have : idxStep J (some acc) u = none := by simp [idxStep, hk]
      rw [this, foldl_idxStep_none] at h; cases h
    | some k0 =>
      have : idxStep J (some acc) u = some (acc ++ [k0]) := by simp [idxStep, hk]
      rw [this] at h
      obtain ⟨h1, h2⟩ := ih _ h
      refine ⟨fun u' hu' => ?_, fun k => ?_⟩
      · rcases List.mem_cons.mp hu' with rfl | hu'
        · exact ⟨k0, hk⟩
        · exact h1 u' hu'
      · rw [h2 k, List.mem_append, List.mem_singleton]
        constructor
        · rintro ((h | rfl) | ⟨u', hu', hu'k⟩)
          · exact Or.inl h
          · exact Or.inr ⟨u, List.mem_cons_self, hk⟩
          · exact Or.inr ⟨u', List.mem_cons_of_mem _ hu', hu'k⟩
        · rintro (h | ⟨u', hu', hu'k⟩)
          · exact Or.inl (Or.inl h)
          · rcases List.mem_cons.mp hu' with rfl | hu'
            · rw [hk] at hu'k; exact Or.inl (Or.inr (Option.some.inj hu'k).symm)
            · exact Or.inr ⟨u', hu', hu'k⟩

/-! ### positions of a customer -/

theorem wOf_eq_nonzero {R : List (List Nat)} {v p k : Nat} (h : wOf R v p = k) (hk : k ≠ 0) :
    ∃ r q, R[v]? = some r ∧ p = q + 1 ∧ r[q]? = some k := by
  cases p with
  | zero => rw [wOf_zero] at h; exact absurd h.symm hk
  | succ q =>
    rw [wOf_succ] at h
    cases hr : R[v]? with
    | none => rw [hr] at h; simp at h; exact absurd h.symm hk
    | some r =>
      rw [hr] at h
      simp only [Option.getD_some] at h
      cases hq : r[q]? with
      | none => rw [hq] at h; simp at h; exact absurd h.symm hk
      | some x =>
        rw [hq] at h
        simp only [Option.getD_some] at h
        subst h
        exact ⟨r, q, rfl, rfl, hq⟩

theorem wOf_of_get {R : List (List Nat)} {v q k : Nat} {r : List Nat} (hr : R[v]? = some r)
    (hq : r[q]? = some k) : wOf R v (q + 1) = k := by
  rw [wOf_succ, hr]; simp [hq]

theorem flatten_nodup_unique {R : List (List Nat)} (hnd : R.flatten.Nodup) {v v' q q' k : Nat}
    {r r' : List Nat} (hr : R[v]? = some r) (hr' : R[v']? = some r') (hq : r[q]? = some k)
    (hq' : r'[q']? = some k) : v = v' ∧ q = q' := by
  obtain ⟨h1, h2⟩ := List.nodup_flatten.1 hnd
  obtain ⟨hv, rfl⟩ := List.getElem?_eq_some_iff.1 hr
  obtain ⟨hv', rfl⟩ := List.getElem?_eq_some_iff.1 hr'
  have hk : k ∈ R[v] := List.mem_of_getElem? hq
  have hk' : k ∈ R[v'] := List.mem_of_getElem? hq'
  have hvv : v = v' := by
    by_contra hne
    rcases Nat.lt_or_gt_of_ne hne with hlt | hlt
    · exact (List.pairwise_iff_getElem.1 h2 v v' hv hv' hlt) hk hk'
    · exact (List.pairwise_iff_getElem.1 h2 v' v hv' hv hlt) hk' hk
  subst hvv
  refine ⟨rfl, ?_⟩
  have hql := (List.getElem?_eq_some_iff.1 hq).1
  exact (List.getElem?_inj hql (h1 _ (List.getElem_mem hv))).1 (hq.trans hq'.symm)

end Vrp.SeqHeur
