import VrpProofs.Lemmas.SeqHeur

/-! the sequence-based construction heuristic preserves the graph invariant `C15.Inv` (no hypothesis on the
    instance: every graph change goes through `gstep`, which preserves the invariant unconditionally) -/
namespace Vrp.SeqHeur
open Vrp

theorem em_addArcOrFail_inv {fl : Flavor} {g : Graph} {o d : Nat} {t c : Rat} {g' : Graph}
    (hinv : C15.Inv g) (h : addArcOrFail fl g o d t c = some g') : C15.Inv g' := by
  unfold addArcOrFail at h
  have hI := C15.gstep_inv fl g (.addArc (nameOf g o) (nameOf g d) t c) hinv
  split at h
  · next g'' heq =>
    simp only [Option.some.injEq] at h
    subst h
    rw [heq] at hI
    exact hI
  · cases h

theorem em_ensureExit_inv {fl : Flavor} {g : Graph} {cur : Nat} {g' : Graph}
    (hinv : C15.Inv g) (h : ensureExit fl g cur = some g') : C15.Inv g' := by
  unfold ensureExit at h
  split_ifs at h
  · simp only [Option.some.injEq] at h; subst h; exact hinv
  · exact em_addArcOrFail_inv hinv h

theorem em_seqFill_inv (fl : Flavor) (L v : Nat) (k p cur : Nat) (g : Graph) (unv : List Nat)
    (used : List STup) (res : RegState) (hinv : C15.Inv g)
    (h : seqFill fl L v k p cur g unv used = some res) : C15.Inv res.1 := by
  induction k generalizing p cur unv used with
  | zero =>
    simp only [seqFill, Option.map_eq_some_iff] at h
    obtain ⟨g', hg', rfl⟩ := h
    exact em_ensureExit_inv hinv hg'
  | succ k ih =>
    unfold seqFill at h
    split at h
    · exact ih _ _ _ _ h
    · simp only [Option.map_eq_some_iff] at h
      obtain ⟨g', hg', rfl⟩ := h
      exact em_ensureExit_inv hinv hg'

theorem em_reg_fold_inv (fl : Flavor) (L : Nat) (l : List Nat) (st0 st : RegState)
    (hinv : C15.Inv st0.1) (h : l.foldl (regStep fl L) (some st0) = some st) : C15.Inv st.1 := by
  induction l generalizing st0 with
  | nil => simp only [List.foldl_nil, Option.some.injEq] at h; subst h; exact hinv
  | cons v l ih =>
    rw [List.foldl_cons] at h
    cases hs : regStep fl L (some st0) v with
    | none => rw [hs, foldl_regStep_none] at h; cases h
    | some st1 =>
      rw [hs] at h
      exact ih st1 (em_seqFill_inv fl L v _ _ _ _ _ _ st1 hinv hs) h

theorem em_dummyStep_inv {fl : Flavor} {high : Rat} {s s' : SeqInst × List STup} {ni : Nat}
    (hinv : C15.Inv s.1.g) (h : dummyStep fl high (some s) ni = some s') : C15.Inv s'.1.g := by
  obtain ⟨g1, g2, h1, h2, rfl⟩ := dummyStep_some h
  have a : C15.Inv g1 := by
    split_ifs at h1
    · simp only [Option.some.injEq] at h1; subst h1; exact hinv
    · exact em_addArcOrFail_inv hinv h1
  split_ifs at h2
  · simp only [Option.some.injEq] at h2; subst h2; exact a
  · exact em_addArcOrFail_inv a h2

theorem em_dummy_fold_inv (fl : Flavor) (high : Rat) (l : List Nat) (s out : SeqInst × List STup)
    (hinv : C15.Inv s.1.g) (h : l.foldl (dummyStep fl high) (some s) = some out) : C15.Inv out.1.g := by
  induction l generalizing s with
  | nil => simp only [List.foldl_nil, Option.some.injEq] at h; subst h; exact hinv
  | cons ni l ih =>
    rw [List.foldl_cons] at h
    cases hs : dummyStep fl high (some s) ni with
    | none => rw [hs, foldl_dummyStep_none] at h; cases h
    | some s1 =>
      rw [hs] at h
      exact ih s1 (em_dummyStep_inv hinv hs) h

/-- the graph of the instance returned by `make_feasible` is again self-consistent -/
theorem em_makeFeasible_inv {I : SeqInst} {high : Rat} {J : SeqInst} {sol : List Rat}
    (hg : C15.Inv I.g) (h : I.makeFeasible high = .ok (J, sol)) : C15.Inv J.g := by
  obtain ⟨st, used, idxs, h1, h2, _, _⟩ := makeFeasible_ok h
  have a : C15.Inv st.1 := em_reg_fold_inv _ _ _ (I.g, unv0 I, []) st hg h1
  exact em_dummy_fold_inv _ _ _ ({ I with g := st.1 }, st.2.2) (J, used) a h2

end Vrp.SeqHeur
