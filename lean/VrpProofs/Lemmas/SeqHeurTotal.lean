import VrpProofs.Lemmas.SeqHeur

/-! progress ("never raises") lemmas for the operational model of the sequence-based construction
    heuristic: under the window facts of the documented preconditions every `add_arc` the heuristic issues
    is accepted, in every intermediate graph -/
namespace Vrp.SeqHeur
open Vrp

/-! ### the window facts, stable under graph growth -/

/-- the depot window never closes, and no customer window closes before the depot window opens -/
structure WinOK (g : Graph) : Prop where
  depotHi : g.hi 0 = none
  custHi : ∀ u, 1 ≤ u → u < g.nodes.length → leE (g.lo 0) (g.hi u) = true

theorem GLe.lo {g g' : Graph} (h : GLe g g') (i : Nat) : g'.lo i = g.lo i := by
  unfold Graph.lo; rw [h.nodes]

theorem GLe.hi {g g' : Graph} (h : GLe g g') (i : Nat) : g'.hi i = g.hi i := by
  unfold Graph.hi; rw [h.nodes]

theorem WinOK.mono {g g' : Graph} (h : GLe g g') (hw : WinOK g) : WinOK g' :=
  ⟨by rw [h.hi]; exact hw.depotHi,
   fun u h1 h2 => by rw [h.lo, h.hi]; exact hw.custHi u h1 (by rw [← h.nodes]; exact h2)⟩

/-! ### `add_arc` accepts the arcs the heuristic needs -/

theorem addArcOrFail_of_okTiming (s : Bool) (g : Graph) (o d : Nat) (t c : Rat)
    (hinv : C15.Inv g) (ho : o < g.nodes.length) (hd : d < g.nodes.length)
    (hok : C15.okTiming g (s && o != 0) o d t = true) :
    ∃ g', addArcOrFail (.seq s) g o d t c = some g' := by
  unfold addArcOrFail
  have hr : gstep (.seq s) g (.addArc (nameOf g o) (nameOf g d) t c) =
      addArcWith g (nameOf g o) (nameOf g d) t c (fun i => s && i != 0) := rfl
  rw [hr, C15.addArcWith_eq g _ _ t c _ o d (nameOf_index g hinv o ho) (nameOf_index g hinv d hd)]
  rw [if_pos hok]
  exact ⟨_, rfl⟩

/-- any arc back to the depot is accepted (the depot window end is `+∞`) -/
theorem addArcOrFail_to_depot (s : Bool) (g : Graph) (cur : Nat) (t c : Rat)
    (hinv : C15.Inv g) (hc : cur < g.nodes.length) (h0 : 0 < g.nodes.length) (hhi : g.hi 0 = none) :
    ∃ g', addArcOrFail (.seq s) g cur 0 t c = some g' := by
  refine addArcOrFail_of_okTiming s g cur 0 t c hinv hc h0 ?_
  unfold C15.okTiming
  rw [hhi]
  split_ifs
  · cases g.hi cur <;> simp [leE]
  · simp [leE]

/-- a zero-time arc out of the depot is accepted when the destination window has not closed -/
theorem addArcOrFail_from_depot (s : Bool) (g : Graph) (ni : Nat) (c : Rat)
    (hinv : C15.Inv g) (hn : ni < g.nodes.length) (h0 : 0 < g.nodes.length)
    (hle : leE (g.lo 0) (g.hi ni) = true) :
    ∃ g', addArcOrFail (.seq s) g 0 ni 0 c = some g' := by
  refine addArcOrFail_of_okTiming s g 0 ni 0 c hinv h0 hn ?_
  unfold C15.okTiming
  have : (s && (0 : Nat) != 0) = false := by simp
  rw [this]
  simpa using hle

theorem ensureExit_total (s : Bool) (g : Graph) (cur : Nat)
    (hinv : C15.Inv g) (hc : cur < g.nodes.length) (h0 : 0 < g.nodes.length) (hhi : g.hi 0 = none) :
    ∃ g', ensureExit (.seq s) g cur = some g' := by
  unfold ensureExit
  split_ifs
  · exact ⟨g, rfl⟩
  · exact addArcOrFail_to_depot s g cur 0 0 hinv hc h0 hhi

/-! ### the greedy fill of one vehicle never fails -/

theorem seqFill_total (s : Bool) (L v : Nat) (k p cur : Nat) (g : Graph) (unv : List Nat)
    (used : List STup) (hinv : C15.Inv g) (h0 : 0 < g.nodes.length) (hhi : g.hi 0 = none)
    (hc : cur < g.nodes.length) (hu : ∀ n ∈ unv, n < g.nodes.length) :
    ∃ res, seqFill (.seq s) L v k p cur g unv used = some res := by
  induction k generalizing p cur unv used with
  | zero =>
    obtain ⟨g', hg'⟩ := ensureExit_total s g cur hinv hc h0 hhi
    simp only [seqFill, hg', Option.map_some]
    exact ⟨_, rfl⟩
  | succ k ih =>
    unfold seqFill
    split
    · next n hfind =>
      have hmem : n ∈ unv := List.mem_of_find?_eq_some hfind
      exact ih (p + 1) n (unv.erase n) _ (hu n hmem) (fun m hm => hu m (List.mem_of_mem_erase hm))
    · obtain ⟨g', hg'⟩ := ensureExit_total s g cur hinv hc h0 hhi
      simp only [hg', Option.map_some]
      exact ⟨_, rfl⟩

/-! ### the regular vehicles -/

theorem reg_fold_total (s : Bool) (L : Nat) (U : List Nat) (g0 : Graph) (hinv : C15.Inv g0)
    (h0 : 0 < g0.nodes.length) (hhi : g0.hi 0 = none) (hU : ∀ n ∈ U, n < g0.nodes.length) (hL : 2 ≤ L)
    (V : Nat) :
    ∃ st, (List.range V).foldl (regStep (.seq s) L) (some (g0, U, [])) = some st := by
  induction V with
  | zero => exact ⟨_, rfl⟩
  | succ V ih =>
    obtain ⟨st1, hs⟩ := ih
    obtain ⟨R, _, hg1, hi1, hS1⟩ := reg_fold_spec (.seq s) L U g0 hinv h0 hU hL V st1 hs
    have hn1 : st1.1.nodes.length = g0.nodes.length := by rw [hg1.nodes]
    obtain ⟨res, hres⟩ := seqFill_total s L V (L - 2) 1 0 st1.1 st1.2.1 st1.2.2 hi1
      (by rw [hn1]; exact h0) (by rw [hg1.hi]; exact hhi) (by rw [hn1]; exact h0)
      (fun n hn => by rw [hn1]; exact hU n (hS1.rest_mem hn))
    refine ⟨res, ?_⟩
    rw [List.range_succ, List.foldl_append, List.foldl_cons, List.foldl_nil, hs]
    simpa only [regStep, Option.bind_some] using hres

/-! ### the dummy vehicles -/

theorem ensureArc_total {s : Bool} {g : Graph} {o d : Nat} {t c : Rat}
    (h : ∃ g', addArcOrFail (.seq s) g o d t c = some g') :
    ∃ g', (if g.hasArc o d then some g else addArcOrFail (.seq s) g o d t c) = some g' := by
  split_ifs
  · exact ⟨g, rfl⟩
  · exact h

theorem dummyStep_total (s : Bool) (high : Rat) (st : SeqInst × List STup) (ni : Nat)
    (hinv : C15.Inv st.1.g) (h0 : 0 < st.1.g.nodes.length) (hw : WinOK st.1.g)
    (h1 : 1 ≤ ni) (hn : ni < st.1.g.nodes.length) :
    ∃ st', dummyStep (.seq s) high (some st) ni = some st' := by
  obtain ⟨g1, e1⟩ := ensureArc_total (addArcOrFail_from_depot s st.1.g ni high hinv hn h0 (hw.custHi ni h1 hn))
  obtain ⟨a1, a2, _⟩ := ensureArc_spec (.seq s) st.1.g 0 ni 0 high g1 hinv h0 hn e1
  have hn1 : g1.nodes.length = st.1.g.nodes.length := by rw [a1.nodes]
  obtain ⟨g2, e2⟩ := ensureArc_total (addArcOrFail_to_depot s g1 ni 0 high a2 (by rw [hn1]; exact hn)
    (by rw [hn1]; exact h0) (by rw [a1.hi]; exact hw.depotHi))
  simp only [dummyStep, Option.bind_some, e1, e2, Option.map_some]
  exact ⟨_, rfl⟩

theorem dummy_fold_total (s : Bool) (high : Rat) (l : List Nat) (st : SeqInst × List STup)
    (hinv : C15.Inv st.1.g) (h0 : 0 < st.1.g.nodes.length) (hw : WinOK st.1.g)
    (hl : ∀ n ∈ l, 1 ≤ n ∧ n < st.1.g.nodes.length) :
    ∃ out, l.foldl (dummyStep (.seq s) high) (some st) = some out := by
  induction l generalizing st with
  | nil => exact ⟨st, rfl⟩
  | cons ni l ih =>
    obtain ⟨hni1, hni⟩ := hl ni List.mem_cons_self
    obtain ⟨s1, hs⟩ := dummyStep_total s high st ni hinv h0 hw hni1 hni
    rw [List.foldl_cons, hs]
    have hg := dummyStep_gle hs
    obtain ⟨g1, g2, e1, e2, hs1⟩ := dummyStep_some hs
    obtain ⟨a1, a2, _⟩ := ensureArc_spec (.seq s) st.1.g 0 ni 0 high g1 hinv h0 hni e1
    have hn1 : g1.nodes.length = st.1.g.nodes.length := by rw [a1.nodes]
    obtain ⟨_, b2, _⟩ := ensureArc_spec (.seq s) g1 ni 0 0 high g2 a2 (by rw [hn1]; exact hni)
      (by rw [hn1]; exact h0) e2
    have eg : s1.1.g = g2 := by rw [hs1]
    have hn2 : s1.1.g.nodes.length = st.1.g.nodes.length := by rw [hg.nodes]
    exact ih s1 (eg ▸ b2) (by rw [hn2]; exact h0) (hw.mono hg)
      (fun n hn => by rw [hn2]; exact hl n (List.mem_cons_of_mem _ hn))

/-! ### the index fold -/

theorem idx_fold_total (J : SeqInst) (used : List STup) (acc : List Nat)
    (h : ∀ u ∈ used, J.varIndex u ≠ none) :
    ∃ idxs, used.foldl (idxStep J) (some acc) = some idxs := by
  induction used generalizing acc with
  | nil => exact ⟨acc, rfl⟩
  | cons u l ih =>
    cases hk : J.varIndex u with
    | none => exact absurd hk (h u List.mem_cons_self)
    | some k0 =>
      have : idxStep J (some acc) u = some (acc ++ [k0]) := by simp [idxStep, hk]
      rw [List.foldl_cons, this]
      exact ih _ (fun u' hu' => h u' (List.mem_cons_of_mem _ hu'))

end Vrp.SeqHeur
