import VrpProofs.Props.C07
import VrpProofs.Props.C04
import VrpProofs.Lemmas.Route

/-!
# Helper lemmas for C07b: objective of the sequence-based model at a walk indicator

* keyed-sum evaluation of the linear / bilinear objective parts,
* a walk agrees with all fixing rules (`walk_fixed_agree`),
* `d.objective x` as a sum over the `(v, p, arc)` terms of `build_objective`.
-/
namespace Vrp.C07
open Vrp Finset

/-- tuple-indexed 0/1 assignment of a walk: vehicle `v` is at node `n` at position `p` -/
def yW (w : ℕ → ℕ → ℕ) (v p n : ℕ) : ℚ := if w v p = n then 1 else 0

/-- a walk agrees with every fixing rule -/
theorem walk_fixed_agree (I : SeqInst) (w : ℕ → ℕ → ℕ) (hw : Walk I w) (v : ℕ) (hv : v < I.V)
    (p : ℕ) (hp : p < I.L) (n : ℕ) (f : ℚ) (hf : I.fixed p n = some f) : yW w v p n = f := by
  unfold SeqInst.fixed at hf
  unfold yW
  split_ifs at hf with h1 h2 h3 h4 h5 h6
  · obtain ⟨rfl, rfl⟩ := h1
    simp only [Option.some.injEq] at hf
    simp [hw.start v hv, hf]
  · subst h2
    simp only [Option.some.injEq] at hf
    have hn : ¬ (0 = n) := fun e => h1 ⟨rfl, e.symm⟩
    simp [hw.start v hv, hn, hf]
  · obtain ⟨rfl, harc⟩ := h3
    simp only [Option.some.injEq] at hf
    have ha := hw.arcs v hv 0 (by omega)
    rw [hw.start v hv] at ha
    have hn : ¬ (w v 1 = n) := by
      intro e
      simp only [Nat.zero_add] at ha
      rw [e] at ha
      rw [ha] at harc
      simp at harc
    simp [hn, hf]
  · obtain ⟨rfl, rfl⟩ := h4
    simp only [Option.some.injEq] at hf
    simp [hw.stop v hv, hf]
  · subst h5
    simp only [Option.some.injEq] at hf
    have hn : ¬ (0 = n) := fun e => h4 ⟨rfl, e.symm⟩
    simp [hw.stop v hv, hn, hf]
  · obtain ⟨hp2, harc⟩ := h6
    simp only [Option.some.injEq] at hf
    have hpp : p + 1 < I.L := by omega
    have ha := hw.arcs v hv p hpp
    have hlast : p + 1 = I.L - 1 := by omega
    rw [hlast, hw.stop v hv] at ha
    have hn : ¬ (w v p = n) := by
      intro e
      rw [e] at ha
      rw [ha] at harc
      simp at harc
    simp [hn, hf]

/-- value of a fixed tuple = value of the walk -/
theorem walk_fixed_getD (I : SeqInst) (w : ℕ → ℕ → ℕ) (hw : Walk I w) (v : ℕ) (hv : v < I.V)
    (p : ℕ) (hp : p < I.L) (n : ℕ) (hne : I.fixed p n ≠ none) : (I.fixed p n).getD 0 = yW w v p n := by
  cases hf : I.fixed p n with
  | none => exact absurd hf hne
  | some f => rw [walk_fixed_agree I w hw v hv p hp n f hf]; rfl

/-- the indicator at the index of a free tuple -/
theorem indicator_of_index (I : SeqInst) (w : ℕ → ℕ → ℕ) (v p n k : ℕ)
    (h : I.varIndex (v, p, n) = some k) : indicator I w k = yW w v p n := by
  have := (C18.seq_index_tuple_inverse I (v, p, n) k).1 h
  simp [indicator, this, yW]

/-! ### keyed sums -/

theorem sum_keyed_mul (t : List (ℕ × ℚ)) (n : ℕ) (x : ℕ → ℚ) (hk : ∀ e ∈ t, e.1 < n) :
    ∑ k ∈ range n, sumList ((t.filter fun e => e.1 = k).map (·.2)) * x k
      = (t.map fun e => e.2 * x e.1).sum := by
  induction t with
  | nil => simp [sumList]
  | cons a t ih =>
    have ih' := ih fun e he => hk e (List.mem_cons_of_mem _ he)
    have ha := hk a List.mem_cons_self
    have : ∀ k, sumList (((a :: t).filter fun e => e.1 = k).map (·.2))
        = (if a.1 = k then a.2 else 0) + sumList ((t.filter fun e => e.1 = k).map (·.2)) := by
      intro k
      by_cases hk' : a.1 = k <;> simp [hk', sumList]
    simp only [this, add_mul, Finset.sum_add_distrib, ih', List.map_cons, List.sum_cons, ite_mul, zero_mul]
    rw [Finset.sum_ite_eq]
    simp [ha]

theorem sum_coo_mul (t : List (ℕ × ℕ × ℚ)) (n : ℕ) (x : ℕ → ℚ) (hk : ∀ e ∈ t, e.1 < n ∧ e.2.1 < n) :
    ∑ i ∈ range n, ∑ j ∈ range n, cooEntry t i j * x i * x j
      = (t.map fun e => e.2.2 * x e.1 * x e.2.1).sum := by
  induction t with
  | nil => simp [cooEntry_nil]
  | cons a t ih =>
    have ih' := ih fun e he => hk e (List.mem_cons_of_mem _ he)
    obtain ⟨ha1, ha2⟩ := hk a List.mem_cons_self
    simp only [cooEntry_cons, add_mul, Finset.sum_add_distrib, ih', List.map_cons, List.sum_cons]
    congr 1
    have : ∀ i ∈ range n, ∑ j ∈ range n, (if a.1 = i ∧ a.2.1 = j then a.2.2 else 0) * x i * x j
        = if a.1 = i then a.2.2 * x i * x a.2.1 else 0 := by
      intro i _
      by_cases hi : a.1 = i
      · simp only [hi, true_and, ite_mul, zero_mul, if_true]
        rw [Finset.sum_ite_eq]
        simp [ha2]
      · simp [hi]
    rw [Finset.sum_congr rfl this, Finset.sum_ite_eq]
    simp [ha1]

theorem sum_range_eq_sumTo (n : ℕ) (f : ℕ → ℚ) : ((List.range n).map f).sum = sumTo n f := by
  induction n with
  | zero => simp [sumTo]
  | succ k ih => simp [List.range_succ, sumTo, ih]

/-- with unique keys, a keyed selection from a list picks exactly one entry -/
theorem sum_map_key_single {α κ : Type*} [DecidableEq κ] (l : List α) (key : α → κ)
    (hn : (l.map key).Nodup) (e0 : α) (he : e0 ∈ l) (g : α → ℚ) :
    (l.map fun e => if key e = key e0 then g e else 0).sum = g e0 := by
  induction l with
  | nil => simp at he
  | cons a l ih =>
    rw [List.map_cons, List.nodup_cons] at hn
    rw [List.map_cons, List.sum_cons]
    rcases List.mem_cons.1 he with rfl | he'
    · have : (l.map fun e => if key e = key e0 then g e else 0).sum = 0 := by
        apply List.sum_eq_zero
        intro q hq
        obtain ⟨e, hel, rfl⟩ := List.mem_map.1 hq
        have : key e ≠ key e0 := fun h => hn.1 (h ▸ List.mem_map_of_mem hel)
        simp [this]
      simp [this]
    · have hne : key a ≠ key e0 := fun h => hn.1 (h ▸ List.mem_map_of_mem he')
      simp [hne, ih hn.2 he']

/-! ### the objective as a sum over the terms of `build_objective` -/

theorem seq_objective_terms (I : SeqInst) (d : MPData) (h : I.data = some d) (x : Vec) :
    d.objective x = ((C04.seqTerms I).map fun t =>
        ((C04.seqLinF I t).elim 0 fun e => e.2 * x e.1)
          + ((C04.seqQuadF I t).elim 0 fun e => e.2.2 * x e.1 * x e.2.1)).sum := by
  obtain ⟨hn, _, _, hc, hQ⟩ := C04.seq_data_fields I d h
  rw [C04.seq_objective_eq] at hc hQ
  simp only at hc hQ
  rw [C04.objective_eq]
  have hlin : ∑ i ∈ range d.n, d.cvec i * x i = ((C04.seqLin I).map fun e => e.2 * x e.1).sum := by
    rw [← sum_keyed_mul (C04.seqLin I) d.n x]
    · refine Finset.sum_congr rfl fun i hi => ?_
      have hi' : i < I.vars.length := hn ▸ Finset.mem_range.1 hi
      simp [MPData.cvec, vecOf, hc, hi']
    · intro e he
      unfold C04.seqLin at he
      obtain ⟨⟨v, p, ni, nj, c⟩, _, ht⟩ := List.mem_filterMap.1 he
      simp only [C04.seqLinF] at ht
      rw [hn]
      split at ht
      · rename_i k2 _ hk2
        simp only [Option.some.injEq] at ht; subst ht
        exact C18.seq_index_lt I _ _ hk2
      · rename_i k1 hk1 _
        simp only [Option.some.injEq] at ht; subst ht
        exact C18.seq_index_lt I _ _ hk1
      · simp at ht
  have hquad : ∑ i ∈ range d.n, ∑ j ∈ range d.n, d.Qmat i j * x i * x j
      = ((C04.seqQuad I).map fun e => e.2.2 * x e.1 * x e.2.1).sum := by
    unfold MPData.Qmat; rw [hQ]
    apply sum_coo_mul
    intro e he
    unfold C04.seqQuad at he
    obtain ⟨⟨v, p, ni, nj, c⟩, _, ht⟩ := List.mem_filterMap.1 he
    simp only [C04.seqQuadF] at ht
    rw [hn]
    split at ht
    · rename_i k1 k2 hk1 hk2
      simp only [Option.some.injEq] at ht; subst ht
      exact ⟨C18.seq_index_lt I _ _ hk1, C18.seq_index_lt I _ _ hk2⟩
    · simp at ht
  rw [hlin, hquad]
  unfold C04.seqLin C04.seqQuad
  rw [sum_filterMap_map, sum_filterMap_map, ← List.sum_map_add]

/-! ### stored arcs -/

theorem hasArc_mem (g : Graph) (hg : C15.Inv g) (i j : ℕ) (h : g.hasArc i j = true) :
    ∃ a, ((i, j), a) ∈ g.arcs ∧ g.arc? i j = some a := by
  unfold Graph.hasArc at h
  rw [dictHas_iff_dictGet_isSome] at h
  obtain ⟨a, ha⟩ := Option.isSome_iff_exists.1 h
  exact ⟨a, (dictGet_eq_some_iff _ hg.keysNodup _ _).1 ha, ha⟩

theorem arc_mem_lt (g : Graph) (hg : C15.Inv g) (e : Key × Arc) (he : e ∈ g.arcs) :
    e.1.1 < g.nodes.length ∧ e.1.2 < g.nodes.length := by
  obtain ⟨ni, nj, h1, h2, _⟩ := hg.filed e he
  exact ⟨(List.getElem?_eq_some_iff.mp h1).1, (List.getElem?_eq_some_iff.mp h2).1⟩

/-- contribution of one `(v, p, arc)` term at the indicator of a walk -/
theorem seq_term_value (I : SeqInst) (hL : 3 ≤ I.L) (w : ℕ → ℕ → ℕ) (hw : Walk I w) (v : ℕ) (hv : v < I.V)
    (p : ℕ) (hp : p + 1 < I.L) (ni nj : ℕ) (hni : ni < I.g.nodes.length) (hnj : nj < I.g.nodes.length)
    (c : ℚ) :
    ((C04.seqLinF I (v, p, ni, nj, c)).elim 0 fun e => e.2 * indicator I w e.1)
      + ((C04.seqQuadF I (v, p, ni, nj, c)).elim 0 fun e => e.2.2 * indicator I w e.1 * indicator I w e.2.1)
      = c * yW w v p ni * yW w v (p + 1) nj := by
  have hp' : p < I.L := by omega
  have hfix1 : I.varIndex (v, p, ni) = none → (I.fixed p ni).getD 0 = yW w v p ni := by
    intro h1
    apply walk_fixed_getD I w hw v hv p hp'
    intro hf
    exact (C18.seq_index_none_iff I _).1 h1 ⟨hv, hp', hni, hf⟩
  have hfix2 : I.varIndex (v, p + 1, nj) = none → (I.fixed (p + 1) nj).getD 0 = yW w v (p + 1) nj := by
    intro h1
    apply walk_fixed_getD I w hw v hv (p + 1) hp
    intro hf
    exact (C18.seq_index_none_iff I _).1 h1 ⟨hv, hp, hnj, hf⟩
  simp only [C04.seqLinF, C04.seqQuadF]
  cases h1 : I.varIndex (v, p, ni) <;> cases h2 : I.varIndex (v, p + 1, nj) <;> simp only []
  · simp only [Option.elim, add_zero]
    rw [← hfix1 h1, ← hfix2 h2]
    by_contra hne
    have hne' : (I.fixed p ni).getD 0 ≠ 0 ∧ (I.fixed (p + 1) nj).getD 0 ≠ 0 := by
      constructor
      · intro h0; apply hne; rw [h0]; ring
      · intro h0; apply hne; rw [h0]; ring
    have a1 := fixed_getD_ne_zero hne'.1
    have a2 := fixed_getD_ne_zero hne'.2
    omega
  · simp only [Option.elim, add_zero]
    rw [hfix1 h1, indicator_of_index I w _ _ _ _ h2]
  · simp only [Option.elim, add_zero]
    rw [hfix2 h2, indicator_of_index I w _ _ _ _ h1]
    ring
  · simp only [Option.elim, zero_add]
    rw [indicator_of_index I w _ _ _ _ h1, indicator_of_index I w _ _ _ _ h2]

/-- the objective at a walk indicator, arc data still explicit -/
theorem seq_objective_walk (I : SeqInst) (d : MPData) (h : I.data = some d) (hL : 3 ≤ I.L)
    (hg : C15.Inv I.g) (w : ℕ → ℕ → ℕ) (hw : Walk I w) :
    d.objective (indicator I w)
      = sumTo I.V fun v => sumTo (I.L - 1) fun p =>
          (((I.g.arc? (w v p) (w v (p + 1))).map (·.cost)).getD 0) + I.vc v := by
  rw [seq_objective_terms I d h]
  unfold C04.seqTerms
  rw [sum_flatMap_map, ← sum_range_eq_sumTo]
  congr 1
  apply List.map_congr_left
  intro v hv
  have hv' : v < I.V := List.mem_range.1 hv
  rw [sum_flatMap_map, ← sum_range_eq_sumTo]
  congr 1
  apply List.map_congr_left
  intro p hp
  have hp' : p + 1 < I.L := by have := List.mem_range.1 hp; omega
  rw [List.map_map]
  obtain ⟨a, hmem, harc⟩ := hasArc_mem I.g hg _ _ (hw.arcs v hv' p hp')
  rw [harc]
  have hcongr : ∀ e ∈ I.g.arcs,
      ((fun t => ((C04.seqLinF I t).elim 0 fun e => e.2 * indicator I w e.1)
          + ((C04.seqQuadF I t).elim 0 fun e => e.2.2 * indicator I w e.1 * indicator I w e.2.1))
        ∘ fun e : Key × Arc => (v, p, e.1.1, e.1.2, e.2.cost + I.vc v)) e
      = if (fun e : Key × Arc => e.1) e = (fun e : Key × Arc => e.1) ((w v p, w v (p + 1)), a)
          then e.2.cost + I.vc v else 0 := by
    intro e he
    obtain ⟨h1, h2⟩ := arc_mem_lt I.g hg e he
    simp only [Function.comp]
    rw [seq_term_value I hL w hw v hv' p hp' _ _ h1 h2]
    unfold yW
    by_cases ha : w v p = e.1.1
    · by_cases hb : w v (p + 1) = e.1.2
      · have : e.1 = (w v p, w v (p + 1)) := Prod.ext ha.symm hb.symm
        rw [if_pos ha, if_pos hb, if_pos this]; ring
      · have : ¬ e.1 = (w v p, w v (p + 1)) := fun h => hb (by rw [h])
        rw [if_neg hb, if_neg this]; ring
    · have : ¬ e.1 = (w v p, w v (p + 1)) := fun h => ha (by rw [h])
      rw [if_neg ha, if_neg this]; ring
  rw [List.map_congr_left hcongr]
  rw [sum_map_key_single I.g.arcs (fun e => e.1) hg.keysNodup _ hmem (fun e => e.2.cost + I.vc v)]
  simp

end Vrp.C07
