import Mathlib.Algebra.Order.Field.Rat
import Mathlib.Algebra.BigOperators.Ring.Finset
import Mathlib.Algebra.Order.BigOperators.Group.Finset
import Mathlib.Algebra.BigOperators.Group.Finset.Piecewise
import Mathlib.Data.Finset.Card
import Mathlib.Tactic.Linarith

/-! tuple-level prototype (compiles): sequence-based constraints <-> per-vehicle walks.  Abstract instance
    (N nodes, V vehicles, L positions, arc relation); to be connected to the model's SeqInst / MPData. -/
namespace Vrp.P7
open Finset


structure SeqInst where
  N : Nat
  V : Nat
  L : Nat
  arc : Nat → Nat → Bool

namespace SeqInst
variable (I : SeqInst)

/-- the six fixing rules of `enumerate_variables`, in code order (independent of the vehicle) -/
def fixed (p n : Nat) : Option ℚ :=
  if p = 0 then (if n = 0 then some 1 else some 0)
  else if p = 1 ∧ I.arc 0 n = false then some 0
  else if p = I.L - 1 then (if n = 0 then some 1 else some 0)
  else if p = I.L - 2 ∧ I.arc n 0 = false then some 0
  else none

def free (p n : Nat) : Prop := I.fixed p n = none
instance (p n : Nat) : Decidable (I.free p n) := by unfold free; infer_instance

/-- forbidden consecutive pair (invalid arc, or leaving the depot after having returned) -/
def forb (p n n' : Nat) : Prop := I.arc n n' = false ∨ (n = 0 ∧ n' ≠ 0 ∧ 1 ≤ p)
instance (p n n' : Nat) : Decidable (I.forb p n n') := by unfold forb; infer_instance

def Box (y : Nat → Nat → Nat → ℚ) (P : Nat → Nat → Nat → Prop) : Prop :=
  ∀ v < I.V, ∀ p < I.L, ∀ n < I.N, P v p n

def Agree (y : Nat → Nat → Nat → ℚ) : Prop :=
  ∀ v < I.V, ∀ p < I.L, ∀ n < I.N, ∀ f, I.fixed p n = some f → y v p n = f
def Bin (y : Nat → Nat → Nat → ℚ) : Prop :=
  ∀ v < I.V, ∀ p < I.L, ∀ n < I.N, y v p n = 0 ∨ y v p n = 1
def Cust (y : Nat → Nat → Nat → ℚ) : Prop :=
  ∀ k, 1 ≤ k → k < I.N → ∑ p ∈ range I.L, ∑ v ∈ range I.V, y v p k = 1
def Slot (y : Nat → Nat → Nat → ℚ) : Prop :=
  ∀ p, 1 ≤ p → p ≤ I.L - 2 → ∀ v < I.V, ∑ n ∈ range I.N, y v p n = 1
def quadTerm (y : Nat → Nat → Nat → ℚ) (v p n n' : Nat) : ℚ :=
  if I.forb p n n' ∧ I.free p n ∧ I.free (p+1) n' then y v p n * y v (p+1) n' else 0
def Quad (y : Nat → Nat → Nat → ℚ) : Prop :=
  ∑ v ∈ range I.V, ∑ p ∈ range (I.L - 1), ∑ n ∈ range I.N, ∑ n' ∈ range I.N, I.quadTerm y v p n n' = 0

structure Walk (w : Nat → Nat → Nat) : Prop where
  lt : ∀ v < I.V, ∀ p < I.L, w v p < I.N
  start : ∀ v < I.V, w v 0 = 0
  stop : ∀ v < I.V, w v (I.L - 1) = 0
  arcs : ∀ v < I.V, ∀ p, p + 1 < I.L → I.arc (w v p) (w v (p+1)) = true
  absorb : ∀ v < I.V, ∀ p, 1 ≤ p → p + 1 < I.L → w v p = 0 → w v (p+1) = 0
  once : ∀ k, 1 ≤ k → k < I.N →
    ((range I.L ×ˢ range I.V).filter (fun pv => w pv.2 pv.1 = k)).card = 1

def IsInd (y : Nat → Nat → Nat → ℚ) (w : Nat → Nat → Nat) : Prop :=
  ∀ v < I.V, ∀ p < I.L, ∀ n < I.N, y v p n = if w v p = n then 1 else 0

end SeqInst

theorem exists_unique_one (N : Nat) (f : Nat → ℚ) (hb : ∀ n < N, f n = 0 ∨ f n = 1)
    (hs : ∑ n ∈ range N, f n = 1) : ∃ n, n < N ∧ f n = 1 ∧ ∀ m < N, f m = 1 → m = n := by
  have hcard : ∑ n ∈ range N, f n = (((range N).filter (fun n => f n = 1)).card : ℚ) := by
    rw [Finset.card_filter, Nat.cast_sum]
    refine Finset.sum_congr rfl (fun n hn => ?_)
    rcases hb n (Finset.mem_range.1 hn) with h | h <;> simp [h]
  rw [hs] at hcard
  have h1 : ((range N).filter (fun n => f n = 1)).card = 1 := by exact_mod_cast hcard.symm
  obtain ⟨n, hn⟩ := Finset.card_eq_one.1 h1
  have hmem : n ∈ (range N).filter (fun n => f n = 1) := by rw [hn]; simp
  rw [Finset.mem_filter, Finset.mem_range] at hmem
  refine ⟨n, hmem.1, hmem.2, fun m hm hfm => ?_⟩
  have : m ∈ (range N).filter (fun n => f n = 1) := by
    rw [Finset.mem_filter, Finset.mem_range]; exact ⟨hm, hfm⟩
  rw [hn] at this; simpa using this

namespace SeqInst
variable (I : SeqInst)

theorem quadTerm_nonneg (y) (hb : I.Bin y) (v p n n' : Nat) (hv : v < I.V) (hp : p + 1 < I.L)
    (hn : n < I.N) (hn' : n' < I.N) : 0 ≤ I.quadTerm y v p n n' := by
  unfold quadTerm
  split
  · rcases hb v hv p (by omega) n hn with h | h <;> rcases hb v hv (p+1) hp n' hn' with h' | h' <;>
      rw [h, h'] <;> norm_num
  · exact le_refl _

/-- every individual product of the quadratic constraint vanishes -/
theorem quadTerm_zero (y) (hb : I.Bin y) (hq : I.Quad y) (v p n n' : Nat) (hv : v < I.V)
    (hp : p + 1 < I.L) (hn : n < I.N) (hn' : n' < I.N) : I.quadTerm y v p n n' = 0 := by
  unfold Quad at hq
  have hp' : p ∈ range (I.L - 1) := Finset.mem_range.2 (by omega)
  have h1 := (Finset.sum_eq_zero_iff_of_nonneg (fun v hv' => ?_)).1 hq v (Finset.mem_range.2 hv)
  have h2 := (Finset.sum_eq_zero_iff_of_nonneg (fun p hp'' => ?_)).1 h1 p hp'
  have h3 := (Finset.sum_eq_zero_iff_of_nonneg (fun n hn'' => ?_)).1 h2 n (Finset.mem_range.2 hn)
  have h4 := (Finset.sum_eq_zero_iff_of_nonneg (fun n' hn'' => ?_)).1 h3 n' (Finset.mem_range.2 hn')
  · exact h4
  · exact I.quadTerm_nonneg y hb v p n n' hv hp hn (Finset.mem_range.1 hn'')
  · exact Finset.sum_nonneg fun n' hn''' =>
      I.quadTerm_nonneg y hb v p n n' hv hp (Finset.mem_range.1 hn'') (Finset.mem_range.1 hn''')
  · have hpp := Finset.mem_range.1 hp''
    exact Finset.sum_nonneg fun n hn''' => Finset.sum_nonneg fun n' hn'''' =>
      I.quadTerm_nonneg y hb v p n n' hv (by omega) (Finset.mem_range.1 hn''') (Finset.mem_range.1 hn'''')
  · exact Finset.sum_nonneg fun p hp''' => Finset.sum_nonneg fun n hn''' => Finset.sum_nonneg fun n' hn'''' =>
      I.quadTerm_nonneg y hb v p n n' (Finset.mem_range.1 hv') (by have := Finset.mem_range.1 hp'''; omega)
        (Finset.mem_range.1 hn''') (Finset.mem_range.1 hn'''')

end SeqInst

namespace SeqInst
variable (I : SeqInst)

theorem fixed_zero (n : Nat) : I.fixed 0 n = if n = 0 then some 1 else some 0 := by
  unfold fixed; simp

theorem fixed_last (hL : 3 ≤ I.L) (n : Nat) :
    I.fixed (I.L - 1) n = if n = 0 then some 1 else some 0 := by
  unfold fixed
  have h0 : ¬ (I.L - 1 = 0) := by omega
  have h1 : ¬ (I.L - 1 = 1) := by omega
  simp [h0, h1]

/-- a fixed value 1 only occurs at the depot in the first or last position -/
theorem fixed_one (p n : Nat) (h : I.fixed p n = some 1) : n = 0 ∧ (p = 0 ∨ p = I.L - 1) := by
  unfold fixed at h
  split at h
  · split at h <;> simp_all
  · split at h
    · simp at h
    · split at h
      · split at h <;> simp_all
      · split at h <;> simp at h

theorem free_one_arc (n : Nat) (h : I.free 1 n) : I.arc 0 n = true := by
  unfold free fixed at h
  by_contra hc
  have : I.arc 0 n = false := by simpa using hc
  simp [this] at h

theorem free_penult_arc (hL : 3 ≤ I.L) (n : Nat) (h : I.free (I.L - 2) n) : I.arc n 0 = true := by
  unfold free fixed at h
  by_contra hc
  have hf : I.arc n 0 = false := by simpa using hc
  have h0 : ¬ (I.L - 2 = 0) := by omega
  have h2 : ¬ (I.L - 2 = I.L - 1) := by omega
  by_cases h1 : I.L - 2 = 1 ∧ I.arc 0 n = false
  · simp [h0, h1] at h
  · simp [h0, h1, h2, hf] at h

theorem feasible_imp_walk (hL : 3 ≤ I.L) (hN : 1 ≤ I.N) (y : Nat → Nat → Nat → ℚ)
    (ha : I.Agree y) (hb : I.Bin y) (hc : I.Cust y) (hs : I.Slot y) (hq : I.Quad y) :
    ∃ w, I.Walk w ∧ I.IsInd y w := by
  -- step 1: one node per (vehicle, position)
  have hex : ∀ v p, ∃ n, v < I.V → p < I.L →
      (n < I.N ∧ y v p n = 1 ∧ ∀ m < I.N, y v p m = 1 → m = n) := by
    intro v p
    by_cases hv : v < I.V
    swap
    · exact ⟨0, fun h => absurd h hv⟩
    by_cases hp : p < I.L
    swap
    · exact ⟨0, fun _ h => absurd h hp⟩
    by_cases hp0 : p = 0
    · subst hp0
      refine ⟨0, fun _ _ => ⟨by omega, ha v hv 0 hp 0 (by omega) 1 (by simp [fixed_zero]), ?_⟩⟩
      intro m hm hy
      by_contra hne
      have := ha v hv 0 hp m hm 0 (by simp [fixed_zero, hne])
      rw [this] at hy; norm_num at hy
    by_cases hpl : p = I.L - 1
    · subst hpl
      refine ⟨0, fun _ _ => ⟨by omega, ha v hv _ hp 0 (by omega) 1 (by simp [fixed_last I hL]), ?_⟩⟩
      intro m hm hy
      by_contra hne
      have := ha v hv _ hp m hm 0 (by simp [fixed_last I hL, hne])
      rw [this] at hy; norm_num at hy
    · obtain ⟨n, hn, hy, hu⟩ := exists_unique_one I.N (fun n => y v p n) (fun n hn => hb v hv p hp n hn)
        (hs p (by omega) (by omega) v hv)
      exact ⟨n, fun _ _ => ⟨hn, hy, hu⟩⟩
  choose w hw using hex
  have hind : I.IsInd y w := by
    intro v hv p hp n hn
    obtain ⟨h1, h2, h3⟩ := hw v p hv hp
    by_cases h : w v p = n
    · subst h; simp [h2]
    · simp only [h, if_false]
      rcases hb v hv p hp n hn with h0 | h1'
      · exact h0
      · exact absurd (h3 n hn h1').symm h
  have hy1 : ∀ v < I.V, ∀ p < I.L, y v p (w v p) = 1 := fun v hv p hp => (hw v p hv hp).2.1
  have hwlt : ∀ v < I.V, ∀ p < I.L, w v p < I.N := fun v hv p hp => (hw v p hv hp).1
  have hstart : ∀ v < I.V, w v 0 = 0 := by
    intro v hv
    have h0 := ha v hv 0 (by omega) 0 (by omega) 1 (by simp [fixed_zero])
    exact ((hw v 0 hv (by omega)).2.2 0 (by omega) h0).symm
  have hstop : ∀ v < I.V, w v (I.L - 1) = 0 := by
    intro v hv
    have h0 := ha v hv (I.L - 1) (by omega) 0 (by omega) 1 (by simp [fixed_last I hL])
    exact ((hw v _ hv (by omega)).2.2 0 (by omega) h0).symm
  -- a selected variable that is fixed is fixed to 1
  have hsel_fixed : ∀ v < I.V, ∀ p < I.L, ∀ f, I.fixed p (w v p) = some f → f = 1 := by
    intro v hv p hp f hf
    have := ha v hv p hp (w v p) (hwlt v hv p hp) f hf
    rw [hy1 v hv p hp] at this; exact this.symm
  -- key: a forbidden consecutive pair cannot be selected
  have hforb : ∀ v < I.V, ∀ p, p + 1 < I.L → ¬ I.forb p (w v p) (w v (p+1)) := by
    intro v hv p hp hf
    have hpL : p < I.L := by omega
    by_cases hfr1 : I.free p (w v p)
    · by_cases hfr2 : I.free (p+1) (w v (p+1))
      · have hz := I.quadTerm_zero y hb hq v p (w v p) (w v (p+1)) hv hp (hwlt v hv p hpL) (hwlt v hv _ hp)
        unfold quadTerm at hz
        rw [if_pos ⟨hf, hfr1, hfr2⟩, hy1 v hv p hpL, hy1 v hv _ hp] at hz
        norm_num at hz
      · -- second fixed, hence fixed to 1: last position, depot
        unfold free at hfr2
        obtain ⟨f, hfx⟩ := Option.ne_none_iff_exists'.1 hfr2
        have hf1 := hsel_fixed v hv _ hp f hfx
        subst hf1
        obtain ⟨hn0, hpos⟩ := I.fixed_one _ _ hfx
        have hpl : p + 1 = I.L - 1 := by rcases hpos with h | h <;> omega
        have hp2 : p = I.L - 2 := by omega
        rcases hf with hf | ⟨_, hne, _⟩
        · have := I.free_penult_arc hL (w v p) (hp2 ▸ hfr1)
          rw [hn0] at hf; rw [this] at hf; exact absurd hf (by simp)
        · exact hne hn0
    · unfold free at hfr1
      obtain ⟨f, hfx⟩ := Option.ne_none_iff_exists'.1 hfr1
      have hf1 := hsel_fixed v hv p hpL f hfx
      subst hf1
      obtain ⟨hn0, hpos⟩ := I.fixed_one _ _ hfx
      have hp0 : p = 0 := by rcases hpos with h | h <;> omega
      subst hp0
      -- position 1 must then be reachable from the depot
      by_cases hfr2 : I.free 1 (w v 1)
      · have harc := I.free_one_arc _ hfr2
        rcases hf with hf | ⟨_, _, h1⟩
        · rw [hn0] at hf; rw [harc] at hf; exact absurd hf (by simp)
        · omega
      · unfold free at hfr2
        obtain ⟨f, hfx2⟩ := Option.ne_none_iff_exists'.1 hfr2
        have hf1 := hsel_fixed v hv 1 (by omega) f hfx2
        subst hf1
        obtain ⟨_, hpos2⟩ := I.fixed_one _ _ hfx2
        rcases hpos2 with h | h <;> omega
  refine ⟨w, ⟨hwlt, hstart, hstop, ?_, ?_, ?_⟩, hind⟩
  · intro v hv p hp
    by_contra hc'
    exact hforb v hv p hp (Or.inl (by simpa using hc'))
  · intro v hv p hp1 hp hz
    by_contra hne
    exact hforb v hv p hp (Or.inr ⟨hz, hne, hp1⟩)
  · intro k hk1 hkN
    have := hc k hk1 hkN
    have hsum : ∑ p ∈ range I.L, ∑ v ∈ range I.V, y v p k
        = (((range I.L ×ˢ range I.V).filter (fun pv => w pv.2 pv.1 = k)).card : ℚ) := by
      rw [Finset.card_filter, Nat.cast_sum, Finset.sum_product]
      refine Finset.sum_congr rfl (fun p hp => Finset.sum_congr rfl (fun v hv => ?_))
      rw [hind v (Finset.mem_range.1 hv) p (Finset.mem_range.1 hp) k hkN]
      split <;> simp
    rw [hsum] at this
    exact_mod_cast this

end SeqInst

namespace SeqInst
variable (I : SeqInst)

theorem walk_imp_feasible (hL : 3 ≤ I.L) (y : Nat → Nat → Nat → ℚ) (w : Nat → Nat → Nat)
    (hw : I.Walk w) (hind : I.IsInd y w) :
    I.Agree y ∧ I.Bin y ∧ I.Cust y ∧ I.Slot y ∧ I.Quad y := by
  refine ⟨?_, ?_, ?_, ?_, ?_⟩
  · -- Agree
    intro v hv p hp n hn f hf
    rw [hind v hv p hp n hn]
    unfold fixed at hf
    split at hf
    · next hp0 =>
      subst hp0
      rw [hw.start v hv]
      split at hf
      · next hn0 => subst hn0; simp at hf ⊢; exact hf
      · next hn0 =>
        have : ¬ (0 = n) := fun e => hn0 e.symm
        simp [this] at hf ⊢; exact hf
    · next hp0 =>
      split at hf
      · next h1 =>
        obtain ⟨hp1, harc⟩ := h1
        subst hp1
        have ha := hw.arcs v hv 0 (by omega)
        rw [hw.start v hv] at ha
        have : ¬ (w v 1 = n) := by
          intro e; simp only [Nat.zero_add] at ha; rw [e, harc] at ha; exact absurd ha (by simp)
        simp [this] at hf ⊢; exact hf
      · next h1 =>
        split at hf
        · next hpl =>
          subst hpl
          rw [hw.stop v hv]
          split at hf
          · next hn0 => subst hn0; simp at hf ⊢; exact hf
          · next hn0 =>
            have : ¬ (0 = n) := fun e => hn0 e.symm
            simp [this] at hf ⊢; exact hf
        · next hpl =>
          split at hf
          · next h2 =>
            obtain ⟨hp2, harc⟩ := h2
            have hpp : p + 1 < I.L := by omega
            have ha := hw.arcs v hv p hpp
            have hlast : p + 1 = I.L - 1 := by omega
            rw [hlast, hw.stop v hv] at ha
            have : ¬ (w v p = n) := by
              intro e; rw [e, harc] at ha; exact absurd ha (by simp)
            simp [this] at hf ⊢; exact hf
          · simp at hf
  · intro v hv p hp n hn
    rw [hind v hv p hp n hn]; split <;> simp
  · intro k hk1 hkN
    have hsum : ∑ p ∈ range I.L, ∑ v ∈ range I.V, y v p k
        = (((range I.L ×ˢ range I.V).filter (fun pv => w pv.2 pv.1 = k)).card : ℚ) := by
      rw [Finset.card_filter, Nat.cast_sum, Finset.sum_product]
      refine Finset.sum_congr rfl (fun p hp => Finset.sum_congr rfl (fun v hv => ?_))
      rw [hind v (Finset.mem_range.1 hv) p (Finset.mem_range.1 hp) k hkN]
      split <;> simp
    rw [hsum, hw.once k hk1 hkN]; simp
  · intro p hp1 hp2 v hv
    have hp : p < I.L := by omega
    have : ∀ n ∈ range I.N, y v p n = if w v p = n then 1 else 0 :=
      fun n hn => hind v hv p hp n (Finset.mem_range.1 hn)
    rw [Finset.sum_congr rfl this, Finset.sum_ite_eq (range I.N) (w v p)]
    simp [hw.lt v hv p hp]
  · unfold Quad
    refine Finset.sum_eq_zero (fun v hv => Finset.sum_eq_zero (fun p hp => Finset.sum_eq_zero
      (fun n hn => Finset.sum_eq_zero (fun n' hn' => ?_))))
    have hv' := Finset.mem_range.1 hv
    have hp' : p + 1 < I.L := by have := Finset.mem_range.1 hp; omega
    unfold quadTerm
    split
    · next h =>
      obtain ⟨hf, _, _⟩ := h
      rw [hind v hv' p (by omega) n (Finset.mem_range.1 hn), hind v hv' (p+1) hp' n' (Finset.mem_range.1 hn')]
      by_cases h1 : w v p = n
      · by_cases h2 : w v (p+1) = n'
        · exfalso
          rcases hf with hf | ⟨hn0, hne, hp1⟩
          · have := hw.arcs v hv' p hp'; rw [h1, h2, hf] at this; exact absurd this (by simp)
          · have := hw.absorb v hv' p hp1 hp' (h1.trans hn0); exact hne (h2 ▸ this)
        · simp [h2]
      · simp [h1]
    · rfl

end SeqInst
end Vrp.P7
