import VrpModel.Num
import Mathlib.Algebra.BigOperators.Ring.Finset
import Mathlib.Algebra.Order.Field.Rat
import Mathlib.Algebra.Ring.Rat

/-! bridge between the model's structural sums and `Finset.range` sums -/
namespace Vrp
open Finset

theorem sumTo_eq (n : Nat) (f : Nat → ℚ) : sumTo n f = ∑ i ∈ range n, f i := by
  induction n with
  | zero => simp [sumTo]
  | succ k ih => simp [sumTo, ih, Finset.sum_range_succ]

theorem sumToI_eq (n : Nat) (f : Nat → ℤ) : sumToI n f = ∑ i ∈ range n, f i := by
  induction n with
  | zero => simp [sumToI]
  | succ k ih => simp [sumToI, ih, Finset.sum_range_succ]

theorem sumList_eq (l : List ℚ) : sumList l = l.sum := by
  induction l with
  | nil => rfl
  | cons a l ih => simp [sumList, List.foldr] at ih ⊢; rw [← ih]

end Vrp
