import VrpProofs.Lemmas.QuboBridge
import Mathlib.Tactic.NormNum

/-!
# C01 — QUBO and Ising forms have equal energy on every assignment

Property theorems only.  `…_field` statements hold over every field of characteristic zero
(hence over ℝ); the un-suffixed ones are about the executable model (ℚ) that the correspondence
check runs against `qubo_tools.py`.
-/
namespace Vrp.C01
open Vrp

/-- QUBO → Ising, any field of characteristic 0, any matrix/constant, any idempotent vector -/
theorem qubo_to_ising_energy_field {K : Type*} [Field K] [CharZero K] (n : ℕ) (Q : ℕ → ℕ → K) (c : K)
    (x : ℕ → K) (hx : ∀ i < n, x i * x i = x i) :
    G.evalIsing n (G.isingJ Q) (G.isingH n Q) (G.isingC n Q c) (fun i => 1 - 2 * x i)
      = G.evalQubo n Q c x :=
  G.qubo_to_ising_energy n Q c x hx

/-- Ising → QUBO, any field of characteristic 0, couplings with arbitrary diagonal -/
theorem ising_to_qubo_energy_field {K : Type*} [Field K] [CharZero K] (n : ℕ) (J : ℕ → ℕ → K)
    (h : ℕ → K) (c : K) (s : ℕ → K) (hs : ∀ i < n, s i * s i = 1) :
    G.evalQubo n (G.quboOfIsingQ n J h) (G.quboOfIsingC n J h c) (fun i => (1 - s i) / 2)
      = G.evalIsing n J h c s :=
  G.ising_to_qubo_energy n J h c s hs

/-- model: `evaluate_Ising(*QUBO_to_Ising(Q, c), x_to_s(x)) = evaluate_QUBO(Q, c, x)` for every binary `x` -/
theorem qubo_to_ising_energy (n : ℕ) (Q : Mat) (c : ℚ) (x : Vec) (hx : IsBin n x) :
    evalIsing n (isingJ Q) (isingH n Q) (isingC n Q c) (xToS x) = evalQubo n Q c x := by
  rw [evalIsing_eq, evalQubo_eq, isingJ_eq, isingH_eq, isingC_eq]
  exact G.qubo_to_ising_energy n Q c x hx.idem

/-- model: `evaluate_QUBO(*Ising_to_QUBO(J, h, c), s_to_x(s)) = evaluate_Ising(J, h, c, s)` for every spin vector -/
theorem ising_to_qubo_energy (n : ℕ) (J : Mat) (h : Vec) (c : ℚ) (s : Vec) (hs : IsSpin n s) :
    evalQubo n (quboOfIsingQ n J h) (quboOfIsingC n J h c) (sToX s) = evalIsing n J h c s := by
  rw [evalIsing_eq, evalQubo_eq, quboOfIsingQ_eq, quboOfIsingC_eq]
  exact G.ising_to_qubo_energy n J h c s hs.sq

/-- the returned coupling matrix has an all-zero diagonal -/
theorem ising_diag_zero (Q : Mat) (i : ℕ) : isingJ Q i i = 0 := by simp [isingJ]

/-- `x_to_s` maps 1 ↦ -1 and 0 ↦ +1 -/
theorem xToS_values (x : Vec) (i : ℕ) : (x i = 1 → xToS x i = -1) ∧ (x i = 0 → xToS x i = 1) := by
  constructor <;> intro h <;> simp [xToS, h] <;> norm_num

/-- the two variable maps are mutually inverse on {0,1} / {-1,+1} (in fact everywhere) -/
theorem sToX_xToS (x : Vec) : sToX (xToS x) = x := by
  funext i; simp only [sToX, xToS]; ring
theorem xToS_sToX (s : Vec) : xToS (sToX s) = s := by
  funext i; simp only [sToX, xToS]; ring

theorem xToS_spin (n : ℕ) (x : Vec) (hx : IsBin n x) : IsSpin n (xToS x) := by
  intro i hi; rcases hx i hi with h | h <;> simp [xToS, h] <;> norm_num
theorem sToX_bin (n : ℕ) (s : Vec) (hs : IsSpin n s) : IsBin n (sToX s) := by
  intro i hi; rcases hs i hi with h | h <;> simp [sToX, h]

/-- non-square input is rejected (the code raises `ValueError`), square input is accepted -/
theorem nonSquare_rejected (r c : ℕ) : squareGuard r c = none ↔ r ≠ c := by
  unfold squareGuard; split <;> simp_all

/-- non-vacuity: a concrete non-symmetric 2×2 instance and a binary vector meeting the hypotheses -/
example : IsBin 2 (vecOf [1, 0]) ∧
    evalQubo 2 (matOf [[1, 2], [3, 4]]) (1/2) (vecOf [1, 0]) = 3/2 ∧
    evalIsing 2 (isingJ (matOf [[1, 2], [3, 4]])) (isingH 2 (matOf [[1, 2], [3, 4]]))
      (isingC 2 (matOf [[1, 2], [3, 4]]) (1/2)) (xToS (vecOf [1, 0])) = 3/2 := by
  refine ⟨?_, by decide +kernel, by decide +kernel⟩
  intro i hi
  have : i = 0 ∨ i = 1 := by omega
  rcases this with h | h <;> subst h <;> simp [vecOf]

end Vrp.C01
