import VrpProofs.Props.C01
/-!
# C01 (addendum): the binary-to-spin map on fixed-width unsigned storage (defect D21)

The model of `Props/C01.lean` works over the rationals, where `1 - 2x` is what it says.  The real `x_to_s` evaluated
`1 - 2*x` in the dtype of its argument; for an unsigned 8/16/32/64-bit vector (e.g. the output of `np.unpackbits`) that
is arithmetic modulo 2^w, and `1 - 2·1` is `2^w - 1`, not `-1`.  The repaired function converts to signed integers first.
Here both are modelled with `BitVec w` and compared for every width.
-/
namespace Vrp.C01
open Vrp

/-- the pinned `x_to_s` on an unsigned `w`-bit entry: `1 - 2*x` in arithmetic modulo `2^w`, read back as a number -/
def xToSPinned (w : Nat) (x : BitVec w) : Int := ((1 - 2 * x : BitVec w).toNat : Int)

/-- the repaired `x_to_s`: the entry is converted to a signed integer first -/
def xToSRepaired (w : Nat) (x : BitVec w) : Int := 1 - 2 * (x.toNat : Int)

/-- **the repaired map is the spin map** on binary entries, for every storage width ≥ 1 -/
theorem xToSRepaired_spin (w : Nat) (hw : 1 ≤ w) (x : BitVec w) (hx : x = 0 ∨ x = 1) :
    xToSRepaired w x = if x = 1 then -1 else 1 := by
  have hlt : 1 < 2 ^ w := Nat.one_lt_two_pow (by omega)
  have h1 : (1 : BitVec w).toNat = 1 := by
    show (BitVec.ofNat w 1).toNat = 1
    rw [BitVec.toNat_ofNat]; exact Nat.mod_eq_of_lt hlt
  have h01 : (0 : BitVec w) ≠ 1 := by
    intro h
    have h' := congrArg BitVec.toNat h
    rw [h1] at h'
    simp at h'
  rcases hx with rfl | rfl
  · rw [if_neg h01]
    simp [xToSRepaired]
  · rw [if_pos rfl]
    unfold xToSRepaired
    rw [h1]; rfl

/-- **the pinned map wraps around**: on 8-, 16-, 32- and 64-bit unsigned storage the entry 1 is sent to `2^w - 1` -/
theorem xToSPinned_wraps :
    xToSPinned 8 1 = 255 ∧ xToSPinned 16 1 = 65535 ∧ xToSPinned 32 1 = 4294967295 ∧
    xToSPinned 64 1 = 18446744073709551615 ∧ xToSPinned 8 0 = 1 := by
  refine ⟨?_, ?_, ?_, ?_, ?_⟩ <;> decide

/-- … so it is not the spin map: the defect, as a statement -/
theorem xToSPinned_not_spin : xToSPinned 8 1 ≠ -1 := by decide

/-- the same mechanism in `sampler - constant` (defect D24): negating an unsigned constant wraps -/
theorem neg_unsigned_constant_wraps : ((-(3 : BitVec 8)).toNat = 253) ∧ ((-(3 : BitVec 16)).toNat = 65533) := by
  constructor <;> decide

end Vrp.C01
