import VrpModel.Program
import VrpModel.ArcBased
import VrpModel.PathBased
import VrpModel.SeqBased
import VrpProofs.Lemmas.QuboBridge
import VrpProofs.Lemmas.Program
import VrpProofs.Props.C15

/-!
# C02 — Penalty QUBO equals objective plus weighted squared constraint violation
-/
namespace Vrp.C02
open Vrp Finset

variable {K : Type*} [Field K]

/-- `get_qubo` at the dense level, over any field -/
def quboQ (n m : ℕ) (A : ℕ → ℕ → K) (b : ℕ → K) (R Qo : ℕ → ℕ → K) (c : ℕ → K)
    (rho : K) (feas : Bool) (i j : ℕ) : K :=
  rho * (R i j + ∑ r ∈ range m, A r i * A r j + (if i = j then -2 * ∑ r ∈ range m, A r i * b r else 0))
    + (if feas then 0 else Qo i j + (if i = j then c i else 0))
def quboK (m : ℕ) (b : ℕ → K) (rho : K) : K := rho * ∑ r ∈ range m, b r * b r
def penalty (n m : ℕ) (A : ℕ → ℕ → K) (b : ℕ → K) (R : ℕ → ℕ → K) (x : ℕ → K) : K :=
  ∑ r ∈ range m, (∑ j ∈ range n, A r j * x j - b r) ^ 2 + G.quad n R x
def objective (n : ℕ) (Qo : ℕ → ℕ → K) (c : ℕ → K) (x : ℕ → K) : K :=
  ∑ i ∈ range n, c i * x i + G.quad n Qo x

/-- **generic energy identity** (any field, any data, any ρ of either sign, both modes) -/
theorem getQubo_energy_field (n m : ℕ) (A : ℕ → ℕ → K) (b : ℕ → K) (R Qo : ℕ → ℕ → K)
    (c : ℕ → K) (rho : K) (feas : Bool) (x : ℕ → K) (hx : ∀ i < n, x i * x i = x i) :
    G.quad n (quboQ n m A b R Qo c rho feas) x + quboK m b rho
      = (if feas then 0 else objective n Qo c x) + rho * penalty n m A b R x := by
  have hAA : ∑ i ∈ range n, ∑ j ∈ range n, (∑ r ∈ range m, A r i * A r j) * x i * x j
      = ∑ r ∈ range m, (∑ j ∈ range n, A r j * x j) ^ 2 := by
    have : ∀ r ∈ range m, (∑ j ∈ range n, A r j * x j) ^ 2
        = ∑ i ∈ range n, ∑ j ∈ range n, A r i * A r j * x i * x j := by
      intro r _
      rw [pow_two, Finset.sum_mul_sum]
      exact Finset.sum_congr rfl (fun i _ => Finset.sum_congr rfl (fun j _ => by ring))
    rw [Finset.sum_congr rfl this]
    calc ∑ i ∈ range n, ∑ j ∈ range n, (∑ r ∈ range m, A r i * A r j) * x i * x j
        = ∑ i ∈ range n, ∑ j ∈ range n, ∑ r ∈ range m, A r i * A r j * x i * x j := by
          refine Finset.sum_congr rfl (fun i _ => Finset.sum_congr rfl (fun j _ => ?_))
          rw [Finset.sum_mul, Finset.sum_mul]
      _ = ∑ i ∈ range n, ∑ r ∈ range m, ∑ j ∈ range n, A r i * A r j * x i * x j := by
          refine Finset.sum_congr rfl (fun i _ => ?_)
          rw [Finset.sum_comm]
      _ = ∑ r ∈ range m, ∑ i ∈ range n, ∑ j ∈ range n, A r i * A r j * x i * x j := by
          rw [Finset.sum_comm]
  have hAb : ∑ i ∈ range n, (-2 * ∑ r ∈ range m, A r i * b r) * x i
      = -2 * ∑ r ∈ range m, b r * ∑ j ∈ range n, A r j * x j := by
    simp only [Finset.mul_sum, Finset.sum_mul]
    rw [Finset.sum_comm]
    exact Finset.sum_congr rfl (fun r _ => Finset.sum_congr rfl (fun j _ => by ring))
  have hpen : penalty n m A b R x
      = ∑ r ∈ range m, (∑ j ∈ range n, A r j * x j) ^ 2
        - 2 * ∑ r ∈ range m, b r * ∑ j ∈ range n, A r j * x j
        + ∑ r ∈ range m, b r * b r + G.quad n R x := by
    unfold penalty
    have : ∀ r ∈ range m, (∑ j ∈ range n, A r j * x j - b r) ^ 2
        = (∑ j ∈ range n, A r j * x j) ^ 2 - 2 * (b r * ∑ j ∈ range n, A r j * x j) + b r * b r := by
      intro r _; ring
    rw [Finset.sum_congr rfl this, Finset.sum_add_distrib, Finset.sum_sub_distrib, ← Finset.mul_sum]
  have hsplit : G.quad n (quboQ n m A b R Qo c rho feas) x
      = rho * (G.quad n R x
          + ∑ i ∈ range n, ∑ j ∈ range n, (∑ r ∈ range m, A r i * A r j) * x i * x j
          + ∑ i ∈ range n, ∑ j ∈ range n, (if i = j then -2 * ∑ r ∈ range m, A r i * b r else 0) * x i * x j)
        + (if feas then 0 else G.quad n Qo x
          + ∑ i ∈ range n, ∑ j ∈ range n, (if i = j then c i else 0) * x i * x j) := by
    unfold G.quad quboQ
    cases feas
    · simp only [Bool.false_eq_true, if_false, Finset.mul_sum, ← Finset.sum_add_distrib]
      exact Finset.sum_congr rfl (fun i _ => Finset.sum_congr rfl (fun j _ => by ring))
    · simp only [if_true, Finset.mul_sum, ← Finset.sum_add_distrib, add_zero]
      exact Finset.sum_congr rfl (fun i _ => Finset.sum_congr rfl (fun j _ => by ring))
  rw [hsplit, G.diag_sum n _ x hx, G.diag_sum n c x hx, hAA, hAb, hpen]
  unfold quboK objective
  cases feas <;> simp <;> ring


/-! ## model-level statements -/

/-- **model-level energy identity**: for every program data, every ρ (either sign), both modes and
    every binary `x`: `xᵀQx + k = objective(x) + ρ (|Ax−b|² + xᵀRx)` (objective absent in feasibility mode) -/
theorem getQubo_energy (d : MPData) (rho : ℚ) (feas : Bool) (x : Vec) (hx : IsBin d.n x) :
    quad d.n (d.quboQ rho feas) x + d.quboK rho
      = (if feas then 0 else d.objective x) + rho * d.penalty x := by
  have h := getQubo_energy_field d.n d.m d.Amat d.bvec d.Rmat d.Qmat d.cvec rho feas x hx.idem
  have e1 : d.quboQ rho feas = quboQ d.n d.m d.Amat d.bvec d.Rmat d.Qmat d.cvec rho feas := by
    funext i j; simp [MPData.quboQ, quboQ, sumTo_eq]
  have e2 : d.quboK rho = quboK d.m d.bvec rho := by simp [MPData.quboK, quboK, sumTo_eq]
  have e3 : d.objective x = objective d.n d.Qmat d.cvec x := by
    simp [MPData.objective, objective, quad_eq, dot_eq]
  have e4 : d.penalty x = penalty d.n d.m d.Amat d.bvec d.Rmat x := by
    simp [MPData.penalty, penalty, quad_eq, sumTo_eq, MPData.rowVal, pow_two]
  rw [e1, e2, e3, e4, quad_eq]; exact h

/-- pools built through `add_route` (see C06) satisfy this well-formedness -/
def PathWF (P : PathInst) : Prop :=
  P.costs.length = P.visited.length ∧ P.routes.length = P.costs.length ∧
  ∀ vs ∈ P.visited, ∀ k ∈ vs, k < P.g.nodes.length

/-- every arc-based variable points at existing nodes -/
theorem arc_vars_dest_lt (I : ArcInst) (hg : C15.Inv I.g) {u : ATup} (hu : u ∈ I.vars) :
    u.1 < I.g.nodes.length ∧ u.2.2.1 < I.g.nodes.length := by
  unfold ArcInst.vars at hu
  simp only [List.mem_flatMap, List.mem_filterMap] at hu
  obtain ⟨e, he, s, _, t, _, ht⟩ := hu
  obtain ⟨ni, nj, h1, h2, _⟩ := hg.filed e he
  split_ifs at ht
  simp only [Option.some.injEq] at ht
  subst ht
  exact ⟨(List.getElem?_eq_some_iff.mp h1).1, (List.getElem?_eq_some_iff.mp h2).1⟩

/-- consistent dimensions, arc-based: `A` is `len b × n`, `c` has length `n`, all indices in range
    (this is what makes `get_qubo` total on every instance; with the pinned shape inference it fails,
    see `inferShape_drops_trailing_row`) -/
theorem arc_wellShaped (I : ArcInst) (hg : C15.Inv I.g) : I.data.wellShaped = true := by
  unfold MPData.wellShaped ArcInst.data
  simp only [List.length_append, List.length_replicate, List.length_map, decide_true, Bool.true_and,
    List.all_nil, Bool.and_true, List.all_eq_true, List.mem_append, List.mem_flatMap,
    List.mem_filterMap, Bool.and_eq_true, decide_eq_true_eq]
  rintro e (⟨⟨col, u⟩, hz, he⟩ | ⟨⟨col, u⟩, hz, he⟩)
  · obtain ⟨hc, hu⟩ := mem_range_zip hz
    simp only at hc hu he
    rcases he with he | he
    · split at he
      · rename_i r hr
        simp only [List.mem_singleton] at he
        subst he
        have := idxOf?_lt hr
        simp only; omega
      · simp at he
    · split at he
      · rename_i r hr
        simp only [List.mem_singleton] at he
        subst he
        have := idxOf?_lt hr
        simp only; omega
      · simp at he
  · obtain ⟨hc, hu⟩ := mem_range_zip hz
    simp only at hc hu he
    have := (arc_vars_dest_lt I hg hu).2
    split_ifs at he with h0
    simp only [Option.some.injEq] at he
    subst he
    simp only; omega

theorem path_wellShaped (P : PathInst) (hwf : PathWF P) : P.data.wellShaped = true := by
  obtain ⟨h1, h2, h3⟩ := hwf
  unfold MPData.wellShaped PathInst.data
  simp only [List.length_replicate, decide_true, Bool.true_and, List.all_nil, Bool.and_true,
    List.all_eq_true, List.mem_flatMap, List.mem_filterMap, Bool.and_eq_true, decide_eq_true_eq]
  rintro e ⟨⟨col, vs⟩, hz, k, hk, he⟩
  obtain ⟨hc, hvs⟩ := mem_range_zip hz
  simp only at hc hvs
  rw [List.mem_eraseDups] at hk
  have := h3 vs hvs k hk
  split_ifs at he with h0
  simp only [Option.some.injEq] at he
  subst he
  simp only
  omega

theorem seq_wellShaped (I : SeqInst) (d : MPData) (h : I.data = some d) : d.wellShaped = true := by
  unfold SeqInst.data at h
  cases hqc : I.quadCons with
  | none => simp [hqc] at h
  | some R =>
    simp only [hqc, Option.some.injEq] at h
    subst h
    have hR : ∀ e ∈ R, e.1 < I.vars.length ∧ e.2 < I.vars.length := by
      obtain ⟨l, hq, _⟩ := quadCons_eq I
      rw [hq] at hqc
      exact qstep_foldl_all I _ l (fun t _ e he => quadLogic_some he) [] R (by simp) hqc
    unfold MPData.wellShaped
    simp only [Bool.and_eq_true, decide_eq_true_eq, List.all_eq_true]
    refine ⟨⟨⟨⟨trivial, ?_⟩, ?_⟩, hR⟩, ?_⟩
    · simp [SeqInst.objective]
    · intro e he
      simp only [SeqInst.linCons, List.mem_flatMap, List.mem_filterMap, Option.map_eq_some_iff] at he
      obtain ⟨⟨r, tuples⟩, hz, u, _, k, hk, rfl⟩ := he
      obtain ⟨hr, _⟩ := mem_range_zip hz
      simp only [SeqInst.linCons, List.length_map]
      exact ⟨by simpa using hr, (seq_varIndex_some hk).1⟩
    · intro e he
      simp only [SeqInst.objective, List.mem_filterMap] at he
      obtain ⟨⟨v, p, ni, nj, coeff⟩, _, he⟩ := he
      simp only at he
      split at he
      · rename_i k1 k2 h1 h2
        simp only [Option.some.injEq] at he
        subst he
        exact ⟨(seq_varIndex_some h1).1, (seq_varIndex_some h2).1⟩
      · simp at he

/-- sequence-based: with at least three positions none of the code's consistency assertions can fail,
    so the data (and hence the QUBO) exist for every graph, vehicle count and strictness -/
theorem seq_data_total (I : SeqInst) (hL : 3 ≤ I.L) : ∃ d, I.data = some d := by
  obtain ⟨l, hq, hl⟩ := quadCons_eq I
  obtain ⟨R, hR⟩ := qstep_foldl_total I l (fun t ht => by
    obtain ⟨_, h2, h3⟩ := hl t ht
    exact quadLogic_ne_none I hL _ _ _ _ h2 h3) []
  unfold SeqInst.data
  rw [hq, hR]
  exact ⟨_, rfl⟩

/-- regression of the model of the pinned rule: scipy's shape inference drops a trailing empty row
    (witness: 3 rows expected, entries only in rows 0 and 1) -/
theorem inferShape_drops_trailing_row :
    inferShape [(0, 0, 1), (1, 1, -1)] = some (2, 2) ∧ inferShape [] = none := by
  constructor
  · simp [inferShape]
  · rfl

/-! ## `get_qubo` as a partial operation: it succeeds exactly on well-shaped data, and then returns the pair
    the energy identity `getQubo_energy` speaks about -/

/-- on well-shaped data `get_qubo` returns `(quboQ ρ, quboK ρ)` for the given, else the default, weight -/
theorem getQubo_ok_eq (d : MPData) (suff : ℚ) (feas : Bool) (rho? : Option ℚ) (h : d.wellShaped = true) :
    d.getQubo suff feas rho? =
      .ok (d.quboQ (rho?.getD (defaultRho suff feas)) feas, d.quboK (rho?.getD (defaultRho suff feas))) := by
  unfold MPData.getQubo
  rw [if_pos h]

/-- the only error is the shape error, raised exactly on ill-shaped data -/
theorem getQubo_error_of_not_wellShaped (d : MPData) (suff : ℚ) (feas : Bool) (rho? : Option ℚ)
    (h : d.wellShaped = false) : d.getQubo suff feas rho? = .error Err.shape := by
  unfold MPData.getQubo
  rw [if_neg (by simp [h])]

theorem getQubo_error_iff (d : MPData) (suff : ℚ) (feas : Bool) (rho? : Option ℚ) :
    (∃ e, d.getQubo suff feas rho? = .error e) ↔ d.wellShaped = false := by
  cases h : d.wellShaped with
  | false => exact ⟨fun _ => rfl, fun _ => ⟨_, getQubo_error_of_not_wellShaped d suff feas rho? h⟩⟩
  | true =>
    rw [getQubo_ok_eq d suff feas rho? h]
    exact ⟨fun ⟨e, he⟩ => (by cases he), fun hf => (by cases hf)⟩

/-- `get_qubo` succeeds iff the data are well shaped -/
theorem getQubo_ok_iff (d : MPData) (suff : ℚ) (feas : Bool) (rho? : Option ℚ) :
    (∃ Q k, d.getQubo suff feas rho? = .ok (Q, k)) ↔ d.wellShaped = true := by
  cases h : d.wellShaped with
  | true => exact ⟨fun _ => rfl, fun _ => ⟨_, _, getQubo_ok_eq d suff feas rho? h⟩⟩
  | false =>
    rw [getQubo_error_of_not_wellShaped d suff feas rho? h]
    exact ⟨fun ⟨_, _, he⟩ => (by cases he), fun hf => (by cases hf)⟩

/-- **the energy identity for what `get_qubo` returns**: whenever the call succeeds with `(Q, k)`, for every
    binary `x`: `xᵀQx + k = objective(x) + ρ·penalty(x)` with `ρ` the given / default weight -/
theorem getQubo_ok_energy (d : MPData) (suff : ℚ) (feas : Bool) (rho? : Option ℚ) (Q : Mat) (k : ℚ)
    (h : d.getQubo suff feas rho? = .ok (Q, k)) (x : Vec) (hx : IsBin d.n x) :
    quad d.n Q x + k
      = (if feas then 0 else d.objective x) + rho?.getD (defaultRho suff feas) * d.penalty x := by
  have hw : d.wellShaped = true := (getQubo_ok_iff d suff feas rho?).1 ⟨Q, k, h⟩
  rw [getQubo_ok_eq d suff feas rho? hw] at h
  simp only [Except.ok.injEq, Prod.mk.injEq] at h
  obtain ⟨rfl, rfl⟩ := h
  exact getQubo_energy d _ feas x hx

/-- arc-based `get_qubo` is total on every consistent graph, any grid, both modes, any weight -/
theorem arc_getQubo_ok (I : ArcInst) (hg : C15.Inv I.g) (feas : Bool) (rho? : Option ℚ) :
    ∃ Q k, I.data.getQubo I.suffPenalty feas rho? = .ok (Q, k) :=
  ⟨_, _, getQubo_ok_eq I.data I.suffPenalty feas rho? (arc_wellShaped I hg)⟩

/-- path-based `get_qubo` is total on every well-formed pool (`PathWF` follows from `C06.PoolInv`, see C06b) -/
theorem path_getQubo_ok_of_wf (P : PathInst) (hwf : PathWF P) (feas : Bool) (rho? : Option ℚ) :
    ∃ Q k, P.data.getQubo P.suffPenalty feas rho? = .ok (Q, k) :=
  ⟨_, _, getQubo_ok_eq P.data P.suffPenalty feas rho? (path_wellShaped P hwf)⟩

/-- sequence-based `get_qubo` is total as soon as there are at least three positions -/
theorem seq_getQubo_ok (I : SeqInst) (hL : 3 ≤ I.L) (feas : Bool) (rho? : Option ℚ) :
    ∃ d Q k, I.data = some d ∧ d.getQubo I.suffPenalty feas rho? = .ok (Q, k) := by
  obtain ⟨d, hd⟩ := seq_data_total I hL
  exact ⟨d, _, _, hd, getQubo_ok_eq d I.suffPenalty feas rho? (seq_wellShaped I d hd)⟩

/-- non-vacuity: a two-node graph with both arcs satisfies `C15.Inv`, so the arc-based `get_qubo` on the grid
    `[0, 1, 2]` succeeds (and on ill-shaped data the call does fail) -/
def epG : Graph :=
  { nodes := [⟨"d", 0, 0, some 10⟩, ⟨"a", 1, 0, some 5⟩],
    arcs := [((0, 1), ⟨"d", "a", 1, 1⟩), ((1, 0), ⟨"a", "d", 1, 2⟩)],
    cap := some 1, init := some 1 }

theorem epG_inv : C15.Inv epG where
  nodup := by decide +kernel
  nodesOk := by decide +kernel
  keysNodup := by decide +kernel
  filed := by
    intro e he
    have : e = ((0, 1), ⟨"d", "a", 1, 1⟩) ∨ e = ((1, 0), ⟨"a", "d", 1, 2⟩) := by
      simpa [epG] using he
    rcases this with rfl | rfl
    · exact ⟨⟨"d", 0, 0, some 10⟩, ⟨"a", 1, 0, some 5⟩, by decide +kernel, by decide +kernel, rfl, rfl,
        by decide +kernel⟩
    · exact ⟨⟨"a", 1, 0, some 5⟩, ⟨"d", 0, 0, some 10⟩, by decide +kernel, by decide +kernel, rfl, rfl,
        by decide +kernel⟩

example : (∃ Q k, ({ g := epG, T := [0, 1, 2] } : ArcInst).data.getQubo
      ({ g := epG, T := [0, 1, 2] } : ArcInst).suffPenalty false none = .ok (Q, k)) ∧
    0 < ({ g := epG, T := [0, 1, 2] } : ArcInst).data.n ∧
    (∃ e, ({ n := 1, m := 1, A := [(1, 0, 1)], b := [1], R := [], c := [0], Qobj := [] } : MPData).getQubo
      0 false none = .error e) :=
  ⟨arc_getQubo_ok { g := epG, T := [0, 1, 2] } epG_inv false none, by decide +kernel,
    (getQubo_error_iff _ _ _ _).2 (by decide +kernel)⟩

end Vrp.C02
