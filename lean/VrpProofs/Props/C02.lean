import VrpModel.Program
import VrpModel.ArcBased
import VrpModel.PathBased
import VrpModel.SeqBased
import VrpProofs.Lemmas.QuboBridge

/-!
# C02 — Penalty QUBO equals objective plus weighted squared constraint violation
-/
namespace Vrp.C02
open Vrp Finset

variable {K : Type*} [Field K]

/-- `get_qubo` at the dense level, over any field -/
def quboQ (n m : ℕ) (A : ℕ → ℕ → K) (b : ℕ → K) (R Qo : ℕ → ℕ → K) (c : ℕ → K)
    (rho : K) (feas : Bool) (i j : ℕ) : K :=
  rho * (R i j + ∑ r ∈ range m, A r i * A r j + (if i = j then -2 * ∑ r ∈ range m, A r i * b r else 0))
    + (if feas then 0 else Qo i j + (if i = j then c i else 0))
def quboK (m : ℕ) (b : ℕ → K) (rho : K) : K := rho * ∑ r ∈ range m, b r * b r
def penalty (n m : ℕ) (A : ℕ → ℕ → K) (b : ℕ → K) (R : ℕ → ℕ → K) (x : ℕ → K) : K :=
  ∑ r ∈ range m, (∑ j ∈ range n, A r j * x j - b r) ^ 2 + G.quad n R x
def objective (n : ℕ) (Qo : ℕ → ℕ → K) (c : ℕ → K) (x : ℕ → K) : K :=
  ∑ i ∈ range n, c i * x i + G.quad n Qo x

/-- **generic energy identity** (any field, any data, any ρ of either sign, both modes) -/
theorem getQubo_energy_field (n m : ℕ) (A : ℕ → ℕ → K) (b : ℕ → K) (R Qo : ℕ → ℕ → K)
    (c : ℕ → K) (rho : K) (feas : Bool) (x : ℕ → K) (hx : ∀ i < n, x i * x i = x i) :
    G.quad n (quboQ n m A b R Qo c rho feas) x + quboK m b rho
      = (if feas then 0 else objective n Qo c x) + rho * penalty n m A b R x := by
  have hAA : ∑ i ∈ range n, ∑ j ∈ range n, (∑ r ∈ range m, A r i * A r j) * x i * x j
      = ∑ r ∈ range m, (∑ j ∈ range n, A r j * x j) ^ 2 := by
    have : ∀ r ∈ range m, (∑ j ∈ range n, A r j * x j) ^ 2
        = ∑ i ∈ range n, ∑ j ∈ range n, A r i * A r j * x i * x j := by
      intro r _
      rw [pow_two, Finset.sum_mul_sum]
      exact Finset.sum_congr rfl (fun i _ => Finset.sum_congr rfl (fun j _ => by ring))
    rw [Finset.sum_congr rfl this]
    calc ∑ i ∈ range n, ∑ j ∈ range n, (∑ r ∈ range m, A r i * A r j) * x i * x j
        = ∑ i ∈ range n, ∑ j ∈ range n, ∑ r ∈ range m, A r i * A r j * x i * x j := by
          refine Finset.sum_congr rfl (fun i _ => Finset.sum_congr rfl (fun j _ => ?_))
          rw [Finset.sum_mul, Finset.sum_mul]
      _ = ∑ i ∈ range n, ∑ r ∈ range m, ∑ j ∈ range n, A r i * A r j * x i * x j := by
          refine Finset.sum_congr rfl (fun i _ => ?_)
          rw [Finset.sum_comm]
      _ = ∑ r ∈ range m, ∑ i ∈ range n, ∑ j ∈ range n, A r i * A r j * x i * x j := by
          rw [Finset.sum_comm]
  have hAb : ∑ i ∈ range n, (-2 * ∑ r ∈ range m, A r i * b r) * x i
      = -2 * ∑ r ∈ range m, b r * ∑ j ∈ range n, A r j * x j := by
    simp only [Finset.mul_sum, Finset.sum_mul]
    rw [Finset.sum_comm]
    exact Finset.sum_congr rfl (fun r _ => Finset.sum_congr rfl (fun j _ => by ring))
  have hpen : penalty n m A b R x
      = ∑ r ∈ range m, (∑ j ∈ range n, A r j * x j) ^ 2
        - 2 * ∑ r ∈ range m, b r * ∑ j ∈ range n, A r j * x j
        + ∑ r ∈ range m, b r * b r + G.quad n R x := by
    unfold penalty
    have : ∀ r ∈ range m, (∑ j ∈ range n, A r j * x j - b r) ^ 2
        = (∑ j ∈ range n, A r j * x j) ^ 2 - 2 * (b r * ∑ j ∈ range n, A r j * x j) + b r * b r := by
      intro r _; ring
    rw [Finset.sum_congr rfl this, Finset.sum_add_distrib, Finset.sum_sub_distrib, ← Finset.mul_sum]
  have hsplit : G.quad n (quboQ n m A b R Qo c rho feas) x
      = rho * (G.quad n R x
          + ∑ i ∈ range n, ∑ j ∈ range n, (∑ r ∈ range m, A r i * A r j) * x i * x j
          + ∑ i ∈ range n, ∑ j ∈ range n, (if i = j then -2 * ∑ r ∈ range m, A r i * b r else 0) * x i * x j)
        + (if feas then 0 else G.quad n Qo x
          + ∑ i ∈ range n, ∑ j ∈ range n, (if i = j then c i else 0) * x i * x j) := by
    unfold G.quad quboQ
    cases feas
    · simp only [Bool.false_eq_true, if_false, Finset.mul_sum, ← Finset.sum_add_distrib]
      exact Finset.sum_congr rfl (fun i _ => Finset.sum_congr rfl (fun j _ => by ring))
    · simp only [if_true, Finset.mul_sum, ← Finset.sum_add_distrib, add_zero]
      exact Finset.sum_congr rfl (fun i _ => Finset.sum_congr rfl (fun j _ => by ring))
  rw [hsplit, G.diag_sum n _ x hx, G.diag_sum n c x hx, hAA, hAb, hpen]
  unfold quboK objective
  cases feas <;> simp <;> ring

end Vrp.C02
