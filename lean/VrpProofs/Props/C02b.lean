import VrpProofs.Props.C02
import VrpProofs.Lemmas.Relabel
import Mathlib.Tactic.Ring
/-!
# C02 (listing of the equations): order and sign of the rows of `A x = b` are immaterial

C02–C04 speak about the squared violation `‖A x − b‖²` and about the vectors that satisfy `A x = b`.  Neither changes when an
equation is multiplied by −1 or when the equations are listed in another order, so the correspondence check compares the linear
constraints as a SET of rows, each normalised to a positive leading entry (`harness/vh/vrp_util.py`, `canon_rows`).  These theorems
are the justification (any field `K`; the model computes in `ℚ`).
-/
namespace Vrp.C02
open Vrp Vrp.G Finset

variable {K : Type*} [Field K]

/-- squared violation of one equation `a · x = b` over the variables `0 … n-1` -/
def rowViolation (n : ℕ) (a : ℕ → K) (b : K) (x : ℕ → K) : K := (∑ j ∈ range n, a j * x j - b) ^ 2

/-- multiplying an equation by −1 does not change its squared violation -/
theorem rowViolation_neg (n : ℕ) (a : ℕ → K) (b : K) (x : ℕ → K) :
    rowViolation n (fun j => -a j) (-b) x = rowViolation n a b x := by
  unfold rowViolation
  have : ∑ j ∈ range n, -a j * x j = -∑ j ∈ range n, a j * x j := by
    rw [← Finset.sum_neg_distrib]; exact Finset.sum_congr rfl (fun j _ => by ring)
  rw [this]; ring

/-- … nor whether the vector satisfies it -/
theorem row_satisfied_neg (n : ℕ) (a : ℕ → K) (b : K) (x : ℕ → K) :
    (∑ j ∈ range n, -a j * x j = -b) ↔ (∑ j ∈ range n, a j * x j = b) := by
  have : ∑ j ∈ range n, -a j * x j = -∑ j ∈ range n, a j * x j := by
    rw [← Finset.sum_neg_distrib]; exact Finset.sum_congr rfl (fun j _ => by ring)
  rw [this, neg_inj]

/-- listing the `m` equations in another order does not change the total squared violation -/
theorem violation_rows_reordered {m : ℕ} {σ : Equiv.Perm ℕ} (h : Renumbering m σ) (n : ℕ) (A : ℕ → ℕ → K) (b : ℕ → K) (x : ℕ → K) :
    ∑ r ∈ range m, rowViolation n (A (σ r)) (b (σ r)) x = ∑ r ∈ range m, rowViolation n (A r) (b r) x :=
  sum_renumber h (fun r => rowViolation n (A r) (b r) x)

/-- … nor the set of vectors that satisfy all of them -/
theorem satisfied_rows_reordered {m : ℕ} {σ : Equiv.Perm ℕ} (h : Renumbering m σ) (n : ℕ) (A : ℕ → ℕ → K) (b : ℕ → K) (x : ℕ → K) :
    (∀ r, r < m → ∑ j ∈ range n, A (σ r) j * x j = b (σ r)) ↔ (∀ r, r < m → ∑ j ∈ range n, A r j * x j = b r) := by
  constructor
  · intro hh r hr
    have := hh (σ.symm r) (h.symm.lt hr)
    simpa using this
  · intro hh r hr
    exact hh (σ r) (h.lt hr)

/-- non-vacuity: a violated equation stays violated by the same amount after the sign flip -/
example : rowViolation 2 (fun j => if j = 0 then (1 : ℚ) else -1) 1 (fun _ => 1) = 1 ∧
    rowViolation 2 (fun j => -(if j = 0 then (1 : ℚ) else -1)) (-1) (fun _ => 1) = 1 := by
  constructor <;> simp [rowViolation, Finset.sum_range_succ]

end Vrp.C02
