import VrpProofs.Props.C02
import Mathlib.Algebra.Order.BigOperators.Ring.Finset
import Mathlib.Tactic.Linarith
import Mathlib.Tactic.Positivity

/-!
# C03 — Feasibility QUBO is zero exactly on the feasible set, positive elsewhere
-/
namespace Vrp.C03
open Vrp Finset

theorem default_rho_feas (suff : ℚ) : defaultRho suff true = 1 := by simp [defaultRho]

theorem Rmat_nonneg (d : MPData) (i j : ℕ) : 0 ≤ d.Rmat i j := by
  unfold MPData.Rmat; exact Nat.cast_nonneg _

theorem bin_nonneg {n : ℕ} {x : Vec} (hx : IsBin n x) {i : ℕ} (hi : i < n) : 0 ≤ x i := by
  rcases hx i hi with h | h <;> simp [h]

theorem quadR_nonneg (d : MPData) (x : Vec) (hx : IsBin d.n x) : 0 ≤ quad d.n d.Rmat x := by
  rw [quad_eq]; unfold G.quad
  refine Finset.sum_nonneg fun i hi => Finset.sum_nonneg fun j hj => ?_
  have h1 := bin_nonneg hx (Finset.mem_range.mp hi)
  have h2 := bin_nonneg hx (Finset.mem_range.mp hj)
  have h3 := Rmat_nonneg d i j
  positivity

theorem lin_nonneg (d : MPData) (x : Vec) :
    0 ≤ sumTo d.m (fun r => (d.rowVal x r - d.bvec r) * (d.rowVal x r - d.bvec r)) := by
  rw [sumTo_eq]
  exact Finset.sum_nonneg fun r _ => mul_self_nonneg _

/-- the penalty is a sum of squares plus a quadratic form with entrywise non-negative `R`
    (`Rmat` counts stored products, so it is non-negative by construction for every formulation) -/
theorem penalty_nonneg (d : MPData) (x : Vec) (hx : IsBin d.n x) : 0 ≤ d.penalty x := by
  unfold MPData.penalty
  exact add_nonneg (lin_nonneg d x) (quadR_nonneg d x hx)

/-- … and vanishes exactly on the vectors satisfying all linear and quadratic constraints -/
theorem penalty_zero_iff (d : MPData) (x : Vec) (hx : IsBin d.n x) :
    d.penalty x = 0 ↔ d.feasibleB x = true := by
  have h1 := lin_nonneg d x
  have h2 := quadR_nonneg d x hx
  have hlin : sumTo d.m (fun r => (d.rowVal x r - d.bvec r) * (d.rowVal x r - d.bvec r)) = 0
      ↔ ∀ r < d.m, d.rowVal x r = d.bvec r := by
    rw [sumTo_eq, Finset.sum_eq_zero_iff_of_nonneg (fun r _ => mul_self_nonneg _)]
    simp only [Finset.mem_range, mul_self_eq_zero, sub_eq_zero]
  unfold MPData.penalty MPData.feasibleB
  simp only [Bool.and_eq_true, List.all_eq_true, List.mem_range, decide_eq_true_eq]
  rw [← hlin]
  constructor
  · intro h; constructor <;> linarith
  · rintro ⟨a, b⟩; rw [a, b]; norm_num

/-- value of the feasibility-mode QUBO with the default penalty (= 1) is the penalty itself -/
theorem feasQubo_eq_penalty (d : MPData) (suff : ℚ) (x : Vec) (hx : IsBin d.n x) :
    quad d.n (d.quboQ (defaultRho suff true) true) x + d.quboK (defaultRho suff true) = d.penalty x := by
  rw [C02.getQubo_energy d _ true x hx, default_rho_feas]; simp

/-- **C03**: non-negative everywhere, zero exactly on the feasible set -/
theorem feasQubo_nonneg_zero_iff (d : MPData) (suff : ℚ) (x : Vec) (hx : IsBin d.n x) :
    0 ≤ quad d.n (d.quboQ (defaultRho suff true) true) x + d.quboK (defaultRho suff true) ∧
    (quad d.n (d.quboQ (defaultRho suff true) true) x + d.quboK (defaultRho suff true) = 0
      ↔ d.feasibleB x = true) := by
  rw [feasQubo_eq_penalty d suff x hx]
  exact ⟨penalty_nonneg d x hx, penalty_zero_iff d x hx⟩

/-- hence: the minimum over binary vectors is 0 iff the constrained problem is feasible -/
theorem feasQubo_min_zero_iff_feasible (d : MPData) (suff : ℚ) :
    (∃ x, IsBin d.n x ∧ quad d.n (d.quboQ (defaultRho suff true) true) x + d.quboK (defaultRho suff true) = 0)
      ↔ (∃ x, IsBin d.n x ∧ d.feasibleB x = true) := by
  constructor
  · rintro ⟨x, hx, h⟩; exact ⟨x, hx, ((feasQubo_nonneg_zero_iff d suff x hx).2).mp h⟩
  · rintro ⟨x, hx, h⟩; exact ⟨x, hx, ((feasQubo_nonneg_zero_iff d suff x hx).2).mpr h⟩

/-- the same with an arbitrary positive penalty weight -/
theorem feasQubo_pos_rho (d : MPData) (rho : ℚ) (hrho : 0 < rho) (x : Vec) (hx : IsBin d.n x) :
    0 ≤ quad d.n (d.quboQ rho true) x + d.quboK rho ∧
    (quad d.n (d.quboQ rho true) x + d.quboK rho = 0 ↔ d.feasibleB x = true) := by
  rw [C02.getQubo_energy d rho true x hx]
  simp only [if_true, zero_add]
  refine ⟨mul_nonneg hrho.le (penalty_nonneg d x hx), ?_⟩
  rw [← penalty_zero_iff d x hx, mul_eq_zero]
  constructor
  · rintro (h | h)
    · exact absurd h hrho.ne'
    · exact h
  · exact Or.inr

/-- the package's feasibility tester (`vrpqubo/test_feasibility.py`) reports no violated linear row and a zero
    quadratic measure exactly on the feasible set — hence exactly where the feasibility QUBO is zero -/
theorem testFeasibility_clean_iff (d : MPData) (x : Vec) :
    ((d.testFeasibility x).1.all (fun b => !b) = true ∧ (d.testFeasibility x).2.1 = 0) ↔ d.feasibleB x = true := by
  simp only [MPData.testFeasibility, MPData.feasibleB, List.all_map, Function.comp_def, Bool.and_eq_true,
    decide_eq_true_eq, List.all_eq_true, Bool.not_eq_true', decide_eq_false_iff_not, not_not, ne_eq]

theorem testFeasibility_clean_iff_qubo_zero (d : MPData) (suff : ℚ) (x : Vec) (hx : IsBin d.n x) :
    ((d.testFeasibility x).1.all (fun b => !b) = true ∧ (d.testFeasibility x).2.1 = 0) ↔
      quad d.n (d.quboQ (defaultRho suff true) true) x + d.quboK (defaultRho suff true) = 0 :=
  (testFeasibility_clean_iff d x).trans ((feasQubo_nonneg_zero_iff d suff x hx).2).symm

/-- one flag per linear row -/
theorem testFeasibility_length (d : MPData) (x : Vec) : (d.testFeasibility x).1.length = d.m := by
  simp [MPData.testFeasibility]

/-! ## non-vacuity -/

/-- arc-based program of the reachable graph `C15.nv_g` (depot, two customers with windows) on the grid `[0, 2, 6, 8]`:
    9 variables, 3 flow rows and 2 visit rows -/
def nv_I : ArcInst := { g := C15.nv_g, T := [0, 2, 6, 8] }

example : nv_I.data.n = 9 ∧ nv_I.data.m = 5 ∧ nv_I.data.b = [0, 0, 0, 1, 1] := by decide +kernel

/-- `d@0 → a@2 → b@6 → d@8` (one vehicle) and the all-zero vector -/
def nv_x : Vec := vecOf [1, 0, 0, 0, 1, 0, 1, 0, 0]
def nv_z : Vec := vecOf []

theorem nv_x_bin : IsBin nv_I.data.n nv_x := by unfold IsBin; decide +kernel
theorem nv_z_bin : IsBin nv_I.data.n nv_z := by unfold IsBin; decide +kernel

/-- the hypothesis of `feasQubo_nonneg_zero_iff` holds for a feasible and for an infeasible vector; both sides of
    the equivalence occur -/
example : nv_I.data.feasibleB nv_x = true ∧ nv_I.data.feasibleB nv_z = false := by decide +kernel

example : quad nv_I.data.n (nv_I.data.quboQ (defaultRho nv_I.suffPenalty true) true) nv_x
    + nv_I.data.quboK (defaultRho nv_I.suffPenalty true) = 0 :=
  (feasQubo_nonneg_zero_iff nv_I.data nv_I.suffPenalty nv_x nv_x_bin).2.2 (by decide +kernel)

example : quad nv_I.data.n (nv_I.data.quboQ (defaultRho nv_I.suffPenalty true) true) nv_z
    + nv_I.data.quboK (defaultRho nv_I.suffPenalty true) ≠ 0 := fun h =>
  absurd ((feasQubo_nonneg_zero_iff nv_I.data nv_I.suffPenalty nv_z nv_z_bin).2.1 h) (by decide +kernel)

/-- the value at the infeasible vector, by evaluation: two visit rows violated -/
example : nv_I.data.penalty nv_z = 2 ∧ (nv_I.data.testFeasibility nv_z).1 = [false, false, false, true, true] := by
  decide +kernel

/-- right-hand side of `feasQubo_min_zero_iff_feasible` -/
example : ∃ x, IsBin nv_I.data.n x ∧
    quad nv_I.data.n (nv_I.data.quboQ (defaultRho 0 true) true) x + nv_I.data.quboK (defaultRho 0 true) = 0 :=
  (feasQubo_min_zero_iff_feasible nv_I.data 0).2 ⟨nv_x, nv_x_bin, by decide +kernel⟩

end Vrp.C03
