import VrpProofs.Props.C02
import VrpProofs.Props.C03
import Mathlib.Algebra.Order.BigOperators.Group.Finset
import Mathlib.Algebra.Order.BigOperators.Ring.Finset
import VrpProofs.Lemmas.Penalty
import Mathlib.Tactic.Linarith

/-!
# C04 — Default penalty is exact: QUBO minimisers are the constrained optima
-/
namespace Vrp.C04
open Vrp

/-- sum of the absolute values of all objective coefficients -/
def absSum (d : MPData) : ℚ :=
  sumTo d.n (fun i => absR (d.cvec i)) + sumTo d.n (fun i => sumTo d.n fun j => absR (d.Qmat i j))

/-- `A` and `b` are integer valued (true for all three formulations: entries ±1, right-hand sides
    `0`, `1` or `1 − Σ fixed values`) -/
def Integral (d : MPData) : Prop :=
  (∀ e ∈ d.A, ∃ z : ℤ, e.2.2 = (z : ℚ)) ∧ (∀ r, ∃ z : ℤ, d.bvec r = (z : ℚ))

/-- value of the optimisation-mode QUBO with the default penalty `suff + 1` -/
def optValue (d : MPData) (suff : ℚ) (x : Vec) : ℚ :=
  quad d.n (d.quboQ (defaultRho suff false) false) x + d.quboK (defaultRho suff false)

/-! ### helper lemmas -/

theorem penalty_isInt (d : MPData) (hint : Integral d) (x : Vec) (hx : IsBin d.n x) :
    IsInt (d.penalty x) := by
  have hA : ∀ r j, IsInt (d.Amat r j) := fun r j => IsInt.cooEntry hint.1 r j
  have hrow : ∀ r, IsInt (d.rowVal x r - d.bvec r) := fun r =>
    (IsInt.sumTo fun j hj => (hA r j).mul (IsInt.of_bin hx hj)).sub (hint.2 r)
  unfold MPData.penalty quad
  refine (IsInt.sumTo fun r _ => (hrow r).mul (hrow r)).add ?_
  exact IsInt.sumTo fun i hi => IsInt.sumTo fun j hj =>
    ((IsInt.natCast _).mul (IsInt.of_bin hx hi)).mul (IsInt.of_bin hx hj)

theorem absSum_eq (d : MPData) :
    absSum d = ∑ i ∈ Finset.range d.n, |d.cvec i|
      + ∑ i ∈ Finset.range d.n, ∑ j ∈ Finset.range d.n, |d.Qmat i j| := by
  simp only [absSum, sumTo_eq, absR_eq]

theorem absSum_nonneg (d : MPData) : 0 ≤ absSum d := by
  rw [absSum_eq]
  exact add_nonneg (Finset.sum_nonneg fun _ _ => abs_nonneg _)
    (Finset.sum_nonneg fun _ _ => Finset.sum_nonneg fun _ _ => abs_nonneg _)

theorem objective_eq (d : MPData) (x : Vec) :
    d.objective x = ∑ i ∈ Finset.range d.n, d.cvec i * x i
      + ∑ i ∈ Finset.range d.n, ∑ j ∈ Finset.range d.n, d.Qmat i j * x i * x j := by
  simp only [MPData.objective, dot_eq, quad_eq, G.quad]

theorem optValue_eq (d : MPData) (suff : ℚ) (x : Vec) (hx : IsBin d.n x) :
    optValue d suff x = d.objective x + (suff + 1) * d.penalty x := by
  unfold optValue
  rw [C02.getQubo_energy d _ false x hx]
  simp [defaultRho]

/-! ## the property theorems -/

/-- with integral data a violated constraint costs at least 1 -/
theorem penalty_ge_one (d : MPData) (hint : Integral d) (x : Vec) (hx : IsBin d.n x)
    (hinf : d.feasibleB x = false) : 1 ≤ d.penalty x := by
  refine (penalty_isInt d hint x hx).one_le (C03.penalty_nonneg d x hx) ?_
  intro h0
  rw [(C03.penalty_zero_iff d x hx).1 h0] at hinf
  exact Bool.noConfusion hinf

/-- two binary vectors differ in objective by at most the sum of the absolute coefficients -/
theorem obj_diff_le (d : MPData) (x y : Vec) (hx : IsBin d.n x) (hy : IsBin d.n y) :
    d.objective y - d.objective x ≤ absSum d := by
  rw [objective_eq, objective_eq, absSum_eq]
  have h1 : ∑ i ∈ Finset.range d.n, d.cvec i * y i - ∑ i ∈ Finset.range d.n, d.cvec i * x i
      ≤ ∑ i ∈ Finset.range d.n, |d.cvec i| := by
    rw [← Finset.sum_sub_distrib]
    apply Finset.sum_le_sum
    intro i hi
    have hi' := Finset.mem_range.1 hi
    have a := abs_nonneg (d.cvec i); have b := le_abs_self (d.cvec i); have c := neg_le_abs (d.cvec i)
    rcases hx i hi' with h | h <;> rcases hy i hi' with h' | h' <;> rw [h, h'] <;> linarith
  have h2 : ∑ i ∈ Finset.range d.n, ∑ j ∈ Finset.range d.n, d.Qmat i j * y i * y j
        - ∑ i ∈ Finset.range d.n, ∑ j ∈ Finset.range d.n, d.Qmat i j * x i * x j
      ≤ ∑ i ∈ Finset.range d.n, ∑ j ∈ Finset.range d.n, |d.Qmat i j| := by
    rw [← Finset.sum_sub_distrib]
    apply Finset.sum_le_sum
    intro i hi
    rw [← Finset.sum_sub_distrib]
    apply Finset.sum_le_sum
    intro j hj
    have hi' := Finset.mem_range.1 hi
    have hj' := Finset.mem_range.1 hj
    have a := abs_nonneg (d.Qmat i j); have b := le_abs_self (d.Qmat i j); have c := neg_le_abs (d.Qmat i j)
    rcases hx i hi' with h | h <;> rcases hy i hi' with h' | h' <;>
    rcases hx j hj' with g | g <;> rcases hy j hj' with g' | g' <;> rw [h, h', g, g'] <;> linarith
  linarith

/-- **exact penalty (Proposition 1 of the paper)**: if the formulation's sufficient value bounds the sum
    of absolute objective coefficients, the data are integral and the constrained program is feasible, then
    the minimisers of the default-penalty QUBO over all binary vectors are exactly the constrained optima -/
theorem default_penalty_exact (d : MPData) (hint : Integral d) (suff : ℚ) (hs : absSum d ≤ suff)
    (hex : ∃ y, IsBin d.n y ∧ d.feasibleB y = true) (x : Vec) (hx : IsBin d.n x) :
    (∀ z, IsBin d.n z → optValue d suff x ≤ optValue d suff z)
      ↔ (d.feasibleB x = true ∧ ∀ z, IsBin d.n z → d.feasibleB z = true → d.objective x ≤ d.objective z) := by
  have hS := absSum_nonneg d
  have hpen0 : ∀ x, IsBin d.n x → d.feasibleB x = true → d.penalty x = 0 :=
    fun x hx h => (C03.penalty_zero_iff d x hx).2 h
  have hpen1 : ∀ x, IsBin d.n x → ¬ d.feasibleB x = true → 1 ≤ d.penalty x :=
    fun x hx h => penalty_ge_one d hint x hx (by simpa using h)
  constructor
  · intro hmin
    obtain ⟨y, hy, hfy⟩ := hex
    have hfx : d.feasibleB x = true := by
      by_contra hnf
      have h1 := hpen1 x hx hnf
      have h2 := hmin y hy
      rw [optValue_eq d suff x hx, optValue_eq d suff y hy, hpen0 y hy hfy] at h2
      have h3 := obj_diff_le d x y hx hy
      nlinarith
    refine ⟨hfx, fun z hz hfz => ?_⟩
    have := hmin z hz
    rw [optValue_eq d suff x hx, optValue_eq d suff z hz, hpen0 x hx hfx, hpen0 z hz hfz] at this
    linarith
  · rintro ⟨hfx, hopt⟩ z hz
    rw [optValue_eq d suff x hx, optValue_eq d suff z hz, hpen0 x hx hfx]
    by_cases hfz : d.feasibleB z = true
    · rw [hpen0 z hz hfz]; have := hopt z hz hfz; linarith
    · have h1 := hpen1 z hz hfz
      have h3 := obj_diff_le d z x hz hx
      nlinarith

/-- … and the minimum QUBO value equals the optimal cost -/
theorem default_penalty_min_value (d : MPData) (hint : Integral d) (suff : ℚ) (hs : absSum d ≤ suff)
    (hex : ∃ y, IsBin d.n y ∧ d.feasibleB y = true) (x : Vec) (hx : IsBin d.n x)
    (hmin : ∀ z, IsBin d.n z → optValue d suff x ≤ optValue d suff z) :
    optValue d suff x = d.objective x := by
  have hf := ((default_penalty_exact d hint suff hs hex x hx).1 hmin).1
  rw [optValue_eq d suff x hx, (C03.penalty_zero_iff d x hx).2 hf]
  ring

/-! ### the three formulations meet the hypotheses, for every instance state (hence also for every state
the feasibility heuristic can produce, at any high cost, and for negative costs) -/

theorem integral_of_isInt (d : MPData) (hA : ∀ e ∈ d.A, IsInt e.2.2) (hb : ∀ q ∈ d.b, IsInt q) :
    Integral d := ⟨hA, fun r => IsInt.vecOf hb r⟩

theorem arc_integral (I : ArcInst) : Integral I.data := by
  apply integral_of_isInt
  · intro e he
    simp only [ArcInst.data] at he
    rw [List.mem_append] at he
    rcases he with he | he
    · obtain ⟨⟨col, u⟩, _, h⟩ := List.mem_flatMap.1 he
      rw [List.mem_append] at h
      rcases h with h | h
      · split at h
        · rw [List.mem_singleton] at h; subst h; exact ⟨-1, by simp⟩
        · simp at h
      · split at h
        · rw [List.mem_singleton] at h; subst h; exact ⟨1, by simp⟩
        · simp at h
    · obtain ⟨⟨col, u⟩, _, h⟩ := List.mem_filterMap.1 he
      split_ifs at h
      simp only [Option.some.injEq] at h
      subst h; exact ⟨1, by simp⟩
  · intro q hq
    simp only [ArcInst.data, List.mem_append, List.mem_replicate] at hq
    rcases hq with ⟨_, rfl⟩ | ⟨_, rfl⟩
    · exact IsInt.zero
    · exact IsInt.one

theorem path_integral (P : PathInst) : Integral P.data := by
  apply integral_of_isInt
  · intro e he
    simp only [PathInst.data] at he
    obtain ⟨⟨col, vs⟩, _, h⟩ := List.mem_flatMap.1 he
    obtain ⟨k, _, h⟩ := List.mem_filterMap.1 h
    split_ifs at h
    simp only [Option.some.injEq] at h
    subst h; exact ⟨1, by simp⟩
  · intro q hq
    simp only [PathInst.data, List.mem_replicate] at hq
    rw [hq.2]; exact IsInt.one

theorem fixed_getD_bin (I : SeqInst) (p n : Nat) :
    (I.fixed p n).getD 0 = 0 ∨ (I.fixed p n).getD 0 = 1 := by
  unfold SeqInst.fixed
  split_ifs <;> simp

theorem seq_data_fields (I : SeqInst) (d : MPData) (h : I.data = some d) :
    d.n = I.vars.length ∧ d.A = I.linCons.1 ∧ d.b = I.linCons.2 ∧ d.c = I.objective.1
      ∧ d.Qobj = I.objective.2 := by
  unfold SeqInst.data at h
  split at h
  · simp at h
  · simp only [Option.some.injEq] at h
    subst h
    exact ⟨rfl, rfl, rfl, rfl, rfl⟩

theorem seq_integral (I : SeqInst) (d : MPData) (h : I.data = some d) : Integral d := by
  obtain ⟨_, hA, hb, _, _⟩ := seq_data_fields I d h
  apply integral_of_isInt
  · intro e he
    rw [hA] at he
    simp only [SeqInst.linCons] at he
    obtain ⟨⟨r, tuples⟩, _, h⟩ := List.mem_flatMap.1 he
    obtain ⟨u, _, h⟩ := List.mem_filterMap.1 h
    obtain ⟨k, _, h⟩ := Option.map_eq_some_iff.1 h
    subst h; exact ⟨1, by simp⟩
  · intro q hq
    rw [hb] at hq
    simp only [SeqInst.linCons] at hq
    obtain ⟨tuples, _, rfl⟩ := List.mem_map.1 hq
    refine IsInt.one.sub (IsInt.sumList ?_)
    intro q hq
    obtain ⟨u, _, rfl⟩ := List.mem_map.1 hq
    split
    · exact IsInt.zero
    · rcases fixed_getD_bin I u.2.1 u.2.2 with h | h <;> rw [h]
      · exact IsInt.zero
      · exact IsInt.one

/-- with no bilinear objective the coefficient sum is the sum of the absolute linear coefficients -/
theorem absSum_lin (d : MPData) (hQ : d.Qobj = []) (hn : d.n = d.c.length) :
    absSum d = (d.c.map fun q => |q|).sum := by
  unfold absSum
  have h2 : sumTo d.n (fun i => sumTo d.n fun j => absR (d.Qmat i j)) = 0 := by
    simp [MPData.Qmat, cooEntry, hQ, sumList, sumTo_eq, absR_eq]
  rw [h2, add_zero, hn]
  show sumTo d.c.length (fun i => absR (d.c.getD i 0)) = _
  simp only [absR_eq]
  exact sumTo_getD d.c (fun q => |q|)

theorem winLoop_length_le (T : List ℚ) (lo : ℚ) (hi : ERat) : (winLoop T lo hi).length ≤ T.length := by
  induction T with
  | nil => simp [winLoop]
  | cons s rest ih =>
    unfold winLoop
    split_ifs
    · exact Nat.le_succ_of_le ih
    · simp
    · simpa using ih

theorem length_flatMap_le {α β : Type*} (l : List α) (f : α → List β) (B : ℕ)
    (h : ∀ a ∈ l, (f a).length ≤ B) : (l.flatMap f).length ≤ l.length * B := by
  induction l with
  | nil => simp
  | cons a l ih =>
    rw [List.flatMap_cons, List.length_append, List.length_cons, Nat.succ_mul]
    have := h a List.mem_cons_self
    have := ih fun b hb => h b (List.mem_cons_of_mem _ hb)
    omega

theorem dictGet_of_mem (d : List (Key × Arc)) (hnd : (d.map (·.1)).Nodup) (e : Key × Arc) (he : e ∈ d) :
    dictGet d e.1 = some e.2 := by
  induction d with
  | nil => simp at he
  | cons e' rest ih =>
    rw [List.map_cons, List.nodup_cons] at hnd
    rcases List.mem_cons.1 he with rfl | he'
    · simp [dictGet]
    · have hne : e'.1 ≠ e.1 := fun h => hnd.1 (h ▸ List.mem_map_of_mem he')
      have := ih hnd.2 he'
      simp only [dictGet] at this ⊢
      rw [List.find?_cons_of_neg (by simpa using hne)]
      exact this

/-- the variables created for arc `e` -/
def arcBlock (I : ArcInst) (e : Key × Arc) : List ATup :=
  (winLoop I.T (I.g.lo e.1.1) (I.g.hi e.1.1)).flatMap fun s =>
    (winLoop I.T (I.g.lo e.1.2) (I.g.hi e.1.2)).filterMap fun t =>
      if t < s + e.2.time then none else some (e.1.1, s, e.1.2, t)

theorem arc_vars_eq (I : ArcInst) : I.vars = I.g.arcs.flatMap (arcBlock I) := rfl

theorem arcBlock_length_le (I : ArcInst) (e : Key × Arc) :
    (arcBlock I e).length ≤ I.T.length * I.T.length := by
  unfold arcBlock
  refine (length_flatMap_le _ _ I.T.length fun s _ => ?_).trans
    (Nat.mul_le_mul_right _ (winLoop_length_le _ _ _))
  exact (List.length_filterMap_le _ _).trans (winLoop_length_le _ _ _)

theorem mem_arcBlock (I : ArcInst) (e : Key × Arc) (u : ATup) (hu : u ∈ arcBlock I e) :
    u.1 = e.1.1 ∧ u.2.2.1 = e.1.2 := by
  unfold arcBlock at hu
  obtain ⟨s, _, h⟩ := List.mem_flatMap.1 hu
  obtain ⟨t, _, h⟩ := List.mem_filterMap.1 h
  split_ifs at h
  simp only [Option.some.injEq] at h
  subst h
  exact ⟨rfl, rfl⟩

/-- arc-based: each arc owns at most `|T|²` variables, each with coefficient the arc's cost -/
theorem arc_suff_ge_coeffs (I : ArcInst) (hg : C15.Inv I.g) : absSum I.data ≤ I.suffPenalty := by
  rw [absSum_lin I.data rfl (by simp [ArcInst.data])]
  show ((I.vars.map fun u => ((I.g.arc? u.1 u.2.2.1).map (·.cost)).getD 0).map fun q => |q|).sum ≤ _
  rw [List.map_map, arc_vars_eq, sum_flatMap_map]
  unfold ArcInst.suffPenalty
  rw [sumList_eq, ← List.sum_map_mul_right]
  refine sum_map_le_sum_map _ _ _ fun e he => ?_
  have hconst : ∀ u ∈ arcBlock I e,
      ((fun q : ℚ => |q|) ∘ fun u : ATup => ((I.g.arc? u.1 u.2.2.1).map (·.cost)).getD 0) u
        = |e.2.cost| := by
    intro u hu
    obtain ⟨h1, h2⟩ := mem_arcBlock I e u hu
    have : I.g.arc? u.1 u.2.2.1 = some e.2 := by
      rw [h1, h2]; exact dictGet_of_mem I.g.arcs hg.keysNodup e he
    simp [this]
  rw [sum_map_const_of_mem _ _ _ hconst]
  simp only [absR_eq]
  have hlen : ((arcBlock I e).length : ℚ) ≤ (I.T.length : ℚ) * (I.T.length : ℚ) := by
    exact_mod_cast arcBlock_length_le I e
  have := abs_nonneg e.2.cost
  nlinarith

/-- path-based: the bound is the sum of absolute route costs -/
theorem path_suff_ge_coeffs (P : PathInst) : absSum P.data ≤ P.suffPenalty := by
  rw [absSum_lin P.data rfl rfl]
  unfold PathInst.suffPenalty
  rw [sumList_eq]
  apply le_of_eq
  show (P.costs.map fun q => |q|).sum = _
  congr 1
  exact List.map_congr_left fun q _ => (absR_eq q).symm

/-! #### sequence-based -/

/-- the `(v, p, ni, nj, coeff)` terms of `build_objective` -/
def seqTerms (I : SeqInst) : List (Nat × Nat × Nat × Nat × ℚ) :=
  (List.range I.V).flatMap fun v =>
    (List.range (I.L - 1)).flatMap fun p =>
      I.g.arcs.map fun e => (v, p, e.1.1, e.1.2, e.2.cost + I.vc v)

def seqLinF (I : SeqInst) : (Nat × Nat × Nat × Nat × ℚ) → Option (Nat × ℚ) :=
  fun (v, p, ni, nj, coeff) =>
    match I.varIndex (v, p, ni), I.varIndex (v, p + 1, nj) with
    | none, some k2 => some (k2, coeff * (I.fixed p ni).getD 0)
    | some k1, none => some (k1, coeff * (I.fixed (p + 1) nj).getD 0)
    | _, _ => none

def seqQuadF (I : SeqInst) : (Nat × Nat × Nat × Nat × ℚ) → Option (Nat × Nat × ℚ) :=
  fun (v, p, ni, nj, coeff) =>
    match I.varIndex (v, p, ni), I.varIndex (v, p + 1, nj) with
    | some k1, some k2 => some (k1, k2, coeff)
    | _, _ => none

def seqLin (I : SeqInst) : List (Nat × ℚ) := (seqTerms I).filterMap (seqLinF I)
def seqQuad (I : SeqInst) : List (Nat × Nat × ℚ) := (seqTerms I).filterMap (seqQuadF I)

theorem seq_objective_eq (I : SeqInst) :
    I.objective = ((List.range I.vars.length).map fun k =>
        sumList (((seqLin I).filter fun e => e.1 = k).map (·.2)), seqQuad I) := rfl

/-- every term feeds at most one coefficient, with magnitude at most `|coeff|` -/
theorem seq_term_le (I : SeqInst) (t : Nat × Nat × Nat × Nat × ℚ) :
    (seqLinF I t).elim 0 (fun y => |y.2|) + (seqQuadF I t).elim 0 (fun y => |y.2.2|) ≤ |t.2.2.2.2| := by
  obtain ⟨v, p, ni, nj, coeff⟩ := t
  simp only [seqLinF, seqQuadF]
  cases h1 : I.varIndex (v, p, ni) <;> cases h2 : I.varIndex (v, p + 1, nj) <;> simp only []
  · simp
  · rcases fixed_getD_bin I p ni with h | h <;> simp [h]
  · rcases fixed_getD_bin I (p + 1) nj with h | h <;> simp [h]
  · simp

theorem seq_terms_sum (I : SeqInst) :
    ((seqTerms I).map fun t => |t.2.2.2.2|).sum
      = ((I.L - 1 : ℕ) : ℚ) * ((List.range I.V).map fun v =>
          (I.g.arcs.map fun e => |e.2.cost + I.vc v|).sum).sum := by
  unfold seqTerms
  rw [sum_flatMap_map, ← List.sum_map_mul_left]
  congr 1
  apply List.map_congr_left
  intro v _
  rw [sum_flatMap_map]
  simp only [List.map_map, Function.comp_def]
  simp

set_option linter.unusedVariables false in
/-- sequence-based (repaired bound): every `(vehicle, position, arc)` contributes to at most one coefficient,
    with magnitude at most `|cost + surcharge_v|`, and there are `L − 1 ≤ L` positions -/
theorem seq_suff_ge_coeffs (I : SeqInst) (d : MPData) (h : I.data = some d) (hg : C15.Inv I.g) :
    absSum d ≤ I.suffPenalty := by
  obtain ⟨hn, _, _, hc, hQ⟩ := seq_data_fields I d h
  rw [seq_objective_eq] at hc hQ
  simp only at hc hQ
  rw [absSum_eq]
  -- linear part
  have hlin : ∑ i ∈ Finset.range d.n, |d.cvec i| ≤ ((seqLin I).map fun e => |e.2|).sum := by
    refine le_trans (le_of_eq ?_) (sum_abs_keyed_le (seqLin I) d.n)
    refine Finset.sum_congr rfl fun i hi => ?_
    have hi' : i < I.vars.length := hn ▸ Finset.mem_range.1 hi
    simp [MPData.cvec, vecOf, hc, hi']
  have hquad : ∑ i ∈ Finset.range d.n, ∑ j ∈ Finset.range d.n, |d.Qmat i j|
      ≤ ((seqQuad I).map fun e => |e.2.2|).sum := by
    unfold MPData.Qmat; rw [hQ]
    exact sum_abs_cooEntry_le (seqQuad I) d.n
  have hterms : ((seqLin I).map fun e => |e.2|).sum + ((seqQuad I).map fun e => |e.2.2|).sum
      ≤ ((seqTerms I).map fun t => |t.2.2.2.2|).sum := by
    unfold seqLin seqQuad
    rw [sum_filterMap_map, sum_filterMap_map, ← List.sum_map_add]
    exact sum_map_le_sum_map _ _ _ fun t _ => seq_term_le I t
  have hS : 0 ≤ ((List.range I.V).map fun v => (I.g.arcs.map fun e => |e.2.cost + I.vc v|).sum).sum :=
    sum_map_nonneg _ _ fun v _ => sum_map_nonneg _ _ fun e _ => abs_nonneg _
  have hsuff : I.suffPenalty = (I.L : ℚ) * ((List.range I.V).map fun v =>
      (I.g.arcs.map fun e => |e.2.cost + I.vc v|).sum).sum := by
    unfold SeqInst.suffPenalty
    rw [sumList_eq]
    have := sum_flatMap_map (List.range I.V)
      (fun v => I.g.arcs.map fun e => absR (e.2.cost + I.vc v)) id
    simp only [List.map_id_fun, id_eq] at this
    rw [this]
    simp only [absR_eq]
  rw [hsuff]
  rw [seq_terms_sum] at hterms
  have hL : ((I.L - 1 : ℕ) : ℚ) ≤ (I.L : ℚ) := by exact_mod_cast Nat.sub_le _ _
  have := mul_le_mul_of_nonneg_right hL hS
  linarith

theorem exists_some_of_check {α : Type*} (o : Option α) (P : α → Prop) [DecidablePred P]
    (h : (match o with | some d => decide (P d) | none => false) = true) : ∃ d, o = some d ∧ P d := by
  cases o with
  | none => simp at h
  | some d => exact ⟨d, rfl, by simpa using h⟩

/-- regression of the model of the pinned bound `L·V·Σ|cost|`: with a dummy vehicle of surcharge 1000 it is
    far below the coefficient sum (depot + one customer, arcs D→1, 1→D of cost 1, D→D, V = 1, L = 3) -/
theorem seq_pinned_bound_fails :
    let g : Graph := { nodes := [⟨"D", 0, 0, none⟩, ⟨"a", 0, 0, none⟩],
                       arcs := [((0, 1), ⟨"D", "a", 0, 1⟩), ((1, 0), ⟨"a", "D", 0, 1⟩), ((0, 0), ⟨"D", "D", 0, 0⟩)] }
    let I : SeqInst := { g := g, strict := false, V := 1, L := 3, vcost := [1000] }
    ∃ d, I.data = some d ∧ I.suffPenaltyPinned < absSum d ∧ absSum d ≤ I.suffPenalty := by
  intro g I
  apply exists_some_of_check
  decide +kernel

/-- **C04 for the three formulations** -/
theorem arc_default_penalty_exact (I : ArcInst) (hg : C15.Inv I.g)
    (hex : ∃ y, IsBin I.data.n y ∧ I.data.feasibleB y = true) (x : Vec) (hx : IsBin I.data.n x) :
    (∀ z, IsBin I.data.n z → optValue I.data I.suffPenalty x ≤ optValue I.data I.suffPenalty z)
      ↔ (I.data.feasibleB x = true ∧
          ∀ z, IsBin I.data.n z → I.data.feasibleB z = true → I.data.objective x ≤ I.data.objective z) :=
  default_penalty_exact I.data (arc_integral I) I.suffPenalty (arc_suff_ge_coeffs I hg) hex x hx

theorem path_default_penalty_exact (P : PathInst)
    (hex : ∃ y, IsBin P.data.n y ∧ P.data.feasibleB y = true) (x : Vec) (hx : IsBin P.data.n x) :
    (∀ z, IsBin P.data.n z → optValue P.data P.suffPenalty x ≤ optValue P.data P.suffPenalty z)
      ↔ (P.data.feasibleB x = true ∧
          ∀ z, IsBin P.data.n z → P.data.feasibleB z = true → P.data.objective x ≤ P.data.objective z) :=
  default_penalty_exact P.data (path_integral P) P.suffPenalty (path_suff_ge_coeffs P) hex x hx

theorem seq_default_penalty_exact (I : SeqInst) (d : MPData) (h : I.data = some d) (hg : C15.Inv I.g)
    (hex : ∃ y, IsBin d.n y ∧ d.feasibleB y = true) (x : Vec) (hx : IsBin d.n x) :
    (∀ z, IsBin d.n z → optValue d I.suffPenalty x ≤ optValue d I.suffPenalty z)
      ↔ (d.feasibleB x = true ∧ ∀ z, IsBin d.n z → d.feasibleB z = true → d.objective x ≤ d.objective z) :=
  default_penalty_exact d (seq_integral I d h) I.suffPenalty (seq_suff_ge_coeffs I d h hg) hex x hx

/-! ## non-vacuity -/

/-! arc-based: `C03.nv_I` (reachable graph `C15.nv_g`, grid `[0, 2, 6, 8]`, 9 variables) -/

/-- hypotheses of `arc_default_penalty_exact`: consistent graph, a feasible binary vector, a binary `x` -/
theorem nv_arc_hex : ∃ y, IsBin C03.nv_I.data.n y ∧ C03.nv_I.data.feasibleB y = true :=
  ⟨C03.nv_x, C03.nv_x_bin, by decide +kernel⟩

/-- hypotheses of `default_penalty_exact` proper on the same data, checked directly -/
example : Integral C03.nv_I.data ∧ absSum C03.nv_I.data ≤ C03.nv_I.suffPenalty ∧
    absSum C03.nv_I.data = 16 ∧ C03.nv_I.suffPenalty = 128 :=
  ⟨arc_integral _, arc_suff_ge_coeffs _ C15.nv_inv, by decide +kernel, by decide +kernel⟩

/-- a concrete conclusion: the infeasible all-zero vector is not a minimiser of the default-penalty QUBO, and the
    feasible `C03.nv_x` has QUBO value equal to its cost 4 -/
example : ¬ ∀ z, IsBin C03.nv_I.data.n z →
    optValue C03.nv_I.data C03.nv_I.suffPenalty C03.nv_z ≤ optValue C03.nv_I.data C03.nv_I.suffPenalty z := fun h =>
  absurd ((arc_default_penalty_exact C03.nv_I C15.nv_inv nv_arc_hex C03.nv_z C03.nv_z_bin).1 h).1 (by decide +kernel)

example : optValue C03.nv_I.data C03.nv_I.suffPenalty C03.nv_x = 4 := by
  rw [optValue_eq _ _ _ C03.nv_x_bin]; decide +kernel

/-! path-based: pool obtained through `add_route` on the same graph with capacity 3 -/
def nv_P : PathInst :=
  ((((({ g := { C15.nv_g with cap := some 3, init := some 3 } } : PathInst).addRoute
    [.name "d", .name "a", .name "b", .name "d"]).1.addRoute [.idx 0, .idx 1, .idx 0]).1.addRoute
    [.idx 0, .idx 2, .idx 1, .idx 0]).1.addRoute [.idx 0, .idx 2, .idx 0]).1

/-- three routes accepted (`d-b-a-d` refused), two rows -/
example : nv_P.routes = [[0, 1, 2, 0], [0, 1, 0], [0, 2, 0]] ∧ nv_P.costs = [4, 2, 5] ∧ nv_P.data.m = 2 := by
  decide +kernel

theorem nv_path_bin : IsBin nv_P.data.n (vecOf [0, 1, 1]) := by unfold IsBin; decide +kernel

/-- hypotheses of `path_default_penalty_exact`; conclusion: selecting all three routes is not a QUBO minimiser -/
theorem nv_path_hex : ∃ y, IsBin nv_P.data.n y ∧ nv_P.data.feasibleB y = true :=
  ⟨vecOf [0, 1, 1], nv_path_bin, by decide +kernel⟩

example : ¬ ∀ z, IsBin nv_P.data.n z →
    optValue nv_P.data nv_P.suffPenalty (vecOf [1, 1, 1]) ≤ optValue nv_P.data nv_P.suffPenalty z := fun h =>
  absurd ((path_default_penalty_exact nv_P nv_path_hex (vecOf [1, 1, 1]) (by unfold IsBin; decide +kernel)).1 h).1
    (by decide +kernel)

/-! sequence-based: constructor on the same graph, one vehicle, four positions (6 free variables) -/
def nv_S : SeqInst := ((SeqInst.new C15.nv_g false).setMaxVehicles 1).setMaxSeqLen 4

/-- `I.data = some d` by evaluation -/
def nv_Sd : MPData := nv_S.data.get (by decide +kernel)
theorem nv_S_data : nv_S.data = some nv_Sd := (Option.some_get _).symm

theorem nv_S_inv : C15.Inv nv_S.g := C15.nv_inv_of_invB _ (by decide +kernel)

/-- walk `d, a, b, d` -/
def nv_Sx : Vec := vecOf [0, 1, 0, 0, 0, 1]

example : nv_Sd.n = 6 ∧ nv_Sd.m = 4 ∧ nv_Sd.R.length = 5 ∧ nv_Sd.objective nv_Sx = 4 := by decide +kernel

theorem nv_Sx_bin : IsBin nv_Sd.n nv_Sx := by unfold IsBin; decide +kernel

/-- hypotheses of `seq_default_penalty_exact`; conclusion: the walk `d, b, a, d` (forbidden pair `b → a`) is not a
    QUBO minimiser -/
theorem nv_seq_hex : ∃ y, IsBin nv_Sd.n y ∧ nv_Sd.feasibleB y = true := ⟨nv_Sx, nv_Sx_bin, by decide +kernel⟩

example : ¬ ∀ z, IsBin nv_Sd.n z →
    optValue nv_Sd nv_S.suffPenalty (vecOf [0, 0, 1, 0, 1, 0]) ≤ optValue nv_Sd nv_S.suffPenalty z := fun h =>
  absurd ((seq_default_penalty_exact nv_S nv_Sd nv_S_data nv_S_inv nv_seq_hex (vecOf [0, 0, 1, 0, 1, 0])
    (by unfold IsBin; decide +kernel)).1 h).1 (by decide +kernel)

end Vrp.C04
