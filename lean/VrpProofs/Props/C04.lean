import VrpProofs.Props.C02

namespace Vrp.C04
open Vrp

/-- placeholder until the property theorems are merged -/
theorem default_rho_feas (suff : ℚ) : defaultRho suff true = 1 := by simp [defaultRho]

end Vrp.C04
