import VrpModel.ArcBased
import VrpModel.SeqBased
import VrpProofs.Props.C18

namespace Vrp.C05
open Vrp

/-- placeholder until the property theorems are merged -/
theorem placeholder_true : True := trivial

end Vrp.C05
