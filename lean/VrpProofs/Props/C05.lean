import VrpModel.ArcBased
import VrpProofs.Props.C18
import VrpProofs.Props.C02
import VrpProofs.Props.C04
import VrpProofs.Lemmas.ArcRows

/-!
# C05 — Arc-based constraints describe exactly the time-feasible route sets (part 1: local form, objective)
-/
namespace Vrp.C05
open Vrp

/-- the moves `(i, s, j, t)` selected by `x`, in variable order -/
def sel (I : ArcInst) (x : Vec) : List ATup :=
  (List.range I.vars.length).filterMap fun k => if x k = 1 then I.vars[k]? else none

def arcCost (g : Graph) (i j : ℕ) : ℚ := ((g.arc? i j).map (·.cost)).getD 0

/-- standing assumptions on the instance: sorted duplicate-free grid (what `add_time_points` produces from a
    duplicate-free input) and a self-consistent graph -/
structure WF (I : ArcInst) : Prop where
  sorted : I.T.Pairwise (· ≤ ·)
  nodup : I.T.Nodup
  graph : C15.Inv I.g

/-- the constraint system in words: every customer is arrived at exactly once, and at every customer
    `(c, s)` the number of selected arrivals equals the number of selected departures -/
def Local (I : ArcInst) (x : Vec) : Prop :=
  (∀ c, 1 ≤ c → c < I.g.nodes.length → ((sel I x).filter fun u => u.2.2.1 = c).length = 1) ∧
  (∀ c s, 1 ≤ c → c < I.g.nodes.length →
    ((sel I x).filter fun u => u.2.2.1 = c ∧ u.2.2.2 = s).length
      = ((sel I x).filter fun u => u.1 = c ∧ u.2.1 = s).length)

/-! ## helper lemmas -/

theorem sel_eq_selFrom (I : ArcInst) (x : Vec) : sel I x = selFrom 0 I.vars x :=
  filterMap_range_eq_selFrom I.vars x

theorem vars_nodup (I : ArcInst) (hw : WF I) : I.vars.Nodup :=
  C18.arc_vars_nodup I hw.sorted hw.nodup hw.graph

theorem mem_sel (I : ArcInst) (x : Vec) (u : ATup) :
    u ∈ sel I x ↔ ∃ k, x k = 1 ∧ I.vars[k]? = some u := by
  unfold sel
  simp only [List.mem_filterMap, List.mem_range]
  constructor
  · rintro ⟨k, _, h⟩
    split_ifs at h with hx
    exact ⟨k, hx, h⟩
  · rintro ⟨k, hx, h⟩
    exact ⟨k, (List.getElem?_eq_some_iff.mp h).1, by simp [hx, h]⟩

theorem sel_subset_vars (I : ArcInst) (x : Vec) {u : ATup} (h : u ∈ sel I x) : u ∈ I.vars := by
  obtain ⟨k, _, hk⟩ := (mem_sel I x u).1 h
  exact List.mem_of_getElem? hk

/-- both endpoints of a variable lie in the window scan of their node -/
theorem vars_mem_win (I : ArcInst) {u : ATup} (hu : u ∈ I.vars) :
    u.2.1 ∈ winLoop I.T (I.g.lo u.1) (I.g.hi u.1) ∧
    u.2.2.2 ∈ winLoop I.T (I.g.lo u.2.2.1) (I.g.hi u.2.2.1) := by
  unfold ArcInst.vars at hu
  simp only [List.mem_flatMap, List.mem_filterMap] at hu
  obtain ⟨e, _, s, hs, t, ht, h⟩ := hu
  split_ifs at h
  simp only [Option.some.injEq] at h
  subst h
  exact ⟨hs, ht⟩

theorem mem_flowKeys (I : ArcInst) (c : ℕ) (s : ℚ) :
    (c, s) ∈ I.flowKeys ↔ 1 ≤ c ∧ c < I.g.nodes.length ∧ s ∈ winLoop I.T (I.g.lo c) (I.g.hi c) := by
  unfold ArcInst.flowKeys
  simp only [List.mem_flatMap, List.mem_range, List.mem_map, Prod.mk.injEq]
  constructor
  · rintro ⟨k, hk, s', hs', rfl, rfl⟩
    exact ⟨by omega, by omega, hs'⟩
  · rintro ⟨h1, h2, hs⟩
    refine ⟨c - 1, by omega, s, ?_, by omega, rfl⟩
    rw [show c - 1 + 1 = c by omega]
    exact hs

theorem flowKeys_nodup (I : ArcInst) (hw : WF I) : I.flowKeys.Nodup := by
  unfold ArcInst.flowKeys
  rw [List.nodup_flatMap]
  constructor
  · intro k _
    exact List.Nodup.map (fun a b h => by simpa using h) (winLoop_nodup _ _ _ hw.nodup)
  · refine List.Pairwise.imp ?_ (List.nodup_range (n := I.g.nodes.length - 1))
    intro k k' hne p hp hp'
    simp only [List.mem_map] at hp hp'
    obtain ⟨s, _, rfl⟩ := hp
    obtain ⟨s', _, h⟩ := hp'
    simp only [Prod.mk.injEq] at h
    omega

/-! ### the rows of `A` -/

/-- flow triples contributed by variable `p.2` in column `p.1` -/
def flowF (fk : List (ℕ × ℚ)) (p : ℕ × ATup) : List (ℕ × ℕ × ℚ) :=
  (match idxOf? fk (p.2.1, p.2.2.1) with | some r => [(r, p.1, (-1 : ℚ))] | none => []) ++
  (match idxOf? fk (p.2.2.2.1, p.2.2.2.2) with | some r => [(r, p.1, (1 : ℚ))] | none => [])

/-- visit triple contributed by variable `p.2` in column `p.1` -/
def visitF (nflow : ℕ) (p : ℕ × ATup) : Option (ℕ × ℕ × ℚ) :=
  if p.2.2.2.1 = 0 then none else some (nflow + (p.2.2.2.1 - 1), p.1, (1 : ℚ))

theorem data_A (I : ArcInst) :
    I.data.A = (idxFrom 0 I.vars).flatMap (flowF I.flowKeys)
      ++ (idxFrom 0 I.vars).filterMap (visitF I.flowKeys.length) := by
  rw [← range_zip_eq_idxFrom]
  rfl

/-- coefficient of variable `u` in row `r` -/
def rowW (I : ArcInst) (r : ℕ) (u : ATup) : ℚ :=
  (if idxOf? I.flowKeys (u.2.2.1, u.2.2.2) = some r then 1 else 0)
    - (if idxOf? I.flowKeys (u.1, u.2.1) = some r then 1 else 0)
    + (if u.2.2.1 ≠ 0 ∧ I.flowKeys.length + (u.2.2.1 - 1) = r then 1 else 0)

theorem rowW_entry (I : ArcInst) (r : ℕ) (x : Vec) (p : ℕ × ATup) :
    ((flowF I.flowKeys p).map fun e => if e.1 = r then e.2.2 * x e.2.1 else 0).sum
      + (visitF I.flowKeys.length p).elim 0 (fun e => if e.1 = r then e.2.2 * x e.2.1 else 0)
    = rowW I r p.2 * x p.1 := by
  obtain ⟨k, i, s, j, t⟩ := p
  unfold flowF visitF rowW
  simp only
  cases h1 : idxOf? I.flowKeys (i, s) <;> cases h2 : idxOf? I.flowKeys (j, t) <;>
    by_cases hj : j = 0 <;> simp [hj] <;> split_ifs <;> ring

theorem data_cols_lt (I : ArcInst) (hw : WF I) : ∀ e ∈ I.data.A, e.2.1 < I.vars.length := by
  have h := C02.arc_wellShaped I hw.graph
  unfold MPData.wellShaped at h
  simp only [Bool.and_eq_true, List.all_eq_true, decide_eq_true_eq] at h
  intro e he
  exact (h.1.1.2 e he).2

/-- for a 0/1 vector, the value of row `r` is the sum of the row coefficients of the selected moves -/
theorem rowVal_eq (I : ArcInst) (hw : WF I) (x : Vec) (hx : IsBin I.data.n x) (r : ℕ) :
    I.data.rowVal x r = ((sel I x).map (rowW I r)).sum := by
  have hn : I.data.n = I.vars.length := rfl
  unfold MPData.rowVal MPData.Amat
  rw [sumTo_eq, hn, sum_cooEntry_mul _ _ (data_cols_lt I hw), data_A, List.map_append, List.sum_append,
    sum_flatMap_map, sum_filterMap_map, ← List.sum_map_add]
  rw [List.map_congr_left (fun p _ => rowW_entry I r x p), sel_eq_selFrom]
  exact sum_idx_mul_eq_sel 0 I.vars x (fun k _ hk => hx k (by rw [hn]; omega)) (rowW I r)

/-- value of the flow-conservation row of `(c, s)`: selected arrivals minus selected departures -/
theorem rowVal_flow (I : ArcInst) (hw : WF I) (x : Vec) (hx : IsBin I.data.n x) (r c : ℕ) (s : ℚ)
    (hr : I.flowKeys[r]? = some (c, s)) :
    I.data.rowVal x r = (((sel I x).filter fun u => u.2.2.1 = c ∧ u.2.2.2 = s).length : ℚ)
      - (((sel I x).filter fun u => u.1 = c ∧ u.2.1 = s).length : ℚ) := by
  rw [rowVal_eq I hw x hx]
  have hlt : r < I.flowKeys.length := (List.getElem?_eq_some_iff.mp hr).1
  have hW : ∀ u : ATup, rowW I r u
      = (if u.2.2.1 = c ∧ u.2.2.2 = s then 1 else 0) - (if u.1 = c ∧ u.2.1 = s then 1 else 0) := by
    intro u
    unfold rowW
    have h3 : ¬ (u.2.2.1 ≠ 0 ∧ I.flowKeys.length + (u.2.2.1 - 1) = r) := by omega
    have e1 : (idxOf? I.flowKeys (u.2.2.1, u.2.2.2) = some r) ↔ (u.2.2.1 = c ∧ u.2.2.2 = s) := by
      rw [idxOf?_eq_some_iff _ (flowKeys_nodup I hw), hr, Option.some.injEq, Prod.ext_iff]
      exact ⟨fun h => ⟨h.1.symm, h.2.symm⟩, fun h => ⟨h.1.symm, h.2.symm⟩⟩
    have e2 : (idxOf? I.flowKeys (u.1, u.2.1) = some r) ↔ (u.1 = c ∧ u.2.1 = s) := by
      rw [idxOf?_eq_some_iff _ (flowKeys_nodup I hw), hr]
      simp [eq_comm]
    rw [if_neg h3, add_zero, if_congr e1 rfl rfl, if_congr e2 rfl rfl]
  rw [List.map_congr_left (fun u _ => hW u), sum_map_sub', sum_ite_eq_length_filter,
    sum_ite_eq_length_filter]

/-- value of the visit row of customer `k + 1`: selected arrivals at that customer -/
theorem rowVal_visit (I : ArcInst) (hw : WF I) (x : Vec) (hx : IsBin I.data.n x) (k : ℕ) :
    I.data.rowVal x (I.flowKeys.length + k)
      = (((sel I x).filter fun u => u.2.2.1 = k + 1).length : ℚ) := by
  rw [rowVal_eq I hw x hx]
  have hW : ∀ u : ATup, rowW I (I.flowKeys.length + k) u = (if u.2.2.1 = k + 1 then 1 else 0) := by
    intro u
    unfold rowW
    have h1 : ¬ idxOf? I.flowKeys (u.2.2.1, u.2.2.2) = some (I.flowKeys.length + k) := by
      intro h; have := idxOf?_lt h; omega
    have h2 : ¬ idxOf? I.flowKeys (u.1, u.2.1) = some (I.flowKeys.length + k) := by
      intro h; have := idxOf?_lt h; omega
    have e3 : (u.2.2.1 ≠ 0 ∧ I.flowKeys.length + (u.2.2.1 - 1) = I.flowKeys.length + k)
        ↔ u.2.2.1 = k + 1 := by omega
    rw [if_neg h1, if_neg h2, sub_zero, zero_add, if_congr e3 rfl rfl]
  rw [List.map_congr_left (fun u _ => hW u), sum_ite_eq_length_filter]

theorem data_m (I : ArcInst) : I.data.m = I.flowKeys.length + (I.g.nodes.length - 1) := rfl

theorem bvec_flow (I : ArcInst) (r : ℕ) (h : r < I.flowKeys.length) : I.data.bvec r = 0 := by
  show vecOf (List.replicate I.flowKeys.length 0 ++ List.replicate (I.g.nodes.length - 1) 1) r = 0
  simp [vecOf, List.getD_eq_getElem?_getD, List.getElem?_append, h]

theorem bvec_visit (I : ArcInst) (k : ℕ) (h : k < I.g.nodes.length - 1) :
    I.data.bvec (I.flowKeys.length + k) = 1 := by
  show vecOf (List.replicate I.flowKeys.length 0 ++ List.replicate (I.g.nodes.length - 1) 1)
    (I.flowKeys.length + k) = 1
  simp [vecOf, List.getD_eq_getElem?_getD, h]

theorem feasible_iff_rows (I : ArcInst) (x : Vec) :
    I.data.feasibleB x = true ↔ ∀ r < I.data.m, I.data.rowVal x r = I.data.bvec r := by
  have hq : quad I.data.n I.data.Rmat x = 0 := by
    have : I.data.Rmat = fun _ _ => 0 := by funext i j; simp [MPData.Rmat, ArcInst.data]
    rw [this]; simp [quad, sumTo_eq]
  unfold MPData.feasibleB
  simp [hq]

/-! ## property theorems -/

theorem sel_mem_iff (I : ArcInst) (hw : WF I) (x : Vec) (u : ATup) :
    u ∈ sel I x ↔ ∃ k, I.varIndex u = some k ∧ x k = 1 := by
  rw [mem_sel]
  constructor
  · rintro ⟨k, hx, hk⟩
    exact ⟨k, (C18.arc_index_tuple_inverse I hw.sorted hw.nodup hw.graph u k).2 hk, hx⟩
  · rintro ⟨k, hk, hx⟩
    exact ⟨k, hx, (C18.arc_index_tuple_inverse I hw.sorted hw.nodup hw.graph u k).1 hk⟩

theorem sel_nodup (I : ArcInst) (hw : WF I) (x : Vec) : (sel I x).Nodup := by
  unfold sel
  refine List.Nodup.filterMap ?_ List.nodup_range
  intro k k' u hu hu'
  simp only [Option.mem_def] at hu hu'
  split_ifs at hu hu'
  have h1 := (C18.arc_index_tuple_inverse I hw.sorted hw.nodup hw.graph u k).2 hu
  have h2 := (C18.arc_index_tuple_inverse I hw.sorted hw.nodup hw.graph u k').2 hu'
  rw [h1] at h2
  exact Option.some.inj h2

/-- every selected move is an admissible decision: existing arc, both times on the grid inside the
    respective windows, departure + travel ≤ arrival -/
theorem sel_admissible (I : ArcInst) (hw : WF I) (x : Vec) (u : ATup) (h : u ∈ sel I x) :
    I.admissible u = true :=
  (C18.arc_vars_mem_iff_admissible I hw.sorted hw.graph u).1 (sel_subset_vars I x h)

/-- **the linear constraints say exactly: visit every customer once, conserve flow at every (customer, time)** -/
theorem arc_feasible_iff_local (I : ArcInst) (hw : WF I) (x : Vec) (hx : IsBin I.data.n x) :
    I.data.feasibleB x = true ↔ Local I x := by
  rw [feasible_iff_rows, data_m]
  constructor
  · intro h
    refine ⟨?_, ?_⟩
    · intro c hc1 hc2
      have hrow := h (I.flowKeys.length + (c - 1)) (by omega)
      rw [rowVal_visit I hw x hx, bvec_visit I (c - 1) (by omega), show c - 1 + 1 = c by omega] at hrow
      exact_mod_cast hrow
    · intro c s hc1 hc2
      by_cases hmem : (c, s) ∈ I.flowKeys
      · obtain ⟨r, hr⟩ := List.getElem?_of_mem hmem
        have hlt : r < I.flowKeys.length := (List.getElem?_eq_some_iff.mp hr).1
        have hrow := h r (by omega)
        rw [rowVal_flow I hw x hx r c s hr, bvec_flow I r hlt, sub_eq_zero] at hrow
        exact_mod_cast hrow
      · have h1 : ((sel I x).filter fun u => u.2.2.1 = c ∧ u.2.2.2 = s) = [] := by
          rw [List.filter_eq_nil_iff]
          intro u hu hc
          simp only [decide_eq_true_eq] at hc
          apply hmem
          have := (vars_mem_win I (sel_subset_vars I x hu)).2
          rw [hc.1, hc.2] at this
          exact (mem_flowKeys I c s).2 ⟨hc1, hc2, this⟩
        have h2 : ((sel I x).filter fun u => u.1 = c ∧ u.2.1 = s) = [] := by
          rw [List.filter_eq_nil_iff]
          intro u hu hc
          simp only [decide_eq_true_eq] at hc
          apply hmem
          have := (vars_mem_win I (sel_subset_vars I x hu)).1
          rw [hc.1, hc.2] at this
          exact (mem_flowKeys I c s).2 ⟨hc1, hc2, this⟩
        rw [h1, h2]
  · rintro ⟨hv, hf⟩ r hr
    by_cases hlt : r < I.flowKeys.length
    · obtain ⟨⟨c, s⟩, hcs⟩ : ∃ p, I.flowKeys[r]? = some p := ⟨_, List.getElem?_eq_getElem hlt⟩
      have hmem := (mem_flowKeys I c s).1 (List.mem_of_getElem? hcs)
      rw [rowVal_flow I hw x hx r c s hcs, bvec_flow I r hlt, hf c s hmem.1 hmem.2.1, sub_self]
    · obtain ⟨k, rfl⟩ : ∃ k, r = I.flowKeys.length + k := ⟨r - I.flowKeys.length, by omega⟩
      have hk : k < I.g.nodes.length - 1 := by omega
      rw [rowVal_visit I hw x hx, bvec_visit I k hk, hv (k + 1) (by omega) (by omega)]
      norm_num

set_option linter.unusedVariables false in
/-- **objective = summed cost of the arcs used** (holds without `hw`; the hypothesis is kept for uniformity) -/
theorem arc_objective_eq_cost (I : ArcInst) (hw : WF I) (x : Vec) (hx : IsBin I.data.n x) :
    I.data.objective x = ((sel I x).map fun u => arcCost I.g u.1 u.2.2.1).sum := by
  have hn : I.data.n = I.vars.length := rfl
  have hq : quad I.data.n I.data.Qmat x = 0 := by
    have : I.data.Qmat = fun _ _ => 0 := by
      funext i j; simp [MPData.Qmat, ArcInst.data, cooEntry_nil]
    rw [this]; simp [quad, sumTo_eq]
  have hc : I.data.cvec = fun k => (I.vars.map fun u => arcCost I.g u.1 u.2.2.1).getD k 0 := rfl
  unfold MPData.objective
  rw [hq, add_zero, dot_eq, hn, hc, sel_eq_selFrom,
    ← sum_idx_mul_eq_sel 0 I.vars x (fun k _ hk => hx k (by rw [hn]; omega))]
  have h := sum_range_getD_eq 0 I.vars (fun u => arcCost I.g u.1 u.2.2.1) x
  simp only [Nat.zero_add] at h
  exact h

/-! ## non-vacuity -/

/-- the instance `C03.nv_I` (reachable graph `C15.nv_g`: depot + two customers with windows), its grid obtained
    through `add_time_points` from an unsorted list -/
def nv_I : ArcInst := ({ g := C15.nv_g, T := [] } : ArcInst).addTimePoints [6, 0, 8, 2]

example : nv_I.T = [0, 2, 6, 8] ∧ nv_I.T = C03.nv_I.T ∧ nv_I.g = C03.nv_I.g := ⟨by decide +kernel, by decide +kernel, rfl⟩

/-- the standing assumption `WF` of every theorem of C05 / C05b / C05c holds -/
theorem nv_wf : WF nv_I := ⟨by decide +kernel, by decide +kernel, C15.nv_inv⟩

/-- `d@0 → a@2 → b@6 → d@8` -/
def nv_x : Vec := vecOf [1, 0, 0, 0, 1, 0, 1, 0, 0]
theorem nv_x_bin : IsBin nv_I.data.n nv_x := by unfold IsBin; decide +kernel

example : nv_I.data.n = 9 ∧ sel nv_I nv_x = [(0, 0, 1, 2), (1, 2, 2, 6), (2, 6, 0, 8)] := by decide +kernel

/-- `arc_feasible_iff_local`, `sel_admissible`, `arc_objective_eq_cost` instantiated -/
example : Local nv_I nv_x := (arc_feasible_iff_local nv_I nv_wf nv_x nv_x_bin).1 (by decide +kernel)

example : nv_I.admissible (1, 2, 2, 6) = true := sel_admissible nv_I nv_wf nv_x _ (by decide +kernel)

example : nv_I.data.objective nv_x = 4 := by
  rw [arc_objective_eq_cost nv_I nv_wf nv_x nv_x_bin]; decide +kernel

/-- the other side of the equivalence is inhabited too: dropping the last move breaks flow conservation at `(b, 6)` -/
example : ¬ Local nv_I (vecOf [1, 0, 0, 0, 1]) := fun h =>
  absurd ((arc_feasible_iff_local nv_I nv_wf _ (by unfold IsBin; decide +kernel)).2 h) (by decide +kernel)

end Vrp.C05
