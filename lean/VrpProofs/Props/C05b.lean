import VrpProofs.Props.C05
import VrpProofs.Lemmas.ArcChainProto

/-!
# C05 (part 2) — selected moves form depot-to-depot routes; completeness
-/
namespace Vrp.C05
open Vrp

/-- `b` continues `a`: it leaves the node `a` arrived at, at `a`'s arrival time -/
def Linked (a b : ATup) : Prop := b.1 = a.2.2.1 ∧ b.2.1 = a.2.2.2

/-- consecutive moves of a list are linked and only the last one may arrive at the depot -/
def IsChain : List ATup → Prop
  | [] => True
  | [_] => True
  | a :: b :: rest => Linked a b ∧ a.2.2.1 ≠ 0 ∧ IsChain (b :: rest)

/-- a depot-to-depot route: non-empty chain that starts at the depot and ends at the depot -/
def IsDepotRoute (r : List ATup) : Prop :=
  ∃ h : r ≠ [], IsChain r ∧ (r.head h).1 = 0 ∧ (r.getLast h).2.2.1 = 0

/-- customer-to-customer travel times are positive (hypothesis of the property) -/
def PosTimes (g : Graph) : Prop := ∀ e ∈ g.arcs, e.1.1 ≠ 0 → e.1.2 ≠ 0 → 0 < e.2.time

/-! ## helper lemmas -/

theorem filter_length_one_unique {α : Type} (l : List α) (p : α → Bool) (h : (l.filter p).length = 1) :
    ∃ a ∈ l, p a = true ∧ ∀ b ∈ l, p b = true → b = a := by
  obtain ⟨a, ha⟩ := List.length_eq_one_iff.1 h
  have hmem : a ∈ l.filter p := by rw [ha]; simp
  rw [List.mem_filter] at hmem
  refine ⟨a, hmem.1, hmem.2, fun b hb hp => ?_⟩
  have : b ∈ l.filter p := List.mem_filter.2 ⟨hb, hp⟩
  rw [ha] at this; simpa using this

theorem filter_length_le_of_imp {α : Type} (l : List α) (p q : α → Bool) (h : ∀ a, p a = true → q a = true) :
    (l.filter p).length ≤ (l.filter q).length :=
  (List.monotone_filter_right l h).length_le

/-- what admissibility of a move gives: both endpoints are nodes, the arc is stored and
    departure + travel time ≤ arrival -/
theorem admissible_facts (I : ArcInst) (hw : WF I) (u : ATup) (h : I.admissible u = true) :
    u.1 < I.g.nodes.length ∧ u.2.2.1 < I.g.nodes.length ∧
    ∃ a, ((u.1, u.2.2.1), a) ∈ I.g.arcs ∧ u.2.1 + a.time ≤ u.2.2.2 := by
  have hv := (C18.arc_vars_mem_iff_admissible I hw.sorted hw.graph u).2 h
  obtain ⟨h1, h2⟩ := C02.arc_vars_dest_lt I hw.graph hv
  refine ⟨h1, h2, ?_⟩
  unfold ArcInst.admissible at h
  cases harc : I.g.arc? u.1 u.2.2.1 with
  | none => simp [harc] at h
  | some a =>
    simp only [harc, Bool.and_eq_true, decide_eq_true_eq] at h
    exact ⟨a, (dictGet_eq_some_iff _ hw.graph.keysNodup _ _).1 harc, h.2⟩

/-! ### forward and backward chains inside a list of moves -/

/-- forward half: following successors from any move of `S` ends with a move into the depot -/
theorem fwd_chain (S : List ATup)
    (hsucc : ∀ m ∈ S, m.2.2.1 ≠ 0 → ∃ m' ∈ S, Linked m m')
    (hlt : ∀ u ∈ S, u.1 ≠ 0 → u.2.2.1 ≠ 0 → u.2.1 < u.2.2.2) :
    ∀ m ∈ S, ∃ r, IsChain (m :: r) ∧ ((m :: r).getLast (List.cons_ne_nil _ _)).2.2.1 = 0 ∧
      ∀ u ∈ r, u ∈ S := by
  suffices ∀ n : ℕ, ∀ m ∈ S, (S.filter fun u => m.2.2.2 < u.2.2.2).length = n →
      ∃ r, IsChain (m :: r) ∧ ((m :: r).getLast (List.cons_ne_nil _ _)).2.2.1 = 0 ∧ ∀ u ∈ r, u ∈ S from
    fun m hm => this _ m hm rfl
  intro n
  induction n using Nat.strong_induction_on with
  | _ n ih =>
    intro m hm hn
    by_cases hj : m.2.2.1 = 0
    · exact ⟨[], trivial, by simpa using hj, by simp⟩
    obtain ⟨m', hm', hlink⟩ := hsucc m hm hj
    by_cases hj' : m'.2.2.1 = 0
    · refine ⟨[m'], ⟨hlink, hj, trivial⟩, by simpa using hj', ?_⟩
      intro u hu
      rw [List.mem_singleton] at hu
      exact hu ▸ hm'
    have hlt' : m.2.2.2 < m'.2.2.2 := by
      have := hlt m' hm' (by rw [hlink.1]; exact hj) hj'
      rw [hlink.2] at this
      exact this
    have hcard : (S.filter fun u => m'.2.2.2 < u.2.2.2).length < n := by
      rw [← hn]
      have hsub : (S.filter fun u => m'.2.2.2 < u.2.2.2).length
          = ((S.filter fun u => m.2.2.2 < u.2.2.2).filter fun u => m'.2.2.2 < u.2.2.2).length := by
        rw [List.filter_filter]
        congr 1
        apply List.filter_congr
        intro u _
        by_cases h : m'.2.2.2 < u.2.2.2
        · simp [h, lt_trans hlt' h]
        · simp [h]
      rw [hsub]
      have hmem : m' ∈ S.filter fun u => m.2.2.2 < u.2.2.2 := by simp [List.mem_filter, hm', hlt']
      have := List.length_filter_lt_length_iff_exists
        (l := S.filter fun u => m.2.2.2 < u.2.2.2) (p := fun u => decide (m'.2.2.2 < u.2.2.2))
      exact this.2 ⟨m', hmem, by simp⟩
    obtain ⟨r, hch, hlast, hall⟩ := ih _ hcard m' hm' rfl
    refine ⟨m' :: r, ⟨hlink, hj, hch⟩, ?_, ?_⟩
    · rw [List.getLast_cons (List.cons_ne_nil _ _)]
      exact hlast
    · intro u hu
      rcases List.mem_cons.1 hu with rfl | hu
      · exact hm'
      · exact hall u hu

/-- backward half: a chain that starts with a move of `S` can be extended backwards, inside `S`, to a chain
    that starts at the depot -/
theorem bwd_chain (S : List ATup)
    (hpred : ∀ m ∈ S, m.1 ≠ 0 → ∃ m' ∈ S, Linked m' m)
    (hlt : ∀ u ∈ S, u.1 ≠ 0 → u.2.2.1 ≠ 0 → u.2.1 < u.2.2.2) :
    ∀ m ∈ S, ∀ tl : List ATup, IsChain (m :: tl) → (∀ u ∈ tl, u ∈ S) →
      ∃ r, ∃ h : r ≠ [], IsChain r ∧ (r.head h).1 = 0 ∧
        r.getLast h = (m :: tl).getLast (List.cons_ne_nil _ _) ∧ (m :: tl) <:+ r ∧ ∀ u ∈ r, u ∈ S := by
  suffices ∀ n : ℕ, ∀ m ∈ S, (S.filter fun u => u.2.1 < m.2.1).length = n →
      ∀ tl : List ATup, IsChain (m :: tl) → (∀ u ∈ tl, u ∈ S) →
      ∃ r, ∃ h : r ≠ [], IsChain r ∧ (r.head h).1 = 0 ∧
        r.getLast h = (m :: tl).getLast (List.cons_ne_nil _ _) ∧ (m :: tl) <:+ r ∧ ∀ u ∈ r, u ∈ S from
    fun m hm => this _ m hm rfl
  intro n
  induction n using Nat.strong_induction_on with
  | _ n ih =>
    intro m hm hn tl hch hall
    have hallm : ∀ u ∈ m :: tl, u ∈ S := by
      intro u hu
      rcases List.mem_cons.1 hu with rfl | hu
      · exact hm
      · exact hall u hu
    by_cases hi : m.1 = 0
    · exact ⟨m :: tl, List.cons_ne_nil _ _, hch, by simpa using hi, rfl, List.suffix_refl _, hallm⟩
    obtain ⟨m', hm', hlink⟩ := hpred m hm hi
    have hj' : m'.2.2.1 ≠ 0 := by rw [← hlink.1]; exact hi
    have hch' : IsChain (m' :: m :: tl) := ⟨hlink, hj', hch⟩
    by_cases hi' : m'.1 = 0
    · refine ⟨m' :: m :: tl, List.cons_ne_nil _ _, hch', by simpa using hi', ?_, List.suffix_cons _ _, ?_⟩
      · rw [List.getLast_cons (List.cons_ne_nil _ _)]
      · intro u hu
        rcases List.mem_cons.1 hu with rfl | hu
        · exact hm'
        · exact hallm u hu
    have hlt' : m'.2.1 < m.2.1 := by
      have := hlt m' hm' hi' hj'
      rw [← hlink.2] at this
      exact this
    have hcard : (S.filter fun u => u.2.1 < m'.2.1).length < n := by
      rw [← hn]
      have hsub : (S.filter fun u => u.2.1 < m'.2.1).length
          = ((S.filter fun u => u.2.1 < m.2.1).filter fun u => u.2.1 < m'.2.1).length := by
        rw [List.filter_filter]
        congr 1
        apply List.filter_congr
        intro u _
        by_cases h : u.2.1 < m'.2.1
        · simp [h, lt_trans h hlt']
        · simp [h]
      rw [hsub]
      have hmem : m' ∈ S.filter fun u => u.2.1 < m.2.1 := by simp [List.mem_filter, hm', hlt']
      have := List.length_filter_lt_length_iff_exists
        (l := S.filter fun u => u.2.1 < m.2.1) (p := fun u => decide (u.2.1 < m'.2.1))
      exact this.2 ⟨m', hmem, by simp⟩
    obtain ⟨r, hne, hchr, hhead, hlast, hsuf, hallr⟩ := ih _ hcard m' hm' rfl (m :: tl) hch' hallm
    refine ⟨r, hne, hchr, hhead, ?_, ?_, hallr⟩
    · rw [hlast, List.getLast_cons (List.cons_ne_nil _ _)]
    · exact (List.suffix_cons _ _).trans hsuf

/-! ### flow balance along a chain -/

theorem chain_balance (c : ℕ) (s : ℚ) : ∀ (r : List ATup) (a : ATup), IsChain (a :: r) →
    (a :: r).countP (fun u => u.2.2.1 = c ∧ u.2.2.2 = s) + (if a.1 = c ∧ a.2.1 = s then 1 else 0)
      = (a :: r).countP (fun u => u.1 = c ∧ u.2.1 = s)
        + (if ((a :: r).getLast (List.cons_ne_nil _ _)).2.2.1 = c ∧
              ((a :: r).getLast (List.cons_ne_nil _ _)).2.2.2 = s then 1 else 0) := by
  intro r
  induction r with
  | nil =>
    intro a _
    simp only [List.countP_cons, List.countP_nil, List.getLast_singleton, decide_eq_true_eq]
    by_cases h1 : a.2.2.1 = c ∧ a.2.2.2 = s <;> by_cases h2 : a.1 = c ∧ a.2.1 = s <;> simp [h1, h2]
  | cons b r ih =>
    intro a h
    obtain ⟨hlink, _, hch⟩ := h
    have hb := ih b hch
    have e : (b.1 = c ∧ b.2.1 = s) ↔ (a.2.2.1 = c ∧ a.2.2.2 = s) := by rw [hlink.1, hlink.2]
    rw [List.getLast_cons (List.cons_ne_nil _ _)]
    rw [List.countP_cons (a := a) (l := b :: r), List.countP_cons (a := a) (l := b :: r)]
    simp only [decide_eq_true_eq]
    simp only [e] at hb
    by_cases h1 : a.2.2.1 = c ∧ a.2.2.2 = s <;> by_cases h2 : a.1 = c ∧ a.2.1 = s <;>
      simp only [h1, h2, ↓reduceIte] at hb ⊢ <;> omega

/-- in a depot-to-depot route, arrivals and departures balance at every (customer, time) -/
theorem route_balance (c : ℕ) (s : ℚ) (hc : c ≠ 0) (r : List ATup) (hr : IsDepotRoute r) :
    r.countP (fun u => u.2.2.1 = c ∧ u.2.2.2 = s) = r.countP (fun u => u.1 = c ∧ u.2.1 = s) := by
  obtain ⟨hne, hch, hhead, hlast⟩ := hr
  cases r with
  | nil => exact absurd rfl hne
  | cons a r =>
    have h := chain_balance c s r a hch
    simp only [List.head_cons] at hhead
    have h1 : ¬ (a.1 = c ∧ a.2.1 = s) := fun h => hc (h.1 ▸ hhead)
    have h2 : ¬ (((a :: r).getLast (List.cons_ne_nil _ _)).2.2.1 = c ∧
              ((a :: r).getLast (List.cons_ne_nil _ _)).2.2.2 = s) := fun h => hc (h.1 ▸ hlast)
    rw [if_neg h1, if_neg h2] at h
    simpa using h

theorem routes_balance (c : ℕ) (s : ℚ) (hc : c ≠ 0) (routes : List (List ATup))
    (hr : ∀ r ∈ routes, IsDepotRoute r) :
    routes.flatten.countP (fun u => u.2.2.1 = c ∧ u.2.2.2 = s)
      = routes.flatten.countP (fun u => u.1 = c ∧ u.2.1 = s) := by
  induction routes with
  | nil => simp
  | cons r rs ih =>
    rw [List.flatten_cons, List.countP_append, List.countP_append,
      ih (fun r' hr' => hr r' (List.mem_cons_of_mem _ hr')),
      route_balance c s hc r (hr r List.mem_cons_self)]

/-! ## property theorems -/

/-- the successor of a selected move that arrives at a customer is unique, and exists -/
theorem arc_succ_exists_unique (I : ArcInst) (hw : WF I) (x : Vec) (hl : Local I x) (m : ATup)
    (hm : m ∈ sel I x) (hj : m.2.2.1 ≠ 0) :
    ∃ m' ∈ sel I x, Linked m m' ∧ ∀ m'' ∈ sel I x, Linked m m'' → m'' = m' := by
  obtain ⟨_, hc, _⟩ := admissible_facts I hw m (sel_admissible I hw x m hm)
  have hc1 : 1 ≤ m.2.2.1 := Nat.one_le_iff_ne_zero.2 hj
  have hin : ((sel I x).filter fun u => u.2.2.1 = m.2.2.1 ∧ u.2.2.2 = m.2.2.2).length = 1 := by
    apply le_antisymm
    · rw [← hl.1 m.2.2.1 hc1 hc]
      apply filter_length_le_of_imp
      intro a ha
      simp only [decide_eq_true_eq] at ha ⊢
      exact ha.1
    · apply List.length_pos_of_mem (a := m)
      simp [List.mem_filter, hm]
  have hout := hl.2 m.2.2.1 m.2.2.2 hc1 hc
  rw [hin] at hout
  obtain ⟨m', hm', hp, huniq⟩ := filter_length_one_unique _ _ hout.symm
  simp only [decide_eq_true_eq] at hp huniq
  exact ⟨m', hm', hp, fun m'' hm'' hl'' => huniq m'' hm'' hl''⟩

/-- the predecessor of a selected move that leaves a customer is unique, and exists -/
theorem arc_pred_exists_unique (I : ArcInst) (hw : WF I) (x : Vec) (hl : Local I x) (m : ATup)
    (hm : m ∈ sel I x) (hi : m.1 ≠ 0) :
    ∃ m' ∈ sel I x, Linked m' m ∧ ∀ m'' ∈ sel I x, Linked m'' m → m'' = m' := by
  obtain ⟨hc, _, _⟩ := admissible_facts I hw m (sel_admissible I hw x m hm)
  have hc1 : 1 ≤ m.1 := Nat.one_le_iff_ne_zero.2 hi
  have hin : ((sel I x).filter fun u => u.2.2.1 = m.1 ∧ u.2.2.2 = m.2.1).length = 1 := by
    apply le_antisymm
    · rw [← hl.1 m.1 hc1 hc]
      apply filter_length_le_of_imp
      intro a ha
      simp only [decide_eq_true_eq] at ha ⊢
      exact ha.1
    · rw [hl.2 m.1 m.2.1 hc1 hc]
      apply List.length_pos_of_mem (a := m)
      simp [List.mem_filter, hm]
  obtain ⟨m', hm', hp, huniq⟩ := filter_length_one_unique _ _ hin
  simp only [decide_eq_true_eq] at hp huniq
  exact ⟨m', hm', ⟨hp.1.symm, hp.2.symm⟩, fun m'' hm'' hl'' => huniq m'' hm'' ⟨hl''.1.symm, hl''.2.symm⟩⟩

/-- **soundness**: with positive customer-to-customer travel times every selected move of a feasible vector
    lies on a depot-to-depot route made of selected moves (so the selected moves are a union of such
    routes; by uniqueness of successors and predecessors two such routes are equal or disjoint), the routes
    use only admissible moves (`sel_admissible`) and every customer is arrived at exactly once (`Local`) -/
theorem arc_routes_cover (I : ArcInst) (hw : WF I) (hpos : PosTimes I.g) (x : Vec) (hx : IsBin I.data.n x)
    (hf : I.data.feasibleB x = true) (m : ATup) (hm : m ∈ sel I x) :
    ∃ r, IsDepotRoute r ∧ m ∈ r ∧ ∀ u ∈ r, u ∈ sel I x := by
  have hl : Local I x := (arc_feasible_iff_local I hw x hx).1 hf
  have hlt : ∀ u ∈ sel I x, u.1 ≠ 0 → u.2.2.1 ≠ 0 → u.2.1 < u.2.2.2 := by
    intro u hu hi hj
    obtain ⟨_, _, a, ha, hle⟩ := admissible_facts I hw u (sel_admissible I hw x u hu)
    have := hpos _ ha hi hj
    linarith
  have hsucc : ∀ u ∈ sel I x, u.2.2.1 ≠ 0 → ∃ m' ∈ sel I x, Linked u m' := by
    intro u hu hj
    obtain ⟨m', hm', hlink, _⟩ := arc_succ_exists_unique I hw x hl u hu hj
    exact ⟨m', hm', hlink⟩
  have hpred : ∀ u ∈ sel I x, u.1 ≠ 0 → ∃ m' ∈ sel I x, Linked m' u := by
    intro u hu hi
    obtain ⟨m', hm', hlink, _⟩ := arc_pred_exists_unique I hw x hl u hu hi
    exact ⟨m', hm', hlink⟩
  obtain ⟨tl, hch, hlast, hall⟩ := fwd_chain (sel I x) hsucc hlt m hm
  obtain ⟨r, hne, hchr, hhead, hlast', hsuf, hallr⟩ := bwd_chain (sel I x) hpred hlt m hm tl hch hall
  refine ⟨r, ⟨hne, hchr, hhead, ?_⟩, ?_, hallr⟩
  · rw [hlast']; exact hlast
  · exact hsuf.subset (List.mem_cons_self)

/-- the indicator vector of a set of moves -/
def indicatorOf (I : ArcInst) (moves : List ATup) : Vec := fun k =>
  match I.varTuple k with
  | some u => if u ∈ moves then 1 else 0
  | none => 0

/-- **completeness**: every set of depot-to-depot routes made of admissible moves in which every customer
    is arrived at exactly once is representable: its indicator is a binary vector satisfying the constraints
    (and selects exactly those moves) -/
theorem arc_complete (I : ArcInst) (hw : WF I) (routes : List (List ATup))
    (hr : ∀ r ∈ routes, IsDepotRoute r ∧ ∀ u ∈ r, I.admissible u = true)
    (hnd : routes.flatten.Nodup)
    (honce : ∀ c, 1 ≤ c → c < I.g.nodes.length → (routes.flatten.filter fun u => u.2.2.1 = c).length = 1) :
    IsBin I.data.n (indicatorOf I routes.flatten) ∧
    I.data.feasibleB (indicatorOf I routes.flatten) = true ∧
    (sel I (indicatorOf I routes.flatten)).Perm routes.flatten := by
  have hbin : IsBin I.data.n (indicatorOf I routes.flatten) := by
    intro k _
    unfold indicatorOf
    cases I.varTuple k with
    | none => exact Or.inl rfl
    | some u =>
      by_cases hu : u ∈ routes.flatten
      · right; simp [hu]
      · left; simp [hu]
  have hadm : ∀ u ∈ routes.flatten, I.admissible u = true := by
    intro u hu
    obtain ⟨r, hr', hur⟩ := List.mem_flatten.1 hu
    exact (hr r hr').2 u hur
  have hmem : ∀ u, u ∈ sel I (indicatorOf I routes.flatten) ↔ u ∈ routes.flatten := by
    intro u
    rw [sel_mem_iff I hw]
    constructor
    · rintro ⟨k, hk, hx⟩
      have ht := (C18.arc_index_tuple_inverse I hw.sorted hw.nodup hw.graph u k).1 hk
      unfold indicatorOf at hx
      rw [ht] at hx
      by_contra hu
      simp [hu] at hx
    · intro hu
      cases hk : I.varIndex u with
      | none =>
        have := (C18.arc_index_none_iff I hw.sorted hw.graph u).1 hk
        rw [hadm u hu] at this
        exact absurd this (by simp)
      | some k =>
        have ht := (C18.arc_index_tuple_inverse I hw.sorted hw.nodup hw.graph u k).1 hk
        refine ⟨k, rfl, ?_⟩
        unfold indicatorOf
        rw [ht]
        simp [hu]
  have hperm : (sel I (indicatorOf I routes.flatten)).Perm routes.flatten :=
    (List.perm_ext_iff_of_nodup (sel_nodup I hw _) hnd).2 hmem
  refine ⟨hbin, ?_, hperm⟩
  rw [arc_feasible_iff_local I hw _ hbin]
  constructor
  · intro c hc1 hc
    rw [(hperm.filter _).length_eq]
    exact honce c hc1 hc
  · intro c s hc1 hc
    rw [(hperm.filter _).length_eq, (hperm.filter _).length_eq,
      ← List.countP_eq_length_filter, ← List.countP_eq_length_filter]
    exact routes_balance c s (by omega) routes (fun r hr' => (hr r hr').1)

/-! ## non-vacuity -/

/-- `PosTimes` on the reachable instance `nv_I` of C05 (the only customer-to-customer arc `a → b` has time 3) -/
theorem nv_pos : PosTimes nv_I.g := by unfold PosTimes; decide +kernel

/-- all hypotheses of `arc_routes_cover` hold for the feasible `nv_x` and its move `a@2 → b@6`; the theorem then
    yields a depot-to-depot route through that move -/
example : ∃ r, IsDepotRoute r ∧ ((1, 2, 2, 6) : ATup) ∈ r ∧ ∀ u ∈ r, u ∈ sel nv_I nv_x :=
  arc_routes_cover nv_I nv_wf nv_pos nv_x nv_x_bin (by decide +kernel) _ (by decide +kernel)

/-- hypotheses of `arc_succ_exists_unique` (via `Local`) -/
example : ∃ m' ∈ sel nv_I nv_x, Linked (0, 0, 1, 2) m' ∧ ∀ m'' ∈ sel nv_I nv_x, Linked (0, 0, 1, 2) m'' → m'' = m' :=
  arc_succ_exists_unique nv_I nv_wf nv_x ((arc_feasible_iff_local nv_I nv_wf nv_x nv_x_bin).1 (by decide +kernel))
    _ (by decide +kernel) (by decide)

/-- two vehicles: `d@0 → a@2 → d@6` and `d@0 → b@6 → d@8` -/
def nv_routes : List (List ATup) := [[(0, 0, 1, 2), (1, 2, 0, 6)], [(0, 0, 2, 6), (2, 6, 0, 8)]]

theorem nv_routes_ok : ∀ r ∈ nv_routes, IsDepotRoute r ∧ ∀ u ∈ r, nv_I.admissible u = true := by
  intro r hr
  have : r = [(0, 0, 1, 2), (1, 2, 0, 6)] ∨ r = [(0, 0, 2, 6), (2, 6, 0, 8)] := by simpa [nv_routes] using hr
  rcases this with rfl | rfl
  · exact ⟨⟨by simp, ⟨⟨rfl, rfl⟩, by decide, trivial⟩, rfl, rfl⟩, by decide +kernel⟩
  · exact ⟨⟨by simp, ⟨⟨rfl, rfl⟩, by decide, trivial⟩, rfl, rfl⟩, by decide +kernel⟩

/-- all hypotheses of `arc_complete` hold for `nv_routes`; the indicator is the concrete vector `[1,1,0,0,0,0,1,1,0]`
    of cost 7 -/
theorem nv_complete : IsBin nv_I.data.n (indicatorOf nv_I nv_routes.flatten) ∧
    nv_I.data.feasibleB (indicatorOf nv_I nv_routes.flatten) = true ∧
    (sel nv_I (indicatorOf nv_I nv_routes.flatten)).Perm nv_routes.flatten :=
  arc_complete nv_I nv_wf nv_routes nv_routes_ok (by decide +kernel) (by
    intro c h1 h2
    have h3 : nv_I.g.nodes.length = 3 := by decide +kernel
    have : c = 1 ∨ c = 2 := by omega
    rcases this with rfl | rfl <;> decide +kernel)

example : (List.range 9).map (indicatorOf nv_I nv_routes.flatten) = [1, 1, 0, 0, 0, 0, 1, 1, 0] ∧
    nv_I.data.objective (indicatorOf nv_I nv_routes.flatten) = 7 := by decide +kernel

end Vrp.C05
