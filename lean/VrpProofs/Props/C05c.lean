import VrpProofs.Props.C05b
import VrpProofs.Lemmas.ArcDecode

/-!
# C05 (part 3) — decoding a feasible vector returns its depot-to-depot routes
-/
namespace Vrp.C05
open Vrp

/-- the stops `(node, time)` of a route given by its moves: origins of all moves, then the last destination -/
def stopsOf (r : List ATup) : List (ℕ × ℚ) :=
  match r.getLast? with
  | none => []
  | some l => r.map (fun u => (u.1, u.2.1)) ++ [(l.2.2.1, l.2.2.2)]

/-- the vector as the list the decoder receives -/
def vecList (I : ArcInst) (x : Vec) : List ℚ := (List.range I.vars.length).map x

/-! ## helper lemmas -/

/-- the list view of the selected moves coincides with the function view -/
theorem selected_vecList (I : ArcInst) (x : Vec) (hx : IsBin I.data.n x) :
    I.selected (vecList I x) = sel I x := by
  have hn : I.data.n = I.vars.length := rfl
  unfold ArcInst.selected vecList sel
  rw [List.length_map, List.length_range, List.zip_map_right, List.filterMap_map]
  have hz : (List.range I.vars.length).zip (List.range I.vars.length)
      = (List.range I.vars.length).map fun k => (k, k) := by
    apply List.ext_getElem?
    intro i
    by_cases hi : i < I.vars.length
    · simp [hi]
    · simp [hi]
  rw [hz, List.filterMap_map]
  apply List.filterMap_congr
  intro k hk
  rw [List.mem_range] at hk
  simp only [Function.comp, Prod.map, id, ArcInst.varTuple]
  rcases hx k (by rw [hn]; exact hk) with h | h
  · simp [h]
  · simp [h]

theorem stopsOf_singleton (m : ATup) : stopsOf [m] = [(m.1, m.2.1), (m.2.2.1, m.2.2.2)] := by
  simp [stopsOf]

theorem stopsOf_cons_cons (m b : ATup) (r : List ATup) :
    stopsOf (m :: b :: r) = (m.1, m.2.1) :: stopsOf (b :: r) := by
  simp [stopsOf, List.getLast?_cons]


/-- (b) `followArc` started at the first move of a chain that ends at the depot, all of whose later moves are
    still available and are the only available continuations, returns the stops of the chain and removes
    exactly the later moves of the chain -/
theorem followArc_chain : ∀ (r : List ATup) (m : ATup) (ts : List ATup) (acc : List (ℕ × ℚ)) (fuel : ℕ),
    IsChain (m :: r) → ((m :: r).getLast (List.cons_ne_nil _ _)).2.2.1 = 0 → r.length ≤ fuel → r.Nodup →
    (∀ u ∈ r, u ∈ ts) →
    (∀ a ∈ m :: r, a.2.2.1 ≠ 0 → ∀ c ∈ ts, Linked a c → ∀ c' ∈ ts, Linked a c' → c = c') →
    followArc fuel m ts acc = (acc ++ stopsOf (m :: r), ts.diff r) := by
  intro r
  induction r with
  | nil =>
    intro m ts acc fuel _ hlast _ _ _ _
    have hj : m.2.2.1 = 0 := by simpa using hlast
    cases fuel with
    | zero => simp [followArc, stopsOf_singleton]
    | succ f => simp [followArc, hj, stopsOf_singleton]
  | cons b r ih =>
    intro m ts acc fuel hch hlast hlen hnd hall huniq
    obtain ⟨hlink, hj, hch'⟩ := hch
    rw [List.getLast_cons (List.cons_ne_nil _ _)] at hlast
    cases fuel with
    | zero => simp at hlen
    | succ f =>
      have hb : b ∈ ts := hall b List.mem_cons_self
      have hpop : popFirst (fun a => a.1 == m.2.2.1 && a.2.1 == m.2.2.2) ts = some (b, ts.erase b) := by
        apply popFirst_eq_erase _ ts b hb
        · simp [hlink.1, hlink.2]
        · intro c hc hp
          simp only [Bool.and_eq_true, beq_iff_eq] at hp
          exact huniq m List.mem_cons_self hj c hc hp b hb hlink
      have hnd' := List.nodup_cons.1 hnd
      rw [followArc, if_neg hj]
      simp only [hpop]
      rw [ih b (ts.erase b) (acc ++ [(m.1, m.2.1)]) f hch' hlast
        (by simpa using hlen) hnd'.2 ?_ ?_]
      · rw [stopsOf_cons_cons, List.diff_cons, List.append_assoc, List.singleton_append]
      · intro u hu
        exact (List.mem_erase_of_ne (fun (e : u = b) => hnd'.1 (e ▸ hu))).2 (hall u (List.mem_cons_of_mem _ hu))
      · intro a ha haj c hc hl c' hc' hl'
        exact huniq a (List.mem_cons_of_mem _ ha) haj c (List.mem_of_mem_erase hc) hl c'
          (List.mem_of_mem_erase hc') hl'

/-- the decoder loop on a list of remaining moves that satisfies the invariant -/
theorem go_spec (S : List ATup) (hg : Good S) : ∀ (fuel : ℕ) (ts : List ATup) (acc : List (List (ℕ × ℚ))),
    ts.length ≤ fuel → Inv S ts →
    ∃ routes : List (List ATup), (∀ r ∈ routes, IsDepotRoute r ∧ ∀ u ∈ r, u ∈ S) ∧
      routes.flatten.Perm ts ∧ ArcInst.decode.go fuel ts acc = acc ++ routes.map stopsOf := by
  intro fuel
  induction fuel with
  | zero =>
    intro ts acc hlen _
    have : ts = [] := List.length_eq_zero_iff.1 (Nat.le_zero.1 hlen)
    subst this
    exact ⟨[], by simp, by simp, by simp [ArcInst.decode.go]⟩
  | succ f ih =>
    intro ts acc hlen hi
    cases ts with
    | nil => exact ⟨[], by simp, by simp, by simp [ArcInst.decode.go]⟩
    | cons m rest =>
      obtain ⟨r, hch, hm0, hlast, hnd, hrest, hi'⟩ := hi.step hg
      have hnd' := List.nodup_cons.1 hnd
      have hfollow : followArc rest.length m rest [] = ([] ++ stopsOf (m :: r), rest.diff r) := by
        apply followArc_chain r m rest [] rest.length hch hlast
          ((List.subperm_of_subset hnd'.2 hrest).length_le) hnd'.2 hrest
        intro a ha haj c hc hl c' hc' hl'
        have haS : a ∈ S := by
          rcases List.mem_cons.1 ha with e | h
          · exact e ▸ hi.sub m List.mem_cons_self
          · exact hi.sub a (List.mem_cons_of_mem _ (hrest a h))
        exact hg.succU a haS haj c (hi.sub c (List.mem_cons_of_mem _ hc)) hl c'
          (hi.sub c' (List.mem_cons_of_mem _ hc')) hl'
      have hlen' : (rest.diff r).length ≤ f := by
        have := (List.diff_sublist rest r).length_le
        simp only [List.length_cons] at hlen
        omega
      obtain ⟨routes, hr, hperm, hgo⟩ := ih (rest.diff r) (acc ++ [stopsOf (m :: r)]) hlen' hi'
      refine ⟨(m :: r) :: routes, ?_, ?_, ?_⟩
      · intro q hq
        rcases List.mem_cons.1 hq with rfl | hq
        · refine ⟨⟨List.cons_ne_nil _ _, hch, by simpa using hm0, hlast⟩, ?_⟩
          intro u hu
          rcases List.mem_cons.1 hu with e | h
          · exact e ▸ hi.sub m List.mem_cons_self
          · exact hi.sub u (List.mem_cons_of_mem _ (hrest u h))
        · exact hr q hq
      · rw [List.flatten_cons]
        exact (List.Perm.append_left _ hperm).trans (perm_route_diff hnd'.2 hrest)
      · rw [ArcInst.decode.go, hfollow]
        simp only [List.nil_append]
        rw [hgo]
        simp

/-- the properties of the selected moves of a feasible vector that the decoder relies on -/
theorem good_sel (I : ArcInst) (hw : WF I) (hpos : PosTimes I.g) (x : Vec) (hl : Local I x) :
    Good (sel I x) where
  lt := by
    intro u hu hi hj
    obtain ⟨_, _, a, ha, hle⟩ := admissible_facts I hw u (sel_admissible I hw x u hu)
    have := hpos _ ha hi hj
    linarith
  succE := by
    intro u hu hj
    obtain ⟨m', hm', hlink, _⟩ := arc_succ_exists_unique I hw x hl u hu hj
    exact ⟨m', hm', hlink⟩
  succU := by
    intro u hu hj c hc hlc c' hc' hlc'
    obtain ⟨m', _, _, huniq⟩ := arc_succ_exists_unique I hw x hl u hu hj
    rw [huniq c hc hlc, huniq c' hc' hlc']
  predE := by
    intro u hu hi
    obtain ⟨m', hm', hlink, _⟩ := arc_pred_exists_unique I hw x hl u hu hi
    exact ⟨m', hm', hlink⟩
  predU := by
    intro u hu hi c hc hlc c' hc' hlc'
    obtain ⟨m', _, _, huniq⟩ := arc_pred_exists_unique I hw x hl u hu hi
    rw [huniq c hc hlc, huniq c' hc' hlc']

/-! ## property theorems -/

/-- the decoder's consistency assertions hold on every feasible vector -/
theorem arc_decode_asserts (I : ArcInst) (hw : WF I) (x : Vec) (hx : IsBin I.data.n x)
    (hf : I.data.feasibleB x = true) : I.decodeAsserts (vecList I x) = true := by
  have hl : Local I x := (arc_feasible_iff_local I hw x hx).1 hf
  unfold ArcInst.decodeAsserts
  simp only [selected_vecList I x hx, Bool.and_eq_true, List.all_eq_true, decide_eq_true_eq,
    List.mem_range]
  constructor
  · intro u hu
    have h := sel_admissible I hw x u hu
    unfold ArcInst.admissible at h
    cases harc : I.g.arc? u.1 u.2.2.1 with
    | none => simp [harc] at h
    | some a =>
      simp only [harc, Bool.and_eq_true, decide_eq_true_eq] at h
      exact ⟨h.1.1.2, h.1.2⟩
  · intro k hk
    exact hl.1 (k + 1) (by omega) (by omega)

/-- **decoding returns the routes**: for a feasible vector (positive customer-to-customer travel times) the
    operational decoder (`get_routes`: lexicographic sort, take the first remaining move, follow the first
    matching continuation until the depot is reached) outputs exactly the stop lists of depot-to-depot routes
    that partition the selected moves -/
theorem arc_decode_returns_routes (I : ArcInst) (hw : WF I) (hpos : PosTimes I.g) (x : Vec)
    (hx : IsBin I.data.n x) (hf : I.data.feasibleB x = true) :
    ∃ routes : List (List ATup),
      (∀ r ∈ routes, IsDepotRoute r ∧ ∀ u ∈ r, u ∈ sel I x) ∧
      routes.flatten.Perm (sel I x) ∧
      I.decode (vecList I x) = routes.map stopsOf := by
  have hl : Local I x := (arc_feasible_iff_local I hw x hx).1 hf
  have hg := good_sel I hw hpos x hl
  obtain ⟨hsorted, hperm⟩ := sortA_sorted_perm (sel I x)
  have hi : Inv (sel I x) (sortA (sel I x)) :=
    ⟨hsorted, hperm.nodup_iff.2 (sel_nodup I hw x), fun u hu => hperm.mem_iff.1 hu,
      fun _ _ _ c hc _ => hperm.mem_iff.2 hc, fun _ _ _ c hc _ => hperm.mem_iff.2 hc⟩
  obtain ⟨routes, hr, hp, hgo⟩ := go_spec (sel I x) hg _ (sortA (sel I x)) [] le_rfl hi
  refine ⟨routes, hr, hp.trans hperm, ?_⟩
  unfold ArcInst.decode
  simp only [selected_vecList I x hx]
  rw [hgo, List.nil_append]

/-! ## non-vacuity -/

/-- the two-vehicle vector of `nv_complete` (C05b), literally: `d@0 → a@2 → d@6` and `d@0 → b@6 → d@8` -/
def nv_x2 : Vec := vecOf [1, 1, 0, 0, 0, 0, 1, 1, 0]
theorem nv_x2_bin : IsBin nv_I.data.n nv_x2 := by unfold IsBin; decide +kernel
theorem nv_x2_feas : nv_I.data.feasibleB nv_x2 = true := by decide +kernel

/-- all hypotheses of `arc_decode_asserts` and `arc_decode_returns_routes` hold (`nv_wf`, `nv_pos` from C05 / C05b) -/
example : nv_I.decodeAsserts (vecList nv_I nv_x2) = true := arc_decode_asserts nv_I nv_wf nv_x2 nv_x2_bin nv_x2_feas

example : ∃ routes : List (List ATup), (∀ r ∈ routes, IsDepotRoute r ∧ ∀ u ∈ r, u ∈ sel nv_I nv_x2) ∧
    routes.flatten.Perm (sel nv_I nv_x2) ∧ nv_I.decode (vecList nv_I nv_x2) = routes.map stopsOf :=
  arc_decode_returns_routes nv_I nv_wf nv_pos nv_x2 nv_x2_bin nv_x2_feas

/-- … and by evaluation the decoder returns the stop lists of `nv_routes` (both vehicles leave the depot at 0) -/
example : nv_I.decode (vecList nv_I nv_x2) = [[(0, 0), (1, 2), (0, 6)], [(0, 0), (2, 6), (0, 8)]] ∧
    nv_I.decode (vecList nv_I nv_x2) = nv_routes.map stopsOf ∧
    nv_I.decode (vecList nv_I nv_x) = [[(0, 0), (1, 2), (2, 6), (0, 8)]] := by decide +kernel

end Vrp.C05
