import VrpModel.PathBased
import VrpProofs.Props.C15

/-!
# C06 — Path-based route admission matches the VRPTW route definition
-/
namespace Vrp.C06
open Vrp

/-- a route with fewer than two stops is rejected -/
theorem short_route_rejected (g : Graph) (r : List Stop) (h : r.length < 2) :
    checkRoute g r = .ok ⟨false, 0, []⟩ := by
  unfold checkRoute; simp [h]

end Vrp.C06
