import VrpModel.PathBased
import VrpProofs.Props.C15
import VrpProofs.Lemmas.Route

/-!
# C06 — Path-based route admission matches the VRPTW route definition
-/
namespace Vrp.C06
open Vrp

/-- a route with fewer than two stops is rejected -/
theorem short_route_rejected (g : Graph) (r : List Stop) (h : r.length < 2) :
    checkRoute g r = .ok ⟨false, 0, []⟩ := by
  unfold checkRoute; simp [h]


/-! ## reference definition of a VRPTW route (index form) -/

/-- follow the stops from `cur` at time `time` with load `load`: every arc must exist, early arrivals wait
    until the window opens, no late arrival, load within `[0, cap]` after every stop (the depot's own demand
    included at the end); returns the summed arc cost -/
def follow (g : Graph) (cap : ℚ) : ℕ → List ℕ → ℚ → ℚ → ℚ → Option ℚ
  | _, [], _, _, cost => some cost
  | cur, j :: rest, time, load, cost =>
    match g.arc? cur j with
    | none => none
    | some a =>
      let t := maxR (time + a.time) (g.lo j)
      if ltE (g.hi j) t then none
      else
        let l := load - g.demand j
        if cap < l ∨ l < 0 then none else follow g cap j rest t l (cost + a.cost)

/-- VRPTW route: at least two stops, starts and ends at the depot (node 0), no customer twice and the depot
    only at the ends (all stops except the last are pairwise distinct), and the walk is time- and load-feasible;
    the vehicle leaves the depot when the depot's window opens (the route clock starts at `g.lo 0`) -/
def ValidRoute (g : Graph) (cap init : ℚ) (r : List ℕ) : Prop :=
  2 ≤ r.length ∧ r.head? = some 0 ∧ r.getLast? = some 0 ∧ r.dropLast.Nodup ∧
  (follow g cap 0 r.tail (g.lo 0) init 0).isSome

/-! ## helper lemmas -/

theorem follow_cons (g : Graph) (cap : ℚ) (cur j : ℕ) (rest : List ℕ) (time load cost : ℚ) :
    follow g cap cur (j :: rest) time load cost =
      match checkArc g cap time load cur j with
      | none => none
      | some (t, l) => follow g cap j rest t l (cost + ((g.arc? cur j).map (·.cost)).getD 0) := by
  rw [follow]
  unfold checkArc
  cases g.arc? cur j with
  | none => rfl
  | some a =>
    simp only
    split_ifs <;> simp

/-- **the loop = `follow` + no revisit** on index stops -/
theorem checkLoop_idx (g : Graph) (cap : ℚ) (rest : List ℕ) : ∀ cur time load cost vis,
    ∃ rc, checkLoop g cap cur (rest.map Stop.idx) time load cost vis = .ok rc ∧
      (rc.feas = true ↔ (∀ x ∈ (cur :: rest).dropLast, x ∉ vis) ∧ ((cur :: rest).dropLast).Nodup ∧
          (follow g cap cur rest time load cost).isSome) ∧
      (rc.feas = true → follow g cap cur rest time load cost = some rc.cost ∧
          rc.visits = vis ++ (cur :: rest).dropLast) := by
  induction rest with
  | nil =>
    intro cur time load cost vis
    exact ⟨⟨true, cost, vis⟩, rfl, by simp [follow], by simp [follow]⟩
  | cons j rest ih =>
    intro cur time load cost vis
    have hd : (cur :: j :: rest).dropLast = cur :: (j :: rest).dropLast := rfl
    rw [hd, follow_cons, List.map_cons]
    unfold checkLoop
    by_cases hv : cur ∈ vis
    · rw [if_pos hv]
      refine ⟨_, rfl, ?_, by simp⟩
      simp only [Bool.false_eq_true, false_iff, not_and]
      intro hx
      exact absurd hv (hx cur (List.mem_cons_self))
    · rw [if_neg hv]
      simp only [resolve_idx]
      cases hca : checkArc g cap time load cur j with
      | none =>
        exact ⟨_, rfl, by simp, by simp⟩
      | some p =>
        obtain ⟨t, l⟩ := p
        obtain ⟨rc, h1, h2, h3⟩ := ih j t l (cost + ((g.arc? cur j).map (·.cost)).getD 0) (vis ++ [cur])
        refine ⟨rc, h1, ?_, ?_⟩
        · rw [h2]
          constructor
          · rintro ⟨ha, hb, hc⟩
            refine ⟨?_, List.nodup_cons.2
              ⟨fun hm => ha cur hm (List.mem_append_right _ (List.mem_singleton_self _)), hb⟩, hc⟩
            intro x hx
            rcases List.mem_cons.1 hx with rfl | hx
            · exact hv
            · exact fun hm => ha x hx (List.mem_append_left _ hm)
          · rintro ⟨ha, hb, hc⟩
            obtain ⟨hb1, hb2⟩ := List.nodup_cons.1 hb
            refine ⟨?_, hb2, hc⟩
            intro x hx hm
            rcases List.mem_append.1 hm with hm | hm
            · exact ha x (List.mem_cons_of_mem _ hx) hm
            · rw [List.mem_singleton] at hm
              subst hm
              exact hb1 hx
        · intro hf
          obtain ⟨h4, h5⟩ := h3 hf
          exact ⟨h4, by rw [h5]; simp⟩

/-- shape analysis of `checkRoute` on an index route -/
theorem checkRoute_idx_core (g : Graph) (r : List ℕ) :
    (checkRoute g (r.map Stop.idx) = .ok ⟨false, 0, []⟩ ∧
        (r.length < 2 ∨ r.head? ≠ some 0 ∨ r.getLast? ≠ some 0)) ∨
    (2 ≤ r.length ∧ r.head? = some 0 ∧ r.getLast? = some 0 ∧
      checkRoute g (r.map Stop.idx) =
        match g.cap, g.init with
        | some cap, some init => checkLoop g cap 0 (r.tail.map Stop.idx) (g.lo 0) init 0 []
        | _, _ => .error .type) := by
  match r with
  | [] => exact Or.inl ⟨short_route_rejected g _ (by simp), Or.inl (by simp)⟩
  | [a] => exact Or.inl ⟨short_route_rejected g _ (by simp), Or.inl (by simp)⟩
  | a :: b :: r' =>
    have hne : b :: r' ≠ [] := by simp
    have hmm : ((b :: r').map Stop.idx).map (resolve g) = (b :: r').map Except.ok := by
      rw [List.map_map]; rfl
    have hl : (((b :: r').map Stop.idx).map (resolve g)).getLast? = some (.ok ((b :: r').getLast hne)) := by
      rw [hmm, List.getLast?_map, List.getLast?_eq_some_getLast hne]; rfl
    have hh : ∃ i, (((b :: r').map Stop.idx).map (resolve g)).head? = some (.ok i) := ⟨b, rfl⟩
    have hlast : (a :: b :: r').getLast? = some ((b :: r').getLast hne) := by
      rw [List.getLast?_cons_cons, List.getLast?_eq_some_getLast hne]
    have key := checkRoute_eq g (.idx a) ((b :: r').map Stop.idx) a _ (resolve_idx g a) hh hl
    rw [List.map_cons, key]
    by_cases hc : a ≠ 0 ∨ (b :: r').getLast hne ≠ 0
    · left
      rw [if_pos hc]
      refine ⟨rfl, Or.inr ?_⟩
      rcases hc with hc | hc
      · left; simpa using hc
      · right; rw [hlast]; simpa using hc
    · right
      rw [if_neg hc]
      have ha : a = 0 := by by_contra hx; exact hc (Or.inl hx)
      have hb : (b :: r').getLast hne = 0 := by by_contra hx; exact hc (Or.inr hx)
      subst ha
      refine ⟨by simp, rfl, by rw [hlast, hb], rfl⟩

/-- an accepted index route: vehicle data set, valid, cost and visits as expected -/
theorem checkRoute_idx_ok (g : Graph) (r : List ℕ) (rc : RouteCheck)
    (h : checkRoute g (r.map Stop.idx) = .ok rc) (hf : rc.feas = true) :
    ∃ cap init, g.cap = some cap ∧ g.init = some init ∧ ValidRoute g cap init r ∧
      follow g cap 0 r.tail (g.lo 0) init 0 = some rc.cost ∧ rc.visits = r.dropLast := by
  rcases checkRoute_idx_core g r with ⟨h1, _⟩ | ⟨h2, hh, hl, h1⟩
  · rw [h1] at h; cases h; cases hf
  · rw [h1] at h
    cases hcap : g.cap with
    | none => simp only [hcap] at h; cases h
    | some cap =>
      cases hinit : g.init with
      | none => simp only [hcap, hinit] at h; cases h
      | some init =>
        simp only [hcap, hinit] at h
        obtain ⟨rc', e1, e2, e3⟩ := checkLoop_idx g cap r.tail 0 (g.lo 0) init 0 []
        rw [e1] at h
        cases h
        have hr : 0 :: r.tail = r := by
          cases r with
          | nil => simp at h2
          | cons a t => simp at hh; simp [hh]
        rw [hr] at e2 e3
        obtain ⟨_, hn, hs⟩ := e2.1 hf
        obtain ⟨hc, hv⟩ := e3 hf
        exact ⟨cap, init, rfl, rfl, ⟨h2, hh, hl, hn, hs⟩, hc, by simpa using hv⟩

/-- every stop of a walk that `follow` accepts is an existing node -/
theorem follow_bound (g : Graph) (hg : C15.Inv g) (cap : ℚ) (rest : List ℕ) :
    ∀ cur time load cost c, follow g cap cur rest time load cost = some c →
      (∀ j ∈ rest, j < g.nodes.length) ∧ (rest ≠ [] → cur < g.nodes.length) := by
  induction rest with
  | nil => intro _ _ _ _ _ _; simp
  | cons j rest ih =>
    intro cur time load cost c h
    rw [follow] at h
    cases harc : g.arc? cur j with
    | none => simp only [harc] at h; cases h
    | some a =>
      simp only [harc] at h
      have hkey : ∃ e ∈ g.arcs, e.1 = (cur, j) := by
        unfold Graph.arc? dictGet at harc
        cases hfind : g.arcs.find? (fun e => e.1 = (cur, j)) with
        | none => rw [hfind] at harc; cases harc
        | some e =>
          exact ⟨e, List.mem_of_find?_eq_some hfind, by simpa using List.find?_some hfind⟩
      obtain ⟨e, he, hek⟩ := hkey
      obtain ⟨ni, nj, h1, h2, _⟩ := hg.filed e he
      rw [hek] at h1 h2
      have hcur : cur < g.nodes.length := by
        by_contra hx
        rw [List.getElem?_eq_none (by omega)] at h1; cases h1
      have hj : j < g.nodes.length := by
        by_contra hx
        rw [List.getElem?_eq_none (by omega)] at h2; cases h2
      split_ifs at h with hA hB
      obtain ⟨ih1, _⟩ := ih _ _ _ _ _ h
      refine ⟨?_, fun _ => hcur⟩
      intro x hx
      rcases List.mem_cons.1 hx with rfl | hx
      · exact hj
      · exact ih1 x hx

/-! ## statements -/

/-- **admission = route definition** for routes given by indices -/
theorem checkRoute_idx_iff_valid (g : Graph) (cap init : ℚ) (hc : g.cap = some cap) (hi : g.init = some init)
    (r : List ℕ) :
    ∃ rc, checkRoute g (r.map Stop.idx) = .ok rc ∧ (rc.feas = true ↔ ValidRoute g cap init r) := by
  rcases checkRoute_idx_core g r with ⟨h1, hbad⟩ | ⟨h2, hh, hl, h1⟩
  · refine ⟨_, h1, ?_⟩
    simp only [Bool.false_eq_true, false_iff]
    rintro ⟨v1, v2, v3, _⟩
    rcases hbad with hb | hb | hb
    · omega
    · exact hb v2
    · exact hb v3
  · simp only [hc, hi] at h1
    obtain ⟨rc, e1, e2, _⟩ := checkLoop_idx g cap r.tail 0 (g.lo 0) init 0 []
    have hr : 0 :: r.tail = r := by
      cases r with
      | nil => simp at h2
      | cons a t => simp at hh; simp [hh]
    rw [hr] at e2
    refine ⟨rc, h1.trans e1, ?_⟩
    rw [e2]
    unfold ValidRoute
    simp [h2, hh, hl]

/-- an accepted route's cost is the sum of its arc costs and its visit set is all stops but the last -/
theorem checkRoute_cost_visits (g : Graph) (cap init : ℚ) (hc : g.cap = some cap) (hi : g.init = some init)
    (r : List ℕ) (rc : RouteCheck) (h : checkRoute g (r.map Stop.idx) = .ok rc) (hf : rc.feas = true) :
    follow g cap 0 r.tail (g.lo 0) init 0 = some rc.cost ∧ rc.visits = r.dropLast := by
  obtain ⟨cap', init', h1, h2, _, h3, h4⟩ := checkRoute_idx_ok g r rc h hf
  rw [hc] at h1; rw [hi] at h2
  cases h1; cases h2
  exact ⟨h3, h4⟩

/-- names, indices or a mixture: when every name is known the verdict is that of the resolved index route -/
theorem checkRoute_names (g : Graph) (stops : List Stop)
    (hk : ∀ s ∈ stops, ∀ nm, s = Stop.name nm → nm ∈ g.names) :
    checkRoute g stops = checkRoute g ((resolveAll g stops).map Stop.idx) ∧
    (resolveAll g stops).length = stops.length :=
  ⟨checkRoute_resolved g stops (allRes_of_known g stops hk), resolveAll_length (allRes_of_known g stops hk)⟩

/-- a route containing an unknown name is never accepted (it raises, or is rejected before the name is looked at) -/
theorem checkRoute_unknown_not_accepted (g : Graph) (stops : List Stop) (nm : String)
    (hmem : Stop.name nm ∈ stops) (hun : nm ∉ g.names) (rc : RouteCheck)
    (h : checkRoute g stops = .ok rc) : rc.feas = false := by
  by_contra hf
  have hf' : rc.feas = true := by simpa using hf
  exact hun ((checkRoute_feas g stops rc h hf').1.known _ hmem nm rfl)

/-- consistency of the stored pool -/
structure PoolInv (P : PathInst) : Prop where
  nodup : P.routes.Nodup
  lenC : P.costs.length = P.routes.length
  lenV : P.visited.length = P.routes.length
  /-- `route_node_visited[k]` is exactly the set of stops of route `k` except the final depot (so: the depot
      and the customers it visits), all of them existing nodes -/
  visits : ∀ k (hk : k < P.routes.length), ∀ i, (i ∈ P.visited.getD k [] ↔ i ∈ (P.routes[k]).dropLast) ∧
      (i ∈ P.routes[k] → i < P.g.nodes.length)
  /-- (added clause, needed by `path_cover_matrix`) every stored route starts and ends at the depot; without it
      a pool whose route ends at a customer `k` not visited before satisfies the other clauses, yet the
      matrix entry `(k, route)` is 0 while `k ∈ route` -/
  ends : ∀ r ∈ P.routes, r.head? = some 0 ∧ r.getLast? = some 0

theorem poolInv_init (g : Graph) : PoolInv ({ g := g } : PathInst) :=
  ⟨by simp, rfl, rfl, fun k hk => by simp at hk, by simp⟩

/-- the facts about an accepted candidate -/
theorem accepted_facts (g : Graph) (hg : C15.Inv g) (stops : List Stop) (rc : RouteCheck)
    (h : checkRoute g stops = .ok rc) (hf : rc.feas = true) :
    ∃ cap init, g.cap = some cap ∧ g.init = some init ∧ ValidRoute g cap init (resolveAll g stops) ∧
      follow g cap 0 (resolveAll g stops).tail (g.lo 0) init 0 = some rc.cost ∧
      rc.visits = (resolveAll g stops).dropLast ∧ ∀ i ∈ resolveAll g stops, i < g.nodes.length := by
  have hall := (checkRoute_feas g stops rc h hf).1
  rw [checkRoute_resolved g stops hall] at h
  obtain ⟨cap, init, h1, h2, hv, h3, h4⟩ := checkRoute_idx_ok g _ rc h hf
  refine ⟨cap, init, h1, h2, hv, h3, h4, ?_⟩
  obtain ⟨v1, v2, _, _, _⟩ := hv
  obtain ⟨b1, b2⟩ := follow_bound g hg cap _ _ _ _ _ _ h3
  generalize resolveAll g stops = r at *
  match r, v1, v2 with
  | a :: b :: t, _, v2 =>
    simp at v2; subst v2
    intro i hi
    rcases List.mem_cons.1 hi with rfl | hi
    · exact b2 (by simp)
    · exact b1 i hi

theorem addRoute_error (P : PathInst) (stops : List Stop) (e : Err) (h : checkRoute P.g stops = .error e) :
    P.addRoute stops = (P, .error e) := by
  unfold PathInst.addRoute; simp only [h]

theorem addRoute_accept (P : PathInst) (stops : List Stop) (rc : RouteCheck) (h : checkRoute P.g stops = .ok rc)
    (hc : rc.feas = true ∧ resolveAll P.g stops ∉ P.routes) :
    P.addRoute stops =
      ({ P with routes := P.routes ++ [resolveAll P.g stops], costs := P.costs ++ [rc.cost],
                visited := P.visited ++ [PathInst.addRoute.sortNat rc.visits] }, .ok (true, true)) := by
  unfold PathInst.addRoute; simp only [h]; rw [if_pos hc]

theorem addRoute_reject (P : PathInst) (stops : List Stop) (rc : RouteCheck) (h : checkRoute P.g stops = .ok rc)
    (hc : ¬ (rc.feas = true ∧ resolveAll P.g stops ∉ P.routes)) :
    P.addRoute stops = (P, .ok (rc.feas, false)) := by
  unfold PathInst.addRoute; simp only [h]; rw [if_neg hc]

/-- `add_route` keeps the pool consistent, stores a route at most once, and reports `(feasible, added)` with
    `added ↔ feasible ∧ not already stored`; a rejected or raising call leaves the pool unchanged -/
theorem addRoute_inv (P : PathInst) (hg : C15.Inv P.g) (h : PoolInv P) (stops : List Stop) :
    PoolInv (P.addRoute stops).1 ∧ (P.addRoute stops).1.g = P.g ∧
    (∀ f a, (P.addRoute stops).2 = .ok (f, a) →
        (a = true ↔ (f = true ∧ resolveAll P.g stops ∉ P.routes)) ∧
        (a = false → (P.addRoute stops).1 = P) ∧
        (a = true → (P.addRoute stops).1.routes = P.routes ++ [resolveAll P.g stops])) ∧
    (∀ e, (P.addRoute stops).2 = .error e → (P.addRoute stops).1 = P) := by
  cases hcr : checkRoute P.g stops with
  | error e =>
    rw [addRoute_error P stops e hcr]
    exact ⟨h, rfl, fun f a hfa => by simp at hfa, fun _ _ => rfl⟩
  | ok rc =>
    by_cases hcond : rc.feas = true ∧ resolveAll P.g stops ∉ P.routes
    · rw [addRoute_accept P stops rc hcr hcond]
      obtain ⟨hf, hnew⟩ := hcond
      obtain ⟨cap, init, _, _, hv, _, hvis, hbd⟩ := accepted_facts P.g hg stops rc hcr hf
      refine ⟨?_, rfl, ?_, fun e he => by simp at he⟩
      · refine ⟨?_, ?_, ?_, ?_, ?_⟩
        · exact List.Nodup.append h.nodup (List.nodup_singleton _) (by simpa using hnew)
        · simp [h.lenC]
        · simp [h.lenV]
        · intro k hk i
          have hk0 : k < P.routes.length + 1 := by simpa using hk
          by_cases hk' : k < P.routes.length
          · have e1 : (P.visited ++ [PathInst.addRoute.sortNat rc.visits]).getD k [] = P.visited.getD k [] := by
              simp only [List.getD_eq_getElem?_getD]
              rw [List.getElem?_append_left (by rw [h.lenV]; exact hk')]
            have e2 : (P.routes ++ [resolveAll P.g stops])[k]'(by simpa using hk0) = P.routes[k] :=
              List.getElem_append_left hk'
            show (i ∈ (P.visited ++ [PathInst.addRoute.sortNat rc.visits]).getD k [] ↔
                i ∈ ((P.routes ++ [resolveAll P.g stops])[k]'(by simpa using hk0)).dropLast) ∧
              (i ∈ (P.routes ++ [resolveAll P.g stops])[k]'(by simpa using hk0) → i < P.g.nodes.length)
            rw [e1, e2]
            exact h.visits k hk' i
          · have hk2 : k = P.routes.length := by omega
            subst hk2
            have e1 : (P.visited ++ [PathInst.addRoute.sortNat rc.visits]).getD P.routes.length [] =
                PathInst.addRoute.sortNat rc.visits := by
              simp only [List.getD_eq_getElem?_getD]
              rw [List.getElem?_append_right (by rw [h.lenV]), h.lenV]
              simp
            have e2 : (P.routes ++ [resolveAll P.g stops])[P.routes.length]'(by simp) =
                resolveAll P.g stops := by simp
            show (i ∈ (P.visited ++ [PathInst.addRoute.sortNat rc.visits]).getD P.routes.length [] ↔
                i ∈ ((P.routes ++ [resolveAll P.g stops])[P.routes.length]'(by simp)).dropLast) ∧
              (i ∈ (P.routes ++ [resolveAll P.g stops])[P.routes.length]'(by simp) → i < P.g.nodes.length)
            rw [e1, e2, mem_sortNat, hvis]
            exact ⟨Iff.rfl, hbd i⟩
        · intro r hr
          have hr' : r ∈ P.routes ++ [resolveAll P.g stops] := hr
          simp only [List.mem_append, List.mem_singleton] at hr'
          rcases hr' with hr' | rfl
          · exact h.ends r hr'
          · exact ⟨hv.2.1, hv.2.2.1⟩
      · intro f a hfa
        simp only [Except.ok.injEq, Prod.mk.injEq] at hfa
        obtain ⟨rfl, rfl⟩ := hfa
        simp [hnew]
    · rw [addRoute_reject P stops rc hcr hcond]
      refine ⟨h, rfl, ?_, fun e he => by simp at he⟩
      intro f a hfa
      simp only [Except.ok.injEq, Prod.mk.injEq] at hfa
      obtain ⟨rfl, rfl⟩ := hfa
      simp only [Bool.false_eq_true, false_iff, forall_true_left, false_imp_iff, and_true]
      exact hcond

/-- (supplement) a route that `add_route` stores is a valid VRPTW route of the current graph and the stored
    cost is the sum of its arc costs -/
theorem addRoute_added_valid (P : PathInst) (hg : C15.Inv P.g) (stops : List Stop) (f : Bool)
    (h : (P.addRoute stops).2 = .ok (f, true)) :
    ∃ cap init c, P.g.cap = some cap ∧ P.g.init = some init ∧ ValidRoute P.g cap init (resolveAll P.g stops) ∧
      follow P.g cap 0 (resolveAll P.g stops).tail (P.g.lo 0) init 0 = some c ∧
      (P.addRoute stops).1.costs = P.costs ++ [c] := by
  cases hcr : checkRoute P.g stops with
  | error e => rw [addRoute_error P stops e hcr] at h; simp at h
  | ok rc =>
    by_cases hcond : rc.feas = true ∧ resolveAll P.g stops ∉ P.routes
    · rw [addRoute_accept P stops rc hcr hcond]
      obtain ⟨cap, init, h1, h2, hv, h3, _, _⟩ := accepted_facts P.g hg stops rc hcr hcond.1
      exact ⟨cap, init, rc.cost, h1, h2, hv, h3, rfl⟩
    · rw [addRoute_reject P stops rc hcr hcond] at h; simp at h

/-- nodes appended later (as the feasibility heuristic does) keep the pool consistent -/
theorem addNode_inv (P : PathInst) (h : PoolInv P) (nm : String) (d lo : ℚ) (hi : ERat) :
    PoolInv ({ P with g := (addNodeStep P.g nm d lo hi).1 } : PathInst) := by
  unfold addNodeStep
  split_ifs with h1 h2
  · exact h
  · exact h
  · refine ⟨h.nodup, h.lenC, h.lenV, ?_, h.ends⟩
    intro k hk i
    refine ⟨(h.visits k hk i).1, fun hi => ?_⟩
    have := (h.visits k hk i).2 hi
    simp only [List.length_append, List.length_singleton]
    omega

/-- **the constraint data are the exact-cover system over the stored routes** on the current node list:
    entry (customer `k`, route `col`) is 1 iff the route visits `k`, every right-hand side is 1, no quadratic
    constraint, and the objective coefficients are the stored costs -/
theorem path_cover_matrix (P : PathInst) (h : PoolInv P) (col k : ℕ) (hcol : col < P.routes.length)
    (hk1 : 1 ≤ k) (hk : k < P.g.nodes.length) :
    P.data.Amat (k - 1) col = (if k ∈ P.routes[col] then 1 else 0) ∧
    P.data.n = P.routes.length ∧ P.data.m = P.g.nodes.length - 1 ∧
    (∀ r, r < P.data.m → P.data.bvec r = 1) ∧ P.data.R = [] ∧ P.data.c = P.costs ∧ P.data.Qobj = [] := by
  have _ := hk
  refine ⟨?_, h.lenC, rfl, ?_, rfl, rfl, rfl⟩
  · have hA : P.data.A = ((List.range' 0 P.visited.length).zip P.visited).flatMap
        (fun p : ℕ × List ℕ => coverCol p.1 p.2.eraseDups) := by
      simp only [PathInst.data, List.range_eq_range']
      rfl
    have hAm : P.data.Amat (k - 1) col = cooEntry P.data.A (k - 1) col := rfl
    rw [hAm, hA, cooEntry_cover]
    have hk' : k - 1 + 1 = k := by omega
    have hin : 0 ≤ col ∧ col < 0 + P.visited.length := by rw [h.lenV]; omega
    rw [if_pos hin, hk', Nat.sub_zero]
    have e1 := (h.visits col hcol k).1
    have hends := (h.ends _ (List.getElem_mem hcol)).2
    have e2 : k ∈ P.routes[col] ↔ k ∈ (P.routes[col]).dropLast := by
      have := List.dropLast_append_getLast? 0 hends
      constructor
      · intro hm
        rw [← this] at hm
        simp only [List.mem_append, List.mem_singleton] at hm
        rcases hm with hm | hm
        · exact hm
        · omega
      · exact fun hm => List.mem_of_mem_dropLast hm
    simp only [e1, e2]
  · intro r hr
    have hr' : r < P.g.nodes.length - 1 := hr
    simp [MPData.bvec, PathInst.data, vecOf, hr']

/-- `examples/small.py` -/
def smallG : Graph :=
  { nodes := [⟨"D", 0, 0, none⟩, ⟨"1", 1, 1, some 7⟩, ⟨"2", 2, 2, some 4⟩, ⟨"3", 2, 4, some 7⟩]
    arcs := [((0,1), ⟨"D","1",1,1⟩), ((0,2), ⟨"D","2",2,2⟩), ((0,3), ⟨"D","3",2,2⟩), ((1,0), ⟨"1","D",1,1⟩),
             ((1,2), ⟨"1","2",1,1⟩), ((1,3), ⟨"1","3",1,1⟩), ((2,0), ⟨"2","D",2,2⟩), ((2,1), ⟨"2","1",1,1⟩),
             ((2,3), ⟨"2","3",1,1⟩), ((3,0), ⟨"3","D",2,2⟩), ((3,1), ⟨"3","1",1,1⟩)]
    cap := some 6
    init := some 6 }

/-- non-vacuity: on `examples/small.py` the route D-1-2-3-D is valid with cost 5 and D-3-2-D is not -/
example : follow smallG 6 0 [1, 2, 3, 0] 0 6 0 = some 5 ∧ follow smallG 6 0 [3, 2, 0] 0 6 0 = none := by
  refine ⟨by decide +kernel, by decide +kernel⟩

/-! ## regression: the clock used to start at time 0 instead of the depot's window opening -/

/-- the pinned (defective) route check: the same loop as `checkRoute` runs on an index route that starts and
    ends at the depot, but with the route clock started at the literal time 0 -/
def checkRoutePinned (g : Graph) (cap init : ℚ) (r : List ℕ) : Except Err RouteCheck :=
  checkLoop g cap 0 (r.tail.map Stop.idx) 0 init 0 []

/-- late-opening depot: depot window `[5, 7]`, customer `a` window `[0, 6]`, customer `b` window `[0, 3]`,
    unit travel times and costs, all arcs -/
def lateDepotG : Graph :=
  { nodes := [⟨"D", 0, 5, some 7⟩, ⟨"a", 1, 0, some 6⟩, ⟨"b", 1, 0, some 3⟩]
    arcs := [((0,1), ⟨"D","a",1,1⟩), ((0,2), ⟨"D","b",1,1⟩), ((1,0), ⟨"a","D",1,1⟩),
             ((1,2), ⟨"a","b",1,1⟩), ((2,0), ⟨"b","D",1,1⟩), ((2,1), ⟨"b","a",1,1⟩)]
    cap := some 6
    init := some 6 }

/-- **regression (repaired defect)**: on a depot that opens at 5 the route D-a-b-D is not a VRPTW route (the
    vehicle leaves at 5 and reaches `b` at 7 > 3) and the repaired `checkRoute` rejects it, while the pinned
    check, whose clock starts at 0, accepts it -/
theorem checkRoute_pinned_clock_differs :
    ¬ ValidRoute lateDepotG 6 6 [0, 1, 2, 0] ∧
    (∃ rc, checkRoute lateDepotG ([0, 1, 2, 0].map Stop.idx) = .ok rc ∧ rc.feas = false) ∧
    (∃ rc, checkRoutePinned lateDepotG 6 6 [0, 1, 2, 0] = .ok rc ∧ rc.feas = true) := by
  refine ⟨?_, ?_, ?_⟩
  · rintro ⟨_, _, _, _, h⟩
    revert h
    decide +kernel
  · obtain ⟨rc, h1, h2⟩ := checkRoute_idx_iff_valid lateDepotG 6 6 rfl rfl [0, 1, 2, 0]
    refine ⟨rc, h1, ?_⟩
    cases hf : rc.feas with
    | false => rfl
    | true =>
      have hv := h2.1 hf
      obtain ⟨_, _, _, _, h⟩ := hv
      revert h
      decide +kernel
  · obtain ⟨rc, e1, e2, _⟩ := checkLoop_idx lateDepotG 6 [1, 2, 0] 0 0 6 0 []
    exact ⟨rc, e1, e2.2 (by decide +kernel)⟩

end Vrp.C06

