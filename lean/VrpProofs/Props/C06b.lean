import VrpProofs.Props.C02
import VrpProofs.Props.C06

/-!
# C06b — pools built through `add_route` are well-formed (supplement to C02 / C06)

`C02.PathWF` (hypothesis of `C02.path_wellShaped`) is a consequence of the pool invariant `C06.PoolInv`, and the
pool invariant holds for every pool obtained from the empty one by offering routes through `add_route`
(any stops: accepted, rejected, duplicate or raising).  Hence the path-based `get_qubo` is total on every
reachable pool.
-/
namespace Vrp.C06
open Vrp

/-- the well-formedness assumed by `C02.path_wellShaped` follows from the pool invariant -/
theorem pathWF_of_poolInv (P : PathInst) (h : PoolInv P) : C02.PathWF P := by
  refine ⟨by rw [h.lenC, h.lenV], h.lenC.symm, ?_⟩
  intro vs hvs k hk
  obtain ⟨j, hj, rfl⟩ := List.getElem_of_mem hvs
  have hj' : j < P.routes.length := by rw [← h.lenV]; exact hj
  have hgd : P.visited.getD j [] = P.visited[j] := by
    rw [List.getD_eq_getElem?_getD, List.getElem?_eq_getElem hj]; rfl
  obtain ⟨h1, _⟩ := h.visits j hj' k
  have hmem : k ∈ (P.routes[j]).dropLast := h1.1 (by rw [hgd]; exact hk)
  exact (h.visits j hj' k).2 (List.mem_of_mem_dropLast hmem)

/-- … hence the data of every consistent pool are well shaped -/
theorem path_wellShaped_of_poolInv (P : PathInst) (h : PoolInv P) : P.data.wellShaped = true :=
  C02.path_wellShaped P (pathWF_of_poolInv P h)

/-- path-based `get_qubo` is total on every consistent pool, both modes, any weight -/
theorem path_getQubo_ok (P : PathInst) (h : PoolInv P) (feas : Bool) (rho? : Option ℚ) :
    ∃ Q k, P.data.getQubo P.suffPenalty feas rho? = .ok (Q, k) :=
  C02.path_getQubo_ok_of_wf P (pathWF_of_poolInv P h) feas rho?

/-! ## mechanics of `add_route` on a fixed graph -/

/-- the three possible effects of `add_route` on the pool: unchanged, or one route appended with the cost and
    the visit set that `check_route` reported -/
theorem ep_addRoute_cases (P : PathInst) (stops : List Stop) :
    (P.addRoute stops).1 = P ∨
    ∃ rc, checkRoute P.g stops = .ok rc ∧ rc.feas = true ∧ resolveAll P.g stops ∉ P.routes ∧
      (P.addRoute stops).1 =
        { P with routes := P.routes ++ [resolveAll P.g stops], costs := P.costs ++ [rc.cost],
                 visited := P.visited ++ [PathInst.addRoute.sortNat rc.visits] } := by
  cases hcr : checkRoute P.g stops with
  | error e => left; rw [addRoute_error P stops e hcr]
  | ok rc =>
    by_cases hcond : rc.feas = true ∧ resolveAll P.g stops ∉ P.routes
    · right
      exact ⟨rc, rfl, hcond.1, hcond.2, by rw [addRoute_accept P stops rc hcr hcond]⟩
    · left; rw [addRoute_reject P stops rc hcr hcond]

/-- `add_route` never touches the graph -/
theorem ep_addRoute_g (P : PathInst) (stops : List Stop) : (P.addRoute stops).1.g = P.g := by
  rcases ep_addRoute_cases P stops with h | ⟨rc, _, _, _, h⟩ <;> rw [h]

/-- stored routes stay stored -/
theorem ep_addRoute_mem_mono (P : PathInst) (stops : List Stop) {r : List ℕ} (hr : r ∈ P.routes) :
    r ∈ (P.addRoute stops).1.routes := by
  rcases ep_addRoute_cases P stops with h | ⟨rc, _, _, _, h⟩ <;> rw [h]
  · exact hr
  · exact List.mem_append_left _ hr

/-- the pool obtained by offering the candidate routes `rs` one after the other to the pool `P` -/
def offerFrom (P : PathInst) (rs : List (List Stop)) : PathInst := rs.foldl (fun P r => (P.addRoute r).1) P

theorem offerFrom_nil (P : PathInst) : offerFrom P [] = P := rfl

theorem offerFrom_cons (P : PathInst) (r : List Stop) (rs : List (List Stop)) :
    offerFrom P (r :: rs) = offerFrom (P.addRoute r).1 rs := rfl

theorem offerFrom_append (P : PathInst) (rs rs' : List (List Stop)) :
    offerFrom P (rs ++ rs') = offerFrom (offerFrom P rs) rs' := List.foldl_append

theorem offerFrom_g (P : PathInst) (rs : List (List Stop)) : (offerFrom P rs).g = P.g := by
  induction rs generalizing P with
  | nil => rfl
  | cons r rs ih => rw [offerFrom_cons, ih, ep_addRoute_g]

theorem offerFrom_mem_mono (P : PathInst) (rs : List (List Stop)) {r : List ℕ} (hr : r ∈ P.routes) :
    r ∈ (offerFrom P rs).routes := by
  induction rs generalizing P with
  | nil => exact hr
  | cons s rs ih => rw [offerFrom_cons]; exact ih _ (ep_addRoute_mem_mono P s hr)

/-- the pool invariant is preserved by any sequence of offers -/
theorem offerFrom_inv (P : PathInst) (hg : C15.Inv P.g) (h : PoolInv P) (rs : List (List Stop)) :
    PoolInv (offerFrom P rs) := by
  induction rs generalizing P with
  | nil => exact h
  | cons r rs ih =>
    rw [offerFrom_cons]
    exact ih _ (by rw [ep_addRoute_g]; exact hg) (addRoute_inv P hg h r).1

/-- **every pool reachable from the empty one by `add_route` calls satisfies the pool invariant** -/
theorem poolInv_offer (g : Graph) (hg : C15.Inv g) (rs : List (List Stop)) :
    PoolInv (rs.foldl (fun P r => (P.addRoute r).1) ({ g := g } : PathInst)) ∧
    (rs.foldl (fun P r => (P.addRoute r).1) ({ g := g } : PathInst)).g = g :=
  ⟨offerFrom_inv { g := g } hg (poolInv_init g) rs, offerFrom_g { g := g } rs⟩

/-- … hence `get_qubo` is total on every reachable pool -/
theorem path_getQubo_ok_offer (g : Graph) (hg : C15.Inv g) (rs : List (List Stop)) (feas : Bool)
    (rho? : Option ℚ) :
    ∃ Q k, (rs.foldl (fun P r => (P.addRoute r).1) ({ g := g } : PathInst)).data.getQubo
      (rs.foldl (fun P r => (P.addRoute r).1) ({ g := g } : PathInst)).suffPenalty feas rho? = .ok (Q, k) :=
  path_getQubo_ok _ (poolInv_offer g hg rs).1 feas rho?

/-- a valid route offered by its indices is in the pool afterwards (accepted now, or already stored) -/
theorem ep_addRoute_valid_mem (P : PathInst) (cap init : ℚ) (hc : P.g.cap = some cap)
    (hi : P.g.init = some init) (r : List ℕ) (hr : ValidRoute P.g cap init r) :
    r ∈ (P.addRoute (r.map Stop.idx)).1.routes := by
  obtain ⟨rc, h1, h2⟩ := checkRoute_idx_iff_valid P.g cap init hc hi r
  have hf : rc.feas = true := h2.2 hr
  by_cases hmem : r ∈ P.routes
  · exact ep_addRoute_mem_mono P _ hmem
  · have hcond : rc.feas = true ∧ resolveAll P.g (r.map Stop.idx) ∉ P.routes := by
      rw [resolveAll_map_idx]; exact ⟨hf, hmem⟩
    rw [addRoute_accept P _ rc h1 hcond, resolveAll_map_idx]
    exact List.mem_append_right _ (List.mem_singleton_self _)

/-- an offer list that contains (the index form of) a valid route leaves that route in the pool -/
theorem offerFrom_valid_mem (P : PathInst) (cap init : ℚ) (hc : P.g.cap = some cap)
    (hi : P.g.init = some init) (rs : List (List Stop)) (r : List ℕ) (hr : ValidRoute P.g cap init r)
    (hmem : r.map Stop.idx ∈ rs) : r ∈ (offerFrom P rs).routes := by
  induction rs generalizing P with
  | nil => cases hmem
  | cons s rs ih =>
    rw [offerFrom_cons]
    rcases List.mem_cons.1 hmem with rfl | hm
    · exact offerFrom_mem_mono _ rs (ep_addRoute_valid_mem P cap init hc hi r hr)
    · have hg' := ep_addRoute_g P s
      exact ih (P.addRoute s).1 (by rw [hg']; exact hc) (by rw [hg']; exact hi) (by rw [hg']; exact hr) hm

/-! ## non-vacuity -/

/-- executable check of `C15.Inv` -/
def ep_invB (g : Graph) : Bool :=
  decide g.names.Nodup && g.nodes.all (fun n => leE n.lo n.hi) && decide (g.arcs.map (·.1)).Nodup &&
  g.arcs.all fun e =>
    match g.nodes[e.1.1]?, g.nodes[e.1.2]? with
    | some ni, some nj => decide (ni.name = e.2.orig) && decide (nj.name = e.2.dest) &&
        leE (ni.lo + e.2.time) nj.hi
    | _, _ => false

theorem ep_inv_of_invB (g : Graph) (h : ep_invB g = true) : C15.Inv g := by
  unfold ep_invB at h
  simp only [Bool.and_eq_true, decide_eq_true_eq, List.all_eq_true] at h
  obtain ⟨⟨⟨h1, h2⟩, h3⟩, h4⟩ := h
  refine ⟨h1, h2, h3, ?_⟩
  intro e he
  have := h4 e he
  cases e1 : g.nodes[e.1.1]? with
  | none => simp [e1] at this
  | some ni =>
    cases e2 : g.nodes[e.1.2]? with
    | none => simp [e1, e2] at this
    | some nj =>
      simp only [e1, e2, Bool.and_eq_true, decide_eq_true_eq] at this
      exact ⟨ni, nj, rfl, rfl, this.1.1, this.1.2, this.2⟩

theorem smallG_inv : C15.Inv smallG := ep_inv_of_invB smallG (by decide +kernel)

/-- on `examples/small.py` (`smallG`): the pool obtained by offering D-1-2-3-D, the invalid D-3-2-D, D-1-D by
    names, a duplicate and a raising candidate holds exactly two routes, and `pathWF_of_poolInv` applies -/
def smallOffers : List (List Stop) :=
  [[.idx 0, .idx 1, .idx 2, .idx 3, .idx 0], [.idx 0, .idx 3, .idx 2, .idx 0],
   [.name "D", .name "1", .name "D"], [.idx 0, .idx 1, .idx 0], [.idx 0, .name "nope", .idx 0]]

example : (offerFrom { g := smallG } smallOffers).routes = [[0, 1, 2, 3, 0], [0, 1, 0]] ∧
    (offerFrom { g := smallG } smallOffers).costs = [5, 2] ∧
    C02.PathWF (offerFrom { g := smallG } smallOffers) ∧
    ∃ Q k, (offerFrom { g := smallG } smallOffers).data.getQubo
      (offerFrom { g := smallG } smallOffers).suffPenalty false none = .ok (Q, k) :=
  ⟨by decide +kernel, by decide +kernel,
    pathWF_of_poolInv _ (offerFrom_inv _ smallG_inv (poolInv_init _) _),
    path_getQubo_ok _ (offerFrom_inv _ smallG_inv (poolInv_init _) _) false none⟩

end Vrp.C06
