import VrpProofs.Props.C06
import VrpProofs.Props.C06b

/-!
# C06c — the path-based route check when the vehicle data are NOT set (excluded point of C06)

The C06 theorems (`checkRoute_idx_iff_valid`, `checkRoute_cost_visits`, …) assume `g.cap = some cap` and
`g.init = some init`.  Here the complementary, excluded point is stated and proved for the model:

* `checkRoute_unset_raises`: capacity or initial loading unset, and the route passes the preliminary tests
  (at least two stops; the eagerly resolved names at positions 0, 1 and −1 are known; the first and the last stop
  are position 0) ⇒ the model returns `.error .type`;
* `checkRoute_prelim_independent`: when the preliminary tests do not pass, the result does not depend on
  capacity / initial loading (nor on the arcs): it is the same for every graph with the same nodes;
* `checkRoute_type_error_iff`: `.error .type` is returned in exactly that situation.

**Model vs. code at this excluded point.**  The real `check_route` raises `TypeError` only once its loop reaches a
load comparison (`load > capacity` with `capacity is None`, or arithmetic on `initial_loading is None`) — i.e. on
the first leg whose arc exists and whose time-window test passes; a route whose first leg has no arc, or arrives
late, or revisits a node before any such leg, is rejected with `False` by the code without raising.  The model
raises as soon as the preliminary tests pass.  So the model is *stricter* than the code here (it raises on a
superset of the inputs).  This point is excluded from the correspondence check (the harness always sets the
vehicle data before offering routes) and from the C06 theorems, so the difference is not exercised.

(Third audit: the lazy behaviour of the real code at this excluded point is modelled exactly by `checkRouteO` in
`VrpModel/PathBased.lean` and characterised in `Props/C06d.lean`; this file keeps the coarser statement about `checkRoute`.)
-/
namespace Vrp.C06
open Vrp

/-- the preliminary tests of `check_route` pass: at least two stops; the first, the second and the last stop
    resolve (a name at one of those three positions is looked up before anything else is tested); the first and
    the last one are position 0 -/
def PrelimOK (g : Graph) (route : List Stop) : Prop :=
  2 ≤ route.length ∧ route.head?.map (resolve g) = some (.ok 0) ∧
  (∃ j, route[1]?.map (resolve g) = some (.ok j)) ∧ route.getLast?.map (resolve g) = some (.ok 0)

/-- stops are resolved against the node list only -/
theorem resolve_congr_nodes {g g' : Graph} (h : g'.nodes = g.nodes) (s : Stop) : resolve g' s = resolve g s := by
  cases s with
  | idx i => rfl
  | name nm => simp only [resolve, Graph.indexOf?_congr_nodes h nm]

theorem prelimOK_congr_nodes {g g' : Graph} (h : g'.nodes = g.nodes) (route : List Stop) :
    PrelimOK g' route ↔ PrelimOK g route := by
  have : resolve g' = resolve g := funext (resolve_congr_nodes h)
  unfold PrelimOK
  rw [this]

/-- a failed name lookup is a `ValueError` -/
theorem resolve_error {g : Graph} {s : Stop} {e : Err} (h : resolve g s = .error e) : e = .value := by
  cases s with
  | idx i => cases h
  | name nm =>
    cases hi : g.indexOf? nm with
    | some i => simp [resolve, hi] at h
    | none =>
      simp only [resolve, hi, Except.error.injEq] at h
      exact h.symm

/-- shape of a route that passes the preliminary tests -/
theorem PrelimOK.shape {g : Graph} {route : List Stop} (h : PrelimOK g route) :
    ∃ first second tail, route = first :: second :: tail ∧ resolve g first = .ok 0 ∧
      (∃ j, ((second :: tail).map (resolve g)).head? = some (.ok j)) ∧
      ((second :: tail).map (resolve g)).getLast? = some (.ok 0) := by
  obtain ⟨hlen, hf, ⟨j, hs⟩, hl⟩ := h
  match route, hlen with
  | first :: second :: tail, _ =>
    refine ⟨first, second, tail, rfl, ?_, ⟨j, ?_⟩, ?_⟩
    · simpa using hf
    · simpa using hs
    · rw [List.getLast?_map]
      rw [List.getLast?_cons_cons] at hl
      exact hl

/-- **the excluded point**: vehicle data unset and the preliminary tests pass ⇒ `TypeError` (in the model; the
    code raises it at the first load comparison, see the module comment) -/
theorem checkRoute_unset_raises (g : Graph) (route : List Stop) (hp : PrelimOK g route)
    (hu : g.cap = none ∨ g.init = none) : checkRoute g route = .error .type := by
  obtain ⟨first, second, tail, rfl, hf, hh, hl⟩ := hp.shape
  rw [checkRoute_eq g first (second :: tail) 0 0 hf hh hl]
  simp only [ne_eq, not_true_eq_false, or_self, if_false]
  rcases hu with hu | hu
  · rw [hu]
  · rw [hu]; cases g.cap <;> rfl

/-- with the vehicle data set, the same routes enter the main loop -/
theorem checkRoute_set_enters_loop (g : Graph) (route : List Stop) (hp : PrelimOK g route) (cap init : ℚ)
    (hc : g.cap = some cap) (hi : g.init = some init) :
    ∃ first rest, route = first :: rest ∧ checkRoute g route = checkLoop g cap 0 rest (g.lo 0) init 0 [] := by
  obtain ⟨first, second, tail, rfl, hf, hh, hl⟩ := hp.shape
  refine ⟨first, second :: tail, rfl, ?_⟩
  rw [checkRoute_eq g first (second :: tail) 0 0 hf hh hl]
  simp only [ne_eq, not_true_eq_false, or_self, if_false, hc, hi]

/-- when the preliminary tests do not pass, the result is a rejection or a `ValueError`, the same for every graph
    with these nodes -/
theorem prelim_cases (g : Graph) (route : List Stop) :
    PrelimOK g route ∨
      ∃ r : Except Err RouteCheck, (r = .ok ⟨false, 0, []⟩ ∨ r = .error .value) ∧
        ∀ g' : Graph, g'.nodes = g.nodes → checkRoute g' route = r := by
  by_cases hlen : route.length < 2
  · exact Or.inr ⟨_, Or.inl rfl, fun g' _ => short_route_rejected g' route hlen⟩
  obtain ⟨first, second, tail, rfl⟩ : ∃ first second tail, route = first :: second :: tail := by
    match route, hlen with
    | [], h => exact absurd (by simp) h
    | [_], h => exact absurd (by simp) h
    | first :: second :: tail, _ => exact ⟨first, second, tail, rfl⟩
  have hne : second :: tail ≠ [] := by simp
  cases hf : resolve g first with
  | error e =>
    refine Or.inr ⟨.error .value, Or.inr rfl, fun g' hn => ?_⟩
    have hf' : resolve g' first = .error e := by rw [resolve_congr_nodes hn]; exact hf
    cases resolve_error hf
    unfold checkRoute
    simp [hf']
  | ok f =>
    cases hs : resolve g second with
    | error e =>
      refine Or.inr ⟨.error .value, Or.inr rfl, fun g' hn => ?_⟩
      have hf' : resolve g' first = .ok f := by rw [resolve_congr_nodes hn]; exact hf
      have hs' : resolve g' second = .error e := by rw [resolve_congr_nodes hn]; exact hs
      cases resolve_error hs
      unfold checkRoute
      simp [hf', hs']
    | ok j =>
      cases hl : resolve g ((second :: tail).getLast hne) with
      | error e =>
        refine Or.inr ⟨.error .value, Or.inr rfl, fun g' hn => ?_⟩
        have hf' : resolve g' first = .ok f := by rw [resolve_congr_nodes hn]; exact hf
        have hs' : resolve g' second = .ok j := by rw [resolve_congr_nodes hn]; exact hs
        have hl' : resolve g' ((second :: tail).getLast hne) = .error e := by
          rw [resolve_congr_nodes hn]; exact hl
        cases resolve_error hl
        unfold checkRoute
        simp only [List.length_cons, List.head?_cons, Option.map_some, hf', hs',
          List.getLast?_eq_some_getLast hne, hl']
        simp
      | ok l =>
        have key : ∀ g' : Graph, g'.nodes = g.nodes → checkRoute g' (first :: second :: tail) =
            if f ≠ 0 ∨ l ≠ 0 then .ok ⟨false, 0, []⟩
            else match g'.cap, g'.init with
              | some cap, some init => checkLoop g' cap f (second :: tail) (g'.lo 0) init 0 []
              | _, _ => .error .type := by
          intro g' hn
          refine checkRoute_eq g' first (second :: tail) f l (by rw [resolve_congr_nodes hn]; exact hf)
            ⟨j, by simp [resolve_congr_nodes hn, hs]⟩ ?_
          rw [List.getLast?_map, List.getLast?_eq_some_getLast hne]
          simp [resolve_congr_nodes hn, hl]
        by_cases h0 : f ≠ 0 ∨ l ≠ 0
        · exact Or.inr ⟨_, Or.inl rfl, fun g' hn => by rw [key g' hn, if_pos h0]⟩
        · left
          have hf0 : f = 0 := by by_contra hx; exact h0 (Or.inl hx)
          have hl0 : l = 0 := by by_contra hx; exact h0 (Or.inr hx)
          subst hf0; subst hl0
          refine ⟨by simp, by simp [hf], ⟨j, by simp [hs]⟩, ?_⟩
          rw [List.getLast?_cons_cons, List.getLast?_eq_some_getLast hne]
          simp [hl]

/-- **complement**: when the preliminary tests do not pass, the result does not depend on the vehicle data (nor on
    the arcs) -/
theorem checkRoute_prelim_independent (g g' : Graph) (hn : g'.nodes = g.nodes) (route : List Stop)
    (hp : ¬ PrelimOK g route) : checkRoute g' route = checkRoute g route := by
  rcases prelim_cases g route with h | ⟨r, _, hr⟩
  · exact absurd h hp
  · rw [hr g' hn, hr g rfl]

/-- in particular setting, changing or clearing capacity / initial loading does not change it -/
theorem checkRoute_prelim_independent_data (g : Graph) (c i : Option ℚ) (route : List Stop)
    (hp : ¬ PrelimOK g route) : checkRoute { g with cap := c, init := i } route = checkRoute g route :=
  checkRoute_prelim_independent g { g with cap := c, init := i } rfl route hp

/-- the main loop raises only `ValueError` (an unknown name further along the route) -/
theorem checkLoop_error (g : Graph) (cap : ℚ) (rest : List Stop) : ∀ (cur : ℕ) (time load cost : ℚ) (vis : List ℕ)
    (e : Err), checkLoop g cap cur rest time load cost vis = .error e → e = .value := by
  induction rest with
  | nil => intro cur time load cost vis e h; simp [checkLoop] at h
  | cons nxt rest ih =>
    intro cur time load cost vis e h
    unfold checkLoop at h
    split_ifs at h
    cases hr : resolve g nxt with
    | error e' =>
      rw [hr] at h
      simp only [Except.error.injEq] at h
      subst h
      exact resolve_error hr
    | ok j =>
      rw [hr] at h
      simp only at h
      split at h
      · cases h
      · exact ih _ _ _ _ _ _ h

/-- **`TypeError` characterised**: the model returns `.error .type` exactly when the preliminary tests pass and
    capacity or initial loading is unset -/
theorem checkRoute_type_error_iff (g : Graph) (route : List Stop) :
    checkRoute g route = .error .type ↔ (PrelimOK g route ∧ (g.cap = none ∨ g.init = none)) := by
  constructor
  · intro h
    rcases prelim_cases g route with hp | ⟨r, hr, hall⟩
    · refine ⟨hp, ?_⟩
      cases hc : g.cap with
      | none => exact Or.inl rfl
      | some cap =>
        cases hi : g.init with
        | none => exact Or.inr rfl
        | some init =>
          exfalso
          obtain ⟨first, rest, _, heq⟩ := checkRoute_set_enters_loop g route hp cap init hc hi
          rw [heq] at h
          exact absurd (checkLoop_error g cap rest _ _ _ _ _ _ h) (by decide)
    · rw [hall g rfl] at h
      rcases hr with rfl | rfl <;> cases h
  · rintro ⟨hp, hu⟩
    exact checkRoute_unset_raises g route hp hu

/-! ## non-vacuity -/

/-- the error of a reply, for evaluation (`RouteCheck` has no decidable equality) -/
def nv_errOf (r : Except Err RouteCheck) : Option Err := match r with | .error e => some e | .ok _ => none

theorem nv_errOf_eq {r : Except Err RouteCheck} {e : Err} (h : nv_errOf r = some e) : r = .error e := by
  cases r with
  | error e' => simp only [nv_errOf, Option.some.injEq] at h; rw [h]
  | ok a => cases h

/-- `examples/small.py` without vehicle data -/
def smallUnset : Graph := { smallG with cap := none, init := none }

/-- hypotheses of `checkRoute_unset_raises` hold for the route D-1-2-3-D given by names; the model raises; with
    the data set the same route is accepted at cost 5 -/
example : PrelimOK smallUnset [.name "D", .name "1", .name "2", .name "3", .name "D"] ∧
    checkRoute smallUnset [.name "D", .name "1", .name "2", .name "3", .name "D"] = .error .type ∧
    (checkRoute smallG [.name "D", .name "1", .name "2", .name "3", .name "D"]).toOption.map
      (fun rc => (rc.feas, rc.cost)) = some (true, 5) := by
  have hp : PrelimOK smallUnset [.name "D", .name "1", .name "2", .name "3", .name "D"] :=
    ⟨by decide, by decide +kernel, ⟨1, by decide +kernel⟩, by decide +kernel⟩
  exact ⟨hp, checkRoute_unset_raises _ _ hp (Or.inl rfl), by decide +kernel⟩

/-- where the model is stricter than the code: a route whose FIRST leg already fails.  `smallG` has no arc
    `D → D`; for D-D-D the code answers `False` (no load comparison is reached), the model raises -/
example : checkRoute smallUnset [.idx 0, .idx 0, .idx 0] = .error .type ∧
    (checkRoute smallG [.idx 0, .idx 0, .idx 0]).toOption.map (·.feas) = some false :=
  ⟨nv_errOf_eq (by decide +kernel), by decide +kernel⟩

/-- hypotheses of `checkRoute_prelim_independent` hold for a route that does not end at the depot, and for one
    with an unknown second name: same answer with and without vehicle data -/
example : ¬ PrelimOK smallG [.name "D", .name "1", .name "2"] ∧
    checkRoute smallUnset [.name "D", .name "1", .name "2"] = checkRoute smallG [.name "D", .name "1", .name "2"] ∧
    checkRoute smallUnset [.name "D", .name "x", .name "D"] = .error .value ∧
    checkRoute smallG [.name "D", .name "x", .name "D"] = .error .value := by
  have hp : ¬ PrelimOK smallG [.name "D", .name "1", .name "2"] := by
    rintro ⟨_, _, _, h⟩
    revert h
    decide +kernel
  exact ⟨hp, checkRoute_prelim_independent smallG smallUnset rfl _ hp, nv_errOf_eq (by decide +kernel),
    nv_errOf_eq (by decide +kernel)⟩

end Vrp.C06
