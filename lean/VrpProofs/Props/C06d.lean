import VrpProofs.Props.C06c

/-!
# C06d — the path-based route check with the vehicle data as they are (`checkRouteO`, `addRouteO`)

`checkRoute` (the model used by C06–C06c) raises `.error .type` as soon as the preliminary tests pass when capacity
or initial loading is unset.  The code is lazier: it raises `TypeError` only when a leg reaches the load
arithmetic of `check_arc`, i.e. after the arc lookup and the time-window test of that leg.  `checkRouteO` follows
that order.  Here:

* `checkRouteO_eq_of_set`, `addRouteO_eq_of_set`: with both data set the two models agree (every C06 theorem
  transfers);
* `checkRouteO_type_error_iff`: `.error .type` ⇔ preliminary tests pass ∧ data unset ∧ `reachesLoad g route`;
* `checkRouteO_unset_no_type_error`: otherwise the answer is the one `checkRoute` gives with ANY vehicle data set;
* `checkRouteO_le_model`, `checkRouteO_unset_not_accepted`: nothing is accepted without vehicle data.

**Remark (the walk is one leg long).**  With unset data the walk along the legs never gets past the first leg:
the first leg starts at position 0 with nothing visited (no repeated stop possible), its destination is one of the
eagerly resolved stops (no unknown name possible once the preliminary tests pass), and then either its arc is
missing / the arrival is late (rejection) or the load arithmetic is executed (`TypeError`).  So "the walk reaches
a leg whose arc exists and whose arrival is in time before any repeated stop / missing arc / late arrival /
unknown name" is a statement about the first leg only, and `reachesLoad` is not recursive.
-/
namespace Vrp.C06
open Vrp

/-! ## both data set: the two models agree -/

theorem checkArcO_set (g : Graph) (c t l : ℚ) (i j : ℕ) :
    checkArcO g (some c) t (some l) i j = .ok (checkArc g c t l i j) := by
  unfold checkArcO checkArc
  cases g.arc? i j with
  | none => rfl
  | some a =>
    simp only
    split_ifs <;> rfl

theorem checkLoopO_set (g : Graph) (c : ℚ) (rest : List Stop) : ∀ (cur : ℕ) (t l cost : ℚ) (vis : List ℕ),
    checkLoopO g (some c) cur rest t (some l) cost vis = checkLoop g c cur rest t l cost vis := by
  induction rest with
  | nil => intro cur t l cost vis; rfl
  | cons nxt rest ih =>
    intro cur t l cost vis
    unfold checkLoopO checkLoop
    split_ifs
    · rfl
    · cases resolve g nxt with
      | error e => rfl
      | ok j =>
        simp only [checkArcO_set]
        cases checkArc g c t l cur j with
        | none => rfl
        | some p =>
          obtain ⟨t', l'⟩ := p
          simp only [ih]

/-- value of `checkRouteO` once the first stop, the second and the last one resolve (cf. `checkRoute_eq`) -/
theorem checkRouteO_eq (g : Graph) (first : Stop) (rest : List Stop) (f l : ℕ) (hf : resolve g first = .ok f)
    (hh : ∃ i, (rest.map (resolve g)).head? = some (.ok i))
    (hl : (rest.map (resolve g)).getLast? = some (.ok l)) :
    checkRouteO g (first :: rest) =
      if f ≠ 0 ∨ l ≠ 0 then .ok ⟨false, 0, []⟩
      else checkLoopO g g.cap f rest (g.lo 0) g.init 0 [] := by
  obtain ⟨i, hh⟩ := hh
  have hne : rest ≠ [] := by rintro rfl; simp at hh
  have hlen : ¬ ((first :: rest).length < 2) := by
    cases rest with
    | nil => exact absurd rfl hne
    | cons a b => simp
  rw [List.head?_map] at hh
  rw [List.getLast?_map] at hl
  unfold checkRouteO
  rw [if_neg hlen]
  simp only [hf, hh, hl]

/-- a route that passes the preliminary tests enters the loop with the data as they are -/
theorem checkRouteO_of_prelim (g : Graph) (route : List Stop) (hp : PrelimOK g route) :
    ∃ first second tail j, route = first :: second :: tail ∧ resolve g second = .ok j ∧
      checkRouteO g route = checkLoopO g g.cap 0 (second :: tail) (g.lo 0) g.init 0 [] := by
  obtain ⟨first, second, tail, rfl, hf, hh, hl⟩ := hp.shape
  obtain ⟨j, hj⟩ := hh
  refine ⟨first, second, tail, j, rfl, by simpa using hj, ?_⟩
  rw [checkRouteO_eq g first (second :: tail) 0 0 hf ⟨j, hj⟩ hl]
  simp only [ne_eq, not_true_eq_false, or_self, if_false]

/-- when the preliminary tests do not pass the two models agree (whatever the vehicle data) -/
theorem checkRouteO_of_not_prelim (g : Graph) (route : List Stop) (hp : ¬ PrelimOK g route) :
    checkRouteO g route = checkRoute g route := by
  by_cases hlen : route.length < 2
  · unfold checkRouteO checkRoute
    rw [if_pos hlen, if_pos hlen]
  obtain ⟨first, second, tail, rfl⟩ : ∃ first second tail, route = first :: second :: tail := by
    match route, hlen with
    | [], h => exact absurd (by simp) h
    | [_], h => exact absurd (by simp) h
    | first :: second :: tail, _ => exact ⟨first, second, tail, rfl⟩
  have hne : second :: tail ≠ [] := by simp
  cases hf : resolve g first with
  | error e =>
    unfold checkRouteO checkRoute
    simp [hf]
  | ok f =>
    cases hs : resolve g second with
    | error e =>
      unfold checkRouteO checkRoute
      simp [hf, hs]
    | ok j =>
      cases hl : resolve g ((second :: tail).getLast hne) with
      | error e =>
        unfold checkRouteO checkRoute
        simp only [List.length_cons, List.head?_cons, Option.map_some, hf, hs,
          List.getLast?_eq_some_getLast hne, hl]
      | ok l =>
        have hh : ∃ i, ((second :: tail).map (resolve g)).head? = some (.ok i) := ⟨j, by simp [hs]⟩
        have hl' : ((second :: tail).map (resolve g)).getLast? = some (.ok l) := by
          rw [List.getLast?_map, List.getLast?_eq_some_getLast hne]
          simp [hl]
        rw [checkRouteO_eq g first (second :: tail) f l hf hh hl',
          checkRoute_eq g first (second :: tail) f l hf hh hl']
        by_cases h0 : f ≠ 0 ∨ l ≠ 0
        · rw [if_pos h0, if_pos h0]
        · exfalso
          apply hp
          have hf0 : f = 0 := by by_contra hx; exact h0 (Or.inl hx)
          have hl0 : l = 0 := by by_contra hx; exact h0 (Or.inr hx)
          subst hf0; subst hl0
          refine ⟨by simp, by simp [hf], ⟨j, by simp [hs]⟩, ?_⟩
          rw [List.getLast?_cons_cons, List.getLast?_eq_some_getLast hne]
          simp [hl]

/-- **both data set ⇒ the lazy model is the model of C06** -/
theorem checkRouteO_eq_of_set (g : Graph) (route : List Stop) (c l : ℚ) (hc : g.cap = some c)
    (hi : g.init = some l) : checkRouteO g route = checkRoute g route := by
  by_cases hp : PrelimOK g route
  · obtain ⟨first, second, tail, j, rfl, _, heq⟩ := checkRouteO_of_prelim g _ hp
    obtain ⟨first', rest', hr, heq'⟩ := checkRoute_set_enters_loop g _ hp c l hc hi
    obtain ⟨-, rfl⟩ := List.cons.inj hr
    rw [heq, heq', hc, hi, checkLoopO_set]
  · exact checkRouteO_of_not_prelim g route hp

/-- the same for `add_route` -/
theorem addRouteO_eq_of_set (P : PathInst) (route : List Stop) (c l : ℚ) (hc : P.g.cap = some c)
    (hi : P.g.init = some l) : P.addRouteO route = P.addRoute route := by
  unfold PathInst.addRouteO PathInst.addRoute
  rw [checkRouteO_eq_of_set P.g route c l hc hi]

/-! ## data unset: when exactly `TypeError` is raised -/

/-- the leg `i → j` left at `time` reaches the load arithmetic of `check_arc`: its arc exists and the arrival
    (after waiting for the window to open) is not after the window's end -/
def arcInTime (g : Graph) (time : ℚ) (i j : ℕ) : Bool :=
  match g.arc? i j with
  | none => false
  | some a => !ltE (g.hi j) (maxR (time + a.time) (g.lo j))

/-- the walk of `check_route` reaches the load arithmetic: the first leg (from position 0, left when the depot
    opens, towards the second stop) has an arc and arrives in time.  See the module remark: with unset data no
    later leg is ever examined -/
def reachesLoad (g : Graph) (route : List Stop) : Bool :=
  match route with
  | _ :: nxt :: _ =>
    match resolve g nxt with
    | .ok j => arcInTime g (g.lo 0) 0 j
    | .error _ => false
  | _ => false

/-- `check_arc` with capacity or load unset: `TypeError` exactly on the legs that reach the load arithmetic,
    `False` on the others -/
theorem checkArcO_unset (g : Graph) (cap load : Option ℚ) (hu : cap = none ∨ load = none) (time : ℚ) (i j : ℕ) :
    checkArcO g cap time load i j = if arcInTime g time i j then .error .type else .ok none := by
  unfold checkArcO arcInTime
  cases g.arc? i j with
  | none => simp
  | some a =>
    simp only [Bool.not_eq_true']
    by_cases hlt : ltE (g.hi j) (maxR (time + a.time) (g.lo j)) = true
    · simp [hlt]
    · rcases hu with rfl | rfl
      · cases load <;> simp [hlt]
      · simp [hlt]

/-- with the data set, a leg that does not reach the load arithmetic is infeasible -/
theorem checkArc_of_not_inTime (g : Graph) (c t l : ℚ) (i j : ℕ) (h : arcInTime g t i j = false) :
    checkArc g c t l i j = none := by
  unfold arcInTime at h
  unfold checkArc
  cases ha : g.arc? i j with
  | none => rfl
  | some a =>
    rw [ha] at h
    simp only [Bool.not_eq_false'] at h
    simp only [h, if_true]

/-- one step of the loop with capacity or load unset -/
theorem checkLoopO_unset_cons (g : Graph) (cap load : Option ℚ) (hu : cap = none ∨ load = none) (cur : ℕ)
    (nxt : Stop) (rest : List Stop) (time cost : ℚ) (vis : List ℕ) (j : ℕ) (hj : resolve g nxt = .ok j)
    (hv : cur ∉ vis) :
    checkLoopO g cap cur (nxt :: rest) time load cost vis =
      if arcInTime g time cur j then .error .type else .ok ⟨false, cost, vis ++ [cur]⟩ := by
  unfold checkLoopO
  rw [if_neg hv]
  simp only [hj, checkArcO_unset g cap load hu]
  split_ifs <;> rfl

/-- **value of the lazy model with unset data** on the routes that pass the preliminary tests: `TypeError` when
    the first leg reaches the load arithmetic, else the rejection `(False, 0, visits = {0})` -/
theorem checkRouteO_unset_eq (g : Graph) (route : List Stop) (hp : PrelimOK g route)
    (hu : g.cap = none ∨ g.init = none) :
    checkRouteO g route = if reachesLoad g route then .error .type else .ok ⟨false, 0, [0]⟩ := by
  obtain ⟨first, second, tail, j, rfl, hj, heq⟩ := checkRouteO_of_prelim g route hp
  rw [heq, checkLoopO_unset_cons g g.cap g.init hu 0 second tail (g.lo 0) 0 [] j hj (by simp)]
  simp only [reachesLoad, hj, List.nil_append]

/-- **`TypeError` characterised** for the lazy model: the preliminary tests pass, capacity or initial loading is
    unset, and the first leg reaches the load arithmetic (its arc exists and it arrives in time) -/
theorem checkRouteO_type_error_iff (g : Graph) (route : List Stop) :
    checkRouteO g route = .error .type ↔
      (PrelimOK g route ∧ (g.cap = none ∨ g.init = none) ∧ reachesLoad g route = true) := by
  constructor
  · intro h
    by_cases hp : PrelimOK g route
    · have hu : g.cap = none ∨ g.init = none := by
        cases hc : g.cap with
        | none => exact Or.inl rfl
        | some c =>
          cases hi : g.init with
          | none => exact Or.inr rfl
          | some l =>
            exfalso
            rw [checkRouteO_eq_of_set g route c l hc hi] at h
            have := ((checkRoute_type_error_iff g route).1 h).2
            rw [hc, hi] at this
            simp at this
      refine ⟨hp, hu, ?_⟩
      rw [checkRouteO_unset_eq g route hp hu] at h
      by_contra hr
      rw [if_neg hr] at h
      cases h
    · rw [checkRouteO_of_not_prelim g route hp] at h
      exact absurd ((checkRoute_type_error_iff g route).1 h).1 hp
  · rintro ⟨hp, hu, hr⟩
    rw [checkRouteO_unset_eq g route hp hu, if_pos hr]

/-- **the vehicle data never matter for routes that fail earlier**: with unset data, when the lazy model does not
    raise `TypeError`, its answer is the answer of `checkRoute` on the same graph with ANY vehicle data set -/
theorem checkRouteO_unset_no_type_error (g : Graph) (route : List Stop) (hu : g.cap = none ∨ g.init = none)
    (h : checkRouteO g route ≠ .error .type) (c l : ℚ) :
    checkRouteO g route = checkRoute { g with cap := some c, init := some l } route := by
  by_cases hp : PrelimOK g route
  · have hr : reachesLoad g route = false := by
      cases hr : reachesLoad g route with
      | false => rfl
      | true => exact absurd ((checkRouteO_type_error_iff g route).2 ⟨hp, hu, hr⟩) h
    rw [checkRouteO_unset_eq g route hp hu, hr]
    have hp' : PrelimOK { g with cap := some c, init := some l } route :=
      (prelimOK_congr_nodes (g := g) (g' := { g with cap := some c, init := some l }) rfl route).2 hp
    obtain ⟨first, second, tail, j, rfl, hj, -⟩ := checkRouteO_of_prelim g route hp
    obtain ⟨first', rest', hre, heq'⟩ :=
      checkRoute_set_enters_loop { g with cap := some c, init := some l } _ hp' c l rfl rfl
    obtain ⟨-, rfl⟩ := List.cons.inj hre
    rw [heq']
    have hj' : resolve { g with cap := some c, init := some l } second = .ok j := by
      rw [resolve_congr_nodes (g := g) (g' := { g with cap := some c, init := some l }) rfl]; exact hj
    have hin : arcInTime { g with cap := some c, init := some l } (g.lo 0) 0 j = false := by
      simp only [reachesLoad, hj] at hr
      exact hr
    unfold checkLoop
    simp only [List.not_mem_nil, if_false, hj', List.nil_append]
    rw [show Graph.lo { g with cap := some c, init := some l } 0 = g.lo 0 from rfl,
      checkArc_of_not_inTime _ c (g.lo 0) l 0 j hin]
    simp
  · rw [checkRouteO_of_not_prelim g route hp, checkRoute_prelim_independent_data g (some c) (some l) route hp]

/-- with unset data the lazy model answers `TypeError`, `ValueError` or a rejection -/
theorem checkRouteO_unset_cases (g : Graph) (route : List Stop) (hu : g.cap = none ∨ g.init = none) :
    checkRouteO g route = .error .type ∨ checkRouteO g route = .error .value ∨
      ∃ cost vis, checkRouteO g route = .ok ⟨false, cost, vis⟩ := by
  by_cases hp : PrelimOK g route
  · rw [checkRouteO_unset_eq g route hp hu]
    split_ifs
    · exact Or.inl rfl
    · exact Or.inr (Or.inr ⟨0, [0], rfl⟩)
  · rw [checkRouteO_of_not_prelim g route hp]
    rcases prelim_cases g route with h | ⟨r, hr, hall⟩
    · exact absurd h hp
    · rw [hall g rfl]
      rcases hr with rfl | rfl
      · exact Or.inr (Or.inr ⟨0, [], rfl⟩)
      · exact Or.inr (Or.inl rfl)

/-- **no route is accepted without vehicle data** -/
theorem checkRouteO_unset_not_accepted (g : Graph) (route : List Stop) (hu : g.cap = none ∨ g.init = none)
    (rc : RouteCheck) (h : checkRouteO g route = .ok rc) : rc.feas = false := by
  rcases checkRouteO_unset_cases g route hu with h' | h' | ⟨cost, vis, h'⟩
  · rw [h'] at h; cases h
  · rw [h'] at h; cases h
  · rw [h'] at h
    cases h
    rfl

/-- precise form: where the strict model raises, the lazy one raises too or returns the first-leg rejection -/
theorem checkRouteO_le_model_precise (g : Graph) (route : List Stop) (h : checkRoute g route = .error .type) :
    checkRouteO g route = .error .type ∨ checkRouteO g route = .ok ⟨false, 0, [0]⟩ := by
  obtain ⟨hp, hu⟩ := (checkRoute_type_error_iff g route).1 h
  rw [checkRouteO_unset_eq g route hp hu]
  split_ifs
  · exact Or.inl rfl
  · exact Or.inr rfl

/-- **the strict model is an upper bound**: whenever `checkRoute` answers `.error .type`, the lazy model answers
    `.error .type`, a rejection or `.error .value` — never an acceptance -/
theorem checkRouteO_le_model (g : Graph) (route : List Stop) (h : checkRoute g route = .error .type) :
    checkRouteO g route = .error .type ∨ (∃ cost vis, checkRouteO g route = .ok ⟨false, cost, vis⟩) ∨
      checkRouteO g route = .error .value := by
  rcases checkRouteO_le_model_precise g route h with h' | h'
  · exact Or.inl h'
  · exact Or.inr (Or.inl ⟨0, [0], h'⟩)

/-- conversely the lazy model raises `TypeError` only where the strict one does -/
theorem checkRouteO_type_error_model (g : Graph) (route : List Stop) (h : checkRouteO g route = .error .type) :
    checkRoute g route = .error .type := by
  obtain ⟨hp, hu, -⟩ := (checkRouteO_type_error_iff g route).1 h
  exact checkRoute_unset_raises g route hp hu

/-- `add_route` without vehicle data never changes the pool -/
theorem addRouteO_unset_state (P : PathInst) (route : List Stop) (hu : P.g.cap = none ∨ P.g.init = none) :
    (P.addRouteO route).1 = P := by
  unfold PathInst.addRouteO
  cases hr : checkRouteO P.g route with
  | error e => rfl
  | ok rc =>
    have := checkRouteO_unset_not_accepted P.g route hu rc hr
    simp [this]

/-! ## non-vacuity -/

/-- a reply as plain data, for evaluation (`RouteCheck` has no decidable equality) -/
def nv_view (r : Except Err RouteCheck) : Err ⊕ (Bool × ℚ × List ℕ) :=
  match r with
  | .error e => .inl e
  | .ok rc => .inr (rc.feas, rc.cost, rc.visits)

/-- D-1-2-3-D by names on `examples/small.py` without vehicle data: `TypeError` in both models; the hypotheses
    of `checkRouteO_type_error_iff` hold (the first leg D → 1 exists and arrives at time 1 ≤ 7) -/
example : reachesLoad smallUnset [.name "D", .name "1", .name "2", .name "3", .name "D"] = true ∧
    checkRouteO smallUnset [.name "D", .name "1", .name "2", .name "3", .name "D"] = .error .type ∧
    checkRoute smallUnset [.name "D", .name "1", .name "2", .name "3", .name "D"] = .error .type :=
  ⟨by decide +kernel, nv_errOf_eq (by decide +kernel), nv_errOf_eq (by decide +kernel)⟩

/-- the route of C06c's "where the model is stricter" example: no arc D → D, so the lazy model rejects D-D-D
    (as the code does) where the strict model raises; same for D-D -/
example : nv_view (checkRouteO smallUnset [.idx 0, .idx 0, .idx 0]) = .inr (false, 0, [0]) ∧
    checkRoute smallUnset [.idx 0, .idx 0, .idx 0] = .error .type ∧
    reachesLoad smallUnset [.idx 0, .idx 0, .idx 0] = false ∧
    nv_view (checkRouteO smallUnset [.idx 0, .idx 0]) = .inr (false, 0, [0]) ∧
    checkRoute smallUnset [.idx 0, .idx 0] = .error .type :=
  ⟨by decide +kernel, nv_errOf_eq (by decide +kernel), by decide +kernel, by decide +kernel,
    nv_errOf_eq (by decide +kernel)⟩

/-- a late first leg: with the depot opening at 5 (graph `lateDepotG` of C06 without vehicle data) the leg D → b
    arrives at 6 > 3: rejection in the lazy model, `TypeError` in the strict one; D → a arrives at 6 ≤ 6:
    `TypeError` in both -/
example : nv_view (checkRouteO { lateDepotG with cap := none, init := none } [.idx 0, .idx 2, .idx 0]) =
      .inr (false, 0, [0]) ∧
    checkRoute { lateDepotG with cap := none, init := none } [.idx 0, .idx 2, .idx 0] = .error .type ∧
    checkRouteO { lateDepotG with cap := none, init := none } [.idx 0, .idx 1, .idx 0] = .error .type :=
  ⟨by decide +kernel, nv_errOf_eq (by decide +kernel), nv_errOf_eq (by decide +kernel)⟩

/-- only ONE datum unset: capacity unset, initial loading 6 — same answers (the `TypeError` then comes from
    `load > None`) -/
example : checkRouteO { smallG with cap := none } [.idx 0, .idx 2, .idx 0] = .error .type ∧
    nv_view (checkRouteO { smallG with cap := none } [.idx 0, .idx 0, .idx 0]) = .inr (false, 0, [0]) ∧
    checkRouteO { smallG with init := none } [.idx 0, .idx 2, .idx 0] = .error .type :=
  ⟨nv_errOf_eq (by decide +kernel), by decide +kernel, nv_errOf_eq (by decide +kernel)⟩

/-- D-2-D on `smallUnset`: the arc D → 2 exists and arrives at 2 ∈ [2, 4], so the load arithmetic IS reached and
    the lazy model raises `TypeError` (this route is not a rejection) -/
example : checkRouteO smallUnset [.idx 0, .idx 2, .idx 0] = .error .type ∧
    reachesLoad smallUnset [.idx 0, .idx 2, .idx 0] = true :=
  ⟨nv_errOf_eq (by decide +kernel), by decide +kernel⟩

/-- hypotheses of `checkRouteO_unset_no_type_error` hold for D-D-D: same answer as the strict model with data -/
example : checkRouteO smallUnset [.idx 0, .idx 0, .idx 0] = checkRoute smallG [.idx 0, .idx 0, .idx 0] :=
  checkRouteO_unset_no_type_error smallUnset _ (Or.inl rfl)
    (fun h => absurd (congrArg nv_errOf h) (by decide +kernel)) 6 6

/-- hypotheses of `checkRouteO_eq_of_set` hold on `smallG`; the route D-1-2-3-D is accepted at cost 5 by the
    lazy model too -/
example : (checkRouteO smallG [.name "D", .name "1", .name "2", .name "3", .name "D"]).toOption.map
      (fun rc => (rc.feas, rc.cost)) = some (true, 5) := by
  rw [checkRouteO_eq_of_set smallG _ 6 6 rfl rfl]
  decide +kernel

end Vrp.C06
