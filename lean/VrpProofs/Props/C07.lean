import VrpModel.SeqBased
import VrpProofs.Props.C18
import VrpProofs.Props.C02
import VrpProofs.Lemmas.SeqWalksProto
import VrpProofs.Lemmas.SeqBridge

/-!
# C07 — Sequence-based constraints describe per-vehicle walks with absorbing depot
-/
namespace Vrp.C07
open Vrp Finset

/-- per-vehicle walks: `w v p` is the node vehicle `v` occupies at position `p` -/
structure Walk (I : SeqInst) (w : ℕ → ℕ → ℕ) : Prop where
  lt : ∀ v < I.V, ∀ p < I.L, w v p < I.g.nodes.length
  start : ∀ v < I.V, w v 0 = 0
  stop : ∀ v < I.V, w v (I.L - 1) = 0
  /-- consecutive positions are joined by existing arcs (staying at the depot uses the self-arc (0,0)) -/
  arcs : ∀ v < I.V, ∀ p, p + 1 < I.L → I.g.hasArc (w v p) (w v (p + 1)) = true
  /-- once back at the depot (position ≥ 1) the vehicle stays there -/
  absorb : ∀ v < I.V, ∀ p, 1 ≤ p → p + 1 < I.L → w v p = 0 → w v (p + 1) = 0
  /-- every customer is visited exactly once overall -/
  once : ∀ k, 1 ≤ k → k < I.g.nodes.length →
    ((range I.L ×ˢ range I.V).filter (fun pv => w pv.2 pv.1 = k)).card = 1

/-- the 0/1 vector of a walk assignment: variable `k = (v,p,n)` is 1 iff vehicle `v` is at node `n` at position `p` -/
def indicator (I : SeqInst) (w : ℕ → ℕ → ℕ) : Vec := fun k =>
  match I.varTuple k with
  | some (v, p, n) => if w v p = n then 1 else 0
  | none => 0

/-! ## bridge to the tuple-level prototype (`Vrp.P7`, `VrpProofs/Lemmas/SeqBridge.lean`) -/

theorem walk_toP7 (I : SeqInst) (w : ℕ → ℕ → ℕ) : (toP7 I).Walk w ↔ Walk I w :=
  ⟨fun h => ⟨h.lt, h.start, h.stop, h.arcs, h.absorb, h.once⟩,
   fun h => ⟨h.lt, h.start, h.stop, h.arcs, h.absorb, h.once⟩⟩

/-- the tuple-indexed view is the indicator of `w` ⇒ the flat vector is the indicator vector -/
theorem indicator_of_isInd (I : SeqInst) (x : Vec) (w : ℕ → ℕ → ℕ)
    (hind : (toP7 I).IsInd (yOf I x) w) : ∀ k < I.vars.length, x k = indicator I w k := by
  intro k hk
  unfold indicator
  cases ht : I.varTuple k with
  | none =>
    unfold SeqInst.varTuple at ht
    rw [List.getElem?_eq_getElem hk] at ht
    exact absurd ht (by simp)
  | some u =>
    obtain ⟨v, p, n⟩ := u
    have hidx := (C18.seq_index_tuple_inverse I (v, p, n) k).2 ht
    have hmem := (C18.seq_vars_mem_iff I (v, p, n)).1 (seq_varIndex_some hidx).2
    simp only
    rw [← yOf_some (x := x) hidx]
    exact hind v hmem.1 p hmem.2.1 n hmem.2.2.1

/-- the flat vector is the indicator vector of a walk ⇒ the tuple-indexed view is its indicator -/
theorem isInd_of_indicator (I : SeqInst) (hL : 3 ≤ I.L) (x : Vec) (w : ℕ → ℕ → ℕ) (hw : Walk I w)
    (hx : ∀ k < I.vars.length, x k = indicator I w k) : (toP7 I).IsInd (yOf I x) w := by
  have hag := ((toP7 I).walk_imp_feasible hL (fun v p n => if w v p = n then 1 else 0) w
    ((walk_toP7 I w).2 hw) (fun _ _ _ _ _ _ => rfl)).1
  intro v hv p hp n hn
  cases hk : I.varIndex (v, p, n) with
  | some k =>
    rw [yOf_some hk, hx k (seq_varIndex_some hk).1]
    unfold indicator
    rw [(C18.seq_index_tuple_inverse I (v, p, n) k).1 hk]
  | none =>
    rw [yOf_none hk]
    cases hf : I.fixed p n with
    | none => exact absurd ⟨hv, hp, hn, hf⟩ ((C18.seq_index_none_iff I (v, p, n)).1 hk)
    | some f =>
      have := hag v hv p hp n hn f (by rw [toP7_fixed]; exact hf)
      simp only at this
      rw [this]
      rfl

/-! ## property theorems -/

/-- **soundness and completeness**: a binary vector satisfies all linear and quadratic constraints the
    object reports iff it is the indicator of per-vehicle walks with absorbing depot that visit every
    customer exactly once -/
theorem seq_feasible_iff_walks (I : SeqInst) (d : MPData) (h : I.data = some d) (hL : 3 ≤ I.L)
    (hN : 1 ≤ I.g.nodes.length) (x : Vec) (hx : IsBin d.n x) :
    d.feasibleB x = true ↔ ∃ w, Walk I w ∧ ∀ k < d.n, x k = indicator I w k := by
  have hn : d.n = I.vars.length := (seq_data_fields h).1
  rw [seq_feasible_iff_proto h x hx]
  constructor
  · rintro ⟨hc, hs, hq⟩
    obtain ⟨w, hw, hind⟩ := (toP7 I).feasible_imp_walk hL hN (yOf I x) (yOf_agree I x)
      (yOf_bin I x (hn ▸ hx)) hc hs hq
    exact ⟨w, (walk_toP7 I w).1 hw, hn ▸ indicator_of_isInd I x w hind⟩
  · rintro ⟨w, hw, hxw⟩
    have hind := isInd_of_indicator I hL x w hw (hn ▸ hxw)
    obtain ⟨_, _, hc, hs, hq⟩ := (toP7 I).walk_imp_feasible hL (yOf I x) w ((walk_toP7 I w).2 hw) hind
    exact ⟨hc, hs, hq⟩

/-- every assignment of `V` such walks of `L` positions is representable (its indicator is binary and feasible) -/
theorem seq_walks_representable (I : SeqInst) (d : MPData) (h : I.data = some d) (hL : 3 ≤ I.L)
    (hN : 1 ≤ I.g.nodes.length) (w : ℕ → ℕ → ℕ) (hw : Walk I w) :
    IsBin d.n (indicator I w) ∧ d.feasibleB (indicator I w) = true := by
  have hb : IsBin d.n (indicator I w) := by
    intro k _
    unfold indicator
    split
    · split_ifs <;> simp
    · simp
  exact ⟨hb, (seq_feasible_iff_walks I d h hL hN _ hb).2 ⟨w, hw, fun _ _ => rfl⟩⟩

/-! ## non-vacuity -/

/-- the constructor applied to the reachable graph `C15.nv_g` (depot + customers `a`, `b`), two vehicles, four
    positions: 12 free variables -/
def nv_S : SeqInst := ((SeqInst.new C15.nv_g false).setMaxVehicles 2).setMaxSeqLen 4

/-- `I.data = some d` by evaluation -/
def nv_Sd : MPData := nv_S.data.get (by decide +kernel)
theorem nv_S_data : nv_S.data = some nv_Sd := (Option.some_get _).symm

example : nv_Sd.n = 12 ∧ nv_Sd.m = 6 ∧ nv_Sd.R.length = 10 ∧ nv_S.g.nodes.length = 3 := by decide +kernel

/-- vehicle 0 drives `d, a, b, d`, vehicle 1 stays at the depot -/
def nv_w : ℕ → ℕ → ℕ := fun v p => if v = 0 then [0, 1, 2, 0].getD p 0 else 0

theorem nv_walk : Walk nv_S nv_w where
  lt := by decide +kernel
  start := by decide +kernel
  stop := by decide +kernel
  arcs := fun v hv p hp =>
    (by decide +kernel : ∀ v < 2, ∀ p < 3, nv_S.g.hasArc (nv_w v p) (nv_w v (p + 1)) = true) v hv p
      (by have : p + 1 < 4 := hp; omega)
  absorb := fun v hv p h1 hp =>
    (by decide +kernel : ∀ v < 2, ∀ p < 3, 1 ≤ p → nv_w v p = 0 → nv_w v (p + 1) = 0) v hv p
      (by have : p + 1 < 4 := hp; omega) h1
  once := fun k h1 h2 => by
    have h3 : nv_S.g.nodes.length = 3 := by decide +kernel
    have : k = 1 ∨ k = 2 := by omega
    rcases this with rfl | rfl <;> decide +kernel

/-- all hypotheses of `seq_walks_representable` hold; its conclusion on the concrete walk -/
theorem nv_repr : IsBin nv_Sd.n (indicator nv_S nv_w) ∧ nv_Sd.feasibleB (indicator nv_S nv_w) = true :=
  seq_walks_representable nv_S nv_Sd nv_S_data (by decide) (by decide +kernel) nv_w nv_walk

example : (List.range 12).map (indicator nv_S nv_w) = [0, 1, 1, 0, 0, 0, 0, 1, 0, 0, 1, 0] := by decide +kernel

/-- all hypotheses of `seq_feasible_iff_walks` hold for a literal binary vector; both sides occur:
    the vector of `nv_w` is feasible, hence a walk indicator; the vector `d, b, a, d` (no arc `b → a`) is not -/
def nv_x : Vec := vecOf [0, 1, 1, 0, 0, 0, 0, 1, 0, 0, 1, 0]
theorem nv_x_bin : IsBin nv_Sd.n nv_x := by unfold IsBin; decide +kernel

example : ∃ w, Walk nv_S w ∧ ∀ k < nv_Sd.n, nv_x k = indicator nv_S w k :=
  (seq_feasible_iff_walks nv_S nv_Sd nv_S_data (by decide) (by decide +kernel) nv_x nv_x_bin).1 (by decide +kernel)

example : ¬ ∃ w, Walk nv_S w ∧ ∀ k < nv_Sd.n, vecOf [0, 1, 0, 0, 1, 0, 0, 1, 1, 0, 0, 0] k = indicator nv_S w k := fun h =>
  absurd ((seq_feasible_iff_walks nv_S nv_Sd nv_S_data (by decide) (by decide +kernel) _
    (by unfold IsBin; decide +kernel)).2 h) (by decide +kernel)

end Vrp.C07
