import VrpProofs.Props.C07
import VrpProofs.Props.C04
import VrpProofs.Lemmas.SeqMoves
import VrpProofs.Lemmas.SeqDecode

/-!
# C07 (continued) — objective = move costs + surcharges, strict arcs imply time feasibility, decoding
-/
namespace Vrp.C07
open Vrp Finset

def arcCost (g : Graph) (i j : ℕ) : ℚ := ((g.arc? i j).map (·.cost)).getD 0
def arcTime (g : Graph) (i j : ℕ) : ℚ := ((g.arc? i j).map (·.time)).getD 0

/-- the vector (as the list the decoder receives) of a walk assignment -/
def indicatorList (I : SeqInst) (w : ℕ → ℕ → ℕ) : List ℚ := (List.range I.vars.length).map (indicator I w)

/-- strict arc rule: every stored arc whose origin is not the depot satisfies
    `window END of origin + travel ≤ window end of destination` -/
def StrictArcs (g : Graph) : Prop :=
  ∀ e ∈ g.arcs, e.1.1 ≠ 0 →
    (match g.hi e.1.1 with
     | none => g.hi e.1.2 = none
     | some b => leE (b + e.2.time) (g.hi e.1.2) = true)

/-- service time of one vehicle along its walk when early arrivals wait (the reference clock starts when the
    depot's window opens, at `g.lo 0`) -/
def arrival (g : Graph) (w : ℕ → ℕ) : ℕ → ℚ
  | 0 => g.lo 0
  | p + 1 => maxR (arrival g w p + arcTime g (w p) (w (p + 1))) (g.lo (w (p + 1)))

/-! ## helper lemmas -/

theorem node_window_ok (g : Graph) (hg : C15.Inv g) (i : ℕ) (hi : i < g.nodes.length) :
    leE (g.lo i) (g.hi i) = true := by
  have h1 : g.nodes[i]? = some g.nodes[i] := List.getElem?_eq_getElem hi
  have := hg.nodesOk g.nodes[i] (List.mem_of_getElem? h1)
  simpa [Graph.lo, Graph.hi, h1] using this

theorem arc_filed_timing (g : Graph) (hg : C15.Inv g) (e : Key × Arc) (he : e ∈ g.arcs) :
    leE (g.lo e.1.1 + e.2.time) (g.hi e.1.2) = true := by
  obtain ⟨ni, nj, h1, h2, _, _, h5⟩ := hg.filed e he
  simpa [Graph.lo, Graph.hi, h1, h2] using h5

theorem leE_maxR {a b : ℚ} {e : ERat} (ha : leE a e = true) (hb : leE b e = true) :
    leE (maxR a b) e = true := by
  unfold maxR; split_ifs <;> assumption

theorem arcTime_of (g : Graph) (i j : ℕ) (a : Arc) (h : g.arc? i j = some a) : arcTime g i j = a.time := by
  simp [arcTime, h]

theorem hi_append (g : Graph) (x : Node) (i : ℕ) (hi : i < g.nodes.length) :
    ({ g with nodes := g.nodes ++ [x] } : Graph).hi i = g.hi i := by
  simp [Graph.hi, List.getElem?_append_left hi]

theorem indexOf_head (g : Graph) (nm : String) (h : g.names.head? = some nm) : g.indexOf? nm = some 0 := by
  unfold Graph.indexOf?
  have hl := g.names_length
  cases hn : g.names with
  | nil => rw [hn] at h; simp at h
  | cons a l =>
    rw [hn] at h hl
    simp only [List.head?_cons, Option.some.injEq] at h
    subst h
    simp only [List.length_cons] at hl
    have : 0 < g.nodes.length := by omega
    simp [this]

/-- **one strict-flavour call keeps the strict rule** — every call, `set_depot` of any node included:
    the repaired strict `set_depot` re-adds every stored arc through the strict `add_arc` after the move, so
    the arcs that were admitted under the depot exemption of the node that used to be first are re-tested -/
theorem strict_step' (g : Graph) (hg : C15.Inv g) (hs : StrictArcs g) (op : GOp) :
    StrictArcs (gstep (.seq true) g op).1 := by
  cases op with
  | addNode nm d lo hi =>
    simp only [gstep, addNodeStep]
    split_ifs with h1 h2
    · exact hs
    · exact hs
    · intro e he hne
      have he' : e ∈ g.arcs := he
      obtain ⟨h1', h2'⟩ := arc_mem_lt g hg e he'
      rw [hi_append g _ _ h1', hi_append g _ _ h2']
      exact hs e he' hne
  | addArc o d t c =>
    show StrictArcs (addArcWith g o d t c (fun i => true && i != 0)).1
    cases hi : g.indexOf? o with
    | none => rw [C15.addArcWith_err _ _ _ _ _ _ (Or.inl hi)]; exact hs
    | some i =>
      cases hj : g.indexOf? d with
      | none => rw [C15.addArcWith_err _ _ _ _ _ _ (Or.inr hj)]; exact hs
      | some j =>
        rw [C15.addArcWith_eq g o d t c _ i j hi hj]
        by_cases hok : C15.okTiming g (true && i != 0) i j t = true
        · rw [if_pos hok]
          intro e he hne
          show (match g.hi e.1.1 with
            | none => g.hi e.1.2 = none
            | some b => leE (b + e.2.time) (g.hi e.1.2) = true)
          rcases mem_dictSet he with rfl | he
          · simp only at hne ⊢
            have hr : (true && i != 0) = true := by simp [hne]
            rw [hr] at hok
            unfold C15.okTiming at hok
            simp only [if_true] at hok
            cases hh : g.hi i with
            | none => rw [hh] at hok; simpa using hok
            | some b => rw [hh] at hok; exact hok
          · exact hs e he hne
        · rw [if_neg hok]; exact hs
  | setDepot nm =>
    rw [C15.gstep_setDepot_seq]
    cases hd : g.indexOf? nm with
    | none => rw [C15.setDepotSeq_err true g nm hd]; exact hs
    | some d =>
      obtain ⟨n0, _, _, heq⟩ := C15.setDepotSeq_ok true g nm d hd
      rw [heq]
      have hb : C15.Inv (setDepotBase g nm).1 := C15.setDepotBase_inv g nm hg
      have hrn : (C15.seqRecheck true (setDepotBase g nm).1).nodes = (setDepotBase g nm).1.nodes :=
        C15.seqRecheck_nodes true _
      intro e he hne
      show (match (C15.seqRecheck true (setDepotBase g nm).1).hi e.1.1 with
        | none => (C15.seqRecheck true (setDepotBase g nm).1).hi e.1.2 = none
        | some b => leE (b + e.2.time) ((C15.seqRecheck true (setDepotBase g nm).1).hi e.1.2) = true)
      rcases mem_dictSet he with rfl | he
      · exact absurd rfl hne
      · -- a surviving arc passed the strict `add_arc` test at its (new) key, with the new node order
        have he' : e ∈ (recheckArcs (setDepotBase g nm).1 (fun i => true && i != 0)).arcs := he
        obtain ⟨_, hpass⟩ := C15.recheckArcs_mem _ hb _ e he'
        unfold C15.recheckPass at hpass
        beta_reduce at hpass
        have hr : (true && e.1.1 != 0) = true := by simp [hne]
        rw [hr] at hpass
        unfold C15.okTiming at hpass
        simp only [if_true] at hpass
        rw [Graph.hi_congr_nodes hrn e.1.1, Graph.hi_congr_nodes hrn e.1.2]
        cases hh : (setDepotBase g nm).1.hi e.1.1 with
        | none => rw [hh] at hpass; simpa using hpass
        | some b => rw [hh] at hpass; exact hpass

/-- the earlier, weaker form (kept for compatibility) -/
theorem strict_step_aux (g : Graph) (hg : C15.Inv g) (hs : StrictArcs g) (op : GOp)
    (_hdep : ∀ nm, op = .setDepot nm → g.names.head? = some nm) :
    StrictArcs (gstep (.seq true) g op).1 :=
  strict_step' g hg hs op

theorem fold_strict (arcs : List (Key × Arc)) (g : Graph) (hg : C15.Inv g) (hs : StrictArcs g) :
    StrictArcs (arcs.foldl
        (fun g e => (gstep (.seq true) g (.addArc e.2.orig e.2.dest e.2.time e.2.cost)).1) g) ∧
      C15.Inv (arcs.foldl
        (fun g e => (gstep (.seq true) g (.addArc e.2.orig e.2.dest e.2.time e.2.cost)).1) g) := by
  induction arcs generalizing g with
  | nil => exact ⟨hs, hg⟩
  | cons e rest ih =>
    rw [List.foldl_cons]
    exact ih _ (C15.gstep_inv _ g _ hg) (strict_step' g hg hs _)

/-! ## the property statements -/

/-- **objective = summed cost of the moves made plus each vehicle's per-move surcharge** (every one of
    the `L−1` moves of every vehicle counts, staying at the depot included) -/
theorem seq_objective_eq_moves (I : SeqInst) (d : MPData) (h : I.data = some d) (hL : 3 ≤ I.L)
    (hg : C15.Inv I.g) (w : ℕ → ℕ → ℕ) (hw : Walk I w) :
    d.objective (indicator I w)
      = sumTo I.V fun v => sumTo (I.L - 1) fun p => arcCost I.g (w v p) (w v (p + 1)) + I.vc v :=
  seq_objective_walk I d h hL hg w hw

/-- the strict constructor leaves a graph whose arcs all obey the strict rule, and which is self-consistent -/
theorem new_strict_arcs (src : Graph) (hsrc : C15.Inv src) :
    StrictArcs (SeqInst.new src true).g ∧ C15.Inv (SeqInst.new src true).g := by
  have h0 : C15.Inv ({ src with arcs := [] } : Graph) :=
    ⟨hsrc.nodup, hsrc.nodesOk, by simp, by simp⟩
  have hs0 : StrictArcs ({ src with arcs := [] } : Graph) := by
    intro e he; simp at he
  obtain ⟨hs1, hg1⟩ := fold_strict src.arcs _ h0 hs0
  have key : ∀ g1 : Graph, StrictArcs g1 → C15.Inv g1 →
      StrictArcs (match g1.nodes.head? with
        | none => g1
        | some n0 => (gstep (.seq true) g1 (.setDepot n0.name)).1) ∧
      C15.Inv (match g1.nodes.head? with
        | none => g1
        | some n0 => (gstep (.seq true) g1 (.setDepot n0.name)).1) := by
    intro g1 hs hg
    cases hh : g1.nodes.head? with
    | none => exact ⟨hs, hg⟩
    | some n0 =>
      exact ⟨strict_step' g1 hg hs _, C15.gstep_inv _ g1 _ hg⟩
  exact key _ hs1 hg1

/-- later strict `add_arc` / `set_depot` / `add_node` calls keep the strict rule (the side condition on
    `set_depot` is no longer needed, see `strict_step'`) -/
theorem strict_step (g : Graph) (hg : C15.Inv g) (hs : StrictArcs g) (op : GOp)
    (_hdep : ∀ nm, op = .setDepot nm → g.names.head? = some nm) :
    StrictArcs (gstep (.seq true) g op).1 :=
  strict_step' g hg hs op

theorem strictArcs_init : StrictArcs {} := by
  intro e he; simp at he

theorem strictArcs_grun_of (ops : List GOp) (g : Graph) (hs : StrictArcs g) (hg : C15.Inv g) :
    StrictArcs (grun (.seq true) g ops) ∧ C15.Inv (grun (.seq true) g ops) := by
  induction ops generalizing g with
  | nil => exact ⟨hs, hg⟩
  | cons op rest ih => exact ih _ (strict_step' g hg hs op) (C15.gstep_inv _ g op hg)

/-- **every graph built by any call history on a fresh strict object obeys the strict rule**
    (and is self-consistent) -/
theorem strictArcs_reachable (ops : List GOp) :
    StrictArcs (grun (.seq true) {} ops) ∧ C15.Inv (grun (.seq true) {} ops) :=
  strictArcs_grun_of ops {} strictArcs_init C15.inv_init

/-! ### regression: the pinned strict `set_depot` loses the strict rule -/

/-- nodes `a [0,10]`, `b [0,1]`, `x [0,∞)`; the arc `a → b` (travel 1) was admitted by the strict `add_arc`
    because `a` was first (depot exemption: `0 + 1 ≤ 1`) -/
def pinnedWitness : Graph :=
  { nodes := [⟨"a", 0, 0, some 10⟩, ⟨"b", 0, 0, some 1⟩, ⟨"x", 0, 0, none⟩],
    arcs := [((0, 1), ⟨"a", "b", 1, 1⟩)] }

theorem pinnedWitness_inv : C15.Inv pinnedWitness := by
  refine ⟨by decide +kernel, ?_, by decide +kernel, ?_⟩
  · intro n hn
    simp only [pinnedWitness, List.mem_cons, List.not_mem_nil, or_false] at hn
    rcases hn with rfl | rfl | rfl <;> decide +kernel
  · intro e he
    simp only [pinnedWitness, List.mem_cons, List.not_mem_nil, or_false] at he
    subst he
    exact ⟨⟨"a", 0, 0, some 10⟩, ⟨"b", 0, 0, some 1⟩, rfl, rfl, rfl, rfl, by decide +kernel⟩

theorem pinnedWitness_strict : StrictArcs pinnedWitness := by
  intro e he hne
  simp only [pinnedWitness, List.mem_cons, List.not_mem_nil, or_false] at he
  subst he
  exact absurd rfl hne

/-- it is the history `add_node a, b, x; add_arc a b` on a fresh strict object -/
theorem pinnedWitness_reachable :
    grun (.seq true) {} [.addNode "a" 0 0 (some 10), .addNode "b" 0 0 (some 1), .addNode "x" 0 0 none,
      .addArc "a" "b" 1 1] = pinnedWitness := by
  have ext : ∀ g g' : Graph, g.nodes = g'.nodes → g.arcs = g'.arcs → g.cap = g'.cap → g.init = g'.init →
      g = g' := by
    intro g g' h1 h2 h3 h4
    cases g; cases g'; simp_all
  apply ext <;> decide +kernel

/-- the pinned strict `set_depot` (no re-check) breaks the strict rule: after `set_depot x` the arc `a → b`
    sits at `(1, 2)`, its origin is no longer the depot, and `10 + 1 ≤ 1` fails -/
theorem pinned_strict_setDepot_unsound :
    ∃ g : Graph, C15.Inv g ∧ StrictArcs g ∧ ¬ StrictArcs (gstepPinnedStrictDepot g "x").1 := by
  refine ⟨pinnedWitness, pinnedWitness_inv, pinnedWitness_strict, ?_⟩
  intro h
  have hmem : (((1, 2), ⟨"a", "b", 1, 1⟩) : Key × Arc) ∈ (gstepPinnedStrictDepot pinnedWitness "x").1.arcs := by
    decide +kernel
  have h1 : (gstepPinnedStrictDepot pinnedWitness "x").1.hi 1 = some 10 := by decide +kernel
  have h2 : (gstepPinnedStrictDepot pinnedWitness "x").1.hi 2 = some 1 := by decide +kernel
  have := h _ hmem (by decide)
  simp only [h1, h2] at this
  exact absurd this (by decide +kernel)

/-- the repaired strict `set_depot` on the same witness: the arc `a → b` is dropped by the re-check and the
    strict rule holds -/
theorem repaired_strict_setDepot_witness :
    StrictArcs (gstep (.seq true) pinnedWitness (.setDepot "x")).1 :=
  strict_step' pinnedWitness pinnedWitness_inv pinnedWitness_strict _

/-- concretely: only the depot self-arc is left -/
theorem repaired_strict_setDepot_witness_arcs :
    (gstep (.seq true) pinnedWitness (.setDepot "x")).1.arcs = [((0, 0), ⟨"x", "x", 0, 0⟩)] := by
  decide +kernel

/-- **strict mode: every walk meets all time windows** of the underlying VRPTW (arrive early and wait,
    never late), for every vehicle and every position -/
theorem strict_walk_time_feasible (I : SeqInst) (hstrict : StrictArcs I.g) (hg : C15.Inv I.g)
    (h00 : arcTime I.g 0 0 = 0) (w : ℕ → ℕ → ℕ) (hw : Walk I w)
    (v : ℕ) (hv : v < I.V) (p : ℕ) (hp : p < I.L) :
    leE (arrival I.g (w v) p) (I.g.hi (w v p)) = true := by
  induction p with
  | zero =>
    show leE (I.g.lo 0) (I.g.hi (w v 0)) = true
    have hlt := hw.lt v hv 0 hp
    rw [hw.start v hv] at hlt ⊢
    exact node_window_ok I.g hg 0 hlt
  | succ p ih =>
    have ih' := ih (by omega)
    have hjlt := hw.lt v hv (p + 1) hp
    obtain ⟨a, hmem, harc⟩ := hasArc_mem I.g hg _ _ (hw.arcs v hv p hp)
    show leE (maxR (arrival I.g (w v) p + arcTime I.g (w v p) (w v (p + 1))) (I.g.lo (w v (p + 1))))
      (I.g.hi (w v (p + 1))) = true
    refine leE_maxR ?_ (node_window_ok I.g hg _ hjlt)
    by_cases hi0 : w v p = 0
    · by_cases hp0 : p = 0
      · subst hp0
        have hT : arrival I.g (w v) 0 = I.g.lo 0 := rfl
        rw [hT, arcTime_of _ _ _ a harc]
        have := arc_filed_timing I.g hg _ hmem
        simp only at this
        rw [hi0] at this
        exact this
      · have hj0 := hw.absorb v hv p (by omega) hp hi0
        rw [hi0] at ih' ⊢
        rw [hj0, h00, add_zero]
        exact ih'
    · rw [arcTime_of _ _ _ a harc]
      have hs := hstrict _ hmem hi0
      simp only at hs
      cases hhi : I.g.hi (w v p) with
      | none =>
        rw [hhi] at hs
        simp only at hs
        rw [hs]; rfl
      | some b =>
        rw [hhi] at hs ih'
        simp only at hs
        have hTb : arrival I.g (w v) p ≤ b := by simpa [leE] using ih'
        exact leE_anti (by linarith) hs

/-- **decoding returns the walks** -/
theorem seq_decode_encode (I : SeqInst) (hL : 3 ≤ I.L) (hV : 1 ≤ I.V) (w : ℕ → ℕ → ℕ) (hw : Walk I w) :
    I.decode (indicatorList I w) = .ok ((List.range I.V).map fun v => (List.range I.L).map fun p => w v p) := by
  unfold indicatorList
  -- (d) the tuple `(0, 1, w 0 1)` is a selected free variable
  have hsel : (0, 1, w 0 1) ∈ I.selected ((List.range I.vars.length).map (indicator I w)) := by
    rw [mem_selected_indicator]
    have hv : 0 < I.V := by omega
    refine ⟨⟨hv, by simp only; omega, hw.lt 0 hv 1 (by omega), ?_⟩, rfl⟩
    simp only
    cases hf : I.fixed 1 (w 0 1) with
    | none => rfl
    | some f =>
      exfalso
      have h1 := walk_fixed_agree I w hw 0 hv 1 (by omega) _ f hf
      unfold yW at h1
      rw [if_pos rfl] at h1
      subst h1
      have h2 : (I.fixed 1 (w 0 1)).getD 0 ≠ 0 := by rw [hf]; simp
      have h3 := fixed_getD_ne_zero h2
      omega
  have hne : (I.selected ((List.range I.vars.length).map (indicator I w))).isEmpty = false := by
    cases hl : I.selected ((List.range I.vars.length).map (indicator I w)) with
    | nil => rw [hl] at hsel; simp at hsel
    | cons _ _ => rfl
  unfold SeqInst.decode
  simp only [hne, Bool.false_eq_true, if_false]
  -- (a), (b): the sorted tuple list is the walk's tuple list
  rw [sortS_eq_of_perm_sorted _ _ (sel_fixed_perm I w hw) (allT_sorted I w)]
  -- (c): the loop pops one vehicle block at a time
  have hgo := go_walk I w hw.arcs I.V 0 [] (by omega)
  simp only [Nat.zero_add, List.nil_append] at hgo
  exact hgo

/-! ## non-vacuity -/

/-- non-strict instance `nv_S` with the walk `nv_w` of C07: hypotheses of `seq_objective_eq_moves` and
    `seq_decode_encode` hold; concrete conclusions -/
theorem nv_S_inv : C15.Inv nv_S.g := C15.nv_inv_of_invB _ (by decide +kernel)

example : nv_Sd.objective (indicator nv_S nv_w) = 4 := by
  rw [seq_objective_eq_moves nv_S nv_Sd nv_S_data (by decide) nv_S_inv nv_w nv_walk]; decide +kernel

example : nv_S.decode (indicatorList nv_S nv_w) = .ok [[0, 1, 2, 0], [0, 0, 0, 0]] := by
  rw [seq_decode_encode nv_S (by decide) (by decide) nv_w nv_walk]; decide +kernel

/-- strict constructor on the zero-demand twin `C15.nv_g0` of that reachable graph: every arc survives (`a → b`: 5 + 3 ≤ 9), so the strict rule is
    not vacuous on it -/
def nv_St : SeqInst := ((SeqInst.new C15.nv_g0 true).setMaxVehicles 2).setMaxSeqLen 4

example : nv_St.g.arcs.map (·.1) = [(0, 1), (0, 2), (1, 2), (2, 0), (1, 0), (0, 0)] := by decide +kernel

/-- `new_strict_arcs` (hypothesis `C15.Inv src`) -/
theorem nv_St_strict : StrictArcs nv_St.g ∧ C15.Inv nv_St.g := new_strict_arcs C15.nv_g0 C15.nv_inv0

theorem nv_walk_t : Walk nv_St nv_w where
  lt := by decide +kernel
  start := by decide +kernel
  stop := by decide +kernel
  arcs := fun v hv p hp =>
    (by decide +kernel : ∀ v < 2, ∀ p < 3, nv_St.g.hasArc (nv_w v p) (nv_w v (p + 1)) = true) v hv p
      (by have : p + 1 < 4 := hp; omega)
  absorb := fun v hv p h1 hp =>
    (by decide +kernel : ∀ v < 2, ∀ p < 3, 1 ≤ p → nv_w v p = 0 → nv_w v (p + 1) = 0) v hv p
      (by have : p + 1 < 4 := hp; omega) h1
  once := fun k h1 h2 => by
    have h3 : nv_St.g.nodes.length = 3 := by decide +kernel
    have : k = 1 ∨ k = 2 := by omega
    rcases this with rfl | rfl <;> decide +kernel

/-- all hypotheses of `strict_walk_time_feasible` hold; vehicle 0 reaches `b` (position 2) at time 6 ≤ 9 -/
example : leE (arrival nv_St.g (nv_w 0) 2) (nv_St.g.hi (nv_w 0 2)) = true :=
  strict_walk_time_feasible nv_St nv_St_strict.1 nv_St_strict.2 (by decide +kernel) nv_w nv_walk_t
    0 (by decide) 2 (by decide)

example : arrival nv_St.g (nv_w 0) 2 = 6 ∧ nv_St.g.hi (nv_w 0 2) = some 9 := by decide +kernel

end Vrp.C07
