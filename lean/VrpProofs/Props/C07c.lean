import VrpProofs.Props.C07
import VrpProofs.Props.C07b
import VrpProofs.Props.C08d
import VrpProofs.Props.C09b
import VrpProofs.Lemmas.Reach

/-!
# C07c — the free depot self-loop of the sequence-based object is there for API-built objects

The sequence theorems (`C07.strict_walk_time_feasible`, `C08.seq_nonstrict_le_reference`,
`C08.seq_strict_ge_reference`, the heuristic theorems of `C09b`) take the depot self-loop as hypotheses:
`I.g.hasArc 0 0 = true`, `arcTime I.g 0 0 = 0`, `arcCost I.g 0 0 = 0`.  The package guarantees them: the
sequence-flavour `set_depot` assigns `arcs[(0,0)] = Arc(nodes[0], nodes[0], 0, 0)` and the constructor calls it.
Here this is *proved* for the states the API can reach:

* (a) `selfloop_after_setDepot`: a successful sequence-flavour `set_depot` leaves the self-loop;
* (b) `selfloop_preserved`, `selfloop_grun`: every later call keeps it, except an `add_arc` whose two names both
  resolve to position 0 (the caller overwrites the depot self-arc; documented behaviour);
* (c) `seqNew_selfloop`, `makeFeasible_selfloop`, `apiReach_facts`: the constructor installs it; the setters and
  the construction heuristic keep it (the heuristic never assigns the key `(0,0)`);
* (d) `*_api`: the C07 / C08 theorems for `C08.seqObj src strict V L` with no self-loop hypothesis left.

Scope (third audit): "API-built" means an object on which `set_depot` HAS BEEN CALLED — by the constructor when the
source graph has a node (hypothesis `hne : src.nodes ≠ []` of `apiReach_facts`), or by the caller.  An object
assembled through `add_node` / `add_arc` alone has no self-loop until `set_depot` is called; the package's own
`test_sequence_based` pins exactly that ("3 arcs before `set_depot`, 4 after"), so calling `set_depot` is the class's
protocol, not a defect.  `ApiReach` follows SUCCESSFUL heuristic runs; histories that continue after a raising
heuristic are followed by the flag-level machine of `C14c` (`SeqObj.step`), which keeps the partial state.
-/
namespace Vrp.C07
open Vrp

/-- the free depot self-loop is stored: `arcs[(0,0)] = Arc(nodes[0], nodes[0], time 0, cost 0)` -/
def SelfLoop (g : Graph) : Prop :=
  ∃ n0, g.nodes.head? = some n0 ∧ g.arc? 0 0 = some ⟨n0.name, n0.name, 0, 0⟩

/-- the three hypotheses of the sequence theorems -/
theorem SelfLoop.facts {g : Graph} (h : SelfLoop g) :
    g.hasArc 0 0 = true ∧ arcTime g 0 0 = 0 ∧ arcCost g 0 0 = 0 := by
  obtain ⟨n0, _, ha⟩ := h
  exact ⟨C08.c8d_hasArc_of_arc? g 0 0 _ ha, by simp [arcTime, ha], by simp [arcCost, ha]⟩

theorem SelfLoop.pos {g : Graph} (h : SelfLoop g) : 1 ≤ g.nodes.length := by
  obtain ⟨n0, h0, _⟩ := h
  cases hn : g.nodes with
  | nil => rw [hn] at h0; cases h0
  | cons a l => simp

/-! ## (a) a successful sequence-flavour `set_depot` installs the self-loop -/

theorem selfloop_after_setDepot (s : Bool) (g : Graph) (nm : String)
    (h : (gstep (.seq s) g (.setDepot nm)).2 = .ok none) :
    ∃ n0, (gstep (.seq s) g (.setDepot nm)).1.nodes.head? = some n0 ∧ n0.name = nm ∧
      (gstep (.seq s) g (.setDepot nm)).1.arc? 0 0 = some ⟨n0.name, n0.name, 0, 0⟩ := by
  rw [C15.gstep_setDepot_seq] at h ⊢
  cases hd : g.indexOf? nm with
  | none => rw [C15.setDepotSeq_err s g nm hd] at h; cases h
  | some d =>
    obtain ⟨n0, hn0, hnm, heq⟩ := C15.setDepotSeq_ok s g nm d hd
    rw [heq]
    refine ⟨n0, ?_, hnm, ?_⟩
    · show (C15.seqRecheck s (setDepotBase g nm).1).nodes.head? = some n0
      rw [C15.seqRecheck_nodes]; exact hn0
    · exact dictGet_dictSet_self _ _ _

theorem selfLoop_after_setDepot (s : Bool) (g : Graph) (nm : String)
    (h : (gstep (.seq s) g (.setDepot nm)).2 = .ok none) : SelfLoop (gstep (.seq s) g (.setDepot nm)).1 := by
  obtain ⟨n0, h0, _, ha⟩ := selfloop_after_setDepot s g nm h
  exact ⟨n0, h0, ha⟩

/-- … hence the three facts -/
theorem selfloop_facts_after_setDepot (s : Bool) (g : Graph) (nm : String)
    (h : (gstep (.seq s) g (.setDepot nm)).2 = .ok none) :
    (gstep (.seq s) g (.setDepot nm)).1.hasArc 0 0 = true ∧
    arcTime (gstep (.seq s) g (.setDepot nm)).1 0 0 = 0 ∧ arcCost (gstep (.seq s) g (.setDepot nm)).1 0 0 = 0 :=
  (selfLoop_after_setDepot s g nm h).facts

/-- a sequence-flavour `set_depot` returns `None` or raises and then leaves the graph alone -/
theorem setDepot_seq_cases (s : Bool) (g : Graph) (nm : String) :
    (gstep (.seq s) g (.setDepot nm)).2 = .ok none ∨ (gstep (.seq s) g (.setDepot nm)).1 = g := by
  rw [C15.gstep_setDepot_seq]
  cases hd : g.indexOf? nm with
  | none => right; rw [C15.setDepotSeq_err s g nm hd]
  | some d =>
    obtain ⟨n0, _, _, heq⟩ := C15.setDepotSeq_ok s g nm d hd
    left; rw [heq]

/-! ## (b) preservation -/

/-- the call explicitly overwrites the depot self-arc: an `add_arc` whose two names both resolve to position 0 -/
def OverwritesLoop (g : Graph) : GOp → Prop
  | .addArc o d _ _ => g.indexOf? o = some 0 ∧ g.indexOf? d = some 0
  | _ => False

/-- `add_node` keeps the self-loop (nodes are appended, position 0 keeps its node; the arc dict is untouched) -/
theorem selfloop_addNode (s : Bool) (g : Graph) (nm : String) (dm lo : ℚ) (hi : ERat) (h : SelfLoop g) :
    SelfLoop (gstep (.seq s) g (.addNode nm dm lo hi)).1 := by
  obtain ⟨n0, h0, ha⟩ := h
  refine ⟨n0, rc_addNodeStep_head g nm dm lo hi n0 h0, ?_⟩
  show dictGet (addNodeStep g nm dm lo hi).1.arcs (0, 0) = _
  rw [rc_addNodeStep_arcs]; exact ha

/-- `add_arc` keeps the self-loop unless both names resolve to position 0 -/
theorem selfloop_addArc (s : Bool) (g : Graph) (o d : String) (t c : ℚ) (h : SelfLoop g)
    (hno : ¬ (g.indexOf? o = some 0 ∧ g.indexOf? d = some 0)) :
    SelfLoop (gstep (.seq s) g (.addArc o d t c)).1 := by
  obtain ⟨n0, h0, ha⟩ := h
  show SelfLoop (addArcWith g o d t c (fun i => s && i != 0)).1
  refine ⟨n0, ?_, ?_⟩
  · rw [(C15.addArcWith_fields g o d t c _).1]; exact h0
  · rw [rc_addArcWith_arc00 g o d t c _ hno]; exact ha

/-- another `set_depot` keeps a self-loop: it re-installs it for the new depot, or raises and changes nothing -/
theorem selfloop_setDepot (s : Bool) (g : Graph) (nm : String) (h : SelfLoop g) :
    SelfLoop (gstep (.seq s) g (.setDepot nm)).1 := by
  rcases setDepot_seq_cases s g nm with hok | heq
  · exact selfLoop_after_setDepot s g nm hok
  · rw [heq]; exact h

/-- **one call**: every sequence-flavour call that does not overwrite the depot self-arc keeps it -/
theorem selfloop_preserved (s : Bool) (g : Graph) (op : GOp) (h : SelfLoop g) (hop : ¬ OverwritesLoop g op) :
    SelfLoop (gstep (.seq s) g op).1 := by
  cases op with
  | addNode nm dm lo hi => exact selfloop_addNode s g nm dm lo hi h
  | setDepot nm => exact selfloop_setDepot s g nm h
  | addArc o d t c => exact selfloop_addArc s g o d t c h hop

theorem grun_cons (fl : Flavor) (g : Graph) (op : GOp) (ops : List GOp) :
    grun fl g (op :: ops) = grun fl (gstep fl g op).1 ops := rfl

/-- **any call history**: the self-loop survives as long as no call overwrites it in the state it is applied to -/
theorem selfloop_grun (s : Bool) (ops : List GOp) (g : Graph) (h : SelfLoop g)
    (hops : ∀ k (hk : k < ops.length), ¬ OverwritesLoop (grun (.seq s) g (ops.take k)) ops[k]) :
    SelfLoop (grun (.seq s) g ops) := by
  induction ops generalizing g with
  | nil => exact h
  | cons op ops ih =>
    rw [grun_cons]
    refine ih _ (selfloop_preserved s g op h (hops 0 (by simp))) (fun k hk => ?_)
    have := hops (k + 1) (by simpa using hk)
    simpa [List.take_succ_cons, grun_cons] using this

/-- a state-independent sufficient condition: no `add_arc(x, x, …)` call at all -/
theorem selfloop_grun_of_no_selfarc_calls (s : Bool) (ops : List GOp) (g : Graph) (h : SelfLoop g)
    (hops : ∀ o d t c, GOp.addArc o d t c ∈ ops → o ≠ d) : SelfLoop (grun (.seq s) g ops) := by
  refine selfloop_grun s ops g h (fun k hk => ?_)
  have hmem : ops[k] ∈ ops := List.getElem_mem hk
  cases hop : ops[k] with
  | addNode nm dm lo hi => exact fun hf => hf
  | setDepot nm => exact fun hf => hf
  | addArc o d t c =>
    rintro ⟨h1, h2⟩
    rw [hop] at hmem
    exact hops o d t c hmem (rc_indexOf_inj h1 h2)

/-- **API-reachable graphs**: any calls, then a successful `set_depot`, then any calls that do not overwrite the
    depot self-arc (here: no `add_arc(x, x, …)`) — the three facts hold in the reached graph -/
theorem selfloop_reachable (s : Bool) (pre post : List GOp) (nm : String)
    (hok : (gstep (.seq s) (grun (.seq s) {} pre) (.setDepot nm)).2 = .ok none)
    (hpost : ∀ o d t c, GOp.addArc o d t c ∈ post → o ≠ d) :
    SelfLoop (grun (.seq s) {} (pre ++ .setDepot nm :: post)) := by
  have : grun (.seq s) {} (pre ++ .setDepot nm :: post)
      = grun (.seq s) (gstep (.seq s) (grun (.seq s) {} pre) (.setDepot nm)).1 post := by
    simp [grun, List.foldl_append]
  rw [this]
  exact selfloop_grun_of_no_selfarc_calls s post _ (selfLoop_after_setDepot s _ nm hok) hpost

/-! ## (c) the constructor, the setters, the construction heuristic -/

/-- the constructor installs the self-loop (no hypothesis on `src` besides a first node) -/
theorem seqNew_arc00 (src : Graph) (strict : Bool) (hne : src.nodes ≠ []) : SelfLoop (SeqInst.new src strict).g := by
  obtain ⟨n0, h0⟩ := C08.c8d_head_of_ne_nil src hne
  have h01 : (C15.seqRecheck strict src).nodes.head? = some n0 := by rw [C15.seqRecheck_nodes]; exact h0
  rw [C08.c8d_new_g src strict n0 h0, ← C15.gstep_setDepot_seq]
  apply selfLoop_after_setDepot
  rw [C15.gstep_setDepot_seq]
  obtain ⟨_, _, _, heq⟩ := C15.setDepotSeq_ok strict _ n0.name 0 (C08.c8d_indexOf_head _ n0 h01)
  rw [heq]

/-- **the constructor**: the three facts hold for `SequenceBasedRoutingProblem(src, strict)` -/
theorem seqNew_selfloop (src : Graph) (strict : Bool) (hne : src.nodes ≠ []) :
    (SeqInst.new src strict).g.hasArc 0 0 = true ∧ arcTime (SeqInst.new src strict).g 0 0 = 0 ∧
      arcCost (SeqInst.new src strict).g 0 0 = 0 :=
  (seqNew_arc00 src strict hne).facts

/-- the first node of the constructed graph is the first node of the source -/
theorem seqNew_arc00_src (src : Graph) (hsrc : C15.Inv src) (strict : Bool) (n0 : Node)
    (h0 : src.nodes.head? = some n0) :
    (SeqInst.new src strict).g.arc? 0 0 = some ⟨n0.name, n0.name, 0, 0⟩ :=
  (C08.c8d_new_sub src hsrc strict n0 h0).2.2

theorem setMaxVehicles_g (I : SeqInst) (v : ℕ) : (I.setMaxVehicles v).g = I.g := rfl
theorem setMaxSeqLen_g (I : SeqInst) (l : ℕ) : (I.setMaxSeqLen l).g = I.g := rfl

/-- the setters do not touch the graph -/
theorem setters_selfloop (I : SeqInst) (v l : ℕ) (h : SelfLoop I.g) :
    SelfLoop (I.setMaxVehicles v).g ∧ SelfLoop (I.setMaxSeqLen l).g := ⟨h, h⟩

/-- **the object of `C08d`** (constructor + both setters) has the self-loop -/
theorem seqObj_arc00 (src : Graph) (strict : Bool) (V L : ℕ) (hne : src.nodes ≠ []) :
    SelfLoop (C08.seqObj src strict V L).g := seqNew_arc00 src strict hne

theorem seqObj_selfloop (src : Graph) (strict : Bool) (V L : ℕ) (hne : src.nodes ≠ []) :
    (C08.seqObj src strict V L).g.hasArc 0 0 = true ∧ arcTime (C08.seqObj src strict V L).g 0 0 = 0 ∧
      arcCost (C08.seqObj src strict V L).g 0 0 = 0 :=
  (seqObj_arc00 src strict V L hne).facts

/-- **`make_feasible` keeps the self-loop, time 0 and cost 0 included**: it only adds arcs `cur → depot`,
    `depot → u`, `u → depot` that are missing, and with the self-loop present none of them has the key `(0,0)`
    (`SeqHeur.rc_makeFeasible_arc00`, proved for the full heuristic, no residual hypothesis) -/
theorem makeFeasible_selfloop (I : SeqInst) (high : ℚ) (J : SeqInst) (sol : List ℚ) (hg : C15.Inv I.g)
    (hs : SelfLoop I.g) (h : I.makeFeasible high = .ok (J, sol)) : SelfLoop J.g := by
  obtain ⟨n0, h0, ha⟩ := hs
  refine ⟨n0, ?_, ?_⟩
  · rw [(SeqHeur.makeFeasible_frame h).1.nodes]; exact h0
  · rw [SeqHeur.rc_makeFeasible_arc00 hg (C08.c8d_hasArc_of_arc? _ 0 0 _ ha) h]; exact ha

/-- the stored arc `(0,0)` is literally unchanged by the heuristic -/
theorem makeFeasible_arc00_eq (I : SeqInst) (high : ℚ) (J : SeqInst) (sol : List ℚ) (hg : C15.Inv I.g)
    (h00 : I.g.hasArc 0 0 = true) (h : I.makeFeasible high = .ok (J, sol)) : J.g.arc? 0 0 = I.g.arc? 0 0 :=
  SeqHeur.rc_makeFeasible_arc00 hg h00 h

/-- states of a sequence-based object the API can reach from the constructor: setters, construction calls on the
    object (those that do not overwrite the depot self-arc), successful `make_feasible` -/
inductive ApiReach (src : Graph) (strict : Bool) : SeqInst → Prop
  | new : ApiReach src strict (SeqInst.new src strict)
  | setV {I : SeqInst} (v : ℕ) : ApiReach src strict I → ApiReach src strict (I.setMaxVehicles v)
  | setL {I : SeqInst} (l : ℕ) : ApiReach src strict I → ApiReach src strict (I.setMaxSeqLen l)
  | call {I : SeqInst} (op : GOp) : ApiReach src strict I → ¬ OverwritesLoop I.g op →
      ApiReach src strict { I with g := (gstep (.seq I.strict) I.g op).1 }
  | heur {I J : SeqInst} {high : ℚ} {sol : List ℚ} : ApiReach src strict I →
      I.makeFeasible high = .ok (J, sol) → ApiReach src strict J

/-- **every API-reachable sequence-based object** built from a self-consistent non-empty source has a
    self-consistent graph with the free depot self-loop -/
theorem apiReach_facts (src : Graph) (strict : Bool) (hsrc : C15.Inv src) (hne : src.nodes ≠ [])
    (I : SeqInst) (h : ApiReach src strict I) :
    C15.Inv I.g ∧ SelfLoop I.g ∧ I.g.hasArc 0 0 = true ∧ arcTime I.g 0 0 = 0 ∧ arcCost I.g 0 0 = 0 := by
  suffices hk : C15.Inv I.g ∧ SelfLoop I.g from ⟨hk.1, hk.2, hk.2.facts⟩
  induction h with
  | new =>
    obtain ⟨n0, h0⟩ := C08.c8d_head_of_ne_nil src hne
    exact ⟨(C08.c8d_new_sub src hsrc strict n0 h0).2.1, seqNew_arc00 src strict hne⟩
  | setV v _ ih => exact ih
  | setL l _ ih => exact ih
  | call op _ hop ih => exact ⟨C15.gstep_inv _ _ op ih.1, selfloop_preserved _ _ op ih.2 hop⟩
  | heur _ hmf ih =>
    exact ⟨SeqHeur.em_makeFeasible_inv ih.1 hmf, makeFeasible_selfloop _ _ _ _ ih.1 ih.2 hmf⟩

/-! ## (d) the sequence theorems for API-built objects, without self-loop hypotheses -/

theorem seqObj_nodes (src : Graph) (hsrc : C15.Inv src) (hne : src.nodes ≠ []) (strict : Bool) (V L : ℕ) :
    (C08.seqObj src strict V L).g.nodes = src.nodes := by
  obtain ⟨n0, h0⟩ := C08.c8d_head_of_ne_nil src hne
  exact (C08.c8d_new_sub src hsrc strict n0 h0).1.nodes

theorem seqObj_pos (src : Graph) (hne : src.nodes ≠ []) (strict : Bool) (V L : ℕ) :
    1 ≤ (C08.seqObj src strict V L).g.nodes.length := (seqObj_arc00 src strict V L hne).pos

/-- the data of the object exist (no assertion of the code can fail) -/
theorem seqObj_data_total (src : Graph) (strict : Bool) (V L : ℕ) (hL : 3 ≤ L) :
    ∃ d, (C08.seqObj src strict V L).data = some d := C02.seq_data_total _ hL

/-- `C07.seq_feasible_iff_walks` for `SequenceBasedRoutingProblem(src, strict)` + both setters -/
theorem seq_feasible_iff_walks_api (src : Graph) (strict : Bool) (V L : ℕ) (hsrc : C15.Inv src)
    (hne : src.nodes ≠ []) (hL : 3 ≤ L) (d : MPData) (h : (C08.seqObj src strict V L).data = some d)
    (x : Vec) (hx : IsBin d.n x) :
    d.feasibleB x = true ↔
      ∃ w, Walk (C08.seqObj src strict V L) w ∧ ∀ k < d.n, x k = indicator (C08.seqObj src strict V L) w k := by
  have _ := hsrc
  exact seq_feasible_iff_walks _ d h hL (seqObj_pos src hne strict V L) x hx

/-- `C07.seq_walks_representable` for the API-built object -/
theorem seq_walks_representable_api (src : Graph) (strict : Bool) (V L : ℕ) (hsrc : C15.Inv src)
    (hne : src.nodes ≠ []) (hL : 3 ≤ L) (d : MPData) (h : (C08.seqObj src strict V L).data = some d)
    (w : ℕ → ℕ → ℕ) (hw : Walk (C08.seqObj src strict V L) w) :
    IsBin d.n (indicator (C08.seqObj src strict V L) w) ∧
      d.feasibleB (indicator (C08.seqObj src strict V L) w) = true := by
  have _ := hsrc
  exact seq_walks_representable _ d h hL (seqObj_pos src hne strict V L) w hw

/-- `C07.seq_objective_eq_moves` for the API-built object -/
theorem seq_objective_eq_moves_api (src : Graph) (strict : Bool) (V L : ℕ) (hsrc : C15.Inv src)
    (hne : src.nodes ≠ []) (hL : 3 ≤ L) (d : MPData) (h : (C08.seqObj src strict V L).data = some d)
    (w : ℕ → ℕ → ℕ) (hw : Walk (C08.seqObj src strict V L) w) :
    d.objective (indicator (C08.seqObj src strict V L) w)
      = sumTo (C08.seqObj src strict V L).V fun v => sumTo ((C08.seqObj src strict V L).L - 1) fun p =>
          arcCost (C08.seqObj src strict V L).g (w v p) (w v (p + 1)) + (C08.seqObj src strict V L).vc v :=
  seq_objective_eq_moves _ d h hL (C08.seqObj_inv src hsrc hne strict V L) w hw

/-- … the surcharges of a freshly set vehicle count are 0: the objective is the summed cost of the moves, where
    staying at the depot costs 0 -/
theorem seq_objective_eq_moves_api' (src : Graph) (strict : Bool) (V L : ℕ) (hsrc : C15.Inv src)
    (hne : src.nodes ≠ []) (hL : 3 ≤ L) (d : MPData) (h : (C08.seqObj src strict V L).data = some d)
    (w : ℕ → ℕ → ℕ) (hw : Walk (C08.seqObj src strict V L) w) :
    d.objective (indicator (C08.seqObj src strict V L) w)
      = (sumTo V fun v => sumTo (L - 1) fun p => arcCost (C08.seqObj src strict V L).g (w v p) (w v (p + 1))) ∧
    arcCost (C08.seqObj src strict V L).g 0 0 = 0 := by
  refine ⟨?_, (seqObj_selfloop src strict V L hne).2.2⟩
  rw [seq_objective_eq_moves_api src strict V L hsrc hne hL d h w hw]
  show (sumTo V fun v => sumTo (L - 1) fun p => _) = _
  refine Compose2.sumTo_congr _ _ _ (fun v _ => Compose2.sumTo_congr _ _ _ (fun p _ => ?_))
  rw [C08.seqObj_vc, add_zero]

/-- `C07.strict_walk_time_feasible` for the API-built strict object: every walk meets all time windows -/
theorem strict_walk_time_feasible_api (src : Graph) (V L : ℕ) (hsrc : C15.Inv src) (hne : src.nodes ≠ [])
    (w : ℕ → ℕ → ℕ) (hw : Walk (C08.seqObj src true V L) w) (v : ℕ) (hv : v < V) (p : ℕ) (hp : p < L) :
    leE (arrival (C08.seqObj src true V L).g (w v) p) ((C08.seqObj src true V L).g.hi (w v p)) = true :=
  strict_walk_time_feasible (C08.seqObj src true V L) (new_strict_arcs src hsrc).1 (C08.seqObj_inv src hsrc hne true V L)
    (seqObj_selfloop src true V L hne).2.1 w hw v hv p hp

/-- `C08.seq_nonstrict_le_reference` for the API-built non-strict object (partitions of the object's own graph;
    `C08.seq_nonstrict_le_source` is the version about partitions of `src`) -/
theorem seq_nonstrict_le_reference_api (src : Graph) (V L : ℕ) (hsrc : C15.Inv src) (hne : src.nodes ≠ [])
    (hL : 3 ≤ L) (cap init : ℚ) (rs : List (List ℕ))
    (hp : C08.IsPartition (C08.seqObj src false V L).g cap init rs) (hV : rs.length ≤ V)
    (hlen : ∀ r ∈ rs, r.length ≤ L) :
    ∃ w, Walk (C08.seqObj src false V L) w ∧
      (sumTo (C08.seqObj src false V L).V fun v => sumTo ((C08.seqObj src false V L).L - 1) fun p =>
          arcCost (C08.seqObj src false V L).g (w v p) (w v (p + 1)) + (C08.seqObj src false V L).vc v)
        = C08.partitionCost (C08.seqObj src false V L).g cap init rs :=
  C08.seq_nonstrict_le_reference (C08.seqObj src false V L) cap init hL (C08.seqObj_inv src hsrc hne false V L)
    (seqObj_selfloop src false V L hne).1 (seqObj_selfloop src false V L hne).2.2
    (C08.seqObj_vc src false V L) rs hp hV hlen

/-- `C08.seq_strict_ge_reference` for the API-built strict object -/
theorem seq_strict_ge_reference_api (src : Graph) (V L : ℕ) (hsrc : C15.Inv src) (hne : src.nodes ≠ [])
    (hL : 3 ≤ L) (cap init : ℚ) (hcf : C08.CapFree src cap init)
    (w : ℕ → ℕ → ℕ) (hw : Walk (C08.seqObj src true V L) w) :
    ∃ rs, C08.IsPartition (C08.seqObj src true V L).g cap init rs ∧
      C08.partitionCost (C08.seqObj src true V L).g cap init rs
        = sumTo (C08.seqObj src true V L).V fun v => sumTo ((C08.seqObj src true V L).L - 1) fun p =>
            arcCost (C08.seqObj src true V L).g (w v p) (w v (p + 1)) + (C08.seqObj src true V L).vc v := by
  have hcf' : C08.CapFree (C08.seqObj src true V L).g cap init :=
    ⟨fun i => by
      rw [C08.c8d_demand_congr (seqObj_nodes src hsrc hne true V L)]; exact hcf.dem i, hcf.init0, hcf.initc⟩
  exact C08.seq_strict_ge_reference (C08.seqObj src true V L) cap init hL (C08.seqObj_inv src hsrc hne true V L)
    (new_strict_arcs src hsrc).1 hcf' (seqObj_selfloop src true V L hne).2.1
    (seqObj_selfloop src true V L hne).2.2 (C08.seqObj_vc src true V L) w hw

/-! ## non-vacuity -/

/-- a 3-node history in strict sequence flavour: the depot is declared after arcs were stored, more calls follow
    (an `add_node`, an `add_arc` into the depot, a refused `add_arc`, a second `set_depot`) -/
def nv_ops_c : List GOp :=
  [.addNode "a" 0 2 (some 5), .addNode "d" 0 0 none, .addArc "d" "a" 2 1, .addArc "a" "d" 2 1]
def nv_post_c : List GOp :=
  [.addNode "b" 0 6 (some 9), .addArc "b" "d" 1 1, .addArc "d" "b" 6 3, .addArc "b" "a" 1 1, .setDepot "d"]

/-- hypotheses of `selfloop_reachable` hold; its conclusion, and what the reached graph literally stores -/
example : SelfLoop (grun (.seq true) {} (nv_ops_c ++ .setDepot "d" :: nv_post_c)) ∧
    (grun (.seq true) {} (nv_ops_c ++ .setDepot "d" :: nv_post_c)).arc? 0 0 = some ⟨"d", "d", 0, 0⟩ ∧
    (grun (.seq true) {} (nv_ops_c ++ .setDepot "d" :: nv_post_c)).names = ["d", "a", "b"] :=
  ⟨selfloop_reachable true nv_ops_c nv_post_c "d" (by decide +kernel) (by
      intro o d t c hm
      simp only [nv_post_c, List.mem_cons, GOp.addArc.injEq, reduceCtorEq, List.not_mem_nil, or_false,
        false_or] at hm
      rcases hm with ⟨rfl, rfl, _, _⟩ | ⟨rfl, rfl, _, _⟩ | ⟨rfl, rfl, _, _⟩ <;> decide),
    by decide +kernel, by decide +kernel⟩

/-- the exclusion in (b) is needed: `add_arc(depot, depot, 5, 7)` does overwrite the self-loop (and a later
    `set_depot` re-installs it) -/
example :
    (grun (.seq false) {} (nv_ops_c ++ [.setDepot "d", .addArc "d" "d" 5 7])).arc? 0 0 = some ⟨"d", "d", 5, 7⟩ ∧
    (grun (.seq false) {} (nv_ops_c ++ [.setDepot "d", .addArc "d" "d" 5 7, .setDepot "a"])).arc? 0 0
      = some ⟨"a", "a", 0, 0⟩ := by
  decide +kernel

/-- all hypotheses of the `_api` theorems hold for `C08.exSrc`, strict, two vehicles, four positions and the walk
    `C08.exWalk` (`d, a, b, d` / depot only): the data exist, the indicator is feasible, its objective is 3 -/
example : ∃ d, (C08.seqObj C08.exSrc true 2 4).data = some d ∧
    d.feasibleB (indicator (C08.seqObj C08.exSrc true 2 4) C08.exWalk) = true ∧
    d.objective (indicator (C08.seqObj C08.exSrc true 2 4) C08.exWalk) = 3 := by
  obtain ⟨d, hd⟩ := seqObj_data_total C08.exSrc true 2 4 (by decide)
  have hne : C08.exSrc.nodes ≠ [] := by decide
  refine ⟨d, hd, ?_, ?_⟩
  · exact (seq_walks_representable_api C08.exSrc true 2 4 C08.exSrc_inv hne (by decide) d hd
      C08.exWalk C08.exWalk_walk).2
  · rw [(seq_objective_eq_moves_api' C08.exSrc true 2 4 C08.exSrc_inv hne (by decide) d hd
      C08.exWalk C08.exWalk_walk).1]
    decide +kernel

/-- … and, by `seq_feasible_iff_walks_api`, the feasible vector is a walk indicator -/
example (d : MPData) (hd : (C08.seqObj C08.exSrc true 2 4).data = some d) :
    ∃ w, Walk (C08.seqObj C08.exSrc true 2 4) w ∧
      ∀ k < d.n, indicator (C08.seqObj C08.exSrc true 2 4) C08.exWalk k
        = indicator (C08.seqObj C08.exSrc true 2 4) w k := by
  have hne : C08.exSrc.nodes ≠ [] := by decide
  obtain ⟨hb, hf⟩ := seq_walks_representable_api C08.exSrc true 2 4 C08.exSrc_inv hne (by decide) d hd
    C08.exWalk C08.exWalk_walk
  exact (seq_feasible_iff_walks_api C08.exSrc true 2 4 C08.exSrc_inv hne (by decide) d hd _ hb).1 hf

end Vrp.C07
