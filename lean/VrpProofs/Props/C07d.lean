import VrpProofs.Props.C07c
import VrpProofs.Props.C14c

/-!
# C07d — the free depot self-loop along EVERY public call history of the sequence-based object

`C07c` follows the depot self-loop (`SelfLoop g`: `arcs[(0,0)] = Arc(nodes[0], nodes[0], 0, 0)`) along `ApiReach`:
constructor, the two setters, graph calls, SUCCESSFUL heuristic runs.  Real call histories go on after a heuristic
that RAISES (it leaves the arcs / dummy vehicles added so far behind), and they contain `set_vehicle_cap` /
`set_initial_loading` and the queries.  Here the invariant is proved for the flag-level machine `SeqObj.step`
(`VrpModel/CacheFlags.lean`), whose operations are ALL public calls: the queries (including `get_routes`), the
heuristic with the partial state kept when it raises, and the seven mutators.

* `seqStep_inv`, `seqStep_selfloop`: one call — any call — keeps `C15.Inv` and the self-loop, except an `add_arc`
  whose two names both resolve to position 0 (`OverwritesLoopF`: the caller overwrites the depot's own loop);
* `seqRun_selfloop`: any history; `seqRun_selfloop_of_no_selfarc_calls`: a state-independent side condition;
* `seqObj_after_setDepot`: one successful `set_depot` installs the loop (no earlier loop needed);
* `seqObj_new_hyps`, `seqRun_selfloop_new`, `seqRun_selfloop_seqObj`: every history from the constructor.

No coherence hypothesis on the caches is needed: the statements are about the problem data `o.inst`, and every
operation treats them the same way whatever the flags say.
-/
namespace Vrp.C07
open Vrp

/-! ## the queries leave the problem data alone (whatever the flags and caches are) -/

theorem fq_enum_inst (o : SeqObj) : o.enumerateVariables.inst = o.inst := by
  unfold SeqObj.enumerateVariables
  split_ifs <;> rfl

theorem fq_getNum_inst (o : SeqObj) : o.getNumVariables.1.inst = o.inst := by
  unfold SeqObj.getNumVariables
  simp only
  split_ifs
  · exact fq_enum_inst o
  · rfl

theorem fq_getVarIndex_inst (o : SeqObj) (u : STup) : (o.getVarIndex u).1.inst = o.inst := fq_enum_inst o

theorem fq_getVarTupleIndex_inst (o : SeqObj) (k : ℕ) : (o.getVarTupleIndex k).1.inst = o.inst := fq_enum_inst o

theorem fq_getRoutes_inst (o : SeqObj) (x : List ℚ) : (o.getRoutes x).1.inst = o.inst := by
  unfold SeqObj.getRoutes
  simp only
  split_ifs
  · rfl
  · exact fq_enum_inst o

theorem fq_buildObjective_inst (o : SeqObj) : o.buildObjective.inst = o.inst := by
  unfold SeqObj.buildObjective
  split_ifs
  · rfl
  · exact (fq_getNum_inst _).trans (fq_enum_inst o)

theorem fq_buildLinear_inst (o : SeqObj) : o.buildLinearConstraints.inst = o.inst := by
  unfold SeqObj.buildLinearConstraints
  split_ifs
  · rfl
  · exact (fq_getNum_inst _).trans (fq_enum_inst o)

theorem fq_buildQuadratic_inst (o : SeqObj) : o.buildQuadraticConstraints.1.inst = o.inst := by
  unfold SeqObj.buildQuadraticConstraints
  split_ifs
  · rfl
  · simp only
    split
    · exact fq_enum_inst o
    · exact (fq_getNum_inst _).trans (fq_enum_inst o)

theorem fq_getObjectiveData_inst (o : SeqObj) : o.getObjectiveData.1.inst = o.inst := fq_buildObjective_inst o

theorem fq_getConstraintData_inst (o : SeqObj) : o.getConstraintData.1.inst = o.inst := by
  unfold SeqObj.getConstraintData
  simp only
  split <;> exact (fq_buildQuadratic_inst _).trans (fq_buildLinear_inst o)

theorem fq_getQubo_inst (o : SeqObj) (feas : Bool) (rho? : Option ℚ) : (o.getQubo feas rho?).1.inst = o.inst := by
  unfold SeqObj.getQubo
  simp only
  split
  · exact fq_getConstraintData_inst o
  · split_ifs
    · exact fq_getConstraintData_inst o
    · exact fq_getConstraintData_inst o
    · exact (fq_getObjectiveData_inst _).trans (fq_getConstraintData_inst o)
    · exact (fq_getObjectiveData_inst _).trans (fq_getConstraintData_inst o)

/-! ## the heuristic at flag level = the instance-level heuristic with partial effects (no coherence needed) -/

theorem fq_lookupAll_inst (o : SeqObj) (used : List STup) (acc : List ℕ) :
    (o.lookupAll used acc).1.inst = o.inst := by
  induction used generalizing o acc with
  | nil => rfl
  | cons a rest ih =>
    unfold SeqObj.lookupAll
    simp only
    split
    · exact fq_enum_inst o
    · exact (ih _ _).trans (fq_enum_inst o)

theorem fq_storeSolution_inst (o : SeqObj) (used : List STup) : (o.storeSolution used).1.inst = o.inst := by
  unfold SeqObj.storeSolution
  simp only
  split <;> exact (fq_lookupAll_inst _ _ _).trans (fq_enum_inst o)

/-- `make_feasible` on ANY object (coherent caches or not): the problem data afterwards are those of the
    instance-level run `SeqInst.heurP`, which keeps the partial state when the heuristic raises -/
theorem fq_makeFeasible_inst (o : SeqObj) (high : ℚ) :
    (o.makeFeasibleWith SeqObj.resetAll SeqObj.resetAll high).1.inst = (o.inst.heurP high).1 := by
  unfold SeqObj.makeFeasibleWith SeqInst.heurP
  simp only
  generalize sortByHi o.inst.g _ = unv0
  obtain ⟨v1, _, v3⟩ := SeqObj.vehLoop_abs SeqObj.flagOnly_resetAll (List.range o.inst.V) o unv0 []
  rw [v3]
  cases hr : (seqVehLoopI (Flavor.seq o.inst.strict) o.inst.L (List.range o.inst.V) o.inst.g unv0 []).2 with
  | none => exact v1
  | some p =>
    simp only
    obtain ⟨d1, d2, _⟩ := SeqObj.dummyLoop_abs SeqObj.flagOnly_resetAll high
      (SeqObj.vehLoop SeqObj.resetAll (List.range o.inst.V) o unv0 []).1 p.2 p.1
    rw [v1] at d1 d2
    rw [d2]
    cases hr2 : (seqDummyLoopI high { o.inst with g := (seqVehLoopI (Flavor.seq o.inst.strict) o.inst.L
        (List.range o.inst.V) o.inst.g unv0 []).1 } p.2 p.1).2 with
    | none => exact d1
    | some used =>
      simp only
      have k := fq_storeSolution_inst
        (SeqObj.dummyLoop SeqObj.resetAll high
          (SeqObj.vehLoop SeqObj.resetAll (List.range o.inst.V) o unv0 []).1 p.2 p.1).1 used
      rw [d1] at k
      cases lookupAllI (seqDummyLoopI high { o.inst with g := (seqVehLoopI (Flavor.seq o.inst.strict) o.inst.L
        (List.range o.inst.V) o.inst.g unv0 []).1 } p.2 p.1).1.varIndex used [] with
      | none => exact k
      | some idxs => exact k

/-! ## the instance-level heuristic with partial effects: invariant and entry `(0,0)` -/

/-- regular vehicles, graph invariant (unconditional; also when a vehicle's exit arc is refused) -/
theorem hp_vehLoopI_inv (fl : Flavor) (L : ℕ) (vs : List ℕ) (g : Graph) (unv : List ℕ) (used : List STup)
    (hinv : C15.Inv g) : C15.Inv (seqVehLoopI fl L vs g unv used).1 := by
  induction vs generalizing g unv used with
  | nil => exact hinv
  | cons v vs ih =>
    unfold seqVehLoopI
    cases hs : seqFill fl L v (L - 2) 1 0 g unv used with
    | none => exact hinv
    | some st => exact ih st.1 st.2.1 st.2.2 (SeqHeur.em_seqFill_inv fl L v _ _ _ _ _ _ st hinv hs)

/-- "add the arc unless it exists", graph invariant -/
theorem hp_ensureArc_inv {fl : Flavor} {g : Graph} {o d : ℕ} {t c : ℚ} {g' : Graph} (hinv : C15.Inv g)
    (h : (if g.hasArc o d then some g else addArcOrFail fl g o d t c) = some g') : C15.Inv g' := by
  split_ifs at h
  · simp only [Option.some.injEq] at h; subst h; exact hinv
  · exact SeqHeur.em_addArcOrFail_inv hinv h

/-- one dummy vehicle, graph invariant (unconditional; also when one of its two arcs is refused) -/
theorem hp_dummyStepI_inv (high : ℚ) (J : SeqInst) (used : List STup) (ni : ℕ) (hinv : C15.Inv J.g) :
    C15.Inv (seqDummyStepI high J used ni).1.g := by
  unfold seqDummyStepI
  simp only
  cases h1 : (if J.g.hasArc 0 ni = true then some J.g
      else addArcOrFail (Flavor.seq J.strict) J.g 0 ni 0 high) with
  | none => exact hinv
  | some g1 =>
    have i1 := hp_ensureArc_inv hinv h1
    simp only
    cases h2 : (if g1.hasArc ni 0 = true then some g1
        else addArcOrFail (Flavor.seq J.strict) g1 ni 0 0 high) with
    | none => exact i1
    | some g2 => exact hp_ensureArc_inv i1 h2

theorem hp_dummyLoopI_inv (high : ℚ) (l : List ℕ) (J : SeqInst) (used : List STup) (hinv : C15.Inv J.g) :
    C15.Inv (seqDummyLoopI high J used l).1.g := by
  induction l generalizing J used with
  | nil => exact hinv
  | cons n rest ih =>
    unfold seqDummyLoopI
    simp only
    have hstep := hp_dummyStepI_inv high J used n hinv
    cases hr : (seqDummyStepI high J used n).2 with
    | none => exact hstep
    | some used' => exact ih _ used' hstep

/-- **`make_feasible` keeps the graph invariant, also when it raises midway** -/
theorem heurP_inv (I : SeqInst) (high : ℚ) (hinv : C15.Inv I.g) : C15.Inv (I.heurP high).1.g := by
  unfold SeqInst.heurP
  simp only
  generalize sortByHi I.g _ = unv0
  have a := hp_vehLoopI_inv (.seq I.strict) I.L (List.range I.V) I.g unv0 [] hinv
  cases hr : (seqVehLoopI (Flavor.seq I.strict) I.L (List.range I.V) I.g unv0 []).2 with
  | none => exact a
  | some p =>
    simp only
    have b := hp_dummyLoopI_inv high p.1
      { I with g := (seqVehLoopI (Flavor.seq I.strict) I.L (List.range I.V) I.g unv0 []).1 } p.2 a
    cases hr2 : (seqDummyLoopI high { I with g := (seqVehLoopI (Flavor.seq I.strict) I.L (List.range I.V)
        I.g unv0 []).1 } p.2 p.1).2 with
    | none => exact b
    | some used =>
      simp only
      cases lookupAllI (seqDummyLoopI high { I with g := (seqVehLoopI (Flavor.seq I.strict) I.L (List.range I.V)
        I.g unv0 []).1 } p.2 p.1).1.varIndex used [] with
      | none => exact b
      | some idxs => exact b

/-- what the loops of the heuristic do to a graph with a depot self-arc: same nodes, arcs only grow, the entry
    `(0,0)` is literally unchanged -/
structure Keep (g g' : Graph) : Prop where
  gle : SeqHeur.GLe g g'
  arc00 : g'.arc? 0 0 = g.arc? 0 0

theorem Keep.refl (g : Graph) : Keep g g := ⟨SeqHeur.GLe.refl g, rfl⟩

theorem Keep.trans {a b c : Graph} (h1 : Keep a b) (h2 : Keep b c) : Keep a c :=
  ⟨h1.gle.trans h2.gle, h2.arc00.trans h1.arc00⟩

theorem Keep.len {g g' : Graph} (h : Keep g g') : g'.nodes.length = g.nodes.length := by rw [h.gle.nodes]

theorem hp_ensureArc_keep {fl : Flavor} {g : Graph} {o d : ℕ} {t c : ℚ} {g' : Graph} (hinv : C15.Inv g)
    (ho : o < g.nodes.length) (hd : d < g.nodes.length) (h00 : g.hasArc 0 0 = true)
    (h : (if g.hasArc o d then some g else addArcOrFail fl g o d t c) = some g') : Keep g g' :=
  ⟨(SeqHeur.ensureArc_spec fl g o d t c g' hinv ho hd h).1, SeqHeur.rc_ensureArc_arc00 hinv ho hd h00 h⟩

/-- regular vehicles: whether or not the loop is cut short by a refused exit arc, the graph reached keeps the
    entry `(0,0)`; when it runs through, the nodes still unvisited are positions of the graph -/
theorem hp_vehLoopI_keep (fl : Flavor) (L : ℕ) (vs : List ℕ) (g : Graph) (unv : List ℕ) (used : List STup)
    (hinv : C15.Inv g) (h0 : 0 < g.nodes.length) (hu : ∀ n ∈ unv, n < g.nodes.length)
    (h00 : g.hasArc 0 0 = true) :
    Keep g (seqVehLoopI fl L vs g unv used).1 ∧
      ∀ p, (seqVehLoopI fl L vs g unv used).2 = some p → ∀ n ∈ p.1, n < g.nodes.length := by
  induction vs generalizing g unv used with
  | nil =>
    refine ⟨Keep.refl g, fun p hp n hn => ?_⟩
    have : p = (unv, used) := (Option.some.inj hp).symm
    subst this
    exact hu n hn
  | cons v vs ih =>
    unfold seqVehLoopI
    cases hs : seqFill fl L v (L - 2) 1 0 g unv used with
    | none => exact ⟨Keep.refl g, fun p hp => by cases hp⟩
    | some st =>
      simp only
      have a := SeqHeur.rc_seqFill_arc00 fl L v _ _ _ _ _ _ st hinv h0 h0 hu h00 hs
      obtain ⟨r, _, hg, hi1, _, hperm, _⟩ := SeqHeur.seqFill_spec fl L v _ _ _ _ _ _ st hinv h0 h0 hu hs
      have hn1 : st.1.nodes.length = g.nodes.length := by rw [hg.nodes]
      have hu1 : ∀ n ∈ st.2.1, n < st.1.nodes.length := fun n hn => by
        rw [hn1]; exact hu n (hperm.mem_iff.2 (List.mem_append_right _ hn))
      obtain ⟨b1, b2⟩ := ih st.1 st.2.1 st.2.2 hi1 (by rw [hn1]; exact h0) hu1 (hg.mono 0 0 h00)
      exact ⟨Keep.trans ⟨hg, a⟩ b1, fun p hp n hn => hn1 ▸ b2 p hp n hn⟩

/-- one dummy vehicle: the graph reached (both arcs there, or the step cut short by a refusal) keeps `(0,0)` -/
theorem hp_dummyStepI_keep (high : ℚ) (J : SeqInst) (used : List STup) (ni : ℕ) (hinv : C15.Inv J.g)
    (h0 : 0 < J.g.nodes.length) (hni : ni < J.g.nodes.length) (h00 : J.g.hasArc 0 0 = true) :
    Keep J.g (seqDummyStepI high J used ni).1.g := by
  unfold seqDummyStepI
  simp only
  cases h1 : (if J.g.hasArc 0 ni = true then some J.g
      else addArcOrFail (Flavor.seq J.strict) J.g 0 ni 0 high) with
  | none => exact Keep.refl _
  | some g1 =>
    have k1 := hp_ensureArc_keep hinv h0 hni h00 h1
    have i1 := hp_ensureArc_inv hinv h1
    simp only
    cases h2 : (if g1.hasArc ni 0 = true then some g1
        else addArcOrFail (Flavor.seq J.strict) g1 ni 0 0 high) with
    | none => exact k1
    | some g2 =>
      exact k1.trans (hp_ensureArc_keep i1 (by rw [k1.len]; exact hni) (by rw [k1.len]; exact h0)
        (k1.gle.mono 0 0 h00) h2)

theorem hp_dummyLoopI_keep (high : ℚ) (l : List ℕ) (J : SeqInst) (used : List STup) (hinv : C15.Inv J.g)
    (h0 : 0 < J.g.nodes.length) (hl : ∀ n ∈ l, n < J.g.nodes.length) (h00 : J.g.hasArc 0 0 = true) :
    Keep J.g (seqDummyLoopI high J used l).1.g := by
  induction l generalizing J used with
  | nil => exact Keep.refl _
  | cons n rest ih =>
    unfold seqDummyLoopI
    simp only
    have hstep := hp_dummyStepI_keep high J used n hinv h0 (hl n List.mem_cons_self) h00
    have istep := hp_dummyStepI_inv high J used n hinv
    cases hr : (seqDummyStepI high J used n).2 with
    | none => exact hstep
    | some used' =>
      exact hstep.trans (ih _ used' istep (by rw [hstep.len]; exact h0)
        (fun m hm => by rw [hstep.len]; exact hl m (List.mem_cons_of_mem _ hm)) (hstep.gle.mono 0 0 h00))

/-- **`make_feasible` never assigns the key `(0,0)`, also when it raises midway**: on a self-consistent graph that
    holds a depot self-arc, the problem data it leaves behind (`SeqInst.heurP`: the arcs and dummy vehicles added
    before a `ValueError` included) have the same nodes and the same entry `(0,0)` -/
theorem heurP_keep (I : SeqInst) (high : ℚ) (hinv : C15.Inv I.g) (h00 : I.g.hasArc 0 0 = true) :
    Keep I.g (I.heurP high).1.g := by
  have h0 : 0 < I.g.nodes.length := by
    obtain ⟨e, he, hek⟩ := dictHas_iff.mp h00
    obtain ⟨ni, _, h1, _⟩ := hinv.filed e he
    rw [hek] at h1
    exact (List.getElem?_eq_some_iff.mp h1).1
  unfold SeqInst.heurP
  simp only
  generalize hU : sortByHi I.g _ = unv0
  have hu : ∀ n ∈ unv0, n < I.g.nodes.length := by
    subst hU
    exact fun n hn => ((SeqHeur.mem_unv0 I n).1 hn).2
  obtain ⟨a1, a2⟩ := hp_vehLoopI_keep (.seq I.strict) I.L (List.range I.V) I.g unv0 [] hinv h0 hu h00
  have ai := hp_vehLoopI_inv (.seq I.strict) I.L (List.range I.V) I.g unv0 [] hinv
  cases hr : (seqVehLoopI (Flavor.seq I.strict) I.L (List.range I.V) I.g unv0 []).2 with
  | none => exact a1
  | some p =>
    simp only
    have b := hp_dummyLoopI_keep high p.1
      { I with g := (seqVehLoopI (Flavor.seq I.strict) I.L (List.range I.V) I.g unv0 []).1 } p.2 ai
      (by show 0 < (seqVehLoopI _ _ _ _ _ _).1.nodes.length; rw [a1.len]; exact h0)
      (fun n hn => by
        show n < (seqVehLoopI _ _ _ _ _ _).1.nodes.length
        rw [a1.len]; exact a2 p hr n hn)
      (a1.gle.mono 0 0 h00)
    have ab := a1.trans b
    cases hr2 : (seqDummyLoopI high { I with g := (seqVehLoopI (Flavor.seq I.strict) I.L (List.range I.V)
        I.g unv0 []).1 } p.2 p.1).2 with
    | none => exact ab
    | some used =>
      simp only
      cases lookupAllI (seqDummyLoopI high { I with g := (seqVehLoopI (Flavor.seq I.strict) I.L (List.range I.V)
        I.g unv0 []).1 } p.2 p.1).1.varIndex used [] with
      | none => exact ab
      | some idxs => exact ab

/-- the self-loop survives `make_feasible`, whether it returns or raises -/
theorem heurP_selfloop (I : SeqInst) (high : ℚ) (hinv : C15.Inv I.g) (hs : SelfLoop I.g) :
    SelfLoop (I.heurP high).1.g := by
  obtain ⟨n0, h0, ha⟩ := hs
  have k := heurP_keep I high hinv (C08.c8d_hasArc_of_arc? _ 0 0 _ ha)
  exact ⟨n0, by rw [k.gle.nodes]; exact h0, by rw [k.arc00]; exact ha⟩

/-! ## one public call on the object -/

/-- the call explicitly overwrites the depot's own loop: an `add_arc` whose two names both resolve to position 0
    (`C07.OverwritesLoop` for the operations of the flag-level machine); false for every other operation -/
def OverwritesLoopF (g : Graph) : SeqFOp → Prop
  | .addArc o d _ _ => g.indexOf? o = some 0 ∧ g.indexOf? d = some 0
  | _ => False

instance (g : Graph) (op : SeqFOp) : Decidable (OverwritesLoopF g op) := by
  cases op <;> (dsimp only [OverwritesLoopF]; infer_instance)

/-- a forwarded mutator keeps the graph invariant (a raising one changes nothing; `set_vehicle_cap` /
    `set_initial_loading` write one scalar attribute of the `vrptw` object) -/
theorem gmut_inv (fl : Flavor) (g : Graph) (m : GMut) (h : C15.Inv g) : C15.Inv (gmut fl g m).1 := by
  cases m with
  | op op => exact C15.gstep_inv fl g op h
  | cap c => exact ⟨h.nodup, h.nodesOk, h.keysNodup, h.filed⟩
  | init l => exact ⟨h.nodup, h.nodesOk, h.keysNodup, h.filed⟩

theorem gmut_cap_selfloop (fl : Flavor) (g : Graph) (c : ℚ) (h : SelfLoop g) : SelfLoop (gmut fl g (.cap c)).1 := by
  obtain ⟨n0, h0, ha⟩ := h
  exact ⟨n0, h0, ha⟩

theorem gmut_init_selfloop (fl : Flavor) (g : Graph) (l : ℚ) (h : SelfLoop g) :
    SelfLoop (gmut fl g (.init l)).1 := by
  obtain ⟨n0, h0, ha⟩ := h
  exact ⟨n0, h0, ha⟩

/-- the problem data after a forwarded mutator -/
theorem mutate_g (o : SeqObj) (m : GMut) : (o.mutate m).1.inst.g = (gmut (.seq o.inst.strict) o.inst.g m).1 := rfl

/-- **every public call keeps the graph invariant** — queries, mutators (raising ones included), and heuristic runs
    (those that raise midway included) -/
theorem seqStep_inv (o : SeqObj) (op : SeqFOp) (hg : C15.Inv o.inst.g) : C15.Inv (o.step op).1.inst.g := by
  cases op with
  | numVars => show C15.Inv o.getNumVariables.1.inst.g; rw [fq_getNum_inst]; exact hg
  | varIndex u => show C15.Inv (o.getVarIndex u).1.inst.g; rw [fq_getVarIndex_inst]; exact hg
  | varTuple k => show C15.Inv (o.getVarTupleIndex k).1.inst.g; rw [fq_getVarTupleIndex_inst]; exact hg
  | objective => show C15.Inv o.getObjectiveData.1.inst.g; rw [fq_getObjectiveData_inst]; exact hg
  | constraints => show C15.Inv o.getConstraintData.1.inst.g; rw [fq_getConstraintData_inst]; exact hg
  | qubo feas rho? => show C15.Inv (o.getQubo feas rho?).1.inst.g; rw [fq_getQubo_inst]; exact hg
  | decode x => show C15.Inv (o.getRoutes x).1.inst.g; rw [fq_getRoutes_inst]; exact hg
  | heur high =>
    show C15.Inv (o.makeFeasibleWith SeqObj.resetAll SeqObj.resetAll high).1.inst.g
    rw [fq_makeFeasible_inst]
    exact heurP_inv o.inst high hg
  | setMaxVehicles v => exact hg
  | setMaxSeqLen l => exact hg
  | addArc og d t c => exact gmut_inv _ _ (.op (.addArc og d t c)) hg
  | addNode nm dem lo hi => exact gmut_inv _ _ (.op (.addNode nm dem lo hi)) hg
  | setDepot nm => exact gmut_inv _ _ (.op (.setDepot nm)) hg
  | setVehicleCap c => exact gmut_inv (.seq o.inst.strict) o.inst.g (.cap c) hg
  | setInitialLoading l => exact gmut_inv (.seq o.inst.strict) o.inst.g (.init l) hg

/-- **every public call keeps the depot self-loop**, unless it is an `add_arc` whose two names both resolve to
    position 0: the queries (`get_routes` included), `set_max_vehicles`, `set_max_sequence_length`, `add_node`,
    `add_arc`, `set_depot`, `set_vehicle_cap`, `set_initial_loading` — returning or raising — and `make_feasible`,
    returning or raising midway with arcs and dummy vehicles left behind -/
theorem seqStep_selfloop (o : SeqObj) (op : SeqFOp) (hg : C15.Inv o.inst.g) (hs : SelfLoop o.inst.g)
    (hop : ¬ OverwritesLoopF o.inst.g op) : SelfLoop (o.step op).1.inst.g := by
  cases op with
  | numVars => show SelfLoop o.getNumVariables.1.inst.g; rw [fq_getNum_inst]; exact hs
  | varIndex u => show SelfLoop (o.getVarIndex u).1.inst.g; rw [fq_getVarIndex_inst]; exact hs
  | varTuple k => show SelfLoop (o.getVarTupleIndex k).1.inst.g; rw [fq_getVarTupleIndex_inst]; exact hs
  | objective => show SelfLoop o.getObjectiveData.1.inst.g; rw [fq_getObjectiveData_inst]; exact hs
  | constraints => show SelfLoop o.getConstraintData.1.inst.g; rw [fq_getConstraintData_inst]; exact hs
  | qubo feas rho? => show SelfLoop (o.getQubo feas rho?).1.inst.g; rw [fq_getQubo_inst]; exact hs
  | decode x => show SelfLoop (o.getRoutes x).1.inst.g; rw [fq_getRoutes_inst]; exact hs
  | heur high =>
    show SelfLoop (o.makeFeasibleWith SeqObj.resetAll SeqObj.resetAll high).1.inst.g
    rw [fq_makeFeasible_inst]
    exact heurP_selfloop o.inst high hg hs
  | setMaxVehicles v => exact hs
  | setMaxSeqLen l => exact hs
  | addArc og d t c => exact selfloop_addArc o.inst.strict o.inst.g og d t c hs hop
  | addNode nm dem lo hi => exact selfloop_addNode o.inst.strict o.inst.g nm dem lo hi hs
  | setDepot nm => exact selfloop_setDepot o.inst.strict o.inst.g nm hs
  | setVehicleCap c => exact gmut_cap_selfloop (.seq o.inst.strict) o.inst.g c hs
  | setInitialLoading l => exact gmut_init_selfloop (.seq o.inst.strict) o.inst.g l hs

/-! ## any call history -/

/-- **any history of public calls**: from a self-consistent graph with the depot self-loop, as long as no call
    overwrites the loop in the state it is issued in, the final graph is self-consistent and has the loop — arc
    `(0,0)` present, time 0, cost 0.  Heuristic runs that raise, mutators that raise and all queries are ordinary
    elements of `ops`. -/
theorem seqRun_selfloop (ops : List SeqFOp) (o : SeqObj) (hg : C15.Inv o.inst.g) (hs : SelfLoop o.inst.g)
    (hops : ∀ k (hk : k < ops.length), ¬ OverwritesLoopF (o.run (ops.take k)).1.inst.g ops[k]) :
    C15.Inv (o.run ops).1.inst.g ∧ SelfLoop (o.run ops).1.inst.g ∧
      (o.run ops).1.inst.g.hasArc 0 0 = true ∧ arcTime (o.run ops).1.inst.g 0 0 = 0 ∧
      arcCost (o.run ops).1.inst.g 0 0 = 0 := by
  suffices hk : C15.Inv (o.run ops).1.inst.g ∧ SelfLoop (o.run ops).1.inst.g from ⟨hk.1, hk.2, hk.2.facts⟩
  induction ops generalizing o with
  | nil => exact ⟨hg, hs⟩
  | cons op ops ih =>
    rw [C14c.seq_run_cons]
    refine ih (o.step op).1 (seqStep_inv o op hg) (seqStep_selfloop o op hg hs (hops 0 (by simp)))
      (fun k hk => ?_)
    have := hops (k + 1) (by simpa using hk)
    simpa [List.take_succ_cons, C14c.seq_run_cons] using this

/-- a state-independent sufficient condition: the history contains no `add_arc(x, x, …)` call at all -/
theorem seqRun_selfloop_of_no_selfarc_calls (ops : List SeqFOp) (o : SeqObj) (hg : C15.Inv o.inst.g)
    (hs : SelfLoop o.inst.g) (hops : ∀ a d t c, SeqFOp.addArc a d t c ∈ ops → a ≠ d) :
    C15.Inv (o.run ops).1.inst.g ∧ SelfLoop (o.run ops).1.inst.g ∧
      (o.run ops).1.inst.g.hasArc 0 0 = true ∧ arcTime (o.run ops).1.inst.g 0 0 = 0 ∧
      arcCost (o.run ops).1.inst.g 0 0 = 0 := by
  refine seqRun_selfloop ops o hg hs (fun k hk => ?_)
  have hmem : ops[k] ∈ ops := List.getElem_mem hk
  cases hop : ops[k] with
  | addArc a d t c =>
    rintro ⟨h1, h2⟩
    rw [hop] at hmem
    exact hops a d t c hmem (rc_indexOf_inj h1 h2)
  | _ => exact fun hf => hf

/-! ## `set_depot` installs the loop; the constructor -/

/-- **one successful `set_depot` installs the loop**: if the call on the object did not raise, the graph afterwards
    is self-consistent and has the depot self-loop — no earlier self-loop is needed (an object assembled through
    `add_node` / `add_arc` alone gets it here), and by `seqRun_selfloop` every later history keeps it -/
theorem seqObj_after_setDepot (o : SeqObj) (nm : String) (hg : C15.Inv o.inst.g)
    (hok : ∀ e, (o.step (.setDepot nm)).2 ≠ .raised e) :
    C15.Inv (o.step (.setDepot nm)).1.inst.g ∧ SelfLoop (o.step (.setDepot nm)).1.inst.g := by
  refine ⟨seqStep_inv o _ hg, ?_⟩
  show SelfLoop (gstep (.seq o.inst.strict) o.inst.g (.setDepot nm)).1
  apply selfLoop_after_setDepot
  have hrep : (o.step (.setDepot nm)).2
      = SeqReply.ofGOut (gstep (.seq o.inst.strict) o.inst.g (.setDepot nm)).2 := rfl
  rw [C15.gstep_setDepot_seq] at hrep ⊢
  cases hd : o.inst.g.indexOf? nm with
  | none =>
    rw [C15.setDepotSeq_err _ _ nm hd] at hrep
    exact absurd hrep (hok _)
  | some d =>
    obtain ⟨n0, _, _, heq⟩ := C15.setDepotSeq_ok o.inst.strict _ nm d hd
    rw [heq]

/-- the same with the success spelled as the reply `done` (`set_depot` returns `None`) -/
theorem seqObj_after_setDepot_done (o : SeqObj) (nm : String) (hg : C15.Inv o.inst.g)
    (hok : (o.step (.setDepot nm)).2 = .done) :
    C15.Inv (o.step (.setDepot nm)).1.inst.g ∧ SelfLoop (o.step (.setDepot nm)).1.inst.g :=
  seqObj_after_setDepot o nm hg (fun e h => by rw [hok] at h; cases h)

/-- a `set_depot` that raises leaves the problem data untouched -/
theorem seqObj_setDepot_raises (o : SeqObj) (nm : String) (e : Err)
    (h : (o.step (.setDepot nm)).2 = .raised e) : (o.step (.setDepot nm)).1.inst = o.inst := by
  have hrep : (o.step (.setDepot nm)).2
      = SeqReply.ofGOut (gstep (.seq o.inst.strict) o.inst.g (.setDepot nm)).2 := rfl
  cases hr : (gstep (.seq o.inst.strict) o.inst.g (.setDepot nm)).2 with
  | ok b =>
    rw [hrep, hr] at h
    cases b <;> cases h
  | error e' => exact (SeqObj.mutate_raised o (.op (.setDepot nm)) e' hr).2.1

/-- **the constructor** `SequenceBasedRoutingProblem(src, strict)` on a self-consistent source with at least one
    node: the fresh object satisfies the hypotheses of `seqRun_selfloop` -/
theorem seqObj_new_hyps (src : Graph) (strict : Bool) (hsrc : C15.Inv src) (hne : src.nodes ≠ []) :
    C15.Inv (SeqObj.init (SeqInst.new src strict)).inst.g ∧ SelfLoop (SeqObj.init (SeqInst.new src strict)).inst.g := by
  obtain ⟨n0, h0⟩ := C08.c8d_head_of_ne_nil src hne
  exact ⟨(C08.c8d_new_sub src hsrc strict n0 h0).2.1, seqNew_arc00 src strict hne⟩

/-- **every history from the constructor**: whatever public calls follow `SequenceBasedRoutingProblem(src, strict)`
    — the two setters, queries, mutators, heuristic runs, returning or raising — the graph stays self-consistent and
    keeps the free depot self-loop, as long as no call is an `add_arc` from the depot to itself -/
theorem seqRun_selfloop_new (src : Graph) (strict : Bool) (hsrc : C15.Inv src) (hne : src.nodes ≠ [])
    (ops : List SeqFOp)
    (hops : ∀ k (hk : k < ops.length),
      ¬ OverwritesLoopF ((SeqObj.init (SeqInst.new src strict)).run (ops.take k)).1.inst.g ops[k]) :
    C15.Inv ((SeqObj.init (SeqInst.new src strict)).run ops).1.inst.g ∧
      SelfLoop ((SeqObj.init (SeqInst.new src strict)).run ops).1.inst.g ∧
      ((SeqObj.init (SeqInst.new src strict)).run ops).1.inst.g.hasArc 0 0 = true ∧
      arcTime ((SeqObj.init (SeqInst.new src strict)).run ops).1.inst.g 0 0 = 0 ∧
      arcCost ((SeqObj.init (SeqInst.new src strict)).run ops).1.inst.g 0 0 = 0 :=
  seqRun_selfloop ops _ (seqObj_new_hyps src strict hsrc hne).1 (seqObj_new_hyps src strict hsrc hne).2 hops

/-- the same for the object of `C08d` (constructor + `set_max_vehicles(V)` + `set_max_sequence_length(L)`) -/
theorem seqRun_selfloop_seqObj (src : Graph) (strict : Bool) (V L : ℕ) (hsrc : C15.Inv src)
    (hne : src.nodes ≠ []) (ops : List SeqFOp)
    (hops : ∀ k (hk : k < ops.length),
      ¬ OverwritesLoopF ((SeqObj.init (C08.seqObj src strict V L)).run (ops.take k)).1.inst.g ops[k]) :
    C15.Inv ((SeqObj.init (C08.seqObj src strict V L)).run ops).1.inst.g ∧
      SelfLoop ((SeqObj.init (C08.seqObj src strict V L)).run ops).1.inst.g ∧
      ((SeqObj.init (C08.seqObj src strict V L)).run ops).1.inst.g.hasArc 0 0 = true ∧
      arcTime ((SeqObj.init (C08.seqObj src strict V L)).run ops).1.inst.g 0 0 = 0 ∧
      arcCost ((SeqObj.init (C08.seqObj src strict V L)).run ops).1.inst.g 0 0 = 0 :=
  seqRun_selfloop ops _ (C08.seqObj_inv src hsrc hne strict V L) (seqObj_arc00 src strict V L hne) hops

/-! ## non-vacuity -/

/-- depot `d` with window `[0, 5]`, customers `a` (`[0, 3]`) and `b` (`[0, 9]`), arcs `d → a`, `d → b` only.  In the
    strict object the exit arc `a → d` is accepted (3 + 0 ≤ 5), the exit arc `b → d` is refused (9 + 0 > 5): the
    depot window closes too early for `b`, so `make_feasible` raises `ValueError` after it has changed the object -/
def nvSrcD : Graph :=
  { nodes := [⟨"d", 0, 0, some 5⟩, ⟨"a", 0, 0, some 3⟩, ⟨"b", 0, 0, some 9⟩],
    arcs := [((0, 1), ⟨"d", "a", 1, 1⟩), ((0, 2), ⟨"d", "b", 1, 1⟩)] }

theorem nvSrcD_inv : C15.Inv nvSrcD := C06.ep_inv_of_invB nvSrcD (by decide +kernel)

/-- the freshly constructed strict object -/
def nvObjD : SeqObj := SeqObj.init (SeqInst.new nvSrcD true)

/-- a history with two RAISING heuristic runs, raising mutators, scalar setters and queries in between -/
def nvOpsD : List SeqFOp :=
  [.setMaxVehicles 1, .setMaxSeqLen 4, .numVars, .heur 100, .numVars, .addNode "c" 0 0 (some 4), .setVehicleCap 7,
   .setInitialLoading 3, .addArc "c" "d" 1 1, .addArc "zz" "d" 1 1, .setDepot "zz", .setMaxVehicles 3, .heur 100,
   .decode [1, 0, 0], .objective]

/-- what happens on it: the first heuristic run (call 3) raises in the dummy-vehicle loop and leaves the exit arc
    `a → d`, a second vehicle and its surcharge behind (the variable count goes from 4 to 10); `add_arc` and
    `set_depot` with an unknown name raise (calls 9, 10); the second heuristic run (call 12) raises in the loop of the
    regular vehicles; `get_routes` raises (call 13) -/
example :
    (nvObjD.run nvOpsD).2[2]? = some (.num 4) ∧ (nvObjD.run nvOpsD).2[3]? = some (.raised .value) ∧
    (nvObjD.run nvOpsD).2[4]? = some (.num 10) ∧
    (nvObjD.run (nvOpsD.take 3)).1.inst.g.hasArc 1 0 = false ∧
    (nvObjD.run (nvOpsD.take 4)).1.inst.g.arc? 1 0 = some ⟨"a", "d", 0, 0⟩ ∧
    (nvObjD.run (nvOpsD.take 3)).1.inst.V = 1 ∧ (nvObjD.run (nvOpsD.take 4)).1.inst.V = 2 ∧
    (nvObjD.run (nvOpsD.take 4)).1.inst.vcost = [0, 100] ∧
    (nvObjD.run nvOpsD).2[9]? = some (.raised .value) ∧ (nvObjD.run nvOpsD).2[10]? = some (.raised .value) ∧
    (nvObjD.run nvOpsD).2[12]? = some (.raised .value) ∧ (nvObjD.run nvOpsD).2[13]? = some (.raised .index) := by
  decide +kernel

/-- the final graph, evaluated: arc `(0,0)` is still the depot self-loop with time 0 and cost 0 -/
example :
    (nvObjD.run nvOpsD).1.inst.g.arc? 0 0 = some ⟨"d", "d", 0, 0⟩ ∧
    (nvObjD.run nvOpsD).1.inst.g.hasArc 0 0 = true ∧ arcTime (nvObjD.run nvOpsD).1.inst.g 0 0 = 0 ∧
    arcCost (nvObjD.run nvOpsD).1.inst.g 0 0 = 0 ∧ (nvObjD.run nvOpsD).1.inst.g.names = ["d", "a", "b", "c"] := by
  decide +kernel

/-- `seqRun_selfloop_new` instantiated on it: every hypothesis holds (the side condition is decided call by call) -/
example :
    C15.Inv (nvObjD.run nvOpsD).1.inst.g ∧ SelfLoop (nvObjD.run nvOpsD).1.inst.g ∧
      (nvObjD.run nvOpsD).1.inst.g.hasArc 0 0 = true ∧ arcTime (nvObjD.run nvOpsD).1.inst.g 0 0 = 0 ∧
      arcCost (nvObjD.run nvOpsD).1.inst.g 0 0 = 0 :=
  seqRun_selfloop_new nvSrcD true nvSrcD_inv (by decide) nvOpsD (by decide +kernel)

/-- … and `seqRun_selfloop` itself, from the hypotheses given by `seqObj_new_hyps` -/
example : SelfLoop (nvObjD.run nvOpsD).1.inst.g :=
  (seqRun_selfloop nvOpsD nvObjD (seqObj_new_hyps nvSrcD true nvSrcD_inv (by decide)).1
    (seqObj_new_hyps nvSrcD true nvSrcD_inv (by decide)).2 (by decide +kernel)).2.1

/-- the state-independent side condition on the same history -/
example : SelfLoop (nvObjD.run nvOpsD).1.inst.g :=
  (seqRun_selfloop_of_no_selfarc_calls nvOpsD nvObjD (seqObj_new_hyps nvSrcD true nvSrcD_inv (by decide)).1
    (seqObj_new_hyps nvSrcD true nvSrcD_inv (by decide)).2 (by
      intro a d t c hm
      simp only [nvOpsD, List.mem_cons, SeqFOp.addArc.injEq, reduceCtorEq, List.not_mem_nil, or_false,
        false_or] at hm
      rcases hm with ⟨rfl, rfl, _, _⟩ | ⟨rfl, rfl, _, _⟩ <;> decide)).2.1

/-- the exclusion is needed: `add_arc(depot, depot, 5, 7)` after the raising heuristic run does overwrite the loop
    (`OverwritesLoopF` holds for that call), and a later `set_depot` re-installs it -/
example :
    OverwritesLoopF (nvObjD.run (nvOpsD.take 4)).1.inst.g (.addArc "d" "d" 5 7) ∧
    (nvObjD.run (nvOpsD.take 4 ++ [.addArc "d" "d" 5 7])).1.inst.g.arc? 0 0 = some ⟨"d", "d", 5, 7⟩ ∧
    (nvObjD.run (nvOpsD.take 4 ++ [.addArc "d" "d" 5 7, .setDepot "a"])).1.inst.g.arc? 0 0
      = some ⟨"a", "a", 0, 0⟩ := by
  decide +kernel

/-- an object assembled through `add_node` / `add_arc` alone (empty source: the constructor has no node to make the
    depot) has no self-loop; the first successful `set_depot` installs it (`seqObj_after_setDepot`), and the history
    that follows — a raising heuristic run included — keeps it (`seqRun_selfloop`) -/
def nvObjE : SeqObj := SeqObj.init (SeqInst.new {} true)

def nvPreE : List SeqFOp :=
  [.addNode "d" 0 0 (some 5), .addNode "a" 0 0 (some 3), .addNode "b" 0 0 (some 9), .addArc "d" "a" 1 1,
   .addArc "d" "b" 1 1, .setMaxVehicles 1, .setMaxSeqLen 4]

def nvPostE : List SeqFOp := [.heur 100, .setVehicleCap 2, .constraints, .addArc "a" "b" 1 1]

theorem nvObjE_inv : C15.Inv (nvObjE.run nvPreE).1.inst.g := by
  have h : ∀ (ops : List SeqFOp) (o : SeqObj), C15.Inv o.inst.g → C15.Inv (o.run ops).1.inst.g := by
    intro ops
    induction ops with
    | nil => exact fun _ h => h
    | cons op ops ih => exact fun o h => by rw [C14c.seq_run_cons]; exact ih _ (seqStep_inv o op h)
  exact h nvPreE nvObjE C15.inv_init

example :
    (nvObjE.run nvPreE).1.inst.g.hasArc 0 0 = false ∧
    ((nvObjE.run nvPreE).1.step (.setDepot "d")).2 = .done ∧
    (((nvObjE.run nvPreE).1.step (.setDepot "d")).1.run nvPostE).2[0]? = some (.raised .value) ∧
    (((nvObjE.run nvPreE).1.step (.setDepot "d")).1.run nvPostE).1.inst.g.arc? 0 0 = some ⟨"d", "d", 0, 0⟩ := by
  decide +kernel

example : SelfLoop (((nvObjE.run nvPreE).1.step (.setDepot "d")).1.run nvPostE).1.inst.g :=
  have h := seqObj_after_setDepot_done (nvObjE.run nvPreE).1 "d" nvObjE_inv (by decide +kernel)
  (seqRun_selfloop nvPostE _ h.1 h.2 (by decide +kernel)).2.1

end Vrp.C07
