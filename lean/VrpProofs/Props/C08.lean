import VrpProofs.Props.C04

namespace Vrp.C08
open Vrp

/-- an embedding of feasible sets that preserves cost transfers lower bounds on the optimum:
    if every feasible point of problem 1 has a feasible point of problem 2 of equal or lower cost,
    then any lower bound of problem 2's costs is a lower bound of problem 1's -/
theorem min_le_of_embedding {α β : Type} (feas₁ : α → Prop) (cost₁ : α → ℚ) (feas₂ : β → Prop) (cost₂ : β → ℚ)
    (emb : ∀ a, feas₁ a → ∃ b, feas₂ b ∧ cost₂ b ≤ cost₁ a) (lb : ℚ) (hlb : ∀ b, feas₂ b → lb ≤ cost₂ b) :
    ∀ a, feas₁ a → lb ≤ cost₁ a := by
  intro a ha
  obtain ⟨b, hb, hc⟩ := emb a ha
  exact le_trans (hlb b hb) hc

end Vrp.C08
