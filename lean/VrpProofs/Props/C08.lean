import VrpProofs.Props.C04
import VrpProofs.Props.C05b
import VrpProofs.Props.C06
import VrpProofs.Props.C07b
import VrpProofs.Lemmas.Compose
import VrpProofs.Lemmas.PathHeur

/-!
# C08 — The three formulations agree on the optimum of the same VRPTW (compositions)

The reference problem: partition the customers into VRPTW routes (`C06.ValidRoute`), minimise the summed
arc cost.  The theorems connect each formulation's feasible set (as characterised in C05–C07) with reference
partitions, cost-preservingly; equality / ordering of optima and of default-penalty QUBO minima (C04) follow
by `min_le_of_embedding`.  The end-to-end equalities are additionally decided on every run by exhaustive
optimisation of the four real models.
-/
namespace Vrp.C08
open Vrp Vrp.Compose

/-- an embedding of feasible sets that does not increase cost transfers lower bounds on the optimum -/
theorem min_le_of_embedding {α β : Type} (feas₁ : α → Prop) (cost₁ : α → ℚ) (feas₂ : β → Prop) (cost₂ : β → ℚ)
    (emb : ∀ a, feas₁ a → ∃ b, feas₂ b ∧ cost₂ b ≤ cost₁ a) (lb : ℚ) (hlb : ∀ b, feas₂ b → lb ≤ cost₂ b) :
    ∀ a, feas₁ a → lb ≤ cost₁ a := by
  intro a ha
  obtain ⟨b, hb, hc⟩ := emb a ha
  exact le_trans (hlb b hb) hc

/-- reference solution: a list of valid routes in which every customer occurs in exactly one route -/
def IsPartition (g : Graph) (cap init : ℚ) (rs : List (List ℕ)) : Prop :=
  (∀ r ∈ rs, C06.ValidRoute g cap init r) ∧ rs.Nodup ∧
  ∀ k, 1 ≤ k → k < g.nodes.length → (rs.filter fun r => k ∈ r).length = 1

/-- cost of a valid route = its summed arc cost (the route clock starts when the depot opens, as in
    `C06.ValidRoute`) -/
def routeCost (g : Graph) (cap init : ℚ) (r : List ℕ) : ℚ :=
  (C06.follow g cap 0 r.tail (g.lo 0) init 0).getD 0

def partitionCost (g : Graph) (cap init : ℚ) (rs : List (List ℕ)) : ℚ := (rs.map (routeCost g cap init)).sum

/-- the pool is consistent with the current graph: every stored route is valid and stored with its cost -/
def PoolValid (P : PathInst) (cap init : ℚ) : Prop :=
  ∀ k (hk : k < P.routes.length), C06.ValidRoute P.g cap init P.routes[k] ∧
    P.costs.getD k 0 = routeCost P.g cap init P.routes[k]

/-- routes selected by `x` -/
def selRoutes (P : PathInst) (x : Vec) : List (List ℕ) :=
  (List.range P.routes.length).filterMap fun k => if x k = 1 then P.routes[k]? else none

/-! ## statements -/

/-! ### helper lemmas for the path-based theorems -/

theorem selRoutes_eq (P : PathInst) (x : Vec) : selRoutes P x = selFrom 0 P.routes x :=
  filterMap_range_eq_selFrom P.routes x

theorem selRoutes_nodup (P : PathInst) (hp : C06.PoolInv P) (x : Vec) : (selRoutes P x).Nodup := by
  rw [selRoutes_eq]; exact hp.nodup.sublist (selFrom_sublist 0 P.routes x)

theorem selRoutes_subset (P : PathInst) (x : Vec) {r : List ℕ} (h : r ∈ selRoutes P x) : r ∈ P.routes := by
  rw [selRoutes_eq] at h; exact (selFrom_sublist 0 P.routes x).subset h

theorem mem_selRoutes (P : PathInst) (x : Vec) (r : List ℕ) :
    r ∈ selRoutes P x ↔ ∃ k, x k = 1 ∧ P.routes[k]? = some r := by
  rw [selRoutes_eq]; exact mem_selFrom_zero P.routes x r

theorem poolValid_mem (P : PathInst) (cap init : ℚ) (hv : PoolValid P cap init) {r : List ℕ}
    (h : r ∈ P.routes) : C06.ValidRoute P.g cap init r := by
  obtain ⟨k, hk, rfl⟩ := List.getElem_of_mem h
  exact (hv k hk).1

/-- row `k − 1` of `A x` counts the selected routes that visit customer `k` -/
theorem path_rowVal (P : PathInst) (hp : C06.PoolInv P) (x : Vec) (hx : IsBin P.data.n x) (r : ℕ)
    (hr : r < P.g.nodes.length - 1) :
    P.data.rowVal x r = ((((selRoutes P x).filter fun rt => (r + 1) ∈ rt).length : ℕ) : ℚ) := by
  have hn : P.data.n = P.routes.length := hp.lenC
  unfold MPData.rowVal
  rw [sumTo_eq, hn, selRoutes_eq]
  refine sum_range_ite_mul_eq_count P.routes x (fun k hk => hx k (by rw [hn]; exact hk))
    (fun rt => (r + 1) ∈ rt) (fun j => P.data.Amat r j) ?_
  intro k hk
  have hA := (C06.path_cover_matrix P hp k (r + 1) hk (by omega) (by omega)).1
  simpa only [Nat.add_sub_cancel] using hA

theorem path_bvec (P : PathInst) (r : ℕ) (hr : r < P.g.nodes.length - 1) : P.data.bvec r = 1 := by
  simp [MPData.bvec, PathInst.data, vecOf, hr]

theorem path_quadR (P : PathInst) (x : Vec) : quad P.data.n P.data.Rmat x = 0 := by
  have hR : P.data.Rmat = fun _ _ => 0 := by
    funext i j
    simp [MPData.Rmat, PathInst.data]
  rw [hR]
  simp [quad, sumTo_zero]

/-- **path-based: feasible vectors = partitions into pool routes, cost-preservingly** -/
theorem path_feasible_iff_partition (P : PathInst) (cap init : ℚ) (hp : C06.PoolInv P) (hv : PoolValid P cap init)
    (x : Vec) (hx : IsBin P.data.n x) :
    (P.data.feasibleB x = true ↔ IsPartition P.g cap init (selRoutes P x)) ∧
    P.data.objective x = partitionCost P.g cap init (selRoutes P x) := by
  have hn : P.data.n = P.routes.length := hp.lenC
  constructor
  · unfold MPData.feasibleB IsPartition
    rw [Bool.and_eq_true, List.all_eq_true, decide_eq_true_eq]
    have hm : P.data.m = P.g.nodes.length - 1 := rfl
    constructor
    · rintro ⟨hrows, _⟩
      refine ⟨fun r hr => poolValid_mem P cap init hv (selRoutes_subset P x hr), selRoutes_nodup P hp x, ?_⟩
      intro k hk1 hk
      have hr : k - 1 < P.g.nodes.length - 1 := by omega
      have h := hrows (k - 1) (List.mem_range.2 (by rw [hm]; exact hr))
      rw [decide_eq_true_eq, path_rowVal P hp x hx _ hr, path_bvec P _ hr] at h
      have hk' : k - 1 + 1 = k := by omega
      rw [hk'] at h
      exact_mod_cast h
    · rintro ⟨_, _, hcnt⟩
      refine ⟨?_, path_quadR P x⟩
      intro r hr
      have hr' : r < P.g.nodes.length - 1 := by rw [← hm]; exact List.mem_range.1 hr
      rw [decide_eq_true_eq, path_rowVal P hp x hx _ hr', path_bvec P _ hr']
      have := hcnt (r + 1) (by omega) (by omega)
      exact_mod_cast this
  · have hq : quad P.data.n P.data.Qmat x = 0 := by
      have : P.data.Qmat = fun _ _ => 0 := by
        funext i j; simp [MPData.Qmat, PathInst.data, cooEntry_nil]
      rw [this]; simp [quad, sumTo_zero]
    unfold MPData.objective partitionCost
    rw [hq, add_zero, dot_eq, hn, selRoutes_eq]
    refine sum_range_mul_eq_sel P.routes x (fun k hk => hx k (by rw [hn]; exact hk))
      (routeCost P.g cap init) P.data.cvec ?_
    intro k hk
    exact (hv k hk).2

theorem isPartition_perm {g : Graph} {cap init : ℚ} {rs rs' : List (List ℕ)} (h : rs.Perm rs')
    (hp : IsPartition g cap init rs) : IsPartition g cap init rs' := by
  obtain ⟨h1, h2, h3⟩ := hp
  refine ⟨fun r hr => h1 r (h.mem_iff.2 hr), (h.nodup_iff).1 h2, fun k hk1 hk => ?_⟩
  rw [← h3 k hk1 hk]
  exact ((h.filter _).length_eq).symm

theorem partitionCost_perm {g : Graph} {cap init : ℚ} {rs rs' : List (List ℕ)} (h : rs.Perm rs') :
    partitionCost g cap init rs = partitionCost g cap init rs' := by
  unfold partitionCost
  exact (h.map _).sum_eq

/-- … hence with ALL valid routes in the pool, path-based solutions and reference partitions have the same
    achievable costs (so equal feasibility and equal optimum) -/
theorem path_all_routes_eq_reference (P : PathInst) (cap init : ℚ) (hp : C06.PoolInv P) (hv : PoolValid P cap init)
    (hall : ∀ r, C06.ValidRoute P.g cap init r → r ∈ P.routes) (c : ℚ) :
    (∃ x, IsBin P.data.n x ∧ P.data.feasibleB x = true ∧ P.data.objective x = c)
      ↔ (∃ rs, IsPartition P.g cap init rs ∧ partitionCost P.g cap init rs = c) := by
  constructor
  · rintro ⟨x, hx, hf, hc⟩
    obtain ⟨h1, h2⟩ := path_feasible_iff_partition P cap init hp hv x hx
    exact ⟨selRoutes P x, h1.1 hf, by rw [← h2, hc]⟩
  · rintro ⟨rs, hrs, hc⟩
    have hn : P.data.n = P.routes.length := hp.lenC
    have hxv : ∀ b (hb : b < P.routes.length),
        vecOf (solOf P rs) b = if P.routes[b] ∈ rs then 1 else 0 :=
      fun b hb => vecOf_solOf P rs b hb hp.lenC
    have hx : IsBin P.data.n (vecOf (solOf P rs)) := by
      intro i hi
      rw [hn] at hi
      rw [hxv i hi]
      split_ifs <;> simp
    have hperm : (selRoutes P (vecOf (solOf P rs))).Perm rs := by
      rw [List.perm_ext_iff_of_nodup (selRoutes_nodup P hp _) hrs.2.1]
      intro r
      rw [mem_selRoutes]
      constructor
      · rintro ⟨k, hk1, hk2⟩
        obtain ⟨hk, rfl⟩ := List.getElem?_eq_some_iff.1 hk2
        rw [hxv k hk] at hk1
        by_contra hn
        rw [if_neg hn] at hk1
        exact absurd hk1 (by norm_num)
      · intro hr
        obtain ⟨k, hk, rfl⟩ := List.getElem_of_mem (hall r (hrs.1 r hr))
        exact ⟨k, by rw [hxv k hk, if_pos hr], List.getElem?_eq_getElem hk⟩
    obtain ⟨h1, h2⟩ := path_feasible_iff_partition P cap init hp hv _ hx
    refine ⟨_, hx, h1.2 (isPartition_perm hperm.symm hrs), ?_⟩
    rw [h2, partitionCost_perm hperm, hc]

/-- stops and service times of a reference route under "arrive early and wait": `T₀ = t` (the start time; for
    a reference route this is the opening of the depot's window, `g.lo 0`),
    `T_{k+1} = max (T_k + travel) (window start)` -/
def serviceTimes (g : Graph) : ℕ → ℚ → List ℕ → List ℚ
  | _, t, [] => [t]
  | cur, t, j :: rest =>
    t :: serviceTimes g j (maxR (t + ((g.arc? cur j).map (·.time)).getD 0) (g.lo j)) rest

/-- the moves `(n_k, T_k, n_{k+1}, T_{k+1})` of a route with given service times -/
def movesOfRoute : List ℕ → List ℚ → List ATup
  | a :: b :: rest, s :: t :: ts => (a, s, b, t) :: movesOfRoute (b :: rest) (t :: ts)
  | _, _ => []

/-! ### helper lemmas for the arc-based theorems -/

/-- the moves of a walk from `cur` at time `t` (closed form of `movesOfRoute … (serviceTimes …)`) -/
def movesFrom (g : Graph) : ℕ → ℚ → List ℕ → List ATup
  | _, _, [] => []
  | cur, t, j :: rest =>
    (cur, t, j, maxR (t + C07.arcTime g cur j) (g.lo j)) ::
      movesFrom g j (maxR (t + C07.arcTime g cur j) (g.lo j)) rest

theorem serviceTimes_head (g : Graph) (cur : ℕ) (t : ℚ) (rest : List ℕ) :
    ∃ X, serviceTimes g cur t rest = t :: X := by
  cases rest with
  | nil => exact ⟨[], rfl⟩
  | cons j rest => exact ⟨_, rfl⟩

theorem serviceTimes_cons (g : Graph) (cur : ℕ) (t : ℚ) (j : ℕ) (rest : List ℕ) :
    serviceTimes g cur t (j :: rest) =
      t :: serviceTimes g j (maxR (t + C07.arcTime g cur j) (g.lo j)) rest := rfl

theorem movesOfRoute_eq (g : Graph) (rest : List ℕ) : ∀ cur t,
    movesOfRoute (cur :: rest) (serviceTimes g cur t rest) = movesFrom g cur t rest := by
  induction rest with
  | nil => intro cur t; rfl
  | cons j rest ih =>
    intro cur t
    rw [serviceTimes_cons, movesFrom, ← ih]
    obtain ⟨X, hX⟩ := serviceTimes_head g j (maxR (t + C07.arcTime g cur j) (g.lo j)) rest
    rw [hX]
    rfl

/-- a walk that `follow` accepts, started inside the origin's window, with all service times on the grid:
    every move is admissible and the summed arc cost is what `follow` accumulates -/
theorem follow_moves (I : ArcInst) (cap : ℚ) (rest : List ℕ) : ∀ cur t load cost c,
    C06.follow I.g cap cur rest t load cost = some c →
    I.g.lo cur ≤ t → leE t (I.g.hi cur) = true →
    (∀ s ∈ serviceTimes I.g cur t rest, s ∈ I.T) →
    (∀ u ∈ movesFrom I.g cur t rest, I.admissible u = true) ∧
    ((movesFrom I.g cur t rest).map fun u => C05.arcCost I.g u.1 u.2.2.1).sum = c - cost := by
  induction rest with
  | nil =>
    intro cur t load cost c h _ _ _
    rw [C06.follow] at h
    cases h
    simp [movesFrom]
  | cons j rest ih =>
    intro cur t load cost c h hlo hhi hgrid
    rw [C06.follow] at h
    cases harc : I.g.arc? cur j with
    | none => simp only [harc] at h; cases h
    | some a =>
      simp only [harc] at h
      split_ifs at h with hA hB
      have hat : C07.arcTime I.g cur j = a.time := C07.arcTime_of I.g cur j a harc
      have hhi' : leE (maxR (t + a.time) (I.g.lo j)) (I.g.hi j) = true := by
        simpa [ltE] using hA
      rw [serviceTimes_cons, hat] at hgrid
      have ht : t ∈ I.T := hgrid t List.mem_cons_self
      have ht' : maxR (t + a.time) (I.g.lo j) ∈ I.T := by
        obtain ⟨X, hX⟩ := serviceTimes_head I.g j (maxR (t + a.time) (I.g.lo j)) rest
        exact hgrid _ (by rw [hX]; simp)
      obtain ⟨ih1, ih2⟩ := ih j _ _ _ c h (le_maxR_right _ _) hhi'
        (fun s hs => hgrid s (List.mem_cons_of_mem _ hs))
      rw [movesFrom, hat]
      constructor
      · intro u hu
        rcases List.mem_cons.1 hu with rfl | hu
        · unfold ArcInst.admissible
          simp only [harc, Bool.and_eq_true, decide_eq_true_eq]
          exact ⟨⟨⟨⟨⟨⟨by simpa using ht, by simpa using ht'⟩, hlo⟩, hhi⟩, le_maxR_right _ _⟩, hhi'⟩,
            le_maxR_left _ _⟩
        · exact ih1 u hu
      · rw [List.map_cons, List.sum_cons, ih2]
        simp only [C05.arcCost, harc, Option.map_some, Option.getD_some]
        ring

theorem movesFrom_chain (g : Graph) (rest : List ℕ) : ∀ cur t, (∀ j ∈ rest.dropLast, j ≠ 0) →
    C05.IsChain (movesFrom g cur t rest) := by
  induction rest with
  | nil => intro _ _ _; trivial
  | cons j rest ih =>
    intro cur t hnz
    cases rest with
    | nil => simp [movesFrom, C05.IsChain]
    | cons k rest' =>
      have hih := ih j (maxR (t + C07.arcTime g cur j) (g.lo j))
        (fun i hi => hnz i (by rw [List.dropLast_cons_cons]; exact List.mem_cons_of_mem _ hi))
      rw [movesFrom]
      rw [movesFrom] at hih ⊢
      refine ⟨⟨rfl, rfl⟩, hnz j (by simp), hih⟩

theorem movesFrom_getLast? (g : Graph) (rest : List ℕ) : ∀ cur t,
    (movesFrom g cur t rest).getLast?.map (·.2.2.1) = rest.getLast? := by
  induction rest with
  | nil => intro _ _; rfl
  | cons j rest ih =>
    intro cur t
    cases rest with
    | nil => simp [movesFrom]
    | cons k rest' =>
      have hih := ih j (maxR (t + C07.arcTime g cur j) (g.lo j))
      rw [movesFrom]
      rw [movesFrom] at hih ⊢
      rw [List.getLast?_cons_cons, List.getLast?_cons_cons]
      exact hih

/-- **arc-based, complete grid ⇒ every reference route is representable**: if the grid contains every service
    time of a (capacity-free) valid route, its moves are admissible and form a depot-to-depot route of the
    arc-based model with the same cost.
    (The reference clock starts when the depot's window opens, so the first move leaves the depot at `lo 0`,
    inside the depot's window; the former hypotheses `lo 0 ≤ 0` and `0 ≤ hi 0` are no longer needed.) -/
theorem arc_route_representable (I : ArcInst) (hw : C05.WF I) (cap init : ℚ) (r : List ℕ)
    (hr : C06.ValidRoute I.g cap init r)
    (hgrid : ∀ t ∈ serviceTimes I.g 0 (I.g.lo 0) r.tail, t ∈ I.T) :
    C05.IsDepotRoute (movesOfRoute r (serviceTimes I.g 0 (I.g.lo 0) r.tail)) ∧
    (∀ u ∈ movesOfRoute r (serviceTimes I.g 0 (I.g.lo 0) r.tail), I.admissible u = true) ∧
    ((movesOfRoute r (serviceTimes I.g 0 (I.g.lo 0) r.tail)).map fun u => C05.arcCost I.g u.1 u.2.2.1).sum
      = routeCost I.g cap init r := by
  obtain ⟨hlen, hhead, hlast, hnd, hfol⟩ := hr
  match r, hlen, hhead with
  | a :: j :: rest, _, hhead =>
    simp only [List.head?_cons, Option.some.injEq] at hhead
    subst hhead
    simp only [List.tail_cons] at hgrid hfol ⊢
    rw [movesOfRoute_eq]
    obtain ⟨c, hc⟩ := Option.isSome_iff_exists.1 hfol
    have hdep0 : leE (I.g.lo 0) (I.g.hi 0) = true :=
      C07.node_window_ok I.g hw.graph 0 ((C06.follow_bound I.g hw.graph cap _ _ _ _ _ _ hc).2 (by simp))
    obtain ⟨h1, h2⟩ := follow_moves I cap (j :: rest) 0 (I.g.lo 0) init 0 c hc le_rfl hdep0 hgrid
    have hnz : ∀ i ∈ (j :: rest).dropLast, i ≠ 0 := by
      intro i hi h0
      rw [List.dropLast_cons_cons, List.nodup_cons] at hnd
      exact hnd.1 (h0 ▸ hi)
    refine ⟨?_, h1, ?_⟩
    · have hne : movesFrom I.g 0 (I.g.lo 0) (j :: rest) ≠ [] := by rw [movesFrom]; simp
      refine ⟨hne, movesFrom_chain I.g _ 0 (I.g.lo 0) hnz, ?_, ?_⟩
      · simp [movesFrom]
      · have hl := movesFrom_getLast? I.g (j :: rest) 0 (I.g.lo 0)
        rw [List.getLast?_cons_cons] at hlast
        rw [hlast, List.getLast?_eq_some_getLast hne] at hl
        simpa using hl
    · rw [h2]
      simp [routeCost, hc]

/-- generalised form of `arc_route_time_feasible`: start anywhere, not later than the first departure -/
theorem chain_time_feasible (I : ArcInst) (r : List ATup) : ∀ (cur : ℕ) (t : ℚ), C05.IsChain r →
    (∀ u ∈ r, I.admissible u = true) → (∀ h : r ≠ [], (r.head h).1 = cur ∧ t ≤ (r.head h).2.1) →
    ∀ k (hk : k < r.length),
      ((serviceTimes I.g cur t (r.map fun u => u.2.2.1)).getD (k + 1) 0) ≤ (r[k]).2.2.2 := by
  induction r with
  | nil => intro _ _ _ _ _ k hk; simp at hk
  | cons u rest ih =>
    intro cur t hch hadm hhead k hk
    obtain ⟨hcur, ht⟩ := hhead (by simp)
    simp only [List.head_cons] at hcur ht
    have hu := hadm u List.mem_cons_self
    -- the earliest arrival at the destination of `u` is dominated by its grid arrival time
    have hstep : maxR (t + C07.arcTime I.g cur u.2.2.1) (I.g.lo u.2.2.1) ≤ u.2.2.2 := by
      unfold ArcInst.admissible at hu
      cases harc : I.g.arc? u.1 u.2.2.1 with
      | none => simp [harc] at hu
      | some a =>
        simp only [harc, Bool.and_eq_true, decide_eq_true_eq] at hu
        have hat : C07.arcTime I.g cur u.2.2.1 = a.time := by
          rw [← hcur]; exact C07.arcTime_of I.g _ _ a harc
        rw [hat]
        refine maxR_le ?_ hu.1.1.2
        have := hu.2
        linarith
    rw [List.map_cons, serviceTimes_cons]
    cases k with
    | zero =>
      obtain ⟨X, hX⟩ := serviceTimes_head I.g u.2.2.1
        (maxR (t + C07.arcTime I.g cur u.2.2.1) (I.g.lo u.2.2.1)) (rest.map fun u => u.2.2.1)
      rw [hX]
      simpa using hstep
    | succ k =>
      have hk' : k < rest.length := by simpa using hk
      rw [List.getD_cons_succ, List.getElem_cons_succ]
      refine ih u.2.2.1 _ ?_ (fun v hv => hadm v (List.mem_cons_of_mem _ hv)) ?_ k hk'
      · cases rest with
        | nil => trivial
        | cons b rest' => exact hch.2.2
      · intro hne
        cases rest with
        | nil => exact absurd rfl hne
        | cons b rest' =>
          obtain ⟨hl1, hl2⟩ := hch.1
          simp only [List.head_cons]
          exact ⟨hl1, by rw [hl2]; exact hstep⟩

/-- **arc-based ⇒ reference (time feasibility)**: the node sequence of a depot-to-depot route of admissible
    moves is time-feasible for the VRPTW with waiting (clock started when the depot opens; the first move is
    admissible, so it does not leave before that): the earliest-arrival times are dominated by the grid times of
    the moves, so no window is missed.
    (The former hypothesis `hstart : 0 ≤ first departure` is gone: it compared with the old clock start 0.) -/
theorem arc_route_time_feasible (I : ArcInst) (hw : C05.WF I) (r : List ATup) (hr : C05.IsDepotRoute r)
    (hadm : ∀ u ∈ r, I.admissible u = true) :
    ∀ k (hk : k < r.length),
      ((serviceTimes I.g 0 (I.g.lo 0) (r.map fun u => u.2.2.1)).getD (k + 1) 0) ≤ (r[k]).2.2.2 := by
  have _ := hw
  obtain ⟨hne, hch, hh, _⟩ := hr
  have hstart : I.g.lo 0 ≤ (r.head hne).2.1 := by
    have hu := hadm _ (List.head_mem hne)
    unfold ArcInst.admissible at hu
    cases harc : I.g.arc? (r.head hne).1 (r.head hne).2.2.1 with
    | none => simp [harc] at hu
    | some a =>
      simp only [harc, Bool.and_eq_true, decide_eq_true_eq] at hu
      have := hu.1.1.1.1.2
      rwa [hh] at this
  exact chain_time_feasible I r 0 (I.g.lo 0) hch hadm (fun _ => ⟨hh, hstart⟩)

/-- (supplement) … so no window is missed: the earliest-arrival time at the destination of every move is not
    later than that node's window end -/
theorem arc_route_no_window_missed (I : ArcInst) (hw : C05.WF I) (r : List ATup) (hr : C05.IsDepotRoute r)
    (hadm : ∀ u ∈ r, I.admissible u = true) :
    ∀ k (hk : k < r.length),
      leE ((serviceTimes I.g 0 (I.g.lo 0) (r.map fun u => u.2.2.1)).getD (k + 1) 0) (I.g.hi (r[k]).2.2.1)
        = true := by
  intro k hk
  have hle := arc_route_time_feasible I hw r hr hadm k hk
  have hu := hadm _ (List.getElem_mem hk)
  unfold ArcInst.admissible at hu
  cases harc : I.g.arc? (r[k]).1 (r[k]).2.2.1 with
  | none => simp [harc] at hu
  | some a =>
    simp only [harc, Bool.and_eq_true, decide_eq_true_eq] at hu
    have h1 := hu.1.2
    cases hhi : I.g.hi (r[k]).2.2.1 with
    | none => rfl
    | some b =>
      rw [hhi] at h1
      simp only [leE, decide_eq_true_eq] at h1 ⊢
      exact le_trans hle h1

/-! ### helper lemmas for the sequence-based theorem -/

/-- what the walk construction needs from one (padded) route -/
structure GoodRoute (g : Graph) (L : ℕ) (r : List ℕ) : Prop where
  len2 : 2 ≤ r.length
  lenL : r.length ≤ L
  head : r.getD 0 0 = 0
  last : r.getD (r.length - 1) 0 = 0
  nodup : r.dropLast.Nodup
  arcs : ∀ p, p + 1 < r.length → g.hasArc (r.getD p 0) (r.getD (p + 1) 0) = true
  bound : ∀ i ∈ r, i < g.nodes.length

theorem getD_of_le (r : List ℕ) (p : ℕ) (h : r.length ≤ p) : r.getD p 0 = 0 := by
  rw [List.getD_eq_getElem?_getD, List.getElem?_eq_none h]; rfl

theorem getD_of_lt (r : List ℕ) (p : ℕ) (h : p < r.length) : r.getD p 0 = r[p] := by
  rw [List.getD_eq_getElem?_getD, List.getElem?_eq_getElem h]; rfl

/-- from the last stop on, the padded route is at the depot -/
theorem GoodRoute.tail_zero {g : Graph} {L : ℕ} {r : List ℕ} (h : GoodRoute g L r) (p : ℕ)
    (hp : r.length ≤ p + 1) : r.getD p 0 = 0 := by
  by_cases hlt : p < r.length
  · have : p = r.length - 1 := by omega
    rw [this]; exact h.last
  · exact getD_of_le r p (by omega)

/-- a customer occupies at most one position of a route -/
theorem GoodRoute.pos_unique {g : Graph} {L : ℕ} {r : List ℕ} (h : GoodRoute g L r) (k : ℕ) (hk : k ≠ 0)
    (p q : ℕ) (hp : r.getD p 0 = k) (hq : r.getD q 0 = k) : p = q := by
  have key : ∀ p, r.getD p 0 = k → ∃ hp' : p < r.dropLast.length, r.dropLast[p] = k := by
    intro p hp
    have h1 : p + 1 < r.length := by
      by_contra hn
      exact hk (by rw [← hp]; exact h.tail_zero p (by omega))
    have h2 : p < r.dropLast.length := by rw [List.length_dropLast]; omega
    refine ⟨h2, ?_⟩
    rw [List.getElem_dropLast, ← getD_of_lt r p (by omega)]
    exact hp
  obtain ⟨hp1, hp2⟩ := key p hp
  obtain ⟨hq1, hq2⟩ := key q hq
  exact (h.nodup.getElem_inj_iff).1 (hp2.trans hq2.symm)

/-- the stops of an accepted walk are joined by stored arcs -/
theorem follow_arcs (g : Graph) (cap : ℚ) (rest : List ℕ) : ∀ cur t load cost c,
    C06.follow g cap cur rest t load cost = some c →
    ∀ p, p < rest.length → g.hasArc ((cur :: rest).getD p 0) ((cur :: rest).getD (p + 1) 0) = true := by
  induction rest with
  | nil => intro _ _ _ _ _ _ p hp; simp at hp
  | cons j rest ih =>
    intro cur t load cost c h p hp
    rw [C06.follow] at h
    cases harc : g.arc? cur j with
    | none => simp only [harc] at h; cases h
    | some a =>
      simp only [harc] at h
      split_ifs at h with hA hB
      cases p with
      | zero =>
        simp only [List.getD_cons_zero, List.getD_cons_succ]
        unfold Graph.hasArc
        rw [dictHas_iff_dictGet_isSome]
        unfold Graph.arc? at harc
        rw [harc]; rfl
      | succ p =>
        rw [List.getD_cons_succ, List.getD_cons_succ]
        exact ih j _ _ _ c h p (by simpa using hp)

/-- … and the summed arc cost along the stops is what `follow` accumulates -/
theorem follow_cost (g : Graph) (cap : ℚ) (rest : List ℕ) : ∀ cur t load cost c,
    C06.follow g cap cur rest t load cost = some c →
    ∑ p ∈ Finset.range rest.length,
      C07.arcCost g ((cur :: rest).getD p 0) ((cur :: rest).getD (p + 1) 0) = c - cost := by
  induction rest with
  | nil =>
    intro cur t load cost c h
    rw [C06.follow] at h
    cases h
    simp
  | cons j rest ih =>
    intro cur t load cost c h
    rw [C06.follow] at h
    cases harc : g.arc? cur j with
    | none => simp only [harc] at h; cases h
    | some a =>
      simp only [harc] at h
      split_ifs at h with hA hB
      rw [List.length_cons, Finset.sum_range_succ']
      have ih' := ih j _ _ _ c h
      simp only [List.getD_cons_succ, List.getD_cons_zero] at ih' ⊢
      rw [ih']
      simp only [C07.arcCost, harc, Option.map_some, Option.getD_some]
      ring

theorem goodRoute_of_valid (g : Graph) (hg : C15.Inv g) (cap init : ℚ) (L : ℕ) (r : List ℕ)
    (hr : C06.ValidRoute g cap init r) (hL : r.length ≤ L) :
    GoodRoute g L r ∧
    ∑ p ∈ Finset.range (r.length - 1), C07.arcCost g (r.getD p 0) (r.getD (p + 1) 0) = routeCost g cap init r := by
  obtain ⟨hlen, hhead, hlast, hnd, hfol⟩ := hr
  obtain ⟨c, hc⟩ := Option.isSome_iff_exists.1 hfol
  match r, hlen, hhead with
  | a :: j :: rest, _, hhead =>
    simp only [List.head?_cons, Option.some.injEq] at hhead
    subst hhead
    simp only [List.tail_cons] at hc
    obtain ⟨b1, b2⟩ := C06.follow_bound g hg cap _ _ _ _ _ _ hc
    refine ⟨⟨by simp, hL, rfl, ?_, hnd, ?_, ?_⟩, ?_⟩
    · rw [List.getLast?_eq_getElem?] at hlast
      rw [List.getD_eq_getElem?_getD, hlast]; rfl
    · intro p hp
      exact follow_arcs g cap _ _ _ _ _ _ hc p (by simpa using hp)
    · intro i hi
      rcases List.mem_cons.1 hi with rfl | hi
      · exact b2 (by simp)
      · exact b1 i hi
    · have := follow_cost g cap _ _ _ _ _ _ hc
      simp only [List.length_cons, Nat.add_sub_cancel] at this ⊢
      rw [this]
      simp [routeCost, hc]

theorem goodRoute_depot (g : Graph) (L : ℕ) (hL : 2 ≤ L) (h00 : g.hasArc 0 0 = true)
    (h0 : 0 < g.nodes.length) : GoodRoute g L [0, 0] := by
  refine ⟨by simp, by simpa using hL, rfl, rfl, by simp, ?_, by simpa using h0⟩
  intro p hp
  have : p = 0 := by simp at hp; omega
  subst this
  exact h00

/-- the padding contributes nothing to the cost -/
theorem GoodRoute.cost_pad {g : Graph} {L : ℕ} {r : List ℕ} (h : GoodRoute g L r)
    (hc00 : C07.arcCost g 0 0 = 0) :
    ∑ p ∈ Finset.range (L - 1), C07.arcCost g (r.getD p 0) (r.getD (p + 1) 0)
      = ∑ p ∈ Finset.range (r.length - 1), C07.arcCost g (r.getD p 0) (r.getD (p + 1) 0) := by
  symm
  refine Finset.sum_subset ?_ ?_
  · intro p hp
    rw [Finset.mem_range] at hp ⊢
    have := h.lenL
    omega
  · intro p _ hp
    rw [Finset.mem_range] at hp
    rw [h.tail_zero p (by omega), h.tail_zero (p + 1) (by omega), hc00]

theorem sum_range_getD (m : List ℚ) : ∀ V, m.length ≤ V → ∑ v ∈ Finset.range V, m.getD v 0 = m.sum := by
  induction m with
  | nil => intro V _; simp
  | cons a m ih =>
    intro V hV
    obtain ⟨V', rfl⟩ : ∃ V', V = V' + 1 := ⟨V - 1, by simp at hV; omega⟩
    rw [Finset.sum_range_succ']
    simp only [List.getD_cons_succ, List.getD_cons_zero, List.sum_cons]
    rw [ih V' (by simpa using hV), add_comm]

/-- **sequence-based, non-strict ≤ reference**: a reference partition with at most `V` routes of at most `L − 2`
    customers each is a walk assignment of equal cost (surcharges 0, depot self-arc of cost 0) -/
theorem seq_nonstrict_le_reference (I : SeqInst) (cap init : ℚ) (hL : 3 ≤ I.L) (hg : C15.Inv I.g)
    (h00 : I.g.hasArc 0 0 = true) (hc00 : C07.arcCost I.g 0 0 = 0) (hvc : ∀ v, I.vc v = 0)
    (rs : List (List ℕ)) (hp : IsPartition I.g cap init rs) (hV : rs.length ≤ I.V)
    (hlen : ∀ r ∈ rs, r.length ≤ I.L) :
    ∃ w, C07.Walk I w ∧
      (sumTo I.V fun v => sumTo (I.L - 1) fun p => C07.arcCost I.g (w v p) (w v (p + 1)) + I.vc v)
        = partitionCost I.g cap init rs := by
  obtain ⟨hvalid, hnd, hcnt⟩ := hp
  -- the depot exists
  have h0 : 0 < I.g.nodes.length := by
    obtain ⟨e, he, hek⟩ := dictHas_iff.mp h00
    obtain ⟨ni, _, h1, _⟩ := hg.filed e he
    rw [hek] at h1
    by_contra hx
    rw [List.getElem?_eq_none (by omega)] at h1; cases h1
  -- every padded route is good
  have hgood : ∀ v, GoodRoute I.g I.L (rs.getD v [0, 0]) := by
    intro v
    by_cases hv : v < rs.length
    · rw [List.getD_eq_getElem?_getD, List.getElem?_eq_getElem hv]
      exact (goodRoute_of_valid I.g hg cap init I.L _ (hvalid _ (List.getElem_mem hv))
        (hlen _ (List.getElem_mem hv))).1
    · rw [List.getD_eq_getElem?_getD, List.getElem?_eq_none (by omega)]
      exact goodRoute_depot I.g I.L (by omega) h00 h0
  refine ⟨fun v p => (rs.getD v [0, 0]).getD p 0, ⟨?_, ?_, ?_, ?_, ?_, ?_⟩, ?_⟩
  · -- lt
    intro v _ p _
    by_cases hpl : p < (rs.getD v [0, 0]).length
    · rw [getD_of_lt _ p hpl]
      exact (hgood v).bound _ (List.getElem_mem hpl)
    · rw [getD_of_le _ p (by omega)]; exact h0
  · intro v _; exact (hgood v).head
  · intro v _
    exact (hgood v).tail_zero (I.L - 1) (by have := (hgood v).lenL; omega)
  · -- arcs
    intro v _ p _
    by_cases hpl : p + 1 < (rs.getD v [0, 0]).length
    · exact (hgood v).arcs p hpl
    · rw [(hgood v).tail_zero p (by omega), (hgood v).tail_zero (p + 1) (by omega)]
      exact h00
  · -- absorb
    intro v _ p hp1 _ hz
    by_cases hpl : p + 1 < (rs.getD v [0, 0]).length
    · exfalso
      have hgv := hgood v
      have h2 : p < (rs.getD v [0, 0]).dropLast.length := by rw [List.length_dropLast]; omega
      have h3 : 0 < (rs.getD v [0, 0]).dropLast.length := by omega
      have e1 : (rs.getD v [0, 0]).dropLast[p] = 0 := by
        rw [List.getElem_dropLast, ← getD_of_lt _ p (by omega)]; exact hz
      have e2 : (rs.getD v [0, 0]).dropLast[0] = 0 := by
        rw [List.getElem_dropLast, ← getD_of_lt _ 0 (by omega)]; exact hgv.head
      have := (hgv.nodup.getElem_inj_iff).1 (e1.trans e2.symm)
      omega
    · exact (hgood v).tail_zero (p + 1) (by omega)
  · -- once
    intro k hk1 hk
    obtain ⟨r0, hr0, hkr0, huniq⟩ := C05.filter_length_one_unique rs (fun r => k ∈ r) (hcnt k hk1 hk)
    simp only [decide_eq_true_eq] at hkr0 huniq
    obtain ⟨v0, hv0, rfl⟩ := List.getElem_of_mem hr0
    obtain ⟨p0, hp0, hkp0⟩ := List.getElem_of_mem hkr0
    have hR0 : rs.getD v0 [0, 0] = rs[v0] := by
      rw [List.getD_eq_getElem?_getD, List.getElem?_eq_getElem hv0]; rfl
    rw [Finset.card_eq_one]
    refine ⟨(p0, v0), ?_⟩
    ext ⟨p, v⟩
    simp only [Finset.mem_filter, Finset.mem_product, Finset.mem_range, Finset.mem_singleton, Prod.mk.injEq]
    constructor
    · rintro ⟨_, hw⟩
      have hvl : v < rs.length := by
        by_contra hn
        have hR : rs.getD v [0, 0] = [0, 0] := by
          rw [List.getD_eq_getElem?_getD, List.getElem?_eq_none (by omega)]; rfl
        have hz : ([0, 0] : List ℕ).getD p 0 = 0 := by
          match p with
          | 0 => rfl
          | 1 => rfl
          | p + 2 => rfl
        rw [hR, hz] at hw
        omega
      have hR : rs.getD v [0, 0] = rs[v] := by
        rw [List.getD_eq_getElem?_getD, List.getElem?_eq_getElem hvl]; rfl
      have hpl : p < rs[v].length := by
        by_contra hn
        rw [hR, getD_of_le _ p (by omega)] at hw
        omega
      have hmem : k ∈ rs[v] := by
        rw [hR, getD_of_lt _ p hpl] at hw
        rw [← hw]; exact List.getElem_mem hpl
      have hveq : v = v0 := (hnd.getElem_inj_iff).1 (huniq _ (List.getElem_mem hvl) hmem)
      subst hveq
      refine ⟨?_, rfl⟩
      have hg0 := hgood v
      rw [hR0] at hg0
      refine hg0.pos_unique k (by omega) p p0 (by rw [← hR0]; exact hw) ?_
      rw [getD_of_lt _ p0 hp0]; exact hkp0
    · rintro ⟨rfl, rfl⟩
      have hg0 := hgood v
      rw [hR0] at hg0
      refine ⟨⟨lt_of_lt_of_le hp0 hg0.lenL, lt_of_lt_of_le hv0 hV⟩, ?_⟩
      rw [hR0, getD_of_lt _ p hp0]; exact hkp0
  · -- cost
    simp only [sumTo_eq, hvc, add_zero]
    unfold partitionCost
    rw [← sum_range_getD _ I.V (by simpa using hV)]
    refine Finset.sum_congr rfl fun v _ => ?_
    rw [(hgood v).cost_pad hc00]
    by_cases hv : v < rs.length
    · have hR : rs.getD v [0, 0] = rs[v] := by
        rw [List.getD_eq_getElem?_getD, List.getElem?_eq_getElem hv]; rfl
      rw [hR, (goodRoute_of_valid I.g hg cap init I.L _ (hvalid _ (List.getElem_mem hv))
        (hlen _ (List.getElem_mem hv))).2]
      simp [List.getD_eq_getElem?_getD, hv]
    · have hR : rs.getD v [0, 0] = [0, 0] := by
        rw [List.getD_eq_getElem?_getD, List.getElem?_eq_none (by omega)]; rfl
      rw [hR]
      simp [List.getD_eq_getElem?_getD, hv, hc00]

/-! ## non-vacuity -/

/-! ### path-based: the pool `C04.nv_P` (three routes accepted by `add_route` on the reachable graph, capacity 3) -/

theorem nv_step (P : PathInst) (h : C15.Inv P.g ∧ C06.PoolInv P) (r : List Stop) :
    C15.Inv (P.addRoute r).1.g ∧ C06.PoolInv (P.addRoute r).1 :=
  ⟨by rw [(C06.addRoute_inv P h.1 h.2 r).2.1]; exact h.1, (C06.addRoute_inv P h.1 h.2 r).1⟩

theorem nv_P_inv : C15.Inv C04.nv_P.g ∧ C06.PoolInv C04.nv_P :=
  nv_step _ (nv_step _ (nv_step _ (nv_step _ ⟨C15.nv_inv_of_invB _ (by decide +kernel), C06.poolInv_init _⟩ _) _) _) _

theorem nv_P_valid : PoolValid C04.nv_P 3 3 := by unfold PoolValid C06.ValidRoute; decide +kernel

/-- all hypotheses of `path_feasible_iff_partition` hold for `x = [0, 1, 1]`; conclusions on the instance -/
theorem nv_P_part : IsPartition C04.nv_P.g 3 3 (selRoutes C04.nv_P (vecOf [0, 1, 1])) :=
  (path_feasible_iff_partition C04.nv_P 3 3 nv_P_inv.2 nv_P_valid _ C04.nv_path_bin).1.1 (by decide +kernel)

example : selRoutes C04.nv_P (vecOf [0, 1, 1]) = [[0, 1, 0], [0, 2, 0]] ∧
    partitionCost C04.nv_P.g 3 3 [[0, 1, 0], [0, 2, 0]] = 7 ∧ C04.nv_P.data.objective (vecOf [0, 1, 1]) = 7 := by
  decide +kernel

/-- the valid routes of a three-node graph without the arcs `(0,0)` and `(2,1)`, for any capacity data -/
theorem nv_valid_enum (g : Graph) (hg : C15.Inv g) (h3 : g.nodes.length = 3) (h00 : g.arc? 0 0 = none)
    (h21 : g.arc? 2 1 = none) (cap init : ℚ) (r : List ℕ) (hr : C06.ValidRoute g cap init r) :
    r = [0, 1, 0] ∨ r = [0, 2, 0] ∨ r = [0, 1, 2, 0] := by
  obtain ⟨c, hc⟩ := Option.isSome_iff_exists.1 hr.2.2.2.2
  have hb := (C06.follow_bound g hg cap r.tail 0 (g.lo 0) init 0 c hc).1
  rw [h3] at hb
  obtain ⟨hlen, hhead, hlast, hnd, hfol⟩ := hr
  match r, hlen, hhead, hlast, hnd, hfol, hb with
  | [a, b], _, hhead, hlast, _, hfol, _ =>
    obtain rfl : a = 0 := by simpa using hhead
    obtain rfl : b = 0 := by simpa using hlast
    rw [List.tail_cons, C06.follow, h00] at hfol
    simp at hfol
  | [a, b, c], _, hhead, hlast, hnd, _, hb =>
    obtain rfl : a = 0 := by simpa using hhead
    obtain rfl : c = 0 := by simpa using hlast
    have : b < 3 := hb b (by simp)
    have : b ≠ 0 := by intro h; subst h; simp at hnd
    have : b = 1 ∨ b = 2 := by omega
    rcases this with rfl | rfl <;> simp
  | [a, b, c, d], _, hhead, hlast, hnd, hfol, hb =>
    obtain rfl : a = 0 := by simpa using hhead
    obtain rfl : d = 0 := by simpa using hlast
    have h1 : b < 3 := hb b (by simp)
    have h2 : c < 3 := hb c (by simp)
    simp [List.dropLast] at hnd
    have : (b = 1 ∧ c = 2) ∨ (b = 2 ∧ c = 1) := by omega
    rcases this with ⟨rfl, rfl⟩ | ⟨rfl, rfl⟩
    · simp
    · rw [List.tail_cons, C06.follow_cons] at hfol
      cases hca : checkArc g cap (g.lo 0) init 0 2 with
      | none => simp [hca] at hfol
      | some p => simp only [hca] at hfol; rw [C06.follow, h21] at hfol; simp at hfol
  | a :: b :: c :: d :: e :: rest, _, hhead, _, hnd, _, hb =>
    obtain rfl : a = 0 := by simpa using hhead
    have h1 : b < 3 := hb b (by simp)
    have h2 : c < 3 := hb c (by simp)
    have h3 : d < 3 := hb d (by simp)
    simp [List.dropLast] at hnd
    omega

/-- the hypothesis `hall` of `path_all_routes_eq_reference`: the pool holds ALL valid routes of its graph
    (for arbitrary graphs: `exhaustiveOffers_complete` in C08c) -/
theorem nv_P_all : ∀ r, C06.ValidRoute C04.nv_P.g 3 3 r → r ∈ C04.nv_P.routes := by
  intro r hr
  rcases nv_valid_enum _ nv_P_inv.1 (by decide +kernel) (by decide +kernel) (by decide +kernel) 3 3 r hr
    with rfl | rfl | rfl <;> decide +kernel

/-- hence `path_all_routes_eq_reference` applies: the cost 7 of the two-route partition is attained by a vector -/
example : ∃ x, IsBin C04.nv_P.data.n x ∧ C04.nv_P.data.feasibleB x = true ∧ C04.nv_P.data.objective x = 7 :=
  (path_all_routes_eq_reference C04.nv_P 3 3 nv_P_inv.2 nv_P_valid nv_P_all 7).2 ⟨_, nv_P_part, by decide +kernel⟩

/-! ### arc-based: `C05.nv_I` (same graph, grid `[0, 2, 6, 8]` = the service times of `d-a-b-d`) -/

theorem nv_valid : C06.ValidRoute C05.nv_I.g 3 3 [0, 1, 2, 0] := by unfold C06.ValidRoute; decide +kernel

/-- the depot of `C05.nv_I` opens at 0, so the reference clock starts at 0 on this instance -/
theorem nv_lo0 : C05.nv_I.g.lo 0 = 0 := by decide +kernel

/-- all hypotheses of `arc_route_representable` hold; its conclusion, and the moves by evaluation -/
theorem nv_repr :
    C05.IsDepotRoute (movesOfRoute [0, 1, 2, 0] (serviceTimes C05.nv_I.g 0 0 [1, 2, 0])) ∧
    (∀ u ∈ movesOfRoute [0, 1, 2, 0] (serviceTimes C05.nv_I.g 0 0 [1, 2, 0]), C05.nv_I.admissible u = true) ∧
    ((movesOfRoute [0, 1, 2, 0] (serviceTimes C05.nv_I.g 0 0 [1, 2, 0])).map fun u =>
      C05.arcCost C05.nv_I.g u.1 u.2.2.1).sum = routeCost C05.nv_I.g 3 3 [0, 1, 2, 0] := by
  have h := arc_route_representable C05.nv_I C05.nv_wf 3 3 [0, 1, 2, 0] nv_valid (by decide +kernel)
  rwa [nv_lo0] at h

example : serviceTimes C05.nv_I.g 0 0 [1, 2, 0] = [0, 2, 6, 8] ∧
    movesOfRoute [0, 1, 2, 0] (serviceTimes C05.nv_I.g 0 0 [1, 2, 0]) = [(0, 0, 1, 2), (1, 2, 2, 6), (2, 6, 0, 8)] ∧
    routeCost C05.nv_I.g 3 3 [0, 1, 2, 0] = 4 := by decide +kernel

/-- all hypotheses of `arc_route_time_feasible` / `arc_route_no_window_missed` hold for that depot route
    (`k = 1`: earliest arrival at `b` is 6, inside `[6, 9]`) -/
example : leE ((serviceTimes C05.nv_I.g 0 0
      ((movesOfRoute [0, 1, 2, 0] (serviceTimes C05.nv_I.g 0 0 [1, 2, 0])).map fun u => u.2.2.1)).getD 2 0)
    (C05.nv_I.g.hi 2) = true := by
  have h := arc_route_no_window_missed C05.nv_I C05.nv_wf _ nv_repr.1 nv_repr.2.1 1 (by decide +kernel)
  rwa [nv_lo0] at h

/-! ### sequence-based: `C07.nv_S` (constructor on the same graph, two vehicles, four positions) -/

theorem nv_seq_part : IsPartition C07.nv_S.g 3 3 [[0, 1, 0], [0, 2, 0]] := by
  refine ⟨by unfold C06.ValidRoute; decide +kernel, by decide, fun k h1 h2 => ?_⟩
  have h3 : C07.nv_S.g.nodes.length = 3 := by decide +kernel
  have : k = 1 ∨ k = 2 := by omega
  rcases this with rfl | rfl <;> decide +kernel

/-- all hypotheses of `seq_nonstrict_le_reference` hold for the two-route partition (cost 7) -/
example : ∃ w, C07.Walk C07.nv_S w ∧
    (sumTo C07.nv_S.V fun v => sumTo (C07.nv_S.L - 1) fun p =>
      C07.arcCost C07.nv_S.g (w v p) (w v (p + 1)) + C07.nv_S.vc v) = 7 := by
  have h := seq_nonstrict_le_reference C07.nv_S 3 3 (by decide) C07.nv_S_inv (by decide +kernel) (by decide +kernel)
    (fun v => by match v with | 0 => rfl | 1 => rfl | _ + 2 => rfl)
    [[0, 1, 0], [0, 2, 0]] nv_seq_part (by decide) (by decide)
  rwa [show partitionCost C07.nv_S.g 3 3 [[0, 1, 0], [0, 2, 0]] = 7 by decide +kernel] at h

end Vrp.C08
