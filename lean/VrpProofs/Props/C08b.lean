import VrpProofs.Props.C08
import VrpProofs.Props.C05c
import VrpProofs.Lemmas.Compose2

/-!
# C08 (continued) — end-to-end correspondences with the reference route-partition problem
-/
namespace Vrp.C08
open Vrp

/-- capacity is not binding: no node has a demand and the initial load is within the capacity -/
structure CapFree (g : Graph) (cap init : ℚ) : Prop where
  dem : ∀ i, g.demand i = 0
  init0 : 0 ≤ init
  initc : init ≤ cap

/-- the grid is complete for the instance: it contains every service time of every valid route (the route clock
    starts when the depot's window opens) -/
def CompleteGrid (I : ArcInst) (cap init : ℚ) : Prop :=
  ∀ r, C06.ValidRoute I.g cap init r → ∀ t ∈ serviceTimes I.g 0 (I.g.lo 0) r.tail, t ∈ I.T

/-! ## the two directions of the arc-based correspondence -/

/-- **reference ⇒ arc-based** (complete grid): the moves of the routes of a reference partition are selected by a
    feasible binary vector of equal cost -/
theorem reference_to_arc (I : ArcInst) (hw : C05.WF I) (cap init : ℚ)
    (hnoself : I.g.hasArc 0 0 = false) (hgrid : CompleteGrid I cap init)
    (rs : List (List ℕ)) (hp : IsPartition I.g cap init rs) :
    ∃ x, IsBin I.data.n x ∧ I.data.feasibleB x = true ∧
      I.data.objective x = partitionCost I.g cap init rs := by
  obtain ⟨hvalid, hnd, hcnt⟩ := hp
  let mv : List ℕ → List ATup := fun r => movesOfRoute r (serviceTimes I.g 0 (I.g.lo 0) r.tail)
  have hrep : ∀ r ∈ rs, C05.IsDepotRoute (mv r) ∧ (∀ u ∈ mv r, I.admissible u = true) ∧
      ((mv r).map fun u => C05.arcCost I.g u.1 u.2.2.1).sum = routeCost I.g cap init r :=
    fun r hr => arc_route_representable I hw cap init r (hvalid r hr) (hgrid r (hvalid r hr))
  have hfacts : ∀ r ∈ rs, (mv r).Nodup ∧ (∀ u ∈ mv r, u.1 ∈ r ∧ u.2.2.1 ∈ r) ∧
      (∀ c, c ≠ 0 → ((mv r).filter fun u => u.2.2.1 = c).length = if decide (c ∈ r) = true then 1 else 0) :=
    fun r hr => Compose2.route_moves_facts I.g cap init r (hvalid r hr)
  -- two different routes of the partition share no move
  have hdisj : ∀ r ∈ rs, ∀ r' ∈ rs, r ≠ r' → List.Disjoint (mv r) (mv r') := by
    intro r hr r' hr' hne u hu hu'
    have hadm := (hrep r hr).2.1 u hu
    obtain ⟨b1, b2, _⟩ := C05.admissible_facts I hw u hadm
    obtain ⟨m1, m2⟩ := (hfacts r hr).2.1 u hu
    obtain ⟨m1', m2'⟩ := (hfacts r' hr').2.1 u hu'
    have key : ∀ k, k ≠ 0 → k < I.g.nodes.length → k ∈ r → k ∈ r' → False := by
      intro k hk0 hk hkr hkr'
      obtain ⟨r0, _, _, huniq⟩ := C05.filter_length_one_unique rs _
        (hcnt k (Nat.one_le_iff_ne_zero.2 hk0) hk)
      exact hne ((huniq r hr (by simpa using hkr)).trans (huniq r' hr' (by simpa using hkr')).symm)
    rcases Compose2.admissible_customer I hnoself u hadm with h | h
    · exact key _ h b1 m1 m1'
    · exact key _ h b2 m2 m2'
  have hflat : ((rs.map mv).flatten).Nodup := by
    rw [List.nodup_flatten]
    constructor
    · intro l hl
      obtain ⟨r, hr, rfl⟩ := List.mem_map.1 hl
      exact (hfacts r hr).1
    · rw [List.pairwise_map]
      exact List.Pairwise.imp_of_mem (fun {r r'} hr hr' hne => hdisj r hr r' hr' hne) hnd
  have honce : ∀ c, 1 ≤ c → c < I.g.nodes.length →
      ((rs.map mv).flatten.filter fun u => u.2.2.1 = c).length = 1 := by
    intro c hc1 hc
    rw [Compose2.flatten_map_filter_length rs mv _ (fun r => decide (c ∈ r))
      (fun r hr => (hfacts r hr).2.2 c (by omega))]
    exact hcnt c hc1 hc
  obtain ⟨hbin, hfeas, hperm⟩ := C05.arc_complete I hw (rs.map mv)
    (fun l hl => by
      obtain ⟨r, hr, rfl⟩ := List.mem_map.1 hl
      exact ⟨(hrep r hr).1, (hrep r hr).2.1⟩) hflat honce
  refine ⟨_, hbin, hfeas, ?_⟩
  rw [C05.arc_objective_eq_cost I hw _ hbin, (hperm.map _).sum_eq, Compose2.sum_flatten_map]
  unfold partitionCost
  congr 1
  exact List.map_congr_left (fun r hr => (hrep r hr).2.2)

/-- **arc-based ⇒ reference**: the routes decoded from a feasible binary vector are a reference partition of
    equal cost (no grid hypothesis needed; no admissible move leaves the depot before the depot opens, which is
    when the reference clock starts, so no hypothesis on the depot's window is needed either) -/
theorem arc_to_reference (I : ArcInst) (hw : C05.WF I) (hpos : C05.PosTimes I.g) (cap init : ℚ)
    (hcf : CapFree I.g cap init) (hnoself : I.g.hasArc 0 0 = false)
    (x : Vec) (hx : IsBin I.data.n x) (hf : I.data.feasibleB x = true) :
    ∃ rs, IsPartition I.g cap init rs ∧ partitionCost I.g cap init rs = I.data.objective x := by
  have hl : C05.Local I x := (C05.arc_feasible_iff_local I hw x hx).1 hf
  obtain ⟨routes, hr, hperm, _⟩ := C05.arc_decode_returns_routes I hw hpos x hx hf
  have hflat : routes.flatten.Nodup := hperm.nodup_iff.2 (C05.sel_nodup I hw x)
  obtain ⟨hndr, hdisj⟩ := List.nodup_flatten.1 hflat
  let nodes : List ATup → List ℕ := fun r => 0 :: r.map fun u => u.2.2.1
  have hval : ∀ r ∈ routes, C06.ValidRoute I.g cap init (nodes r) ∧
      routeCost I.g cap init (nodes r) = (r.map fun u => C05.arcCost I.g u.1 u.2.2.1).sum :=
    fun r hr' => Compose2.arc_route_valid I hw cap init hcf.dem hcf.init0 hcf.initc (C05.sel I x)
      (C05.sel_admissible I hw x) hl.1 r (hr r hr').1 (hr r hr').2 (hndr r hr')
  refine ⟨routes.map nodes, ⟨?_, ?_, ?_⟩, ?_⟩
  · intro r hr'
    obtain ⟨r0, h0, rfl⟩ := List.mem_map.1 hr'
    exact (hval r0 h0).1
  · -- two decoded routes with the same stops share their first move
    rw [List.Nodup, List.pairwise_map]
    refine List.Pairwise.imp_of_mem ?_ hdisj
    intro a b ha hb hab heq
    obtain ⟨hnea, _, hha, _⟩ := (hr a ha).1
    obtain ⟨hneb, _, hhb, _⟩ := (hr b hb).1
    cases a with
    | nil => exact absurd rfl hnea
    | cons u a' =>
      cases b with
      | nil => exact absurd rfl hneb
      | cons v b' =>
        simp only [nodes, List.map_cons, List.cons.injEq, true_and] at heq
        have huv : u.2.2.1 = v.2.2.1 := heq.1
        have hua := (hr _ ha).2 u List.mem_cons_self
        have hvb := (hr _ hb).2 v List.mem_cons_self
        have hadm := C05.sel_admissible I hw x u hua
        simp only [List.head_cons] at hha
        have hun : u.2.2.1 ≠ 0 :=
          (Compose2.admissible_customer I hnoself u hadm).resolve_left (not_not.2 hha)
        obtain ⟨_, hb2, _⟩ := C05.admissible_facts I hw u hadm
        obtain ⟨m, _, _, huniq⟩ := C05.filter_length_one_unique (C05.sel I x) _
          (hl.1 u.2.2.1 (Nat.one_le_iff_ne_zero.2 hun) hb2)
        have : u = v := (huniq u hua (by simp)).trans (huniq v hvb (by simp [huv])).symm
        exact hab List.mem_cons_self (this ▸ List.mem_cons_self)
  · intro k hk1 hk
    rw [List.filter_map, List.length_map]
    have h1 := Compose2.filter_any_length_one routes (fun u => decide (u.2.2.1 = k))
      (by rw [(hperm.filter _).length_eq]; exact hl.1 k hk1 hk)
    rw [← h1]
    congr 1
    apply List.filter_congr
    intro r _
    have hk0 : ¬ k = 0 := by omega
    simp only [nodes, Function.comp, List.mem_cons, List.mem_map, hk0, false_or]
    rw [Bool.eq_iff_iff]
    simp
  · unfold partitionCost
    rw [C05.arc_objective_eq_cost I hw x hx, ← (hperm.map _).sum_eq]
    have h2 := Compose2.sum_flatten_map routes id (fun u : ATup => C05.arcCost I.g u.1 u.2.2.1)
    rw [List.map_id] at h2
    rw [h2, List.map_map]
    congr 1
    exact List.map_congr_left (fun r hr' => (hval r hr').2)

/-! ## statements -/

/-- **arc-based on a complete grid = reference VRPTW without capacity**: the achievable costs of the
    arc-based model are exactly the costs of reference partitions (hence equal feasibility and equal optimum).

    No hypothesis on the depot's window is needed: the reference clock of a route starts when the depot opens
    (`g.lo 0`), and a move of the arc-based model leaves the depot at a grid time inside the depot's window, i.e.
    not before that.  (While the reference clock was pinned to the literal time 0 the statement needed
    `lo 0 ≤ 0`, `0 ≤ lo 0` and `0 ≤ hi 0`, and was false without `0 ≤ lo 0`; the former counterexample
    `ArcCounter` is kept below as an instance on which the equality now holds.) -/
theorem arc_complete_grid_eq_reference (I : ArcInst) (hw : C05.WF I) (hpos : C05.PosTimes I.g) (cap init : ℚ)
    (hcf : CapFree I.g cap init)
    (hnoself : I.g.hasArc 0 0 = false) (hgrid : CompleteGrid I cap init) (c : ℚ) :
    (∃ x, IsBin I.data.n x ∧ I.data.feasibleB x = true ∧ I.data.objective x = c)
      ↔ (∃ rs, IsPartition I.g cap init rs ∧ partitionCost I.g cap init rs = c) := by
  constructor
  · rintro ⟨x, hx, hf, hc⟩
    obtain ⟨rs, hrs, hcost⟩ := arc_to_reference I hw hpos cap init hcf hnoself x hx hf
    exact ⟨rs, hrs, hcost.trans hc⟩
  · rintro ⟨rs, hrs, hc⟩
    obtain ⟨x, hx, hf, hcost⟩ := reference_to_arc I hw cap init hnoself hgrid rs hrs
    exact ⟨x, hx, hf, hcost.trans hc⟩

/-! ### a depot that opens before time 0: the former counterexample is now a positive instance -/

namespace ArcCounter

/-- depot window `[-5, 10]`, one customer with window `[-4, -2]`, travel time 2 out and 1 back -/
def g : Graph :=
  { nodes := [⟨"d", 0, -5, some 10⟩, ⟨"a", 0, -4, some (-2)⟩],
    arcs := [((0, 1), ⟨"d", "a", 2, 1⟩), ((1, 0), ⟨"a", "d", 1, 1⟩)] }

def I : ArcInst := { g := g, T := [-5, -3, -2] }

/-- selects the moves `(0, -5, 1, -3)` and `(1, -3, 0, -2)` -/
def x : Vec := vecOf [1, 0, 1]

theorem hn : I.data.n = 3 := by decide +kernel
theorem hfeas : I.data.feasibleB x = true := by decide +kernel
theorem hobj : I.data.objective x = 2 := by decide +kernel

theorem hbin : IsBin I.data.n x := by
  rw [hn]
  intro i hi
  have : i = 0 ∨ i = 1 ∨ i = 2 := by omega
  rcases this with rfl | rfl | rfl <;> decide +kernel

theorem inv : C15.Inv g where
  nodup := by decide +kernel
  nodesOk := by decide +kernel
  keysNodup := by decide +kernel
  filed := by
    intro e he
    have : e = ((0, 1), ⟨"d", "a", 2, 1⟩) ∨ e = ((1, 0), ⟨"a", "d", 1, 1⟩) := by
      simpa [g] using he
    rcases this with rfl | rfl
    · exact ⟨⟨"d", 0, -5, some 10⟩, ⟨"a", 0, -4, some (-2)⟩, by decide +kernel, by decide +kernel, rfl, rfl,
        by decide +kernel⟩
    · exact ⟨⟨"a", 0, -4, some (-2)⟩, ⟨"d", 0, -5, some 10⟩, by decide +kernel, by decide +kernel, rfl, rfl,
        by decide +kernel⟩

theorem wf : C05.WF I := ⟨by decide +kernel, by decide +kernel, inv⟩

theorem pos : C05.PosTimes I.g := by
  intro e he
  have : e = ((0, 1), ⟨"d", "a", 2, 1⟩) ∨ e = ((1, 0), ⟨"a", "d", 1, 1⟩) := by
    simpa [I, g] using he
  rcases this with rfl | rfl
  · intro h; exact absurd rfl h
  · intro _ h; exact absurd rfl h

theorem capFree : CapFree I.g 0 0 := by
  refine ⟨?_, le_rfl, le_rfl⟩
  intro i
  match i with
  | 0 => decide +kernel
  | 1 => decide +kernel
  | i + 2 => simp [Graph.demand, I, g]

/-- the reference vehicle leaves when the depot opens, at time −5, reaches the customer at −3 (inside `[-4, -2]`)
    and is back at −2: the route `d-a-d` is valid (with the clock pinned to 0 it reached the customer at 2, after
    its window closed, and no route was valid) -/
theorem valid_dad : C06.ValidRoute I.g 0 0 [0, 1, 0] := by unfold C06.ValidRoute; decide +kernel

/-- … and it is the only valid route -/
theorem valid_routes (r : List ℕ) (hr : C06.ValidRoute I.g 0 0 r) : r = [0, 1, 0] := by
  obtain ⟨j, rest, rfl, hnd, hlast⟩ := Compose2.validRoute_shape hr
  obtain ⟨c, hc⟩ := Option.isSome_iff_exists.1 hr.2.2.2.2
  simp only [List.tail_cons] at hc
  have hb := (C06.follow_bound I.g inv 0 _ _ _ _ _ _ hc).1
  have harcs := follow_arcs I.g 0 _ _ _ _ _ _ hc
  have h2 : I.g.nodes.length = 2 := rfl
  rw [h2] at hb
  have key : ∀ a < 2, ∀ b < 2, I.g.hasArc a b = true → (a = 0 ∧ b = 1) ∨ (a = 1 ∧ b = 0) := by decide +kernel
  have hj : j = 1 := by
    have := key 0 (by omega) j (hb j (by simp)) (by simpa using harcs 0 (by simp))
    omega
  subst hj
  match rest, hnd, hlast, hb, harcs with
  | [], _, hlast, _, _ => simp at hlast
  | k :: rest', hnd, hlast, hb, harcs =>
    have hk : k = 0 := by
      have := key 1 (by omega) k (hb k (by simp)) (by simpa using harcs 1 (by simp))
      omega
    subst hk
    match rest', hnd, hb, harcs with
    | [], _, _, _ => rfl
    | l :: rest'', hnd, hb, harcs =>
      exfalso
      have hl : l = 1 := by
        have := key 0 (by omega) l (hb l (by simp)) (by simpa using harcs 2 (by simp))
        omega
      subst hl
      simp at hnd

/-- the grid `[-5, -3, -2]` holds the service times of the only valid route -/
theorem completeGrid : CompleteGrid I 0 0 := by
  intro r hr
  rw [valid_routes r hr]
  decide +kernel

end ArcCounter

/-- on `ArcCounter.I` (depot window opens at −5) all hypotheses of `arc_complete_grid_eq_reference` hold, the vector
    `ArcCounter.x` is feasible with cost 2 (leave the depot at −5, serve the customer at −3, be back at −2), and
    the reference problem has the partition `[d-a-d]` of cost 2.  With the reference clock pinned to the literal
    time 0 this instance refuted the statement (no reference route was valid). -/
example : ∃ rs, IsPartition ArcCounter.I.g 0 0 rs ∧ partitionCost ArcCounter.I.g 0 0 rs = 2 :=
  (arc_complete_grid_eq_reference ArcCounter.I ArcCounter.wf ArcCounter.pos 0 0 ArcCounter.capFree
    (by decide +kernel) ArcCounter.completeGrid 2).1
    ⟨ArcCounter.x, ArcCounter.hbin, ArcCounter.hfeas, ArcCounter.hobj⟩

example : partitionCost ArcCounter.I.g 0 0 [[0, 1, 0]] = 2 := by decide +kernel

/-- **strict sequence-based ≥ reference**: every walk assignment of the strict model (capacity not binding,
    surcharges 0, depot self-arc of cost 0 and time 0) is a reference partition of equal cost (both clocks,
    `C07.arrival` and that of `C06.ValidRoute`, start when the depot opens; no hypothesis on the depot's window) -/
theorem seq_strict_ge_reference (I : SeqInst) (cap init : ℚ) (hL : 3 ≤ I.L) (hg : C15.Inv I.g)
    (hstrict : C07.StrictArcs I.g) (hcf : CapFree I.g cap init)
    (h00 : C07.arcTime I.g 0 0 = 0) (hc00 : C07.arcCost I.g 0 0 = 0) (hvc : ∀ v, I.vc v = 0)
    (w : ℕ → ℕ → ℕ) (hw : C07.Walk I w) :
    ∃ rs, IsPartition I.g cap init rs ∧
      partitionCost I.g cap init rs
        = sumTo I.V fun v => sumTo (I.L - 1) fun p => C07.arcCost I.g (w v p) (w v (p + 1)) + I.vc v := by
  classical
  -- first return position `m v` of every vehicle
  have hret : ∀ v, ∃ m, v < I.V →
      (1 ≤ m ∧ m + 1 ≤ I.L ∧ w v m = 0 ∧ ∀ q, 1 ≤ q → q < m → w v q ≠ 0) := by
    intro v
    by_cases hv : v < I.V
    · have hex : ∃ m, 1 ≤ m ∧ w v m = 0 := ⟨I.L - 1, by omega, hw.stop v hv⟩
      refine ⟨Nat.find hex, fun _ => ⟨(Nat.find_spec hex).1, ?_, (Nat.find_spec hex).2, ?_⟩⟩
      · have := Nat.find_min' hex ⟨(by omega : 1 ≤ I.L - 1), hw.stop v hv⟩
        omega
      · intro q hq1 hqm hq0
        exact Nat.find_min hex hqm ⟨hq1, hq0⟩
    · exact ⟨0, fun h => absurd h hv⟩
  choose m hm using hret
  -- after the first return the vehicle stays at the depot
  have hzero : ∀ v, v < I.V → ∀ q, m v ≤ q → q < I.L → w v q = 0 := by
    intro v hv q hq
    induction q, hq using Nat.le_induction with
    | base => intro _; exact (hm v hv).2.2.1
    | succ q hq ih =>
      intro hlt
      exact hw.absorb v hv q (by have := (hm v hv).1; omega) hlt (ih (by omega))
  -- a customer occupies one position of one vehicle
  have hinj : ∀ k, 1 ≤ k → k < I.g.nodes.length → ∀ v p v' p', v < I.V → p < I.L → v' < I.V → p' < I.L →
      w v p = k → w v' p' = k → p = p' ∧ v = v' := by
    intro k hk1 hk v p v' p' hv hp hv' hp' h1 h2
    obtain ⟨a, ha⟩ := Finset.card_eq_one.1 (hw.once k hk1 hk)
    have e1 : (p, v) ∈ (Finset.range I.L ×ˢ Finset.range I.V).filter (fun pv => w pv.2 pv.1 = k) := by
      simp [hp, hv, h1]
    have e2 : (p', v') ∈ (Finset.range I.L ×ˢ Finset.range I.V).filter (fun pv => w pv.2 pv.1 = k) := by
      simp [hp', hv', h2]
    rw [ha, Finset.mem_singleton] at e1 e2
    exact Prod.mk.inj (e1.trans e2.symm)
  let route : ℕ → List ℕ := fun v => 0 :: (List.range' 1 (m v)).map (w v)
  -- `follow` along the prefix
  have hfol : ∀ v, v < I.V → C06.follow I.g cap 0 ((List.range' 1 (m v)).map (w v)) (I.g.lo 0) init 0
      = some (∑ q ∈ Finset.range (m v), C07.arcCost I.g (w v q) (w v (q + 1))) := by
    intro v hv
    have h := Compose2.follow_walk I.g cap hcf.dem (w v) I.L (hw.arcs v hv)
      (fun p hp => C07.strict_walk_time_feasible I hstrict hg h00 w hw v hv p hp)
      (m v) 0 init 0 (by have := (hm v hv).2.1; omega) hcf.init0 hcf.initc
    rw [hw.start v hv] at h
    simpa [C07.arrival] using h
  have hvalid : ∀ v, v < I.V → C06.ValidRoute I.g cap init (route v) := by
    intro v hv
    obtain ⟨hm1, hmL, hm0, hmq⟩ := hm v hv
    refine ⟨?_, rfl, ?_, ?_, ?_⟩
    · simp only [route, List.length_cons, List.length_map, List.length_range']
      omega
    · rw [Compose2.walkRoute_getLast? (w v) (m v) hm1, hm0]
    · rw [Compose2.walkRoute_dropLast (w v) (m v) hm1, List.nodup_cons]
      constructor
      · intro h0
        obtain ⟨q, hq, hq0⟩ := List.mem_map.1 h0
        rw [List.mem_range'_1] at hq
        exact hmq q hq.1 (by omega) hq0
      · refine List.Nodup.map_on ?_ (List.nodup_range' 1)
        intro q hq q' hq' heq
        rw [List.mem_range'_1] at hq hq'
        have hne := hmq q hq.1 (by omega)
        exact (hinj (w v q) (Nat.one_le_iff_ne_zero.2 hne) (hw.lt v hv q (by omega)) v q v q' hv (by omega) hv
          (by omega) rfl heq.symm).1
    · rw [List.tail_cons, hfol v hv]; rfl
  let vs := (List.range I.V).filter (fun v => decide (2 ≤ m v))
  have hvs : ∀ v, v ∈ vs ↔ v < I.V ∧ 2 ≤ m v := by
    intro v
    simp only [vs, List.mem_filter, List.mem_range, decide_eq_true_eq]
  have hvsnd : vs.Nodup := List.nodup_range.filter _
  refine ⟨vs.map route, ⟨?_, ?_, ?_⟩, ?_⟩
  · intro r hr
    obtain ⟨v, hv, rfl⟩ := List.mem_map.1 hr
    exact hvalid v ((hvs v).1 hv).1
  · -- different vehicles visit different first customers
    refine List.Nodup.map_on ?_ hvsnd
    intro v hv v' hv' heq
    obtain ⟨hvV, hv2⟩ := (hvs v).1 hv
    obtain ⟨hvV', hv2'⟩ := (hvs v').1 hv'
    have e1 := Compose2.walkRoute_getElem? (w v) (m v) 1 le_rfl (by omega)
    have e2 := Compose2.walkRoute_getElem? (w v') (m v') 1 le_rfl (by omega)
    have e3 : w v 1 = w v' 1 := by
      have : (route v)[1]? = (route v')[1]? := by rw [heq]
      rw [e1, e2] at this
      exact Option.some.inj this
    have hne := (hm v hvV).2.2.2 1 le_rfl (by omega)
    have hL1 : 1 < I.L := by omega
    exact (hinj (w v 1) (Nat.one_le_iff_ne_zero.2 hne) (hw.lt v hvV 1 hL1) v 1 v' 1 hvV hL1 hvV' hL1
      rfl e3.symm).2
  · intro k hk1 hk
    rw [List.filter_map, List.length_map]
    obtain ⟨⟨p0, v0⟩, ha⟩ := Finset.card_eq_one.1 (hw.once k hk1 hk)
    have hmem0 : (p0, v0) ∈ (Finset.range I.L ×ˢ Finset.range I.V).filter (fun pv => w pv.2 pv.1 = k) := by
      rw [ha]; exact Finset.mem_singleton_self _
    simp only [Finset.mem_filter, Finset.mem_product, Finset.mem_range] at hmem0
    obtain ⟨⟨hp0, hv0⟩, hk0⟩ := hmem0
    have hkne : k ≠ 0 := by omega
    refine Compose2.length_one_of_nodup_mem (a := v0) (hvsnd.filter _) ?_
    intro v
    simp only [List.mem_filter, Function.comp, decide_eq_true_eq]
    constructor
    · rintro ⟨hv, hkr⟩
      obtain ⟨hvV, _⟩ := (hvs v).1 hv
      obtain ⟨q, hq1, hqm, hqk⟩ := (Compose2.mem_walkRoute (w v) (m v) k hkne).1 hkr
      have := (hm v hvV).2.1
      exact (hinj k hk1 hk v q v0 p0 hvV (by omega) hv0 hp0 hqk hk0).2
    · rintro rfl
      have hp1 : 1 ≤ p0 := by
        by_contra hn
        have : p0 = 0 := by omega
        rw [this, hw.start v hv0] at hk0
        exact hkne hk0.symm
      have hpm : p0 < m v := by
        by_contra hn
        exact hkne ((hzero v hv0 p0 (by omega) hp0).symm.trans hk0).symm
      exact ⟨(hvs v).2 ⟨hv0, by omega⟩, (Compose2.mem_walkRoute (w v) (m v) k hkne).2 ⟨p0, hp1, by omega, hk0⟩⟩
  · -- cost
    unfold partitionCost
    rw [List.map_map, ← Compose2.sumTo_ite_eq_filter]
    symm
    apply Compose2.sumTo_congr
    intro v hv
    obtain ⟨hm1, hmL, hm0, hmq⟩ := hm v hv
    simp only [sumTo_eq, hvc, add_zero]
    have hpre : ∑ p ∈ Finset.range (I.L - 1), C07.arcCost I.g (w v p) (w v (p + 1))
        = ∑ p ∈ Finset.range (m v), C07.arcCost I.g (w v p) (w v (p + 1)) := by
      symm
      refine Finset.sum_subset ?_ ?_
      · intro p hp
        rw [Finset.mem_range] at hp ⊢
        omega
      · intro p hp hnp
        rw [Finset.mem_range] at hp hnp
        rw [hzero v hv p (by omega) (by omega), hzero v hv (p + 1) (by omega) (by omega), hc00]
    rw [hpre]
    by_cases h2 : 2 ≤ m v
    · simp only [h2, decide_true, if_true, Function.comp, routeCost, route, List.tail_cons]
      rw [hfol v hv]; rfl
    · have h1 : m v = 1 := by omega
      simp only [h2, decide_false, Bool.false_eq_true, if_false]
      have hw1 : w v 1 = 0 := h1 ▸ hm0
      rw [h1, Finset.sum_range_one, hw.start v hv, hw1, hc00]

/-! ## non-vacuity -/

/-- `CapFree` requires zero demands: the instances use `C15.nv_g0`, the zero-demand twin of the reachable graph
    (depot + customers `a [2,5]`, `b [6,9]`, no arc `b → a`), with capacity data `0, 0` -/
theorem nv_capFree (g : Graph) (h : g.nodes.all (fun n => n.demand = 0) = true) : CapFree g 0 0 := by
  refine ⟨fun i => ?_, le_rfl, le_rfl⟩
  unfold Graph.demand
  cases hn : g.nodes[i]? with
  | none => rfl
  | some n => simpa using (List.all_eq_true.1 h) n (List.mem_of_getElem? hn)

/-- arc-based on the grid `[0, 2, 4, 6, 8]` (all service times of the three valid routes), 15 variables -/
def nv_I0 : ArcInst := ({ g := C15.nv_g0, T := [] } : ArcInst).addTimePoints [8, 0, 4, 2, 6]

theorem nv_I0_wf : C05.WF nv_I0 := ⟨by decide +kernel, by decide +kernel, C15.nv_inv0⟩

theorem nv_I0_grid : CompleteGrid nv_I0 0 0 := by
  intro r hr
  rcases nv_valid_enum _ C15.nv_inv0 (by decide +kernel) (by decide +kernel) (by decide +kernel) 0 0 r hr
    with rfl | rfl | rfl <;> decide +kernel

/-- `d@0 → a@2 → b@6 → d@8` -/
def nv_x0 : Vec := vecOf [1, 0, 0, 0, 0, 0, 1, 0, 0, 1]

/-- all hypotheses of `arc_complete_grid_eq_reference` (hence of `reference_to_arc`, `arc_to_reference`) hold;
    left to right on `nv_x0` (cost 4), right to left on the two-route partition (cost 7) -/
theorem nv_I0_eq (c : ℚ) : (∃ x, IsBin nv_I0.data.n x ∧ nv_I0.data.feasibleB x = true ∧ nv_I0.data.objective x = c)
    ↔ (∃ rs, IsPartition nv_I0.g 0 0 rs ∧ partitionCost nv_I0.g 0 0 rs = c) :=
  arc_complete_grid_eq_reference nv_I0 nv_I0_wf (by unfold C05.PosTimes; decide +kernel) 0 0
    (nv_capFree _ (by decide +kernel)) (by decide +kernel)
    nv_I0_grid c

example : ∃ rs, IsPartition nv_I0.g 0 0 rs ∧ partitionCost nv_I0.g 0 0 rs = 4 :=
  (nv_I0_eq 4).1 ⟨nv_x0, by unfold IsBin; decide +kernel, by decide +kernel, by decide +kernel⟩

theorem nv_I0_part : IsPartition nv_I0.g 0 0 [[0, 1, 0], [0, 2, 0]] := by
  refine ⟨by unfold C06.ValidRoute; decide +kernel, by decide, fun k h1 h2 => ?_⟩
  have h3 : nv_I0.g.nodes.length = 3 := by decide +kernel
  have : k = 1 ∨ k = 2 := by omega
  rcases this with rfl | rfl <;> decide +kernel

example : ∃ x, IsBin nv_I0.data.n x ∧ nv_I0.data.feasibleB x = true ∧ nv_I0.data.objective x = 7 :=
  (nv_I0_eq 7).2 ⟨_, nv_I0_part, by decide +kernel⟩

/-- all hypotheses of `seq_strict_ge_reference` hold for the strict instance `C07.nv_St` (constructor on
    `C15.nv_g0`, two vehicles, four positions) and the walk `C07.nv_w` (`d, a, b, d` / depot only): cost 4 -/
example : ∃ rs, IsPartition C07.nv_St.g 0 0 rs ∧ partitionCost C07.nv_St.g 0 0 rs = 4 := by
  have h := seq_strict_ge_reference C07.nv_St 0 0 (by decide) C07.nv_St_strict.2 C07.nv_St_strict.1
    (nv_capFree _ (by decide +kernel)) (by decide +kernel) (by decide +kernel)
    (fun v => by match v with | 0 => rfl | 1 => rfl | _ + 2 => rfl) C07.nv_w C07.nv_walk_t
  rwa [show (sumTo C07.nv_St.V fun v => sumTo (C07.nv_St.L - 1) fun p =>
    C07.arcCost C07.nv_St.g (C07.nv_w v p) (C07.nv_w v (p + 1)) + C07.nv_St.vc v) = 4 by decide +kernel] at h

end Vrp.C08
