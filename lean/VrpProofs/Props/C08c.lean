import VrpProofs.Props.C08
import VrpProofs.Props.C06b
import Mathlib.Data.List.Perm.Subperm

/-!
# C08c — `PoolValid` is established by construction (supplement to C06 / C08)

`C08.PoolValid` ("every stored route is a valid route of the current graph and is stored with its cost") is a
hypothesis of `path_feasible_iff_partition` and `path_all_routes_eq_reference`.  Here it is derived for every
pool that is built from the empty pool by `add_route` calls on a fixed graph, and the hypothesis "all valid
routes are in the pool" is derived for an exhaustive offer, which gives end-to-end statements without any
pool hypothesis.
-/
namespace Vrp.C08
open Vrp Vrp.C06

/-- (a) the empty pool is valid and consistent -/
theorem poolValid_init (g : Graph) (cap init : ℚ) :
    PoolValid ({ g := g } : PathInst) cap init ∧ PoolInv ({ g := g } : PathInst) :=
  ⟨fun k hk => by simp at hk, poolInv_init g⟩

/-- the stored cost of a walk that `follow` accepts is `routeCost` -/
theorem ep_routeCost_of_follow (g : Graph) (cap init : ℚ) (r : List ℕ) (c : ℚ)
    (h : follow g cap 0 r.tail (g.lo 0) init 0 = some c) : routeCost g cap init r = c := by
  simp [routeCost, h]

/-- (b) `add_route` on a fixed graph keeps the pool valid — for pools whose cost list is as long as the
    route list (a clause of `PoolInv`).

    The statement WITHOUT a length hypothesis is false, see `poolValid_addRoute_needs_length` below:
    `PoolValid` reads a missing cost as 0, so a pool with a zero-cost route and an empty cost list is
    `PoolValid`, and the next accepted route's cost lands at the wrong position. -/
theorem poolValid_addRoute_corrected (P : PathInst) (hg : C15.Inv P.g) (cap init : ℚ)
    (hcap : P.g.cap = some cap) (hinit : P.g.init = some init) (hlen : P.costs.length = P.routes.length)
    (hv : PoolValid P cap init) (stops : List Stop) :
    PoolValid (P.addRoute stops).1 cap init ∧
    (P.addRoute stops).1.costs.length = (P.addRoute stops).1.routes.length := by
  rcases ep_addRoute_cases P stops with h | ⟨rc, hcr, hf, _, h⟩
  · rw [h]; exact ⟨hv, hlen⟩
  · rw [h]
    obtain ⟨cap', init', h1, h2, hvr, hfol, _, _⟩ := accepted_facts P.g hg stops rc hcr hf
    rw [hcap] at h1; rw [hinit] at h2
    cases h1; cases h2
    refine ⟨?_, by simp [hlen]⟩
    intro k hk
    have hk0 : k < P.routes.length + 1 := by simpa using hk
    show ValidRoute P.g cap init ((P.routes ++ [resolveAll P.g stops])[k]'(by simpa using hk0)) ∧
      (P.costs ++ [rc.cost]).getD k 0 =
        routeCost P.g cap init ((P.routes ++ [resolveAll P.g stops])[k]'(by simpa using hk0))
    by_cases hk' : k < P.routes.length
    · have e2 : (P.routes ++ [resolveAll P.g stops])[k]'(by simpa using hk0) = P.routes[k] :=
        List.getElem_append_left hk'
      have e1 : (P.costs ++ [rc.cost]).getD k 0 = P.costs.getD k 0 := by
        simp only [List.getD_eq_getElem?_getD]
        rw [List.getElem?_append_left (by rw [hlen]; exact hk')]
      rw [e1, e2]
      exact hv k hk'
    · have hk2 : k = P.routes.length := by omega
      subst hk2
      have e2 : (P.routes ++ [resolveAll P.g stops])[P.routes.length]'(by simp) =
          resolveAll P.g stops := by simp
      have e1 : (P.costs ++ [rc.cost]).getD P.routes.length 0 = rc.cost := by
        simp only [List.getD_eq_getElem?_getD]
        rw [List.getElem?_append_right (by rw [hlen]), hlen]
        simp
      rw [e1, e2]
      exact ⟨hvr, (ep_routeCost_of_follow P.g cap init _ _ hfol).symm⟩

/-- (b) in the form used below: a consistent (`PoolInv`) valid pool stays valid under `add_route` with any
    stops — accepted, rejected, duplicate or raising -/
theorem poolValid_addRoute (P : PathInst) (hg : C15.Inv P.g) (cap init : ℚ)
    (hcap : P.g.cap = some cap) (hinit : P.g.init = some init) (hp : PoolInv P)
    (hv : PoolValid P cap init) (stops : List Stop) : PoolValid (P.addRoute stops).1 cap init :=
  (poolValid_addRoute_corrected P hg cap init hcap hinit hp.lenC hv stops).1

/-- validity and consistency are preserved by any sequence of offers -/
theorem ep_poolValid_offerFrom (P : PathInst) (hg : C15.Inv P.g) (cap init : ℚ)
    (hcap : P.g.cap = some cap) (hinit : P.g.init = some init) (hp : PoolInv P)
    (hv : PoolValid P cap init) (rs : List (List Stop)) :
    PoolValid (offerFrom P rs) cap init ∧ PoolInv (offerFrom P rs) := by
  induction rs generalizing P with
  | nil => exact ⟨hv, hp⟩
  | cons r rs ih =>
    rw [offerFrom_cons]
    have hg' := ep_addRoute_g P r
    exact ih _ (by rw [hg']; exact hg) (by rw [hg']; exact hcap) (by rw [hg']; exact hinit)
      (addRoute_inv P hg hp r).1 (poolValid_addRoute P hg cap init hcap hinit hp hv r)

/-- (c) **every pool built from the empty pool by `add_route` calls on `g` is valid and consistent**, and its
    graph is `g` -/
theorem poolValid_offer (g : Graph) (hg : C15.Inv g) (cap init : ℚ) (hcap : g.cap = some cap)
    (hinit : g.init = some init) (rs : List (List Stop)) :
    PoolValid (rs.foldl (fun P r => (P.addRoute r).1) ({ g := g } : PathInst)) cap init ∧
    PoolInv (rs.foldl (fun P r => (P.addRoute r).1) ({ g := g } : PathInst)) ∧
    (rs.foldl (fun P r => (P.addRoute r).1) ({ g := g } : PathInst)).g = g := by
  obtain ⟨h1, h2⟩ := ep_poolValid_offerFrom { g := g } hg cap init hcap hinit (poolInv_init g)
    (poolValid_init g cap init).1 rs
  exact ⟨h1, h2, offerFrom_g { g := g } rs⟩

/-- (d) **an exhaustive offer is complete**: if every valid route is offered (by its indices), every valid
    route is in the final pool -/
theorem offer_complete (g : Graph) (cap init : ℚ) (hcap : g.cap = some cap) (hinit : g.init = some init)
    (rs : List (List Stop)) (hoffer : ∀ r, ValidRoute g cap init r → r.map Stop.idx ∈ rs) :
    ∀ r, ValidRoute (rs.foldl (fun P r => (P.addRoute r).1) ({ g := g } : PathInst)).g cap init r →
      r ∈ (rs.foldl (fun P r => (P.addRoute r).1) ({ g := g } : PathInst)).routes := by
  intro r hr
  have hG : (offerFrom { g := g } rs).g = g := offerFrom_g { g := g } rs
  have hr' : ValidRoute g cap init r := by
    have : ValidRoute (offerFrom { g := g } rs).g cap init r := hr
    rwa [hG] at this
  exact offerFrom_valid_mem { g := g } cap init hcap hinit rs r hr' (hoffer r hr')

/-- … and conversely the pool holds nothing but valid routes: the pool of an exhaustive offer is exactly the
    set of valid routes of `g` -/
theorem offer_routes_iff_valid (g : Graph) (hg : C15.Inv g) (cap init : ℚ) (hcap : g.cap = some cap)
    (hinit : g.init = some init) (rs : List (List Stop))
    (hoffer : ∀ r, ValidRoute g cap init r → r.map Stop.idx ∈ rs) (r : List ℕ) :
    r ∈ (rs.foldl (fun P r => (P.addRoute r).1) ({ g := g } : PathInst)).routes ↔ ValidRoute g cap init r := by
  obtain ⟨hv, _, hG⟩ := poolValid_offer g hg cap init hcap hinit rs
  constructor
  · intro hm
    have := poolValid_mem _ cap init hv hm
    rwa [hG] at this
  · intro hr
    exact offer_complete g cap init hcap hinit rs hoffer r (by rw [hG]; exact hr)

/-- (e) **end to end, path-based = reference**: on a consistent graph with vehicle data, the path-based instance
    built by offering a list of candidates that contains every valid route has exactly the reference
    partition costs (so: the same feasibility and the same optimum).  No pool hypothesis is left. -/
theorem path_offer_all_eq_reference (g : Graph) (hg : C15.Inv g) (cap init : ℚ) (hcap : g.cap = some cap)
    (hinit : g.init = some init) (rs : List (List Stop))
    (hoffer : ∀ r, ValidRoute g cap init r → r.map Stop.idx ∈ rs) (c : ℚ) :
    (∃ x, IsBin (rs.foldl (fun P r => (P.addRoute r).1) ({ g := g } : PathInst)).data.n x ∧
        (rs.foldl (fun P r => (P.addRoute r).1) ({ g := g } : PathInst)).data.feasibleB x = true ∧
        (rs.foldl (fun P r => (P.addRoute r).1) ({ g := g } : PathInst)).data.objective x = c)
      ↔ (∃ rs', IsPartition g cap init rs' ∧ partitionCost g cap init rs' = c) := by
  obtain ⟨hv, hp, hG⟩ := poolValid_offer g hg cap init hcap hinit rs
  have key := path_all_routes_eq_reference _ cap init hp hv
    (offer_complete g cap init hcap hinit rs hoffer) c
  rw [hG] at key
  exact key

/-- (e′) the per-vector form: for the pool of ANY offer list, feasible vectors are partitions into pool routes,
    cost-preservingly (`path_feasible_iff_partition` with its pool hypotheses discharged) -/
theorem path_offer_feasible_iff_partition (g : Graph) (hg : C15.Inv g) (cap init : ℚ) (hcap : g.cap = some cap)
    (hinit : g.init = some init) (rs : List (List Stop)) (x : Vec)
    (hx : IsBin (rs.foldl (fun P r => (P.addRoute r).1) ({ g := g } : PathInst)).data.n x) :
    ((rs.foldl (fun P r => (P.addRoute r).1) ({ g := g } : PathInst)).data.feasibleB x = true ↔
        IsPartition g cap init (selRoutes (rs.foldl (fun P r => (P.addRoute r).1) ({ g := g } : PathInst)) x)) ∧
    (rs.foldl (fun P r => (P.addRoute r).1) ({ g := g } : PathInst)).data.objective x =
      partitionCost g cap init (selRoutes (rs.foldl (fun P r => (P.addRoute r).1) ({ g := g } : PathInst)) x) := by
  obtain ⟨hv, hp, hG⟩ := poolValid_offer g hg cap init hcap hinit rs
  have key := path_feasible_iff_partition _ cap init hp hv x hx
  rw [hG] at key
  exact key

/-! ## an exhaustive offer exists (the hypothesis `hoffer` is satisfiable on every consistent graph) -/

/-- all lists of length `k` over `0 … n−1` -/
def ep_listsOfLen (n : ℕ) : ℕ → List (List ℕ)
  | 0 => [[]]
  | k + 1 => (List.range n).flatMap fun a => (ep_listsOfLen n k).map (a :: ·)

theorem ep_mem_listsOfLen (n : ℕ) (l : List ℕ) : ∀ k, l.length = k → (∀ i ∈ l, i < n) → l ∈ ep_listsOfLen n k := by
  induction l with
  | nil => intro k hk _; subst hk; simp [ep_listsOfLen]
  | cons a l ih =>
    intro k hk hb
    subst hk
    simp only [List.length_cons, ep_listsOfLen, List.mem_flatMap, List.mem_range, List.mem_map]
    exact ⟨a, hb a List.mem_cons_self, l, ih _ rfl (fun i hi => hb i (List.mem_cons_of_mem _ hi)), rfl⟩

/-- the exhaustive candidate list of a graph with `n` nodes: every index list of length ≤ `n + 1` -/
def exhaustiveOffers (n : ℕ) : List (List Stop) :=
  ((List.range (n + 2)).flatMap (ep_listsOfLen n)).map (·.map Stop.idx)

/-- a valid route has at most `n + 1` stops, all of them existing nodes -/
theorem validRoute_bounds (g : Graph) (hg : C15.Inv g) (cap init : ℚ) (r : List ℕ)
    (hr : ValidRoute g cap init r) : (∀ i ∈ r, i < g.nodes.length) ∧ r.length ≤ g.nodes.length + 1 := by
  have hb := (goodRoute_of_valid g hg cap init r.length r hr le_rfl).1.bound
  refine ⟨hb, ?_⟩
  have hnd : r.dropLast.Nodup := hr.2.2.2.1
  have hsub : r.dropLast ⊆ List.range g.nodes.length := fun i hi =>
    List.mem_range.2 (hb i (List.mem_of_mem_dropLast hi))
  have := (List.subperm_of_subset hnd hsub).length_le
  rw [List.length_range, List.length_dropLast] at this
  omega

theorem exhaustiveOffers_complete (g : Graph) (hg : C15.Inv g) (cap init : ℚ) (r : List ℕ)
    (hr : ValidRoute g cap init r) : r.map Stop.idx ∈ exhaustiveOffers g.nodes.length := by
  obtain ⟨hb, hl⟩ := validRoute_bounds g hg cap init r hr
  unfold exhaustiveOffers
  refine List.mem_map.2 ⟨r, ?_, rfl⟩
  rw [List.mem_flatMap]
  exact ⟨r.length, List.mem_range.2 (by omega), ep_mem_listsOfLen _ r _ rfl hb⟩

/-- (e″) **fully closed form**: for every consistent graph with vehicle data, the path-based instance obtained by
    offering every index list of length ≤ `n + 1` has exactly the reference partition costs -/
theorem path_offer_exhaustive_eq_reference (g : Graph) (hg : C15.Inv g) (cap init : ℚ) (hcap : g.cap = some cap)
    (hinit : g.init = some init) (c : ℚ) :
    (∃ x, IsBin ((exhaustiveOffers g.nodes.length).foldl (fun P r => (P.addRoute r).1)
          ({ g := g } : PathInst)).data.n x ∧
        ((exhaustiveOffers g.nodes.length).foldl (fun P r => (P.addRoute r).1)
          ({ g := g } : PathInst)).data.feasibleB x = true ∧
        ((exhaustiveOffers g.nodes.length).foldl (fun P r => (P.addRoute r).1)
          ({ g := g } : PathInst)).data.objective x = c)
      ↔ (∃ rs', IsPartition g cap init rs' ∧ partitionCost g cap init rs' = c) :=
  path_offer_all_eq_reference g hg cap init hcap hinit _ (exhaustiveOffers_complete g hg cap init) c

/-! ## the counterexample to (b) without a length hypothesis -/

/-- depot and two customers; the tour over `a` costs 0, the tour over `b` costs 2 -/
def ep_cexG : Graph :=
  { nodes := [⟨"d", 0, 0, some 10⟩, ⟨"a", 1, 0, some 5⟩, ⟨"b", 1, 0, some 5⟩],
    arcs := [((0, 1), ⟨"d", "a", 1, 0⟩), ((1, 0), ⟨"a", "d", 1, 0⟩),
             ((0, 2), ⟨"d", "b", 1, 1⟩), ((2, 0), ⟨"b", "d", 1, 1⟩)],
    cap := some 1, init := some 1 }

theorem ep_cexG_inv : C15.Inv ep_cexG := ep_inv_of_invB ep_cexG (by decide +kernel)

instance ep_decValidRoute (g : Graph) (cap init : ℚ) (r : List ℕ) : Decidable (ValidRoute g cap init r) := by
  unfold ValidRoute; infer_instance

/-- a pool with the zero-cost route `d-a-d` and NO stored cost -/
def ep_cexP : PathInst := { g := ep_cexG, routes := [[0, 1, 0]], costs := [], visited := [] }

/-- **`PoolValid` alone is not preserved by `add_route`**: `ep_cexP` is `PoolValid` (the missing cost reads as
    0 = cost of `d-a-d`) on a graph with `C15.Inv` and vehicle data, `add_route` accepts `d-b-d`, and the result is
    not `PoolValid` (the cost 2 of the new route is now read for `d-a-d`) -/
theorem poolValid_addRoute_needs_length :
    C15.Inv ep_cexP.g ∧ ep_cexP.g.cap = some 1 ∧ ep_cexP.g.init = some 1 ∧ PoolValid ep_cexP 1 1 ∧
    (ep_cexP.addRoute [.idx 0, .idx 2, .idx 0]).2 = .ok (true, true) ∧
    ¬ PoolValid (ep_cexP.addRoute [.idx 0, .idx 2, .idx 0]).1 1 1 := by
  refine ⟨ep_cexG_inv, rfl, rfl, ?_, by decide +kernel, ?_⟩
  · unfold PoolValid
    decide +kernel
  · intro h
    have h0 := (h 0 (by decide +kernel)).2
    revert h0
    decide +kernel

/-! ## non-vacuity -/

/-- on `examples/small.py`: the hypotheses of `path_offer_all_eq_reference` hold for the exhaustive offer, the
    reference side is inhabited (the single tour D-1-2-3-D of cost 5 is a partition), hence the path-based
    instance has a feasible binary vector of objective 5 -/
example : ∃ x, IsBin ((exhaustiveOffers 4).foldl (fun P r => (P.addRoute r).1)
        ({ g := smallG } : PathInst)).data.n x ∧
      ((exhaustiveOffers 4).foldl (fun P r => (P.addRoute r).1)
        ({ g := smallG } : PathInst)).data.feasibleB x = true ∧
      ((exhaustiveOffers 4).foldl (fun P r => (P.addRoute r).1)
        ({ g := smallG } : PathInst)).data.objective x = 5 := by
  refine (path_offer_all_eq_reference smallG smallG_inv 6 6 rfl rfl (exhaustiveOffers 4)
    (exhaustiveOffers_complete smallG smallG_inv 6 6) 5).2 ⟨[[0, 1, 2, 3, 0]], ⟨?_, by simp, ?_⟩, ?_⟩
  · intro r hr
    rw [List.mem_singleton] at hr
    subst hr
    decide +kernel
  · intro k hk1 hk
    have hk4 : k < 4 := hk
    have : k = 1 ∨ k = 2 ∨ k = 3 := by omega
    rcases this with rfl | rfl | rfl <;> decide +kernel
  · decide +kernel

/-- … and a small explicit offer (two valid tours, one invalid, one duplicate by names): the resulting pool is
    `PoolValid` and `PoolInv` by `poolValid_offer`, and holds the two tours with their costs -/
example : PoolValid (smallOffers.foldl (fun P r => (P.addRoute r).1) ({ g := smallG } : PathInst)) 6 6 ∧
    PoolInv (smallOffers.foldl (fun P r => (P.addRoute r).1) ({ g := smallG } : PathInst)) ∧
    (smallOffers.foldl (fun P r => (P.addRoute r).1) ({ g := smallG } : PathInst)).routes
      = [[0, 1, 2, 3, 0], [0, 1, 0]] :=
  ⟨(poolValid_offer smallG smallG_inv 6 6 rfl rfl smallOffers).1,
    (poolValid_offer smallG smallG_inv 6 6 rfl rfl smallOffers).2.1, by decide +kernel⟩

end Vrp.C08
