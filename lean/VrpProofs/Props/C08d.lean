import VrpProofs.Lemmas.Compose3
import VrpProofs.Lemmas.Bits

/-!
# C08d — one source VRPTW, four objects built from it

`C08.lean`, `C08b.lean`, `C08c.lean` relate each formulation's feasible set to the reference route-partition
problem *on the graph the object holds*.  For the arc-based and the path-based object that graph is the source
graph.  The sequence-based constructor `SequenceBasedRoutingProblem(vrptw, strict)` (`SeqInst.new src strict`)
changes the graph: in strict mode it re-adds every arc under the strict rule (dropping the ones that fail),
and in both modes its `set_depot` installs the free depot self-loop `(0,0)` (time 0, cost 0).

Here everything is stated about ONE source graph `src`:

* G1 (`selfloop_*`): the only new valid route of `src + self-loop` is the empty tour `[0,0]` of cost 0;
* G2 (`strict_*`): the strict object's graph has the nodes of `src`, and its arcs other than `(0,0)` are arcs of
  `src`; validity is monotone in the arc set;
* T1/T2 (`seq_nonstrict_le_source`, `seq_strict_ge_source`): the two sequence theorems, about `src`;
* T3 (`four_models_one_source`), T4 (`four_models_optima`, `four_models_minima_exist`),
  T5 (`four_models_qubo`): the bundles.
-/
namespace Vrp.C08
open Vrp

/-! ## the objects and the notions of "achievable cost" -/

/-- `src` with the free depot self-loop assigned (`arcs[(0,0)] = Arc(depot, depot, 0, 0)`) -/
def withLoop (src : Graph) (n0 : Node) : Graph :=
  { src with arcs := dictSet src.arcs (0, 0) ⟨n0.name, n0.name, 0, 0⟩ }

/-- `SequenceBasedRoutingProblem(src, strict)`, then `set_max_vehicles(V)`, `set_max_sequence_length(L)` -/
def seqObj (src : Graph) (strict : Bool) (V L : ℕ) : SeqInst :=
  ((SeqInst.new src strict).setMaxVehicles V).setMaxSeqLen L

/-- the path-based object on `src` to which every index list of length ≤ `n + 1` has been offered -/
def exhaustivePath (src : Graph) : PathInst :=
  (exhaustiveOffers src.nodes.length).foldl (fun P r => (P.addRoute r).1) ({ g := src } : PathInst)

/-- objective of a walk assignment (the expression of `C07.seq_objective_eq_moves`) -/
def seqWalkCost (I : SeqInst) (w : ℕ → ℕ → ℕ) : ℚ :=
  sumTo I.V fun v => sumTo (I.L - 1) fun p => C07.arcCost I.g (w v p) (w v (p + 1)) + I.vc v

/-- `c` is the objective of a feasible binary vector of the constrained program `d` -/
def Ach (d : MPData) (c : ℚ) : Prop := ∃ x, IsBin d.n x ∧ d.feasibleB x = true ∧ d.objective x = c

/-- the same for a sequence-based object (whose data are a partial operation) -/
def SeqAch (I : SeqInst) (c : ℚ) : Prop := ∃ d, I.data = some d ∧ Ach d c

/-- `c` is the cost of a reference partition -/
def RefAch (g : Graph) (cap init : ℚ) (c : ℚ) : Prop :=
  ∃ rs, IsPartition g cap init rs ∧ partitionCost g cap init rs = c

/-- `c` is a value of the default-penalty QUBO of `d` (optimisation mode, penalty `suff + 1`) at a binary vector -/
def QuboVal (d : MPData) (suff : ℚ) (c : ℚ) : Prop := ∃ x, IsBin d.n x ∧ C04.optValue d suff x = c

def SeqQuboVal (I : SeqInst) (c : ℚ) : Prop := ∃ d, I.data = some d ∧ QuboVal d I.suffPenalty c

/-- `c` is the least element of `S` -/
def IsMin (S : ℚ → Prop) (c : ℚ) : Prop := S c ∧ ∀ c', S c' → c ≤ c'

/-- standing hypotheses on the source VRPTW -/
structure SourceOK (src : Graph) (cap init : ℚ) : Prop where
  inv : C15.Inv src
  nonempty : src.nodes ≠ []
  noself : src.hasArc 0 0 = false
  hcap : src.cap = some cap
  hinit : src.init = some init
  capFree : CapFree src cap init
  /-- customer-to-customer travel times are positive -/
  pos : C05.PosTimes src

@[simp] theorem seqObj_g (src : Graph) (s : Bool) (V L : ℕ) : (seqObj src s V L).g = (SeqInst.new src s).g := rfl
@[simp] theorem seqObj_V (src : Graph) (s : Bool) (V L : ℕ) : (seqObj src s V L).V = V := rfl
@[simp] theorem seqObj_L (src : Graph) (s : Bool) (V L : ℕ) : (seqObj src s V L).L = L := rfl

theorem seqObj_vc (src : Graph) (s : Bool) (V L : ℕ) (v : ℕ) : (seqObj src s V L).vc v = 0 :=
  c8d_vc_zero (SeqInst.new src s) V v

theorem SourceOK.pos_len {src : Graph} {cap init : ℚ} (h : SourceOK src cap init) : 0 < src.nodes.length :=
  List.length_pos_iff.2 h.nonempty

/-! ## G1 — the depot self-loop -/

/-- the graph of the non-strict object is the source with the self-loop assigned -/
theorem new_nonstrict_g_eq (src : Graph) (n0 : Node) (h0 : src.nodes.head? = some n0) :
    (SeqInst.new src false).g = withLoop src n0 := by
  have hrc : ∀ g, C15.seqRecheck false g = g := fun g => by simp [C15.seqRecheck]
  rw [c8d_new_g src false n0 h0, hrc, c8d_setDepotSeq_head false _ n0 h0, hrc]
  rfl

/-- **valid routes of `src + self-loop`**: the empty tour, and the valid routes of `src` -/
theorem selfloop_validRoute_iff (src : Graph) (hsrc : C15.Inv src) (n0 : Node) (h0 : src.nodes.head? = some n0)
    (h00 : src.hasArc 0 0 = false) (cap init : ℚ) (hcf : CapFree src cap init) (r : List ℕ) :
    C06.ValidRoute (SeqInst.new src false).g cap init r ↔ (r = [0, 0] ∨ C06.ValidRoute src cap init r) := by
  obtain ⟨hsub, _, harc⟩ := c8d_new_sub src hsrc false n0 h0
  have hsup := c8d_new_nonstrict_super src hsrc n0 h0
  constructor
  · intro hr
    by_cases hne : r = [0, 0]
    · exact Or.inl hne
    · exact Or.inr (c8d_valid_mono hsub cap init r hr hne).1
  · rintro (rfl | hr)
    · refine ⟨by simp, rfl, rfl, by simp, ?_⟩
      simp only [List.tail_cons]
      rw [C06.follow, harc]
      have h0len : 0 < src.nodes.length := by
        cases hn : src.nodes with
        | nil => rw [hn] at h0; simp at h0
        | cons a l => simp
      have ht : ltE ((SeqInst.new src false).g.hi 0)
          (maxR ((SeqInst.new src false).g.lo 0 + 0) ((SeqInst.new src false).g.lo 0)) = false := by
        rw [Graph.hi_congr_nodes hsub.nodes, Graph.lo_congr_nodes hsub.nodes]
        have h0' : leE (src.lo 0 + 0) (src.hi 0) = true := by
          rw [add_zero]; exact C07.node_window_ok src hsrc 0 h0len
        have := C07.leE_maxR h0' (C07.node_window_ok src hsrc 0 h0len)
        unfold ltE
        rw [this]; rfl
      have hd : (SeqInst.new src false).g.demand 0 = 0 := by
        rw [c8d_demand_congr hsub.nodes]; exact hcf.dem 0
      simp only [ht, hd, sub_zero]
      have h1 : ¬ (cap < init ∨ init < 0) := by
        rintro (h | h)
        · exact absurd hcf.initc (not_le.2 h)
        · exact absurd hcf.init0 (not_le.2 h)
      simp [h1, C06.follow]
    · have hne : r ≠ [0, 0] := by
        rintro rfl
        exact c8d_not_valid_loop src cap init h00 hr
      exact (c8d_valid_mono hsup cap init r hr hne).1

/-- … at the same cost (the empty tour costs 0) -/
theorem selfloop_routeCost (src : Graph) (hsrc : C15.Inv src) (n0 : Node) (h0 : src.nodes.head? = some n0)
    (cap init : ℚ) (r : List ℕ) (hr : C06.ValidRoute (SeqInst.new src false).g cap init r) :
    routeCost (SeqInst.new src false).g cap init r = if r = [0, 0] then 0 else routeCost src cap init r := by
  obtain ⟨hsub, _, harc⟩ := c8d_new_sub src hsrc false n0 h0
  split_ifs with hne
  · subst hne
    exact c8d_routeCost_loop _ cap init (by simp [C07.arcCost, harc])
  · exact (c8d_valid_mono hsub cap init r hr hne).2.symm

/-- **G1, direction object ⇒ source**: a reference partition of `src + self-loop` is, after dropping the
    empty tours, a reference partition of `src` of the same cost -/
theorem selfloop_partition_to_source (src : Graph) (hsrc : C15.Inv src) (n0 : Node)
    (h0 : src.nodes.head? = some n0) (cap init : ℚ) (rs : List (List ℕ))
    (hp : IsPartition (SeqInst.new src false).g cap init rs) :
    IsPartition src cap init (rs.filter fun r => decide (r ≠ [0, 0])) ∧
    partitionCost src cap init (rs.filter fun r => decide (r ≠ [0, 0]))
      = partitionCost (SeqInst.new src false).g cap init rs := by
  obtain ⟨hsub, _, harc⟩ := c8d_new_sub src hsrc false n0 h0
  exact c8d_partition_mono hsub cap init (by simp [C07.arcCost, harc]) rs hp

/-- **G1, direction source ⇒ object**: a reference partition of `src` (no depot self-loop) is a reference
    partition of `src + self-loop` of the same cost -/
theorem selfloop_partition_of_source (src : Graph) (hsrc : C15.Inv src) (n0 : Node)
    (h0 : src.nodes.head? = some n0) (h00 : src.hasArc 0 0 = false) (cap init : ℚ) (rs : List (List ℕ))
    (hp : IsPartition src cap init rs) :
    IsPartition (SeqInst.new src false).g cap init rs ∧
    partitionCost (SeqInst.new src false).g cap init rs = partitionCost src cap init rs :=
  c8d_partition_embed (c8d_new_nonstrict_super src hsrc n0 h0) cap init h00 rs hp

/-! ## G2 — strict filtering -/

/-- **the strict object's graph**: the nodes of the source; self-consistent and strict; the self-loop is stored
    with time 0 and cost 0; every other stored arc is a stored arc of the source, with the same data -/
theorem strict_graph_facts (src : Graph) (hsrc : C15.Inv src) (n0 : Node) (h0 : src.nodes.head? = some n0) :
    (SeqInst.new src true).g.nodes = src.nodes ∧
    C15.Inv (SeqInst.new src true).g ∧ C07.StrictArcs (SeqInst.new src true).g ∧
    (SeqInst.new src true).g.arc? 0 0 = some ⟨n0.name, n0.name, 0, 0⟩ ∧
    ∀ e ∈ (SeqInst.new src true).g.arcs, e.1 ≠ (0, 0) → e ∈ src.arcs := by
  obtain ⟨hsub, hinv, harc⟩ := c8d_new_sub src hsrc true n0 h0
  refine ⟨hsub.nodes, hinv, (C07.new_strict_arcs src hsrc).1, harc, ?_⟩
  rintro ⟨⟨i, j⟩, a⟩ he hne
  have h1 := c8d_arc?_of_mem _ hinv i j a he
  have h2 := hsub.arcs i j a (by
    rintro ⟨rfl, rfl⟩
    exact hne rfl) h1
  exact c8d_mem_of_arc? src hsrc i j a h2

/-- a valid route of the strict object's graph, other than the empty tour, is a valid route of the source at the
    same cost -/
theorem strict_validRoute_to_source (src : Graph) (hsrc : C15.Inv src) (n0 : Node)
    (h0 : src.nodes.head? = some n0) (cap init : ℚ) (r : List ℕ)
    (hr : C06.ValidRoute (SeqInst.new src true).g cap init r) (hne : r ≠ [0, 0]) :
    C06.ValidRoute src cap init r ∧ routeCost src cap init r = routeCost (SeqInst.new src true).g cap init r :=
  c8d_valid_mono (c8d_new_sub src hsrc true n0 h0).1 cap init r hr hne

/-- **G2**: a reference partition of the strict object's graph is, after dropping the empty tours, a reference
    partition of the source of the same cost -/
theorem strict_partition_to_source (src : Graph) (hsrc : C15.Inv src) (n0 : Node)
    (h0 : src.nodes.head? = some n0) (cap init : ℚ) (rs : List (List ℕ))
    (hp : IsPartition (SeqInst.new src true).g cap init rs) :
    IsPartition src cap init (rs.filter fun r => decide (r ≠ [0, 0])) ∧
    partitionCost src cap init (rs.filter fun r => decide (r ≠ [0, 0]))
      = partitionCost (SeqInst.new src true).g cap init rs := by
  obtain ⟨hsub, _, harc⟩ := c8d_new_sub src hsrc true n0 h0
  exact c8d_partition_mono hsub cap init (by simp [C07.arcCost, harc]) rs hp

/-! ## T1, T2 — the sequence theorems about the source -/

/-- **T1, non-strict sequence-based ≤ reference of the SOURCE**: every reference partition of `src` with at most
    `V` routes of at most `L` stops is a walk assignment of the non-strict object built from `src`, of equal
    objective -/
theorem seq_nonstrict_le_source (src : Graph) (hsrc : C15.Inv src) (hne : src.nodes ≠ [])
    (h00 : src.hasArc 0 0 = false) (cap init : ℚ) (V L : ℕ) (hL : 3 ≤ L)
    (rs : List (List ℕ)) (hp : IsPartition src cap init rs) (hV : rs.length ≤ V)
    (hlen : ∀ r ∈ rs, r.length ≤ L) :
    ∃ w, C07.Walk (seqObj src false V L) w ∧
      seqWalkCost (seqObj src false V L) w = partitionCost src cap init rs := by
  obtain ⟨n0, h0⟩ := c8d_head_of_ne_nil src hne
  obtain ⟨_, hinv, harc⟩ := c8d_new_sub src hsrc false n0 h0
  obtain ⟨hp', hcost⟩ := selfloop_partition_of_source src hsrc n0 h0 h00 cap init rs hp
  obtain ⟨w, hw, hc⟩ := seq_nonstrict_le_reference (seqObj src false V L) cap init hL hinv
    (c8d_hasArc_of_arc? _ 0 0 _ harc) (by simp [C07.arcCost, harc]) (seqObj_vc src false V L)
    rs hp' hV hlen
  exact ⟨w, hw, hc.trans hcost⟩

/-- **T2, strict sequence-based ≥ reference of the SOURCE**: every walk assignment of the strict object built from
    `src` yields a reference partition of `src` whose cost is the walk objective -/
theorem seq_strict_ge_source (src : Graph) (hsrc : C15.Inv src) (hne : src.nodes ≠ [])
    (cap init : ℚ) (hcf : CapFree src cap init) (V L : ℕ) (hL : 3 ≤ L)
    (w : ℕ → ℕ → ℕ) (hw : C07.Walk (seqObj src true V L) w) :
    ∃ rs, IsPartition src cap init rs ∧
      partitionCost src cap init rs = seqWalkCost (seqObj src true V L) w := by
  obtain ⟨n0, h0⟩ := c8d_head_of_ne_nil src hne
  obtain ⟨hsub, hinv, harc⟩ := c8d_new_sub src hsrc true n0 h0
  have hcf' : CapFree (SeqInst.new src true).g cap init :=
    ⟨fun i => by rw [c8d_demand_congr hsub.nodes]; exact hcf.dem i, hcf.init0, hcf.initc⟩
  obtain ⟨rs, hp, hc⟩ := seq_strict_ge_reference (seqObj src true V L) cap init hL hinv
    (C07.new_strict_arcs src hsrc).1 hcf'
    (by simp [C07.arcTime, harc]) (by simp [C07.arcCost, harc]) (seqObj_vc src true V L) w hw
  obtain ⟨hp', hcost⟩ := strict_partition_to_source src hsrc n0 h0 cap init rs hp
  exact ⟨_, hp', hcost.trans hc⟩

/-! ## the bridge walks ⇔ feasible binary vectors, with the objective -/

theorem seqAch_iff_walk (I : SeqInst) (hL : 3 ≤ I.L) (hN : 1 ≤ I.g.nodes.length) (hg : C15.Inv I.g) (c : ℚ) :
    SeqAch I c ↔ ∃ w, C07.Walk I w ∧ seqWalkCost I w = c := by
  constructor
  · rintro ⟨d, hd, x, hx, hf, hc⟩
    obtain ⟨w, hw, hxw⟩ := (C07.seq_feasible_iff_walks I d hd hL hN x hx).1 hf
    refine ⟨w, hw, ?_⟩
    unfold seqWalkCost
    rw [← C07.seq_objective_eq_moves I d hd hL hg w hw, ← c8d_objective_congr d x _ hxw, hc]
  · rintro ⟨w, hw, hc⟩
    obtain ⟨d, hd⟩ := C02.seq_data_total I hL
    obtain ⟨hb, hf⟩ := C07.seq_walks_representable I d hd hL hN w hw
    exact ⟨d, hd, _, hb, hf, by rw [C07.seq_objective_eq_moves I d hd hL hg w hw]; exact hc⟩

/-! ## T3 — the four models of one source -/

/-- **T3**: one capacity-free VRPTW `src`; the arc-based object on a complete grid `T`, the path-based object
    with every route offered, the two sequence-based objects with at least as many vehicles as customers and
    at least `#customers + 2` positions.  For every cost `c`:
    arc-based achieves `c` ⇔ reference achieves `c` ⇔ path-based achieves `c`;
    reference achieves `c` ⇒ non-strict sequence-based achieves `c`;
    strict sequence-based achieves `c` ⇒ reference achieves `c`. -/
theorem four_models_one_source (src : Graph) (cap init : ℚ) (hs : SourceOK src cap init)
    (T : List ℚ) (hsorted : T.Pairwise (· ≤ ·)) (hnodup : T.Nodup)
    (hgrid : CompleteGrid { g := src, T := T } cap init)
    (V L : ℕ) (hV : src.nodes.length - 1 ≤ V) (hLn : src.nodes.length + 1 ≤ L) (hL : 3 ≤ L) (c : ℚ) :
    (Ach ({ g := src, T := T } : ArcInst).data c ↔ RefAch src cap init c) ∧
    (Ach (exhaustivePath src).data c ↔ RefAch src cap init c) ∧
    (RefAch src cap init c → SeqAch (seqObj src false V L) c) ∧
    (SeqAch (seqObj src true V L) c → RefAch src cap init c) := by
  obtain ⟨n0, h0⟩ := c8d_head_of_ne_nil src hs.nonempty
  refine ⟨?_, ?_, ?_, ?_⟩
  · exact arc_complete_grid_eq_reference { g := src, T := T } ⟨hsorted, hnodup, hs.inv⟩ hs.pos cap init
      hs.capFree hs.noself hgrid c
  · exact path_offer_exhaustive_eq_reference src hs.inv cap init hs.hcap hs.hinit c
  · rintro ⟨rs, hp, hc⟩
    obtain ⟨hsub, hinv, _⟩ := c8d_new_sub src hs.inv false n0 h0
    have hlenV := c8d_partition_length_le src hs.inv cap init hs.noself rs hp
    obtain ⟨w, hw, hcw⟩ := seq_nonstrict_le_source src hs.inv hs.nonempty hs.noself cap init V L hL rs hp
      (by omega) (fun r hr => le_trans (validRoute_bounds src hs.inv cap init r (hp.1 r hr)).2 hLn)
    refine (seqAch_iff_walk (seqObj src false V L) hL ?_ hinv c).2 ⟨w, hw, hcw.trans hc⟩
    rw [seqObj_g, hsub.nodes]; exact hs.pos_len
  · intro h
    obtain ⟨hsub, hinv, _⟩ := c8d_new_sub src hs.inv true n0 h0
    obtain ⟨w, hw, hcw⟩ := (seqAch_iff_walk (seqObj src true V L) hL
      (by rw [seqObj_g, hsub.nodes]; exact hs.pos_len) hinv c).1 h
    obtain ⟨rs, hp, hc⟩ := seq_strict_ge_source src hs.inv hs.nonempty cap init hs.capFree V L hL w hw
    exact ⟨rs, hp, hc.trans hcw⟩

/-! ## T4 — optima -/

theorem isMin_congr {S S' : ℚ → Prop} (h : ∀ c, S c ↔ S' c) (m : ℚ) : IsMin S m ↔ IsMin S' m :=
  ⟨fun ⟨h1, h2⟩ => ⟨(h m).1 h1, fun c' hc' => h2 c' ((h c').2 hc')⟩,
   fun ⟨h1, h2⟩ => ⟨(h m).2 h1, fun c' hc' => h2 c' ((h c').1 hc')⟩⟩

/-- a larger set has a smaller minimum -/
theorem isMin_le_of_imp {S S' : ℚ → Prop} (h : ∀ c, S c → S' c) {a b : ℚ} (ha : IsMin S' a) (hb : IsMin S b) :
    a ≤ b := ha.2 b (h b hb.1)

theorem isMin_unique {S : ℚ → Prop} {a b : ℚ} (ha : IsMin S a) (hb : IsMin S b) : a = b :=
  le_antisymm (ha.2 b hb.1) (hb.2 a ha.1)

/-- the constrained program attains its optimum as soon as it is feasible -/
theorem ach_min_exists (d : MPData) (h : ∃ c, Ach d c) : ∃ m, IsMin (Ach d) m := by
  obtain ⟨_, x, hx, hf, _⟩ := h
  obtain ⟨y, hy, hfy, hmin⟩ := c8d_bin_min_exists d.n (fun x => d.feasibleB x = true) d.objective
    (fun x y hxy => by rw [c8d_feasibleB_congr d x y hxy]) (c8d_objective_congr d) ⟨x, hx, hf⟩
  exact ⟨d.objective y, ⟨y, hy, hfy, rfl⟩, fun c' ⟨z, hz, hfz, hc⟩ => hc ▸ hmin z hz hfz⟩

theorem seqAch_iff_ach {I : SeqInst} {d : MPData} (hd : I.data = some d) (c : ℚ) : SeqAch I c ↔ Ach d c :=
  ⟨fun ⟨d', hd', h⟩ => by rw [hd] at hd'; cases hd'; exact h, fun h => ⟨d, hd, h⟩⟩

theorem seqAch_min_exists (I : SeqInst) (h : ∃ c, SeqAch I c) : ∃ m, IsMin (SeqAch I) m := by
  obtain ⟨c, d, hd, hc⟩ := h
  obtain ⟨m, hm⟩ := ach_min_exists d ⟨c, hc⟩
  exact ⟨m, (isMin_congr (seqAch_iff_ach hd) m).2 hm⟩

/-- **T4**: under the hypotheses of T3 — the arc-based, the path-based and the reference problem have the same
    feasibility and the same optimum; the non-strict sequence-based optimum is at most, the strict
    sequence-based optimum at least that value; strict feasible ⇒ reference feasible ⇒ non-strict feasible -/
theorem four_models_optima (src : Graph) (cap init : ℚ) (hs : SourceOK src cap init)
    (T : List ℚ) (hsorted : T.Pairwise (· ≤ ·)) (hnodup : T.Nodup)
    (hgrid : CompleteGrid { g := src, T := T } cap init)
    (V L : ℕ) (hV : src.nodes.length - 1 ≤ V) (hLn : src.nodes.length + 1 ≤ L) (hL : 3 ≤ L) :
    (∀ m, IsMin (Ach ({ g := src, T := T } : ArcInst).data) m ↔ IsMin (RefAch src cap init) m) ∧
    (∀ m, IsMin (Ach (exhaustivePath src).data) m ↔ IsMin (RefAch src cap init) m) ∧
    ((∃ c, Ach ({ g := src, T := T } : ArcInst).data c) ↔ ∃ c, RefAch src cap init c) ∧
    ((∃ c, Ach (exhaustivePath src).data c) ↔ ∃ c, RefAch src cap init c) ∧
    (∀ a b, IsMin (SeqAch (seqObj src false V L)) a → IsMin (RefAch src cap init) b → a ≤ b) ∧
    (∀ b c, IsMin (RefAch src cap init) b → IsMin (SeqAch (seqObj src true V L)) c → b ≤ c) ∧
    ((∃ c, SeqAch (seqObj src true V L) c) → ∃ c, RefAch src cap init c) ∧
    ((∃ c, RefAch src cap init c) → ∃ c, SeqAch (seqObj src false V L) c) := by
  have h := four_models_one_source src cap init hs T hsorted hnodup hgrid V L hV hLn hL
  refine ⟨isMin_congr fun c => (h c).1, isMin_congr fun c => (h c).2.1,
    exists_congr fun c => (h c).1, exists_congr fun c => (h c).2.1,
    fun a b ha hb => isMin_le_of_imp (fun c => (h c).2.2.1) ha hb,
    fun b c hb hc => isMin_le_of_imp (fun c => (h c).2.2.2) hb hc,
    fun ⟨c, hc⟩ => ⟨c, (h c).2.2.2 hc⟩, fun ⟨c, hc⟩ => ⟨c, (h c).2.2.1 hc⟩⟩

/-- **T4, existence**: if the reference problem is feasible, the common optimum of the arc-based, the path-based
    and the reference problem exists, and so does the non-strict sequence-based optimum (which is at most it);
    if the strict sequence-based problem is feasible, all four optima exist and are ordered -/
theorem four_models_minima_exist (src : Graph) (cap init : ℚ) (hs : SourceOK src cap init)
    (T : List ℚ) (hsorted : T.Pairwise (· ≤ ·)) (hnodup : T.Nodup)
    (hgrid : CompleteGrid { g := src, T := T } cap init)
    (V L : ℕ) (hV : src.nodes.length - 1 ≤ V) (hLn : src.nodes.length + 1 ≤ L) (hL : 3 ≤ L) :
    ((∃ c, RefAch src cap init c) → ∃ a m, a ≤ m ∧ IsMin (SeqAch (seqObj src false V L)) a ∧
      IsMin (RefAch src cap init) m ∧ IsMin (Ach ({ g := src, T := T } : ArcInst).data) m ∧
      IsMin (Ach (exhaustivePath src).data) m) ∧
    ((∃ c, SeqAch (seqObj src true V L) c) → ∃ a m b, a ≤ m ∧ m ≤ b ∧
      IsMin (SeqAch (seqObj src false V L)) a ∧ IsMin (RefAch src cap init) m ∧
      IsMin (Ach ({ g := src, T := T } : ArcInst).data) m ∧ IsMin (Ach (exhaustivePath src).data) m ∧
      IsMin (SeqAch (seqObj src true V L)) b) := by
  obtain ⟨h1, h2, h3, _, h5, h6, h7, h8⟩ :=
    four_models_optima src cap init hs T hsorted hnodup hgrid V L hV hLn hL
  have key : (∃ c, RefAch src cap init c) → ∃ a m, a ≤ m ∧ IsMin (SeqAch (seqObj src false V L)) a ∧
      IsMin (RefAch src cap init) m ∧ IsMin (Ach ({ g := src, T := T } : ArcInst).data) m ∧
      IsMin (Ach (exhaustivePath src).data) m := by
    intro hr
    obtain ⟨m, hm⟩ := ach_min_exists _ (h3.2 hr)
    obtain ⟨a, ha⟩ := seqAch_min_exists _ (h8 hr)
    have hmr := (h1 m).1 hm
    exact ⟨a, m, h5 a m ha hmr, ha, hmr, hm, (h2 m).2 hmr⟩
  refine ⟨key, fun hst => ?_⟩
  obtain ⟨a, m, ham, ha, hm, hma, hmp⟩ := key (h7 hst)
  obtain ⟨b, hb⟩ := seqAch_min_exists _ hst
  exact ⟨a, m, b, ham, h6 m b hm hb, ha, hm, hma, hmp, hb⟩

/-! ## T5 — the default-penalty QUBOs -/

/-- from the exactness statement of C04 (in the form of its three instances): the minimum of the
    default-penalty QUBO over all binary vectors is the constrained optimum -/
theorem qubo_min_iff_of_exact (d : MPData) (suff : ℚ)
    (hexact : ∀ x, IsBin d.n x →
      ((∀ z, IsBin d.n z → C04.optValue d suff x ≤ C04.optValue d suff z) ↔
        (d.feasibleB x = true ∧ ∀ z, IsBin d.n z → d.feasibleB z = true → d.objective x ≤ d.objective z)))
    (m : ℚ) : IsMin (QuboVal d suff) m ↔ IsMin (Ach d) m := by
  have hval : ∀ x, IsBin d.n x → d.feasibleB x = true → C04.optValue d suff x = d.objective x := by
    intro x hx hf
    rw [C04.optValue_eq d suff x hx, (C03.penalty_zero_iff d x hx).2 hf]
    ring
  constructor
  · rintro ⟨⟨x, hx, hv⟩, hmin⟩
    obtain ⟨hf, hopt⟩ := (hexact x hx).1 fun z hz => by rw [hv]; exact hmin _ ⟨z, hz, rfl⟩
    have hxm : d.objective x = m := by rw [← hval x hx hf, hv]
    exact ⟨⟨x, hx, hf, hxm⟩, fun c' ⟨z, hz, hfz, hc⟩ => by rw [← hxm, ← hc]; exact hopt z hz hfz⟩
  · rintro ⟨⟨x, hx, hf, hc⟩, hmin⟩
    have hq := (hexact x hx).2 ⟨hf, fun z hz hfz => by rw [hc]; exact hmin _ ⟨z, hz, hfz, rfl⟩⟩
    have hxm : C04.optValue d suff x = m := by rw [hval x hx hf, hc]
    exact ⟨⟨x, hx, hxm⟩, fun c' ⟨z, hz, hcz⟩ => by rw [← hxm, ← hcz]; exact hq z hz⟩

theorem ach_feasible {d : MPData} (h : ∃ c, Ach d c) : ∃ y, IsBin d.n y ∧ d.feasibleB y = true := by
  obtain ⟨_, y, hy, hf, _⟩ := h
  exact ⟨y, hy, hf⟩

theorem arc_qubo_min_iff (I : ArcInst) (hg : C15.Inv I.g) (hex : ∃ c, Ach I.data c) (m : ℚ) :
    IsMin (QuboVal I.data I.suffPenalty) m ↔ IsMin (Ach I.data) m :=
  qubo_min_iff_of_exact I.data I.suffPenalty
    (fun x hx => C04.arc_default_penalty_exact I hg (ach_feasible hex) x hx) m

theorem path_qubo_min_iff (P : PathInst) (hex : ∃ c, Ach P.data c) (m : ℚ) :
    IsMin (QuboVal P.data P.suffPenalty) m ↔ IsMin (Ach P.data) m :=
  qubo_min_iff_of_exact P.data P.suffPenalty
    (fun x hx => C04.path_default_penalty_exact P (ach_feasible hex) x hx) m

theorem seq_qubo_min_iff (I : SeqInst) (hg : C15.Inv I.g) (hex : ∃ c, SeqAch I c) (m : ℚ) :
    IsMin (SeqQuboVal I) m ↔ IsMin (SeqAch I) m := by
  obtain ⟨c, d, hd, hc⟩ := hex
  have hq : ∀ c, SeqQuboVal I c ↔ QuboVal d I.suffPenalty c :=
    fun c => ⟨fun ⟨d', hd', h⟩ => by rw [hd] at hd'; cases hd'; exact h, fun h => ⟨d, hd, h⟩⟩
  rw [isMin_congr hq, isMin_congr (seqAch_iff_ach hd)]
  exact qubo_min_iff_of_exact d I.suffPenalty
    (fun x hx => C04.seq_default_penalty_exact I d hd hg (ach_feasible ⟨c, hc⟩) x hx) m

theorem seqObj_inv (src : Graph) (hsrc : C15.Inv src) (hne : src.nodes ≠ []) (s : Bool) (V L : ℕ) :
    C15.Inv (seqObj src s V L).g := by
  obtain ⟨n0, h0⟩ := c8d_head_of_ne_nil src hne
  exact (c8d_new_sub src hsrc s n0 h0).2.1

/-- **T5**: under the hypotheses of T3, minimising the default-penalty QUBO of each object over ALL binary
    vectors gives the same numbers as T4:
    * reference feasible ⇒ the arc-based and the path-based QUBO minimum are the reference optimum;
    * a sequence-based object that is feasible ⇒ its QUBO minimum is its constrained optimum;
    * reference feasible ⇒ non-strict QUBO minimum ≤ arc-based (= path-based) QUBO minimum;
    * strict feasible ⇒ arc-based (= path-based) QUBO minimum ≤ strict QUBO minimum. -/
theorem four_models_qubo (src : Graph) (cap init : ℚ) (hs : SourceOK src cap init)
    (T : List ℚ) (hsorted : T.Pairwise (· ≤ ·)) (hnodup : T.Nodup)
    (hgrid : CompleteGrid { g := src, T := T } cap init)
    (V L : ℕ) (hV : src.nodes.length - 1 ≤ V) (hLn : src.nodes.length + 1 ≤ L) (hL : 3 ≤ L) :
    ((∃ c, RefAch src cap init c) → ∀ m,
      (IsMin (QuboVal ({ g := src, T := T } : ArcInst).data ({ g := src, T := T } : ArcInst).suffPenalty) m
        ↔ IsMin (RefAch src cap init) m) ∧
      (IsMin (QuboVal (exhaustivePath src).data (exhaustivePath src).suffPenalty) m
        ↔ IsMin (RefAch src cap init) m)) ∧
    (∀ s, (∃ c, SeqAch (seqObj src s V L) c) → ∀ m,
      IsMin (SeqQuboVal (seqObj src s V L)) m ↔ IsMin (SeqAch (seqObj src s V L)) m) ∧
    ((∃ c, RefAch src cap init c) → ∀ a b, IsMin (SeqQuboVal (seqObj src false V L)) a →
      IsMin (QuboVal ({ g := src, T := T } : ArcInst).data ({ g := src, T := T } : ArcInst).suffPenalty) b →
      a ≤ b) ∧
    ((∃ c, SeqAch (seqObj src true V L) c) → ∀ b c,
      IsMin (QuboVal ({ g := src, T := T } : ArcInst).data ({ g := src, T := T } : ArcInst).suffPenalty) b →
      IsMin (SeqQuboVal (seqObj src true V L)) c → b ≤ c) := by
  obtain ⟨h1, h2, h3, h4, h5, h6, h7, h8⟩ :=
    four_models_optima src cap init hs T hsorted hnodup hgrid V L hV hLn hL
  have harc : (∃ c, RefAch src cap init c) → ∀ m,
      IsMin (QuboVal ({ g := src, T := T } : ArcInst).data ({ g := src, T := T } : ArcInst).suffPenalty) m
        ↔ IsMin (RefAch src cap init) m :=
    fun hr m => (arc_qubo_min_iff { g := src, T := T } hs.inv (h3.2 hr) m).trans (h1 m)
  have hseq : ∀ s, (∃ c, SeqAch (seqObj src s V L) c) → ∀ m,
      IsMin (SeqQuboVal (seqObj src s V L)) m ↔ IsMin (SeqAch (seqObj src s V L)) m :=
    fun s hex m => seq_qubo_min_iff _ (seqObj_inv src hs.inv hs.nonempty s V L) hex m
  refine ⟨fun hr m => ⟨harc hr m, ?_⟩, hseq, ?_, ?_⟩
  · exact (path_qubo_min_iff (exhaustivePath src) (h4.2 hr) m).trans (h2 m)
  · intro hr a b ha hb
    exact h5 a b ((hseq false (h8 hr) a).1 ha) ((harc hr b).1 hb)
  · intro hst b c hb hc
    exact h6 b c ((harc (h7 hst) b).1 hb) ((hseq true hst c).1 hc)

/-! ## non-vacuity -/

/-- depot and two customers, every arc between different nodes (time 1, cost 1), all windows `[0, ∞)`,
    no demands, capacity 1, initial load 1 -/
def exSrc : Graph :=
  { nodes := [⟨"d", 0, 0, none⟩, ⟨"a", 0, 0, none⟩, ⟨"b", 0, 0, none⟩],
    arcs := [((0, 1), ⟨"d", "a", 1, 1⟩), ((0, 2), ⟨"d", "b", 1, 1⟩), ((1, 0), ⟨"a", "d", 1, 1⟩),
             ((2, 0), ⟨"b", "d", 1, 1⟩), ((1, 2), ⟨"a", "b", 1, 1⟩), ((2, 1), ⟨"b", "a", 1, 1⟩)],
    cap := some 1, init := some 1 }

theorem exSrc_inv : C15.Inv exSrc := C06.ep_inv_of_invB exSrc (by decide +kernel)

theorem exSrc_ok : SourceOK exSrc 1 1 where
  inv := exSrc_inv
  nonempty := by decide
  noself := by decide +kernel
  hcap := rfl
  hinit := rfl
  capFree := by
    refine ⟨?_, by norm_num, le_rfl⟩
    intro i
    match i with
    | 0 => decide +kernel
    | 1 => decide +kernel
    | 2 => decide +kernel
    | i + 3 => simp [Graph.demand, exSrc]
  pos := by unfold C05.PosTimes; decide +kernel

/-- the grid `0, 1, 2, 3` holds every service time of every valid route of `exSrc` -/
theorem exSrc_grid : CompleteGrid { g := exSrc, T := [0, 1, 2, 3] } 1 1 :=
  c8d_completeGrid_of_check exSrc exSrc_inv 1 1 [0, 1, 2, 3] (by decide +kernel)

/-- all hypotheses of T3 (hence of T4, T5) hold for `exSrc` with the grid `0..3`, two vehicles and four
    positions; the reference side is inhabited (the tour d-a-b-d of cost 3), so the arc-based object on the
    complete grid, the path-based object with all routes and the non-strict sequence-based object built from
    `exSrc` all have a feasible binary vector of objective 3, and their optima exist -/
example :
    Ach ({ g := exSrc, T := [0, 1, 2, 3] } : ArcInst).data 3 ∧ Ach (exhaustivePath exSrc).data 3 ∧
    SeqAch (seqObj exSrc false 2 4) 3 ∧
    ∃ a m, a ≤ m ∧ IsMin (SeqAch (seqObj exSrc false 2 4)) a ∧ IsMin (RefAch exSrc 1 1) m ∧
      IsMin (Ach ({ g := exSrc, T := [0, 1, 2, 3] } : ArcInst).data) m ∧
      IsMin (Ach (exhaustivePath exSrc).data) m := by
  have href : RefAch exSrc 1 1 3 := by
    refine ⟨[[0, 1, 2, 0]], ⟨?_, by simp, ?_⟩, by decide +kernel⟩
    · intro r hr
      rw [List.mem_singleton] at hr
      subst hr
      decide +kernel
    · intro k hk1 hk
      have hk3 : k < 3 := hk
      have : k = 1 ∨ k = 2 := by omega
      rcases this with rfl | rfl <;> decide +kernel
  have h := four_models_one_source exSrc 1 1 exSrc_ok [0, 1, 2, 3] (by decide +kernel) (by decide +kernel)
    exSrc_grid 2 4 (by decide) (by decide) (by decide) 3
  exact ⟨h.1.2 href, h.2.1.2 href, h.2.2.1 href,
    (four_models_minima_exist exSrc 1 1 exSrc_ok [0, 1, 2, 3] (by decide +kernel) (by decide +kernel)
      exSrc_grid 2 4 (by decide) (by decide) (by decide)).1 ⟨3, href⟩⟩

/-- the strict side is inhabited as well (all windows are `[0, ∞)`, so the strict rule drops no arc): vehicle 0
    drives d-a-b-d, vehicle 1 stays at the depot -/
def exWalk : ℕ → ℕ → ℕ := fun v p => if v = 0 then [0, 1, 2, 0].getD p 0 else 0

theorem exWalk_walk : C07.Walk (seqObj exSrc true 2 4) exWalk where
  lt := by simp only [seqObj_V, seqObj_L, seqObj_g]; decide +kernel
  start := by simp only [seqObj_V]; decide +kernel
  stop := by simp only [seqObj_V, seqObj_L]; decide +kernel
  arcs := by
    simp only [seqObj_V, seqObj_L, seqObj_g]
    intro v hv p hp
    have hp' : p = 0 ∨ p = 1 ∨ p = 2 := by omega
    have hv' : v = 0 ∨ v = 1 := by omega
    rcases hv' with rfl | rfl <;> rcases hp' with rfl | rfl | rfl <;> decide +kernel
  absorb := by
    simp only [seqObj_V, seqObj_L]
    intro v hv p hp1 hp hz
    have : p = 1 ∨ p = 2 := by omega
    have hv' : v = 0 ∨ v = 1 := by omega
    rcases hv' with rfl | rfl <;> rcases this with rfl | rfl <;> revert hz <;> decide +kernel
  once := by
    simp only [seqObj_V, seqObj_L, seqObj_g]
    intro k hk1 hk
    have hk3 : k < 3 := by
      have : (SeqInst.new exSrc true).g.nodes.length = 3 := by decide +kernel
      omega
    have : k = 1 ∨ k = 2 := by omega
    rcases this with rfl | rfl <;> decide +kernel

/-- hence all four optima of `exSrc` exist and are ordered -/
example : ∃ a m b, a ≤ m ∧ m ≤ b ∧
    IsMin (SeqAch (seqObj exSrc false 2 4)) a ∧ IsMin (RefAch exSrc 1 1) m ∧
    IsMin (Ach ({ g := exSrc, T := [0, 1, 2, 3] } : ArcInst).data) m ∧ IsMin (Ach (exhaustivePath exSrc).data) m ∧
    IsMin (SeqAch (seqObj exSrc true 2 4)) b :=
  (four_models_minima_exist exSrc 1 1 exSrc_ok [0, 1, 2, 3] (by decide +kernel) (by decide +kernel)
    exSrc_grid 2 4 (by decide) (by decide) (by decide)).2
    ⟨_, (seqAch_iff_walk (seqObj exSrc true 2 4) (by decide) (by
        rw [seqObj_g]; decide +kernel) (seqObj_inv exSrc exSrc_inv (by decide) true 2 4) _).2
      ⟨exWalk, exWalk_walk, rfl⟩⟩

end Vrp.C08
