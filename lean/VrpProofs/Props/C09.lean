import VrpModel.SeqBased
import VrpProofs.Props.C03

namespace Vrp.C09
open Vrp

/-- a stored solution that satisfies the constraints has feasibility-QUBO value 0 (default penalty) -/
theorem feasible_solution_feasQubo_zero (d : MPData) (suff : ℚ) (x : Vec) (hx : IsBin d.n x)
    (hf : d.feasibleB x = true) :
    quad d.n (d.quboQ (defaultRho suff true) true) x + d.quboK (defaultRho suff true) = 0 :=
  (C03.feasQubo_nonneg_zero_iff d suff x hx).2.2 hf

/-- … and its optimisation-QUBO value equals its objective, for every penalty weight -/
theorem feasible_solution_optQubo_eq_objective (d : MPData) (rho : ℚ) (x : Vec) (hx : IsBin d.n x)
    (hf : d.feasibleB x = true) :
    quad d.n (d.quboQ rho false) x + d.quboK rho = d.objective x := by
  rw [C02.getQubo_energy d rho false x hx, (C03.penalty_zero_iff d x hx).2 hf]; simp

/-! ## non-vacuity -/

/-- the hypotheses (binary, feasible) hold for the vector `C03.nv_x` of the arc-based program `C03.nv_I`
    (reachable graph, 9 variables, 5 rows); conclusions: feasibility QUBO 0, optimisation QUBO = cost 4 -/
example : quad C03.nv_I.data.n (C03.nv_I.data.quboQ (defaultRho 128 true) true) C03.nv_x
    + C03.nv_I.data.quboK (defaultRho 128 true) = 0 :=
  feasible_solution_feasQubo_zero _ 128 _ C03.nv_x_bin (by decide +kernel)

example : quad C03.nv_I.data.n (C03.nv_I.data.quboQ 129 false) C03.nv_x + C03.nv_I.data.quboK 129 = 4 := by
  rw [feasible_solution_optQubo_eq_objective _ 129 _ C03.nv_x_bin (by decide +kernel)]; decide +kernel

/-- reading off the value of a heuristic's reply (used by the non-vacuity sections of C09b–C09e to exhibit
    `J, sol` with `makeFeasible … = .ok (J, sol)` by evaluation) -/
def nv_val {α : Type} (r : Except Err α) (dflt : α) : α := match r with | .ok a => a | .error _ => dflt

theorem nv_val_eq {α : Type} (r : Except Err α) (dflt : α) (h : r.toBool = true) : r = .ok (nv_val r dflt) := by
  cases r with
  | ok a => rfl
  | error e => cases h

end Vrp.C09
