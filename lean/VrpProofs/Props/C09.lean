import VrpModel.SeqBased
import VrpProofs.Props.C03

namespace Vrp.C09
open Vrp

/-- a stored solution that satisfies the constraints has feasibility-QUBO value 0 (default penalty) -/
theorem feasible_solution_feasQubo_zero (d : MPData) (suff : ℚ) (x : Vec) (hx : IsBin d.n x)
    (hf : d.feasibleB x = true) :
    quad d.n (d.quboQ (defaultRho suff true) true) x + d.quboK (defaultRho suff true) = 0 :=
  (C03.feasQubo_nonneg_zero_iff d suff x hx).2.2 hf

/-- … and its optimisation-QUBO value equals its objective, for every penalty weight -/
theorem feasible_solution_optQubo_eq_objective (d : MPData) (rho : ℚ) (x : Vec) (hx : IsBin d.n x)
    (hf : d.feasibleB x = true) :
    quad d.n (d.quboQ rho false) x + d.quboK rho = d.objective x := by
  rw [C02.getQubo_energy d rho false x hx, (C03.penalty_zero_iff d x hx).2 hf]; simp

end Vrp.C09
