import VrpModel.Heuristics
import VrpProofs.Props.C09
import VrpProofs.Props.C07
import VrpProofs.Props.C07b
import VrpProofs.Lemmas.SeqHeur
import VrpProofs.Lemmas.SeqHeurInv

/-!
# C09 (sequence-based) — the construction heuristic returns a genuinely feasible solution or fails
-/
namespace Vrp.C09
open Vrp

open SeqHeur in
theorem chain_arcs {g : Graph} (h00 : g.hasArc 0 0 = true) {cur : Nat} {r : List Nat}
    (hc : Chain g cur r) (i : Nat) :
    g.hasArc (((cur :: r)[i]?).getD 0) (((cur :: r)[i + 1]?).getD 0) = true := by
  induction r generalizing cur i with
  | nil =>
    cases i with
    | zero => simpa [Chain] using hc
    | succ i => simpa using h00
  | cons n l ih =>
    cases i with
    | zero => simpa using hc.1
    | succ i => simpa using ih hc.2 i

open SeqHeur Finset in
/-- the routes recorded by the construction form walks of the final instance -/
theorem walk_of_SInv (J : SeqInst) (U : List Nat) (R : List (List Nat)) (used : List STup)
    (h0 : 0 < J.g.nodes.length) (h00 : J.g.hasArc 0 0 = true) (hRV : R.length = J.V)
    (hUnd : U.Nodup) (hUmem : ∀ n, n ∈ U ↔ 1 ≤ n ∧ n < J.g.nodes.length)
    (hS : SInv J.g J.L U R [] used) : C07.Walk J (wOf R) := by
  have hperm : R.flatten.Perm U := by simpa using hS.perm
  have hnd : R.flatten.Nodup := hperm.nodup_iff.2 hUnd
  have hmemR : ∀ r ∈ R, ∀ x ∈ r, 1 ≤ x ∧ x < J.g.nodes.length := fun r hr x hx =>
    (hUmem x).1 (hperm.mem_iff.1 (List.mem_flatten.2 ⟨r, hr, hx⟩))
  have hget : ∀ {v r}, R[v]? = some r → r ∈ R := fun h => List.mem_of_getElem? h
  refine ⟨?_, fun v _ => wOf_zero R v, ?_, ?_, ?_, ?_⟩
  · intro v _ p _
    by_cases hz : wOf R v p = 0
    · rw [hz]; exact h0
    · obtain ⟨r, q, hr, _, hq⟩ := wOf_eq_nonzero rfl hz
      exact (hmemR r (hget hr) _ (List.mem_of_getElem? hq)).2
  · intro v _
    by_contra hz
    obtain ⟨r, q, hr, hp, hq⟩ := wOf_eq_nonzero rfl hz
    have := (hS.route r (hget hr)).1
    have := (List.getElem?_eq_some_iff.1 hq).1
    omega
  · intro v hv p _
    have hv' : v < R.length := by omega
    have hr : R[v]? = some R[v] := List.getElem?_eq_getElem hv'
    have := chain_arcs h00 (hS.route R[v] (hget hr)).2 p
    simpa [wOf, hr] using this
  · intro v _ p hp1 _ hz
    by_contra hne
    obtain ⟨r, q, hr, hp, hq⟩ := wOf_eq_nonzero rfl hne
    have hql := (List.getElem?_eq_some_iff.1 hq).1
    obtain ⟨q', rfl⟩ : ∃ q', p = q' + 1 := ⟨p - 1, by omega⟩
    have hq'l : q' < r.length := by omega
    have := wOf_of_get hr (List.getElem?_eq_getElem hq'l)
    rw [hz] at this
    have := (hmemR r (hget hr) r[q'] (List.getElem_mem hq'l)).1
    omega
  · intro k hk1 hk2
    have hkU : k ∈ R.flatten := hperm.mem_iff.2 ((hUmem k).2 ⟨hk1, hk2⟩)
    obtain ⟨r, hrR, hkr⟩ := List.mem_flatten.1 hkU
    obtain ⟨v, hr⟩ := List.mem_iff_getElem?.1 hrR
    obtain ⟨q, hq⟩ := List.mem_iff_getElem?.1 hkr
    have hvl := (List.getElem?_eq_some_iff.1 hr).1
    have hql := (List.getElem?_eq_some_iff.1 hq).1
    have hlen := (hS.route r hrR).1
    rw [Finset.card_eq_one]
    refine ⟨(q + 1, v), ?_⟩
    ext ⟨p', v'⟩
    simp only [Finset.mem_filter, Finset.mem_product, Finset.mem_range, Finset.mem_singleton,
      Prod.mk.injEq]
    constructor
    · rintro ⟨_, hw⟩
      obtain ⟨r', q', hr', hp', hq'⟩ := wOf_eq_nonzero hw (by omega)
      obtain ⟨e1, e2⟩ := flatten_nodup_unique hnd hr' hr hq' hq
      exact ⟨by omega, e1⟩
    · rintro ⟨rfl, rfl⟩
      exact ⟨⟨by omega, by omega⟩, wOf_of_get hr hq⟩

/-! ## statements to prove (the property statements) -/

/-- **soundness of the sequence-based heuristic**: whenever `make_feasible` returns normally, the stored
    vector has one entry per variable of the *resulting* instance, is 0/1, and satisfies every linear and
    quadratic constraint that instance reports -/
theorem seq_makeFeasible_sound (I : SeqInst) (high : ℚ) (J : SeqInst) (sol : List ℚ)
    (hL : 3 ≤ I.L) (hN : 1 ≤ I.g.nodes.length) (hg : C15.Inv I.g) (h00 : I.g.hasArc 0 0 = true)
    (h : I.makeFeasible high = .ok (J, sol)) :
    sol.length = J.vars.length ∧ (∀ v ∈ sol, v = 0 ∨ v = 1) ∧
    ∀ d, J.data = some d → d.feasibleB (vecOf sol) = true := by
  obtain ⟨hGLe, _, hLJ, _, _⟩ := SeqHeur.makeFeasible_frame h
  obtain ⟨st, used, idxs, h1, h2, h3, rfl⟩ := SeqHeur.makeFeasible_ok h
  have hU : ∀ n ∈ SeqHeur.unv0 I, n < I.g.nodes.length := fun n hn => ((SeqHeur.mem_unv0 I n).1 hn).2
  obtain ⟨R, hRV, hg1, hi1, hS1⟩ := SeqHeur.reg_fold_spec (.seq I.strict) I.L (SeqHeur.unv0 I) I.g hg hN hU
    (by omega) I.V st h1
  have hn1 : st.1.nodes.length = I.g.nodes.length := by rw [hg1.nodes]
  obtain ⟨R', hR'V, _, hSJ⟩ := SeqHeur.dummy_fold_spec (.seq I.strict) high I.L (SeqHeur.unv0 I) hL st.2.1
    ({ I with g := st.1 }, st.2.2) (J, used) R hi1 (by rw [hn1]; exact hN)
    (fun n hn => by rw [hn1]; exact hU n (hS1.rest_mem hn)) hRV rfl hS1 h2
  simp only at hR'V hSJ
  have hnodes : J.g.nodes = I.g.nodes := hGLe.nodes
  have hw : C07.Walk J (SeqHeur.wOf R') :=
    walk_of_SInv J (SeqHeur.unv0 I) R' used (by rw [hnodes]; exact hN) (hGLe.mono 0 0 h00) hR'V
      (SeqHeur.unv0_nodup I) (by rw [hnodes]; exact SeqHeur.mem_unv0 I) (by rw [hLJ]; exact hSJ)
  obtain ⟨_, hidx⟩ := SeqHeur.idx_fold J used [] idxs h3
  refine ⟨by simp, ?_, ?_⟩
  · intro v hv
    simp only [List.mem_map, List.mem_range] at hv
    obtain ⟨k, _, rfl⟩ := hv
    split_ifs <;> simp
  · intro d hd
    have hn : d.n = J.vars.length := (seq_data_fields hd).1
    have hvec : ∀ k < J.vars.length,
        vecOf ((List.range J.vars.length).map fun k => if k ∈ idxs then (1 : ℚ) else 0) k =
          if k ∈ idxs then 1 else 0 := by
      intro k hk
      simp [vecOf, List.getD_eq_getElem?_getD, List.getElem?_range hk]
    have hbin : IsBin d.n (vecOf ((List.range J.vars.length).map fun k => if k ∈ idxs then (1 : ℚ) else 0)) := by
      intro k hk
      rw [hvec k (hn ▸ hk)]
      split_ifs <;> simp
    refine (C07.seq_feasible_iff_walks J d hd (by rw [hLJ]; exact hL) (by rw [hnodes]; exact hN) _ hbin).2
      ⟨SeqHeur.wOf R', hw, ?_⟩
    intro k hk
    have hk' : k < J.vars.length := hn ▸ hk
    rw [hvec k hk']
    unfold C07.indicator
    have ht : J.varTuple k = some J.vars[k] := by
      unfold SeqInst.varTuple; exact List.getElem?_eq_getElem hk'
    generalize J.vars[k] = u at ht
    obtain ⟨v, p, n⟩ := u
    rw [ht]
    simp only
    have hmem : (v, p, n) ∈ J.vars := List.mem_of_getElem? (by unfold SeqInst.varTuple at ht; exact ht)
    obtain ⟨hv, hp, _, hfix⟩ := (C18.seq_vars_mem_iff J (v, p, n)).1 hmem
    obtain ⟨hp0, hpL, _, _⟩ := (C18.seq_fixed_none_iff J p n).1 hfix
    simp only at hv hp hp0 hpL
    have hiff : k ∈ idxs ↔ SeqHeur.wOf R' v p = n := by
      rw [hidx k]
      constructor
      · rintro (hk0 | ⟨u, hu, huk⟩)
        · cases hk0
        · have := (C18.seq_index_tuple_inverse J u k).1 huk
          rw [ht] at this
          cases this
          exact ((hSJ.used_iff (v, p, n)).1 hu).2.2.2.symm
      · intro hwn
        right
        refine ⟨(v, p, n), (hSJ.used_iff (v, p, n)).2 ⟨?_, ?_, ?_, hwn.symm⟩,
          (C18.seq_index_tuple_inverse J (v, p, n) k).2 ht⟩
        · simp only; omega
        · simp only; omega
        · simp only; omega
    by_cases hc : k ∈ idxs
    · rw [if_pos hc, if_pos (hiff.1 hc)]
    · rw [if_neg hc, if_neg (fun h' => hc (hiff.2 h'))]

/-- the heuristic only adds arcs and vehicles: nodes, strictness and sequence length are unchanged, vehicles
    and surcharges are extended by the dummy vehicles (one per customer the regular vehicles could not serve) -/
theorem seq_makeFeasible_frame (I : SeqInst) (high : ℚ) (J : SeqInst) (sol : List ℚ)
    (h : I.makeFeasible high = .ok (J, sol)) :
    J.g.nodes = I.g.nodes ∧ J.strict = I.strict ∧ J.L = I.L ∧ I.V ≤ J.V ∧
    J.vcost = I.vcost ++ List.replicate (J.V - I.V) high ∧
    (∀ i j, I.g.hasArc i j = true → J.g.hasArc i j = true) := by
  obtain ⟨hG, h1, h2, h3, h4⟩ := SeqHeur.makeFeasible_frame h
  exact ⟨hG.nodes, h1, h2, h3, h4, hG.mono⟩

/-- **the resulting graph is again self-consistent**: every graph change of the heuristic goes through the
    model's `addArcOrFail` / `ensureExit` (i.e. `gstep`), which preserve `C15.Inv`; no other hypothesis on the
    instance is needed.  This is what allows the soundness theorem to be re-applied to a second invocation. -/
theorem seq_makeFeasible_inv (I : SeqInst) (high : ℚ) (J : SeqInst) (sol : List ℚ)
    (hg : C15.Inv I.g) (h : I.makeFeasible high = .ok (J, sol)) : C15.Inv J.g :=
  SeqHeur.em_makeFeasible_inv hg h

/-- the depot self-arc survives the heuristic (arcs are only added) -/
theorem seq_makeFeasible_selfarc (I : SeqInst) (high : ℚ) (J : SeqInst) (sol : List ℚ)
    (h : I.makeFeasible high = .ok (J, sol)) (h00 : I.g.hasArc 0 0 = true) : J.g.hasArc 0 0 = true :=
  (seq_makeFeasible_frame I high J sol h).2.2.2.2.2 0 0 h00

/-- **a second invocation is sound as well**: the hypotheses of `seq_makeFeasible_sound` are inherited by the
    instance the first invocation returns, so whatever the second invocation returns is again a 0/1 vector of
    the right length satisfying every constraint the final instance reports -/
theorem seq_makeFeasible_twice_sound (I : SeqInst) (h₁ h₂ : ℚ) (J K : SeqInst) (s₁ s₂ : List ℚ)
    (hL : 3 ≤ I.L) (hN : 1 ≤ I.g.nodes.length) (hg : C15.Inv I.g) (h00 : I.g.hasArc 0 0 = true)
    (hIJ : I.makeFeasible h₁ = .ok (J, s₁)) (hJK : J.makeFeasible h₂ = .ok (K, s₂)) :
    s₂.length = K.vars.length ∧ (∀ v ∈ s₂, v = 0 ∨ v = 1) ∧
    ∀ d, K.data = some d → d.feasibleB (vecOf s₂) = true := by
  obtain ⟨hnodes, _, hLJ, _, _, _⟩ := seq_makeFeasible_frame I h₁ J s₁ hIJ
  exact seq_makeFeasible_sound J h₂ K s₂ (by rw [hLJ]; exact hL) (by rw [hnodes]; exact hN)
    (seq_makeFeasible_inv I h₁ J s₁ hg hIJ) (seq_makeFeasible_selfarc I h₁ J s₁ hIJ h00) hJK

/-- corollaries used by the property: QUBO values of the stored solution -/
theorem seq_makeFeasible_qubo (I : SeqInst) (high : ℚ) (J : SeqInst) (sol : List ℚ)
    (hL : 3 ≤ I.L) (hN : 1 ≤ I.g.nodes.length) (hg : C15.Inv I.g) (h00 : I.g.hasArc 0 0 = true)
    (h : I.makeFeasible high = .ok (J, sol)) (d : MPData) (hd : J.data = some d) (rho suff : ℚ) :
    quad d.n (d.quboQ (defaultRho suff true) true) (vecOf sol) + d.quboK (defaultRho suff true) = 0 ∧
    quad d.n (d.quboQ rho false) (vecOf sol) + d.quboK rho = d.objective (vecOf sol) := by
  obtain ⟨hlen, h01, hfeas⟩ := seq_makeFeasible_sound I high J sol hL hN hg h00 h
  have hbin : IsBin d.n (vecOf sol) := by
    intro k hk
    have hk' : k < sol.length := by rw [hlen, ← (seq_data_fields hd).1]; exact hk
    have : vecOf sol k = sol[k] := by simp [vecOf, List.getD_eq_getElem?_getD, List.getElem?_eq_getElem hk']
    rw [this]
    exact h01 _ (List.getElem_mem hk')
  exact ⟨feasible_solution_feasQubo_zero d suff _ hbin (hfeas d hd),
    feasible_solution_optQubo_eq_objective d rho _ hbin (hfeas d hd)⟩

/-! ## non-vacuity -/

/-- constructor on the reachable graph `C15.nv_g` (depot + customers `a`, `b`), ONE vehicle, three positions: the
    regular vehicle can serve only `a`, so the heuristic adds a dummy vehicle for `b` -/
def nv_sI : SeqInst := ((SeqInst.new C15.nv_g false).setMaxVehicles 1).setMaxSeqLen 3

/-- `J, sol` of `I.makeFeasible high = .ok (J, sol)` by evaluation -/
def nv_sJ : SeqInst := (nv_val (nv_sI.makeFeasible 100) (nv_sI, [])).1
def nv_sSol : List ℚ := (nv_val (nv_sI.makeFeasible 100) (nv_sI, [])).2
theorem nv_sI_mf : nv_sI.makeFeasible 100 = .ok (nv_sJ, nv_sSol) := nv_val_eq _ _ (by decide +kernel)

example : nv_sJ.V = 2 ∧ nv_sJ.vcost = [0, 100] ∧ nv_sJ.vars.length = 6 ∧ nv_sSol = [0, 0, 1, 0, 0, 1] := by
  decide +kernel

theorem nv_sI_inv : C15.Inv nv_sI.g := C15.nv_inv_of_invB _ (by decide +kernel)

/-- all hypotheses of `seq_makeFeasible_sound` / `_frame` / `_inv` / `_qubo` hold; conclusion on the instance -/
theorem nv_sI_sound : nv_sSol.length = nv_sJ.vars.length ∧ (∀ v ∈ nv_sSol, v = 0 ∨ v = 1) ∧
    ∀ d, nv_sJ.data = some d → d.feasibleB (vecOf nv_sSol) = true :=
  seq_makeFeasible_sound nv_sI 100 nv_sJ nv_sSol (by decide) (by decide +kernel) nv_sI_inv
  (by decide +kernel) nv_sI_mf

def nv_sJd : MPData := nv_sJ.data.get (by decide +kernel)

example : nv_sJd.feasibleB (vecOf nv_sSol) = true ∧ nv_sJd.objective (vecOf nv_sSol) = 207 :=
  ⟨nv_sI_sound.2.2 _ (Option.some_get _).symm, by decide +kernel⟩

/-- hypotheses of `seq_makeFeasible_twice_sound`: the second reply, by evaluation (no further vehicle is added) -/
def nv_sK : SeqInst := (nv_val (nv_sJ.makeFeasible 50) (nv_sJ, [])).1
def nv_sSol2 : List ℚ := (nv_val (nv_sJ.makeFeasible 50) (nv_sJ, [])).2
theorem nv_sJ_mf : nv_sJ.makeFeasible 50 = .ok (nv_sK, nv_sSol2) := nv_val_eq _ _ (by decide +kernel)

example : nv_sSol2.length = nv_sK.vars.length ∧ (∀ v ∈ nv_sSol2, v = 0 ∨ v = 1) ∧
    ∀ d, nv_sK.data = some d → d.feasibleB (vecOf nv_sSol2) = true :=
  seq_makeFeasible_twice_sound nv_sI 100 50 nv_sJ nv_sK nv_sSol nv_sSol2 (by decide) (by decide +kernel) nv_sI_inv
    (by decide +kernel) nv_sI_mf nv_sJ_mf

example : nv_sK.V = 2 ∧ nv_sSol2 = [0, 0, 1, 0, 0, 1] := by decide +kernel

end Vrp.C09
