import VrpModel.Heuristics
import VrpProofs.Props.C09
import VrpProofs.Props.C06
import VrpProofs.Lemmas.PathHeur

/-!
# C09 (path-based) — the construction heuristic always succeeds and stores a genuine solution
-/
namespace Vrp.C09
open Vrp

/-- documented preconditions of the path-based heuristic: vehicle data set with `0 ≤ init ≤ cap`, depot is
    node 0 with demand 0 and a window that never closes, every customer's demand fits the vehicle and its
    window does not end before the depot opens (no reference to the origin of the time axis: the repaired
    heuristic opens the dummy node's window when the depot opens, not at time 0) -/
structure PathPre (g : Graph) (cap init : ℚ) : Prop where
  hcap : g.cap = some cap
  hinit : g.init = some init
  init0 : 0 ≤ init
  initc : init ≤ cap
  nonempty : 1 ≤ g.nodes.length
  depotDemand : g.demand 0 = 0
  depotHi : g.hi 0 = none
  custDemand : ∀ u, 1 ≤ u → u < g.nodes.length → -cap ≤ g.demand u ∧ g.demand u ≤ cap
  custHi : ∀ u, 1 ≤ u → u < g.nodes.length → leE (g.lo 0) (g.hi u) = true

/-! ## the two folds of the heuristic with named step functions (equal to the model by `rfl`) -/

/-- one iteration of `add_routes_better` -/
def greedyStep (cap init : ℚ) (pick : ℕ → List ℕ → ℕ) (s : PathInst × List ℕ × List (List ℕ) × ℕ) :
    PathInst × List ℕ × List (List ℕ) × ℕ :=
  let gr := genRoute s.1.g cap pick (2 + s.1.g.nodes.length) 0 0 (s.1.g.lo 0) init s.2.1 [0] s.2.2.2
  let a := s.1.addRoute (gr.1.map Stop.idx)
  match a.2 with
  | .ok (true, _) => (a.1, s.2.1.filter (fun n => n = 0 ∨ n ∉ gr.1), s.2.2.1 ++ [gr.1], gr.2)
  | _ => (s.1, s.2.1, s.2.2.1, gr.2)

theorem addRoutesBetter_eq (P : PathInst) (pick : ℕ → List ℕ → ℕ) (c0 : ℕ) (cap init : ℚ)
    (hc : P.g.cap = some cap) (hi : P.g.init = some init) :
    P.addRoutesBetter pick c0 =
      (List.range P.g.estimateMaxVehicles).foldl (fun s _ => greedyStep cap init pick s)
        (P, List.range P.g.nodes.length, [], c0) := by
  unfold PathInst.addRoutesBetter
  simp only [hc, hi]
  rfl

/-- load of the dummy node that brings the vehicle into `[0, cap]` before the customer with demand `d` -/
def dummyLoad (cap init d : ℚ) : ℚ :=
  let loading := init - d
  if loading < 0 then -loading else if cap < loading then cap - loading else 0

def dummyName (g : Graph) (u : ℕ) : String :=
  freshDummy g u (g.nodes.length + 1) ("mf_Dum_" ++ toString u)

def dummyNode (cap init : ℚ) (g : Graph) (u : ℕ) : Node :=
  ⟨dummyName g u, -dummyLoad cap init (g.demand u), g.lo 0, none⟩

/-- the graph after the dummy node was appended -/
def dummyG1 (cap init : ℚ) (g : Graph) (u : ℕ) : Graph :=
  { g with nodes := g.nodes ++ [dummyNode cap init g u] }

/-- … and after the (up to) three arcs were added -/
def dummyG4 (cap init high : ℚ) (g : Graph) (u : ℕ) : Graph :=
  let g1 := dummyG1 cap init g u
  let nm := dummyName g u
  let g2 := gAddArc g1 (nameOf g1 0) nm 0 high
  let g3 := gAddArc g2 nm (nameOf g2 u) 0 high
  if g3.hasArc u 0 then g3 else gAddArc g3 (nameOf g3 u) (nameOf g3 0) 0 0

/-- the body of one dummy step -/
def dummyBody (cap init high : ℚ) (Q : PathInst) (routes : List (List ℕ)) (u : ℕ) :
    Except Err (PathInst × List (List ℕ)) :=
  let newLoad : ℚ := dummyLoad cap init (Q.g.demand u)
  let nm := dummyName Q.g u
  match addNodeStep Q.g nm (-newLoad) (Q.g.lo 0) none with
  | (_, .error e) => .error e
  | (g1, .ok _) =>
  let k := g1.nodes.length - 1
  let g2 := gAddArc g1 (nameOf g1 0) nm 0 high
  let g3 := gAddArc g2 nm (nameOf g2 u) 0 high
  let g4 := if g3.hasArc u 0 then g3 else gAddArc g3 (nameOf g3 u) (nameOf g3 0) 0 0
  let r := [0, k, u, 0]
  let a := ({ Q with g := g4 } : PathInst).addRoute (r.map Stop.idx)
  match a.2 with
  | .ok (true, _) => .ok (a.1, routes ++ [r])
  | .ok (false, _) => .error .assert
  | .error e => .error e

def dummyStep (cap init high : ℚ) (acc : Except Err (PathInst × List (List ℕ))) (u : ℕ) :
    Except Err (PathInst × List (List ℕ)) :=
  match acc with
  | .error e => .error e
  | .ok (Q, routes) => dummyBody cap init high Q routes u

theorem makeFeasible_eq (P : PathInst) (high : ℚ) (pick : ℕ → List ℕ → ℕ) (cap init : ℚ)
    (hc : P.g.cap = some cap) (hi : P.g.init = some init) :
    P.makeFeasible high pick =
      match ((P.addRoutesBetter pick 0).2.1.filter (· ≠ 0)).foldl (dummyStep cap init high)
          (.ok ((P.addRoutesBetter pick 0).1, (P.addRoutesBetter pick 0).2.2.1)) with
      | .error e => .error e
      | .ok (Q, routes) => .ok (Q, solOf Q routes) := by
  unfold PathInst.makeFeasible
  simp only [hc, hi]
  rfl

theorem makeFeasible_unset (P : PathInst) (high : ℚ) (pick : ℕ → List ℕ → ℕ)
    (h : P.g.cap = none ∨ P.g.init = none) : P.makeFeasible high pick = .error .type := by
  unfold PathInst.makeFeasible
  rcases h with h | h
  · simp only [h]
  · cases hc : P.g.cap <;> simp only [h]

/-! ## greedy phase -/

/-- what the greedy phase keeps for ANY sampler -/
structure GInv0 (P : PathInst) (s : PathInst × List ℕ × List (List ℕ) × ℕ) : Prop where
  graph : s.1.g = P.g
  pool : C06.PoolInv s.1
  ubound : ∀ u ∈ s.2.1, u < P.g.nodes.length

/-- … and for a sampler that picks among the candidates -/
structure GInv (P : PathInst) (s : PathInst × List ℕ × List (List ℕ) × ℕ) : Prop where
  graph : s.1.g = P.g
  pool : C06.PoolInv s.1
  sub : ∀ r ∈ s.2.2.1, r ∈ s.1.routes
  cov : Cov P.g.nodes.length s.2.1 s.2.2.1

theorem greedyStep_inv0 (P : PathInst) (hg : C15.Inv P.g) (cap init : ℚ) (pick : ℕ → List ℕ → ℕ)
    (s : PathInst × List ℕ × List (List ℕ) × ℕ) (h : GInv0 P s) : GInv0 P (greedyStep cap init pick s) := by
  obtain ⟨Q, unv, routes, c⟩ := s
  obtain ⟨h1, h2, h3⟩ := h
  simp only at h1 h2 h3
  have hgQ : C15.Inv Q.g := by rw [h1]; exact hg
  unfold greedyStep
  simp only
  split
  · rename_i x heq
    obtain ⟨f1, f2, _, _⟩ := addRoute_feas_facts Q hgQ h2 _ x heq
    exact ⟨f2.trans h1, f1, fun u hu => h3 u (List.mem_of_mem_filter hu)⟩
  · exact ⟨h1, h2, h3⟩

theorem greedyStep_inv (P : PathInst) (hg : C15.Inv P.g) (cap init : ℚ) (pick : ℕ → List ℕ → ℕ)
    (hpick : ∀ c l, l ≠ [] → pick c l ∈ l)
    (s : PathInst × List ℕ × List (List ℕ) × ℕ) (h : GInv P s) : GInv P (greedyStep cap init pick s) := by
  obtain ⟨Q, unv, routes, c⟩ := s
  obtain ⟨h1, h2, h3, h4⟩ := h
  simp only at h1 h2 h3 h4
  have hgQ : C15.Inv Q.g := by rw [h1]; exact hg
  have hmem := genRoute_mem Q.g cap pick hpick unv (2 + Q.g.nodes.length) 0 0 (Q.g.lo 0) init [0] c (by simp)
  unfold greedyStep
  simp only
  split
  · rename_i x heq
    obtain ⟨f1, f2, f3, f4⟩ := addRoute_feas_facts Q hgQ h2 _ x heq
    refine ⟨f2.trans h1, f1, ?_, ?_⟩
    · intro r hr
      rcases List.mem_append.1 hr with hr | hr
      · exact f4 r (h3 r hr)
      · rw [List.mem_singleton.1 hr]; exact f3
    · refine h4.greedy _ hmem ?_
      intro k hk
      have := PoolInv.mem_bound f1 f3 k hk
      rw [f2, h1] at this
      exact this
  · exact ⟨h1, h2, h3, h4⟩

theorem addRoutesBetter_inv0 (P : PathInst) (hg : C15.Inv P.g) (hp : C06.PoolInv P) (pick : ℕ → List ℕ → ℕ)
    (c0 : ℕ) : GInv0 P (P.addRoutesBetter pick c0) := by
  have hinit : GInv0 P (P, List.range P.g.nodes.length, [], c0) :=
    ⟨rfl, hp, fun u hu => List.mem_range.1 hu⟩
  cases hc : P.g.cap with
  | none => unfold PathInst.addRoutesBetter; simp only [hc]; exact hinit
  | some cap =>
    cases hi : P.g.init with
    | none => unfold PathInst.addRoutesBetter; simp only [hc, hi]; exact hinit
    | some init =>
      rw [addRoutesBetter_eq P pick c0 cap init hc hi]
      exact foldl_inv (GInv0 P) _ _ (fun s hs _ _ => greedyStep_inv0 P hg cap init pick s hs) _ hinit

theorem addRoutesBetter_inv (P : PathInst) (hg : C15.Inv P.g) (hp : C06.PoolInv P) (pick : ℕ → List ℕ → ℕ)
    (hpick : ∀ c l, l ≠ [] → pick c l ∈ l) (c0 : ℕ) : GInv P (P.addRoutesBetter pick c0) := by
  have hinit : GInv P (P, List.range P.g.nodes.length, [], c0) :=
    ⟨rfl, hp, by simp, cov_init _⟩
  cases hc : P.g.cap with
  | none => unfold PathInst.addRoutesBetter; simp only [hc]; exact hinit
  | some cap =>
    cases hi : P.g.init with
    | none => unfold PathInst.addRoutesBetter; simp only [hc, hi]; exact hinit
    | some init =>
      rw [addRoutesBetter_eq P pick c0 cap init hc hi]
      exact foldl_inv (GInv P) _ _ (fun s hs _ _ => greedyStep_inv P hg cap init pick hpick s hs) _ hinit

/-! ## dummy phase: the graph of one step -/

theorem dummyName_fresh (g : Graph) (u : ℕ) : dummyName g u ∉ g.names :=
  freshDummy_fresh g u _ _ (by rw [g.names_length]; omega)

theorem addNodeStep_dummy (cap init : ℚ) (g : Graph) (u : ℕ) :
    addNodeStep g (dummyName g u) (-dummyLoad cap init (g.demand u)) (g.lo 0) none =
      (dummyG1 cap init g u, .ok none) := by
  unfold addNodeStep
  rw [if_neg (dummyName_fresh g u)]
  have : ltE none (g.lo 0) = false := rfl
  simp only [this]
  rfl

theorem dummyG1_nodes (cap init : ℚ) (g : Graph) (u : ℕ) :
    (dummyG1 cap init g u).nodes = g.nodes ++ [dummyNode cap init g u] := rfl

theorem dummyG1_inv (cap init : ℚ) (g : Graph) (u : ℕ) (hg : C15.Inv g) : C15.Inv (dummyG1 cap init g u) := by
  have := C15.addNodeStep_inv g (dummyName g u) (-dummyLoad cap init (g.demand u)) (g.lo 0) none hg
  rw [addNodeStep_dummy] at this
  exact this

theorem dummyG4_nodes (cap init high : ℚ) (g : Graph) (u : ℕ) :
    (dummyG4 cap init high g u).nodes = g.nodes ++ [dummyNode cap init g u] := by
  unfold dummyG4
  simp only
  split_ifs <;> simp only [gAddArc_nodes, dummyG1_nodes]

theorem dummyG4_cap (cap init high : ℚ) (g : Graph) (u : ℕ) : (dummyG4 cap init high g u).cap = g.cap := by
  unfold dummyG4
  simp only
  split_ifs <;> simp only [gAddArc_cap] <;> rfl

theorem dummyG4_init (cap init high : ℚ) (g : Graph) (u : ℕ) : (dummyG4 cap init high g u).init = g.init := by
  unfold dummyG4
  simp only
  split_ifs <;> simp only [gAddArc_init] <;> rfl

theorem dummyG4_inv (cap init high : ℚ) (g : Graph) (u : ℕ) (hg : C15.Inv g) :
    C15.Inv (dummyG4 cap init high g u) := by
  have h1 := dummyG1_inv cap init g u hg
  unfold dummyG4
  simp only
  split_ifs
  · exact gAddArc_inv _ _ _ _ _ (gAddArc_inv _ _ _ _ _ h1)
  · exact gAddArc_inv _ _ _ _ _ (gAddArc_inv _ _ _ _ _ (gAddArc_inv _ _ _ _ _ h1))

theorem dummyG4_length (cap init high : ℚ) (g : Graph) (u : ℕ) :
    (dummyG4 cap init high g u).nodes.length = g.nodes.length + 1 := by
  rw [dummyG4_nodes]; simp

/-- the dummy step always gets its node; what remains is the verdict of `add_route` on `[0, k, u, 0]` -/
theorem dummyBody_eq (cap init high : ℚ) (Q : PathInst) (routes : List (List ℕ)) (u : ℕ) :
    dummyBody cap init high Q routes u =
      match (({ Q with g := dummyG4 cap init high Q.g u } : PathInst).addRoute
          ([0, Q.g.nodes.length, u, 0].map Stop.idx)).2 with
      | .ok (true, _) =>
        .ok ((({ Q with g := dummyG4 cap init high Q.g u } : PathInst).addRoute
          ([0, Q.g.nodes.length, u, 0].map Stop.idx)).1, routes ++ [[0, Q.g.nodes.length, u, 0]])
      | .ok (false, _) => .error .assert
      | .error e => .error e := by
  unfold dummyBody
  simp only [addNodeStep_dummy]
  have hk : (dummyG1 cap init Q.g u).nodes.length - 1 = Q.g.nodes.length := by
    rw [dummyG1_nodes]; simp
  rw [hk]
  rfl

/-- facts about a dummy step that returns normally -/
theorem dummyBody_ok (cap init high : ℚ) (Q : PathInst) (routes : List (List ℕ)) (u : ℕ)
    (Q' : PathInst) (routes' : List (List ℕ)) (hg : C15.Inv Q.g) (hp : C06.PoolInv Q)
    (h : dummyBody cap init high Q routes u = .ok (Q', routes')) :
    Q'.g = dummyG4 cap init high Q.g u ∧ C15.Inv Q'.g ∧ C06.PoolInv Q' ∧
    routes' = routes ++ [[0, Q.g.nodes.length, u, 0]] ∧
    [0, Q.g.nodes.length, u, 0] ∈ Q'.routes ∧ ∀ r ∈ Q.routes, r ∈ Q'.routes := by
  rw [dummyBody_eq] at h
  have hp' : C06.PoolInv ({ Q with g := dummyG4 cap init high Q.g u } : PathInst) :=
    poolInv_graph Q _ hp (by rw [dummyG4_length]; omega)
  have hg' : C15.Inv ({ Q with g := dummyG4 cap init high Q.g u } : PathInst).g :=
    dummyG4_inv cap init high Q.g u hg
  split at h
  · rename_i x heq
    obtain ⟨f1, f2, f3, f4⟩ := addRoute_feas_facts _ hg' hp' _ x heq
    simp only [Except.ok.injEq, Prod.mk.injEq] at h
    obtain ⟨rfl, rfl⟩ := h
    exact ⟨f2, by rw [f2]; exact hg', f1, rfl, f3, f4⟩
  · cases h
  · cases h

/-! ## soundness -/

theorem dummyFold_error (cap init high : ℚ) (e : Err) (l : List ℕ) :
    l.foldl (dummyStep cap init high) (.error e) = .error e := by
  induction l with
  | nil => rfl
  | cons u rest ih => rw [List.foldl_cons]; exact ih

theorem dummyFold_sound (cap init high : ℚ) : ∀ (l : List ℕ) (Q : PathInst) (routes : List (List ℕ))
    (Q' : PathInst) (routes' : List (List ℕ)), C15.Inv Q.g → C06.PoolInv Q → (∀ r ∈ routes, r ∈ Q.routes) →
    Cov Q.g.nodes.length l routes → (∀ u ∈ l, u ≠ 0) →
    l.foldl (dummyStep cap init high) (.ok (Q, routes)) = .ok (Q', routes') →
    C15.Inv Q'.g ∧ C06.PoolInv Q' ∧ (∀ r ∈ routes', r ∈ Q'.routes) ∧ Cov Q'.g.nodes.length [] routes' := by
  intro l
  induction l with
  | nil =>
    intro Q routes Q' routes' hg hp hsub hcov _ h
    simp only [List.foldl_nil, Except.ok.injEq, Prod.mk.injEq] at h
    obtain ⟨rfl, rfl⟩ := h
    exact ⟨hg, hp, hsub, hcov⟩
  | cons u rest ih =>
    intro Q routes Q' routes' hg hp hsub hcov hne h
    rw [List.foldl_cons] at h
    have hstep : dummyStep cap init high (.ok (Q, routes)) u = dummyBody cap init high Q routes u := rfl
    rw [hstep] at h
    cases hb : dummyBody cap init high Q routes u with
    | error e => rw [hb, dummyFold_error] at h; cases h
    | ok p =>
      obtain ⟨Q1, routes1⟩ := p
      rw [hb] at h
      obtain ⟨e1, e2, e3, e4, e5, e6⟩ := dummyBody_ok cap init high Q routes u Q1 routes1 hg hp hb
      refine ih Q1 routes1 Q' routes' e2 e3 ?_ ?_ (fun v hv => hne v (List.mem_cons_of_mem _ hv)) h
      · intro r hr
        rw [e4] at hr
        rcases List.mem_append.1 hr with hr | hr
        · exact e6 r (hsub r hr)
        · rw [List.mem_singleton.1 hr]; exact e5
      · rw [e1, dummyG4_length, e4]
        exact hcov.dummy (hne u List.mem_cons_self)

/-! ## statements -/

/-- **soundness**: whenever the path-based heuristic returns normally (for ANY behaviour of the route
    sampler that picks one of the offered candidates, modelled by the choice function `pick`), the stored
    vector has one entry per stored route of the resulting pool, is 0/1, and satisfies the exact-cover
    constraints of the resulting instance (every non-depot node of the *resulting* node list — dummy nodes
    included — is covered exactly once).

    Changed with respect to the first draft: the hypothesis `hpick` (the sampler returns one of the candidates
    it is offered) is added.  Without it the statement is false for the MODEL: `genRoute` walks on whenever
    the arc to the picked node is feasible, also if that node is not in the unvisited list any more, so a
    second generated route can re-visit a customer an earlier accepted route covers —
    see `path_makeFeasible_unsound_without_hpick` below. -/
theorem path_makeFeasible_sound (P : PathInst) (high : ℚ) (pick : ℕ → List ℕ → ℕ) (Q : PathInst) (sol : List ℚ)
    (hpick : ∀ c l, l ≠ [] → pick c l ∈ l)
    (hg : C15.Inv P.g) (hp : C06.PoolInv P) (h : P.makeFeasible high pick = .ok (Q, sol)) :
    sol.length = Q.data.n ∧ (∀ v ∈ sol, v = 0 ∨ v = 1) ∧ Q.data.feasibleB (vecOf sol) = true ∧
    C06.PoolInv Q ∧ C15.Inv Q.g := by
  cases hc : P.g.cap with
  | none => rw [makeFeasible_unset P high pick (Or.inl hc)] at h; cases h
  | some cap =>
    cases hi : P.g.init with
    | none => rw [makeFeasible_unset P high pick (Or.inr hi)] at h; cases h
    | some init =>
      rw [makeFeasible_eq P high pick cap init hc hi] at h
      obtain ⟨g1, g2, g3, g4⟩ := addRoutesBetter_inv P hg hp pick hpick 0
      split at h
      · cases h
      · rename_i Q1 routes1 heq
        simp only [Except.ok.injEq, Prod.mk.injEq] at h
        obtain ⟨rfl, rfl⟩ := h
        have hcov : Cov (P.addRoutesBetter pick 0).1.g.nodes.length
            ((P.addRoutesBetter pick 0).2.1.filter (· ≠ 0)) (P.addRoutesBetter pick 0).2.2.1 := by
          rw [g1]; exact g4.dropZero
        obtain ⟨r1, r2, r3, r4⟩ := dummyFold_sound cap init high _ _ _ Q1 routes1 (by rw [g1]; exact hg) g2 g3
          hcov (fun u hu => by simpa using (List.mem_filter.1 hu).2) heq
        exact ⟨solOf_length Q1 routes1, solOf_bin Q1 routes1, solOf_feasible Q1 r2 routes1 r3 r4, r2, r1⟩

/-! ## totality: the dummy route is always admitted -/

theorem dummyLoad_bounds (cap init d : ℚ) (h0 : 0 ≤ init) (hc : init ≤ cap) (hd1 : -cap ≤ d) (hd2 : d ≤ cap) :
    0 ≤ init + dummyLoad cap init d ∧ init + dummyLoad cap init d ≤ cap ∧
    0 ≤ init + dummyLoad cap init d - d ∧ init + dummyLoad cap init d - d ≤ cap ∧
    -cap ≤ -dummyLoad cap init d ∧ -dummyLoad cap init d ≤ cap := by
  unfold dummyLoad
  simp only
  split_ifs with h1 h2 <;> refine ⟨?_, ?_, ?_, ?_, ?_, ?_⟩ <;> linarith

theorem inv_window (g : Graph) (hg : C15.Inv g) (u : ℕ) (hu : u < g.nodes.length) :
    leE (g.lo u) (g.hi u) = true := by
  have := hg.nodesOk g.nodes[u] (List.getElem_mem hu)
  simpa [Graph.lo, Graph.hi, List.getElem?_eq_getElem hu] using this

/-- the three arcs of the dummy route are stored after the `add_arc` calls -/
theorem arcs_chain (g1 g2 g3 g4 : Graph) (nm : String) (high : ℚ) (N u : ℕ) (hinv1 : C15.Inv g1)
    (hlen : g1.nodes.length = N + 1) (hu1 : 1 ≤ u) (hu : u < N) (iN : g1.indexOf? nm = some N)
    (hhiN : g1.hi N = none) (hloN : g1.lo N = g1.lo 0) (hhi0 : g1.hi 0 = none)
    (hhiu : leE (g1.lo 0) (g1.hi u) = true)
    (e2 : g2 = gAddArc g1 (nameOf g1 0) nm 0 high) (e3 : g3 = gAddArc g2 nm (nameOf g2 u) 0 high)
    (e4 : g4 = if g3.hasArc u 0 then g3 else gAddArc g3 (nameOf g3 u) (nameOf g3 0) 0 0) :
    ∃ a1 a2 a3, g4.arc? 0 N = some a1 ∧ a1.time = 0 ∧ g4.arc? N u = some a2 ∧ a2.time = 0 ∧
      g4.arc? u 0 = some a3 := by
  have i0 : g1.indexOf? (nameOf g1 0) = some 0 := indexOf?_nameOf g1 hinv1.nodup 0 (by omega)
  have t1 : leE (g1.lo 0 + 0) (g1.hi N) = true := by rw [hhiN]; rfl
  have h2n : g2.nodes = g1.nodes := by rw [e2]; exact gAddArc_nodes _ _ _ _ _
  have a2_0N : g2.arc? 0 N = some ⟨nameOf g1 0, nm, 0, high⟩ := by
    rw [e2]; exact gAddArc_arc?_self i0 iN t1
  have hinv2 : C15.Inv g2 := by rw [e2]; exact gAddArc_inv _ _ _ _ _ hinv1
  have iN2 : g2.indexOf? nm = some N := by rw [Graph.indexOf?_congr h2n]; exact iN
  have iu2 : g2.indexOf? (nameOf g2 u) = some u :=
    indexOf?_nameOf g2 hinv2.nodup u (by rw [h2n, hlen]; omega)
  have t2 : leE (g2.lo N + 0) (g2.hi u) = true := by
    rw [Graph.lo_congr h2n, Graph.hi_congr h2n, hloN]; simpa using hhiu
  have h3n : g3.nodes = g1.nodes := by rw [e3, gAddArc_nodes]; exact h2n
  have a3_Nu : g3.arc? N u = some ⟨nm, nameOf g2 u, 0, high⟩ := by
    rw [e3]; exact gAddArc_arc?_self iN2 iu2 t2
  have a3_0N : g3.arc? 0 N = some ⟨nameOf g1 0, nm, 0, high⟩ := by
    rw [e3, gAddArc_arc?_ne iN2 iu2 (by simp only [ne_eq, Prod.mk.injEq, not_and]; omega)]; exact a2_0N
  have hinv3 : C15.Inv g3 := by rw [e3]; exact gAddArc_inv _ _ _ _ _ hinv2
  rw [e4]
  by_cases hh : g3.hasArc u 0 = true
  · rw [if_pos hh]
    obtain ⟨a, ha⟩ := hasArc_arc? hh
    exact ⟨⟨nameOf g1 0, nm, 0, high⟩, ⟨nm, nameOf g2 u, 0, high⟩, a, a3_0N, rfl, a3_Nu, rfl, ha⟩
  · rw [if_neg hh]
    have iu3 : g3.indexOf? (nameOf g3 u) = some u :=
      indexOf?_nameOf g3 hinv3.nodup u (by rw [h3n, hlen]; omega)
    have i03 : g3.indexOf? (nameOf g3 0) = some 0 :=
      indexOf?_nameOf g3 hinv3.nodup 0 (by rw [h3n, hlen]; omega)
    have t3 : leE (g3.lo u + 0) (g3.hi 0) = true := by rw [Graph.hi_congr h3n, hhi0]; rfl
    refine ⟨⟨nameOf g1 0, nm, 0, high⟩, ⟨nm, nameOf g2 u, 0, high⟩, _, ?_, rfl, ?_, rfl,
      gAddArc_arc?_self iu3 i03 t3⟩
    · rw [gAddArc_arc?_ne iu3 i03 (by simp only [ne_eq, Prod.mk.injEq, not_and]; omega)]; exact a3_0N
    · rw [gAddArc_arc?_ne iu3 i03 (by simp only [ne_eq, Prod.mk.injEq, not_and]; omega)]; exact a3_Nu

theorem follow_step {g : Graph} {cap : ℚ} {cur j : ℕ} {rest : List ℕ} {time load cost : ℚ} {a : Arc}
    (ha : g.arc? cur j = some a) (ht : leE (maxR (time + a.time) (g.lo j)) (g.hi j) = true)
    (hl1 : load - g.demand j ≤ cap) (hl0 : 0 ≤ load - g.demand j) :
    C06.follow g cap cur (j :: rest) time load cost =
      C06.follow g cap j rest (maxR (time + a.time) (g.lo j)) (load - g.demand j) (cost + a.cost) := by
  rw [C06.follow]
  simp only [ha]
  rw [if_neg (by simp [ltE, ht]), if_neg (by push Not; exact ⟨hl1, hl0⟩)]

/-- the route depot → dummy → customer → depot is a VRPTW route once the three arcs are there -/
theorem dummy_valid (G : Graph) (cap init : ℚ) (N u : ℕ) (L : ℚ) (a1 a2 a3 : Arc) (hu1 : 1 ≤ u) (hu : u < N)
    (h1 : G.arc? 0 N = some a1) (ht1 : a1.time = 0) (h2 : G.arc? N u = some a2) (ht2 : a2.time = 0)
    (h3 : G.arc? u 0 = some a3) (hloN : G.lo N = G.lo 0) (hhiN : G.hi N = none) (hdN : G.demand N = -L)
    (hwu : leE (G.lo u) (G.hi u) = true) (h0u : leE (G.lo 0) (G.hi u) = true) (hhi0 : G.hi 0 = none)
    (hd0 : G.demand 0 = 0) (b1 : 0 ≤ init + L) (b2 : init + L ≤ cap) (b3 : 0 ≤ init + L - G.demand u)
    (b4 : init + L - G.demand u ≤ cap) : C06.ValidRoute G cap init [0, N, u, 0] := by
  refine ⟨by simp, rfl, rfl, ?_, ?_⟩
  · have : [0, N, u, 0].dropLast = [0, N, u] := rfl
    rw [this]
    simp only [List.nodup_cons, List.mem_cons, List.not_mem_nil, or_false, not_or, List.nodup_nil, and_true,
      not_false_eq_true]
    omega
  · show (C06.follow G cap 0 [N, u, 0] (G.lo 0) init 0).isSome = true
    have e1 : maxR (G.lo 0 + a1.time) (G.lo N) = G.lo 0 := by rw [ht1, hloN]; simp [maxR]
    rw [follow_step h1 (by rw [hhiN]; rfl) (by rw [hdN]; linarith) (by rw [hdN]; linarith), e1]
    have e2 : leE (maxR (G.lo 0 + a2.time) (G.lo u)) (G.hi u) = true := by
      rw [ht2]
      unfold maxR
      split_ifs
      · exact hwu
      · simpa using h0u
    rw [follow_step h2 e2 (by rw [hdN]; linarith) (by rw [hdN]; linarith)]
    rw [follow_step h3 (by rw [hhi0]; rfl) (by rw [hdN, hd0]; linarith) (by rw [hdN, hd0]; linarith)]
    simp [C06.follow]

theorem dummyG4_valid (cap init high : ℚ) (g : Graph) (u : ℕ) (hg : C15.Inv g) (hpre : PathPre g cap init)
    (hu1 : 1 ≤ u) (hu : u < g.nodes.length) :
    C06.ValidRoute (dummyG4 cap init high g u) cap init [0, g.nodes.length, u, 0] := by
  have h1n := dummyG1_nodes cap init g u
  have h4n := dummyG4_nodes cap init high g u
  have hN := hpre.nonempty
  obtain ⟨a1, a2, a3, x1, x2, x3, x4, x5⟩ :=
    arcs_chain (dummyG1 cap init g u) _ _ (dummyG4 cap init high g u) (dummyName g u) high g.nodes.length u
      (dummyG1_inv cap init g u hg) (by rw [h1n]; simp) hu1 hu
      (Graph.indexOf?_append_new h1n (dummyName_fresh g u)) (Graph.hi_append_new h1n)
      (by rw [Graph.lo_append_new h1n, Graph.lo_append_old h1n (by omega)]; rfl)
      (by rw [Graph.hi_append_old h1n (by omega)]; exact hpre.depotHi)
      (by rw [Graph.hi_append_old h1n hu, Graph.lo_append_old h1n (by omega)]; exact hpre.custHi u hu1 hu)
      rfl rfl rfl
  obtain ⟨d1, d2⟩ := hpre.custDemand u hu1 hu
  obtain ⟨b1, b2, b3, b4, _, _⟩ := dummyLoad_bounds cap init (g.demand u) hpre.init0 hpre.initc d1 d2
  refine dummy_valid _ cap init _ u (dummyLoad cap init (g.demand u)) a1 a2 a3 hu1 hu x1 x2 x3 x4 x5
    (by rw [Graph.lo_append_new h4n, Graph.lo_append_old h4n (by omega)]; rfl)
    (Graph.hi_append_new h4n) (Graph.demand_append_new h4n) ?_ ?_ ?_ ?_ b1 b2 ?_ ?_
  · rw [Graph.lo_append_old h4n hu, Graph.hi_append_old h4n hu]; exact inv_window g hg u hu
  · rw [Graph.hi_append_old h4n hu, Graph.lo_append_old h4n (by omega)]; exact hpre.custHi u hu1 hu
  · rw [Graph.hi_append_old h4n (by omega)]; exact hpre.depotHi
  · rw [Graph.demand_append_old h4n (by omega)]; exact hpre.depotDemand
  · rw [Graph.demand_append_old h4n hu]; exact b3
  · rw [Graph.demand_append_old h4n hu]; exact b4

/-- the documented preconditions survive a dummy step -/
theorem pathPre_dummy (cap init high : ℚ) (g : Graph) (u : ℕ) (hpre : PathPre g cap init)
    (hu1 : 1 ≤ u) (hu : u < g.nodes.length) : PathPre (dummyG4 cap init high g u) cap init := by
  have h4n := dummyG4_nodes cap init high g u
  have hN := hpre.nonempty
  obtain ⟨d1, d2⟩ := hpre.custDemand u hu1 hu
  obtain ⟨_, _, _, _, b5, b6⟩ := dummyLoad_bounds cap init (g.demand u) hpre.init0 hpre.initc d1 d2
  refine ⟨by rw [dummyG4_cap]; exact hpre.hcap, by rw [dummyG4_init]; exact hpre.hinit, hpre.init0, hpre.initc,
    by rw [dummyG4_length]; omega, ?_, ?_, ?_, ?_⟩
  · rw [Graph.demand_append_old h4n (by omega)]; exact hpre.depotDemand
  · rw [Graph.hi_append_old h4n (by omega)]; exact hpre.depotHi
  · intro v hv1 hv
    rw [dummyG4_length] at hv
    by_cases hvN : v = g.nodes.length
    · rw [hvN, Graph.demand_append_new h4n]; exact ⟨b5, b6⟩
    · rw [Graph.demand_append_old h4n (by omega)]; exact hpre.custDemand v hv1 (by omega)
  · intro v hv1 hv
    rw [dummyG4_length] at hv
    by_cases hvN : v = g.nodes.length
    · rw [hvN, Graph.hi_append_new h4n]; rfl
    · rw [Graph.hi_append_old h4n (by omega), Graph.lo_append_old h4n (by omega)]
      exact hpre.custHi v hv1 (by omega)

/-- under the preconditions a dummy step returns normally -/
theorem dummyBody_total (cap init high : ℚ) (Q : PathInst) (routes : List (List ℕ)) (u : ℕ)
    (hg : C15.Inv Q.g) (hpre : PathPre Q.g cap init) (hu1 : 1 ≤ u) (hu : u < Q.g.nodes.length) :
    ∃ Q' routes', dummyBody cap init high Q routes u = .ok (Q', routes') := by
  rw [dummyBody_eq]
  have hv := dummyG4_valid cap init high Q.g u hg hpre hu1 hu
  obtain ⟨rc, hcr, hfe⟩ := C06.checkRoute_idx_iff_valid (dummyG4 cap init high Q.g u) cap init
    (by rw [dummyG4_cap]; exact hpre.hcap) (by rw [dummyG4_init]; exact hpre.hinit) [0, Q.g.nodes.length, u, 0]
  have hf : rc.feas = true := hfe.2 hv
  by_cases hcond : rc.feas = true ∧
      resolveAll (dummyG4 cap init high Q.g u) ([0, Q.g.nodes.length, u, 0].map Stop.idx) ∉ Q.routes
  · rw [C06.addRoute_accept ({ Q with g := dummyG4 cap init high Q.g u } : PathInst) _ rc hcr hcond]
    exact ⟨_, _, rfl⟩
  · rw [C06.addRoute_reject ({ Q with g := dummyG4 cap init high Q.g u } : PathInst) _ rc hcr hcond, hf]
    exact ⟨_, _, rfl⟩

theorem dummyFold_total (cap init high : ℚ) : ∀ (l : List ℕ) (Q : PathInst) (routes : List (List ℕ)),
    C15.Inv Q.g → C06.PoolInv Q → PathPre Q.g cap init → (∀ u ∈ l, 1 ≤ u ∧ u < Q.g.nodes.length) →
    ∃ Q' routes', l.foldl (dummyStep cap init high) (.ok (Q, routes)) = .ok (Q', routes') := by
  intro l
  induction l with
  | nil => intro Q routes _ _ _ _; exact ⟨Q, routes, rfl⟩
  | cons u rest ih =>
    intro Q routes hg hp hpre hb
    obtain ⟨hu1, hu⟩ := hb u List.mem_cons_self
    obtain ⟨Q1, routes1, h1⟩ := dummyBody_total cap init high Q routes u hg hpre hu1 hu
    obtain ⟨e1, e2, e3, _, _, _⟩ := dummyBody_ok cap init high Q routes u Q1 routes1 hg hp h1
    have hstep : dummyStep cap init high (.ok (Q, routes)) u = dummyBody cap init high Q routes u := rfl
    rw [List.foldl_cons, hstep, h1]
    refine ih Q1 routes1 e2 e3 (by rw [e1]; exact pathPre_dummy cap init high Q.g u hpre hu1 hu) ?_
    intro v hv
    obtain ⟨hv1, hv2⟩ := hb v (List.mem_cons_of_mem _ hv)
    rw [e1, dummyG4_length]
    exact ⟨hv1, by omega⟩

/-- **totality**: under the documented preconditions the heuristic never raises, whatever the route pool and
    whatever the sampler chooses (the dummy route through each unserved customer is always admitted) -/
theorem path_makeFeasible_total (P : PathInst) (high : ℚ) (pick : ℕ → List ℕ → ℕ) (cap init : ℚ)
    (hg : C15.Inv P.g) (hp : C06.PoolInv P) (hpre : PathPre P.g cap init) :
    ∃ Q sol, P.makeFeasible high pick = .ok (Q, sol) := by
  rw [makeFeasible_eq P high pick cap init hpre.hcap hpre.hinit]
  obtain ⟨g1, g2, g3⟩ := addRoutesBetter_inv0 P hg hp pick 0
  obtain ⟨Q', routes', hfold⟩ := dummyFold_total cap init high
    ((P.addRoutesBetter pick 0).2.1.filter (· ≠ 0)) (P.addRoutesBetter pick 0).1
    (P.addRoutesBetter pick 0).2.2.1 (by rw [g1]; exact hg) g2 (by rw [g1]; exact hpre)
    (fun u hu => by
      obtain ⟨hu1, hu2⟩ := List.mem_filter.1 hu
      have hu2' : u ≠ 0 := by simpa using hu2
      rw [g1]
      exact ⟨by omega, g3 u hu1⟩)
  rw [hfold]
  exact ⟨_, _, rfl⟩

/-! ## why soundness needs `hpick` -/

/-- depot `D` and customers `a`, `b` (demand 1, windows `[0, ∞)`), arcs `D→a`, `a→D`, `D→b`, `b→D`, `a→b` -/
def cexG : Graph :=
  { nodes := [⟨"D", 0, 0, none⟩, ⟨"a", 1, 0, none⟩, ⟨"b", 1, 0, none⟩]
    arcs := [((0,1), ⟨"D","a",1,1⟩), ((1,0), ⟨"a","D",1,1⟩), ((0,2), ⟨"D","b",1,1⟩), ((2,0), ⟨"b","D",1,1⟩),
             ((1,2), ⟨"a","b",1,1⟩)]
    cap := some 10
    init := some 10 }

/-- first route `D a D` (legitimate picks); in the second walk the sampler answers `a` although only `b` is
    offered, then `b`, then `D`: the route `D a b D` is feasible and accepted, so `a` is covered twice -/
def cexPick (c : ℕ) (_ : List ℕ) : ℕ := match c with | 0 => 1 | 1 => 0 | 2 => 1 | 3 => 2 | _ => 0

def cexBad : Bool :=
  match ({ g := cexG } : PathInst).makeFeasible 100 cexPick with
  | .ok (Q, sol) => !Q.data.feasibleB (vecOf sol)
  | .error _ => false

theorem cexG_inv : C15.Inv cexG := by
  have h := C15.grun_inv .base [.addNode "D" 0 0 none, .addNode "a" 1 0 none, .addNode "b" 1 0 none,
    .addArc "D" "a" 1 1, .addArc "a" "D" 1 1, .addArc "D" "b" 1 1, .addArc "b" "D" 1 1, .addArc "a" "b" 1 1]
  have hn : cexG.nodes = (grun .base {} [.addNode "D" 0 0 none, .addNode "a" 1 0 none, .addNode "b" 1 0 none,
    .addArc "D" "a" 1 1, .addArc "a" "D" 1 1, .addArc "D" "b" 1 1, .addArc "b" "D" 1 1,
    .addArc "a" "b" 1 1]).nodes := by decide +kernel
  have ha : cexG.arcs = (grun .base {} [.addNode "D" 0 0 none, .addNode "a" 1 0 none, .addNode "b" 1 0 none,
    .addArc "D" "a" 1 1, .addArc "a" "D" 1 1, .addArc "D" "b" 1 1, .addArc "b" "D" 1 1,
    .addArc "a" "b" 1 1]).arcs := by decide +kernel
  exact ⟨by unfold Graph.names; rw [hn]; exact h.nodup, by rw [hn]; exact h.nodesOk,
    by rw [ha]; exact h.keysNodup, by rw [ha, hn]; exact h.filed⟩

/-- without `hpick` the soundness statement fails on the model: a consistent instance on which the heuristic
    returns normally and stores a vector that violates the exact-cover constraints -/
theorem path_makeFeasible_unsound_without_hpick :
    ∃ (P : PathInst) (high : ℚ) (pick : ℕ → List ℕ → ℕ) (Q : PathInst) (sol : List ℚ),
      C15.Inv P.g ∧ C06.PoolInv P ∧ P.makeFeasible high pick = .ok (Q, sol) ∧
      Q.data.feasibleB (vecOf sol) = false := by
  have hb : cexBad = true := by decide +kernel
  unfold cexBad at hb
  cases h : ({ g := cexG } : PathInst).makeFeasible 100 cexPick with
  | error e => rw [h] at hb; cases hb
  | ok p =>
    obtain ⟨Q, sol⟩ := p
    rw [h] at hb
    exact ⟨_, _, _, Q, sol, cexG_inv, C06.poolInv_init _, h, by simpa using hb⟩

/-! ## non-vacuity -/

/-- empty pool on the reachable graph `C15.nv_g` with capacity 3 and initial load 1: customer `b` (demand 2) cannot
    be served by a regular vehicle, so the heuristic adds a dummy node for it; the sampler picks the first candidate -/
def nv_pP : PathInst := { g := { C15.nv_g with cap := some 3, init := some 1 } }
def nv_pick (_ : ℕ) (l : List ℕ) : ℕ := l.headD 0

theorem nv_pick_mem : ∀ c l, l ≠ [] → nv_pick c l ∈ l := by
  intro c l hl
  cases l with
  | nil => exact absurd rfl hl
  | cons a t => simp [nv_pick]

theorem nv_pP_inv : C15.Inv nv_pP.g := C15.nv_inv_of_invB _ (by decide +kernel)

/-- `Q, sol` of `P.makeFeasible high pick = .ok (Q, sol)` by evaluation -/
def nv_pQ : PathInst := (nv_val (nv_pP.makeFeasible 100 nv_pick) (nv_pP, [])).1
def nv_pSol : List ℚ := (nv_val (nv_pP.makeFeasible 100 nv_pick) (nv_pP, [])).2
theorem nv_pP_mf : nv_pP.makeFeasible 100 nv_pick = .ok (nv_pQ, nv_pSol) := nv_val_eq _ _ (by decide +kernel)

example : nv_pQ.routes = [[0, 1, 0], [0, 3, 2, 0]] ∧ nv_pQ.costs = [2, 202] ∧ nv_pQ.g.names = ["d", "a", "b", "mf_Dum_2"] ∧
    nv_pSol = [1, 1] ∧ nv_pQ.data.m = 3 := by decide +kernel

/-- all hypotheses of `path_makeFeasible_sound` hold; its conclusion on the instance -/
example : nv_pSol.length = nv_pQ.data.n ∧ (∀ v ∈ nv_pSol, v = 0 ∨ v = 1) ∧ nv_pQ.data.feasibleB (vecOf nv_pSol) = true ∧
    C06.PoolInv nv_pQ ∧ C15.Inv nv_pQ.g :=
  path_makeFeasible_sound nv_pP 100 nv_pick nv_pQ nv_pSol nv_pick_mem nv_pP_inv (C06.poolInv_init _) nv_pP_mf

/-- the documented preconditions `PathPre` of `path_makeFeasible_total` hold -/
theorem nv_pP_pre : PathPre nv_pP.g 3 1 where
  hcap := rfl
  hinit := rfl
  init0 := by norm_num
  initc := by norm_num
  nonempty := by decide +kernel
  depotDemand := by decide +kernel
  depotHi := by decide +kernel
  custDemand := fun u h1 h2 => by
    have h3 : nv_pP.g.nodes.length = 3 := by decide +kernel
    have : u = 1 ∨ u = 2 := by omega
    rcases this with rfl | rfl <;> decide +kernel
  custHi := fun u h1 h2 => by
    have h3 : nv_pP.g.nodes.length = 3 := by decide +kernel
    have : u = 1 ∨ u = 2 := by omega
    rcases this with rfl | rfl <;> decide +kernel

example : ∃ Q sol, nv_pP.makeFeasible 7 (fun c l => l.getLastD c) = .ok (Q, sol) :=
  path_makeFeasible_total nv_pP 7 _ 3 1 nv_pP_inv (C06.poolInv_init _) nv_pP_pre

/-- a depot that opens LATE (window `[5, ∞)`, so the dropped hypothesis `g.lo 0 ≤ 0` fails): customer `a`
    (demand 2, window `[6, 9]`, arcs `d → a`, `a → d`) and customer `b` (demand 3 > initial load 2, no arcs, so
    no regular vehicle serves it; window `[1, 5]`, which ends exactly when the depot opens: the boundary case of
    `custHi`); capacity 3 -/
def nv_pP5 : PathInst :=
  { g := { nodes := [⟨"d", 0, 5, none⟩, ⟨"a", 2, 6, some 9⟩, ⟨"b", 3, 1, some 5⟩]
           arcs := [((0,1), ⟨"d","a",1,1⟩), ((1,0), ⟨"a","d",1,1⟩)]
           cap := some 3
           init := some 2 } }

theorem nv_pP5_inv : C15.Inv nv_pP5.g := C15.nv_inv_of_invB _ (by decide +kernel)

/-- `PathPre` with a depot window start different from 0 -/
theorem nv_pP5_pre : PathPre nv_pP5.g 3 2 where
  hcap := rfl
  hinit := rfl
  init0 := by norm_num
  initc := by norm_num
  nonempty := by decide +kernel
  depotDemand := by decide +kernel
  depotHi := by decide +kernel
  custDemand := fun u h1 h2 => by
    have h3 : nv_pP5.g.nodes.length = 3 := by decide +kernel
    have : u = 1 ∨ u = 2 := by omega
    rcases this with rfl | rfl <;> decide +kernel
  custHi := fun u h1 h2 => by
    have h3 : nv_pP5.g.nodes.length = 3 := by decide +kernel
    have : u = 1 ∨ u = 2 := by omega
    rcases this with rfl | rfl <;> decide +kernel

example : nv_pP5.g.lo 0 = 5 ∧ ¬ nv_pP5.g.lo 0 ≤ 0 := by decide +kernel

example : ∃ Q sol, nv_pP5.makeFeasible 100 nv_pick = .ok (Q, sol) :=
  path_makeFeasible_total nv_pP5 100 _ 3 2 nv_pP5_inv (C06.poolInv_init _) nv_pP5_pre

/-- what the heuristic does on it: `a` is served by the regular route `d a d`, `b` through a dummy node whose
    window opens with the depot (at 5) -/
example : (nv_val (nv_pP5.makeFeasible 100 nv_pick) (nv_pP5, [])).1.routes = [[0, 1, 0], [0, 3, 2, 0]] ∧
    (nv_val (nv_pP5.makeFeasible 100 nv_pick) (nv_pP5, [])).1.g.nodes.getLast? = some ⟨"mf_Dum_2", -1, 5, none⟩ ∧
    (nv_val (nv_pP5.makeFeasible 100 nv_pick) (nv_pP5, [])).2 = [1, 1] := by decide +kernel

/-! ## regression: the dummy node's window has to open with the depot, not at time 0

The pinned code created the dummy node with the default window `(0, inf)`.  On a time axis that extends below
zero the route depot → dummy → customer → depot then waits at the dummy node until `t = 0` and misses every
customer whose window ends before 0 (already the arc dummy → customer is refused by `add_arc`), so the pinned
heuristic failed its own `assert feas`. -/

/-- `dummyBody` with the start of the dummy node's window as a parameter (a function of the current graph) -/
def dummyBodyW (w : Graph → ℚ) (cap init high : ℚ) (Q : PathInst) (routes : List (List ℕ)) (u : ℕ) :
    Except Err (PathInst × List (List ℕ)) :=
  let nm := dummyName Q.g u
  match addNodeStep Q.g nm (-dummyLoad cap init (Q.g.demand u)) (w Q.g) none with
  | (_, .error e) => .error e
  | (g1, .ok _) =>
  let k := g1.nodes.length - 1
  let g2 := gAddArc g1 (nameOf g1 0) nm 0 high
  let g3 := gAddArc g2 nm (nameOf g2 u) 0 high
  let g4 := if g3.hasArc u 0 then g3 else gAddArc g3 (nameOf g3 u) (nameOf g3 0) 0 0
  let r := [0, k, u, 0]
  let a := ({ Q with g := g4 } : PathInst).addRoute (r.map Stop.idx)
  match a.2 with
  | .ok (true, _) => .ok (a.1, routes ++ [r])
  | .ok (false, _) => .error .assert
  | .error e => .error e

/-- the heuristic with that parameter -/
def makeFeasibleW (w : Graph → ℚ) (P : PathInst) (high : ℚ) (pick : ℕ → List ℕ → ℕ) :
    Except Err (PathInst × List ℚ) :=
  match P.g.cap, P.g.init with
  | some cap, some init =>
    match ((P.addRoutesBetter pick 0).2.1.filter (· ≠ 0)).foldl
        (fun (acc : Except Err (PathInst × List (List ℕ))) u => match acc with
          | .error e => .error e
          | .ok (Q, routes) => dummyBodyW w cap init high Q routes u)
        (.ok ((P.addRoutesBetter pick 0).1, (P.addRoutesBetter pick 0).2.2.1)) with
    | .error e => .error e
    | .ok (Q, routes) => .ok (Q, solOf Q routes)
  | _, _ => .error .type

/-- the PINNED heuristic: the dummy node gets the default window `(0, inf)` -/
def _root_.Vrp.PathInst.makeFeasiblePinned (P : PathInst) (high : ℚ) (pick : ℕ → List ℕ → ℕ) :
    Except Err (PathInst × List ℚ) :=
  makeFeasibleW (fun _ => 0) P high pick

/-- the parameterised copy IS the model when the window opens with the depot -/
theorem makeFeasibleW_depot (P : PathInst) (high : ℚ) (pick : ℕ → List ℕ → ℕ) :
    makeFeasibleW (fun g => g.lo 0) P high pick = P.makeFeasible high pick := by
  cases hc : P.g.cap with
  | none =>
    rw [makeFeasible_unset P high pick (Or.inl hc)]
    unfold makeFeasibleW
    simp only [hc]
  | some cap =>
    cases hi : P.g.init with
    | none =>
      rw [makeFeasible_unset P high pick (Or.inr hi)]
      unfold makeFeasibleW
      simp only [hc, hi]
    | some init =>
      rw [makeFeasible_eq P high pick cap init hc hi]
      unfold makeFeasibleW
      simp only [hc, hi]
      rfl

/-- the error a call raised, if any (equality of `Except` values with an instance inside is not decidable) -/
def errOf {α : Type} (r : Except Err α) : Option Err := match r with | .error e => some e | .ok _ => none

theorem eq_error_of_errOf {α : Type} {r : Except Err α} {e : Err} (h : errOf r = some e) : r = .error e := by
  cases r with
  | error e' => simp only [errOf, Option.some.injEq] at h; rw [h]
  | ok a => cases h

/-- negative time axis: depot `d` with window `[-10, ∞)`, one customer `a` (demand 1) with window `[-8, -2]`,
    capacity 10, initial loading 0, no arcs; empty pool -/
def negP : PathInst :=
  { g := { nodes := [⟨"d", 0, -10, none⟩, ⟨"a", 1, -8, some (-2)⟩]
           arcs := []
           cap := some 10
           init := some 0 } }

theorem negP_inv : C15.Inv negP.g := C15.nv_inv_of_invB _ (by decide +kernel)

/-- the instance satisfies the (new) documented preconditions: `-10 ≤ -2` -/
theorem negP_pre : PathPre negP.g 10 0 where
  hcap := rfl
  hinit := rfl
  init0 := by norm_num
  initc := by norm_num
  nonempty := by decide +kernel
  depotDemand := by decide +kernel
  depotHi := by decide +kernel
  custDemand := fun u h1 h2 => by
    have h3 : negP.g.nodes.length = 2 := by decide +kernel
    have : u = 1 := by omega
    subst this; decide +kernel
  custHi := fun u h1 h2 => by
    have h3 : negP.g.nodes.length = 2 := by decide +kernel
    have : u = 1 := by omega
    subst this; decide +kernel

/-- **regression**: on a consistent instance (`C15.Inv`, `C06.PoolInv`, `PathPre`) with a negative time axis
    the PINNED heuristic (dummy window `(0, inf)`) fails its `assert feas`, while the repaired model returns
    normally: one dummy node (window `[-10, ∞)`, demand `-1`), the route depot → dummy → `a` → depot, solution `[1]` -/
theorem path_makeFeasible_pinned_dummy_window_fails :
    C15.Inv negP.g ∧ C06.PoolInv negP ∧ PathPre negP.g 10 0 ∧
    negP.makeFeasiblePinned 100 nv_pick = .error .assert ∧
    ∃ Q sol, negP.makeFeasible 100 nv_pick = .ok (Q, sol) ∧
      Q.g.nodes = negP.g.nodes ++ [⟨"mf_Dum_1", -1, -10, none⟩] ∧ Q.g.nodes.length = 3 ∧
      Q.routes = [[0, 2, 1, 0]] ∧ Q.costs = [200] ∧ sol = [1] := by
  refine ⟨negP_inv, C06.poolInv_init _, negP_pre, eq_error_of_errOf (by decide +kernel), ?_⟩
  refine ⟨(nv_val (negP.makeFeasible 100 nv_pick) (negP, [])).1,
    (nv_val (negP.makeFeasible 100 nv_pick) (negP, [])).2, nv_val_eq _ _ (by decide +kernel), ?_⟩
  decide +kernel

/-- the totality theorem applies to the instance (its conclusion, for any sampler) -/
example (pick : ℕ → List ℕ → ℕ) : ∃ Q sol, negP.makeFeasible 100 pick = .ok (Q, sol) :=
  path_makeFeasible_total negP 100 pick 10 0 negP_inv (C06.poolInv_init _) negP_pre

/-- the old precondition `leE 0 (g.hi u)` fails on it (the window of `a` ends before 0) -/
example : leE 0 (negP.g.hi 1) = false ∧ negP.g.lo 0 = -10 := by decide +kernel

end Vrp.C09
