import VrpModel.Heuristics
import VrpProofs.Props.C09
import VrpProofs.Props.C05
import VrpProofs.Props.C05b
import VrpProofs.Lemmas.ArcHeur

/-!
# C09 (arc-based) — the construction heuristic returns a genuinely feasible solution or fails
-/
namespace Vrp.C09
open Vrp

/-! ## helper lemmas -/

/-- the selected moves only depend on the entries of the vector below the number of variables -/
theorem sel_congr (J : ArcInst) (x y : Vec) (h : ∀ k < J.vars.length, x k = y k) :
    C05.sel J x = C05.sel J y := by
  unfold C05.sel
  apply List.filterMap_congr
  intro k hk
  rw [h k (List.mem_range.1 hk)]

/-! ## the property theorems -/

/-- the arc-based heuristic only adds arcs (dummy entry / exit arcs): nodes and grid are unchanged and the
    graph stays self-consistent -/
theorem arc_makeFeasible_frame (I : ArcInst) (high : ℚ) (J : ArcInst) (sol : List ℚ) (hw : C05.WF I)
    (h : I.makeFeasible high = .ok (J, sol)) :
    J.T = I.T ∧ J.g.nodes = I.g.nodes ∧ C05.WF J ∧
    (∀ i j, I.g.hasArc i j = true → J.g.hasArc i j = true) := by
  obtain ⟨used, idxs, hT, hG, hI, _⟩ := ArcHeur.makeFeasible_spec h
  exact ⟨hT, hG.nodes, ⟨by rw [hT]; exact hw.sorted, by rw [hT]; exact hw.nodup, hI hw.graph⟩, hG.mono⟩

/-- **soundness of the arc-based heuristic**: whenever `make_feasible` returns normally, the stored vector
    has one entry per variable of the *resulting* instance, is 0/1, and satisfies every constraint that
    instance reports (every customer arrived at exactly once, flow conserved at every (customer, time)) -/
theorem arc_makeFeasible_sound (I : ArcInst) (high : ℚ) (J : ArcInst) (sol : List ℚ) (hw : C05.WF I)
    (h : I.makeFeasible high = .ok (J, sol)) :
    sol.length = J.data.n ∧ (∀ v ∈ sol, v = 0 ∨ v = 1) ∧ J.data.feasibleB (vecOf sol) = true := by
  obtain ⟨_, hnodes, hwJ, _⟩ := arc_makeFeasible_frame I high J sol hw h
  obtain ⟨used, idxs, _, _, _, hG, hvar, hidx, rfl⟩ := ArcHeur.makeFeasible_spec h
  have hn : J.data.n = J.vars.length := rfl
  have hU := ArcHeur.unv0_nodup I
  have h0 : 0 ∉ ArcHeur.unv0 I := fun h => by have := (ArcHeur.mem_unv0 I 0).1 h; omega
  obtain ⟨hnd, honce⟩ := hG.final hU h0
  obtain ⟨R, hR, hRr⟩ := hG.routes
  -- every recorded move is a variable of `J`, hence admissible
  have hadm : ∀ u ∈ used, J.admissible u = true := by
    intro u hu
    obtain ⟨k, hk⟩ := hvar u hu
    by_contra hne
    have hnone := (C18.arc_index_none_iff J hwJ.sorted hwJ.graph u).2 (by simpa using hne)
    rw [hnone] at hk; cases hk
  subst hR
  obtain ⟨hbin, hfeas, _⟩ := C05.arc_complete J hwJ R
    (fun r hr => ⟨hRr r hr, fun u hu => hadm u (List.mem_flatten.2 ⟨r, hr, hu⟩)⟩) hnd
    (fun c hc1 hc2 => honce c ((ArcHeur.mem_unv0 I c).2 ⟨hc1, hnodes ▸ hc2⟩))
  -- the stored vector is the indicator of the recorded moves
  have hvec : ∀ k < J.vars.length,
      vecOf ((List.range J.vars.length).map fun k => if k ∈ idxs then (1 : ℚ) else 0) k =
        if k ∈ idxs then 1 else 0 := by
    intro k hk
    simp [vecOf, List.getD_eq_getElem?_getD, List.getElem?_range hk]
  have hagree : ∀ k < J.vars.length,
      vecOf ((List.range J.vars.length).map fun k => if k ∈ idxs then (1 : ℚ) else 0) k =
        C05.indicatorOf J R.flatten k := by
    intro k hk
    rw [hvec k hk]
    unfold C05.indicatorOf
    have ht : J.varTuple k = some J.vars[k] := by
      unfold ArcInst.varTuple; exact List.getElem?_eq_getElem hk
    rw [ht]
    simp only
    have hiff : k ∈ idxs ↔ J.vars[k] ∈ R.flatten := by
      rw [hidx k]
      constructor
      · rintro ⟨u, hu, huk⟩
        have := (C18.arc_index_tuple_inverse J hwJ.sorted hwJ.nodup hwJ.graph u k).1 huk
        rw [ht] at this
        cases this
        exact hu
      · intro hu
        exact ⟨_, hu, (C18.arc_index_tuple_inverse J hwJ.sorted hwJ.nodup hwJ.graph _ k).2 ht⟩
    by_cases hc : k ∈ idxs
    · rw [if_pos hc, if_pos (hiff.1 hc)]
    · rw [if_neg hc, if_neg (fun h' => hc (hiff.2 h'))]
  have hbinx : IsBin J.data.n
      (vecOf ((List.range J.vars.length).map fun k => if k ∈ idxs then (1 : ℚ) else 0)) := by
    intro k hk
    rw [hvec k (hn ▸ hk)]
    split_ifs <;> simp
  refine ⟨by simp [hn], ?_, ?_⟩
  · intro v hv
    simp only [List.mem_map, List.mem_range] at hv
    obtain ⟨k, _, rfl⟩ := hv
    split_ifs <;> simp
  · rw [C05.arc_feasible_iff_local J hwJ _ hbinx]
    have hloc := (C05.arc_feasible_iff_local J hwJ _ hbin).1 hfeas
    unfold C05.Local at hloc ⊢
    rw [sel_congr J _ _ hagree]
    exact hloc

/-! ## non-vacuity -/

/-- a reachable graph in which customer `b` has no entering arc (depot `d` added last and moved to the front), grid
    through `add_time_points`: the greedy route serves `a`, the heuristic adds the dummy entry arc `d → b` -/
def nv_aOps : List GOp :=
  [.addNode "a" 1 2 (some 5), .addNode "b" 2 6 (some 9), .addNode "d" 0 0 none,
   .addArc "d" "a" 2 1, .addArc "a" "d" 2 1, .addArc "b" "d" 2 2, .setDepot "d"]

def nv_aI : ArcInst := ({ g := grun .base {} nv_aOps, T := [] } : ArcInst).addTimePoints [6, 0, 8, 2]

/-- the standing hypothesis `C05.WF` -/
theorem nv_aI_wf : C05.WF nv_aI := ⟨by decide +kernel, by decide +kernel, C15.grun_inv .base nv_aOps⟩

/-- `J, sol` of `I.makeFeasible high = .ok (J, sol)` by evaluation -/
def nv_aJ : ArcInst := (nv_val (nv_aI.makeFeasible 100) (nv_aI, [])).1
def nv_aSol : List ℚ := (nv_val (nv_aI.makeFeasible 100) (nv_aI, [])).2
theorem nv_aI_mf : nv_aI.makeFeasible 100 = .ok (nv_aJ, nv_aSol) := nv_val_eq _ _ (by decide +kernel)

example : nv_aI.g.arcs.map (·.1) = [(0, 1), (1, 0), (2, 0)] ∧ nv_aJ.g.arcs.map (·.1) = [(0, 1), (1, 0), (2, 0), (0, 2)] ∧
    nv_aJ.vars = [(0, 0, 1, 2), (1, 2, 0, 6), (1, 2, 0, 8), (2, 6, 0, 8), (0, 0, 2, 6), (0, 0, 2, 8), (0, 2, 2, 6),
      (0, 2, 2, 8), (0, 6, 2, 6), (0, 6, 2, 8), (0, 8, 2, 8)] ∧
    nv_aSol = [1, 1, 0, 1, 1, 0, 0, 0, 0, 0, 0] := by decide +kernel

/-- all hypotheses of `arc_makeFeasible_frame` / `arc_makeFeasible_sound` hold; conclusions on the instance -/
example : nv_aSol.length = nv_aJ.data.n ∧ (∀ v ∈ nv_aSol, v = 0 ∨ v = 1) ∧ nv_aJ.data.feasibleB (vecOf nv_aSol) = true :=
  arc_makeFeasible_sound nv_aI 100 nv_aJ nv_aSol nv_aI_wf nv_aI_mf

example : nv_aJ.T = nv_aI.T ∧ nv_aJ.g.nodes = nv_aI.g.nodes ∧ C05.WF nv_aJ ∧
    (∀ i j, nv_aI.g.hasArc i j = true → nv_aJ.g.hasArc i j = true) :=
  arc_makeFeasible_frame nv_aI 100 nv_aJ nv_aSol nv_aI_wf nv_aI_mf

example : nv_aJ.data.objective (vecOf nv_aSol) = 104 := by decide +kernel

end Vrp.C09
