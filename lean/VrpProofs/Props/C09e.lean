import VrpProofs.Props.C09b
import VrpProofs.Lemmas.SeqHeurTotal

/-!
# C09 (sequence-based) — the construction heuristic always succeeds under its documented preconditions
-/
namespace Vrp.C09
open Vrp

/-- documented preconditions: at least three positions, a depot (node 0) with the self-arc and an infinite
    window end, and no customer window that closes before the depot window opens -/
structure SeqPre (I : SeqInst) : Prop where
  hL : 3 ≤ I.L
  nonempty : 1 ≤ I.g.nodes.length
  inv : C15.Inv I.g
  self : I.g.hasArc 0 0 = true
  depotHi : I.g.hi 0 = none
  custHi : ∀ u, 1 ≤ u → u < I.g.nodes.length → leE (I.g.lo 0) (I.g.hi u) = true

/-! ## property theorem -/

/-- **totality**: under the preconditions the sequence-based heuristic never raises, whatever the arc set,
    the vehicle count, the strictness and the high cost -/
theorem seq_makeFeasible_total (I : SeqInst) (high : ℚ) (hpre : SeqPre I) :
    ∃ J sol, I.makeFeasible high = .ok (J, sol) := by
  have hN := hpre.nonempty
  have hU : ∀ n ∈ SeqHeur.unv0 I, n < I.g.nodes.length := fun n hn => ((SeqHeur.mem_unv0 I n).1 hn).2
  have hW : SeqHeur.WinOK I.g := ⟨hpre.depotHi, hpre.custHi⟩
  -- (1) the regular vehicles
  obtain ⟨st, h1⟩ := SeqHeur.reg_fold_total I.strict I.L (SeqHeur.unv0 I) I.g hpre.inv hN hpre.depotHi hU
    (by have := hpre.hL; omega) I.V
  obtain ⟨R, hRV, hg1, hi1, hS1⟩ := SeqHeur.reg_fold_spec (.seq I.strict) I.L (SeqHeur.unv0 I) I.g hpre.inv hN hU
    (by have := hpre.hL; omega) I.V st h1
  have hn1 : st.1.nodes.length = I.g.nodes.length := by rw [hg1.nodes]
  -- (2) the dummy vehicles
  obtain ⟨⟨J, used⟩, h2⟩ := SeqHeur.dummy_fold_total I.strict high st.2.1 ({ I with g := st.1 }, st.2.2) hi1
    (by rw [hn1]; exact hN) (hW.mono hg1)
    (fun n hn => by
      have := (SeqHeur.mem_unv0 I n).1 (hS1.rest_mem hn)
      exact ⟨this.1, by rw [hn1]; exact this.2⟩)
  obtain ⟨hg2, _, hLJ, _, _⟩ := SeqHeur.dummy_fold_frame _ _ _ _ _ h2
  simp only at hg2 hLJ
  have hGLe : SeqHeur.GLe I.g J.g := hg1.trans hg2
  obtain ⟨R', hR'V, _, hSJ⟩ := SeqHeur.dummy_fold_spec (.seq I.strict) high I.L (SeqHeur.unv0 I) hpre.hL st.2.1
    ({ I with g := st.1 }, st.2.2) (J, used) R hi1 (by rw [hn1]; exact hN)
    (fun n hn => by rw [hn1]; exact hU n (hS1.rest_mem hn)) hRV rfl hS1 h2
  simp only at hR'V hSJ
  have hnodes : J.g.nodes = I.g.nodes := hGLe.nodes
  -- the recorded routes are walks of the final instance: this yields the arc facts for every used tuple
  have hw : C07.Walk J (SeqHeur.wOf R') :=
    walk_of_SInv J (SeqHeur.unv0 I) R' used (by rw [hnodes]; exact hN) (hGLe.mono 0 0 hpre.self) hR'V
      (SeqHeur.unv0_nodup I) (by rw [hnodes]; exact SeqHeur.mem_unv0 I) (by rw [hLJ]; exact hSJ)
  -- (3) every used tuple is a variable of the final instance
  have hL := hpre.hL
  have hvar : ∀ u ∈ used, J.varIndex u ≠ none := by
    rintro ⟨v, p, n⟩ hu hnone
    obtain ⟨hv, hp1, hp2, hn⟩ := (hSJ.used_iff (v, p, n)).1 hu
    simp only at hv hp1 hp2 hn
    rw [hR'V] at hv
    refine (C18.seq_index_none_iff J (v, p, n)).1 hnone ⟨hv, ?_, ?_, ?_⟩
    · simp only; omega
    · simp only; rw [hn]; exact hw.lt v hv p (by omega)
    · refine (C18.seq_fixed_none_iff J p n).2 ⟨by omega, by omega, ?_, ?_⟩
      · rintro rfl
        have := hw.arcs v hv 0 (by omega)
        rwa [hw.start v hv, ← hn] at this
      · intro hp
        have := hw.arcs v hv p (by omega)
        have e : p + 1 = J.L - 1 := by omega
        rwa [e, hw.stop v hv, ← hn] at this
  obtain ⟨idxs, h3⟩ := SeqHeur.idx_fold_total J used [] hvar
  rw [SeqHeur.makeFeasible_eq, h1]
  simp only [h2, h3]
  exact ⟨_, _, rfl⟩

/-! ## non-vacuity -/

/-- the documented preconditions `SeqPre` hold for the instance `nv_sI` of C09b (constructor on the reachable graph
    `C15.nv_g`, one vehicle, three positions) and for its strict twin -/
theorem nv_sI_pre : SeqPre nv_sI where
  hL := by decide
  nonempty := by decide +kernel
  inv := nv_sI_inv
  self := by decide +kernel
  depotHi := by decide +kernel
  custHi := fun u h1 h2 => by
    have h3 : nv_sI.g.nodes.length = 3 := by decide +kernel
    have : u = 1 ∨ u = 2 := by omega
    rcases this with rfl | rfl <;> decide +kernel

/-- `seq_makeFeasible_total` on it, for any high cost; it agrees with the reply exhibited in C09b -/
example : ∃ J sol, nv_sI.makeFeasible 100 = .ok (J, sol) := seq_makeFeasible_total nv_sI 100 nv_sI_pre
example : ∃ J sol, nv_sI.makeFeasible (-3) = .ok (J, sol) := seq_makeFeasible_total nv_sI (-3) nv_sI_pre

def nv_sIt : SeqInst := ((SeqInst.new C15.nv_g true).setMaxVehicles 1).setMaxSeqLen 3

theorem nv_sIt_pre : SeqPre nv_sIt where
  hL := by decide
  nonempty := by decide +kernel
  inv := C15.nv_inv_of_invB _ (by decide +kernel)
  self := by decide +kernel
  depotHi := by decide +kernel
  custHi := fun u h1 h2 => by
    have h3 : nv_sIt.g.nodes.length = 3 := by decide +kernel
    have : u = 1 ∨ u = 2 := by omega
    rcases this with rfl | rfl <;> decide +kernel

example : ∃ J sol, nv_sIt.makeFeasible 100 = .ok (J, sol) := seq_makeFeasible_total nv_sIt 100 nv_sIt_pre
example : (nv_val (nv_sIt.makeFeasible 100) (nv_sIt, [])).1.V = 2 ∧
    (nv_val (nv_sIt.makeFeasible 100) (nv_sIt, [])).2 = [0, 0, 1, 0, 0, 1] := by decide +kernel

end Vrp.C09
