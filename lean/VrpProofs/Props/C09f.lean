import VrpProofs.Props.C09e
import VrpProofs.Props.C09c
import VrpProofs.Props.C08d
import VrpProofs.Props.C07c

/-!
# C09 (supplement) — the two listed findings of C09 are instances that NO heuristic could solve

The path-based and the strict sequence-based heuristics raise on the following two inputs:

* (a) path-based: depot window `[0, 5]`, customer `a` with window `[6, 8]` (the depot closes before the customer's
  window opens);
* (b) strict sequence-based: depot window `[0, 10]`, customer `a` with window `[1, 20]` (the depot closes before the
  customer's window closes).

This file proves that these inputs have no solution whatever arcs are added (with non-negative travel times):
(a) no VRPTW route can visit `a`, hence row `a` of the exact-cover system of ANY pool of valid routes is
identically zero; (b) the strict arc rule admits no arc `c → depot`, hence no walk that visits a customer can end at
the depot and the constraint system of the strict object has no binary solution.
-/
namespace Vrp.C09
open Vrp Finset

/-- every stored arc has a non-negative travel time (what `g.arc?` returns, i.e. what the route check reads) -/
def NonnegTimes (g : Graph) : Prop := ∀ i j a, g.arc? i j = some a → 0 ≤ a.time

/-! ## 1. path-based: no valid route visits a customer whose window opens after the depot has closed -/

theorem le_maxR_left (a b : ℚ) : a ≤ maxR a b := by
  unfold maxR; split_ifs with h
  · exact h
  · exact le_refl a

theorem le_maxR_right (a b : ℚ) : b ≤ maxR a b := by
  unfold maxR; split_ifs with h
  · exact le_refl b
  · exact le_of_lt (lt_of_not_ge h)

theorem not_ltE_some {h t : ℚ} (hn : ¬ ltE (some h) t = true) : t ≤ h := by
  simpa [ltE, leE] using hn

/-- along `follow` the clock never decreases and the depot's closing time is checked at the last stop: the time at
    which a walk that ends at the depot is started is at most the depot's window end -/
theorem follow_time_le_depot_end (g : Graph) (hnn : NonnegTimes g) (cap h : ℚ) (hh : g.hi 0 = some h)
    (rest : List ℕ) : ∀ cur time load cost c, C06.follow g cap cur rest time load cost = some c →
      rest.getLast? = some 0 → time ≤ h := by
  induction rest with
  | nil => intro _ _ _ _ _ _ hl; simp at hl
  | cons j rest ih =>
    intro cur time load cost c hf hl
    rw [C06.follow] at hf
    cases harc : g.arc? cur j with
    | none => simp only [harc] at hf; cases hf
    | some a =>
      simp only [harc] at hf
      have ha := hnn cur j a harc
      split_ifs at hf with hA hB
      have ht : time ≤ maxR (time + a.time) (g.lo j) :=
        le_trans (by linarith) (le_maxR_left _ _)
      cases rest with
      | nil =>
        simp only [List.getLast?_singleton, Option.some.injEq] at hl
        subst hl
        rw [hh] at hA
        exact le_trans ht (not_ltE_some hA)
      | cons j' rest' =>
        rw [List.getLast?_cons_cons] at hl
        exact le_trans ht (ih _ _ _ _ _ hf hl)

/-- a customer that an accepted walk ending at the depot visits has its window open no later than the depot closes -/
theorem follow_lo_le_depot_end (g : Graph) (hnn : NonnegTimes g) (cap h : ℚ) (hh : g.hi 0 = some h) (a : ℕ)
    (ha : a ≠ 0) (rest : List ℕ) : ∀ cur time load cost c,
      C06.follow g cap cur rest time load cost = some c → rest.getLast? = some 0 → a ∈ rest → g.lo a ≤ h := by
  induction rest with
  | nil => intro _ _ _ _ _ _ _ hm; simp at hm
  | cons j rest ih =>
    intro cur time load cost c hf hl hm
    rw [C06.follow] at hf
    cases harc : g.arc? cur j with
    | none => simp only [harc] at hf; cases hf
    | some ar =>
      simp only [harc] at hf
      split_ifs at hf with hA hB
      cases rest with
      | nil =>
        simp only [List.getLast?_singleton, Option.some.injEq] at hl
        simp only [List.mem_singleton] at hm
        exact absurd (hm.trans hl) ha
      | cons j' rest' =>
        rw [List.getLast?_cons_cons] at hl
        rcases List.mem_cons.1 hm with rfl | hm'
        · exact le_trans (le_maxR_right _ _)
            (follow_time_le_depot_end g hnn cap h hh _ _ _ _ _ _ hf hl)
        · exact ih _ _ _ _ _ hf hl hm'

/-- **(a) no route can serve the customer**: in ANY graph (any arc set) whose travel times are non-negative, if
    the depot's window ends at `h` and customer `a`'s window opens after `h`, no VRPTW route visits `a` — whatever
    the capacity, the initial load, the demands and the costs -/
theorem no_valid_route_when_depot_closes_first (g : Graph)
    (hnn : ∀ i j a, g.arc? i j = some a → 0 ≤ a.time) (cap init : ℚ) (a : ℕ) (ha : a ≠ 0) (h : ℚ)
    (hh : g.hi 0 = some h) (hlate : h < g.lo a) :
    ¬ ∃ r, C06.ValidRoute g cap init r ∧ a ∈ r := by
  rintro ⟨r, ⟨h2, hhd, hl, _, hf⟩, hm⟩
  obtain ⟨c, hc⟩ := Option.isSome_iff_exists.1 hf
  match r, h2, hhd, hl, hm, hc with
  | x :: y :: t, _, hhd, hl, hm, hc =>
    simp only [List.head?_cons, Option.some.injEq] at hhd
    subst hhd
    rw [List.getLast?_cons_cons] at hl
    have hm' : a ∈ y :: t := by
      rcases List.mem_cons.1 hm with rfl | hm
      · exact absurd rfl ha
      · exact hm
    have := follow_lo_le_depot_end g hnn cap h hh a ha (y :: t) _ _ _ _ _ hc hl hm'
    exact absurd hlate (not_lt.2 this)

/-! ## 2. the exact-cover system of any pool of valid routes has no solution -/

/-- row `a − 1` of the exact-cover system is identically zero when no stored route visits `a` -/
theorem path_row_zero (P : PathInst) (hp : C06.PoolInv P) (a : ℕ) (ha1 : 1 ≤ a) (ha : a < P.g.nodes.length)
    (hno : ∀ r ∈ P.routes, a ∉ r) (x : Vec) : P.data.rowVal x (a - 1) = 0 := by
  unfold MPData.rowVal
  rw [Compose2.sumTo_congr _ _ (fun _ => 0) ?_, sumTo_zero]
  intro j hj
  have hj' : j < P.routes.length := by
    have : P.data.n = P.routes.length := hp.lenC
    omega
  rw [(C06.path_cover_matrix P hp j a hj' ha1 ha).1, if_neg (hno _ (List.getElem_mem hj')), zero_mul]

/-- a pool none of whose routes visits customer `a`: NO vector (binary or not) satisfies the constraints -/
theorem path_infeasible_of_uncovered (P : PathInst) (hp : C06.PoolInv P) (a : ℕ) (ha1 : 1 ≤ a)
    (ha : a < P.g.nodes.length) (hno : ∀ r ∈ P.routes, a ∉ r) (x : Vec) : P.data.feasibleB x = false := by
  cases hfe : P.data.feasibleB x with
  | false => rfl
  | true =>
    exfalso
    unfold MPData.feasibleB at hfe
    rw [Bool.and_eq_true, List.all_eq_true] at hfe
    have hm : P.data.m = P.g.nodes.length - 1 := rfl
    have hr : a - 1 < P.g.nodes.length - 1 := by omega
    have h := hfe.1 (a - 1) (List.mem_range.2 (by rw [hm]; exact hr))
    rw [decide_eq_true_eq, path_row_zero P hp a ha1 ha hno x, C08.path_bvec P _ hr] at h
    exact absurd h (by norm_num)

/-- **(a) the path-based instance is infeasible whatever routes are in the pool**: if every stored route is a VRPTW
    route of the instance's graph, travel times are non-negative, the depot's window ends at `h` and the window of
    customer `a` opens after `h`, then no vector at all — in particular no binary vector — satisfies the exact-cover
    constraints `P.data` (row `a − 1` is identically `0 ≠ 1`) -/
theorem path_infeasible_when_depot_closes_first (P : PathInst) (cap init : ℚ) (hp : C06.PoolInv P)
    (hval : ∀ r ∈ P.routes, C06.ValidRoute P.g cap init r)
    (hnn : ∀ i j a, P.g.arc? i j = some a → 0 ≤ a.time) (a : ℕ) (ha1 : 1 ≤ a) (ha : a < P.g.nodes.length)
    (h : ℚ) (hh : P.g.hi 0 = some h) (hlate : h < P.g.lo a) (x : Vec) :
    P.data.feasibleB x = false :=
  path_infeasible_of_uncovered P hp a ha1 ha
    (fun r hr hm => no_valid_route_when_depot_closes_first P.g hnn cap init a (by omega) h hh hlate
      ⟨r, hval r hr, hm⟩) x

/-- the same with the project's pool predicate `C08.PoolValid` -/
theorem path_infeasible_when_depot_closes_first' (P : PathInst) (cap init : ℚ) (hp : C06.PoolInv P)
    (hv : C08.PoolValid P cap init)
    (hnn : ∀ i j a, P.g.arc? i j = some a → 0 ≤ a.time) (a : ℕ) (ha1 : 1 ≤ a) (ha : a < P.g.nodes.length)
    (h : ℚ) (hh : P.g.hi 0 = some h) (hlate : h < P.g.lo a) :
    ∀ x, IsBin P.data.n x → P.data.feasibleB x = false :=
  fun x _ => path_infeasible_when_depot_closes_first P cap init hp
    (fun _ hr => C08.poolValid_mem P cap init hv hr) hnn a ha1 ha h hh hlate x

/-- **(a) … for every graph obtained by adding arcs**: the hypotheses on the windows only mention the nodes, so for
    EVERY graph `g'` on the same nodes (any arc set, any vehicle data) with non-negative travel times and every
    consistent pool of valid routes of `g'`, the exact-cover constraints have no solution -/
theorem path_infeasible_any_arcs (g : Graph) (a : ℕ) (ha1 : 1 ≤ a) (ha : a < g.nodes.length) (h : ℚ)
    (hh : g.hi 0 = some h) (hlate : h < g.lo a)
    (g' : Graph) (hnodes : g'.nodes = g.nodes) (hnn : ∀ i j a, g'.arc? i j = some a → 0 ≤ a.time)
    (P : PathInst) (hg : P.g = g') (cap init : ℚ) (hp : C06.PoolInv P) (hv : C08.PoolValid P cap init) :
    ∀ x, IsBin P.data.n x → P.data.feasibleB x = false := by
  subst hg
  exact path_infeasible_when_depot_closes_first' P cap init hp hv hnn a ha1 (by rw [hnodes]; exact ha) h
    (by rw [Graph.hi_congr_nodes hnodes]; exact hh) (by rw [Graph.lo_congr_nodes hnodes]; exact hlate)

/-- … and also when nodes are appended (the path-based heuristic appends dummy nodes): positions `0` and `a` keep
    their windows -/
theorem path_infeasible_any_arcs_more_nodes (g : Graph) (a : ℕ) (ha1 : 1 ≤ a) (ha : a < g.nodes.length) (h : ℚ)
    (hh : g.hi 0 = some h) (hlate : h < g.lo a)
    (g' : Graph) (extra : List Node) (hnodes : g'.nodes = g.nodes ++ extra)
    (hnn : ∀ i j a, g'.arc? i j = some a → 0 ≤ a.time)
    (P : PathInst) (hg : P.g = g') (cap init : ℚ) (hp : C06.PoolInv P) (hv : C08.PoolValid P cap init) :
    ∀ x, IsBin P.data.n x → P.data.feasibleB x = false := by
  subst hg
  have hi0 : P.g.hi 0 = g.hi 0 := by
    simp only [Graph.hi, hnodes, List.getElem?_append_left (show 0 < g.nodes.length by omega)]
  have hloa : P.g.lo a = g.lo a := by
    simp only [Graph.lo, hnodes, List.getElem?_append_left ha]
  exact path_infeasible_when_depot_closes_first' P cap init hp hv hnn a ha1
    (by rw [hnodes, List.length_append]; omega) h (by rw [hi0]; exact hh) (by rw [hloa]; exact hlate)

/-! ## 3. strict sequence-based: no arc back to a depot that closes before every customer -/

/-- **(b) the strict rule admits no arc into the depot**: if the stored arcs obey the strict rule, travel times
    are non-negative, the depot's window ends at `h` and every customer's window ends after `h` (or never), then no
    arc `(c, 0)` with `c ≠ 0` is stored -/
theorem no_strict_arc_into_early_depot (g : Graph) (hs : C07.StrictArcs g)
    (hnn : ∀ i j a, g.arc? i j = some a → 0 ≤ a.time) (h : ℚ) (hh : g.hi 0 = some h)
    (hc : ∀ c, 0 < c → c < g.nodes.length → ∀ b, g.hi c = some b → h < b) :
    ∀ c, c ≠ 0 → g.hasArc c 0 = false := by
  intro c hc0
  cases harc : g.hasArc c 0 with
  | false => rfl
  | true =>
    exfalso
    -- the first stored entry with key `(c, 0)`: it is what `arc?` returns, and the strict rule applies to it
    have hex : ∃ e ∈ g.arcs, e.1 = (c, 0) ∧ g.arc? c 0 = some e.2 := by
      obtain ⟨a, ha⟩ := hasArc_arc? harc
      unfold Graph.arc? dictGet at ha
      cases hf : g.arcs.find? (fun e => e.1 = (c, 0)) with
      | none => rw [hf] at ha; cases ha
      | some e =>
        refine ⟨e, List.mem_of_find?_eq_some hf, by simpa using List.find?_some hf, ?_⟩
        unfold Graph.arc? dictGet
        rw [hf]; rfl
    obtain ⟨e, he, hek, hea⟩ := hex
    have ht := hnn c 0 e.2 hea
    have hrule := hs e he (by rw [hek]; exact hc0)
    rw [hek] at hrule
    simp only at hrule
    cases hhi : g.hi c with
    | none =>
      rw [hhi] at hrule
      simp only at hrule
      rw [hh] at hrule
      cases hrule
    | some b =>
      rw [hhi, hh] at hrule
      simp only [leE, decide_eq_true_eq] at hrule
      have hlt : c < g.nodes.length := by
        by_contra hx
        have : g.hi c = none := by
          simp [Graph.hi, List.getElem?_eq_none (not_lt.1 hx)]
        rw [this] at hhi; cases hhi
      have := hc c (Nat.pos_of_ne_zero hc0) hlt b hhi
      linarith

/-- a walk along stored arcs that is at a customer cannot reach the depot later when no arc enters the depot -/
theorem walk_never_returns (I : SeqInst) (hno : ∀ c, c ≠ 0 → I.g.hasArc c 0 = false) (w : ℕ → ℕ → ℕ)
    (hw : C07.Walk I w) (v : ℕ) (hv : v < I.V) (p : ℕ) (hp : w v p ≠ 0) :
    ∀ q, p ≤ q → q < I.L → w v q ≠ 0 := by
  intro q hpq
  induction q, hpq using Nat.le_induction with
  | base => intro _; exact hp
  | succ q _ ih =>
    intro hq h0
    have hq' := ih (by omega)
    have harc := hw.arcs v hv q hq
    rw [h0, hno _ hq'] at harc
    cases harc

/-- **every walk that visits a customer cannot end at the depot**, so with at least one customer there are no walks
    at all: the model's walk predicate is empty -/
theorem no_walks_without_return_arc (I : SeqInst) (hN : 2 ≤ I.g.nodes.length)
    (hno : ∀ c, c ≠ 0 → I.g.hasArc c 0 = false) (w : ℕ → ℕ → ℕ) : ¬ C07.Walk I w := by
  intro hw
  have hcard := hw.once 1 (le_refl 1) (by omega)
  obtain ⟨pv, hpv⟩ := Finset.card_pos.1 (by rw [hcard]; exact Nat.one_pos)
  rw [Finset.mem_filter, Finset.mem_product, Finset.mem_range, Finset.mem_range] at hpv
  obtain ⟨⟨hp, hv⟩, hk⟩ := hpv
  have := walk_never_returns I hno w hw pv.2 hv pv.1 (by rw [hk]; exact Nat.one_ne_zero) (I.L - 1)
    (by omega) (by omega)
  exact this (hw.stop pv.2 hv)

/-- **(b) the strict sequence-based constraints have no solution**: a strict graph with non-negative travel times
    whose depot closes at `h`, before every customer's window ends, with at least one customer — for every number of
    vehicles and every sequence length `L ≥ 3` no binary vector satisfies the constraints the object reports -/
theorem strict_seq_infeasible_when_depot_closes_first (I : SeqInst) (d : MPData) (hd : I.data = some d)
    (hL : 3 ≤ I.L) (hN : 2 ≤ I.g.nodes.length) (hs : C07.StrictArcs I.g)
    (hnn : ∀ i j a, I.g.arc? i j = some a → 0 ≤ a.time) (h : ℚ) (hh : I.g.hi 0 = some h)
    (hc : ∀ c, 0 < c → c < I.g.nodes.length → ∀ b, I.g.hi c = some b → h < b) :
    ∀ x, IsBin d.n x → d.feasibleB x = false := by
  intro x hx
  cases hfe : d.feasibleB x with
  | false => rfl
  | true =>
    exfalso
    obtain ⟨w, hw, _⟩ := (C07.seq_feasible_iff_walks I d hd hL (by omega) x hx).1 hfe
    exact no_walks_without_return_arc I hN (no_strict_arc_into_early_depot I.g hs hnn h hh hc) w hw

/-- non-negative times can be checked on the stored list -/
theorem nonneg_of_all (g : Graph) (h : ∀ e ∈ g.arcs, 0 ≤ e.2.time) :
    ∀ i j a, g.arc? i j = some a → 0 ≤ a.time := by
  intro i j a ha
  unfold Graph.arc? dictGet at ha
  cases hf : g.arcs.find? (fun e => e.1 = (i, j)) with
  | none => rw [hf] at ha; cases ha
  | some e =>
    rw [hf] at ha
    simp only [Option.map_some, Option.some.injEq] at ha
    subst ha
    exact h e (List.mem_of_find?_eq_some hf)

/-- one strict `add_arc` call with a non-negative travel time keeps: self-consistency, the strict rule, the
    non-negativity of the stored travel times, and the node list -/
theorem strict_addArc_keeps (g : Graph) (hg : C15.Inv g) (hs : C07.StrictArcs g)
    (hnn : ∀ e ∈ g.arcs, 0 ≤ e.2.time) (o d : String) (t c : ℚ) (ht : 0 ≤ t) :
    C15.Inv (gstep (.seq true) g (.addArc o d t c)).1 ∧ C07.StrictArcs (gstep (.seq true) g (.addArc o d t c)).1 ∧
    (∀ e ∈ (gstep (.seq true) g (.addArc o d t c)).1.arcs, 0 ≤ e.2.time) ∧
    (gstep (.seq true) g (.addArc o d t c)).1.nodes = g.nodes := by
  refine ⟨C15.gstep_inv _ g _ hg, C07.strict_step' g hg hs _, ?_⟩
  show (∀ e ∈ (addArcWith g o d t c (fun i => true && i != 0)).1.arcs, 0 ≤ e.2.time) ∧
    (addArcWith g o d t c (fun i => true && i != 0)).1.nodes = g.nodes
  cases hi : g.indexOf? o with
  | none => rw [C15.addArcWith_err _ _ _ _ _ _ (Or.inl hi)]; exact ⟨hnn, rfl⟩
  | some i =>
    cases hj : g.indexOf? d with
    | none => rw [C15.addArcWith_err _ _ _ _ _ _ (Or.inr hj)]; exact ⟨hnn, rfl⟩
    | some j =>
      rw [C15.addArcWith_eq g o d t c _ i j hi hj]
      split_ifs
      · refine ⟨?_, rfl⟩
        intro e he
        rcases mem_dictSet he with rfl | he
        · exact ht
        · exact hnn e he
      · exact ⟨hnn, rfl⟩

/-- **(b) … whatever arcs are added**: starting from a self-consistent strict graph with non-negative travel times
    whose depot closes at `h`, before every customer's window ends, ANY sequence of strict `add_arc` calls with
    non-negative travel times (accepted or refused) leaves a graph without any arc `c → depot` -/
theorem no_strict_arc_into_early_depot_after_adding_arcs (g : Graph) (hg : C15.Inv g) (hs : C07.StrictArcs g)
    (hnn : ∀ e ∈ g.arcs, 0 ≤ e.2.time) (h : ℚ) (hh : g.hi 0 = some h)
    (hc : ∀ c, 0 < c → c < g.nodes.length → ∀ b, g.hi c = some b → h < b)
    (calls : List (String × String × ℚ × ℚ)) (hcalls : ∀ op ∈ calls, 0 ≤ op.2.2.1) :
    ∀ c, c ≠ 0 →
      (grun (.seq true) g (calls.map fun op => .addArc op.1 op.2.1 op.2.2.1 op.2.2.2)).hasArc c 0 = false := by
  have key : ∀ (calls : List (String × String × ℚ × ℚ)) (g1 : Graph), C15.Inv g1 → C07.StrictArcs g1 →
      (∀ e ∈ g1.arcs, 0 ≤ e.2.time) → g1.nodes = g.nodes → (∀ op ∈ calls, 0 ≤ op.2.2.1) →
      C07.StrictArcs (grun (.seq true) g1 (calls.map fun op => .addArc op.1 op.2.1 op.2.2.1 op.2.2.2)) ∧
      (∀ e ∈ (grun (.seq true) g1 (calls.map fun op => .addArc op.1 op.2.1 op.2.2.1 op.2.2.2)).arcs,
        0 ≤ e.2.time) ∧
      (grun (.seq true) g1 (calls.map fun op => .addArc op.1 op.2.1 op.2.2.1 op.2.2.2)).nodes = g.nodes := by
    intro calls
    induction calls with
    | nil => intro g1 _ h2 h3 h4 _; exact ⟨h2, h3, h4⟩
    | cons op rest ih =>
      intro g1 h1 h2 h3 h4 h5
      obtain ⟨k1, k2, k3, k4⟩ := strict_addArc_keeps g1 h1 h2 h3 op.1 op.2.1 op.2.2.1 op.2.2.2
        (h5 op List.mem_cons_self)
      exact ih _ k1 k2 k3 (k4.trans h4) (fun op' hop => h5 op' (List.mem_cons_of_mem _ hop))
  obtain ⟨k2, k3, k4⟩ := key calls g hg hs hnn rfl hcalls
  refine no_strict_arc_into_early_depot _ k2 (nonneg_of_all _ k3) h ?_ ?_
  · rw [Graph.hi_congr_nodes k4]; exact hh
  · intro c h0 h1 b hb
    rw [Graph.hi_congr_nodes k4] at hb
    rw [k4] at h1
    exact hc c h0 h1 b hb

/-! ## 4. non-vacuity: the two witness instances -/

/-- finding (a): depot `D` with window `[0, 5]`, customer `a` with window `[6, 8]`, arcs `D ↔ a` of time 1 -/
def witA : Graph :=
  { nodes := [⟨"D", 0, 0, some 5⟩, ⟨"a", 1, 6, some 8⟩]
    arcs := [((0, 1), ⟨"D", "a", 1, 1⟩), ((1, 0), ⟨"a", "D", 1, 1⟩)]
    cap := some 1
    init := some 1 }

theorem witA_nonneg : ∀ i j a, witA.arc? i j = some a → 0 ≤ a.time :=
  nonneg_of_all witA (by decide +kernel)

/-- all hypotheses of `no_valid_route_when_depot_closes_first` hold on it (for every capacity / initial load) -/
example (cap init : ℚ) : ¬ ∃ r, C06.ValidRoute witA cap init r ∧ 1 ∈ r :=
  no_valid_route_when_depot_closes_first witA witA_nonneg cap init 1 (by decide) 5 (by decide +kernel)
    (by decide +kernel)

/-- concretely: the only candidate `D a D` is rejected (arrival at `a` at 6, back at the depot at 7 > 5) -/
example : C06.follow witA 1 0 [1, 0] 0 1 0 = none := by decide +kernel

/-- the empty pool on it satisfies the hypotheses of the pool-level statement -/
example : ∀ x, IsBin ({ g := witA } : PathInst).data.n x → ({ g := witA } : PathInst).data.feasibleB x = false :=
  path_infeasible_any_arcs witA 1 (by decide) (by decide +kernel) 5 (by decide +kernel) (by decide +kernel)
    witA rfl witA_nonneg { g := witA } rfl 1 1 (C06.poolInv_init witA) (fun k hk => by simp at hk)

/-- finding (b): depot `D` with window `[0, 10]`, customer `a` with window `[1, 20]`; the strict object built from
    the graph with arcs `D ↔ a` of time 1 (one vehicle, three positions) -/
def witBsrc : Graph :=
  { nodes := [⟨"D", 0, 0, some 10⟩, ⟨"a", 0, 1, some 20⟩]
    arcs := [((0, 1), ⟨"D", "a", 1, 1⟩), ((1, 0), ⟨"a", "D", 1, 1⟩)] }

def witB : SeqInst := ((SeqInst.new witBsrc true).setMaxVehicles 1).setMaxSeqLen 3

/-- the strict constructor has dropped the arc `a → D` (20 + 1 > 10); `D → a` and the self-arc remain -/
example : witB.g.arcs.map (·.1) = [(0, 1), (0, 0)] := by decide +kernel

theorem witBsrc_inv : C15.Inv witBsrc := C15.nv_inv_of_invB _ (by decide +kernel)

theorem witB_strict : C07.StrictArcs witB.g := (C07.new_strict_arcs witBsrc witBsrc_inv).1

theorem witB_nonneg : ∀ i j a, witB.g.arc? i j = some a → 0 ≤ a.time :=
  nonneg_of_all witB.g (by decide +kernel)

theorem witB_cust : ∀ c, 0 < c → c < witB.g.nodes.length → ∀ b, witB.g.hi c = some b → (10 : ℚ) < b := by
  intro c h0 h1 b hb
  have h3 : witB.g.nodes.length = 2 := by decide +kernel
  have : c = 1 := by omega
  subst this
  have : witB.g.hi 1 = some 20 := by decide +kernel
  rw [this] at hb
  cases hb
  norm_num

/-- all hypotheses of `no_strict_arc_into_early_depot` hold on it -/
example : ∀ c, c ≠ 0 → witB.g.hasArc c 0 = false :=
  no_strict_arc_into_early_depot witB.g witB_strict witB_nonneg 10 (by decide +kernel) witB_cust

/-- … and those of the corollary: the constraint data exist and have no binary solution -/
def witBd : MPData := witB.data.get (by decide +kernel)
theorem witB_data : witB.data = some witBd := (Option.some_get _).symm

example : ∀ x, IsBin witBd.n x → witBd.feasibleB x = false :=
  strict_seq_infeasible_when_depot_closes_first witB witBd witB_data (by decide) (by decide +kernel) witB_strict
    witB_nonneg 10 (by decide +kernel) witB_cust

/-- all hypotheses of `no_strict_arc_into_early_depot_after_adding_arcs` hold on it, e.g. for these three calls -/
theorem witB_inv : C15.Inv witB.g := (C07.new_strict_arcs witBsrc witBsrc_inv).2

example : ∀ c, c ≠ 0 → (grun (.seq true) witB.g
    ([("a", "D", 1, 1), ("a", "D", 0, 0), ("D", "a", 3, 1)].map
      fun op => .addArc op.1 op.2.1 op.2.2.1 op.2.2.2)).hasArc c 0 = false :=
  no_strict_arc_into_early_depot_after_adding_arcs witB.g witB_inv witB_strict (by decide +kernel) 10
    (by decide +kernel) witB_cust _ (by decide +kernel)

/-- the same after ANY further strict `add_arc` calls (here: trying to put `a → D` back, and adding it with another
    travel time): the strict rule refuses them, as the theorem predicts -/
example : (grun (.seq true) witB.g [.addArc "a" "D" 1 1, .addArc "a" "D" 0 0]).hasArc 1 0 = false := by
  decide +kernel

end Vrp.C09
