import VrpModel.Export
import VrpProofs.Lemmas.QuboBridge
import VrpProofs.Props.C01
import VrpProofs.Props.C04
import VrpProofs.Lemmas.Export
import Mathlib.Data.Rat.Floor
import Mathlib.Algebra.Order.Field.Rat
import Mathlib.Algebra.Order.Floor.Ring
import Mathlib.Tactic.Ring
import Mathlib.Tactic.Linarith

/-!
# C10 — Exported problem files represent the in-memory problem (record level)
-/
namespace Vrp.C10
open Vrp Finset

/-- the coefficient the file should carry at `(i, j)`: the rounded diagonal term (from `d`) resp. the rounded
    off-diagonal entry, `0` where the in-memory coefficient is zero (no record is written) -/
def coeff100 (M : Mat) (d : Vec) (i j : ℕ) : ℤ :=
  if i = j then (if d i = 0 then 0 else round2 (d i)) else (if M i j = 0 then 0 else round2 (M i j))

/-! ## helper lemmas -/

theorem rat_floor_eq (q : ℚ) : q.floor = ⌊q⌋ := rfl

theorem diag_keys (n : ℕ) (M : Mat) (d : Vec) (c : ℚ) :
    ((exportFile n M d c).diag.map fun r => (r.i, r.j)) =
      (List.range n).filterMap fun i => if d i = 0 then none else some (i, i) := by
  simp only [exportFile, List.map_filterMap]
  congr 1; funext i; split_ifs <;> rfl

theorem off_keys (n : ℕ) (M : Mat) (d : Vec) (c : ℚ) :
    ((exportFile n M d c).off.map fun r => (r.i, r.j)) =
      (List.range n).flatMap fun r => (List.range n).filterMap fun c =>
        if r = c ∨ M r c = 0 then none else some (r, c) := by
  simp only [exportFile, List.map_flatMap, List.map_filterMap]
  congr 1; funext i; congr 1; funext j; split_ifs <;> rfl

/-! ## statements -/

/-- rounding to two decimals is the identity on multiples of 0.01 -/
theorem round2_id_on_hundredths (z : ℤ) : round2 ((z : ℚ) / 100) = z := by
  have h : (z : ℚ) / 100 * 100 = z := by ring
  simp only [round2, h, Rat.floor_intCast, sub_self]
  norm_num

/-- rounding error is at most half a hundredth -/
theorem round2_error (q : ℚ) : |(round2 q : ℚ) / 100 - q| ≤ 1 / 200 := by
  have h1 : ((q * 100).floor : ℚ) ≤ q * 100 := by rw [rat_floor_eq]; exact Int.floor_le _
  have h2 : q * 100 < ((q * 100).floor : ℚ) + 1 := by rw [rat_floor_eq]; exact Int.lt_floor_add_one _
  rw [abs_le]
  simp only [round2]
  split_ifs with a b c
  all_goals (push_cast; constructor <;> linarith)

/-- **diagonal records**: exactly the non-zero diagonal terms, at their own index, rounded -/
theorem export_diag_mem (n : ℕ) (M : Mat) (d : Vec) (c : ℚ) (r : Rec) :
    r ∈ (exportFile n M d c).diag ↔ ∃ i < n, d i ≠ 0 ∧ r = ⟨i, i, round2 (d i), decide (d i < 0)⟩ := by
  simp only [exportFile, List.mem_filterMap, List.mem_range]
  constructor
  · rintro ⟨i, hi, h⟩
    by_cases h0 : d i = 0
    · simp [h0] at h
    · rw [if_neg h0] at h
      exact ⟨i, hi, h0, (Option.some.inj h).symm⟩
  · rintro ⟨i, hi, h0, rfl⟩
    exact ⟨i, hi, by rw [if_neg h0]⟩

/-- **off-diagonal records**: exactly the non-zero off-diagonal entries, at their own indices, rounded -/
theorem export_off_mem (n : ℕ) (M : Mat) (d : Vec) (c : ℚ) (r : Rec) :
    r ∈ (exportFile n M d c).off ↔
      ∃ i < n, ∃ j < n, i ≠ j ∧ M i j ≠ 0 ∧ r = ⟨i, j, round2 (M i j), decide (M i j < 0)⟩ := by
  simp only [exportFile, List.mem_flatMap, List.mem_filterMap, List.mem_range]
  constructor
  · rintro ⟨i, hi, j, hj, h⟩
    by_cases h0 : i = j ∨ M i j = 0
    · simp [h0] at h
    · rw [if_neg h0] at h
      push Not at h0
      exact ⟨i, hi, j, hj, h0.1, h0.2, (Option.some.inj h).symm⟩
  · rintro ⟨i, hi, j, hj, hij, h0, rfl⟩
    refine ⟨i, hi, j, hj, ?_⟩
    rw [if_neg]; push Not; exact ⟨hij, h0⟩

/-- **each coefficient exactly once, nothing else**: the index pairs of all records are pairwise distinct -/
theorem export_each_coeff_once (n : ℕ) (M : Mat) (d : Vec) (c : ℚ) :
    (((exportFile n M d c).diag ++ (exportFile n M d c).off).map fun r => (r.i, r.j)).Nodup := by
  rw [List.map_append, diag_keys, off_keys, List.nodup_append]
  refine ⟨?_, ?_, ?_⟩
  · refine List.Nodup.filterMap ?_ List.nodup_range
    intro a a' b h h'
    split_ifs at h h' <;> simp at h h'
    rw [← h] at h'
    exact (Prod.mk.inj h').1.symm
  · rw [List.nodup_flatMap]
    constructor
    · intro r _
      refine List.Nodup.filterMap ?_ List.nodup_range
      intro a a' b h h'
      split_ifs at h h' <;> simp at h h'
      rw [← h] at h'
      exact (Prod.mk.inj h').2.symm
    · refine List.Pairwise.imp ?_ List.nodup_range
      intro a b hab
      simp only [Function.onFun, List.disjoint_left, List.mem_filterMap, List.mem_range]
      rintro ⟨x, y⟩ ⟨j, _, h⟩ ⟨j', _, h'⟩
      split_ifs at h h'; simp at h h'
      exact hab (h.1.trans h'.1.symm)
  · simp only [List.mem_filterMap, List.mem_flatMap, List.mem_range]
    rintro ⟨x, y⟩ ⟨i, _, h⟩ ⟨x', y'⟩ ⟨r, _, j, _, h'⟩
    split_ifs at h h' with h1 h2; simp at h h'
    push Not at h2
    intro heq
    simp at heq
    omega

/-- the loader recovers, entry by entry, the rounded in-memory coefficients -/
theorem load_entry (n : ℕ) (M : Mat) (d : Vec) (c : ℚ) (i j : ℕ) (hi : i < n) (hj : j < n) :
    (loadFile (exportFile n M d c)).entry i j = coeff100 M d i j := by
  rw [loadFile_entry]
  have hnd := export_each_coeff_once n M d c
  have key : ∀ r : Rec, r ∈ (exportFile n M d c).diag ++ (exportFile n M d c).off →
      r.i = i → r.j = j → r.h = coeff100 M d i j := by
    intro r hr hri hrj
    rcases List.mem_append.1 hr with hr | hr
    · obtain ⟨k, _, hk0, rfl⟩ := (export_diag_mem n M d c r).1 hr
      simp only at hri hrj
      subst hri; subst hrj
      simp [coeff100, hk0]
    · obtain ⟨k, _, l, _, hkl, hk0, rfl⟩ := (export_off_mem n M d c r).1 hr
      simp only at hri hrj
      subst hri; subst hrj
      simp [coeff100, hkl, hk0]
  by_cases hex : ∃ r ∈ (exportFile n M d c).diag ++ (exportFile n M d c).off, r.i = i ∧ r.j = j
  · obtain ⟨r, hr, hri, hrj⟩ := hex
    have := entryOf_eq_of_mem _ hnd r hr
    rw [hri, hrj] at this
    rw [this, key r hr hri hrj]
  · push Not at hex
    rw [entryOf_eq_zero _ _ _ (fun r hr h => hex r hr h.1 h.2)]
    unfold coeff100
    by_cases hij : i = j
    · subst hij
      rw [if_pos rfl]
      by_cases h0 : d i = 0
      · rw [if_pos h0]
      · exfalso
        exact hex _ (List.mem_append_left _ ((export_diag_mem n M d c _).2 ⟨i, hi, h0, rfl⟩)) rfl rfl
    · rw [if_neg hij]
      by_cases h0 : M i j = 0
      · rw [if_pos h0]
      · exfalso
        exact hex _ (List.mem_append_right _ ((export_off_mem n M d c _).2 ⟨i, hi, j, hj, hij, h0, rfl⟩)) rfl rfl

/-- all record indices are below `n` -/
theorem export_rec_lt (n : ℕ) (M : Mat) (d : Vec) (c : ℚ) (r : Rec)
    (hr : r ∈ (exportFile n M d c).diag ++ (exportFile n M d c).off) : r.i < n ∧ r.j < n := by
  rcases List.mem_append.1 hr with hr | hr
  · obtain ⟨k, hk, _, rfl⟩ := (export_diag_mem n M d c r).1 hr
    exact ⟨hk, hk⟩
  · obtain ⟨k, hk, l, hl, _, _, rfl⟩ := (export_off_mem n M d c r).1 hr
    exact ⟨hk, hl⟩

/-- entries at or beyond the loaded dimension are zero -/
theorem load_entry_beyond_dim (f : ExportFile) (i j : ℕ)
    (h : (loadFile f).dim ≤ i ∨ (loadFile f).dim ≤ j) : (loadFile f).entry i j = 0 := by
  rw [loadFile_entry]
  refine entryOf_eq_zero _ _ _ (fun r hr hk => ?_)
  have := loadFile_mem_lt_dim f r hr
  rw [hk.1, hk.2] at this
  rcases h with h | h
  · exact absurd (lt_of_le_of_lt (le_max_left _ _) this) (not_lt.2 h)
  · exact absurd (lt_of_le_of_lt (le_max_right _ _) this) (not_lt.2 h)

/-- entries outside `0..n-1` are zero, the loaded dimension is at most `n` (trailing variables without any
    coefficient are absent from the file format), and the constant is the rounded constant -/
theorem load_shape (n : ℕ) (M : Mat) (d : Vec) (c : ℚ) :
    (loadFile (exportFile n M d c)).dim ≤ n ∧ (loadFile (exportFile n M d c)).const = round2 c ∧
    ∀ i j, (n ≤ i ∨ n ≤ j) → (loadFile (exportFile n M d c)).entry i j = 0 := by
  refine ⟨?_, rfl, ?_⟩
  · cases hl : (exportFile n M d c).diag ++ (exportFile n M d c).off with
    | nil => simp [loadFile, hl]
    | cons a t =>
      have hlt : ∀ r ∈ (exportFile n M d c).diag ++ (exportFile n M d c).off, max r.i r.j < n :=
        fun r hr => max_lt (export_rec_lt n M d c r hr).1 (export_rec_lt n M d c r hr).2
      have hn : 0 < n := lt_of_le_of_lt (Nat.zero_le _) (hlt a (by rw [hl]; exact List.mem_cons_self ..))
      simp only [loadFile, hl, List.isEmpty_cons]
      rw [← hl]
      refine Nat.succ_le_of_lt (foldl_max_lt _ _ _ hn ?_)
      intro x hx
      obtain ⟨r, hr, rfl⟩ := List.mem_map.1 hx
      exact hlt r hr
  · intro i j hij
    rw [loadFile_entry]
    refine entryOf_eq_zero _ _ _ (fun r hr hk => ?_)
    have := export_rec_lt n M d c r hr
    omega

/-- **reading an Ising file back gives the energy function of the rounded in-memory problem**, at every
    spin vector (in units of 1/100; sums over all `n` variables — the variables beyond the loaded dimension
    have no coefficient) -/
theorem load_export_energy (C : Container) (s : ℕ → ℤ) :
    (loadFile C.exportIsing).isingEnergy100 s
      = sumToI C.n (fun i => sumToI C.n fun j => if i = j then 0 else coeff100 C.J C.h i j * s i * s j)
        + sumToI C.n (fun i => coeff100 C.J C.h i i * s i) + round2 C.ci := by
  obtain ⟨hdim, hconst, _⟩ := load_shape C.n C.J C.h C.ci
  unfold Container.exportIsing
  unfold Loaded.isingEnergy100
  rw [hconst]
  simp only [sumToI_eq]
  set L := loadFile (exportFile C.n C.J C.h C.ci) with hL
  have h2 := sum2_extend L.dim C.n hdim (fun i j => if i = j then 0 else L.entry i j * s i * s j)
    (fun i j hij => by
      split_ifs
      · rfl
      · rw [load_entry_beyond_dim _ i j hij]; ring)
  have h1 := sum1_extend L.dim C.n hdim (fun i => L.entry i i * s i)
    (fun i hi => by rw [load_entry_beyond_dim _ i i (Or.inl hi)]; ring)
  rw [h1, h2]
  congr 2
  · refine sum_congr rfl (fun i hi => sum_congr rfl (fun j hj => ?_))
    rw [hL, load_entry C.n C.J C.h C.ci i j (mem_range.1 hi) (mem_range.1 hj)]
  · refine sum_congr rfl (fun i hi => ?_)
    rw [hL, load_entry C.n C.J C.h C.ci i i (mem_range.1 hi) (mem_range.1 hi)]

/-- energy (in units of 1/100) of the loaded QUBO at the integer assignment `x`: the loader returns one matrix
    whose quadratic form is evaluated with the diagonal in place; variables at or beyond `dim` have no
    coefficient -/
def _root_.Vrp.Loaded.quboEnergy100 (L : Loaded) (x : ℕ → ℤ) : ℤ :=
  sumToI L.dim (fun i => sumToI L.dim fun j => L.entry i j * x i * x j) + L.const

/-- **reading a QUBO file back gives the quadratic form of the rounded in-memory QUBO**, at every assignment
    (in units of 1/100; sums over all `n` variables).  QUBO counterpart of `load_export_energy`, with `J, h, ci`
    replaced by `Q, diag Q, cq`; since `coeff100 Q (diag Q) i i` is the rounded diagonal entry, the diagonal
    stays inside the double sum (on binary `x` the term `coeff100 … i i * x i * x i` is the linear term) -/
theorem load_export_energy_qubo (C : Container) (x : ℕ → ℤ) :
    (loadFile C.exportQubo).quboEnergy100 x
      = sumToI C.n (fun i => sumToI C.n fun j => coeff100 C.Q (fun i => C.Q i i) i j * x i * x j)
        + round2 C.cq := by
  obtain ⟨hdim, hconst, _⟩ := load_shape C.n C.Q (fun i => C.Q i i) C.cq
  unfold Container.exportQubo
  unfold Loaded.quboEnergy100
  rw [hconst]
  simp only [sumToI_eq]
  set L := loadFile (exportFile C.n C.Q (fun i => C.Q i i) C.cq) with hL
  have h2 := sum2_extend L.dim C.n hdim (fun i j => L.entry i j * x i * x j)
    (fun i j hij => by rw [load_entry_beyond_dim _ i j hij]; ring)
  rw [h2]
  congr 1
  refine sum_congr rfl (fun i hi => sum_congr rfl (fun j hj => ?_))
  rw [hL, load_entry C.n C.Q (fun i => C.Q i i) C.cq i j (mem_range.1 hi) (mem_range.1 hj)]

/-- on a binary assignment the loaded QUBO energy splits into the off-diagonal quadratic part and the linear
    part carried by the diagonal (the shape of `load_export_energy`) -/
theorem load_export_energy_qubo_binary (C : Container) (x : ℕ → ℤ) (hx : ∀ i, x i = 0 ∨ x i = 1) :
    (loadFile C.exportQubo).quboEnergy100 x
      = sumToI C.n (fun i => sumToI C.n fun j =>
          if i = j then 0 else coeff100 C.Q (fun i => C.Q i i) i j * x i * x j)
        + sumToI C.n (fun i => coeff100 C.Q (fun i => C.Q i i) i i * x i) + round2 C.cq := by
  rw [load_export_energy_qubo]
  simp only [sumToI_eq]
  congr 1
  rw [← sum_add_distrib]
  refine sum_congr rfl (fun i hi => ?_)
  rw [← add_sum_erase _ _ hi, ← add_sum_erase (range C.n) (fun j => if i = j then 0 else _) hi]
  have hxx : x i * x i = x i := by rcases hx i with h | h <;> rw [h] <;> rfl
  rw [if_pos rfl, zero_add, mul_assoc, hxx, add_comm]
  congr 1
  refine sum_congr rfl (fun j hj => ?_)
  rw [if_neg (fun h => (mem_erase.1 hj).1 h.symm)]

/-- an integer-valued QUBO (every feasibility instance: A, b, R integral, ρ = 1) has Ising coefficients that
    are multiples of 1/4, hence of 0.01 -/
theorem feas_ising_coeffs_hundredths (n : ℕ) (Q : Mat) (c : ℚ) (hQ : ∀ i j, ∃ z : ℤ, Q i j = z) (hc : ∃ z : ℤ, c = z) :
    (∀ i j, ∃ z : ℤ, isingJ Q i j = (z : ℚ) / 100) ∧ (∀ i, ∃ z : ℤ, isingH n Q i = (z : ℚ) / 100) ∧
    (∃ z : ℤ, isingC n Q c = (z : ℚ) / 100) := by
  obtain ⟨zc, rfl⟩ := hc
  refine ⟨fun i j => ?_, fun i => ?_, ?_⟩
  · obtain ⟨z, hz⟩ := hQ i j
    by_cases hij : i = j
    · exact ⟨0, by simp [isingJ, hij]⟩
    · exact ⟨25 * z, by simp only [isingJ, if_neg hij, hz]; push_cast; ring⟩
  · obtain ⟨a, ha⟩ := sumTo_int n (fun j => Q j i) (fun j => hQ j i)
    obtain ⟨b, hb⟩ := sumTo_int n (fun j => Q i j) (fun j => hQ i j)
    exact ⟨-(25 * (a + b)), by simp only [isingH, ha, hb]; push_cast; ring⟩
  · obtain ⟨a, ha⟩ := sumTo_int n (fun i => sumTo n fun j => Q i j)
      (fun i => sumTo_int n (fun j => Q i j) (fun j => hQ i j))
    obtain ⟨b, hb⟩ := sumTo_int n (fun i => Q i i) (fun i => hQ i i)
    exact ⟨25 * (a + b) + 100 * zc, by simp only [isingC, ha, hb]; push_cast; ring⟩

theorem round2_exact (q : ℚ) (h : ∃ z : ℤ, q = (z : ℚ) / 100) : (round2 q : ℚ) = 100 * q := by
  obtain ⟨z, rfl⟩ := h
  rw [round2_id_on_hundredths]; ring

theorem coeff100_off_exact (M : Mat) (d : Vec) (i j : ℕ) (hij : i ≠ j) (h : ∃ z : ℤ, M i j = (z : ℚ) / 100) :
    (coeff100 M d i j : ℚ) = 100 * M i j := by
  unfold coeff100
  rw [if_neg hij]
  by_cases h0 : M i j = 0
  · rw [if_pos h0, h0]; simp
  · rw [if_neg h0, round2_exact _ h]

theorem coeff100_diag_exact (M : Mat) (d : Vec) (i : ℕ) (h : ∃ z : ℤ, d i = (z : ℚ) / 100) :
    (coeff100 M d i i : ℚ) = 100 * d i := by
  unfold coeff100
  rw [if_pos rfl]
  by_cases h0 : d i = 0
  · rw [if_pos h0, h0]; simp
  · rw [if_neg h0, round2_exact _ h]

/-- … so the file carries them exactly: the loaded energy equals 100 × the in-memory Ising energy -/
theorem load_export_exact_feasibility (n : ℕ) (Q : Mat) (c : ℚ) (pattern : String)
    (hQ : ∀ i j, ∃ z : ℤ, applyPattern (parsePattern pattern) Q i j = z) (hc : ∃ z : ℤ, c = z) (s : ℕ → ℤ) :
    let C := Container.mk' n Q c pattern
    ((loadFile C.exportIsing).isingEnergy100 s : ℚ) = 100 * evalIsing C.n C.J C.h C.ci (fun i => (s i : ℚ)) := by
  intro C
  obtain ⟨hJ, hH, hC⟩ := feas_ising_coeffs_hundredths n (applyPattern (parsePattern pattern) Q) c hQ hc
  have hn : C.n = n := rfl
  have hCJ : C.J = isingJ (applyPattern (parsePattern pattern) Q) := rfl
  have hCh : C.h = isingH n (applyPattern (parsePattern pattern) Q) := rfl
  have hCc : C.ci = isingC n (applyPattern (parsePattern pattern) Q) c := rfl
  rw [load_export_energy, evalIsing_eq]
  unfold G.evalIsing G.quad
  simp only [sumToI_eq]
  push_cast
  rw [mul_add, mul_add, Finset.mul_sum, Finset.mul_sum]
  congr 2
  · refine sum_congr rfl (fun i _ => ?_)
    rw [Finset.mul_sum]
    refine sum_congr rfl (fun j _ => ?_)
    by_cases hij : i = j
    · subst hij
      rw [if_pos rfl, hCJ, C01.ising_diag_zero]; ring
    · rw [if_neg hij, coeff100_off_exact _ _ i j hij (by rw [hCJ]; exact hJ i j)]; ring
  · refine sum_congr rfl (fun i _ => ?_)
    rw [coeff100_diag_exact _ _ i (by rw [hCh]; exact hH i)]; ring
  · exact round2_exact _ (by rw [hCc]; exact hC)

/-- regression of the model of the pinned loader: a valid file whose last variable occurs only as a column
    (Ising export of [[1,0,0],[0,0,4],[0,0,-2]]) fails the old `max row == max col` test -/
theorem loadPinned_rejects_valid :
    loadPinnedAccepts (Container.mk' 3 (matOf [[1,0,0],[0,0,4],[0,0,-2]]) 0 "none").exportIsing = false := by
  decide +kernel

/-! ## non-vacuity -/

/-- dense rows of the feasibility QUBO (`ρ = 1`) of the path-based program `C04.nv_P.data` (pool built through
    `add_route` on a reachable graph: 3 routes, 2 customers), as the driver hands them to the container -/
def nv_rows : List (List ℚ) := [[-2, 1, 1], [1, -1, 0], [1, 0, -1]]

example : tabulate2 3 3 (C04.nv_P.data.quboQ (defaultRho C04.nv_P.suffPenalty true) true) = nv_rows ∧
    C04.nv_P.data.quboK (defaultRho C04.nv_P.suffPenalty true) = 2 := by decide +kernel

/-- integrality hypothesis `hQ` of `feas_ising_coeffs_hundredths` / `load_export_exact_feasibility` -/
theorem nv_rows_int : ∀ i j, ∃ z : ℤ, matOf nv_rows i j = z := by
  have h : ∀ l ∈ nv_rows, ∀ q ∈ l, ∃ z : ℤ, q = z := by
    intro l hl q hq
    have : q = -2 ∨ q = 1 ∨ q = 0 ∨ q = -1 := by
      simp only [nv_rows, List.mem_cons, List.not_mem_nil, or_false] at hl
      rcases hl with rfl | rfl | rfl <;> simp at hq <;> tauto
    rcases this with rfl | rfl | rfl | rfl
    exacts [⟨-2, by norm_num⟩, ⟨1, by norm_num⟩, ⟨0, by norm_num⟩, ⟨-1, by norm_num⟩]
  intro i j
  unfold matOf
  by_cases hi : i < nv_rows.length
  · by_cases hj : j < nv_rows[i].length
    · have e : (nv_rows.getD i []).getD j 0 = nv_rows[i][j] := by
        simp [List.getD_eq_getElem?_getD, List.getElem?_eq_getElem hi, List.getElem?_eq_getElem hj]
      rw [e]; exact h _ (List.getElem_mem hi) _ (List.getElem_mem hj)
    · exact ⟨0, by simp [List.getD_eq_getElem?_getD, List.getElem?_eq_getElem hi,
        List.getElem?_eq_none (not_lt.1 hj)]⟩
  · exact ⟨0, by simp [List.getD_eq_getElem?_getD, List.getElem?_eq_none (not_lt.1 hi)]⟩

theorem nv_pat : parsePattern "none" = .asIs := by decide +kernel

/-- all hypotheses of `load_export_exact_feasibility` hold; conclusion at the spins `(-1, -1, -1)` (all three
    routes selected: both customers covered twice, penalty 2) -/
def nv_s : ℕ → ℤ := fun _ => -1

example : ((loadFile (Container.mk' 3 (matOf nv_rows) 2 "none").exportIsing).isingEnergy100 nv_s : ℚ)
    = 100 * evalIsing 3 (Container.mk' 3 (matOf nv_rows) 2 "none").J (Container.mk' 3 (matOf nv_rows) 2 "none").h
        (Container.mk' 3 (matOf nv_rows) 2 "none").ci (fun i => (nv_s i : ℚ)) :=
  load_export_exact_feasibility 3 (matOf nv_rows) 2 "none" (by rw [nv_pat]; exact nv_rows_int) ⟨2, by norm_num⟩ nv_s

example : (loadFile (Container.mk' 3 (matOf nv_rows) 2 "none").exportIsing).isingEnergy100 nv_s = 200 ∧
    (loadFile (Container.mk' 3 (matOf nv_rows) 2 "none").exportIsing).dim = 3 ∧
    (Container.mk' 3 (matOf nv_rows) 2 "none").exportIsing.off.length = 4 := by decide +kernel

/-- `load_entry` (hypotheses `i < n`, `j < n`) and `load_export_energy_qubo_binary` (binary `x`) on the same container -/
example : (loadFile (Container.mk' 3 (matOf nv_rows) 2 "none").exportQubo).entry 0 1 = 100 :=
  (load_entry _ _ _ _ 0 1 (by decide +kernel) (by decide +kernel)).trans (by decide +kernel)

example : (loadFile (Container.mk' 3 (matOf nv_rows) 2 "none").exportQubo).quboEnergy100 (fun i => if i = 0 then 0 else 1) = 0 := by
  rw [load_export_energy_qubo_binary _ _ (fun i => by by_cases h : i = 0 <;> simp [h])]; decide +kernel

end Vrp.C10
