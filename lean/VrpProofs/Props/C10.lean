import VrpModel.Export
import Mathlib.Algebra.Order.Field.Rat
import Mathlib.Tactic.Ring

namespace Vrp.C10
open Vrp

/-- placeholder until the property theorems are merged -/
theorem exportFile_const (n : ℕ) (M : Mat) (d : Vec) (c : ℚ) : (exportFile n M d c).const = round2 c := rfl

end Vrp.C10
