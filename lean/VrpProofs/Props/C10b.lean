import VrpModel.ExportText
import VrpProofs.Props.C10
import VrpProofs.Lemmas.ExportText
/-!
# C10 (text level): reading back the text that `export` writes yields the records that were written

`VrpModel/ExportText.lean` renders an `ExportFile` to lines of characters exactly as `QUBOContainer.export`
does and mirrors `load_matrix` line by line.  The theorems below close the gap that `Props/C10.lean` left to
the byte comparison: the parser applied to the rendered text returns the record-level `loadFile`.
-/
namespace Vrp.C10b
open Vrp Vrp.Text

/-- the printed sign agrees with the rounded value (`-0.00` allowed) -/
def SignOK (h : Int) (neg : Bool) : Prop := (neg = true → h ≤ 0) ∧ (neg = false → 0 ≤ h)

def FileOK (f : ExportFile) : Prop :=
  SignOK f.const f.constNeg ∧ ∀ r ∈ f.diag ++ f.off, SignOK r.h r.neg

theorem parseNat_natChars (n : ℕ) : parseNat (natChars n) = some n := by
  exact et_parseNat_natChars n

/-- `float` of the `.2f` text, with any leading whitespace (`split('=')[1]` starts with a space) -/
theorem parseDec_fmt2 (h : ℤ) (neg space : Bool) (hs : SignOK h neg) (pre : List Char)
    (hpre : ∀ c ∈ pre, isWs c = true) : parseDec (pre ++ fmt2 h neg space) = some h := by
  exact et_parseDec_fmt2_sign h neg space hs pre hpre

theorem loadLine_recLine (cc : Char) (hcc : cc = '#' ∨ cc = 'c') (st : LState) (r : Rec) (hs : SignOK r.h r.neg) :
    loadLine cc st (recLine r)
      = some { st with rows := st.rows ++ [r.i], cols := st.cols ++ [r.j], data := st.data ++ [r.h] } := by
  exact et_loadLine_recLine cc hcc st r hs

theorem loadLine_constLine (cc : Char) (hcc : cc = '#' ∨ cc = 'c') (st : LState) (f : ExportFile)
    (hs : SignOK f.const f.constNeg) : loadLine cc st (constLine cc f) = some { st with const := f.const } := by
  exact et_loadLine_constLine cc hcc st f hs

theorem loadLine_comment (cc : Char) (hcc : cc = '#' ∨ cc = 'c') (st : LState) :
    loadLine cc st (cc :: diagText) = some st ∧ loadLine cc st (cc :: offText) = some st := by
  exact et_loadLine_comment cc hcc st

/-- **round trip**: the loader applied to the written text returns exactly the written records, the written
    constant and the square shape `max index + 1` (1 for a file without records, where `loadFile` says 0) -/
theorem load_render (cc : Char) (hcc : cc = '#' ∨ cc = 'c') (f : ExportFile) (hf : FileOK f) :
    loadText cc (renderLines cc f)
      = some { dim := max 1 (loadFile f).dim, entries := (loadFile f).entries, const := (loadFile f).const } := by
  exact et_load_render cc hcc f hf.1 hf.2

/-- what `export` writes is sign-consistent -/
theorem exportFile_fileOK (n : ℕ) (M : Mat) (d : Vec) (c : ℚ) : FileOK (exportFile n M d c) := by
  exact et_exportFile_sign n M d c

theorem load_render_export (cc : Char) (hcc : cc = '#' ∨ cc = 'c') (n : ℕ) (M : Mat) (d : Vec) (c : ℚ) :
    loadText cc (renderLines cc (exportFile n M d c))
      = some { dim := max 1 (loadFile (exportFile n M d c)).dim,
               entries := (loadFile (exportFile n M d c)).entries,
               const := (loadFile (exportFile n M d c)).const } :=
  load_render cc hcc _ (exportFile_fileOK n M d c)

/-- the text-level loader and the record-level loader give the same Ising energy at every spin vector -/
theorem text_load_energy (C : Container) (s : ℕ → ℤ) :
    ∃ L, loadText '#' (renderLines '#' C.exportIsing) = some L ∧
      L.isingEnergy100 s = (loadFile C.exportIsing).isingEnergy100 s := by
  refine ⟨_, load_render_export '#' (Or.inl rfl) C.n C.J C.h C.ci, ?_⟩
  exact et_energy_max_one (loadFile C.exportIsing) (et_loadFile_dim_zero _) s

/-- the shape `max 1 dim` that the text-level loader reports does not change the QUBO energy (QUBO counterpart of
    `et_energy_max_one`): a file without records has no entry, so the extra index contributes nothing -/
theorem qubo_energy_max_one (L : Loaded) (h : L.dim = 0 → L.entries = []) (x : ℕ → ℤ) :
    ({ dim := max 1 L.dim, entries := L.entries, const := L.const } : Loaded).quboEnergy100 x
      = L.quboEnergy100 x := by
  by_cases h0 : L.dim = 0
  · simp [Loaded.quboEnergy100, sumToI, Loaded.entry, h h0, h0]
  · have : max 1 L.dim = L.dim := by omega
    rw [this]

/-- QUBO counterpart of `text_load_energy`: the text-level loader (comment character `c`, as `export` writes QUBO
    files) and the record-level loader give the same QUBO energy at every assignment -/
theorem text_load_energy_qubo (C : Container) (x : ℕ → ℤ) :
    ∃ L, loadText 'c' (renderLines 'c' C.exportQubo) = some L ∧
      L.quboEnergy100 x = (loadFile C.exportQubo).quboEnergy100 x := by
  refine ⟨_, load_render_export 'c' (Or.inr rfl) C.n C.Q (fun i => C.Q i i) C.cq, ?_⟩
  exact qubo_energy_max_one (loadFile C.exportQubo) (et_loadFile_dim_zero _) x

/-- **text level, composed with `C10.load_export_energy_qubo`**: parsing the characters that `export` writes for the
    QUBO gives a matrix and a constant whose quadratic form is that of the ROUNDED in-memory QUBO, at every assignment
    (units of 1/100; `coeff100 Q (diag Q) i j` is the rounded coefficient written for `(i, j)`) -/
theorem text_load_export_energy_qubo (C : Container) (x : ℕ → ℤ) :
    ∃ L, loadText 'c' (renderLines 'c' C.exportQubo) = some L ∧
      L.quboEnergy100 x
        = sumToI C.n (fun i => sumToI C.n fun j => C10.coeff100 C.Q (fun i => C.Q i i) i j * x i * x j)
          + round2 C.cq := by
  obtain ⟨L, hL, hE⟩ := text_load_energy_qubo C x
  exact ⟨L, hL, hE.trans (C10.load_export_energy_qubo C x)⟩

/-- the same for binary assignments, with the diagonal as the linear term (`C10.load_export_energy_qubo_binary`) -/
theorem text_load_export_energy_qubo_binary (C : Container) (x : ℕ → ℤ) (hx : ∀ i, x i = 0 ∨ x i = 1) :
    ∃ L, loadText 'c' (renderLines 'c' C.exportQubo) = some L ∧
      L.quboEnergy100 x
        = sumToI C.n (fun i => sumToI C.n fun j =>
            if i = j then 0 else C10.coeff100 C.Q (fun i => C.Q i i) i j * x i * x j)
          + sumToI C.n (fun i => C10.coeff100 C.Q (fun i => C.Q i i) i i * x i) + round2 C.cq := by
  obtain ⟨L, hL, hE⟩ := text_load_energy_qubo C x
  exact ⟨L, hL, hE.trans (C10.load_export_energy_qubo_binary C x hx)⟩

/-- the Ising statement composed in the same way (`C10.load_export_energy`) -/
theorem text_load_export_energy (C : Container) (s : ℕ → ℤ) :
    ∃ L, loadText '#' (renderLines '#' C.exportIsing) = some L ∧
      L.isingEnergy100 s
        = sumToI C.n (fun i => sumToI C.n fun j => if i = j then 0 else C10.coeff100 C.J C.h i j * s i * s j)
          + sumToI C.n (fun i => C10.coeff100 C.J C.h i i * s i) + round2 C.ci := by
  obtain ⟨L, hL, hE⟩ := text_load_energy C s
  exact ⟨L, hL, hE.trans (C10.load_export_energy C s)⟩

/-- non-vacuity / regression: a concrete file with a negative value rounding to `-0.00`, a two-digit index and
    a value without sign -/
example :
    loadText '#' (renderLines '#' ⟨125, false, [⟨0, 0, 0, true⟩, ⟨12, 12, -50, true⟩], [⟨0, 12, 200, false⟩]⟩)
      = some { dim := 13, entries := [(0, 0, 0), (12, 12, -50), (0, 12, 200)], const := 125 } := by
  decide +kernel

/-- the same file written as a QUBO file (comment character `c`): read back with the same records, and its QUBO
    energy at `x = (1, 0, …, 0, 1)` (indices 0 and 12) is `0·1 − 50·1 + 200·1 + 125 = 275` hundredths -/
example :
    loadText 'c' (renderLines 'c' ⟨125, false, [⟨0, 0, 0, true⟩, ⟨12, 12, -50, true⟩], [⟨0, 12, 200, false⟩]⟩)
      = some { dim := 13, entries := [(0, 0, 0), (12, 12, -50), (0, 12, 200)], const := 125 } ∧
    ({ dim := 13, entries := [(0, 0, 0), (12, 12, -50), (0, 12, 200)], const := 125 } : Loaded).quboEnergy100
      (fun i => if i = 0 ∨ i = 12 then 1 else 0) = 275 := by
  decide +kernel

/-- a sign-inconsistent record is *not* read back (the hypothesis `FileOK` is needed) -/
example : loadText '#' (renderLines '#' ⟨0, false, [⟨0, 0, 5, true⟩], []⟩)
      ≠ some { dim := 1, entries := [(0, 0, 5)], const := 0 } := by
  decide +kernel

end Vrp.C10b
