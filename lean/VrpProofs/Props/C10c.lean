import VrpProofs.Props.C10
import Mathlib.Tactic.NormNum
import Mathlib.Tactic.SplitIfs
/-!
# C10 (third part): "exactly equal when all coefficients are multiples of 0.01" — in full generality

`Props/C10.lean` proves the exactness clause for integer-valued QUBOs (every feasibility instance).  The property
states it for EVERY problem whose coefficients are multiples of 0.01.  Here: for any container (any matrix, pattern,
constant) whose exported coefficients — Ising: off-diagonal couplings, fields, constant; QUBO: all entries, constant —
are multiples of 1/100, the loaded energy function equals the in-memory one exactly (×100, the file's unit), at every
spin vector / every assignment.
-/
namespace Vrp.C10
open Vrp Finset

/-- `q` is a multiple of 0.01 -/
def Hundredth (q : ℚ) : Prop := ∃ z : ℤ, q = (z : ℚ) / 100

/-- **Ising export, exact**: couplings with zero diagonal (as `get_Ising_J_h` produces them) whose off-diagonal
    entries, fields and constant are multiples of 0.01 are read back exactly -/
theorem load_export_exact_ising (C : Container) (hdiag : ∀ i, C.J i i = 0)
    (hJ : ∀ i j, i ≠ j → Hundredth (C.J i j)) (hH : ∀ i, Hundredth (C.h i)) (hC : Hundredth C.ci) (s : ℕ → ℤ) :
    ((loadFile C.exportIsing).isingEnergy100 s : ℚ) = 100 * evalIsing C.n C.J C.h C.ci (fun i => (s i : ℚ)) := by
  rw [load_export_energy, evalIsing_eq]
  unfold G.evalIsing G.quad
  simp only [sumToI_eq]
  push_cast
  rw [mul_add, mul_add, Finset.mul_sum, Finset.mul_sum]
  congr 2
  · refine sum_congr rfl (fun i _ => ?_)
    rw [Finset.mul_sum]
    refine sum_congr rfl (fun j _ => ?_)
    by_cases hij : i = j
    · subst hij
      rw [if_pos rfl, hdiag]; ring
    · rw [if_neg hij, coeff100_off_exact _ _ i j hij (hJ i j hij)]; ring
  · refine sum_congr rfl (fun i _ => ?_)
    rw [coeff100_diag_exact _ _ i (hH i)]; ring
  · exact round2_exact _ hC

/-- every container built by the package (`QUBOContainer(Q, c, pattern)`) has zero-diagonal couplings -/
theorem mk'_diag (n : ℕ) (Q : Mat) (c : ℚ) (pattern : String) (i : ℕ) : (Container.mk' n Q c pattern).J i i = 0 := by
  show isingJ (applyPattern (parsePattern pattern) Q) i i = 0
  exact C01.ising_diag_zero _ _

/-- … so for the package's containers only the three "multiple of 0.01" conditions remain -/
theorem load_export_exact_ising_mk' (n : ℕ) (Q : Mat) (c : ℚ) (pattern : String)
    (hJ : ∀ i j, i ≠ j → Hundredth ((Container.mk' n Q c pattern).J i j))
    (hH : ∀ i, Hundredth ((Container.mk' n Q c pattern).h i)) (hC : Hundredth (Container.mk' n Q c pattern).ci)
    (s : ℕ → ℤ) :
    let C := Container.mk' n Q c pattern
    ((loadFile C.exportIsing).isingEnergy100 s : ℚ) = 100 * evalIsing C.n C.J C.h C.ci (fun i => (s i : ℚ)) :=
  load_export_exact_ising _ (mk'_diag n Q c pattern) hJ hH hC s

/-- **QUBO export, exact**: a QUBO whose entries and constant are multiples of 0.01 is read back exactly -/
theorem load_export_exact_qubo (C : Container) (hQ : ∀ i j, Hundredth (C.Q i j)) (hC : Hundredth C.cq) (x : ℕ → ℤ) :
    ((loadFile C.exportQubo).quboEnergy100 x : ℚ) = 100 * evalQubo C.n C.Q C.cq (fun i => (x i : ℚ)) := by
  rw [load_export_energy_qubo, evalQubo_eq]
  unfold G.evalQubo G.quad
  simp only [sumToI_eq]
  push_cast
  rw [mul_add, Finset.mul_sum]
  congr 1
  · refine sum_congr rfl (fun i _ => ?_)
    rw [Finset.mul_sum]
    refine sum_congr rfl (fun j _ => ?_)
    by_cases hij : i = j
    · subst hij
      rw [coeff100_diag_exact C.Q (fun i => C.Q i i) i (hQ i i)]; ring
    · rw [coeff100_off_exact _ _ i j hij (hQ i j)]; ring
  · exact round2_exact _ hC

/-! ## non-vacuity: a container with genuinely fractional hundredths -/

/-- Q = [[0.25, -1.5], [0, 0.75]] (multiples of 0.01 that are not integers), constant 0.5 -/
def nvC : Container := Container.mk' 2 (matOf [[1/4, -3/2], [0, 3/4]]) (1/2) "none"

example : nvC.Q 0 0 = 1/4 ∧ nvC.Q 0 1 = -3/2 ∧ nvC.Q 1 1 = 3/4 := by decide +kernel

example (x : ℕ → ℤ) :
    ((loadFile nvC.exportQubo).quboEnergy100 x : ℚ) = 100 * evalQubo nvC.n nvC.Q nvC.cq (fun i => (x i : ℚ)) := by
  refine load_export_exact_qubo nvC (fun i j => ?_) ⟨50, by decide +kernel⟩ x
  -- every entry of `matOf [[1/4, -3/2], [0, 3/4]]` is a multiple of 1/100 (entries outside the list are 0)
  show Hundredth (applyPattern (parsePattern "none") (matOf [[1/4, -3/2], [0, 3/4]]) i j)
  rw [show parsePattern "none" = .asIs from by decide +kernel]
  match i, j with
  | 0, 0 => exact ⟨25, by decide +kernel⟩
  | 0, 1 => exact ⟨-150, by decide +kernel⟩
  | 1, 0 => exact ⟨0, by decide +kernel⟩
  | 1, 1 => exact ⟨75, by decide +kernel⟩
  | 0, (j + 2) => exact ⟨0, by simp [applyPattern, matOf]⟩
  | 1, (j + 2) => exact ⟨0, by simp [applyPattern, matOf]⟩
  | (i + 2), j => exact ⟨0, by simp [applyPattern, matOf]⟩

/-- an Ising problem with fractional hundredths: coupling J₀₁ = 0.03, fields 0.25 and -0.5, constant 0.07 -/
def nvI : Container :=
  { n := 2, Q := fun _ _ => 0, cq := 0,
    J := fun i j => if i = 0 ∧ j = 1 then 3 / 100 else 0,
    h := fun i => if i = 0 then 1 / 4 else if i = 1 then -1 / 2 else 0,
    ci := 7 / 100 }

example (s : ℕ → ℤ) :
    ((loadFile nvI.exportIsing).isingEnergy100 s : ℚ) = 100 * evalIsing nvI.n nvI.J nvI.h nvI.ci (fun i => (s i : ℚ)) := by
  refine load_export_exact_ising nvI (fun i => ?_) (fun i j _ => ?_) (fun i => ?_) ⟨7, by norm_num [nvI]⟩ s
  · show (if i = 0 ∧ i = 1 then (3 : ℚ) / 100 else 0) = 0
    rw [if_neg (by omega)]
  · show Hundredth (if i = 0 ∧ j = 1 then (3 : ℚ) / 100 else 0)
    split_ifs
    · exact ⟨3, by norm_num⟩
    · exact ⟨0, by norm_num⟩
  · show Hundredth (if i = 0 then (1 : ℚ) / 4 else if i = 1 then -1 / 2 else 0)
    split_ifs
    · exact ⟨25, by norm_num⟩
    · exact ⟨-50, by norm_num⟩
    · exact ⟨0, by norm_num⟩

end Vrp.C10
