import VrpModel.Mirp
import VrpProofs.Lemmas.Sum
import Mathlib.Algebra.Order.Field.Rat
import Mathlib.Algebra.Order.Field.Basic
import Mathlib.Data.Finset.Card
import Mathlib.Tactic.Linarith
import Mathlib.Tactic.Ring
import Mathlib.Tactic.FieldSimp
import Mathlib.Tactic.Positivity

/-!
# C11 — MIRP time windows keep every port's inventory within bounds
-/
namespace Vrp.C11
open Vrp Finset

/-- window start / end of the (k+1)-th visit -/
abbrev tw0 (size init rate cap : ℚ) (k : ℕ) : ℚ := (getTimeWindow size k init rate cap).1
abbrev tw1 (size init rate cap : ℚ) (k : ℕ) : ℚ := (getTimeWindow size k init rate cap).2

end Vrp.C11
