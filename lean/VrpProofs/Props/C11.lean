import VrpModel.Mirp
import VrpProofs.Lemmas.Sum
import Mathlib.Algebra.Order.Field.Rat
import Mathlib.Algebra.Order.Field.Basic
import Mathlib.Algebra.Order.Archimedean.Basic
import Mathlib.Data.Finset.Card
import Mathlib.Data.List.Nodup
import Mathlib.Tactic.Linarith
import Mathlib.Tactic.Ring
import Mathlib.Tactic.FieldSimp
import Mathlib.Tactic.Positivity

/-!
# C11 — MIRP time windows keep every port's inventory within bounds
-/
namespace Vrp.C11
open Vrp Finset

/-- window start / end of the (k+1)-th visit -/
abbrev tw0 (size init rate cap : ℚ) (k : ℕ) : ℚ := (getTimeWindow size k init rate cap).1
abbrev tw1 (size init rate cap : ℚ) (k : ℕ) : ℚ := (getTimeWindow size k init rate cap).2

/-! ## helper lemmas: closed forms of the window ends -/

theorem tw0_pos (size init rate cap : ℚ) (k : ℕ) (hr : 0 < rate) :
    tw0 size init rate cap k = (((k : ℚ) + 1) * size - init) / rate := by
  unfold tw0 getTimeWindow; simp [hr]
theorem tw1_pos (size init rate cap : ℚ) (k : ℕ) (hr : 0 < rate) :
    tw1 size init rate cap k = (cap + (k : ℚ) * size - init) / rate := by
  unfold tw1 getTimeWindow; simp [hr]
theorem tw0_neg (size init rate cap : ℚ) (k : ℕ) (hr : rate < 0) :
    tw0 size init rate cap k = (init + ((k : ℚ) + 1) * size - cap) / (-rate) := by
  unfold tw0 getTimeWindow; simp only [not_lt.2 hr.le, if_false]
  rw [← neg_div_neg_eq]; congr 1; ring
theorem tw1_neg (size init rate cap : ℚ) (k : ℕ) (hr : rate < 0) :
    tw1 size init rate cap k = (init + (k : ℚ) * size) / (-rate) := by
  unfold tw1 getTimeWindow; simp only [not_lt.2 hr.le, if_false]
  rw [← neg_div_neg_eq]; congr 1; ring

/-! ## statements -/

/-- supply port (rate > 0): the window opens at the first instant a full cargo can be loaded … -/
theorem tw_supply_opens (size init rate cap t : ℚ) (k : ℕ) (hr : 0 < rate) :
    0 ≤ init + rate * t - ((k : ℚ) + 1) * size ↔ tw0 size init rate cap k ≤ t := by
  rw [tw0_pos _ _ _ _ _ hr, div_le_iff₀ hr]; constructor <;> intro h <;> linarith

/-- … and closes at the last instant before the port would overflow -/
theorem tw_supply_closes (size init rate cap t : ℚ) (k : ℕ) (hr : 0 < rate) :
    init + rate * t - (k : ℚ) * size ≤ cap ↔ t ≤ tw1 size init rate cap k := by
  rw [tw1_pos _ _ _ _ _ hr, le_div_iff₀ hr]; constructor <;> intro h <;> linarith

/-- demand port (rate < 0): opens at the first instant a full cargo can be discharged … -/
theorem tw_demand_opens (size init rate cap t : ℚ) (k : ℕ) (hr : rate < 0) :
    init + rate * t + ((k : ℚ) + 1) * size ≤ cap ↔ tw0 size init rate cap k ≤ t := by
  rw [tw0_neg _ _ _ _ _ hr, div_le_iff₀ (neg_pos.2 hr)]; constructor <;> intro h <;> linarith

/-- … and closes at the last instant before the port would run dry -/
theorem tw_demand_closes (size init rate cap t : ℚ) (k : ℕ) (hr : rate < 0) :
    0 ≤ init + rate * t + (k : ℚ) * size ↔ t ≤ tw1 size init rate cap k := by
  rw [tw1_neg _ _ _ _ _ hr, le_div_iff₀ (neg_pos.2 hr)]; constructor <;> intro h <;> linarith

/-- the window is non-inverted iff a full cargo fits into the port's capacity -/
theorem tw_valid_iff (size init rate cap : ℚ) (k : ℕ) (hr : rate ≠ 0) :
    tw0 size init rate cap k ≤ tw1 size init rate cap k ↔ size ≤ cap := by
  rcases lt_or_gt_of_ne hr with h | h
  · rw [tw0_neg _ _ _ _ _ h, tw1_neg _ _ _ _ _ h, div_le_div_iff_of_pos_right (neg_pos.2 h)]
    constructor <;> intro h <;> linarith
  · rw [tw0_pos _ _ _ _ _ h, tw1_pos _ _ _ _ _ h, div_le_div_iff_of_pos_right h]
    constructor <;> intro h <;> linarith

/-- window ends are strictly increasing in the visit number -/
theorem tw1_strictMono (size init rate cap : ℚ) (k : ℕ) (hsize : 0 < size) (hr : rate ≠ 0) :
    tw1 size init rate cap k < tw1 size init rate cap (k + 1) := by
  rcases lt_or_gt_of_ne hr with h | h
  · rw [tw1_neg _ _ _ _ _ h, tw1_neg _ _ _ _ _ h, div_lt_div_iff_of_pos_right (neg_pos.2 h)]
    push_cast; linarith
  · rw [tw1_pos _ _ _ _ _ h, tw1_pos _ _ _ _ _ h, div_lt_div_iff_of_pos_right h]
    push_cast; linarith

/-- some visit's window ends after the horizon (so the loop of `add_nodes` terminates) -/
theorem exists_beyond_horizon (size init rate cap H : ℚ) (hsize : 0 < size) (hr : rate ≠ 0) :
    ∃ K : ℕ, H < tw1 size init rate cap K := by
  rcases lt_or_gt_of_ne hr with h | h
  · obtain ⟨K, hK⟩ := exists_nat_gt ((H * (-rate) - init) / size)
    refine ⟨K, ?_⟩
    rw [tw1_neg _ _ _ _ _ h, lt_div_iff₀ (neg_pos.2 h)]
    rw [div_lt_iff₀ hsize] at hK; linarith
  · obtain ⟨K, hK⟩ := exists_nat_gt ((H * rate - cap + init) / size)
    refine ⟨K, ?_⟩
    rw [tw1_pos _ _ _ _ _ h, lt_div_iff₀ h]
    rw [div_lt_iff₀ hsize] at hK; linarith
/-- the node record `add_nodes` creates for visit `k` -/
def visitNode (size : ℚ) (port : String) (init rate cap : ℚ) (k : ℕ) : Node :=
  ⟨visitName port k, if 0 < rate then -size else size, tw0 size init rate cap k, some (tw1 size init rate cap k)⟩

/-- helper: looking up the key just assigned by `mapSet` returns the assigned value -/
theorem nodesOf_mapSet (d : List (String × List String)) (k : String) (v : List String) :
    (((mapSet d k v).find? fun e => e.1 = k).map (·.2)).getD [] = v := by
  induction d with
  | nil => simp [mapSet]
  | cons a rest ih =>
    obtain ⟨k', v'⟩ := a
    unfold mapSet
    by_cases h : k' = k
    · simp [h]
    · simp [h]
      simpa using ih

/-- helper: generalised loop statement (`n` visits remain, `k + n = K`) -/
theorem addNodesLoop_exact (size H : ℚ) (port : String) (init rate cap : ℚ) (K : ℕ)
    (hr : rate ≠ 0) (hcap : size ≤ cap)
    (hK1 : ∀ k < K, tw1 size init rate cap k ≤ H) (hK2 : H < tw1 size init rate cap K) :
    ∀ (n fuel : ℕ) (m : Mirp) (k : ℕ) (acc : List String), k + n = K → n < fuel →
      m.size = size → m.horizon = H → m.nodesOf port = acc →
      (m.g.names ++ (List.range' k n).map (visitName port)).Nodup →
      ∃ m', addNodesLoop fuel m port (if 0 < rate then -size else size) init rate cap k acc
          = some (m', .ok (acc ++ (List.range' k n).map (visitName port))) ∧
        m'.g.nodes = m.g.nodes ++ (List.range' k n).map (visitNode size port init rate cap) ∧
        m'.g.arcs = m.g.arcs ∧
        m'.nodesOf port = acc ++ (List.range' k n).map (visitName port) ∧
        m'.supply = m.supply ∧ m'.demand = m.demand ∧ m'.size = size ∧ m'.horizon = H := by
  intro n
  induction n with
  | zero =>
    intro fuel m k acc hk hfuel hs hH hno _
    obtain ⟨f, rfl⟩ : ∃ f, fuel = f + 1 := ⟨fuel - 1, by omega⟩
    have hk' : k = K := by omega
    subst hk'
    refine ⟨m, ?_, by simp, rfl, by simpa using hno, rfl, rfl, hs, hH⟩
    unfold addNodesLoop
    simp only [hs, hH]
    rw [if_pos hK2]; simp
  | succ n ih =>
    intro fuel m k acc hk hfuel hs hH hno hnd
    obtain ⟨f, rfl⟩ : ∃ f, fuel = f + 1 := ⟨fuel - 1, by omega⟩
    have hkK : k < K := by omega
    have hnot : ¬ H < tw1 size init rate cap k := not_lt.2 (hK1 k hkK)
    rw [List.range'_succ, List.map_cons] at hnd
    have hfresh : visitName port k ∉ m.g.names := by
      intro hmem
      have := (List.nodup_append.1 hnd).2.2 _ hmem _ (List.mem_cons_self)
      exact this rfl
    have hvalid : ltE (some (tw1 size init rate cap k)) (tw0 size init rate cap k) = false := by
      simp [ltE, leE, (tw_valid_iff size init rate cap k hr).2 hcap]
    set m2 : Mirp := { m with g := { m.g with nodes := m.g.nodes ++ [visitNode size port init rate cap k] },
                              mapping := mapSet m.mapping port (acc ++ [visitName port k]) } with hm2
    have hstep : addNodesLoop (f + 1) m port (if 0 < rate then -size else size) init rate cap k acc
        = addNodesLoop f m2 port (if 0 < rate then -size else size) init rate cap (k + 1) (acc ++ [visitName port k]) := by
      conv_lhs => unfold addNodesLoop
      simp only [hs, hH]
      rw [if_neg hnot]
      simp only [addNodeStep, if_neg hfresh, hvalid]
      simp [hm2, visitNode, hs, hH]
    have hnd2 : (m2.g.names ++ (List.range' (k + 1) n).map (visitName port)).Nodup := by
      simpa [hm2, Graph.names, List.append_assoc, visitNode] using hnd
    obtain ⟨m', h1, h2, h3, h4, h5, h6, h7, h8⟩ :=
      ih f m2 (k + 1) (acc ++ [visitName port k]) (by omega) (by omega) hs hH
        (by simp [hm2, Mirp.nodesOf, nodesOf_mapSet]) hnd2
    refine ⟨m', ?_, ?_, ?_, ?_, h5, h6, h7, h8⟩
    · rw [hstep, h1, List.range'_succ]; simp
    · rw [h2, List.range'_succ]; simp [hm2]
    · rw [h3]
    · rw [h4, List.range'_succ]; simp

/-- helper: a finite set of naturals with more than `m` elements has an element `≥ m` -/
theorem exists_ge_of_card {S : Finset ℕ} {m : ℕ} (h : m < S.card) : ∃ k ∈ S, m ≤ k := by
  by_contra hcon
  have hsub : S ⊆ range m := by
    intro k hk
    rw [Finset.mem_range]
    by_contra hlt
    exact hcon ⟨k, hk, not_lt.1 hlt⟩
  have := Finset.card_le_card hsub
  simp at this; omega

/-- helper: a finite set of naturals with fewer than `K` elements misses some `k < K` with `k ≤ card` -/
theorem exists_le_not_mem {S : Finset ℕ} {K : ℕ} (h : S.card < K) :
    ∃ k, k < K ∧ k ∉ S ∧ k ≤ S.card := by
  by_contra hcon
  have hsub : range (S.card + 1) ⊆ S := by
    intro k hk
    have hk' := Finset.mem_range.1 hk
    by_contra hn
    exact hcon ⟨k, by omega, hn, by omega⟩
  have := Finset.card_le_card hsub
  simp at this

/-- **`add_nodes` emits exactly the consecutive visits whose windows end within the horizon**, each with
    demand ∓size and the closed-form window; ports lists and the port→nodes map are updated; arcs untouched.
    `K` is characterised by `hK1`/`hK2` (unique by `tw1_strictMono`). Freshness of the generated names is a
    hypothesis (the code raises `ValueError` on a duplicate name). -/
theorem addNodes_exact (m : Mirp) (port : String) (init rate cap : ℚ) (K fuel : ℕ) (hfuel : K < fuel)
    (hr : rate ≠ 0) (hcap : m.size ≤ cap)
    (hK1 : ∀ k < K, tw1 m.size init rate cap k ≤ m.horizon) (hK2 : m.horizon < tw1 m.size init rate cap K)
    (hfresh : (m.g.names ++ (List.range K).map (visitName port)).Nodup) :
    ∃ m', m.addNodes fuel port init rate cap = some (m', .ok ((List.range K).map (visitName port))) ∧
      m'.g.nodes = m.g.nodes ++ (List.range K).map (visitNode m.size port init rate cap) ∧
      m'.g.arcs = m.g.arcs ∧
      m'.nodesOf port = (List.range K).map (visitName port) ∧
      m'.supply = (if 0 < rate then m.supply ++ [port] else m.supply) ∧
      m'.demand = (if 0 < rate then m.demand else m.demand ++ [port]) ∧
      m'.size = m.size ∧ m'.horizon = m.horizon := by
  rw [List.range_eq_range'] at hfresh ⊢
  unfold Mirp.addNodes
  by_cases hpos : 0 < rate
  · simp only [if_pos hpos]
    obtain ⟨m', h1, h2, h3, h4, h5, h6, h7, h8⟩ :=
      addNodesLoop_exact m.size m.horizon port init rate cap K hr hcap hK1 hK2 K fuel
        { m with supply := m.supply ++ [port], mapping := mapSet m.mapping port [] } 0 []
        (by omega) hfuel rfl rfl (by simp [Mirp.nodesOf, nodesOf_mapSet]) hfresh
    rw [if_pos hpos] at h1
    exact ⟨m', by simpa using h1, h2, h3, by simpa using h4, h5, h6, h7, h8⟩
  · simp only [if_neg hpos]
    obtain ⟨m', h1, h2, h3, h4, h5, h6, h7, h8⟩ :=
      addNodesLoop_exact m.size m.horizon port init rate cap K hr hcap hK1 hK2 K fuel
        { m with demand := m.demand ++ [port], mapping := mapSet m.mapping port [] } 0 []
        (by omega) hfuel rfl rfl (by simp [Mirp.nodesOf, nodesOf_mapSet]) hfresh
    rw [if_neg hpos] at h1
    exact ⟨m', by simpa using h1, h2, h3, by simpa using h4, h5, h6, h7, h8⟩

/-- **supply-port safety**: service times anywhere inside the windows (any order, overlapping windows
    allowed) keep the inventory within `[0, cap]` at every instant of the horizon; the lower bound counts
    the loads at or before `τ`, the upper bound only those strictly before `τ` (both worst cases) -/
theorem supply_inventory_safe (size init rate cap H : ℚ) (K : ℕ) (t : ℕ → ℚ) (τ : ℚ)
    (hsize : 0 < size) (hrate : 0 < rate) (hinit0 : 0 ≤ init)
    (hK : H < tw1 size init rate cap K)
    (hwin : ∀ k < K, tw0 size init rate cap k ≤ t k ∧ t k ≤ tw1 size init rate cap k)
    (hτ0 : 0 ≤ τ) (hτH : τ ≤ H) :
    0 ≤ init + rate * τ - size * ((range K).filter (fun k => t k ≤ τ)).card ∧
    init + rate * τ - size * ((range K).filter (fun k => t k < τ)).card ≤ cap := by
  constructor
  · set S := (range K).filter (fun k => t k ≤ τ) with hS
    rcases Nat.eq_zero_or_pos S.card with h0 | hpos
    · rw [h0]; simp; positivity
    · obtain ⟨k, hk, hmk⟩ := exists_ge_of_card (S := S) (m := S.card - 1) (by omega)
      rw [hS, Finset.mem_filter, Finset.mem_range] at hk
      have h1 := (tw_supply_opens size init rate cap τ k hrate).2 (le_trans (hwin k hk.1).1 hk.2)
      have hc : (S.card : ℚ) ≤ (k : ℚ) + 1 := by
        have : S.card ≤ k + 1 := by omega
        exact_mod_cast this
      nlinarith
  · set S := (range K).filter (fun k => t k < τ) with hS
    have hsub : S ⊆ range K := Finset.filter_subset _ _
    rcases Nat.lt_or_ge S.card K with hlt | hge
    · obtain ⟨k, hkK, hkS, hkm⟩ := exists_le_not_mem hlt
      have hk' : τ ≤ t k := by
        by_contra hc
        exact hkS (by rw [hS, Finset.mem_filter, Finset.mem_range]; exact ⟨hkK, not_le.1 hc⟩)
      have h1 := (tw_supply_closes size init rate cap τ k hrate).2 (le_trans hk' (hwin k hkK).2)
      have hc : (k : ℚ) ≤ (S.card : ℚ) := by exact_mod_cast hkm
      nlinarith
    · have hcard : S.card = K := by
        have := Finset.card_le_card hsub; simp at this; omega
      rw [hcard]
      have h1 := (tw_supply_closes size init rate cap τ K hrate).2 (le_of_lt (lt_of_le_of_lt hτH hK))
      nlinarith

/-- **demand-port safety** (rate < 0; a visit discharges a full cargo into the port) -/
theorem demand_inventory_safe (size init rate cap H : ℚ) (K : ℕ) (t : ℕ → ℚ) (τ : ℚ)
    (hsize : 0 < size) (hrate : rate < 0) (hinitc : init ≤ cap)
    (hK : H < tw1 size init rate cap K)
    (hwin : ∀ k < K, tw0 size init rate cap k ≤ t k ∧ t k ≤ tw1 size init rate cap k)
    (hτ0 : 0 ≤ τ) (hτH : τ ≤ H) :
    0 ≤ init + rate * τ + size * ((range K).filter (fun k => t k < τ)).card ∧
    init + rate * τ + size * ((range K).filter (fun k => t k ≤ τ)).card ≤ cap := by
  constructor
  · set S := (range K).filter (fun k => t k < τ) with hS
    have hsub : S ⊆ range K := Finset.filter_subset _ _
    rcases Nat.lt_or_ge S.card K with hlt | hge
    · obtain ⟨k, hkK, hkS, hkm⟩ := exists_le_not_mem hlt
      have hk' : τ ≤ t k := by
        by_contra hc
        exact hkS (by rw [hS, Finset.mem_filter, Finset.mem_range]; exact ⟨hkK, not_le.1 hc⟩)
      have h1 := (tw_demand_closes size init rate cap τ k hrate).2 (le_trans hk' (hwin k hkK).2)
      have hc : (k : ℚ) ≤ (S.card : ℚ) := by exact_mod_cast hkm
      nlinarith
    · have hcard : S.card = K := by
        have := Finset.card_le_card hsub; simp at this; omega
      rw [hcard]
      have h1 := (tw_demand_closes size init rate cap τ K hrate).2 (le_of_lt (lt_of_le_of_lt hτH hK))
      nlinarith
  · set S := (range K).filter (fun k => t k ≤ τ) with hS
    rcases Nat.eq_zero_or_pos S.card with h0 | hpos
    · rw [h0]; simp; nlinarith
    · obtain ⟨k, hk, hmk⟩ := exists_ge_of_card (S := S) (m := S.card - 1) (by omega)
      rw [hS, Finset.mem_filter, Finset.mem_range] at hk
      have h1 := (tw_demand_opens size init rate cap τ k hrate).2 (le_trans (hwin k hk.1).1 hk.2)
      have hc : (S.card : ℚ) ≤ (k : ℚ) + 1 := by
        have : S.card ≤ k + 1 := by omega
        exact_mod_cast this
      nlinarith

/-- non-vacuity: the unit-data supply port of the test-suite (size 1, init 0, rate 1, cap 2): visits 0,1,2
    have windows [1,2], [2,3], [3,4] -/
example : tw0 1 0 1 2 0 = 1 ∧ tw1 1 0 1 2 0 = 2 ∧ tw0 1 0 1 2 2 = 3 ∧ tw1 1 0 1 2 2 = 4 := by
  refine ⟨by decide +kernel, by decide +kernel, by decide +kernel, by decide +kernel⟩

end Vrp.C11
