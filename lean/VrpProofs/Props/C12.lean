import VrpModel.Mirp
import VrpProofs.Props.C15
import VrpProofs.Lemmas.MirpGraph
import Mathlib.Algebra.Order.Field.Rat
import Mathlib.Tactic.Linarith

/-!
# C12 — MIRP graph enforces load/unload alternation and carries correct arc data

Statements are about every *successful* build (`Mirp.build … = some m`: every helper call returned
normally — a duplicate node name, a second `add_entry_arcs` that would re-use `Dum0`, an inverted
window or a zero rate make the real code raise and are `none` here).
-/
namespace Vrp.C12
open Vrp

/-- `Mirp.new` creates the depot with window `[0, ∞)`, a vessel of capacity = cargo size starting empty -/
theorem new_vessel (size horizon : ℚ) :
    (Mirp.new size horizon).g.cap = some size ∧ (Mirp.new size horizon).g.init = some 0 ∧
    (Mirp.new size horizon).g.nodes = [⟨"Depot", 0, 0, none⟩] ∧ (Mirp.new size horizon).g.arcs = [] := ⟨rfl, rfl, rfl, rfl⟩

/-- node at position `i` picks up a full cargo (supply visit or dummy pre-loaded vessel) -/
def loading (m : Mirp) (i : ℕ) : Prop := m.g.demand i = -m.size
/-- node at position `i` discharges a full cargo (demand visit) -/
def discharging (m : Mirp) (i : ℕ) : Prop := m.g.demand i = m.size

/-- port names declared by the `port` calls of a build -/
def portNames : List MOp → List String
  | [] => []
  | .port nm _ _ _ :: rest => nm :: portNames rest
  | _ :: rest => portNames rest

/-- the structural invariant of MIRP graphs (you may add clauses needed to make it inductive) -/
structure Inv (m : Mirp) : Prop where
  graph : C15.Inv m.g
  depot : m.g.nodes.head? = some ⟨"Depot", 0, 0, none⟩
  /-- every non-depot node either loads or discharges a full cargo -/
  kinds : ∀ i, 0 < i → i < m.g.nodes.length → loading m i ∨ discharging m i
  /-- visit nodes of supply ports load, visit nodes of demand ports discharge, none is the depot -/
  supplyNodes : ∀ p ∈ m.supply, ∀ nm ∈ m.nodesOf p, ∃ i, m.g.indexOf? nm = some i ∧ 0 < i ∧ loading m i
  demandNodes : ∀ p ∈ m.demand, ∀ nm ∈ m.nodesOf p, ∃ i, m.g.indexOf? nm = some i ∧ 0 < i ∧ discharging m i
  /-- arcs leaving the depot lead only to loading nodes; arcs between non-depot nodes alternate -/
  fromDepot : ∀ e ∈ m.g.arcs, e.1.1 = 0 → e.1.2 ≠ 0 → loading m e.1.2
  alternate : ∀ e ∈ m.g.arcs, e.1.1 ≠ 0 → e.1.2 ≠ 0 →
      (loading m e.1.1 ∧ discharging m e.1.2) ∨ (discharging m e.1.1 ∧ loading m e.1.2)

/-! ## helper lemmas -/

theorem loading_iff {m m' : Mirp} (hs : m'.size = m.size) {i : ℕ} (hd : m'.g.demand i = m.g.demand i) :
    loading m' i ↔ loading m i := by unfold loading; rw [hs, hd]

theorem discharging_iff {m m' : Mirp} (hs : m'.size = m.size) {i : ℕ} (hd : m'.g.demand i = m.g.demand i) :
    discharging m' i ↔ discharging m i := by unfold discharging; rw [hs, hd]

/-- an arc filed under `(i, j)` is compatible with `fromDepot` / `alternate` -/
def Allowed (m : Mirp) (i j : ℕ) : Prop :=
  (i = 0 → j ≠ 0 → loading m j) ∧
  (i ≠ 0 → j ≠ 0 → (loading m i ∧ discharging m j) ∨ (discharging m i ∧ loading m j))

theorem allowed_to_depot (m : Mirp) (i : ℕ) : Allowed m i 0 :=
  ⟨fun _ h => absurd rfl h, fun _ h => absurd rfl h⟩

theorem allowed_from_depot {m : Mirp} {j : ℕ} (h : loading m j) : Allowed m 0 j :=
  ⟨fun _ _ => h, fun h0 => absurd rfl h0⟩

theorem allowed_ld {m : Mirp} {i j : ℕ} (hi : 0 < i) (h1 : loading m i) (h2 : discharging m j) :
    Allowed m i j := ⟨fun h0 => by omega, fun _ _ => Or.inl ⟨h1, h2⟩⟩

theorem allowed_dl {m : Mirp} {i j : ℕ} (hi : 0 < i) (h1 : discharging m i) (h2 : loading m j) :
    Allowed m i j := ⟨fun h0 => by omega, fun _ _ => Or.inr ⟨h1, h2⟩⟩

theorem Inv.nodes_pos {m : Mirp} (hinv : Inv m) : 0 < m.g.nodes.length := by
  have := hinv.depot
  cases hnodes : m.g.nodes with
  | nil => rw [hnodes] at this; cases this
  | cons a l => simp

theorem Inv.depot_index {m : Mirp} (hinv : Inv m) : m.g.indexOf? "Depot" = some 0 :=
  Graph.indexOf?_head hinv.depot

theorem Inv.hi_depot {m : Mirp} (hinv : Inv m) : m.g.hi 0 = none := by
  have := hinv.depot
  rw [List.head?_eq_getElem?] at this
  simp [Graph.hi, this]

/-- same nodes, same port tables, every new arc is of an allowed kind -/
theorem inv_of_nodes_eq {m m' : Mirp} (hinv : Inv m) (hsize : m'.size = m.size)
    (hsup : m'.supply = m.supply) (hdem : m'.demand = m.demand) (hmap : m'.mapping = m.mapping)
    (hn : m'.g.nodes = m.g.nodes) (hg : C15.Inv m'.g)
    (harcs : ∀ e ∈ m'.g.arcs, e ∈ m.g.arcs ∨ Allowed m e.1.1 e.1.2) : Inv m' := by
  have hl : ∀ i, loading m' i ↔ loading m i := fun i => loading_iff hsize (Graph.demand_congr hn i)
  have hdc : ∀ i, discharging m' i ↔ discharging m i :=
    fun i => discharging_iff hsize (Graph.demand_congr hn i)
  have hidx : ∀ x, m'.g.indexOf? x = m.g.indexOf? x := Graph.indexOf?_congr hn
  have hno : ∀ p, m'.nodesOf p = m.nodesOf p := fun p => by unfold Mirp.nodesOf; rw [hmap]
  refine ⟨hg, by rw [hn]; exact hinv.depot, ?_, ?_, ?_, ?_, ?_⟩
  · intro i h0 hlt
    rw [hn] at hlt
    rw [hl, hdc]; exact hinv.kinds i h0 hlt
  · intro p hp nm hnm
    rw [hsup] at hp; rw [hno] at hnm
    obtain ⟨i, h1, h2, h3⟩ := hinv.supplyNodes p hp nm hnm
    exact ⟨i, by rw [hidx]; exact h1, h2, (hl i).mpr h3⟩
  · intro p hp nm hnm
    rw [hdem] at hp; rw [hno] at hnm
    obtain ⟨i, h1, h2, h3⟩ := hinv.demandNodes p hp nm hnm
    exact ⟨i, by rw [hidx]; exact h1, h2, (hdc i).mpr h3⟩
  · intro e he h0 hne
    rw [hl]
    rcases harcs e he with h | h
    · exact hinv.fromDepot e h h0 hne
    · exact h.1 h0 hne
  · intro e he h0 hne
    simp only [hl, hdc]
    rcases harcs e he with h | h
    · exact hinv.alternate e h h0 hne
    · exact h.2 h0 hne

/-- one `add_arc` between names whose positions form an allowed pair -/
theorem inv_gAddArc {m : Mirp} (hinv : Inv m) (o d : String) (t c : ℚ)
    (hal : ∀ i j, m.g.indexOf? o = some i → m.g.indexOf? d = some j → Allowed m i j) :
    Inv { m with g := gAddArc m.g o d t c } := by
  refine inv_of_nodes_eq hinv rfl rfl rfl rfl (gAddArc_nodes _ _ _ _ _) (gAddArc_inv _ _ _ _ _ hinv.graph) ?_
  intro e he
  change e ∈ (gAddArc m.g o d t c).arcs at he
  rcases gAddArc_cases m.g o d t c with h | ⟨i, j, hi, hj, _, h⟩
  · rw [h] at he; exact Or.inl he
  · rw [h] at he
    rcases mem_dictSet he with rfl | he
    · exact Or.inr (hal i j hi hj)
    · exact Or.inl he

/-- appending one node that loads or discharges a full cargo -/
theorem inv_append_node {m : Mirp} (hinv : Inv m) (g' : Graph) (n : Node)
    (hn : g'.nodes = m.g.nodes ++ [n]) (ha : g'.arcs = m.g.arcs) (hg : C15.Inv g')
    (hd : n.demand = -m.size ∨ n.demand = m.size) : Inv { m with g := g' } := by
  have hlen := hinv.nodes_pos
  have hl : ∀ i, i < m.g.nodes.length → (loading { m with g := g' } i ↔ loading m i) :=
    fun i hi => loading_iff (m := m) (m' := { m with g := g' }) rfl (Graph.demand_append_old hn hi)
  have hdc : ∀ i, i < m.g.nodes.length → (discharging { m with g := g' } i ↔ discharging m i) :=
    fun i hi => discharging_iff (m := m) (m' := { m with g := g' }) rfl (Graph.demand_append_old hn hi)
  have hends : ∀ e ∈ m.g.arcs, e.1.1 < m.g.nodes.length ∧ e.1.2 < m.g.nodes.length := by
    intro e he
    obtain ⟨ni, nj, h1, h2, _⟩ := hinv.graph.filed e he
    exact ⟨(List.getElem?_eq_some_iff.mp h1).1, (List.getElem?_eq_some_iff.mp h2).1⟩
  refine ⟨hg, ?_, ?_, ?_, ?_, ?_, ?_⟩
  · show g'.nodes.head? = _
    rw [hn, List.head?_append_of_ne_nil _ (by intro h; rw [h] at hlen; simp at hlen)]
    exact hinv.depot
  · intro i h0 hlt
    change i < g'.nodes.length at hlt
    rw [hn, List.length_append, List.length_singleton] at hlt
    by_cases hi : i < m.g.nodes.length
    · rw [hl i hi, hdc i hi]; exact hinv.kinds i h0 hi
    · have hi' : i = m.g.nodes.length := by omega
      subst hi'
      have hnew : g'.demand m.g.nodes.length = n.demand := Graph.demand_append_new hn
      rcases hd with hd | hd
      · left; show g'.demand _ = -m.size; rw [hnew, hd]
      · right; show g'.demand _ = m.size; rw [hnew, hd]
  · intro p hp nm hnm
    obtain ⟨i, h1, h2, h3⟩ := hinv.supplyNodes p hp nm hnm
    exact ⟨i, Graph.indexOf?_append_old hn h1, h2, (hl i (Graph.indexOf?_lt h1)).mpr h3⟩
  · intro p hp nm hnm
    obtain ⟨i, h1, h2, h3⟩ := hinv.demandNodes p hp nm hnm
    exact ⟨i, Graph.indexOf?_append_old hn h1, h2, (hdc i (Graph.indexOf?_lt h1)).mpr h3⟩
  · intro e he h0 hne
    change e ∈ g'.arcs at he
    rw [ha] at he
    rw [hl _ (hends e he).2]
    exact hinv.fromDepot e he h0 hne
  · intro e he h0 hne
    change e ∈ g'.arcs at he
    rw [ha] at he
    rw [hl _ (hends e he).2, hl _ (hends e he).1, hdc _ (hends e he).2, hdc _ (hends e he).1]
    exact hinv.alternate e he h0 hne

/-- what a successful `add_node` of a full-cargo node gives -/
theorem inv_addNode {m : Mirp} (hinv : Inv m) (nm : String) (d lo : ℚ) (hi : ERat)
    (hd : d = -m.size ∨ d = m.size) (x : Option Bool)
    (hok : (addNodeStep m.g nm d lo hi).2 = .ok x) :
    Inv { m with g := (addNodeStep m.g nm d lo hi).1 } ∧
    ({ m with g := (addNodeStep m.g nm d lo hi).1 } : Mirp).g.indexOf? nm = some m.g.nodes.length ∧
    ({ m with g := (addNodeStep m.g nm d lo hi).1 } : Mirp).g.demand m.g.nodes.length = d := by
  obtain ⟨hfresh, hn, ha⟩ := addNodeStep_ok hok
  exact ⟨inv_append_node hinv _ _ hn ha (C15.addNodeStep_inv _ _ _ _ _ hinv.graph) hd,
    Graph.indexOf?_append_new hn hfresh, Graph.demand_append_new hn⟩

theorem Inv.supply_at {m : Mirp} (hinv : Inv m) {p nm : String} {i : ℕ} (hp : p ∈ m.supply)
    (hnm : nm ∈ m.nodesOf p) (hi : m.g.indexOf? nm = some i) : 0 < i ∧ loading m i := by
  obtain ⟨i', h1, h2, h3⟩ := hinv.supplyNodes p hp nm hnm
  rw [hi] at h1; cases h1; exact ⟨h2, h3⟩

theorem Inv.demand_at {m : Mirp} (hinv : Inv m) {p nm : String} {i : ℕ} (hp : p ∈ m.demand)
    (hnm : nm ∈ m.nodesOf p) (hi : m.g.indexOf? nm = some i) : 0 < i ∧ discharging m i := by
  obtain ⟨i', h1, h2, h3⟩ := hinv.demandNodes p hp nm hnm
  rw [hi] at h1; cases h1; exact ⟨h2, h3⟩

/-- same graph and size, new port tables whose visit nodes are of the right kind -/
theorem inv_of_g_eq {m m' : Mirp} (hinv : Inv m) (hsize : m'.size = m.size) (hg : m'.g = m.g)
    (hs : ∀ p ∈ m'.supply, ∀ nm ∈ m'.nodesOf p, ∃ i, m.g.indexOf? nm = some i ∧ 0 < i ∧ loading m i)
    (hd : ∀ p ∈ m'.demand, ∀ nm ∈ m'.nodesOf p, ∃ i, m.g.indexOf? nm = some i ∧ 0 < i ∧ discharging m i) :
    Inv m' := by
  have hl : ∀ i, loading m' i ↔ loading m i := fun i => loading_iff hsize (by rw [hg])
  have hdc : ∀ i, discharging m' i ↔ discharging m i := fun i => discharging_iff hsize (by rw [hg])
  refine ⟨by rw [hg]; exact hinv.graph, by rw [hg]; exact hinv.depot, ?_, ?_, ?_, ?_, ?_⟩
  · intro i h0 hlt
    rw [hg] at hlt
    rw [hl, hdc]; exact hinv.kinds i h0 hlt
  · intro p hp nm hnm
    obtain ⟨i, h1, h2, h3⟩ := hs p hp nm hnm
    exact ⟨i, by rw [hg]; exact h1, h2, (hl i).mpr h3⟩
  · intro p hp nm hnm
    obtain ⟨i, h1, h2, h3⟩ := hd p hp nm hnm
    exact ⟨i, by rw [hg]; exact h1, h2, (hdc i).mpr h3⟩
  · intro e he h0 hne
    rw [hg] at he
    rw [hl]; exact hinv.fromDepot e he h0 hne
  · intro e he h0 hne
    rw [hg] at he
    simp only [hl, hdc]; exact hinv.alternate e he h0 hne

/-! ### `add_nodes` -/

theorem loop_inv (port : String) (lvl init rate cap : ℚ) (fuel : ℕ) :
    ∀ (m : Mirp) (k : ℕ) (acc : List String) (m' : Mirp) (r : Except Err (List String)),
      Inv m →
      ((port ∈ m.supply ∧ port ∉ m.demand ∧ lvl = -m.size) ∨
        (port ∈ m.demand ∧ port ∉ m.supply ∧ lvl = m.size)) →
      m.nodesOf port = acc →
      addNodesLoop fuel m port lvl init rate cap k acc = some (m', r) →
      Inv m' ∧ m'.size = m.size ∧ m'.supply = m.supply ∧ m'.demand = m.demand := by
  induction fuel with
  | zero => intro m k acc m' r _ _ _ h; simp [addNodesLoop] at h
  | succ fuel ih =>
    intro m k acc m' r hinv hport hacc h
    rw [addNodesLoop_succ] at h
    split_ifs at h with hhor
    · cases h; exact ⟨hinv, rfl, rfl, rfl⟩
    · split at h
      · cases h; exact ⟨hinv, rfl, rfl, rfl⟩
      · rename_i x hok
        have hlvl : lvl = -m.size ∨ lvl = m.size := by
          rcases hport with h | h
          · exact Or.inl h.2.2
          · exact Or.inr h.2.2
        obtain ⟨hI, hidx, hdem⟩ := inv_addNode hinv (visitName port k) lvl _ _ hlvl x hok
        have hpos := hinv.nodes_pos
        have hres := fun a b c => ih _ (k + 1) (acc ++ [visitName port k]) m' r a b c h
        refine hres ?_ ?_ ?_
        · refine inv_of_g_eq hI rfl rfl ?_ ?_
          · intro p hp nm hnm
            rw [nodesOf_of_mapSet (m := m) (k := port) (v := acc ++ [visitName port k]) rfl p] at hnm
            split_ifs at hnm with hpk
            · subst hpk
              rcases hport with hc | hc
              · rcases List.mem_append.mp hnm with hnm | hnm
                · rw [← hacc] at hnm
                  exact hI.supplyNodes p hc.1 nm hnm
                · rw [List.mem_singleton] at hnm
                  subst hnm
                  exact ⟨_, hidx, hpos, by show _ = -m.size; rw [hdem]; exact hc.2.2⟩
              · exact absurd hp hc.2.1
            · exact hI.supplyNodes p hp nm hnm
          · intro p hp nm hnm
            rw [nodesOf_of_mapSet (m := m) (k := port) (v := acc ++ [visitName port k]) rfl p] at hnm
            split_ifs at hnm with hpk
            · subst hpk
              rcases hport with hc | hc
              · exact absurd hp hc.2.1
              · rcases List.mem_append.mp hnm with hnm | hnm
                · rw [← hacc] at hnm
                  exact hI.demandNodes p hc.1 nm hnm
                · rw [List.mem_singleton] at hnm
                  subst hnm
                  exact ⟨_, hidx, hpos, by show _ = m.size; rw [hdem]; exact hc.2.2⟩
            · exact hI.demandNodes p hp nm hnm
        · exact hport
        · rw [nodesOf_of_mapSet (m := m) (k := port) (v := acc ++ [visitName port k]) rfl port]
          simp

theorem addNodes_inv {m : Mirp} (hinv : Inv m) (fuel : ℕ) (port : String) (init rate cap : ℚ)
    (hfs : port ∉ m.supply) (hfd : port ∉ m.demand) (m' : Mirp) (r : Except Err (List String))
    (h : m.addNodes fuel port init rate cap = some (m', r)) :
    Inv m' ∧ m'.size = m.size ∧
      (∀ p, p ∈ m'.supply ∨ p ∈ m'.demand → p ∈ m.supply ∨ p ∈ m.demand ∨ p = port) := by
  unfold Mirp.addNodes at h
  by_cases hr : 0 < rate
  · simp only [hr, if_true] at h
    have hres := fun a b c => loop_inv port _ init rate cap fuel _ 0 [] m' r a b c h
    have hstart : Inv ({ m with supply := m.supply ++ [port],
                                mapping := mapSet m.mapping port [] } : Mirp) := by
      refine inv_of_g_eq hinv rfl rfl ?_ ?_
      · intro p hp nm hnm
        rw [nodesOf_of_mapSet (m := m) (k := port) (v := []) rfl p] at hnm
        split_ifs at hnm with hpk
        · cases hnm
        · simp only [List.mem_append, List.mem_singleton] at hp
          rcases hp with hp | hp
          · exact hinv.supplyNodes p hp nm hnm
          · exact absurd hp hpk
      · intro p hp nm hnm
        rw [nodesOf_of_mapSet (m := m) (k := port) (v := []) rfl p] at hnm
        split_ifs at hnm with hpk
        · cases hnm
        · exact hinv.demandNodes p hp nm hnm
    obtain ⟨h1, h2, h3, h4⟩ := hres hstart (Or.inl ⟨by simp, hfd, rfl⟩)
      (by rw [nodesOf_of_mapSet (m := m) (k := port) (v := []) rfl port]; simp)
    refine ⟨h1, h2, ?_⟩
    intro p hp
    rw [h3, h4] at hp
    simp only [List.mem_append, List.mem_singleton] at hp
    tauto
  · simp only [hr, if_false] at h
    have hres := fun a b c => loop_inv port _ init rate cap fuel _ 0 [] m' r a b c h
    have hstart : Inv ({ m with demand := m.demand ++ [port],
                                mapping := mapSet m.mapping port [] } : Mirp) := by
      refine inv_of_g_eq hinv rfl rfl ?_ ?_
      · intro p hp nm hnm
        rw [nodesOf_of_mapSet (m := m) (k := port) (v := []) rfl p] at hnm
        split_ifs at hnm with hpk
        · cases hnm
        · exact hinv.supplyNodes p hp nm hnm
      · intro p hp nm hnm
        rw [nodesOf_of_mapSet (m := m) (k := port) (v := []) rfl p] at hnm
        split_ifs at hnm with hpk
        · cases hnm
        · simp only [List.mem_append, List.mem_singleton] at hp
          rcases hp with hp | hp
          · exact hinv.demandNodes p hp nm hnm
          · exact absurd hp hpk
    obtain ⟨h1, h2, h3, h4⟩ := hres hstart (Or.inr ⟨by simp, hfs, rfl⟩)
      (by rw [nodesOf_of_mapSet (m := m) (k := port) (v := []) rfl port]; simp)
    refine ⟨h1, h2, ?_⟩
    intro p hp
    rw [h3, h4] at hp
    simp only [List.mem_append, List.mem_singleton] at hp
    tauto

/-! ### the arc-adding helpers keep the invariant -/

theorem travelStep_inv {m : Mirp} (hinv : Inv m) (dist : String → String → ℚ) (speed unit : ℚ)
    (sfee dfee : String → ℚ) {sp dp sn dn : String} (hsp : sp ∈ m.supply) (hdp : dp ∈ m.demand)
    (hsn : sn ∈ m.nodesOf sp) (hdn : dn ∈ m.nodesOf dp) :
    Inv { m with g := travelStep dist speed unit sfee dfee sp dp sn dn m.g } := by
  have h1 := inv_gAddArc hinv sn dn (dist sp dp / speed) (dist sp dp * unit + dfee dp)
    (fun i j hi hj => allowed_ld (hinv.supply_at hsp hsn hi).1 (hinv.supply_at hsp hsn hi).2
      (hinv.demand_at hdp hdn hj).2)
  exact inv_gAddArc h1 dn sn (dist sp dp / speed) (dist sp dp * unit + sfee sp)
    (fun i j hi hj => allowed_dl (h1.demand_at hdp hdn hi).1 (h1.demand_at hdp hdn hi).2
      (h1.supply_at hsp hsn hj).2)

theorem addTravelArcs_inv {m : Mirp} (hinv : Inv m) (dist : String → String → ℚ) (speed unit : ℚ)
    (sfee dfee : String → ℚ) : Inv (m.addTravelArcs dist speed unit sfee dfee) := by
  rw [addTravelArcs_eq]
  refine foldl_inv (fun g => Inv { m with g := g }) _ m.supply ?_ m.g hinv
  intro g hg sp hsp
  refine foldl_inv (fun g => Inv { m with g := g }) _ m.demand ?_ g hg
  intro g hg dp hdp
  refine foldl_inv (fun g => Inv { m with g := g }) _ (m.nodesOf sp) ?_ g hg
  intro g hg sn hsn
  refine foldl_inv (fun g => Inv { m with g := g }) _ (m.nodesOf dp) ?_ g hg
  intro g hg dn hdn
  exact travelStep_inv (m := { m with g := g }) hg dist speed unit sfee dfee hsp hdp hsn hdn

theorem addExitArcs_inv {m : Mirp} (hinv : Inv m) (t c : ℚ) : Inv (m.addExitArcs t c) := by
  rw [addExitArcs_eq]
  refine foldl_inv (fun g => Inv { m with g := g }) _ (m.supply ++ m.demand) ?_ m.g hinv
  intro g hg p _
  refine foldl_inv (fun g => Inv { m with g := g }) _ (m.nodesOf p) ?_ g hg
  intro g hg nm _
  refine inv_gAddArc (m := { m with g := g }) hg nm "Depot" t c ?_
  intro i j _ hj
  have := hg.depot_index
  rw [this] at hj; cases hj
  exact allowed_to_depot _ i

theorem entryG1_inv {m : Mirp} (hinv : Inv m) (limit time cost : ℚ) :
    Inv { m with g := entryG1 m limit time cost } := by
  unfold entryG1
  refine foldl_inv (fun g => Inv { m with g := g }) _ m.supply ?_ m.g hinv
  intro g hg p hp
  refine foldl_inv (fun g => Inv { m with g := g }) _ (m.nodesOf p) ?_ g hg
  intro g hg nm hnm
  show Inv { m with g := if nodeHiLt g nm limit then gAddArc g "Depot" nm time cost else g }
  split_ifs
  · refine inv_gAddArc (m := { m with g := g }) hg "Depot" nm time cost ?_
    intro i j hi hj
    have := hg.depot_index
    rw [this] at hi; cases hi
    exact allowed_from_depot (hg.supply_at hp hnm hj).2
  · exact hg

theorem entryStep_inv {m : Mirp} (limit time cost : ℚ) {p nm : String} (hp : p ∈ m.demand)
    (hnm : nm ∈ m.nodesOf p) (st : Option (Graph × ℕ))
    (hst : ∀ g k, st = some (g, k) → Inv { m with g := g }) :
    ∀ g k, entryStep m limit time cost st nm = some (g, k) → Inv { m with g := g } := by
  intro g k hgk
  rcases entryStep_cases m limit time cost st nm with h | h | ⟨g0, k0, x, hst0, hok, h⟩
  · rw [h] at hgk; cases hgk
  · rw [h] at hgk; exact hst g k hgk
  · rw [h] at hgk
    cases hgk
    have hI := hst g0 k0 hst0
    obtain ⟨ha, hidx, hdem⟩ := inv_addNode (m := { m with g := g0 }) hI ("Dum" ++ toString k0)
      (-m.size) 0 none (Or.inl rfl) x hok
    have hpos := hI.nodes_pos
    have hb := inv_gAddArc ha "Depot" ("Dum" ++ toString k0) 0 0 (by
      intro i j hi hj
      rw [ha.depot_index] at hi; cases hi
      rw [hidx] at hj; cases hj
      exact allowed_from_depot hdem)
    have hn := gAddArc_nodes (addNodeStep g0 ("Dum" ++ toString k0) (-m.size) 0 none).1 "Depot"
      ("Dum" ++ toString k0) 0 0
    refine inv_gAddArc hb ("Dum" ++ toString k0) nm time cost ?_
    intro i j hi hj
    have hi' : i = g0.nodes.length := by
      have := Graph.indexOf?_congr hn ("Dum" ++ toString k0)
      rw [this] at hi
      rw [hidx] at hi; cases hi; rfl
    subst hi'
    refine allowed_ld hpos ?_ (hb.demand_at hp hnm hj).2
    show (gAddArc _ _ _ _ _).demand _ = -m.size
    rw [Graph.demand_congr hn]
    exact hdem

theorem addEntryArcs_inv {m : Mirp} (hinv : Inv m) (limit time cost : ℚ) (m' : Mirp)
    (h : m.addEntryArcs limit time cost = some m') :
    Inv m' ∧ m'.size = m.size ∧ m'.supply = m.supply ∧ m'.demand = m.demand := by
  rw [addEntryArcs_eq, Option.map_eq_some_iff] at h
  obtain ⟨⟨g, k⟩, hr, rfl⟩ := h
  refine ⟨?_, rfl, rfl, rfl⟩
  refine foldl_inv (fun st => ∀ g k, st = some (g, k) → Inv { m with g := g }) _ m.demand ?_
    (some (entryG1 m limit time cost, 0)) ?_ g k hr
  · intro st hst p hp
    refine foldl_inv (fun st => ∀ g k, st = some (g, k) → Inv { m with g := g }) _ (m.nodesOf p) ?_
      st hst
    intro st hst nm hnm
    exact entryStep_inv limit time cost hp hnm st hst
  · intro g k hgk
    cases hgk
    exact entryG1_inv hinv limit time cost

theorem step_port (m : Mirp) (fuel : ℕ) (nm : String) (i r c : ℚ) :
    m.step fuel (.port nm i r c) =
      if r = 0 then (m, .zerodiv) else
      match m.addNodes fuel nm i r c with
      | none => (m, .nonterm)
      | some (m', .ok names) => (m', .ok names)
      | some (m', .error e) => (m', .err e) := rfl

theorem step_entry (m : Mirp) (fuel : ℕ) (l t c : ℚ) :
    m.step fuel (.entry l t c) =
      match m.addEntryArcs l t c with
      | none => (m, .err .value)
      | some m' => (m', .ok []) := rfl

theorem step_travel (m : Mirp) (fuel : ℕ) (sp u : ℚ) (dist : List (String × String × ℚ))
    (sf df : List (String × ℚ)) :
    m.step fuel (.travel sp u dist sf df) =
      if sp = 0 ∧ m.supply ≠ [] ∧ m.demand ≠ [] then (m, .zerodiv)
      else (m.addTravelArcs (lookupDist dist) sp u (lookupD sf) (lookupD df), .ok []) := rfl

/-- `add_travel_arcs` with vessel speed 0 and at least one (supply port, demand port) pair raises
    `ZeroDivisionError` before any arc is added: the state is unchanged -/
theorem step_travel_zero_speed (fuel : ℕ) (m : Mirp) (u : ℚ) (dist : List (String × String × ℚ))
    (sf df : List (String × ℚ)) (hs : m.supply ≠ []) (hd : m.demand ≠ []) :
    m.step fuel (.travel 0 u dist sf df) = (m, .zerodiv) := by
  rw [step_travel, if_pos ⟨rfl, hs, hd⟩]

/-- a helper call that raises `ZeroDivisionError` leaves the state unchanged -/
theorem step_zerodiv_state (fuel : ℕ) (m : Mirp) (op : MOp) (h : (m.step fuel op).2 = .zerodiv) :
    (m.step fuel op).1 = m := by
  cases op with
  | port nm i r c =>
    rw [step_port] at h ⊢
    by_cases hr : r = 0
    · simp [hr]
    · simp only [hr, if_false] at h ⊢
      cases ha : m.addNodes fuel nm i r c with
      | none => rfl
      | some res =>
        obtain ⟨m', res⟩ := res
        rw [ha] at h
        cases res <;> simp at h
  | travel sp u dist sf df =>
    rw [step_travel] at h ⊢
    by_cases hz : sp = 0 ∧ m.supply ≠ [] ∧ m.demand ≠ []
    · rw [if_pos hz]
    · rw [if_neg hz] at h; simp at h
  | exit t c => exact absurd h (by simp [Mirp.step])
  | entry l t c =>
    rw [step_entry] at h ⊢
    cases ha : m.addEntryArcs l t c with
    | none => rfl
    | some m' => rw [ha] at h; simp at h

/-- one successful helper call keeps the invariant, the cargo size, and only a `port` call declares a port -/
theorem step_inv {m : Mirp} (hinv : Inv m) (fuel : ℕ) (op : MOp)
    (hfresh : ∀ p ∈ portNames [op], p ∉ m.supply ∧ p ∉ m.demand) (names : List String)
    (hok : (m.step fuel op).2 = .ok names) :
    Inv (m.step fuel op).1 ∧ (m.step fuel op).1.size = m.size ∧
      (∀ p, p ∈ (m.step fuel op).1.supply ∨ p ∈ (m.step fuel op).1.demand →
        p ∈ m.supply ∨ p ∈ m.demand ∨ p ∈ portNames [op]) := by
  cases op with
  | port nm i r c =>
    have hf := hfresh nm (by simp [portNames])
    rw [step_port] at hok ⊢
    by_cases hr : r = 0
    · simp [hr] at hok
    · simp only [hr, if_false] at hok ⊢
      cases ha : m.addNodes fuel nm i r c with
      | none => rw [ha] at hok; simp at hok
      | some res =>
        obtain ⟨m', res⟩ := res
        obtain ⟨h1, h2, h3⟩ := addNodes_inv hinv fuel nm i r c hf.1 hf.2 m' res ha
        cases res with
        | error e => rw [ha] at hok; simp at hok
        | ok nms =>
          simp only
          refine ⟨h1, h2, ?_⟩
          intro p hp
          rcases h3 p hp with h | h | h
          · exact Or.inl h
          · exact Or.inr (Or.inl h)
          · exact Or.inr (Or.inr (by simp [portNames, h]))
  | travel sp u dist sf df =>
    rw [step_travel] at hok ⊢
    by_cases hz : sp = 0 ∧ m.supply ≠ [] ∧ m.demand ≠ []
    · rw [if_pos hz] at hok; simp at hok
    · rw [if_neg hz]
      exact ⟨addTravelArcs_inv hinv _ _ _ _ _, rfl, fun p hp => by
        rcases hp with hp | hp
        · exact Or.inl hp
        · exact Or.inr (Or.inl hp)⟩
  | exit t c =>
    exact ⟨addExitArcs_inv hinv _ _, rfl, fun p hp => by
      rcases hp with hp | hp
      · exact Or.inl hp
      · exact Or.inr (Or.inl hp)⟩
  | entry l t c =>
    rw [step_entry] at hok ⊢
    cases ha : m.addEntryArcs l t c with
    | none => rw [ha] at hok; simp at hok
    | some m' =>
      obtain ⟨h1, h2, h3, h4⟩ := addEntryArcs_inv hinv l t c m' ha
      simp only
      refine ⟨h1, h2, ?_⟩
      intro p hp
      rw [h3, h4] at hp
      rcases hp with hp | hp
      · exact Or.inl hp
      · exact Or.inr (Or.inl hp)

theorem portNames_cons (op : MOp) (ops : List MOp) : portNames (op :: ops) = portNames [op] ++ portNames ops := by
  cases op <;> simp [portNames]

theorem build_inv_gen (fuel : ℕ) (ops : List MOp) :
    ∀ (m m' : Mirp), Inv m → (portNames ops).Nodup →
      (∀ p ∈ portNames ops, p ∉ m.supply ∧ p ∉ m.demand) →
      Mirp.build fuel m ops = some m' → Inv m' ∧ m'.size = m.size := by
  induction ops with
  | nil =>
    intro m m' hinv _ _ h
    simp only [Mirp.build, Option.some.injEq] at h
    subst h; exact ⟨hinv, rfl⟩
  | cons op rest ih =>
    intro m m' hinv hnd hfresh h
    rw [portNames_cons] at hnd hfresh
    unfold Mirp.build at h
    cases hres : (m.step fuel op).2 with
    | ok names =>
      rw [hres] at h
      simp only at h
      obtain ⟨h1, h2, h3⟩ := step_inv hinv fuel op
        (fun p hp => hfresh p (List.mem_append_left _ hp)) names hres
      obtain ⟨r1, r2⟩ := ih _ m' h1 (List.Nodup.of_append_right hnd) (by
        intro p hp
        have hpf := hfresh p (List.mem_append_right _ hp)
        have hdis : p ∉ portNames [op] := fun hmem =>
          (List.nodup_append.mp hnd).2.2 p hmem p hp rfl
        constructor
        · intro hmem
          rcases h3 p (Or.inl hmem) with h | h | h
          · exact hpf.1 h
          · exact hpf.2 h
          · exact hdis h
        · intro hmem
          rcases h3 p (Or.inr hmem) with h | h | h
          · exact hpf.1 h
          · exact hpf.2 h
          · exact hdis h) h
      exact ⟨r1, r2.trans h2⟩
    | err e => rw [hres] at h; simp at h
    | zerodiv => rw [hres] at h; simp at h
    | nonterm => rw [hres] at h; simp at h

theorem inv_new (size horizon : ℚ) : Inv (Mirp.new size horizon) := by
  refine ⟨⟨by simp [Mirp.new, Graph.names], ?_, by simp [Mirp.new], ?_⟩, rfl, ?_, ?_, ?_, ?_, ?_⟩
  · intro n hn
    simp only [Mirp.new, List.mem_singleton] at hn
    subst hn; rfl
  · intro e he; simp [Mirp.new] at he
  · intro i h0 hlt
    simp [Mirp.new] at hlt
    omega
  · intro p hp; simp [Mirp.new] at hp
  · intro p hp; simp [Mirp.new] at hp
  · intro e he; simp [Mirp.new] at he
  · intro e he; simp [Mirp.new] at he

/-! ## the property theorems -/

/-- **every successful build satisfies the invariant**, whatever the order and number of helper calls,
    provided the cargo size is positive and no port name is declared twice -/
theorem build_inv (fuel : ℕ) (size horizon : ℚ) (hsize : 0 < size) (ops : List MOp)
    (hports : (portNames ops).Nodup) (m : Mirp)
    (h : Mirp.build fuel (Mirp.new size horizon) ops = some m) : Inv m ∧ m.size = size := by
  have _ := hsize  -- not needed: the invariant is structural (exclusivity of the two kinds needs it later)
  exact build_inv_gen fuel ops (Mirp.new size horizon) m (inv_new size horizon) hports
    (fun p _ => ⟨by simp [Mirp.new], by simp [Mirp.new]⟩) h

/-- a depot path: positions `0 = i₀, i₁, …, iₖ` with consecutive stored arcs, never back at the depot -/
def IsPath (m : Mirp) : ℕ → List ℕ → Prop
  | _, [] => True
  | cur, j :: rest => m.g.hasArc cur j = true ∧ j ≠ 0 ∧ IsPath m j rest

/-- vessel load after following a path from a given load (a visit adds `-demand`) -/
def loadAfter (m : Mirp) (load : ℚ) : List ℕ → ℚ
  | [] => load
  | j :: rest => loadAfter m (load - m.g.demand j) rest

/-- vessel state at a node: empty at the depot and after discharging, full after loading -/
def St (m : Mirp) (cur : ℕ) (load : ℚ) : Prop :=
  (cur = 0 ∧ load = 0) ∨ (cur ≠ 0 ∧ loading m cur ∧ load = m.size) ∨
    (cur ≠ 0 ∧ discharging m cur ∧ load = 0)

theorem hasArc_mem {g : Graph} {i j : ℕ} (h : g.hasArc i j = true) :
    ∃ e ∈ g.arcs, e.1.1 = i ∧ e.1.2 = j := by
  obtain ⟨e, he, hk⟩ := dictHas_iff.mp h
  exact ⟨e, he, by rw [hk], by rw [hk]⟩

theorem st_step (m : Mirp) (hsize : 0 < m.size) (hinv : Inv m) {cur j : ℕ} {load : ℚ}
    (hst : St m cur load) (harc : m.g.hasArc cur j = true) (hj : j ≠ 0) :
    St m j (load - m.g.demand j) := by
  obtain ⟨e, he, he1, he2⟩ := hasArc_mem harc
  have hexcl : ∀ i, loading m i → discharging m i → False := by
    intro i h1 h2
    have : -m.size = m.size := h1.symm.trans h2
    linarith
  rcases hst with ⟨h0, hload⟩ | ⟨h0, hl, hload⟩ | ⟨h0, hd, hload⟩
  · have hlj : loading m j := by
      have := hinv.fromDepot e he (he1.trans h0) (by rw [he2]; exact hj)
      rwa [he2] at this
    refine Or.inr (Or.inl ⟨hj, hlj, ?_⟩)
    rw [hload, hlj]; linarith
  · have := hinv.alternate e he (by rw [he1]; exact h0) (by rw [he2]; exact hj)
    rw [he1, he2] at this
    rcases this with ⟨_, hdj⟩ | ⟨hd, _⟩
    · refine Or.inr (Or.inr ⟨hj, hdj, ?_⟩)
      rw [hload, hdj]; linarith
    · exact absurd hd (fun hd => hexcl cur hl hd)
  · have := hinv.alternate e he (by rw [he1]; exact h0) (by rw [he2]; exact hj)
    rw [he1, he2] at this
    rcases this with ⟨hl, _⟩ | ⟨_, hlj⟩
    · exact absurd hd (fun hd => hexcl cur hl hd)
    · refine Or.inr (Or.inl ⟨hj, hlj, ?_⟩)
      rw [hload, hlj]; linarith

theorem path_st (m : Mirp) (hsize : 0 < m.size) (hinv : Inv m) :
    ∀ (path : List ℕ) (cur : ℕ) (load : ℚ), St m cur load → IsPath m cur path →
      St m (path.getLast?.getD cur) (loadAfter m load path) := by
  intro path
  induction path with
  | nil => intro cur load hst _; simpa [loadAfter] using hst
  | cons j rest ih =>
    intro cur load hst hp
    obtain ⟨harc, hj, hrest⟩ := hp
    have := ih j (load - m.g.demand j) (st_step m hsize hinv hst harc hj) hrest
    rw [List.getLast?_cons, Option.getD_some]
    exact this

theorem path_ne_zero (m : Mirp) : ∀ (path : List ℕ) (cur : ℕ), IsPath m cur path → ∀ j ∈ path, j ≠ 0 := by
  intro path
  induction path with
  | nil => intro cur _ j hj; cases hj
  | cons a rest ih =>
    intro cur hp j hj
    obtain ⟨_, ha, hrest⟩ := hp
    rcases List.mem_cons.mp hj with h | h
    · rw [h]; exact ha
    · exact ih a hrest j h

/-- **load alternation**: along every path from the depot (starting empty) the load after each stop is the
    cargo size after a loading node and 0 after a discharging node — hence always in `{0, size}`, which is
    what the path-based load check `0 ≤ load ≤ capacity` needs -/
theorem load_alternates (m : Mirp) (hsize : 0 < m.size) (hinv : Inv m) (path : List ℕ) (hp : IsPath m 0 path)
    (hne : path ≠ []) :
    (loading m (path.getLast hne) → loadAfter m 0 path = m.size) ∧
    (discharging m (path.getLast hne) → loadAfter m 0 path = 0) ∧
    (loadAfter m 0 path = 0 ∨ loadAfter m 0 path = m.size) := by
  have hst := path_st m hsize hinv path 0 0 (Or.inl ⟨rfl, rfl⟩) hp
  rw [List.getLast?_eq_some_getLast hne, Option.getD_some] at hst
  have hl0 : path.getLast hne ≠ 0 := path_ne_zero m path 0 hp _ (List.getLast_mem hne)
  rcases hst with ⟨h0, _⟩ | ⟨_, hl, hload⟩ | ⟨_, hd, hload⟩
  · exact absurd h0 hl0
  · refine ⟨fun _ => hload, fun hd => ?_, Or.inr hload⟩
    exact absurd (hl.symm.trans hd) (by intro h; linarith)
  · refine ⟨fun hl => ?_, fun _ => hload, Or.inl hload⟩
    exact absurd (hl.symm.trans hd) (by intro h; linarith)

/-- **every regular node has an exit arc** once `add_exit_arcs` has been called with a non-negative… in
    fact with any travel time: the depot window is `[0, ∞)`, so the timing filter always passes -/
theorem exit_arc_every_regular_node (m : Mirp) (hinv : Inv m) (t c : ℚ) :
    ∀ p ∈ m.supply ++ m.demand, ∀ nm ∈ m.nodesOf p,
      ∃ i, (m.addExitArcs t c).g.indexOf? nm = some i ∧ (m.addExitArcs t c).g.hasArc i 0 = true := by
  intro p hp nm hnm
  obtain ⟨i, hi⟩ : ∃ i, m.g.indexOf? nm = some i := by
    rcases List.mem_append.mp hp with h | h
    · obtain ⟨i, h1, _⟩ := hinv.supplyNodes p h nm hnm; exact ⟨i, h1⟩
    · obtain ⟨i, h1, _⟩ := hinv.demandNodes p h nm hnm; exact ⟨i, h1⟩
  have hPstep : ∀ (g : Graph) (nm' : String), g.nodes = m.g.nodes →
      (gAddArc g nm' "Depot" t c).nodes = m.g.nodes :=
    fun g nm' h => (gAddArc_nodes _ _ _ _ _).trans h
  have hPQstep : ∀ (g : Graph) (nm' : String), (g.nodes = m.g.nodes ∧ g.hasArc i 0 = true) →
      ((gAddArc g nm' "Depot" t c).nodes = m.g.nodes ∧ (gAddArc g nm' "Depot" t c).hasArc i 0 = true) :=
    fun g nm' h => ⟨(gAddArc_nodes _ _ _ _ _).trans h.1, gAddArc_hasArc_mono _ _ _ _ _ _ _ h.2⟩
  have hest : ∀ g : Graph, g.nodes = m.g.nodes →
      ((gAddArc g nm "Depot" t c).nodes = m.g.nodes ∧ (gAddArc g nm "Depot" t c).hasArc i 0 = true) := by
    intro g hg
    have h1 : g.indexOf? nm = some i := by rw [Graph.indexOf?_congr hg]; exact hi
    have h2 : g.indexOf? "Depot" = some 0 := by rw [Graph.indexOf?_congr hg]; exact hinv.depot_index
    have h3 : leE (g.lo i + t) (g.hi 0) = true := by rw [Graph.hi_congr hg, hinv.hi_depot]; rfl
    rw [gAddArc_eq_of h1 h2 h3]
    exact ⟨hg, dictHas_dictSet_self _ _ _⟩
  have hfin := foldl_establish (fun g : Graph => g.nodes = m.g.nodes)
    (fun g : Graph => g.nodes = m.g.nodes ∧ g.hasArc i 0 = true)
    (fun g port => (m.nodesOf port).foldl (fun g nm => gAddArc g nm "Depot" t c) g)
    (m.supply ++ m.demand) p hp
    (fun g hg q _ => foldl_inv _ _ (m.nodesOf q) (fun g hg x _ => hPstep g x hg) g hg)
    (fun g hg q _ => foldl_inv _ _ (m.nodesOf q) (fun g hg x _ => hPQstep g x hg) g hg)
    (fun g hg => foldl_establish _ _ _ (m.nodesOf p) nm hnm (fun g hg x _ => hPstep g x hg)
      (fun g hg x _ => hPQstep g x hg) hest g hg)
    m.g rfl
  rw [addExitArcs_eq]
  exact ⟨i, by rw [Graph.indexOf?_congr hfin.1]; exact hi, hfin.2⟩

theorem loop_arcs (port : String) (lvl init rate cap : ℚ) (fuel : ℕ) :
    ∀ (m : Mirp) (k : ℕ) (acc : List String) (m' : Mirp) (r : Except Err (List String)),
      addNodesLoop fuel m port lvl init rate cap k acc = some (m', r) → m'.g.arcs = m.g.arcs := by
  induction fuel with
  | zero => intro m k acc m' r h; simp [addNodesLoop] at h
  | succ fuel ih =>
    intro m k acc m' r h
    rw [addNodesLoop_succ] at h
    split_ifs at h with hhor
    · cases h; rfl
    · split at h
      · cases h; rfl
      · exact (ih _ _ _ m' r h).trans (addNodeStep_arcs _ _ _ _ _)

theorem addNodes_arcs {m m' : Mirp} {fuel : ℕ} {port : String} {init rate cap : ℚ}
    {r : Except Err (List String)} (h : m.addNodes fuel port init rate cap = some (m', r)) :
    m'.g.arcs = m.g.arcs := by
  unfold Mirp.addNodes at h
  by_cases hr : 0 < rate
  · simp only [hr, if_true] at h
    have := loop_arcs _ _ _ _ _ _ _ _ _ _ _ h
    exact this
  · simp only [hr, if_false] at h
    have := loop_arcs _ _ _ _ _ _ _ _ _ _ _ h
    exact this

theorem addEntryArcs_mono {m m' : Mirp} {limit time cost : ℚ} {i j : ℕ} (h : m.g.hasArc i j = true)
    (ha : m.addEntryArcs limit time cost = some m') : m'.g.hasArc i j = true := by
  rw [addEntryArcs_eq, Option.map_eq_some_iff] at ha
  obtain ⟨⟨g, k⟩, hr, rfl⟩ := ha
  show g.hasArc i j = true
  refine foldl_inv (fun st : Option (Graph × ℕ) => ∀ g k, st = some (g, k) → g.hasArc i j = true) _
    m.demand ?_ (some (entryG1 m limit time cost, 0)) ?_ g k hr
  · intro st hst p _
    refine foldl_inv (fun st : Option (Graph × ℕ) => ∀ g k, st = some (g, k) → g.hasArc i j = true) _
      (m.nodesOf p) ?_ st hst
    intro st hst nm _ g k hgk
    rcases entryStep_cases m limit time cost st nm with h' | h' | ⟨g0, k0, x, hst0, _, h'⟩
    · rw [h'] at hgk; cases hgk
    · rw [h'] at hgk; exact hst g k hgk
    · rw [h'] at hgk
      cases hgk
      refine gAddArc_hasArc_mono _ _ _ _ _ _ _ (gAddArc_hasArc_mono _ _ _ _ _ _ _ ?_)
      unfold Graph.hasArc
      rw [addNodeStep_arcs]
      exact hst g0 k0 hst0
  · intro g k hgk
    cases hgk
    unfold entryG1
    refine foldl_inv (fun g : Graph => g.hasArc i j = true) _ m.supply ?_ m.g h
    intro g hg p _
    refine foldl_inv (fun g : Graph => g.hasArc i j = true) _ (m.nodesOf p) ?_ g hg
    intro g hg nm _
    show (if nodeHiLt g nm limit then gAddArc g "Depot" nm time cost else g).hasArc i j = true
    split_ifs
    · exact gAddArc_hasArc_mono _ _ _ _ _ _ _ hg
    · exact hg

/-- arcs are only ever added, never removed or re-keyed, by the arc-adding helpers (so exit arcs survive
    later `add_travel_arcs` / `add_entry_arcs` calls) -/
theorem arcs_monotone (fuel : ℕ) (m : Mirp) (op : MOp) (i j : ℕ)
    (h : m.g.hasArc i j = true) : ((m.step fuel op).1).g.hasArc i j = true := by
  cases op with
  | port nm i0 r c =>
    rw [step_port]
    by_cases hr : r = 0
    · simp only [hr, if_true]; exact h
    · simp only [hr, if_false]
      cases ha : m.addNodes fuel nm i0 r c with
      | none => exact h
      | some res =>
        obtain ⟨m', res⟩ := res
        have harcs : m'.g.arcs = m.g.arcs := addNodes_arcs ha
        have : m'.g.hasArc i j = true := by unfold Graph.hasArc; rw [harcs]; exact h
        cases res <;> exact this
  | travel sp u dist sf df =>
    rw [step_travel]
    by_cases hz : sp = 0 ∧ m.supply ≠ [] ∧ m.demand ≠ []
    · rw [if_pos hz]; exact h
    rw [if_neg hz]
    show (m.addTravelArcs (lookupDist dist) sp u (lookupD sf) (lookupD df)).g.hasArc i j = true
    rw [addTravelArcs_eq]
    refine foldl_inv (fun g : Graph => g.hasArc i j = true) _ m.supply ?_ m.g h
    intro g hg sp _
    refine foldl_inv (fun g : Graph => g.hasArc i j = true) _ m.demand ?_ g hg
    intro g hg dp _
    refine foldl_inv (fun g : Graph => g.hasArc i j = true) _ (m.nodesOf sp) ?_ g hg
    intro g hg sn _
    refine foldl_inv (fun g : Graph => g.hasArc i j = true) _ (m.nodesOf dp) ?_ g hg
    intro g hg dn _
    exact gAddArc_hasArc_mono _ _ _ _ _ _ _ (gAddArc_hasArc_mono _ _ _ _ _ _ _ hg)
  | exit t c =>
    show (m.addExitArcs t c).g.hasArc i j = true
    rw [addExitArcs_eq]
    refine foldl_inv (fun g : Graph => g.hasArc i j = true) _ (m.supply ++ m.demand) ?_ m.g h
    intro g hg p _
    refine foldl_inv (fun g : Graph => g.hasArc i j = true) _ (m.nodesOf p) ?_ g hg
    intro g hg nm _
    exact gAddArc_hasArc_mono _ _ _ _ _ _ _ hg
  | entry l t c =>
    rw [step_entry]
    cases ha : m.addEntryArcs l t c with
    | none => exact h
    | some m' => exact addEntryArcs_mono h ha

/-- a property established by the two `add_arc` calls for one pair of visit nodes and kept by all the
    other pairs holds after `add_travel_arcs` -/
theorem travel_fold (m : Mirp) (dist : String → String → ℚ) (speed unit : ℚ) (sfee dfee : String → ℚ)
    (PQ : Graph → Prop) {sp dp sn dn : String}
    (hsp : sp ∈ m.supply) (hdp : dp ∈ m.demand) (hsn : sn ∈ m.nodesOf sp) (hdn : dn ∈ m.nodesOf dp)
    (hkeep : ∀ sp' ∈ m.supply, ∀ dp' ∈ m.demand, ∀ sn' ∈ m.nodesOf sp', ∀ dn' ∈ m.nodesOf dp', ∀ g,
      PQ g → PQ (travelStep dist speed unit sfee dfee sp' dp' sn' dn' g))
    (hest : ∀ g : Graph, g.nodes = m.g.nodes → PQ (travelStep dist speed unit sfee dfee sp dp sn dn g)) :
    PQ (m.addTravelArcs dist speed unit sfee dfee).g := by
  rw [addTravelArcs_eq]
  have hP4 : ∀ sp' dp' sn' dn' (g : Graph), g.nodes = m.g.nodes →
      (travelStep dist speed unit sfee dfee sp' dp' sn' dn' g).nodes = m.g.nodes :=
    fun sp' dp' sn' dn' g hg => (travelStep_nodes _ _ _ _ _ _ _ _ _ _).trans hg
  have hP3 : ∀ sp' dp' sn' (g : Graph), g.nodes = m.g.nodes →
      ((m.nodesOf dp').foldl (fun g dn => travelStep dist speed unit sfee dfee sp' dp' sn' dn g) g).nodes
        = m.g.nodes :=
    fun sp' dp' sn' g hg => foldl_inv (fun g : Graph => g.nodes = m.g.nodes) _ _
      (fun g hg dn' _ => hP4 sp' dp' sn' dn' g hg) g hg
  have hP2 : ∀ sp' dp' (g : Graph), g.nodes = m.g.nodes →
      ((m.nodesOf sp').foldl (fun g sn => (m.nodesOf dp').foldl (fun g dn =>
        travelStep dist speed unit sfee dfee sp' dp' sn dn g) g) g).nodes = m.g.nodes :=
    fun sp' dp' g hg => foldl_inv (fun g : Graph => g.nodes = m.g.nodes) _ _
      (fun g hg sn' _ => hP3 sp' dp' sn' g hg) g hg
  have hP1 : ∀ sp' (g : Graph), g.nodes = m.g.nodes →
      (m.demand.foldl (fun g dp => (m.nodesOf sp').foldl (fun g sn => (m.nodesOf dp).foldl (fun g dn =>
        travelStep dist speed unit sfee dfee sp' dp sn dn g) g) g) g).nodes = m.g.nodes :=
    fun sp' g hg => foldl_inv (fun g : Graph => g.nodes = m.g.nodes) _ _
      (fun g hg dp' _ => hP2 sp' dp' g hg) g hg
  have hQ3 : ∀ sp' ∈ m.supply, ∀ dp' ∈ m.demand, ∀ sn' ∈ m.nodesOf sp', ∀ g : Graph, PQ g →
      PQ ((m.nodesOf dp').foldl (fun g dn => travelStep dist speed unit sfee dfee sp' dp' sn' dn g) g) :=
    fun sp' hsp' dp' hdp' sn' hsn' g hg => foldl_inv PQ _ _
      (fun g hg dn' hdn' => hkeep sp' hsp' dp' hdp' sn' hsn' dn' hdn' g hg) g hg
  have hQ2 : ∀ sp' ∈ m.supply, ∀ dp' ∈ m.demand, ∀ g : Graph, PQ g →
      PQ ((m.nodesOf sp').foldl (fun g sn => (m.nodesOf dp').foldl (fun g dn =>
        travelStep dist speed unit sfee dfee sp' dp' sn dn g) g) g) :=
    fun sp' hsp' dp' hdp' g hg => foldl_inv PQ _ _
      (fun g hg sn' hsn' => hQ3 sp' hsp' dp' hdp' sn' hsn' g hg) g hg
  have hQ1 : ∀ sp' ∈ m.supply, ∀ g : Graph, PQ g →
      PQ (m.demand.foldl (fun g dp => (m.nodesOf sp').foldl (fun g sn => (m.nodesOf dp).foldl (fun g dn =>
        travelStep dist speed unit sfee dfee sp' dp sn dn g) g) g) g) :=
    fun sp' hsp' g hg => foldl_inv PQ _ _
      (fun g hg dp' hdp' => hQ2 sp' hsp' dp' hdp' g hg) g hg
  show PQ (List.foldl _ _ _)
  refine foldl_establish (fun g : Graph => g.nodes = m.g.nodes) PQ _ m.supply sp hsp
    (fun g hg sp' _ => hP1 sp' g hg) (fun g hg sp' hsp' => hQ1 sp' hsp' g hg) ?_ m.g rfl
  intro g hg
  refine foldl_establish (fun g : Graph => g.nodes = m.g.nodes) PQ _ m.demand dp hdp
    (fun g hg dp' _ => hP2 sp dp' g hg) (fun g hg dp' hdp' => hQ2 sp hsp dp' hdp' g hg) ?_ g hg
  intro g hg
  refine foldl_establish (fun g : Graph => g.nodes = m.g.nodes) PQ _ (m.nodesOf sp) sn hsn
    (fun g hg sn' _ => hP3 sp dp sn' g hg) (fun g hg sn' hsn' => hQ3 sp hsp dp hdp sn' hsn' g hg) ?_ g hg
  intro g hg
  exact foldl_establish (fun g : Graph => g.nodes = m.g.nodes) PQ _ (m.nodesOf dp) dn hdn
    (fun g hg dn' _ => hP4 sp dp sn dn' g hg)
    (fun g hg dn' hdn' => hkeep sp hsp dp hdp sn hsn dn' hdn' g hg) hest g hg

/-- **travel arcs carry time = distance / speed and cost = distance × unit cost + fee of the destination
    port**: what `add_travel_arcs` stores for a supply visit `sn` of port `sp` and a demand visit `dn` of `dp`
    when the timing filter passes (in both directions); an arc already stored under the same key is
    overwritten.  `hsize : m.size ≠ 0` is required: with cargo size 0 "loading" and "discharging"
    coincide, one node `x` may be a visit of a supply port `A` and of a demand port `B`, and then the two
    calls `add_arc(x, x, …, cost + dfee B)`, `add_arc(x, x, …, cost + sfee A)` write the same key `(i, i)`,
    the second overwriting the first.  `hsup` / `hdem` are not needed. -/
theorem travel_arc_data (m : Mirp) (hinv : Inv m) (hsize : m.size ≠ 0) (dist : String → String → ℚ) (speed unit : ℚ)
    (sfee dfee : String → ℚ) (sp dp sn dn : String) (i j : ℕ)
    (hsp : sp ∈ m.supply) (hdp : dp ∈ m.demand) (hsn : sn ∈ m.nodesOf sp) (hdn : dn ∈ m.nodesOf dp)
    (hi : m.g.indexOf? sn = some i) (hj : m.g.indexOf? dn = some j)
    (hsup : m.supply.Nodup) (hdem : m.demand.Nodup)
    (hmapS : ∀ p ∈ m.supply, ∀ q ∈ m.supply, ∀ x, x ∈ m.nodesOf p → x ∈ m.nodesOf q → p = q)
    (hmapD : ∀ p ∈ m.demand, ∀ q ∈ m.demand, ∀ x, x ∈ m.nodesOf p → x ∈ m.nodesOf q → p = q) :
    let m' := m.addTravelArcs dist speed unit sfee dfee
    (leE (m.g.lo i + dist sp dp / speed) (m.g.hi j) = true →
      m'.g.arc? i j = some ⟨sn, dn, dist sp dp / speed, dist sp dp * unit + dfee dp⟩) ∧
    (leE (m.g.lo j + dist sp dp / speed) (m.g.hi i) = true →
      m'.g.arc? j i = some ⟨dn, sn, dist sp dp / speed, dist sp dp * unit + sfee sp⟩) := by
  have _ := hsup  -- not needed: a repeated port repeats the same assignments
  have _ := hdem
  intro m'
  have hexcl : ∀ a, loading m a → discharging m a → False := by
    intro a h1 h2
    have h3 : -m.size = m.size := h1.symm.trans h2
    exact hsize (by linarith)
  -- positions of visit nodes in any graph with the nodes of `m.g`
  have hS : ∀ sp' ∈ m.supply, ∀ sn' ∈ m.nodesOf sp', ∀ g : Graph, g.nodes = m.g.nodes →
      ∀ a, g.indexOf? sn' = some a → loading m a := by
    intro sp' hsp' sn' hsn' g hg a ha
    rw [Graph.indexOf?_congr hg] at ha
    exact (hinv.supply_at hsp' hsn' ha).2
  have hD : ∀ dp' ∈ m.demand, ∀ dn' ∈ m.nodesOf dp', ∀ g : Graph, g.nodes = m.g.nodes →
      ∀ a, g.indexOf? dn' = some a → discharging m a := by
    intro dp' hdp' dn' hdn' g hg a ha
    rw [Graph.indexOf?_congr hg] at ha
    exact (hinv.demand_at hdp' hdn' ha).2
  have hli : loading m i := (hinv.supply_at hsp hsn hi).2
  have hdj : discharging m j := (hinv.demand_at hdp hdn hj).2
  -- a supply visit at position `i` is `sn` (of port `sp`), a demand visit at `j` is `dn` (of `dp`)
  have hSeq : ∀ sp' ∈ m.supply, ∀ sn' ∈ m.nodesOf sp', ∀ g : Graph, g.nodes = m.g.nodes →
      g.indexOf? sn' = some i → sn' = sn ∧ sp' = sp := by
    intro sp' hsp' sn' hsn' g hg ha
    rw [Graph.indexOf?_congr hg] at ha
    have : sn' = sn := Graph.indexOf?_inj ha hi
    subst this
    exact ⟨rfl, hmapS sp' hsp' sp hsp sn' hsn' hsn⟩
  have hDeq : ∀ dp' ∈ m.demand, ∀ dn' ∈ m.nodesOf dp', ∀ g : Graph, g.nodes = m.g.nodes →
      g.indexOf? dn' = some j → dn' = dn ∧ dp' = dp := by
    intro dp' hdp' dn' hdn' g hg ha
    rw [Graph.indexOf?_congr hg] at ha
    have : dn' = dn := Graph.indexOf?_inj ha hj
    subst this
    exact ⟨rfl, hmapD dp' hdp' dp hdp dn' hdn' hdn⟩
  constructor
  · intro ht
    refine (travel_fold m dist speed unit sfee dfee
      (fun g => g.nodes = m.g.nodes ∧
        g.arc? i j = some ⟨sn, dn, dist sp dp / speed, dist sp dp * unit + dfee dp⟩)
      hsp hdp hsn hdn ?_ ?_).2
    · intro sp' hsp' dp' hdp' sn' hsn' dn' hdn' g hg
      refine ⟨(travelStep_nodes _ _ _ _ _ _ _ _ _ _).trans hg.1, ?_⟩
      unfold travelStep
      refine gAddArc_arc?_keep (gAddArc_arc?_keep hg.2 ?_) ?_
      · intro h1 h2
        obtain ⟨rfl, rfl⟩ := hSeq sp' hsp' sn' hsn' g hg.1 h1
        obtain ⟨rfl, rfl⟩ := hDeq dp' hdp' dn' hdn' g hg.1 h2
        rfl
      · intro h1 _
        exact absurd (hD dp' hdp' dn' hdn' _ ((gAddArc_nodes _ _ _ _ _).trans hg.1) i h1) (hexcl i hli)
    · intro g hg
      refine ⟨(travelStep_nodes _ _ _ _ _ _ _ _ _ _).trans hg, ?_⟩
      unfold travelStep
      have h1 : g.indexOf? sn = some i := by rw [Graph.indexOf?_congr hg]; exact hi
      have h2 : g.indexOf? dn = some j := by rw [Graph.indexOf?_congr hg]; exact hj
      have h3 : leE (g.lo i + dist sp dp / speed) (g.hi j) = true := by
        rw [Graph.lo_congr hg, Graph.hi_congr hg]; exact ht
      refine gAddArc_arc?_keep ?_ ?_
      · rw [gAddArc_eq_of h1 h2 h3]
        exact dictGet_dictSet_self _ _ _
      · intro h1' _
        exact absurd (hD dp hdp dn hdn _ ((gAddArc_nodes _ _ _ _ _).trans hg) i h1') (hexcl i hli)
  · intro ht
    refine (travel_fold m dist speed unit sfee dfee
      (fun g => g.nodes = m.g.nodes ∧
        g.arc? j i = some ⟨dn, sn, dist sp dp / speed, dist sp dp * unit + sfee sp⟩)
      hsp hdp hsn hdn ?_ ?_).2
    · intro sp' hsp' dp' hdp' sn' hsn' dn' hdn' g hg
      refine ⟨(travelStep_nodes _ _ _ _ _ _ _ _ _ _).trans hg.1, ?_⟩
      unfold travelStep
      refine gAddArc_arc?_keep (gAddArc_arc?_keep hg.2 ?_) ?_
      · intro h1 _
        exact absurd hdj (fun h => hexcl j (hS sp' hsp' sn' hsn' g hg.1 j h1) h)
      · intro h1 h2
        have hg1 := (gAddArc_nodes g sn' dn' (dist sp' dp' / speed) (dist sp' dp' * unit + dfee dp')).trans hg.1
        obtain ⟨rfl, rfl⟩ := hDeq dp' hdp' dn' hdn' _ hg1 h1
        obtain ⟨rfl, rfl⟩ := hSeq sp' hsp' sn' hsn' _ hg1 h2
        rfl
    · intro g hg
      refine ⟨(travelStep_nodes _ _ _ _ _ _ _ _ _ _).trans hg, ?_⟩
      unfold travelStep
      have hg1 := (gAddArc_nodes g sn dn (dist sp dp / speed) (dist sp dp * unit + dfee dp)).trans hg
      have h1 : (gAddArc g sn dn (dist sp dp / speed) (dist sp dp * unit + dfee dp)).indexOf? dn = some j := by
        rw [Graph.indexOf?_congr hg1]; exact hj
      have h2 : (gAddArc g sn dn (dist sp dp / speed) (dist sp dp * unit + dfee dp)).indexOf? sn = some i := by
        rw [Graph.indexOf?_congr hg1]; exact hi
      have h3 : leE ((gAddArc g sn dn (dist sp dp / speed) (dist sp dp * unit + dfee dp)).lo j +
          dist sp dp / speed) ((gAddArc g sn dn (dist sp dp / speed) (dist sp dp * unit + dfee dp)).hi i) = true := by
        rw [Graph.lo_congr hg1, Graph.hi_congr hg1]; exact ht
      rw [gAddArc_eq_of h1 h2 h3]
      exact dictGet_dictSet_self _ _ _

/-! ## non-vacuity

The theorems above speak about every *successful* build.  Here is one: cargo size 1, horizon 4, one supply
port `S` (rate 1) and one demand port `D` (rate −1) with three visits each, `add_travel_arcs` with vessel
speed 1, `add_exit_arcs`, `add_entry_arcs` (one dummy pre-loaded vessel `Dum0`).  The build is evaluated by
the kernel; it succeeds, has 8 nodes, contains the travel arcs `S-0 → D-0` (positions `1 → 4`) and
`D-0 → S-0`, and satisfies the invariant by `build_inv`. -/
example : ∃ m, Mirp.build 10 (Mirp.new 1 4)
      [.port "S" 0 1 2, .port "D" 2 (-1) 2,
       .travel 1 1 [("S", "D", 1)] [("S", 3)] [("D", 5)], .exit 1 0, .entry 3 0 0] = some m ∧
    m.g.nodes.length = 8 ∧ m.g.hasArc 1 4 = true ∧ m.g.hasArc 4 1 = true ∧ Inv m ∧ m.size = 1 := by
  have h : (Mirp.build 10 (Mirp.new 1 4)
      [.port "S" 0 1 2, .port "D" 2 (-1) 2,
       .travel 1 1 [("S", "D", 1)] [("S", 3)] [("D", 5)], .exit 1 0, .entry 3 0 0]).map
      (fun m => (m.g.nodes.length, m.g.hasArc 1 4, m.g.hasArc 4 1)) = some (8, true, true) := by
    decide +kernel
  obtain ⟨m, hm, hv⟩ := Option.map_eq_some_iff.mp h
  simp only [Prod.mk.injEq] at hv
  have hI := build_inv 10 1 4 (by decide) _ (by decide) m hm
  exact ⟨m, hm, hv.1, hv.2.1, hv.2.2, hI.1, hI.2⟩

/-- the same build with vessel speed 0 is rejected (`ZeroDivisionError` in the code) -/
example : Mirp.build 10 (Mirp.new 1 4)
      [.port "S" 0 1 2, .port "D" 2 (-1) 2,
       .travel 0 1 [("S", "D", 1)] [("S", 3)] [("D", 5)], .exit 1 0, .entry 3 0 0] = none := by
  decide +kernel

end Vrp.C12
