import VrpModel.Mirp
import VrpProofs.Props.C15

/-!
# C12 — MIRP graph enforces load/unload alternation and carries correct arc data
-/
namespace Vrp.C12
open Vrp

/-- `Mirp.new` creates the depot with window `[0, ∞)`, a vessel of capacity = cargo size starting empty -/
theorem new_vessel (size horizon : ℚ) :
    (Mirp.new size horizon).g.cap = some size ∧ (Mirp.new size horizon).g.init = some 0 ∧
    (Mirp.new size horizon).g.nodes = [⟨"Depot", 0, 0, none⟩] ∧ (Mirp.new size horizon).g.arcs = [] := ⟨rfl, rfl, rfl, rfl⟩

end Vrp.C12
