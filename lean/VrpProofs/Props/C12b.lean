import VrpProofs.Props.C12
import VrpProofs.Lemmas.MirpArcs
/-!
# C12 (second half): the arc set of a MIRP graph is exactly the specified one

`Props/C12.lean` proves the structural invariant, load alternation, exit arcs, monotonicity and the data
carried by travel arcs.  This file proves that a graph built in the standard order
(ports, `add_travel_arcs`, `add_exit_arcs`, `add_entry_arcs` — the order of `examples/mirp_g1.py` and of the
random generator) contains **no other arcs** than the specified ones, and contains all of them.

`m` is the MIRP after its ports have been declared (no arc yet); `mf` the finished one.  The finished graph
has the nodes of `m.g` followed by the dummy pre-loaded vessels created by `add_entry_arcs`.
-/
namespace Vrp.C12b
open Vrp Vrp.C12

/-- hypotheses on the port-declaration state (all hold after a successful sequence of `port` calls with
    distinct port names on `Mirp.new`; see `ports_build_facts`) -/
structure PortsDeclared (m : Mirp) : Prop where
  inv : Inv m
  size_ne : m.size ≠ 0
  noArcs : m.g.arcs = []
  /-- a visit node belongs to one port only -/
  mapS : ∀ p ∈ m.supply, ∀ q ∈ m.supply, ∀ x, x ∈ m.nodesOf p → x ∈ m.nodesOf q → p = q
  mapD : ∀ p ∈ m.demand, ∀ q ∈ m.demand, ∀ x, x ∈ m.nodesOf p → x ∈ m.nodesOf q → p = q

/-- the finished MIRP: standard helper order -/
def finish (m : Mirp) (dist : String → String → ℚ) (speed unit : ℚ) (sfee dfee : String → ℚ)
    (xt xc : ℚ) (limit et ec : ℚ) : Option Mirp :=
  ((m.addTravelArcs dist speed unit sfee dfee).addExitArcs xt xc).addEntryArcs limit et ec

/-- position `d` of the finished graph is a dummy pre-loaded vessel: a node appended by `add_entry_arcs`,
    loading a full cargo, window `[0, ∞)` -/
def IsDummy (m mf : Mirp) (d : ℕ) : Prop :=
  m.g.nodes.length ≤ d ∧ d < mf.g.nodes.length ∧
    mf.g.demand d = -m.size ∧ mf.g.lo d = 0 ∧ mf.g.hi d = none

/-- the specified arcs, as a predicate on positions of the finished graph -/
inductive SpecArc (m mf : Mirp) (dist : String → String → ℚ) (speed limit et : ℚ) : ℕ → ℕ → Prop
  /-- supply visit → demand visit, timing filter `lo_i + distance/speed ≤ hi_j` -/
  | travelSD {sp dp sn dn : String} {i j : ℕ} (hsp : sp ∈ m.supply) (hdp : dp ∈ m.demand)
      (hsn : sn ∈ m.nodesOf sp) (hdn : dn ∈ m.nodesOf dp)
      (hi : m.g.indexOf? sn = some i) (hj : m.g.indexOf? dn = some j)
      (ht : leE (m.g.lo i + dist sp dp / speed) (m.g.hi j) = true) : SpecArc m mf dist speed limit et i j
  /-- demand visit → supply visit -/
  | travelDS {sp dp sn dn : String} {i j : ℕ} (hsp : sp ∈ m.supply) (hdp : dp ∈ m.demand)
      (hsn : sn ∈ m.nodesOf sp) (hdn : dn ∈ m.nodesOf dp)
      (hi : m.g.indexOf? sn = some i) (hj : m.g.indexOf? dn = some j)
      (ht : leE (m.g.lo j + dist sp dp / speed) (m.g.hi i) = true) : SpecArc m mf dist speed limit et j i
  /-- one exit arc per regular node -/
  | exit {p nm : String} {i : ℕ} (hp : p ∈ m.supply ++ m.demand) (hnm : nm ∈ m.nodesOf p)
      (hi : m.g.indexOf? nm = some i) : SpecArc m mf dist speed limit et i 0
  /-- entry arc to a supply visit whose window ends before the entry limit (and can be reached in time) -/
  | entryS {sp sn : String} {j : ℕ} (hsp : sp ∈ m.supply) (hsn : sn ∈ m.nodesOf sp)
      (hj : m.g.indexOf? sn = some j) (hlim : nodeHiLt m.g sn limit = true)
      (ht : leE (0 + et) (m.g.hi j) = true) : SpecArc m mf dist speed limit et 0 j
  /-- depot → dummy pre-loaded vessel -/
  | toDummy {d : ℕ} (hd : IsDummy m mf d) : SpecArc m mf dist speed limit et 0 d
  /-- dummy → a demand visit whose window ends before the entry limit -/
  | fromDummy {d : ℕ} {dp dn : String} {j : ℕ} (hd : IsDummy m mf d) (hdp : dp ∈ m.demand)
      (hdn : dn ∈ m.nodesOf dp) (hj : m.g.indexOf? dn = some j) (hlim : nodeHiLt m.g dn limit = true)
      (ht : leE (0 + et) (m.g.hi j) = true) : SpecArc m mf dist speed limit et d j

variable {m mf : Mirp} {dist : String → String → ℚ} {speed unit : ℚ} {sfee dfee : String → ℚ}
  {xt xc limit et ec : ℚ}

/-! ### auxiliary: the exact arc set (`ma_finish_spec` in `Lemmas/MirpArcs.lean`) -/

theorem finish_spec (hm : PortsDeclared m) (hf : finish m dist speed unit sfee dfee xt xc limit et ec = some mf) :
    ∃ ts, FinSpec m mf dist speed limit et ts :=
  ma_finish_spec hm.inv dist speed unit sfee dfee xt xc limit et ec hf

theorem isDummy_iff {ts : List ℕ} (hS : FinSpec m mf dist speed limit et ts) (d : ℕ) :
    IsDummy m mf d ↔ m.g.nodes.length ≤ d ∧ d < m.g.nodes.length + ts.length := by
  obtain ⟨ex, e1, e2, e3⟩ := hS.nodes
  have hlen : mf.g.nodes.length = m.g.nodes.length + ts.length := by
    rw [e1, List.length_append, e2]
  constructor
  · intro h
    exact ⟨h.1, by rw [← hlen]; exact h.2.1⟩
  · rintro ⟨h1, h2⟩
    have hlt : d - m.g.nodes.length < ex.length := by omega
    have hget : mf.g.nodes[d]? = some ex[d - m.g.nodes.length] := by
      rw [e1, List.getElem?_append_right h1, List.getElem?_eq_getElem hlt]
    obtain ⟨h3, h4, h5⟩ := e3 _ (List.getElem_mem hlt)
    refine ⟨h1, by rw [hlen]; exact h2, ?_, ?_, ?_⟩
    · simp [Graph.demand, hget, h3]
    · simp [Graph.lo, hget, h4]
    · simp [Graph.hi, hget, h5]

theorem no_old_arcs (hm : PortsDeclared m) (a b : ℕ) : ¬ m.g.hasArc a b = true := by
  simp [Graph.hasArc, hm.noArcs, dictHas]

/-- the arcs leaving a position `d` beyond the nodes of `m.g` -/
theorem out_of_dummy {ts : List ℕ} (hm : PortsDeclared m) (hS : FinSpec m mf dist speed limit et ts)
    {d j : ℕ} (hd : m.g.nodes.length ≤ d) (h : mf.g.hasArc d j = true) :
    ts[d - m.g.nodes.length]? = some j := by
  have hL := hm.inv.nodes_pos
  rcases (hS.arcs d j).mp h with h0 | hT | hX | hES | hTD | hFD
  · exact absurd h0 (no_old_arcs hm _ _)
  · obtain ⟨sp, _, dp, _, sn, _, dn, _, ⟨h1, _, _⟩ | ⟨h1, _, _⟩⟩ := hT
    · have := Graph.indexOf?_lt h1; omega
    · have := Graph.indexOf?_lt h1; omega
  · obtain ⟨p, _, nm, _, h1, _⟩ := hX
    have := Graph.indexOf?_lt h1; omega
  · obtain ⟨sp, _, sn, _, h1, _⟩ := hES
    omega
  · omega
  · exact hFD.2.1

/-- the arcs entering a position `d` beyond the nodes of `m.g` -/
theorem into_dummy {ts : List ℕ} (hm : PortsDeclared m) (hS : FinSpec m mf dist speed limit et ts)
    {i d : ℕ} (hd : m.g.nodes.length ≤ d) (h : mf.g.hasArc i d = true) : i = 0 := by
  have hL := hm.inv.nodes_pos
  rcases (hS.arcs i d).mp h with h0 | hT | hX | hES | hTD | hFD
  · exact absurd h0 (no_old_arcs hm _ _)
  · obtain ⟨sp, _, dp, _, sn, _, dn, _, ⟨_, h1, _⟩ | ⟨_, h1, _⟩⟩ := hT
    · have := Graph.indexOf?_lt h1; omega
    · have := Graph.indexOf?_lt h1; omega
  · obtain ⟨p, _, nm, _, _, h1⟩ := hX
    omega
  · obtain ⟨sp, _, sn, _, h1, _⟩ := hES
    exact h1
  · exact hTD.1
  · obtain ⟨_, h2, _⟩ := hFD
    obtain ⟨dp, _, dn, _, _, h1⟩ := (hS.ts_mem d).mp (List.mem_of_getElem? h2)
    have := Graph.indexOf?_lt h1; omega

/-- the finished graph keeps the nodes of `m.g` as a prefix (so positions and windows of visits are unchanged) -/
theorem finish_nodes_prefix (hf : finish m dist speed unit sfee dfee xt xc limit et ec = some mf) :
    ∃ ex, mf.g.nodes = m.g.nodes ++ ex ∧ mf.supply = m.supply ∧ mf.demand = m.demand ∧ mf.size = m.size := by
  obtain ⟨⟨ex, hex⟩, h1, h2, h3⟩ := ma_entry_nodes _ mf limit et ec hf
  refine ⟨ex, ?_, h1, h2, h3⟩
  rw [hex, ma_exit_nodes, ma_travel_nodes]

/-- **no other arcs**: every arc of the finished graph is a specified one -/
theorem arcs_sound (hm : PortsDeclared m) (hf : finish m dist speed unit sfee dfee xt xc limit et ec = some mf)
    (i j : ℕ) (h : mf.g.hasArc i j = true) : SpecArc m mf dist speed limit et i j := by
  obtain ⟨ts, hS⟩ := finish_spec hm hf
  rcases (hS.arcs i j).mp h with h0 | hT | hX | hES | hTD | hFD
  · exact absurd h0 (no_old_arcs hm _ _)
  · obtain ⟨sp, hsp, dp, hdp, sn, hsn, dn, hdn, ⟨h1, h2, h3⟩ | ⟨h1, h2, h3⟩⟩ := hT
    · exact .travelSD hsp hdp hsn hdn h1 h2 h3
    · exact .travelDS hsp hdp hsn hdn h2 h1 h3
  · obtain ⟨p, hp, nm, hnm, h1, rfl⟩ := hX
    exact .exit hp hnm h1
  · obtain ⟨sp, hsp, sn, hsn, rfl, h1, h2, h3⟩ := hES
    exact .entryS hsp hsn h1 h2 h3
  · obtain ⟨rfl, h1, h2⟩ := hTD
    exact .toDummy ((isDummy_iff hS j).mpr ⟨h1, h2⟩)
  · obtain ⟨h1, h2, h3⟩ := hFD
    obtain ⟨dp, hdp, dn, hdn, hl, hj⟩ := (hS.ts_mem j).mp (List.mem_of_getElem? h2)
    have hlt : i - m.g.nodes.length < ts.length := (List.getElem?_eq_some_iff.mp h2).1
    exact .fromDummy ((isDummy_iff hS i).mpr ⟨h1, by omega⟩) hdp hdn hj hl h3

/-- **all of them** (the clauses that name both end points) -/
theorem arcs_complete (hm : PortsDeclared m) (hf : finish m dist speed unit sfee dfee xt xc limit et ec = some mf)
    (i j : ℕ) (h : SpecArc m mf dist speed limit et i j) (hni : ¬ IsDummy m mf i) (hnj : ¬ IsDummy m mf j) :
    mf.g.hasArc i j = true := by
  obtain ⟨ts, hS⟩ := finish_spec hm hf
  refine (hS.arcs i j).mpr (Or.inr ?_)
  unfold ArcSpec
  cases h with
  | travelSD hsp hdp hsn hdn hi hj ht =>
    exact Or.inl ⟨_, hsp, _, hdp, _, hsn, _, hdn, Or.inl ⟨hi, hj, ht⟩⟩
  | travelDS hsp hdp hsn hdn hi hj ht =>
    exact Or.inl ⟨_, hsp, _, hdp, _, hsn, _, hdn, Or.inr ⟨hj, hi, ht⟩⟩
  | exit hp hnm hi => exact Or.inr (Or.inl ⟨_, hp, _, hnm, hi, rfl⟩)
  | entryS hsp hsn hj hlim ht => exact Or.inr (Or.inr (Or.inl ⟨_, hsp, _, hsn, rfl, hj, hlim, ht⟩))
  | toDummy hd => exact absurd hd hnj
  | fromDummy hd => exact absurd hd hni

/-- every depot → dummy arc specified is present -/
theorem arcs_complete_toDummy (hm : PortsDeclared m)
    (hf : finish m dist speed unit sfee dfee xt xc limit et ec = some mf) (d : ℕ) (hd : IsDummy m mf d) :
    mf.g.hasArc 0 d = true := by
  obtain ⟨ts, hS⟩ := finish_spec hm hf
  obtain ⟨h1, h2⟩ := (isDummy_iff hS d).mp hd
  refine (hS.arcs 0 d).mpr (Or.inr ?_)
  unfold ArcSpec
  exact Or.inr (Or.inr (Or.inr (Or.inl ⟨rfl, h1, h2⟩)))

/-- **via a dummy loaded vessel**: every demand visit whose window ends before the entry limit gets its own
    dummy, entered from the depot, whose only way out is that visit (when it can be reached in time) -/
theorem entry_via_dummy (hm : PortsDeclared m) (hf : finish m dist speed unit sfee dfee xt xc limit et ec = some mf)
    {dp dn : String} {j : ℕ} (hdp : dp ∈ m.demand) (hdn : dn ∈ m.nodesOf dp) (hj : m.g.indexOf? dn = some j)
    (hlim : nodeHiLt m.g dn limit = true) :
    ∃ d, IsDummy m mf d ∧ mf.g.hasArc 0 d = true ∧
      (leE (0 + et) (m.g.hi j) = true → mf.g.hasArc d j = true) ∧
      (∀ j', mf.g.hasArc d j' = true → j' = j) := by
  obtain ⟨ts, hS⟩ := finish_spec hm hf
  have hjts : j ∈ ts := (hS.ts_mem j).mpr ⟨dp, hdp, dn, hdn, hlim, hj⟩
  obtain ⟨t, ht⟩ := List.mem_iff_getElem?.mp hjts
  have htlt : t < ts.length := (List.getElem?_eq_some_iff.mp ht).1
  have hsub : m.g.nodes.length + t - m.g.nodes.length = t := by omega
  have hdum : IsDummy m mf (m.g.nodes.length + t) := (isDummy_iff hS _).mpr ⟨by omega, by omega⟩
  refine ⟨m.g.nodes.length + t, hdum, arcs_complete_toDummy hm hf _ hdum, ?_, ?_⟩
  · intro htime
    refine (hS.arcs _ _).mpr (Or.inr ?_)
    unfold ArcSpec
    exact Or.inr (Or.inr (Or.inr (Or.inr ⟨by omega, by rw [hsub]; exact ht, htime⟩)))
  · intro j' h
    have := out_of_dummy hm hS (by omega) h
    rw [hsub, ht] at this
    cases this; rfl

/-- a dummy has at most one outgoing arc and no incoming arc except from the depot -/
theorem dummy_degree (hm : PortsDeclared m) (hf : finish m dist speed unit sfee dfee xt xc limit et ec = some mf)
    {d : ℕ} (hd : IsDummy m mf d) :
    (∀ j j', mf.g.hasArc d j = true → mf.g.hasArc d j' = true → j = j') ∧
    (∀ i, mf.g.hasArc i d = true → i = 0) := by
  obtain ⟨ts, hS⟩ := finish_spec hm hf
  constructor
  · intro j j' h h'
    have h1 := out_of_dummy hm hS hd.1 h
    have h2 := out_of_dummy hm hS hd.1 h'
    rw [h1] at h2
    cases h2; rfl
  · intro i h
    exact into_dummy hm hS hd.1 h

/-- the hypotheses hold after declaring ports with distinct names on a fresh MIRP -/
theorem ports_build_facts (fuel : ℕ) (size horizon : ℚ) (hsize : 0 < size) (ports : List MOp)
    (hports : ∀ op ∈ ports, ∃ nm i r c, op = MOp.port nm i r c) (hnd : (portNames ports).Nodup)
    (m : Mirp) (hm : Mirp.build fuel (Mirp.new size horizon) ports = some m) : PortsDeclared m := by
  obtain ⟨hinv, hsz⟩ := build_inv fuel size horizon hsize ports hnd m hm
  have hpj := ma_build_pj fuel ports (Mirp.new size horizon) m (ma_pj_new size horizon) hports hm
  exact ⟨hinv, by rw [hsz]; exact ne_of_gt hsize, hpj.noArcs,
    fun p _ q _ x hx hy => hpj.disj p q x hx hy, fun p _ q _ x hx hy => hpj.disj p q x hx hy⟩

/-- `finish` is what `Mirp.build` does on the three closing helper calls, provided `add_travel_arcs` does
    not divide by a zero vessel speed (it does so as soon as there is one supply port and one demand port;
    see `build_travel_zero_speed` for the complementary case) -/
theorem build_finish (fuel : ℕ) (m mf : Mirp) (speed unit : ℚ) (dtab : List (String × String × ℚ))
    (sf df : List (String × ℚ)) (xt xc limit et ec : ℚ)
    (hsp : speed ≠ 0 ∨ m.supply = [] ∨ m.demand = []) :
    Mirp.build fuel m [MOp.travel speed unit dtab sf df, MOp.exit xt xc, MOp.entry limit et ec] = some mf ↔
      finish m (lookupDist dtab) speed unit (lookupD sf) (lookupD df) xt xc limit et ec = some mf := by
  have hz : ¬ (speed = 0 ∧ m.supply ≠ [] ∧ m.demand ≠ []) := by
    rintro ⟨h0, hs, hd⟩
    rcases hsp with h | h | h
    · exact h h0
    · exact hs h
    · exact hd h
  have htr : m.step fuel (MOp.travel speed unit dtab sf df) =
      (m.addTravelArcs (lookupDist dtab) speed unit (lookupD sf) (lookupD df), .ok []) := by
    rw [step_travel, if_neg hz]
  simp only [Mirp.build, htr, finish]
  simp only [Mirp.step]
  cases ((m.addTravelArcs (lookupDist dtab) speed unit (lookupD sf) (lookupD df)).addExitArcs xt xc).addEntryArcs
    limit et ec <;> simp

/-- the model rejects what the code rejects: `add_travel_arcs` with vessel speed 0 raises
    `ZeroDivisionError` as soon as there is a (supply port, demand port) pair, so no build containing that
    call at that point succeeds -/
theorem build_travel_zero_speed (fuel : ℕ) (m : Mirp) (speed unit : ℚ) (dtab : List (String × String × ℚ))
    (sf df : List (String × ℚ)) (rest : List MOp)
    (h0 : speed = 0) (hs : m.supply ≠ []) (hd : m.demand ≠ []) :
    Mirp.build fuel m (MOp.travel speed unit dtab sf df :: rest) = none := by
  subst h0
  simp only [Mirp.build, step_travel_zero_speed fuel m unit dtab sf df hs hd]

/-- in particular the three closing calls fail with speed 0 when both port lists are non-empty, although
    `finish` (which applies `addTravelArcs` directly, with `x / 0 = 0`) may well be `some _` -/
theorem build_finish_zero_speed (fuel : ℕ) (m : Mirp) (unit : ℚ) (dtab : List (String × String × ℚ))
    (sf df : List (String × ℚ)) (xt xc limit et ec : ℚ) (hs : m.supply ≠ []) (hd : m.demand ≠ []) :
    Mirp.build fuel m [MOp.travel 0 unit dtab sf df, MOp.exit xt xc, MOp.entry limit et ec] = none :=
  build_travel_zero_speed fuel m 0 unit dtab sf df _ rfl hs hd

/-! ## non-vacuity

A concrete standard build (cargo size 1, horizon 4, supply port `S` with rate 1, demand port `D` with rate
−1, three visits each; vessel speed 1), evaluated by the kernel: the port declarations succeed and give a
`PortsDeclared` state `m` (by `ports_build_facts`), the three closing calls succeed, so `finish … = some mf`
(by `build_finish`), and the finished graph contains the travel arc `S-0 → D-0` (positions `1 → 4`), which
`arcs_sound` classifies as a specified arc; the dummy vessel `Dum0` sits at position 7. -/
example : ∃ m mf,
    Mirp.build 10 (Mirp.new 1 4) [.port "S" 0 1 2, .port "D" 2 (-1) 2] = some m ∧ PortsDeclared m ∧
    Mirp.build 10 m [.travel 1 1 [("S", "D", 1)] [("S", 3)] [("D", 5)], .exit 1 0, .entry 3 0 0] = some mf ∧
    finish m (lookupDist [("S", "D", 1)]) 1 1 (lookupD [("S", 3)]) (lookupD [("D", 5)]) 1 0 3 0 0 = some mf ∧
    mf.g.hasArc 1 4 = true ∧ mf.g.hasArc 0 7 = true ∧ mf.g.hasArc 7 4 = true ∧
    SpecArc m mf (lookupDist [("S", "D", 1)]) 1 3 0 1 4 := by
  have h : ((Mirp.build 10 (Mirp.new 1 4) [.port "S" 0 1 2, .port "D" 2 (-1) 2]).bind fun m =>
      (Mirp.build 10 m [.travel 1 1 [("S", "D", 1)] [("S", 3)] [("D", 5)], .exit 1 0, .entry 3 0 0]).map
        fun mf => (mf.g.hasArc 1 4, mf.g.hasArc 0 7, mf.g.hasArc 7 4)) = some (true, true, true) := by
    decide +kernel
  obtain ⟨m, hm, h2⟩ := Option.bind_eq_some_iff.mp h
  obtain ⟨mf, hmf, hv⟩ := Option.map_eq_some_iff.mp h2
  simp only [Prod.mk.injEq] at hv
  have hpd : PortsDeclared m := ports_build_facts 10 1 4 (by decide) _
    (by intro op hop
        simp only [List.mem_cons, List.not_mem_nil, or_false] at hop
        rcases hop with rfl | rfl
        · exact ⟨_, _, _, _, rfl⟩
        · exact ⟨_, _, _, _, rfl⟩)
    (by decide) m hm
  have hf := (build_finish 10 m mf 1 1 _ _ _ 1 0 3 0 0 (Or.inl (by decide))).mp hmf
  exact ⟨m, mf, hm, hpd, hmf, hf, hv.1, hv.2.1, hv.2.2, arcs_sound hpd hf 1 4 hv.1⟩

end Vrp.C12b
