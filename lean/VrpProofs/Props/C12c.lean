import VrpProofs.Props.C12b
import VrpProofs.Lemmas.MirpOrder
/-!
# C12 (third part): the arc set does not depend on the order of the three closing calls

`Props/C12b.lean` proves that the graph built in the standard order (ports, `add_travel_arcs`, `add_exit_arcs`,
`add_entry_arcs`) has exactly the specified arcs.  The property speaks about "every graph built by the MIRP helper";
a user may issue the three closing calls in any of the six orders.  This file proves that every order yields the same
nodes and the same arcs with the same data (or fails in the same cases), so `arcs_sound` / `arcs_complete` /
`arcs_complete_toDummy` / `entry_via_dummy` / `dummy_degree` hold for all six.
-/
namespace Vrp.C12c
open Vrp Vrp.C12 Vrp.C12b

/-- the three closing calls -/
inductive Closing where | travel | exit | entry
deriving DecidableEq, Repr

variable (dist : String → String → ℚ) (speed unit : ℚ) (sfee dfee : String → ℚ) (xt xc limit et ec : ℚ)

/-- one closing call (`none` = `add_entry_arcs` raised) -/
def applyClosing (m : Mirp) : Closing → Option Mirp
  | .travel => some (m.addTravelArcs dist speed unit sfee dfee)
  | .exit => some (m.addExitArcs xt xc)
  | .entry => m.addEntryArcs limit et ec

/-- the closing calls in a given order -/
def finishIn (m : Mirp) (order : List Closing) : Option Mirp :=
  order.foldl (fun s c => s.bind fun m' => applyClosing dist speed unit sfee dfee xt xc limit et ec m' c) (some m)

/-- the standard order is `finish` of `Props/C12b` -/
theorem finishIn_standard (m : Mirp) :
    finishIn dist speed unit sfee dfee xt xc limit et ec m [.travel, .exit, .entry]
      = finish m dist speed unit sfee dfee xt xc limit et ec := rfl

/-- the six orders -/
theorem perm_cases {order : List Closing} (hperm : order.Perm [.travel, .exit, .entry]) :
    order = [.travel, .exit, .entry] ∨ order = [.exit, .travel, .entry] ∨ order = [.travel, .entry, .exit] ∨
    order = [.exit, .entry, .travel] ∨ order = [.entry, .travel, .exit] ∨ order = [.entry, .exit, .travel] := by
  have hlen := hperm.length_eq
  match order, hlen with
  | [a, b, c], _ =>
    cases a <;> cases b <;> cases c <;> first | (exfalso; revert hperm; decide) | simp

/-- what every order yields: it fails exactly when `add_entry_arcs` fails on the port-declaration state `m`, and
    otherwise gives the nodes of `me` (= `add_entry_arcs` applied to `m`), the arcs of `me` and those of
    `add_travel_arcs; add_exit_arcs` applied to `m` -/
theorem order_aux {m : Mirp} (hm : PortsDeclared m) (order : List Closing)
    (hperm : order.Perm [.travel, .exit, .entry]) :
    (m.addEntryArcs limit et ec = none → finishIn dist speed unit sfee dfee xt xc limit et ec m order = none) ∧
    (∀ me, m.addEntryArcs limit et ec = some me →
      ∃ f, finishIn dist speed unit sfee dfee xt xc limit et ec m order = some f ∧
        Ext m me ((m.addTravelArcs dist speed unit sfee dfee).addExitArcs xt xc) f) := by
  have hM := mid_refl hm
  have hT := mid_travel hM dist speed unit sfee dfee
  have hX := mid_exit hM xt xc
  have hTX := mid_exit hT xt xc
  have hXT := mid_travel hX dist speed unit sfee dfee
  have conv : ∀ {me f : Mirp},
      Ext m me ((m.addExitArcs xt xc).addTravelArcs dist speed unit sfee dfee) f →
      Ext m me ((m.addTravelArcs dist speed unit sfee dfee).addExitArcs xt xc) f := by
    intro me f h
    exact ⟨h.tabs, h.nodes, fun k => by rw [h.arcs k, comm_travel_exit hm dist speed unit sfee dfee xt xc k]⟩
  rcases perm_cases hperm with rfl | rfl | rfl | rfl | rfl | rfl
  · -- travel, exit, entry
    refine ⟨fun he => entry_none hm hTX he, fun me he => ?_⟩
    obtain ⟨f, hf, hx⟩ := entry_some hm hTX he
    exact ⟨f, hf, hx⟩
  · -- exit, travel, entry
    refine ⟨fun he => entry_none hm hXT he, fun me he => ?_⟩
    obtain ⟨f, hf, hx⟩ := entry_some hm hXT he
    exact ⟨f, hf, conv hx⟩
  · -- travel, entry, exit
    refine ⟨fun he => ?_, fun me he => ?_⟩
    · have h1 := entry_none hm hT he
      simp [finishIn, applyClosing, h1]
    · obtain ⟨s', hs', hx⟩ := entry_some hm hT he
      exact ⟨s'.addExitArcs xt xc, by simp [finishIn, applyClosing, hs'], ext_exit hm hT he hx xt xc⟩
  · -- exit, entry, travel
    refine ⟨fun he => ?_, fun me he => ?_⟩
    · have h1 := entry_none hm hX he
      simp [finishIn, applyClosing, h1]
    · obtain ⟨s', hs', hx⟩ := entry_some hm hX he
      exact ⟨s'.addTravelArcs dist speed unit sfee dfee, by simp [finishIn, applyClosing, hs'],
        conv (ext_travel hm hX he hx dist speed unit sfee dfee)⟩
  · -- entry, travel, exit
    refine ⟨fun he => by simp [finishIn, applyClosing, he], fun me he => ?_⟩
    exact ⟨(me.addTravelArcs dist speed unit sfee dfee).addExitArcs xt xc, by simp [finishIn, applyClosing, he],
      ext_exit hm hT he (ext_travel hm hM he (ext_refl hm he) dist speed unit sfee dfee) xt xc⟩
  · -- entry, exit, travel
    refine ⟨fun he => by simp [finishIn, applyClosing, he], fun me he => ?_⟩
    exact ⟨(me.addExitArcs xt xc).addTravelArcs dist speed unit sfee dfee, by simp [finishIn, applyClosing, he],
      conv (ext_travel hm hX he (ext_exit hm hM he (ext_refl hm he) xt xc) dist speed unit sfee dfee)⟩

/-- **order independence**: any order of the three closing calls fails exactly when the standard order fails, and otherwise
    yields the same node list and the same arc dictionary content (same keys, same stored arcs) -/
theorem finish_order_independent {m : Mirp} (hm : PortsDeclared m) (order : List Closing)
    (hperm : order.Perm [.travel, .exit, .entry]) :
    match finish m dist speed unit sfee dfee xt xc limit et ec,
          finishIn dist speed unit sfee dfee xt xc limit et ec m order with
    | some mf, some mf' => mf'.g.nodes = mf.g.nodes ∧ (∀ i j, mf'.g.hasArc i j = mf.g.hasArc i j) ∧
        (∀ i j, dictGet mf'.g.arcs (i, j) = dictGet mf.g.arcs (i, j)) ∧
        mf'.supply = mf.supply ∧ mf'.demand = mf.demand ∧ mf'.mapping = mf.mapping
    | none, none => True
    | _, _ => False := by
  obtain ⟨hn, hs⟩ := order_aux dist speed unit sfee dfee xt xc limit et ec hm order hperm
  obtain ⟨hn0, hs0⟩ := order_aux dist speed unit sfee dfee xt xc limit et ec hm [.travel, .exit, .entry]
    (List.Perm.refl _)
  rw [finishIn_standard] at hn0 hs0
  cases he : m.addEntryArcs limit et ec with
  | none => rw [hn0 he, hn he]; trivial
  | some me =>
    obtain ⟨f, hf, hx⟩ := hs me he
    obtain ⟨f0, hf0, hx0⟩ := hs0 me he
    rw [hf0, hf]
    have hget : ∀ i j, dictGet f.g.arcs (i, j) = dictGet f0.g.arcs (i, j) := fun i j => by
      rw [hx.arcs, hx0.arcs]
    refine ⟨hx.nodes.trans hx0.nodes.symm, fun i j => ?_, hget, hx.tabs.supply.trans hx0.tabs.supply.symm,
      hx.tabs.demand.trans hx0.tabs.demand.symm, hx.tabs.mapping.trans hx0.tabs.mapping.symm⟩
    unfold Graph.hasArc
    rw [dictHas_eq_isSome, dictHas_eq_isSome, hget]

/-- the standard order succeeds whenever some order does, with the same nodes and arcs -/
theorem standard_of_any_order {m mf' : Mirp} (hm : PortsDeclared m) (order : List Closing)
    (hperm : order.Perm [.travel, .exit, .entry])
    (hf : finishIn dist speed unit sfee dfee xt xc limit et ec m order = some mf') :
    ∃ mf, finish m dist speed unit sfee dfee xt xc limit et ec = some mf ∧ mf'.g.nodes = mf.g.nodes ∧
      ∀ i j, mf'.g.hasArc i j = mf.g.hasArc i j := by
  have H := finish_order_independent dist speed unit sfee dfee xt xc limit et ec hm order hperm
  rw [hf] at H
  cases hfin : finish m dist speed unit sfee dfee xt xc limit et ec with
  | none => rw [hfin] at H; exact H.elim
  | some mf => rw [hfin] at H; exact ⟨mf, rfl, H.1, H.2.1⟩

theorem isDummy_congr {m mf mf' : Mirp} (hn : mf'.g.nodes = mf.g.nodes) (d : ℕ) :
    IsDummy m mf' d ↔ IsDummy m mf d := by
  unfold IsDummy
  rw [hn, Graph.demand_congr hn, Graph.lo_congr hn, Graph.hi_congr hn]

theorem specArc_congr {m mf mf' : Mirp} (hn : mf'.g.nodes = mf.g.nodes) {i j : ℕ}
    (h : SpecArc m mf dist speed limit et i j) : SpecArc m mf' dist speed limit et i j := by
  cases h with
  | travelSD hsp hdp hsn hdn hi hj ht => exact .travelSD hsp hdp hsn hdn hi hj ht
  | travelDS hsp hdp hsn hdn hi hj ht => exact .travelDS hsp hdp hsn hdn hi hj ht
  | exit hp hnm hi => exact .exit hp hnm hi
  | entryS hsp hsn hj hlim ht => exact .entryS hsp hsn hj hlim ht
  | toDummy hd => exact .toDummy ((isDummy_congr hn _).mpr hd)
  | fromDummy hd hdp hdn hj hlim ht => exact .fromDummy ((isDummy_congr hn _).mpr hd) hdp hdn hj hlim ht

/-- hence: no other arcs, in every order -/
theorem arcs_sound_any_order {m mf' : Mirp} (hm : PortsDeclared m) (order : List Closing)
    (hperm : order.Perm [.travel, .exit, .entry])
    (hf : finishIn dist speed unit sfee dfee xt xc limit et ec m order = some mf')
    (i j : ℕ) (h : mf'.g.hasArc i j = true) : SpecArc m mf' dist speed limit et i j := by
  obtain ⟨mf, hfin, hn, hh⟩ := standard_of_any_order dist speed unit sfee dfee xt xc limit et ec hm order hperm hf
  exact specArc_congr dist speed limit et hn (arcs_sound hm hfin i j (by rw [← hh]; exact h))

/-- and all of them, in every order -/
theorem arcs_complete_any_order {m mf' : Mirp} (hm : PortsDeclared m) (order : List Closing)
    (hperm : order.Perm [.travel, .exit, .entry])
    (hf : finishIn dist speed unit sfee dfee xt xc limit et ec m order = some mf')
    (i j : ℕ) (h : SpecArc m mf' dist speed limit et i j) (hni : ¬ IsDummy m mf' i) (hnj : ¬ IsDummy m mf' j) :
    mf'.g.hasArc i j = true := by
  obtain ⟨mf, hfin, hn, hh⟩ := standard_of_any_order dist speed unit sfee dfee xt xc limit et ec hm order hperm hf
  rw [hh]
  exact arcs_complete hm hfin i j (specArc_congr dist speed limit et hn.symm h)
    (fun hd => hni ((isDummy_congr hn i).mpr hd)) (fun hd => hnj ((isDummy_congr hn j).mpr hd))

/-! ## non-vacuity: a concrete two-port MIRP, all six orders evaluated

The MIRP of the non-vacuity section of `Props/C12b.lean` (cargo size 1, horizon 4, supply port `S` with rate 1, demand
port `D` with rate −1, three visits each; vessel speed 1).  The finished graph has 8 nodes (depot, 6 visits, the dummy
vessel `Dum0` at position 7) and 21 arcs: 12 travel arcs, 6 exit arcs, the entry arc `0 → 1`, and `0 → 7 → 4` through
the dummy. -/

/-- the port declarations -/
def nvPorts : Option Mirp := Mirp.build 10 (Mirp.new 1 4) [.port "S" 0 1 2, .port "D" 2 (-1) 2]

/-- the three closing calls in a given order -/
def nvFin (m : Mirp) (order : List Closing) : Option Mirp :=
  finishIn (lookupDist [("S", "D", 1)]) 1 1 (lookupD [("S", 3)]) (lookupD [("D", 5)]) 1 0 3 0 0 m order

def nvSix : List (List Closing) :=
  [[.travel, .exit, .entry], [.exit, .travel, .entry], [.travel, .entry, .exit],
   [.exit, .entry, .travel], [.entry, .travel, .exit], [.entry, .exit, .travel]]

/-- the six orders are exactly the permutations of the three calls (so `finish_order_independent` covers them all) -/
example : ∀ o ∈ nvSix, o.Perm [.travel, .exit, .entry] := by decide

/-- all six orders succeed, with 21 arcs on 8 nodes each -/
example : (nvPorts.map fun m => nvSix.map fun o => (nvFin m o).map fun f => (f.g.arcs.length, f.g.nodes.length)) =
    some [some (21, 8), some (21, 8), some (21, 8), some (21, 8), some (21, 8), some (21, 8)] := by
  decide +kernel

/-- the order `entry, exit, travel` against the standard order: both succeed from a `PortsDeclared` state, give the same
    nodes and the same number of arcs; the arc *lists* differ (the dictionary order is the insertion order), which is
    why the theorem compares `dictGet` / `hasArc`; a travel arc, an exit arc, an entry arc and both arcs of the dummy
    vessel are present, and `arcs_sound_any_order` classifies them -/
example : ∃ m mf mf', nvPorts = some m ∧ PortsDeclared m ∧
    finish m (lookupDist [("S", "D", 1)]) 1 1 (lookupD [("S", 3)]) (lookupD [("D", 5)]) 1 0 3 0 0 = some mf ∧
    nvFin m [.entry, .exit, .travel] = some mf' ∧
    mf'.g.nodes = mf.g.nodes ∧ mf'.g.arcs.length = 21 ∧ mf.g.arcs.length = 21 ∧ mf'.g.arcs ≠ mf.g.arcs ∧
    mf'.g.hasArc 1 4 = true ∧ mf'.g.hasArc 1 0 = true ∧ mf'.g.hasArc 0 1 = true ∧
    mf'.g.hasArc 0 7 = true ∧ mf'.g.hasArc 7 4 = true ∧
    dictGet mf'.g.arcs (1, 4) = some ⟨"S-0", "D-0", 1, 6⟩ ∧ dictGet mf.g.arcs (1, 4) = some ⟨"S-0", "D-0", 1, 6⟩ ∧
    SpecArc m mf' (lookupDist [("S", "D", 1)]) 1 3 0 1 4 ∧ SpecArc m mf' (lookupDist [("S", "D", 1)]) 1 3 0 7 4 := by
  have h : (nvPorts.bind fun m =>
      (finish m (lookupDist [("S", "D", 1)]) 1 1 (lookupD [("S", 3)]) (lookupD [("D", 5)]) 1 0 3 0 0).bind fun mf =>
        (nvFin m [.entry, .exit, .travel]).map fun mf' =>
          (decide (mf'.g.nodes = mf.g.nodes ∧ mf'.g.arcs.length = 21 ∧ mf.g.arcs.length = 21 ∧
            mf'.g.arcs ≠ mf.g.arcs ∧ mf'.g.hasArc 1 4 = true ∧ mf'.g.hasArc 1 0 = true ∧ mf'.g.hasArc 0 1 = true ∧
            mf'.g.hasArc 0 7 = true ∧ mf'.g.hasArc 7 4 = true ∧
            dictGet mf'.g.arcs (1, 4) = some ⟨"S-0", "D-0", 1, 6⟩ ∧
            dictGet mf.g.arcs (1, 4) = some ⟨"S-0", "D-0", 1, 6⟩))) = some true := by
    decide +kernel
  obtain ⟨m, hm, h2⟩ := Option.bind_eq_some_iff.mp h
  obtain ⟨mf, hmf, h3⟩ := Option.bind_eq_some_iff.mp h2
  obtain ⟨mf', hmf', hv⟩ := Option.map_eq_some_iff.mp h3
  obtain ⟨v1, v2, v3, v4, v5, v6, v7, v8, v9, v10, v11⟩ := of_decide_eq_true hv
  have hpd : PortsDeclared m := ports_build_facts 10 1 4 (by decide) _
    (by intro op hop
        simp only [List.mem_cons, List.not_mem_nil, or_false] at hop
        rcases hop with rfl | rfl
        · exact ⟨_, _, _, _, rfl⟩
        · exact ⟨_, _, _, _, rfl⟩)
    (by decide) m hm
  have hperm : [Closing.entry, .exit, .travel].Perm [.travel, .exit, .entry] := by decide
  exact ⟨m, mf, mf', hm, hpd, hmf, hmf', v1, v2, v3, v4, v5, v6, v7, v8, v9, v10, v11,
    arcs_sound_any_order _ _ _ _ _ _ _ _ _ _ hpd _ hperm hmf' 1 4 v5,
    arcs_sound_any_order _ _ _ _ _ _ _ _ _ _ hpd _ hperm hmf' 7 4 v9⟩

end Vrp.C12c
