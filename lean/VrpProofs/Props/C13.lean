import VrpProofs.Lemmas.QuboBridge
import VrpProofs.Props.C01

/-!
# C13 — Pattern conversions preserve the quadratic form; container is consistent
-/
namespace Vrp.C13
open Vrp

/-- upper-triangular conversion preserves `yᵀMy` for every vector `y`, over any field -/
theorem toUpper_quad_field {K : Type*} [Field K] (n : ℕ) (M : ℕ → ℕ → K) (y : ℕ → K) :
    G.quad n (G.toUpper M) y = G.quad n M y := G.toUpper_quad n M y

/-- symmetric conversion preserves `yᵀMy` for every vector `y`, over any field of characteristic 0 -/
theorem toSym_quad_field {K : Type*} [Field K] [CharZero K] (n : ℕ) (M : ℕ → ℕ → K) (y : ℕ → K) :
    G.quad n (G.toSym M) y = G.quad n M y := G.toSym_quad n M y

theorem toUpper_quad (n : ℕ) (M : Mat) (y : Vec) : quad n (toUpper M) y = quad n M y := by
  rw [quad_eq, quad_eq, toUpper_eq]; exact G.toUpper_quad n M y

theorem toSym_quad (n : ℕ) (M : Mat) (y : Vec) : quad n (toSym M) y = quad n M y := by
  rw [quad_eq, quad_eq, toSym_eq]; exact G.toSym_quad n M y

/-- structure: strictly-lower part of the upper-triangular form is zero -/
theorem toUpper_lower_zero (M : Mat) (i j : ℕ) (h : j < i) : toUpper M i j = 0 := by
  rw [toUpper_eq]; exact G.toUpper_lower_zero M i j h

/-- structure: the symmetric form is symmetric -/
theorem toSym_symm (M : Mat) (i j : ℕ) : toSym M i j = toSym M j i := by
  rw [toSym_eq]; exact G.toSym_symm M i j

theorem applyPattern_quad (p : Pattern) (n : ℕ) (M : Mat) (y : Vec) :
    quad n (applyPattern p M) y = quad n M y := by
  cases p
  · exact toUpper_quad n M y
  · exact toSym_quad n M y
  · rfl

/-- the container's QUBO value equals the original one for every vector and every pattern string -/
theorem container_evalQubo (n : ℕ) (Q : Mat) (c : ℚ) (pattern : String) (x : Vec) :
    let C := Container.mk' n Q c pattern
    evalQubo C.n C.Q C.cq x = evalQubo n Q c x := by
  simp only [Container.mk', evalQubo, applyPattern_quad]

/-- the container's Ising value at the spin image equals the original QUBO value, every binary `x` -/
theorem container_evalIsing (n : ℕ) (Q : Mat) (c : ℚ) (pattern : String) (x : Vec) (hx : IsBin n x) :
    let C := Container.mk' n Q c pattern
    evalIsing C.n C.J C.h C.ci (xToS x) = evalQubo n Q c x := by
  simp only [Container.mk']
  rw [C01.qubo_to_ising_energy n _ c x hx]
  simp only [evalQubo, applyPattern_quad]

/-- Ising couplings: zero diagonal, and the same pattern as the patterned QUBO matrix -/
theorem container_J_diag (n : ℕ) (Q : Mat) (c : ℚ) (pattern : String) (i : ℕ) :
    (Container.mk' n Q c pattern).J i i = 0 := by simp [Container.mk', isingJ]

theorem container_J_upper (n : ℕ) (Q : Mat) (c : ℚ) (pattern : String)
    (hp : parsePattern pattern = .upper) (i j : ℕ) (h : j < i) :
    (Container.mk' n Q c pattern).J i j = 0 := by
  have : i ≠ j := by omega
  simp [Container.mk', isingJ, hp, applyPattern, this, toUpper_lower_zero Q i j h]

theorem container_J_symm (n : ℕ) (Q : Mat) (c : ℚ) (pattern : String)
    (hp : parsePattern pattern = .sym) (i j : ℕ) :
    (Container.mk' n Q c pattern).J i j = (Container.mk' n Q c pattern).J j i := by
  simp only [Container.mk', isingJ, hp, applyPattern]
  by_cases h : i = j
  · subst h; rfl
  · have : ¬ j = i := fun e => h e.symm
    simp [h, this, toSym_symm Q i j]

/-- pattern option is matched case-insensitively; any other string keeps the matrix -/
theorem parsePattern_cases (s : String) :
    (parsePattern s = .upper ↔ lowerAscii s = "upper-triangular") ∧
    (parsePattern s = .sym ↔ lowerAscii s = "symmetric") := by
  unfold parsePattern
  constructor
  · constructor
    · intro h; by_contra hc; simp [hc] at h; split at h <;> simp at h
    · intro h; simp [h]
  · constructor
    · intro h; by_contra hc; simp [hc] at h; split at h <;> simp at h
    · intro h; simp [h]

example : parsePattern "Upper-TRIANGULAR" = .upper ∧ parsePattern "SYMMETRIC" = .sym ∧
    parsePattern "whatever" = .asIs := by decide +kernel

/-- non-square input is rejected -/
theorem container_nonsquare_rejected (r c : ℕ) : squareGuard r c = none ↔ r ≠ c :=
  C01.nonSquare_rejected r c

/-- non-vacuity: a non-symmetric matrix whose forms differ entrywise but agree as quadratic forms -/
example : toUpper (matOf [[1, 2], [3, 4]]) 0 1 = 5 ∧ toUpper (matOf [[1, 2], [3, 4]]) 1 0 = 0 ∧
    toSym (matOf [[1, 2], [3, 4]]) 1 0 = 5/2 := by
  refine ⟨by decide +kernel, by decide +kernel, by decide +kernel⟩

end Vrp.C13
