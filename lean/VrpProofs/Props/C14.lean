import VrpModel.Cache
import VrpProofs.Props.C15
import VrpProofs.Lemmas.Cache

/-!
# C14 — Queries are pure and never change what later calls return

`CObj` is the object with its caches and flags, `SObj` the cache-free specification (every query answered
from the instance state alone).  The refinement theorem says the two give the same replies on every call
history; the corollaries are the two clauses of the property.
-/
namespace Vrp.C14
open Vrp

variable {Inst : Type} {S : CacheSpec Inst}

/-- abstraction: forget the caches -/
def abs (s : CObj S) : SObj S := { inst := s.inst, sol := s.sol, dead := s.dead }

/-- every filled cache holds what the specification computes from the current instance -/
structure Coherent (s : CObj S) : Prop where
  vars : ∀ v, s.vars = some v → v = S.vars s.inst
  obj : ∀ o, s.obj = some o → o = S.obj s.inst (S.vars s.inst)
  con : ∀ c, s.con = some c → c = S.con s.inst (S.vars s.inst)

/-- the heuristic resets the flags whenever it changes the instance -/
def ResetsWhenChanged (S : CacheSpec Inst) : Prop :=
  ∀ I h J sol, S.heur I h = .ok (J, sol) → S.reset I h = false → J = I

def isHeur : COp → Bool
  | .heur _ => true
  | _ => false

/-- the same relative to an instance invariant `P` that the heuristic preserves (needed for the sequence-based
    formulation, whose reset sites are only complete for graphs with unique node names) -/
def ResetsWhenChangedOn (P : Inst → Prop) (S : CacheSpec Inst) : Prop :=
  ∀ I h J sol, P I → S.heur I h = .ok (J, sol) → P J ∧ (S.reset I h = false → J = I)

theorem resetsOn_of_resets (hS : ResetsWhenChanged S) : ResetsWhenChangedOn (fun _ => True) S :=
  fun I h J sol _ hh => ⟨trivial, hS I h J sol hh⟩

/-! ## generic part -/

theorem coherent_init (I : Inst) : Coherent ({ inst := I } : CObj S) :=
  ⟨by simp, by simp, by simp⟩

theorem ensureVars_spec (s : CObj S) (hc : Coherent s) :
    s.ensureVars.2 = S.vars s.inst ∧ s.ensureVars.1 = { s with vars := some (S.vars s.inst) } := by
  unfold CObj.ensureVars
  cases hv : s.vars with
  | none => simp
  | some v =>
    have := hc.vars v hv
    subst this
    cases s; simp_all

/-- the state the heuristic leaves before the final `enumerate_variables()` -/
def afterHeur (s : CObj S) (h : Rat) (J : Inst) : CObj S :=
  if S.reset s.inst h then { s with inst := J, vars := none, obj := none, con := none } else { s with inst := J }

theorem cstep_dead (s : CObj S) (op : COp) (hd : s.dead = true) : s.step op = (s, .raised .assert) := by
  simp [CObj.step, hd]
theorem cstep_numVars (s : CObj S) (hd : s.dead = false) :
    s.step .numVars = (s.ensureVars.1, .vars s.ensureVars.2) := by
  simp [CObj.step, hd]
theorem cstep_obj_some (s : CObj S) (hd : s.dead = false) (o : S.Obj) (ho : s.obj = some o) :
    s.step .objective = (s, .obj o) := by
  simp [CObj.step, hd, ho]
theorem cstep_obj_none (s : CObj S) (hd : s.dead = false) (ho : s.obj = none) :
    s.step .objective = ({ s.ensureVars.1 with obj := some (S.obj s.ensureVars.1.inst s.ensureVars.2) },
      .obj (S.obj s.ensureVars.1.inst s.ensureVars.2)) := by
  simp [CObj.step, hd, ho]
theorem cstep_con_some (s : CObj S) (hd : s.dead = false) (o : S.Con) (ho : s.con = some o) :
    s.step .constraints = (s, .con o) := by
  simp [CObj.step, hd, ho]
theorem cstep_con_none (s : CObj S) (hd : s.dead = false) (ho : s.con = none) :
    s.step .constraints = ({ s.ensureVars.1 with con := some (S.con s.ensureVars.1.inst s.ensureVars.2) },
      .con (S.con s.ensureVars.1.inst s.ensureVars.2)) := by
  simp [CObj.step, hd, ho]
theorem cstep_heur_err (s : CObj S) (hd : s.dead = false) (h : Rat) (e : Err) (hh : S.heur s.inst h = .error e) :
    s.step (.heur h) = ({ s with dead := true }, .raised e) := by
  simp [CObj.step, hd, hh]
theorem cstep_heur_ok (s : CObj S) (hd : s.dead = false) (h : Rat) (J : Inst) (sol : List Rat)
    (hh : S.heur s.inst h = .ok (J, sol)) :
    s.step (.heur h) = ({ (afterHeur s h J).ensureVars.1 with sol := some sol }, .done) := by
  simp [CObj.step, hd, hh, afterHeur]

theorem sstep_dead (s : SObj S) (op : COp) (hd : s.dead = true) : s.step op = (s, .raised .assert) := by
  simp [SObj.step, hd]
theorem sstep_numVars (s : SObj S) (hd : s.dead = false) : s.step .numVars = (s, .vars (S.vars s.inst)) := by
  simp [SObj.step, hd]
theorem sstep_obj (s : SObj S) (hd : s.dead = false) :
    s.step .objective = (s, .obj (S.obj s.inst (S.vars s.inst))) := by
  simp [SObj.step, hd]
theorem sstep_con (s : SObj S) (hd : s.dead = false) :
    s.step .constraints = (s, .con (S.con s.inst (S.vars s.inst))) := by
  simp [SObj.step, hd]
theorem sstep_heur_err (s : SObj S) (hd : s.dead = false) (h : Rat) (e : Err) (hh : S.heur s.inst h = .error e) :
    s.step (.heur h) = ({ s with dead := true }, .raised e) := by
  simp [SObj.step, hd, hh]
theorem sstep_heur_ok (s : SObj S) (hd : s.dead = false) (h : Rat) (J : Inst) (sol : List Rat)
    (hh : S.heur s.inst h = .ok (J, sol)) :
    s.step (.heur h) = ({ s with inst := J, sol := some sol }, .done) := by
  simp [SObj.step, hd, hh]


/-- one call, relative to an invariant `P` of the instance -/
theorem step_refines_on {P : Inst → Prop} (hS : ResetsWhenChangedOn P S) (s : CObj S) (hc : Coherent s)
    (hp : P s.inst) (op : COp) :
    (s.step op).2 = ((abs s).step op).2 ∧ abs (s.step op).1 = ((abs s).step op).1 ∧ Coherent (s.step op).1 ∧
    P (s.step op).1.inst := by
  obtain ⟨e2, e1⟩ := ensureVars_spec s hc
  cases hd : s.dead with
  | true =>
    rw [cstep_dead s op hd, sstep_dead (abs s) op hd]
    exact ⟨rfl, rfl, hc, hp⟩
  | false =>
    have hd' : (abs s).dead = false := hd
    cases op with
    | numVars =>
      rw [cstep_numVars s hd, sstep_numVars _ hd', e1, e2]
      exact ⟨rfl, rfl, ⟨fun v hv => (Option.some.inj hv).symm, hc.obj, hc.con⟩, hp⟩
    | objective =>
      rw [sstep_obj _ hd']
      cases ho : s.obj with
      | some o =>
        rw [cstep_obj_some s hd o ho, hc.obj o ho]
        exact ⟨rfl, rfl, hc, hp⟩
      | none =>
        rw [cstep_obj_none s hd ho, e1, e2]
        exact ⟨rfl, rfl, ⟨fun v hv => (Option.some.inj hv).symm, fun o ho => (Option.some.inj ho).symm, hc.con⟩, hp⟩
    | constraints =>
      rw [sstep_con _ hd']
      cases ho : s.con with
      | some o =>
        rw [cstep_con_some s hd o ho, hc.con o ho]
        exact ⟨rfl, rfl, hc, hp⟩
      | none =>
        rw [cstep_con_none s hd ho, e1, e2]
        exact ⟨rfl, rfl, ⟨fun v hv => (Option.some.inj hv).symm, hc.obj, fun o ho => (Option.some.inj ho).symm⟩, hp⟩
    | heur h =>
      cases hh : S.heur s.inst h with
      | error e =>
        rw [cstep_heur_err s hd h e hh, sstep_heur_err (abs s) hd' h e hh]
        exact ⟨rfl, rfl, ⟨hc.vars, hc.obj, hc.con⟩, hp⟩
      | ok p =>
        obtain ⟨J, sol⟩ := p
        rw [cstep_heur_ok s hd h J sol hh, sstep_heur_ok (abs s) hd' h J sol hh]
        obtain ⟨hpJ, hS'⟩ := hS _ _ _ _ hp hh
        have hc1 : Coherent (afterHeur s h J) ∧ (afterHeur s h J).inst = J ∧ (afterHeur s h J).dead = s.dead := by
          unfold afterHeur
          by_cases hr : S.reset s.inst h = true
          · rw [if_pos hr]
            exact ⟨⟨by simp, by simp, by simp⟩, rfl, rfl⟩
          · have hJ := hS' (by simpa using hr)
            subst hJ
            rw [if_neg hr]
            exact ⟨hc, rfl, rfl⟩
        obtain ⟨hc1, hJ, hdead⟩ := hc1
        obtain ⟨_, f1⟩ := ensureVars_spec _ hc1
        rw [f1]
        refine ⟨rfl, ?_, ⟨fun v hv => (Option.some.inj hv).symm, hc1.obj, hc1.con⟩, ?_⟩
        · simp [abs, hJ, hdead]
        · show P (afterHeur s h J).inst
          rw [hJ]; exact hpJ

/-- refinement from an arbitrary coherent state, relative to an invariant -/
theorem run_refines_on {P : Inst → Prop} (hS : ResetsWhenChangedOn P S) (s : CObj S) (hc : Coherent s)
    (hp : P s.inst) (ops : List COp) :
    (CObj.run s ops).2 = (SObj.run (abs s) ops).2 ∧ abs (CObj.run s ops).1 = (SObj.run (abs s) ops).1 ∧
    Coherent (CObj.run s ops).1 ∧ P (CObj.run s ops).1.inst := by
  induction ops generalizing s with
  | nil => exact ⟨rfl, rfl, hc, hp⟩
  | cons op rest ih =>
    obtain ⟨h1, h2, h3, h4⟩ := step_refines_on hS s hc hp op
    obtain ⟨i1, i2, i3, i4⟩ := ih (s.step op).1 h3 h4
    simp only [CObj.run, SObj.run]
    rw [← h2, h1, i1, i2]
    exact ⟨rfl, rfl, i3, i4⟩

/-- refinement from an arbitrary coherent state -/
theorem run_refines (hS : ResetsWhenChanged S) (s : CObj S) (hc : Coherent s) (ops : List COp) :
    (CObj.run s ops).2 = (SObj.run (abs s) ops).2 ∧ abs (CObj.run s ops).1 = (SObj.run (abs s) ops).1 ∧
    Coherent (CObj.run s ops).1 := by
  obtain ⟨h1, h2, h3, _⟩ := run_refines_on (resetsOn_of_resets hS) s hc trivial ops
  exact ⟨h1, h2, h3⟩

/-- in the specification the final state only depends on the heuristic calls -/
theorem spec_run_filter (s : SObj S) (ops : List COp) :
    (SObj.run s ops).1 = (SObj.run s (ops.filter isHeur)).1 := by
  induction ops generalizing s with
  | nil => rfl
  | cons op rest ih =>
    cases hq : isHeur op with
    | true =>
      rw [List.filter_cons_of_pos (by simpa using hq)]
      simp only [SObj.run]
      exact ih _
    | false =>
      rw [List.filter_cons_of_neg (by simp [hq])]
      simp only [SObj.run]
      have hpure : (s.step op).1 = s := by
        cases hd : s.dead with
        | true => rw [sstep_dead s op hd]
        | false =>
          cases op with
          | numVars => rw [sstep_numVars s hd]
          | objective => rw [sstep_obj s hd]
          | constraints => rw [sstep_con s hd]
          | heur h => simp [isHeur] at hq
      rw [hpure]
      exact ih s

/-! ## the generic statements relative to an invariant (`I` satisfies `P`) -/

theorem refines_on {P : Inst → Prop} (hS : ResetsWhenChangedOn P S) (I : Inst) (hI : P I) (ops : List COp) :
    (CObj.run ({ inst := I } : CObj S) ops).2 = (SObj.run ({ inst := I } : SObj S) ops).2 ∧
    abs (CObj.run ({ inst := I } : CObj S) ops).1 = (SObj.run ({ inst := I } : SObj S) ops).1 := by
  obtain ⟨h1, h2, _⟩ := run_refines_on hS ({ inst := I } : CObj S) (coherent_init I) hI ops
  exact ⟨h1, h2⟩

theorem queries_irrelevant_on {P : Inst → Prop} (hS : ResetsWhenChangedOn P S) (I : Inst) (hI : P I)
    (ops later : List COp) :
    abs (CObj.run ({ inst := I } : CObj S) ops).1 = abs (CObj.run ({ inst := I } : CObj S) (ops.filter isHeur)).1 ∧
    (CObj.run (CObj.run ({ inst := I } : CObj S) ops).1 later).2
      = (CObj.run (CObj.run ({ inst := I } : CObj S) (ops.filter isHeur)).1 later).2 := by
  obtain ⟨_, a1, c1, p1⟩ := run_refines_on hS ({ inst := I } : CObj S) (coherent_init I) hI ops
  obtain ⟨_, a2, c2, p2⟩ := run_refines_on hS ({ inst := I } : CObj S) (coherent_init I) hI (ops.filter isHeur)
  have h : abs (CObj.run ({ inst := I } : CObj S) ops).1
      = abs (CObj.run ({ inst := I } : CObj S) (ops.filter isHeur)).1 := by
    rw [a1, a2]; exact spec_run_filter _ ops
  refine ⟨h, ?_⟩
  rw [(run_refines_on hS _ c1 p1 later).1, (run_refines_on hS _ c2 p2 later).1, h]

/-! ## statements of the task -/

/-- one call: same reply as the specification, coherence preserved, abstraction commutes -/
theorem step_refines (hS : ResetsWhenChanged S) (s : CObj S) (hc : Coherent s) (op : COp) :
    (s.step op).2 = ((abs s).step op).2 ∧ abs (s.step op).1 = ((abs s).step op).1 ∧ Coherent (s.step op).1 := by
  obtain ⟨h1, h2, h3, _⟩ := step_refines_on (resetsOn_of_resets hS) s hc trivial op
  exact ⟨h1, h2, h3⟩

/-- **refinement**: for every call history (queries in any number and order, any number of heuristic runs)
    the object's replies are those of the cache-free specification -/
theorem refines (hS : ResetsWhenChanged S) (I : Inst) (ops : List COp) :
    (CObj.run ({ inst := I } : CObj S) ops).2 = (SObj.run ({ inst := I } : SObj S) ops).2 ∧
    abs (CObj.run ({ inst := I } : CObj S) ops).1 = (SObj.run ({ inst := I } : SObj S) ops).1 :=
  refines_on (resetsOn_of_resets hS) I trivial ops

/-- in the specification a query changes nothing -/
theorem spec_query_pure (s : SObj S) (op : COp) (hq : isHeur op = false) : (s.step op).1 = s := by
  cases hd : s.dead with
  | true => rw [sstep_dead s op hd]
  | false =>
    cases op with
    | numVars => rw [sstep_numVars s hd]
    | objective => rw [sstep_obj s hd]
    | constraints => rw [sstep_con s hd]
    | heur h => simp [isHeur] at hq

/-- coherent objects with the same abstract state give the same replies -/
theorem replies_eq_of_abs_eq (hS : ResetsWhenChanged S) (s₁ s₂ : CObj S) (h₁ : Coherent s₁) (h₂ : Coherent s₂)
    (h : abs s₁ = abs s₂) (later : List COp) : (CObj.run s₁ later).2 = (CObj.run s₂ later).2 := by
  rw [(run_refines hS s₁ h₁ later).1, (run_refines hS s₂ h₂ later).1, h]

/-- **queries issued before (or between) heuristic runs do not alter anything obtained afterwards**: the
    instance, the stored solution and every later reply are those of the history with all queries removed -/
theorem queries_irrelevant (hS : ResetsWhenChanged S) (I : Inst) (ops later : List COp) :
    abs (CObj.run ({ inst := I } : CObj S) ops).1 = abs (CObj.run ({ inst := I } : CObj S) (ops.filter isHeur)).1 ∧
    (CObj.run (CObj.run ({ inst := I } : CObj S) ops).1 later).2
      = (CObj.run (CObj.run ({ inst := I } : CObj S) (ops.filter isHeur)).1 later).2 :=
  queries_irrelevant_on (resetsOn_of_resets hS) I trivial ops later

theorem query_idempotent_on {P : Inst → Prop} (hS : ResetsWhenChangedOn P S) (I : Inst) (hI : P I)
    (ops : List COp) (q : COp) (hq : isHeur q = false) :
    let s := (CObj.run ({ inst := I } : CObj S) ops).1
    (s.step q).2 = ((s.step q).1.step q).2 := by
  intro s
  obtain ⟨_, _, hc, hp⟩ := run_refines_on hS ({ inst := I } : CObj S) (coherent_init I) hI ops
  obtain ⟨h1, h2, h3, h4⟩ := step_refines_on hS s hc hp q
  obtain ⟨k1, _, _⟩ := step_refines_on hS (s.step q).1 h3 h4 q
  rw [k1, h2, spec_query_pure (abs s) q hq, h1]

/-- **asking twice gives equal results** (for unchanged problem data) -/
theorem query_idempotent (hS : ResetsWhenChanged S) (I : Inst) (ops : List COp) (q : COp) (hq : isHeur q = false) :
    let s := (CObj.run ({ inst := I } : CObj S) ops).1
    (s.step q).2 = ((s.step q).1.step q).2 :=
  query_idempotent_on (resetsOn_of_resets hS) I trivial ops q hq

/-! ### the two cached formulations reset their flags at every site that changes the instance -/

theorem arc_resetsWhenChanged : ResetsWhenChanged ArcSpec := by
  intro I h J sol hh hr
  change I.makeFeasible h = .ok (J, sol) at hh
  change I.heurReset = false at hr
  unfold ArcInst.heurReset ArcInst.greedy at hr
  unfold ArcInst.makeFeasible at hh
  cases ht : I.T.head? with
  | none => simp [ht] at hr
  | some t0 =>
    simp only [ht] at hr hh
    generalize (List.range I.g.estimateMaxVehicles).foldl _ _ = r1 at hr hh
    cases r1 with
    | error e => simp at hr
    | ok p =>
      obtain ⟨unv, used⟩ := p
      simp only at hr hh
      have hu : unv = [] := by simpa using hr
      subst hu
      simp only [List.foldl_nil] at hh
      split at hh
      · simp at hh
      · simp only [Except.ok.injEq, Prod.mk.injEq] at hh
        exact hh.1.symm

theorem arc_refines (I : ArcInst) (ops : List COp) :
    (CObj.run ({ inst := I } : CObj ArcSpec) ops).2 = (SObj.run ({ inst := I } : SObj ArcSpec) ops).2 :=
  (refines arc_resetsWhenChanged I ops).1

/-! ### sequence-based formulation

`ResetsWhenChanged SeqSpec` is **false** as an unconditional statement (`seq_not_resetsWhenChanged` below):
`_ensure_exit_arc` calls `add_arc` with the *names* of the current node and the depot, and `add_arc` files the
arc under the positions found by looking these names up.  With two nodes of the same name the lookup of the
current node `cur` lands on an earlier position `i < cur`; if the key `(i, 0)` is already present, the `dict`
assignment *replaces* that arc (new time/cost) instead of adding one, so the number of arcs is unchanged, the
reset site is not passed, and the cached objective is stale.  Graphs built through `add_node` have unique names
(`C15.Inv.nodup`), so the statement is proved relative to the invariant "node names are unique", which the
heuristic preserves (it never touches the node list). -/

/-- the heuristic keeps the node list; and under unique node names it passes a reset site whenever it
    changes the instance -/
theorem seq_makeFeasible_spec (I : SeqInst) (h : Rat) (J : SeqInst) (sol : List Rat) (hn : I.g.names.Nodup)
    (hh : I.makeFeasible h = .ok (J, sol)) : J.g.nodes = I.g.nodes ∧ (I.heurReset = false → J = I) := by
  unfold SeqInst.heurReset SeqInst.greedy
  unfold SeqInst.makeFeasible at hh
  dsimp only at hh ⊢
  generalize hr1 : (List.range I.V).foldl _ _ = r1 at hh ⊢
  cases r1 with
  | none => simp at hh
  | some st =>
    obtain ⟨hext, _⟩ := seqFold_ext (Flavor.seq I.strict) I.L (List.range I.V) (I.g, _, []) st hn
      (by
        intro n hn'
        have := mem_sortByHi hn'
        simp only [List.mem_map, List.mem_range] at this
        obtain ⟨a, ha, rfl⟩ := this
        show a + 1 < I.g.nodes.length
        omega) hr1
    simp only at hh
    generalize hr2 : List.foldl _ _ st.2.1 = r2 at hh
    cases r2 with
    | none => simp at hh
    | some st2 =>
      simp only at hh
      have hJ : J = st2.1 := by
        split at hh
        · simp at hh
        · simp only [Except.ok.injEq, Prod.mk.injEq] at hh
          exact hh.1.symm
      subst hJ
      constructor
      · -- the dummy-vehicle loop only adds arcs
        have := foldl_bind_rel _ (fun (b b' : SeqInst × List STup) => b'.1.g.nodes = b.1.g.nodes)
          (fun _ => rfl) (fun a b c h1 h2 => h2.trans h1) ?_ _ _ _ hr2
        · exact this.trans hext.1
        · intro b ni b' hb
          simp only [Option.bind_eq_some_iff, Option.map_eq_some_iff] at hb
          obtain ⟨g1, h1, g2, h2, rfl⟩ := hb
          show g2.nodes = b.1.g.nodes
          have e1 : g1.nodes = b.1.g.nodes := by
            split_ifs at h1
            · cases h1; rfl
            · exact addArcOrFail_nodes h1
          have e2 : g2.nodes = g1.nodes := by
            split_ifs at h2
            · cases h2; rfl
            · exact addArcOrFail_nodes h2
          exact e2.trans e1
      · -- no reset: no arc was added by the regular vehicles and the dummy-vehicle loop did not run
        intro hr
        simp only [Bool.or_eq_false_iff, bne_eq_false_iff_eq, Bool.not_eq_false', List.isEmpty_iff] at hr
        obtain ⟨hlen, hnil⟩ := hr
        have hg : st.1 = I.g := hext.2.2 hlen
        rw [hnil, hg] at hr2
        simp only [List.foldl_nil, Option.some.injEq] at hr2
        rw [← hr2]

/-- statement CHANGED (see above): relative to the preserved invariant "node names are unique" -/
theorem seq_resetsWhenChanged : ResetsWhenChangedOn (fun I : SeqInst => I.g.names.Nodup) SeqSpec := by
  intro I h J sol hn hh
  obtain ⟨h1, h2⟩ := seq_makeFeasible_spec I h J sol hn hh
  refine ⟨?_, h2⟩
  show J.g.names.Nodup
  unfold Graph.names
  rw [h1]
  exact hn

/-- the original, unconditional statement -/
def seq_resetsWhenChanged_full_statement : Prop := ResetsWhenChanged SeqSpec

/-- statement CHANGED: hypothesis `hI` (unique node names) added; false without it (`seq_not_refines`) -/
theorem seq_refines (I : SeqInst) (hI : I.g.names.Nodup) (ops : List COp) :
    (CObj.run ({ inst := I } : CObj SeqSpec) ops).2 = (SObj.run ({ inst := I } : SObj SeqSpec) ops).2 :=
  (refines_on seq_resetsWhenChanged I hI ops).1

/-- for graphs satisfying the C15 self-consistency invariant (everything built through the graph API) -/
theorem seq_refines_of_inv (I : SeqInst) (hI : C15.Inv I.g) (ops : List COp) :
    (CObj.run ({ inst := I } : CObj SeqSpec) ops).2 = (SObj.run ({ inst := I } : SObj SeqSpec) ops).2 :=
  seq_refines I hI.nodup ops

theorem seq_queries_irrelevant (I : SeqInst) (hI : I.g.names.Nodup) (ops later : List COp) :
    abs (CObj.run ({ inst := I } : CObj SeqSpec) ops).1
      = abs (CObj.run ({ inst := I } : CObj SeqSpec) (ops.filter isHeur)).1 ∧
    (CObj.run (CObj.run ({ inst := I } : CObj SeqSpec) ops).1 later).2
      = (CObj.run (CObj.run ({ inst := I } : CObj SeqSpec) (ops.filter isHeur)).1 later).2 :=
  queries_irrelevant_on seq_resetsWhenChanged I hI ops later

theorem seq_query_idempotent (I : SeqInst) (hI : I.g.names.Nodup) (ops : List COp) (q : COp)
    (hq : isHeur q = false) :
    let s := (CObj.run ({ inst := I } : CObj SeqSpec) ops).1
    (s.step q).2 = ((s.step q).1.step q).2 :=
  query_idempotent_on seq_resetsWhenChanged I hI ops q hq

/-! #### the counterexample: two nodes named "b" -/

def cexNode (s : String) : Node := { name := s, demand := 0, lo := 0, hi := none }
/-- positions 1 and 2 carry the same name; the arc `(1, 0)` has cost 5 -/
def cexGraph : Graph :=
  { nodes := [cexNode "a", cexNode "b", cexNode "b"]
    arcs := [((0, 0), ⟨"a", "a", 0, 0⟩), ((0, 1), ⟨"a", "b", 1, 1⟩), ((1, 2), ⟨"b", "b", 1, 1⟩),
             ((1, 0), ⟨"b", "a", 1, 5⟩)] }
def cexInst : SeqInst := { g := cexGraph, strict := false, V := 1, L := 5, vcost := [0] }

/-- the vehicle visits 1 then 2; `_ensure_exit_arc` at node 2 (no arc `(2, 0)`) looks the name "b" up, lands on
    position 1 and overwrites the arc `(1, 0)` (cost 5 → 0): same number of arcs, no node left unvisited, so no
    reset site is passed although the arcs changed -/
theorem cex_fact : cexInst.heurReset = false ∧
    (match cexInst.makeFeasible 100 with
     | .ok (J, _) => J.g.arcs != cexInst.g.arcs
     | .error _ => false) = true := by
  decide +kernel

theorem seq_not_resetsWhenChanged : ¬ seq_resetsWhenChanged_full_statement := by
  intro hS
  obtain ⟨hr, hm⟩ := cex_fact
  cases hh : cexInst.makeFeasible 100 with
  | error e => simp [hh] at hm
  | ok p =>
    obtain ⟨J, sol⟩ := p
    have hJ : J = cexInst := hS cexInst 100 J sol hh hr
    subst hJ
    simp [hh] at hm

def outObj : COut SeqSpec → Option (List Rat × List (Nat × Nat × Rat))
  | .obj o => some o
  | _ => none

/-- on that instance the object really answers the second `objective` query from the stale cache -/
theorem seq_not_refines :
    (CObj.run ({ inst := cexInst } : CObj SeqSpec) [.objective, .heur 100, .objective]).2
      ≠ (SObj.run ({ inst := cexInst } : SObj SeqSpec) [.objective, .heur 100, .objective]).2 := by
  intro h
  have h2 := congrArg (fun l => l[2]?.bind outObj) h
  revert h2
  decide +kernel

/-! ## non-vacuity -/

/-- arc-based object on a reachable graph in which customer `b` has no entering arc (so the heuristic passes its
    reset site and CHANGES the instance), grid through `add_time_points` -/
def nv_I : ArcInst :=
  ({ g := grun .base {} [.addNode "a" 1 2 (some 5), .addNode "b" 2 6 (some 9), .addNode "d" 0 0 none,
      .addArc "d" "a" 2 1, .addArc "a" "d" 2 1, .addArc "b" "d" 2 2, .setDepot "d"], T := [] } : ArcInst).addTimePoints
    [6, 0, 8, 2]

/-- queries, a heuristic run, queries again -/
def nv_ops : List COp := [.numVars, .objective, .constraints, .heur 100, .numVars, .objective, .heur 100, .numVars]

/-- what a reply says about the number of variables / objective coefficients -/
def nv_len : COut ArcSpec → Option ℕ
  | .vars v => some v.length
  | .obj o => some o.length
  | _ => none

/-- the premise of `ResetsWhenChanged ArcSpec` is met non-trivially: the first run succeeds with the reset site
    passed (instance changed: one more arc), the second with the site not passed (instance unchanged) -/
example : (ArcSpec.heur nv_I 100).toBool = true ∧ ArcSpec.reset nv_I 100 = true ∧
    (match ArcSpec.heur nv_I 100 with
     | .ok (J, _) => decide (J.g.arcs.length = nv_I.g.arcs.length + 1) && (ArcSpec.heur J 100).toBool &&
         !ArcSpec.reset J 100
     | .error _ => false) = true := by decide +kernel

/-- `refines` / `arc_refines` on that history: the cached object answers 4 variables before and 11 after the run,
    and so does the cache-free specification -/
example : (CObj.run ({ inst := nv_I } : CObj ArcSpec) nv_ops).2.map nv_len
    = [some 4, some 4, none, none, some 11, some 11, none, some 11] := by decide +kernel

example : (SObj.run ({ inst := nv_I } : SObj ArcSpec) nv_ops).2.map nv_len
    = [some 4, some 4, none, none, some 11, some 11, none, some 11] := by
  rw [← arc_refines nv_I nv_ops]; decide +kernel

/-- `step_refines` from a coherent NON-initial state (caches filled, one heuristic run done) -/
example : Coherent ((CObj.run ({ inst := nv_I } : CObj ArcSpec) nv_ops).1.step .objective).1 :=
  (step_refines arc_resetsWhenChanged _
    (run_refines arc_resetsWhenChanged _ (coherent_init nv_I) nv_ops).2.2 .objective).2.2

example : ((CObj.run ({ inst := nv_I } : CObj ArcSpec) nv_ops).1.vars.map List.length) = some 11 ∧
    ((CObj.run ({ inst := nv_I } : CObj ArcSpec) nv_ops).1.obj.map List.length) = some 11 ∧
    (CObj.run ({ inst := nv_I } : CObj ArcSpec) nv_ops).1.dead = false := by decide +kernel

/-- `queries_irrelevant` / `query_idempotent` instantiated -/
example : (CObj.run (CObj.run ({ inst := nv_I } : CObj ArcSpec) nv_ops).1 [.numVars]).2
    = (CObj.run (CObj.run ({ inst := nv_I } : CObj ArcSpec) [.heur 100, .heur 100]).1 [.numVars]).2 :=
  (queries_irrelevant arc_resetsWhenChanged nv_I nv_ops [.numVars]).2

/-- sequence-based: the hypothesis `names.Nodup` of `seq_refines` holds for the constructor applied to the
    reachable graph `C15.nv_g` (one vehicle, three positions: the run adds a dummy vehicle and passes the reset site) -/
def nv_S : SeqInst := ((SeqInst.new C15.nv_g false).setMaxVehicles 1).setMaxSeqLen 3

theorem nv_S_nodup : nv_S.g.names.Nodup := by decide +kernel

def nv_lenS : COut SeqSpec → Option ℕ
  | .vars v => some v.length
  | .obj o => some o.1.length
  | _ => none

example : SeqSpec.reset nv_S 100 = true ∧
    (CObj.run ({ inst := nv_S } : CObj SeqSpec) nv_ops).2.map nv_lenS
      = [some 3, some 3, none, none, some 6, some 6, none, some 6] := by decide +kernel

example : (SObj.run ({ inst := nv_S } : SObj SeqSpec) nv_ops).2.map nv_lenS
    = [some 3, some 3, none, none, some 6, some 6, none, some 6] := by
  rw [← seq_refines nv_S nv_S_nodup nv_ops]; decide +kernel

end Vrp.C14
