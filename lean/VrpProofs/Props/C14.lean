import VrpModel.Num

/-!
# C14 — Queries are pure and never change what later calls return
-/
namespace Vrp.C14

/-- placeholder until the cache state machine is merged -/
theorem placeholder_true : True := trivial

end Vrp.C14
