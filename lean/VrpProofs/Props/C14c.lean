import VrpModel.CacheFlags
import VrpProofs.Lemmas.CacheFlags
import VrpProofs.Props.C14

/-!
# C14 at flag level — the cached objects refine the cache-free specification

`ArcObj` / `SeqObj` (`VrpModel/CacheFlags.lean`) carry every boolean flag and every cached attribute of the Python
objects and have one function per Python method.  `ArcAbs.specStep` / `SeqAbs.specStep` answer the same calls from
the problem data alone.  This file proves

* `arc_step_coherent`, `arc_refines` (and `seq_…`): for every call history — queries in any number and order, any number
  of heuristic runs, including runs that raise and leave the object half-modified — the object's replies are exactly
  those of the specification and the abstraction (forget flags and caches) of the final object is the final
  specification state;
* the two clauses of the property: `arc_query_idempotent`, `arc_queries_irrelevant` (and `seq_…`);
* the connection to the instance-level heuristics of `VrpModel/Heuristics.lean`
  (`arc_makeFeasible_connection`, `seq_makeFeasible_connection`), so that the soundness theorems of `Props/C09*.lean`
  apply to what the object stores;
* expressiveness checks: defective variants of the arc heuristic's flag resets for which refinement FAILS
  (`v1b_not_refines`, `v1c_not_refines`, `v2_not_refines`), and the observation that the variant V1 of the task
  (exit-arc site forgets `objective_built`, loop head intact) is NOT a defect (`v1_equivalent`).
-/
namespace Vrp.C14c
open Vrp

/-! ## arc-based object -/

theorem arc_abs_of_qpost {o o' : ArcObj} (h : ArcObj.QPost o o') : o'.abs = o.abs := by
  unfold ArcObj.abs
  rw [h.2.1, h.2.2]

/-- one call from a coherent state: same reply as the specification, abstraction commutes, coherence preserved
    (every operation, including a heuristic run that raises) -/
theorem arc_step_refines {o : ArcObj} (hc : o.Coherent) (op : ArcFOp) :
    (o.step op).2 = (o.abs.specStep op).2 ∧ (o.step op).1.abs = (o.abs.specStep op).1 ∧ (o.step op).1.Coherent := by
  cases op with
  | numVars =>
    have hs : o.step .numVars = (o.getNumVariables.1, ArcReply.num o.getNumVariables.2) := rfl
    rw [hs, ArcObj.getNum_eq hc]
    exact ⟨rfl, arc_abs_of_qpost (ArcObj.qpost_E hc), ArcObj.coherent_E hc⟩
  | varIndex u =>
    have hs : o.step (.varIndex u) = ((o.getVarIndex u).1, ArcReply.idx (o.getVarIndex u).2) := rfl
    rw [hs, ArcObj.getVarIndex_eq hc]
    exact ⟨rfl, arc_abs_of_qpost (ArcObj.qpost_E hc), ArcObj.coherent_E hc⟩
  | varTuple k =>
    have hs : o.step (.varTuple k) = ((o.getVarTupleIndex k).1, ArcReply.tup (o.getVarTupleIndex k).2) := rfl
    rw [hs, ArcObj.getVarTupleIndex_eq hc]
    exact ⟨rfl, arc_abs_of_qpost (ArcObj.qpost_E hc), ArcObj.coherent_E hc⟩
  | objective =>
    obtain ⟨hq, hd⟩ := ArcObj.getObjectiveData_spec hc
    have hs : o.step .objective
        = (o.getObjectiveData.1, ArcReply.obj o.getObjectiveData.2.1 o.getObjectiveData.2.2) := rfl
    rw [hs, hd]
    exact ⟨rfl, arc_abs_of_qpost hq, hq.1⟩
  | constraints =>
    obtain ⟨hq, hd⟩ := ArcObj.getConstraintData_spec hc
    have hs : o.step .constraints = (o.getConstraintData.1, ArcReply.con o.getConstraintData.2.1
      o.getConstraintData.2.2.1 o.getConstraintData.2.2.2.1 o.getConstraintData.2.2.2.2) := rfl
    rw [hs, hd]
    exact ⟨rfl, arc_abs_of_qpost hq, hq.1⟩
  | qubo feas rho? =>
    obtain ⟨hq, hd⟩ := ArcObj.getQubo_spec hc feas rho?
    have hs : o.step (.qubo feas rho?) = ((o.getQubo feas rho?).1, (match (o.getQubo feas rho?).2 with
        | .ok q => ArcReply.qubo q | .error e => ArcReply.raised e)) := rfl
    rw [hs, hd]
    exact ⟨rfl, arc_abs_of_qpost hq, hq.1⟩
  | heur high =>
    obtain ⟨h1, h2, h3⟩ := ArcObj.makeFeasible_spec hc high
    have hs : o.step (.heur high) = ((o.makeFeasible high).1, (match (o.makeFeasible high).2 with
        | .ok _ => ArcReply.done | .error e => ArcReply.raised e)) := rfl
    rw [hs]
    unfold ArcAbs.specStep
    simp only
    have ha : o.abs.inst = o.inst := rfl
    have hs : o.abs.sol = o.sol := rfl
    rw [ha, hs]
    cases hr : (o.inst.heurP high).2 with
    | ok sol =>
      rw [hr] at h3
      simp only [h3.2]
      exact ⟨trivial, by unfold ArcObj.abs; rw [h2, h3.1], h1⟩
    | lookupFailed =>
      rw [hr] at h3
      simp only [h3.2]
      exact ⟨trivial, by unfold ArcObj.abs; rw [h2, h3.1], h1⟩
    | raised e =>
      rw [hr] at h3
      simp only [h3.2]
      exact ⟨trivial, by unfold ArcObj.abs; rw [h2, h3.1], h1⟩

/-- `coherent_init` -/
theorem arc_coherent_init (I : ArcInst) : (ArcObj.init I).Coherent := ArcObj.coherent_init I

/-- `step_coherent`: every operation preserves the coherence invariant -/
theorem arc_step_coherent {o : ArcObj} (hc : o.Coherent) (op : ArcFOp) : (o.step op).1.Coherent :=
  (arc_step_refines hc op).2.2

theorem arc_run_cons (o : ArcObj) (op : ArcFOp) (rest : List ArcFOp) :
    o.run (op :: rest) = (((o.step op).1.run rest).1, (o.step op).2 :: ((o.step op).1.run rest).2) := rfl

theorem arc_run_append (o : ArcObj) (a b : List ArcFOp) :
    o.run (a ++ b) = (((o.run a).1.run b).1, (o.run a).2 ++ ((o.run a).1.run b).2) := by
  induction a generalizing o with
  | nil => rfl
  | cons op rest ih =>
    rw [List.cons_append, arc_run_cons, ih, arc_run_cons]
    rfl

/-- refinement from an arbitrary coherent state -/
theorem arc_run_refines {o : ArcObj} (hc : o.Coherent) (ops : List ArcFOp) :
    (o.run ops).2 = (o.abs.specRun ops).2 ∧ (o.run ops).1.abs = (o.abs.specRun ops).1 ∧ (o.run ops).1.Coherent := by
  induction ops generalizing o with
  | nil => exact ⟨rfl, rfl, hc⟩
  | cons op rest ih =>
    obtain ⟨h1, h2, h3⟩ := arc_step_refines hc op
    obtain ⟨i1, i2, i3⟩ := ih h3
    rw [arc_run_cons]
    unfold ArcAbs.specRun
    simp only
    rw [← h2, ← h1, i1, i2]
    exact ⟨rfl, rfl, i3⟩

/-- **refinement**: for every history the object produces exactly the replies of the cache-free specification, and
    the final problem data and stored solution agree -/
theorem arc_refines (I : ArcInst) (ops : List ArcFOp) :
    ((ArcObj.init I).run ops).2 = (({ inst := I } : ArcAbs).specRun ops).2 ∧
    ((ArcObj.init I).run ops).1.abs = (({ inst := I } : ArcAbs).specRun ops).1 := by
  obtain ⟨h1, h2, _⟩ := arc_run_refines (arc_coherent_init I) ops
  exact ⟨h1, h2⟩

/-- in the specification a query changes nothing -/
theorem arc_spec_query_pure (s : ArcAbs) (q : ArcFOp) (hq : q.isHeur = false) : (s.specStep q).1 = s := by
  cases q <;> first | rfl | simp [ArcFOp.isHeur] at hq

/-- in the specification the final state only depends on the heuristic calls -/
theorem arc_spec_run_filter (s : ArcAbs) (ops : List ArcFOp) :
    (s.specRun ops).1 = (s.specRun (ops.filter ArcFOp.isHeur)).1 := by
  induction ops generalizing s with
  | nil => rfl
  | cons op rest ih =>
    cases hq : op.isHeur with
    | true =>
      rw [List.filter_cons_of_pos hq]
      simp only [ArcAbs.specRun]
      exact ih _
    | false =>
      rw [List.filter_cons_of_neg (by simp [hq])]
      simp only [ArcAbs.specRun]
      rw [arc_spec_query_pure s op hq]
      exact ih s

/-- replies given to the heuristic calls of a history -/
def arcHeurReplies (ops : List ArcFOp) (rs : List ArcReply) : List ArcReply :=
  ((ops.zip rs).filter fun e => e.1.isHeur).map (·.2)

theorem arc_spec_heur_replies (s : ArcAbs) (ops : List ArcFOp) :
    arcHeurReplies ops (s.specRun ops).2 = (s.specRun (ops.filter ArcFOp.isHeur)).2 := by
  induction ops generalizing s with
  | nil => rfl
  | cons op rest ih =>
    cases hq : op.isHeur with
    | true =>
      rw [List.filter_cons_of_pos hq]
      simp only [ArcAbs.specRun, arcHeurReplies, List.zip_cons_cons, List.filter_cons_of_pos, hq, List.map_cons]
      exact congrArg _ (ih _)
    | false =>
      rw [List.filter_cons_of_neg (by simp [hq])]
      simp only [ArcAbs.specRun, arcHeurReplies, List.zip_cons_cons]
      rw [List.filter_cons_of_neg (by simp [hq]), arc_spec_query_pure s op hq]
      exact ih s

/-- **asking twice gives equal results**: after any history, repeating a query gives the same reply, and the query
    leaves the problem data and the stored solution as they were -/
theorem arc_query_idempotent (I : ArcInst) (ops : List ArcFOp) (q : ArcFOp) (hq : q.isHeur = false) :
    let o := ((ArcObj.init I).run ops).1
    (o.step q).2 = ((o.step q).1.step q).2 ∧ (o.step q).1.abs = o.abs ∧ ((o.step q).1.step q).1.abs = o.abs := by
  intro o
  obtain ⟨_, _, hc⟩ := arc_run_refines (arc_coherent_init I) ops
  obtain ⟨h1, h2, h3⟩ := arc_step_refines hc q
  obtain ⟨k1, k2, _⟩ := arc_step_refines h3 q
  have e1 : (o.step q).1.abs = o.abs := by rw [h2, arc_spec_query_pure _ q hq]
  refine ⟨?_, e1, ?_⟩
  · rw [k1, e1, h1]
  · rw [k2, e1, arc_spec_query_pure _ q hq]

/-- any two queries commute as far as replies are concerned: the reply to `q₂` does not depend on whether `q₁` was
    asked before ("in any order") -/
theorem arc_query_order (I : ArcInst) (ops : List ArcFOp) (q₁ q₂ : ArcFOp) (hq : q₁.isHeur = false) :
    let o := ((ArcObj.init I).run ops).1
    ((o.step q₁).1.step q₂).2 = (o.step q₂).2 := by
  intro o
  obtain ⟨_, _, hc⟩ := arc_run_refines (arc_coherent_init I) ops
  obtain ⟨_, h2, h3⟩ := arc_step_refines hc q₁
  rw [(arc_step_refines h3 q₂).1, (arc_step_refines hc q₂).1, h2, arc_spec_query_pure _ q₁ hq]

/-- **queries issued before (or between) heuristic runs do not alter anything obtained afterwards**: deleting all
    queries from a history changes neither the problem data, nor the stored solution, nor the outcome of any heuristic
    run in it, nor any reply to calls made later -/
theorem arc_queries_irrelevant (I : ArcInst) (ops later : List ArcFOp) :
    ((ArcObj.init I).run ops).1.abs = ((ArcObj.init I).run (ops.filter ArcFOp.isHeur)).1.abs ∧
    arcHeurReplies ops ((ArcObj.init I).run ops).2 = ((ArcObj.init I).run (ops.filter ArcFOp.isHeur)).2 ∧
    (((ArcObj.init I).run ops).1.run later).2 = (((ArcObj.init I).run (ops.filter ArcFOp.isHeur)).1.run later).2 := by
  obtain ⟨r1, a1, c1⟩ := arc_run_refines (arc_coherent_init I) ops
  obtain ⟨r2, a2, c2⟩ := arc_run_refines (arc_coherent_init I) (ops.filter ArcFOp.isHeur)
  have h : ((ArcObj.init I).run ops).1.abs = ((ArcObj.init I).run (ops.filter ArcFOp.isHeur)).1.abs := by
    rw [a1, a2]; exact arc_spec_run_filter _ ops
  refine ⟨h, ?_, ?_⟩
  · rw [r1, r2]; exact arc_spec_heur_replies _ ops
  · rw [(arc_run_refines c1 later).1, (arc_run_refines c2 later).1, h]

/-- in particular the routes decoded from any solution vector and the index maps are the same -/
theorem arc_queries_irrelevant_decode (I : ArcInst) (ops : List ArcFOp) (x : List Rat) (u : ATup) (k : Nat) :
    let o₁ := ((ArcObj.init I).run ops).1
    let o₂ := ((ArcObj.init I).run (ops.filter ArcFOp.isHeur)).1
    o₁.inst.decode x = o₂.inst.decode x ∧ o₁.inst.varIndex u = o₂.inst.varIndex u ∧
      o₁.inst.varTuple k = o₂.inst.varTuple k ∧ o₁.sol = o₂.sol := by
  intro o₁ o₂
  have h := (arc_queries_irrelevant I ops []).1
  have hi : o₁.inst = o₂.inst := congrArg ArcAbs.inst h
  have hs : o₁.sol = o₂.sol := congrArg ArcAbs.sol h
  rw [hi]
  exact ⟨rfl, rfl, rfl, hs⟩

/-! ### connection to `ArcInst.makeFeasible` -/

/-- when `make_feasible` on a coherent object succeeds, the resulting problem data and stored solution are those of
    `ArcInst.makeFeasible`; and it raises iff that one fails (with the same error) -/
theorem arc_makeFeasible_connection {o : ArcObj} (hc : o.Coherent) (high : Rat) :
    (∀ J sol, o.inst.makeFeasible high = .ok (J, sol) ↔
        ((o.makeFeasible high).2 = .ok () ∧ (o.makeFeasible high).1.inst = J ∧ (o.makeFeasible high).1.sol = some sol)) ∧
    (∀ e, o.inst.makeFeasible high = .error e ↔ (o.makeFeasible high).2 = .error e) := by
  obtain ⟨_, h2, h3⟩ := ArcObj.makeFeasible_spec hc high
  rw [arc_makeFeasible_eq_heurP]
  cases hr : (o.inst.heurP high).2 with
  | ok sol' =>
    rw [hr] at h3
    simp only [h3.1, h3.2, h2]
    constructor
    · intro J sol
      constructor
      · intro h
        simp only [Except.ok.injEq, Prod.mk.injEq] at h
        exact ⟨trivial, h.1, by rw [h.2]⟩
      · rintro ⟨_, h1, h2⟩
        rw [h1, Option.some.inj h2]
    · intro e
      simp
  | lookupFailed =>
    rw [hr] at h3
    simp only [h3.1, h3.2]
    constructor
    · intro J sol
      simp
    · intro e
      simp only [Except.error.injEq]
  | raised e' =>
    rw [hr] at h3
    simp only [h3.2]
    constructor
    · intro J sol
      simp
    · intro e
      simp only [Except.error.injEq]

/-- the same along any history: whatever was asked before, a heuristic call on the object behaves as
    `ArcInst.makeFeasible` on the current problem data -/
theorem arc_makeFeasible_connection_run (I : ArcInst) (ops : List ArcFOp) (high : Rat) :
    let o := ((ArcObj.init I).run ops).1
    (∀ J sol, o.inst.makeFeasible high = .ok (J, sol) ↔
        ((o.makeFeasible high).2 = .ok () ∧ (o.makeFeasible high).1.inst = J ∧ (o.makeFeasible high).1.sol = some sol)) ∧
    (∀ e, o.inst.makeFeasible high = .error e ↔ (o.makeFeasible high).2 = .error e) :=
  arc_makeFeasible_connection (arc_run_refines (arc_coherent_init I) ops).2.2 high

/-! ### expressiveness: defective flag resets in the arc heuristic -/

/-- a reset that forgets `objective_built` -/
def resetVC (o : ArcObj) : ArcObj := { o with variablesEnumerated := false, constraintsBuilt := false }

theorem v1_dummyStep (t0 high : Rat) (o : ArcObj) (used : List ATup) (n : Nat) :
    ArcObj.dummyStep ArcObj.resetAll resetVC t0 high o used n
      = ArcObj.dummyStep ArcObj.resetAll ArcObj.resetAll t0 high o used n := rfl

theorem v1_dummyLoop (t0 high : Rat) (o : ArcObj) (used : List ATup) (l : List Nat) :
    ArcObj.dummyLoop ArcObj.resetAll resetVC t0 high o used l
      = ArcObj.dummyLoop ArcObj.resetAll ArcObj.resetAll t0 high o used l := by
  induction l generalizing o used with
  | nil => rfl
  | cons n rest ih =>
    unfold ArcObj.dummyLoop
    simp only [v1_dummyStep]
    cases (ArcObj.dummyStep ArcObj.resetAll ArcObj.resetAll t0 high o used n).2 with
    | error e => rfl
    | ok used' => exact ih _ _

/-- **V1 of the task is not a defect**: if `check_and_add_exit_arc` forgets to reset `objective_built` while the loop
    head still resets all three flags, `make_feasible` behaves exactly as the real code, on every object — the loop head
    has already unset the flag and nothing can set it again before the exit-arc site -/
theorem v1_equivalent (o : ArcObj) (high : Rat) :
    o.makeFeasibleWith ArcObj.resetAll resetVC high = o.makeFeasible high := by
  unfold ArcObj.makeFeasible ArcObj.makeFeasibleWith
  simp only [v1_dummyLoop]

def exNode (s : String) : Node := { name := s, demand := 0, lo := 0, hi := none }

/-- depot `D`, customer `A` on the route `D → A → D`, customer `B` without any arc: the heuristic has to add the
    entry arc `D → B` AND the exit arc `B → D` -/
def exInst1 : ArcInst :=
  { g := { nodes := [exNode "D", exNode "A", exNode "B"],
           arcs := [((0, 1), ⟨"D", "A", 1, 1⟩), ((1, 0), ⟨"A", "D", 1, 1⟩)] },
    T := [0, 1, 2] }

/-- as `exInst1`, but `B` already has its exit arc `B → D`: only the entry arc is added, the exit-arc site is passed
    without a reset -/
def exInst2 : ArcInst :=
  { g := { nodes := [exNode "D", exNode "A", exNode "B"],
           arcs := [((0, 1), ⟨"D", "A", 1, 1⟩), ((1, 0), ⟨"A", "D", 1, 1⟩), ((2, 0), ⟨"B", "D", 1, 1⟩)] },
    T := [0, 1, 2] }

def exHist : List ArcFOp := [.objective, .heur 100, .objective]

/-- **V1b** (`objective_built` forgotten at BOTH reset sites): the objective asked for before the heuristic is served
    again afterwards although two arcs were added — refinement fails -/
theorem v1b_not_refines :
    ((ArcObj.init exInst1).runWith resetVC resetVC exHist).2 ≠ (({ inst := exInst1 } : ArcAbs).specRun exHist).2 := by
  decide +kernel

/-- **V1c** (`objective_built` forgotten at the loop head only): goes unnoticed on `exInst1` (the exit-arc site repairs
    it) but fails as soon as the unvisited node already has its exit arc -/
theorem v1c_not_refines :
    ((ArcObj.init exInst2).runWith resetVC ArcObj.resetAll exHist).2 ≠ (({ inst := exInst2 } : ArcAbs).specRun exHist).2 := by
  decide +kernel

theorem v1c_unnoticed_on_exInst1 :
    ((ArcObj.init exInst1).runWith resetVC ArcObj.resetAll exHist).2 = (({ inst := exInst1 } : ArcAbs).specRun exHist).2 := by
  decide +kernel

/-- **V2** (the loop head resets nothing, only the exit-arc site resets): with an unvisited node that already has its
    exit arc and a query before the heuristic, the final `enumerate_variables()` is skipped, the new entry arc has no
    variable in the stale `var_mapping` and the heuristic raises although the specification succeeds -/
theorem v2_not_refines :
    ((ArcObj.init exInst2).runWith id ArcObj.resetAll exHist).2 ≠ (({ inst := exInst2 } : ArcAbs).specRun exHist).2 := by
  decide +kernel

/-- what the V2 object answers: the heuristic raises `ValueError` -/
theorem v2_replies :
    (((ArcObj.init exInst2).runWith id ArcObj.resetAll exHist).2)[1]? = some (.raised .value) ∧
    ((({ inst := exInst2 } : ArcAbs).specRun exHist).2)[1]? = some .done := by
  decide +kernel

/-- without the earlier query V2 is not observable on this history (all flags are still unset) -/
theorem v2_unnoticed_without_query :
    ((ArcObj.init exInst2).runWith id ArcObj.resetAll [.heur 100, .objective]).2
      = (({ inst := exInst2 } : ArcAbs).specRun [.heur 100, .objective]).2 := by
  decide +kernel

/-! ## sequence-based object

The statements are those of the arc object.  Unlike `C14.seq_refines` (coarse model, reset predicate derived from the
number of arcs) no hypothesis on the node names is needed: `_ensure_exit_arc` resets the flags whenever `add_arc`
returns `True`, also when the assignment overwrites an existing dictionary key. -/

theorem seq_abs_of_qpost {o o' : SeqObj} (h : SeqObj.QPost o o') : o'.abs = o.abs := by
  unfold SeqObj.abs
  rw [h.2.1, h.2.2]

/-- one call from a coherent state: same reply as the specification, abstraction commutes, coherence preserved
    (every operation, including a heuristic run that raises) -/
theorem seq_step_refines {o : SeqObj} (hc : o.Coherent) (op : SeqFOp) :
    (o.step op).2 = (o.abs.specStep op).2 ∧ (o.step op).1.abs = (o.abs.specStep op).1 ∧ (o.step op).1.Coherent := by
  cases op with
  | numVars =>
    have hs : o.step .numVars = (o.getNumVariables.1, SeqReply.num o.getNumVariables.2) := rfl
    rw [hs, SeqObj.getNum_eq hc]
    exact ⟨rfl, seq_abs_of_qpost (SeqObj.qpost_E hc), SeqObj.coherent_E hc⟩
  | varIndex u =>
    have hs : o.step (.varIndex u) = ((o.getVarIndex u).1, SeqReply.idx (o.getVarIndex u).2) := rfl
    rw [hs, SeqObj.getVarIndex_eq hc]
    exact ⟨rfl, seq_abs_of_qpost (SeqObj.qpost_E hc), SeqObj.coherent_E hc⟩
  | varTuple k =>
    have hs : o.step (.varTuple k) = ((o.getVarTupleIndex k).1, SeqReply.tup (o.getVarTupleIndex k).2) := rfl
    rw [hs, SeqObj.getVarTupleIndex_eq hc]
    exact ⟨rfl, seq_abs_of_qpost (SeqObj.qpost_E hc), SeqObj.coherent_E hc⟩
  | objective =>
    obtain ⟨hq, hd⟩ := SeqObj.getObjectiveData_spec hc
    have hs : o.step .objective = (o.getObjectiveData.1,
        SeqReply.obj o.getObjectiveData.2.1 o.getObjectiveData.2.2.1 o.getObjectiveData.2.2.2) := rfl
    rw [hs, hd]
    exact ⟨rfl, seq_abs_of_qpost hq, hq.1⟩
  | constraints =>
    obtain ⟨hq, hd⟩ := SeqObj.getConstraintData_spec hc
    have hs : o.step .constraints = (o.getConstraintData.1, (match o.getConstraintData.2 with
          | .ok d => SeqReply.con d.1 d.2.1 d.2.2.1 d.2.2.2.1 d.2.2.2.2
          | .error e => SeqReply.raised e)) := rfl
    rw [hs, hd]
    refine ⟨?_, seq_abs_of_qpost hq, hq.1⟩
    show _ = (match o.inst.quadCons with | none => _ | some R => _)
    cases o.inst.quadCons with
    | none => rfl
    | some R => rfl
  | qubo feas rho? =>
    obtain ⟨hq, hd⟩ := SeqObj.getQubo_spec hc feas rho?
    have hs : o.step (.qubo feas rho?) = ((o.getQubo feas rho?).1, (match (o.getQubo feas rho?).2 with
        | .ok q => SeqReply.qubo q | .error e => SeqReply.raised e)) := rfl
    rw [hs, hd]
    refine ⟨?_, seq_abs_of_qpost hq, hq.1⟩
    show _ = (match o.inst.data with | none => _ | some d => _)
    cases o.inst.data with
    | none => rfl
    | some d => rfl
  | heur high =>
    obtain ⟨h1, h2, h3⟩ := SeqObj.makeFeasible_spec hc high
    have hs : o.step (.heur high) = ((o.makeFeasible high).1, (match (o.makeFeasible high).2 with
        | .ok _ => SeqReply.done | .error e => SeqReply.raised e)) := rfl
    rw [hs]
    unfold SeqAbs.specStep
    simp only
    have ha : o.abs.inst = o.inst := rfl
    have hs : o.abs.sol = o.sol := rfl
    rw [ha, hs]
    cases hr : (o.inst.heurP high).2 with
    | ok sol =>
      rw [hr] at h3
      simp only [h3.2]
      exact ⟨trivial, by unfold SeqObj.abs; rw [h2, h3.1], h1⟩
    | lookupFailed =>
      rw [hr] at h3
      simp only [h3.2]
      exact ⟨trivial, by unfold SeqObj.abs; rw [h2, h3.1], h1⟩
    | raised e =>
      rw [hr] at h3
      simp only [h3.2]
      exact ⟨trivial, by unfold SeqObj.abs; rw [h2, h3.1], h1⟩

/-- `coherent_init` -/
theorem seq_coherent_init (I : SeqInst) : (SeqObj.init I).Coherent := SeqObj.coherent_init I

/-- `step_coherent`: every operation preserves the coherence invariant -/
theorem seq_step_coherent {o : SeqObj} (hc : o.Coherent) (op : SeqFOp) : (o.step op).1.Coherent :=
  (seq_step_refines hc op).2.2

theorem seq_run_cons (o : SeqObj) (op : SeqFOp) (rest : List SeqFOp) :
    o.run (op :: rest) = (((o.step op).1.run rest).1, (o.step op).2 :: ((o.step op).1.run rest).2) := rfl

theorem seq_run_append (o : SeqObj) (a b : List SeqFOp) :
    o.run (a ++ b) = (((o.run a).1.run b).1, (o.run a).2 ++ ((o.run a).1.run b).2) := by
  induction a generalizing o with
  | nil => rfl
  | cons op rest ih =>
    rw [List.cons_append, seq_run_cons, ih, seq_run_cons]
    rfl

/-- refinement from an arbitrary coherent state -/
theorem seq_run_refines {o : SeqObj} (hc : o.Coherent) (ops : List SeqFOp) :
    (o.run ops).2 = (o.abs.specRun ops).2 ∧ (o.run ops).1.abs = (o.abs.specRun ops).1 ∧ (o.run ops).1.Coherent := by
  induction ops generalizing o with
  | nil => exact ⟨rfl, rfl, hc⟩
  | cons op rest ih =>
    obtain ⟨h1, h2, h3⟩ := seq_step_refines hc op
    obtain ⟨i1, i2, i3⟩ := ih h3
    rw [seq_run_cons]
    unfold SeqAbs.specRun
    simp only
    rw [← h2, ← h1, i1, i2]
    exact ⟨rfl, rfl, i3⟩

/-- **refinement**: for every history the object produces exactly the replies of the cache-free specification, and
    the final problem data and stored solution agree -/
theorem seq_refines (I : SeqInst) (ops : List SeqFOp) :
    ((SeqObj.init I).run ops).2 = (({ inst := I } : SeqAbs).specRun ops).2 ∧
    ((SeqObj.init I).run ops).1.abs = (({ inst := I } : SeqAbs).specRun ops).1 := by
  obtain ⟨h1, h2, _⟩ := seq_run_refines (seq_coherent_init I) ops
  exact ⟨h1, h2⟩

/-- in the specification a query changes nothing -/
theorem seq_spec_query_pure (s : SeqAbs) (q : SeqFOp) (hq : q.isHeur = false) : (s.specStep q).1 = s := by
  cases q <;> first | rfl | simp [SeqFOp.isHeur] at hq

/-- in the specification the final state only depends on the heuristic calls -/
theorem seq_spec_run_filter (s : SeqAbs) (ops : List SeqFOp) :
    (s.specRun ops).1 = (s.specRun (ops.filter SeqFOp.isHeur)).1 := by
  induction ops generalizing s with
  | nil => rfl
  | cons op rest ih =>
    cases hq : op.isHeur with
    | true =>
      rw [List.filter_cons_of_pos hq]
      simp only [SeqAbs.specRun]
      exact ih _
    | false =>
      rw [List.filter_cons_of_neg (by simp [hq])]
      simp only [SeqAbs.specRun]
      rw [seq_spec_query_pure s op hq]
      exact ih s

/-- replies given to the heuristic calls of a history -/
def seqHeurReplies (ops : List SeqFOp) (rs : List SeqReply) : List SeqReply :=
  ((ops.zip rs).filter fun e => e.1.isHeur).map (·.2)

theorem seq_spec_heur_replies (s : SeqAbs) (ops : List SeqFOp) :
    seqHeurReplies ops (s.specRun ops).2 = (s.specRun (ops.filter SeqFOp.isHeur)).2 := by
  induction ops generalizing s with
  | nil => rfl
  | cons op rest ih =>
    cases hq : op.isHeur with
    | true =>
      rw [List.filter_cons_of_pos hq]
      simp only [SeqAbs.specRun, seqHeurReplies, List.zip_cons_cons, List.filter_cons_of_pos, hq, List.map_cons]
      exact congrArg _ (ih _)
    | false =>
      rw [List.filter_cons_of_neg (by simp [hq])]
      simp only [SeqAbs.specRun, seqHeurReplies, List.zip_cons_cons]
      rw [List.filter_cons_of_neg (by simp [hq]), seq_spec_query_pure s op hq]
      exact ih s

/-- **asking twice gives equal results**: after any history, repeating a query gives the same reply, and the query
    leaves the problem data and the stored solution as they were -/
theorem seq_query_idempotent (I : SeqInst) (ops : List SeqFOp) (q : SeqFOp) (hq : q.isHeur = false) :
    let o := ((SeqObj.init I).run ops).1
    (o.step q).2 = ((o.step q).1.step q).2 ∧ (o.step q).1.abs = o.abs ∧ ((o.step q).1.step q).1.abs = o.abs := by
  intro o
  obtain ⟨_, _, hc⟩ := seq_run_refines (seq_coherent_init I) ops
  obtain ⟨h1, h2, h3⟩ := seq_step_refines hc q
  obtain ⟨k1, k2, _⟩ := seq_step_refines h3 q
  have e1 : (o.step q).1.abs = o.abs := by rw [h2, seq_spec_query_pure _ q hq]
  refine ⟨?_, e1, ?_⟩
  · rw [k1, e1, h1]
  · rw [k2, e1, seq_spec_query_pure _ q hq]

/-- any two queries commute as far as replies are concerned: the reply to `q₂` does not depend on whether `q₁` was
    asked before ("in any order") -/
theorem seq_query_order (I : SeqInst) (ops : List SeqFOp) (q₁ q₂ : SeqFOp) (hq : q₁.isHeur = false) :
    let o := ((SeqObj.init I).run ops).1
    ((o.step q₁).1.step q₂).2 = (o.step q₂).2 := by
  intro o
  obtain ⟨_, _, hc⟩ := seq_run_refines (seq_coherent_init I) ops
  obtain ⟨_, h2, h3⟩ := seq_step_refines hc q₁
  rw [(seq_step_refines h3 q₂).1, (seq_step_refines hc q₂).1, h2, seq_spec_query_pure _ q₁ hq]

/-- **queries issued before (or between) heuristic runs do not alter anything obtained afterwards**: deleting all
    queries from a history changes neither the problem data, nor the stored solution, nor the outcome of any heuristic
    run in it, nor any reply to calls made later -/
theorem seq_queries_irrelevant (I : SeqInst) (ops later : List SeqFOp) :
    ((SeqObj.init I).run ops).1.abs = ((SeqObj.init I).run (ops.filter SeqFOp.isHeur)).1.abs ∧
    seqHeurReplies ops ((SeqObj.init I).run ops).2 = ((SeqObj.init I).run (ops.filter SeqFOp.isHeur)).2 ∧
    (((SeqObj.init I).run ops).1.run later).2 = (((SeqObj.init I).run (ops.filter SeqFOp.isHeur)).1.run later).2 := by
  obtain ⟨r1, a1, c1⟩ := seq_run_refines (seq_coherent_init I) ops
  obtain ⟨r2, a2, c2⟩ := seq_run_refines (seq_coherent_init I) (ops.filter SeqFOp.isHeur)
  have h : ((SeqObj.init I).run ops).1.abs = ((SeqObj.init I).run (ops.filter SeqFOp.isHeur)).1.abs := by
    rw [a1, a2]; exact seq_spec_run_filter _ ops
  refine ⟨h, ?_, ?_⟩
  · rw [r1, r2]; exact seq_spec_heur_replies _ ops
  · rw [(seq_run_refines c1 later).1, (seq_run_refines c2 later).1, h]

/-- in particular the routes decoded from any solution vector and the index maps are the same -/
theorem seq_queries_irrelevant_decode (I : SeqInst) (ops : List SeqFOp) (x : List Rat) (u : STup) (k : Nat) :
    let o₁ := ((SeqObj.init I).run ops).1
    let o₂ := ((SeqObj.init I).run (ops.filter SeqFOp.isHeur)).1
    o₁.inst.decode x = o₂.inst.decode x ∧ o₁.inst.varIndex u = o₂.inst.varIndex u ∧
      o₁.inst.varTuple k = o₂.inst.varTuple k ∧ o₁.sol = o₂.sol := by
  intro o₁ o₂
  have h := (seq_queries_irrelevant I ops []).1
  have hi : o₁.inst = o₂.inst := congrArg SeqAbs.inst h
  have hs : o₁.sol = o₂.sol := congrArg SeqAbs.sol h
  rw [hi]
  exact ⟨rfl, rfl, rfl, hs⟩

/-! ### connection to `SeqInst.makeFeasible` -/

/-- when `make_feasible` on a coherent object succeeds, the resulting problem data and stored solution are those of
    `SeqInst.makeFeasible`; and it raises iff that one fails (with the same error) -/
theorem seq_makeFeasible_connection {o : SeqObj} (hc : o.Coherent) (high : Rat) :
    (∀ J sol, o.inst.makeFeasible high = .ok (J, sol) ↔
        ((o.makeFeasible high).2 = .ok () ∧ (o.makeFeasible high).1.inst = J ∧ (o.makeFeasible high).1.sol = some sol)) ∧
    (∀ e, o.inst.makeFeasible high = .error e ↔ (o.makeFeasible high).2 = .error e) := by
  obtain ⟨_, h2, h3⟩ := SeqObj.makeFeasible_spec hc high
  rw [seq_makeFeasible_eq_heurP]
  cases hr : (o.inst.heurP high).2 with
  | ok sol' =>
    rw [hr] at h3
    simp only [h3.1, h3.2, h2]
    constructor
    · intro J sol
      constructor
      · intro h
        simp only [Except.ok.injEq, Prod.mk.injEq] at h
        exact ⟨trivial, h.1, by rw [h.2]⟩
      · rintro ⟨_, h1, h2⟩
        rw [h1, Option.some.inj h2]
    · intro e
      simp
  | lookupFailed =>
    rw [hr] at h3
    simp only [h3.1, h3.2]
    constructor
    · intro J sol
      simp
    · intro e
      simp only [Except.error.injEq]
  | raised e' =>
    rw [hr] at h3
    simp only [h3.2]
    constructor
    · intro J sol
      simp
    · intro e
      simp only [Except.error.injEq]

/-- the same along any history: whatever was asked before, a heuristic call on the object behaves as
    `SeqInst.makeFeasible` on the current problem data -/
theorem seq_makeFeasible_connection_run (I : SeqInst) (ops : List SeqFOp) (high : Rat) :
    let o := ((SeqObj.init I).run ops).1
    (∀ J sol, o.inst.makeFeasible high = .ok (J, sol) ↔
        ((o.makeFeasible high).2 = .ok () ∧ (o.makeFeasible high).1.inst = J ∧ (o.makeFeasible high).1.sol = some sol)) ∧
    (∀ e, o.inst.makeFeasible high = .error e ↔ (o.makeFeasible high).2 = .error e) :=
  seq_makeFeasible_connection (seq_run_refines (seq_coherent_init I) ops).2.2 high


/-! ### the counterexample of the coarse model is an artifact of its reset predicate -/

/-- `C14.seq_not_refines` exhibits an instance with two nodes of the same name on which the COARSE cached object
    (`VrpModel/Cache.lean`, reset predicate "the number of arcs changed") disagrees with its specification.  The real
    `_ensure_exit_arc` resets the flags whenever `add_arc` returns `True`; at flag level the same instance and history
    refine (an instance of `seq_refines`, which needs no hypothesis on the names) -/
theorem seq_coarse_cex_refines :
    ((SeqObj.init C14.cexInst).run [.objective, .heur 100, .objective]).2
      = (({ inst := C14.cexInst } : SeqAbs).specRun [.objective, .heur 100, .objective]).2 :=
  (seq_refines C14.cexInst _).1

/-! ### expressiveness: a defective `_ensure_exit_arc` -/

/-- depot `D` (with its self-arc) and one customer `A` that can be entered but has no arc back -/
def exSeq : SeqInst :=
  { g := { nodes := [exNode "D", exNode "A"],
           arcs := [((0, 0), ⟨"D", "D", 0, 0⟩), ((0, 1), ⟨"D", "A", 1, 1⟩)] },
    strict := false, V := 1, L := 4, vcost := [0] }

/-- `_ensure_exit_arc` without its four flag resets: the vehicle visits `A`, the exit arc `A → D` is added, no node is
    left for the dummy-vehicle loop, so no reset site is passed; the variable count asked for before the heuristic is
    served again although position `L-2` at `A` has become a free variable -/
theorem seq_exit_noreset_not_refines :
    ((SeqObj.init exSeq).runWith SeqObj.resetAll id [.numVars, .heur 10, .numVars]).2
      ≠ (({ inst := exSeq } : SeqAbs).specRun [.numVars, .heur 10, .numVars]).2 := by
  decide +kernel

theorem seq_exit_noreset_replies :
    ((SeqObj.init exSeq).runWith SeqObj.resetAll id [.numVars, .heur 10, .numVars]).2 = [.num 3, .done, .num 3] ∧
    (({ inst := exSeq } : SeqAbs).specRun [.numVars, .heur 10, .numVars]).2 = [.num 3, .done, .num 4] := by
  decide +kernel

end Vrp.C14c
