import VrpModel.CacheFlags
import VrpProofs.Lemmas.CacheFlags
import VrpProofs.Props.C14

/-!
# C14 at flag level — the cached objects refine the cache-free specification

`ArcObj` / `SeqObj` (`VrpModel/CacheFlags.lean`) carry every boolean flag and every cached attribute of the Python
objects and have one function per Python method.  `ArcAbs.specStep` / `SeqAbs.specStep` answer the same calls from
the problem data alone.  This file proves

* `arc_step_coherent`, `arc_refines` (and `seq_…`): for every call history — queries in any number and order, any number
  of heuristic runs, including runs that raise and leave the object half-modified, and any number of calls of the
  public mutators (`add_time_points`, `set_max_vehicles`, `set_max_sequence_length`, `add_arc`, `add_node`, `set_depot`,
  `set_vehicle_cap`, `set_initial_loading`), including calls that raise — the object's replies are exactly those of the
  specification and the abstraction (forget flags and caches) of the final object is the final specification state;
* route decoding `get_routes(x)` is the query `decode x` of both machines (it enumerates lazily through
  `get_var_tuple_index` and, sequence formulation, reads the cached `fixed_values`): `arc_decode_refines`,
  `seq_decode_refines`, the connection to the instance-level decoders `arc_decode_inst`, `seq_decode_inst`, and
  `seq_decode_stale_unsound` (reading `fixed_values` before the lookups is visible);
* the two clauses of the property: `arc_query_idempotent`, `arc_queries_irrelevant` (and `seq_…`); a QUERY is an
  operation that is neither a heuristic run nor a mutator, and `arc_queries_irrelevant` deletes exactly the queries
  (`ops.filter (fun op => op.isHeur || op.isMutator)` keeps every state-changing call);
* the connection to the instance-level heuristics of `VrpModel/Heuristics.lean`
  (`arc_makeFeasible_connection`, `seq_makeFeasible_connection`), so that the soundness theorems of `Props/C09*.lean`
  apply to what the object stores; the arc connection assumes a NON-EMPTY time grid (`o.inst.T ≠ []`), because
  `ArcInst.makeFeasible` does not cover the empty grid (`arc_connection_fails_on_empty_grid`) — refinement does, and
  `arc_empty_grid_history` replays the history in which `make_feasible` raises `IndexError` after having added an arc;
* expressiveness checks.  A mutator that forgets the hook breaks refinement on a query–mutator–query history
  (`arc_addTimePoints_nohook_not_refines`, `seq_setMaxVehicles_nohook_not_refines`), and so does the sequence heuristic
  without its loop-head reset (`seq_head_noreset_not_refines`).  The former defective variants of the EXPLICIT resets
  inside the heuristics (`v1b`, `v1c`, `v2`, `seq_exit_noreset`) are no longer defects, because the `add_arc` they sit
  next to now runs the hook itself: they are restated as `v1b_refines`, `v1c_refines`, `v2_refines`,
  `seq_exit_noreset_equivalent`; `v1_equivalent` is unchanged.
-/
namespace Vrp.C14c
open Vrp

/-! ## arc-based object -/

theorem arc_abs_of_qpost {o o' : ArcObj} (h : ArcObj.QPost o o') : o'.abs = o.abs := by
  unfold ArcObj.abs
  rw [h.2.1, h.2.2]

/-- a base-class mutator: same reply as the specification, abstraction commutes, and the object is coherent afterwards
    because the hook has unset every flag (also when the call raises) -/
theorem arc_mutate_refines (o : ArcObj) (m : GMut) :
    ArcReply.ofGOut (o.mutate m).2 = (o.abs.mutate m).2 ∧ (o.mutate m).1.abs = (o.abs.mutate m).1 ∧
      (o.mutate m).1.Coherent :=
  ⟨rfl, rfl, (ArcObj.mutate_spec o m).1.coherent⟩

/-- one call from a coherent state, with ANY harmless flag actions at the two explicit reset sites of the heuristic:
    same reply as the specification, abstraction commutes, coherence preserved (every operation — queries, mutators
    including raising ones, and heuristic runs including raising ones) -/
theorem arc_stepWith_refines {head exit : ArcObj → ArcObj} (hh : ArcObj.Harmless head) (hx : ArcObj.Harmless exit)
    {o : ArcObj} (hc : o.Coherent) (op : ArcFOp) :
    (o.stepWith head exit op).2 = (o.abs.specStep op).2 ∧ (o.stepWith head exit op).1.abs = (o.abs.specStep op).1 ∧
      (o.stepWith head exit op).1.Coherent := by
  cases op with
  | numVars =>
    have hs : o.stepWith head exit .numVars = (o.getNumVariables.1, ArcReply.num o.getNumVariables.2) := rfl
    rw [hs, ArcObj.getNum_eq hc]
    exact ⟨rfl, arc_abs_of_qpost (ArcObj.qpost_E hc), ArcObj.coherent_E hc⟩
  | varIndex u =>
    have hs : o.stepWith head exit (.varIndex u) = ((o.getVarIndex u).1, ArcReply.idx (o.getVarIndex u).2) := rfl
    rw [hs, ArcObj.getVarIndex_eq hc]
    exact ⟨rfl, arc_abs_of_qpost (ArcObj.qpost_E hc), ArcObj.coherent_E hc⟩
  | varTuple k =>
    have hs : o.stepWith head exit (.varTuple k)
        = ((o.getVarTupleIndex k).1, ArcReply.tup (o.getVarTupleIndex k).2) := rfl
    rw [hs, ArcObj.getVarTupleIndex_eq hc]
    exact ⟨rfl, arc_abs_of_qpost (ArcObj.qpost_E hc), ArcObj.coherent_E hc⟩
  | objective =>
    obtain ⟨hq, hd⟩ := ArcObj.getObjectiveData_spec hc
    have hs : o.stepWith head exit .objective
        = (o.getObjectiveData.1, ArcReply.obj o.getObjectiveData.2.1 o.getObjectiveData.2.2) := rfl
    rw [hs, hd]
    exact ⟨rfl, arc_abs_of_qpost hq, hq.1⟩
  | constraints =>
    obtain ⟨hq, hd⟩ := ArcObj.getConstraintData_spec hc
    have hs : o.stepWith head exit .constraints = (o.getConstraintData.1, ArcReply.con o.getConstraintData.2.1
      o.getConstraintData.2.2.1 o.getConstraintData.2.2.2.1 o.getConstraintData.2.2.2.2) := rfl
    rw [hs, hd]
    exact ⟨rfl, arc_abs_of_qpost hq, hq.1⟩
  | qubo feas rho? =>
    obtain ⟨hq, hd⟩ := ArcObj.getQubo_spec hc feas rho?
    have hs : o.stepWith head exit (.qubo feas rho?) = ((o.getQubo feas rho?).1, (match (o.getQubo feas rho?).2 with
        | .ok q => ArcReply.qubo q | .error e => ArcReply.raised e)) := rfl
    rw [hs, hd]
    exact ⟨rfl, arc_abs_of_qpost hq, hq.1⟩
  | decode x =>
    have hs : o.stepWith head exit (.decode x) = ((o.getRoutes x).1, (match (o.getRoutes x).2 with
        | .ok rs => ArcReply.routesA rs | .error e => ArcReply.raised e)) := rfl
    rw [hs, ArcObj.getRoutes_eq hc]
    have hq : ArcObj.QPost o (if (selectedIdx x).isEmpty then o else o.E) := by
      split
      · exact ArcObj.QPost.refl hc
      · exact ArcObj.qpost_E hc
    exact ⟨rfl, arc_abs_of_qpost hq, hq.1⟩
  | heur high =>
    obtain ⟨h1, h2, h3⟩ := ArcObj.makeFeasibleWith_spec hh hx hc high
    have hs : o.stepWith head exit (.heur high) = ((o.makeFeasibleWith head exit high).1,
        (match (o.makeFeasibleWith head exit high).2 with
        | .ok _ => ArcReply.done | .error e => ArcReply.raised e)) := rfl
    rw [hs]
    unfold ArcAbs.specStep
    simp only
    have ha : o.abs.inst = o.inst := rfl
    have hs : o.abs.sol = o.sol := rfl
    rw [ha, hs]
    cases hr : (o.inst.heurP high).2 with
    | ok sol =>
      rw [hr] at h3
      simp only [h3.2]
      exact ⟨trivial, by unfold ArcObj.abs; rw [h2, h3.1], h1⟩
    | lookupFailed =>
      rw [hr] at h3
      simp only [h3.2]
      exact ⟨trivial, by unfold ArcObj.abs; rw [h2, h3.1], h1⟩
    | raised e =>
      rw [hr] at h3
      simp only [h3.2]
      exact ⟨trivial, by unfold ArcObj.abs; rw [h2, h3.1], h1⟩
  | addTimePoints pts => exact ⟨rfl, rfl, (ArcObj.addTimePoints_spec o pts).1.coherent⟩
  | addArc og d t c => exact arc_mutate_refines o _
  | addNode nm dem lo hi => exact arc_mutate_refines o _
  | setDepot nm => exact arc_mutate_refines o _
  | setVehicleCap c => exact arc_mutate_refines o (.cap c)
  | setInitialLoading l => exact arc_mutate_refines o (.init l)

/-- one call on the real object from a coherent state -/
theorem arc_step_refines {o : ArcObj} (hc : o.Coherent) (op : ArcFOp) :
    (o.step op).2 = (o.abs.specStep op).2 ∧ (o.step op).1.abs = (o.abs.specStep op).1 ∧ (o.step op).1.Coherent :=
  arc_stepWith_refines ArcObj.harmless_resetAll ArcObj.harmless_resetAll hc op

/-- `coherent_init` -/
theorem arc_coherent_init (I : ArcInst) : (ArcObj.init I).Coherent := ArcObj.coherent_init I

/-- `step_coherent`: every operation preserves the coherence invariant -/
theorem arc_step_coherent {o : ArcObj} (hc : o.Coherent) (op : ArcFOp) : (o.step op).1.Coherent :=
  (arc_step_refines hc op).2.2

theorem arc_run_cons (o : ArcObj) (op : ArcFOp) (rest : List ArcFOp) :
    o.run (op :: rest) = (((o.step op).1.run rest).1, (o.step op).2 :: ((o.step op).1.run rest).2) := rfl

theorem arc_run_append (o : ArcObj) (a b : List ArcFOp) :
    o.run (a ++ b) = (((o.run a).1.run b).1, (o.run a).2 ++ ((o.run a).1.run b).2) := by
  induction a generalizing o with
  | nil => rfl
  | cons op rest ih =>
    rw [List.cons_append, arc_run_cons, ih, arc_run_cons]
    rfl

/-- refinement from an arbitrary coherent state, for any harmless flag actions at the two explicit reset sites -/
theorem arc_runWith_refines {head exit : ArcObj → ArcObj} (hh : ArcObj.Harmless head) (hx : ArcObj.Harmless exit)
    {o : ArcObj} (hc : o.Coherent) (ops : List ArcFOp) :
    (o.runWith head exit ops).2 = (o.abs.specRun ops).2 ∧ (o.runWith head exit ops).1.abs = (o.abs.specRun ops).1 ∧
      (o.runWith head exit ops).1.Coherent := by
  induction ops generalizing o with
  | nil => exact ⟨rfl, rfl, hc⟩
  | cons op rest ih =>
    obtain ⟨h1, h2, h3⟩ := arc_stepWith_refines hh hx hc op
    obtain ⟨i1, i2, i3⟩ := ih h3
    unfold ArcObj.runWith ArcAbs.specRun
    simp only
    rw [← h2, ← h1, i1, i2]
    exact ⟨rfl, rfl, i3⟩

/-- refinement from an arbitrary coherent state -/
theorem arc_run_refines {o : ArcObj} (hc : o.Coherent) (ops : List ArcFOp) :
    (o.run ops).2 = (o.abs.specRun ops).2 ∧ (o.run ops).1.abs = (o.abs.specRun ops).1 ∧ (o.run ops).1.Coherent :=
  arc_runWith_refines ArcObj.harmless_resetAll ArcObj.harmless_resetAll hc ops

/-- **refinement**: for every history the object produces exactly the replies of the cache-free specification, and
    the final problem data and stored solution agree -/
theorem arc_refines (I : ArcInst) (ops : List ArcFOp) :
    ((ArcObj.init I).run ops).2 = (({ inst := I } : ArcAbs).specRun ops).2 ∧
    ((ArcObj.init I).run ops).1.abs = (({ inst := I } : ArcAbs).specRun ops).1 := by
  obtain ⟨h1, h2, _⟩ := arc_run_refines (arc_coherent_init I) ops
  exact ⟨h1, h2⟩

/-- in the specification a query (neither heuristic nor mutator) changes nothing -/
theorem arc_spec_query_pure (s : ArcAbs) (q : ArcFOp) (hq : q.isChange = false) : (s.specStep q).1 = s := by
  cases q <;> first | rfl | simp [ArcFOp.isChange, ArcFOp.isHeur, ArcFOp.isMutator, ArcFOp.gmut?] at hq

theorem arc_isChange_false {q : ArcFOp} (hq : q.isHeur = false) (hm : q.isMutator = false) : q.isChange = false := by
  unfold ArcFOp.isChange
  rw [hq, hm]
  rfl

/-- in the specification the final state only depends on the state-changing calls (heuristic runs and mutators) -/
theorem arc_spec_run_filter (s : ArcAbs) (ops : List ArcFOp) :
    (s.specRun ops).1 = (s.specRun (ops.filter ArcFOp.isChange)).1 := by
  induction ops generalizing s with
  | nil => rfl
  | cons op rest ih =>
    cases hq : op.isChange with
    | true =>
      rw [List.filter_cons_of_pos hq]
      simp only [ArcAbs.specRun]
      exact ih _
    | false =>
      rw [List.filter_cons_of_neg (by simp [hq])]
      simp only [ArcAbs.specRun]
      rw [arc_spec_query_pure s op hq]
      exact ih s

/-- replies given to the state-changing calls (heuristic runs and mutators) of a history -/
def arcChangeReplies (ops : List ArcFOp) (rs : List ArcReply) : List ArcReply :=
  ((ops.zip rs).filter fun e => e.1.isHeur || e.1.isMutator).map (·.2)

theorem arc_spec_change_replies (s : ArcAbs) (ops : List ArcFOp) :
    arcChangeReplies ops (s.specRun ops).2 = (s.specRun (ops.filter ArcFOp.isChange)).2 := by
  induction ops generalizing s with
  | nil => rfl
  | cons op rest ih =>
    have hp : ∀ (r : ArcReply) l, ((op, r) :: l).filter (fun e => e.1.isHeur || e.1.isMutator)
        = if op.isChange then (op, r) :: l.filter (fun e => e.1.isHeur || e.1.isMutator)
          else l.filter (fun e => e.1.isHeur || e.1.isMutator) := fun r l => by
      rw [List.filter_cons]
      rfl
    cases hq : op.isChange with
    | true =>
      rw [List.filter_cons_of_pos hq]
      simp only [ArcAbs.specRun, arcChangeReplies, List.zip_cons_cons, hp, hq, if_true, List.map_cons]
      exact congrArg _ (ih _)
    | false =>
      rw [List.filter_cons_of_neg (by simp [hq])]
      simp only [ArcAbs.specRun, arcChangeReplies, List.zip_cons_cons, hp, hq, Bool.false_eq_true, if_false]
      rw [arc_spec_query_pure s op hq]
      exact ih s

/-- **asking twice gives equal results**: after any history (queries, mutators, heuristic runs), repeating a query gives
    the same reply, and the query leaves the problem data and the stored solution as they were -/
theorem arc_query_idempotent (I : ArcInst) (ops : List ArcFOp) (q : ArcFOp) (hq : q.isHeur = false)
    (hm : q.isMutator = false) :
    let o := ((ArcObj.init I).run ops).1
    (o.step q).2 = ((o.step q).1.step q).2 ∧ (o.step q).1.abs = o.abs ∧ ((o.step q).1.step q).1.abs = o.abs := by
  intro o
  have hq := arc_isChange_false hq hm
  obtain ⟨_, _, hc⟩ := arc_run_refines (arc_coherent_init I) ops
  obtain ⟨h1, h2, h3⟩ := arc_step_refines hc q
  obtain ⟨k1, k2, _⟩ := arc_step_refines h3 q
  have e1 : (o.step q).1.abs = o.abs := by rw [h2, arc_spec_query_pure _ q hq]
  refine ⟨?_, e1, ?_⟩
  · rw [k1, e1, h1]
  · rw [k2, e1, arc_spec_query_pure _ q hq]

/-- any two queries commute as far as replies are concerned: the reply to `q₂` does not depend on whether `q₁` was
    asked before ("in any order") -/
theorem arc_query_order (I : ArcInst) (ops : List ArcFOp) (q₁ q₂ : ArcFOp) (hq : q₁.isHeur = false)
    (hm : q₁.isMutator = false) :
    let o := ((ArcObj.init I).run ops).1
    ((o.step q₁).1.step q₂).2 = (o.step q₂).2 := by
  intro o
  have hq := arc_isChange_false hq hm
  obtain ⟨_, _, hc⟩ := arc_run_refines (arc_coherent_init I) ops
  obtain ⟨_, h2, h3⟩ := arc_step_refines hc q₁
  rw [(arc_step_refines h3 q₂).1, (arc_step_refines hc q₂).1, h2, arc_spec_query_pure _ q₁ hq]

/-- **queries do not alter anything obtained afterwards**: deleting all queries from a history — keeping every
    state-changing call, i.e. every heuristic run and every mutator — changes neither the problem data, nor the stored
    solution, nor the reply of any kept call (outcome of a heuristic run, return value / exception of a mutator), nor
    any reply to calls made later -/
theorem arc_queries_irrelevant (I : ArcInst) (ops later : List ArcFOp) :
    let f := ops.filter (fun op => op.isHeur || op.isMutator)
    ((ArcObj.init I).run ops).1.abs = ((ArcObj.init I).run f).1.abs ∧
    arcChangeReplies ops ((ArcObj.init I).run ops).2 = ((ArcObj.init I).run f).2 ∧
    (((ArcObj.init I).run ops).1.run later).2 = (((ArcObj.init I).run f).1.run later).2 := by
  show ((ArcObj.init I).run ops).1.abs = ((ArcObj.init I).run (ops.filter ArcFOp.isChange)).1.abs ∧
    arcChangeReplies ops ((ArcObj.init I).run ops).2 = ((ArcObj.init I).run (ops.filter ArcFOp.isChange)).2 ∧
    (((ArcObj.init I).run ops).1.run later).2 = (((ArcObj.init I).run (ops.filter ArcFOp.isChange)).1.run later).2
  obtain ⟨r1, a1, c1⟩ := arc_run_refines (arc_coherent_init I) ops
  obtain ⟨r2, a2, c2⟩ := arc_run_refines (arc_coherent_init I) (ops.filter ArcFOp.isChange)
  have h : ((ArcObj.init I).run ops).1.abs = ((ArcObj.init I).run (ops.filter ArcFOp.isChange)).1.abs := by
    rw [a1, a2]; exact arc_spec_run_filter _ ops
  refine ⟨h, ?_, ?_⟩
  · rw [r1, r2]; exact arc_spec_change_replies _ ops
  · rw [(arc_run_refines c1 later).1, (arc_run_refines c2 later).1, h]

/-- in particular the routes decoded from any solution vector and the index maps are the same -/
theorem arc_queries_irrelevant_decode (I : ArcInst) (ops : List ArcFOp) (x : List Rat) (u : ATup) (k : Nat) :
    let o₁ := ((ArcObj.init I).run ops).1
    let o₂ := ((ArcObj.init I).run (ops.filter (fun op => op.isHeur || op.isMutator))).1
    o₁.inst.decode x = o₂.inst.decode x ∧ o₁.inst.varIndex u = o₂.inst.varIndex u ∧
      o₁.inst.varTuple k = o₂.inst.varTuple k ∧ o₁.sol = o₂.sol := by
  intro o₁ o₂
  have h := (arc_queries_irrelevant I ops []).1
  have hi : o₁.inst = o₂.inst := congrArg ArcAbs.inst h
  have hs : o₁.sol = o₂.sol := congrArg ArcAbs.sol h
  rw [hi]
  exact ⟨rfl, rfl, rfl, hs⟩

/-! ### connection to `ArcInst.makeFeasible` -/

/-- when `make_feasible` on a coherent object with a NON-EMPTY time grid succeeds, the resulting problem data and stored
    solution are those of `ArcInst.makeFeasible`; and it raises iff that one fails (with the same error).

    Hypothesis `o.inst.T ≠ []`: the instance-level heuristic `ArcInst.makeFeasible` (`VrpModel/Heuristics.lean`) is
    documented as not covering the empty grid — it answers `.error .index` for every empty grid and carries no partial
    state.  The code, and the flag-level model, behave differently there: with an empty grid, `max_vehicles = 0` and no
    unvisited node they SUCCEED with the empty solution (`arc_connection_fails_on_empty_grid`), and with an unvisited
    node they raise `IndexError` only after the entry arc has been added (`arc_empty_grid_history`).  Refinement
    (`arc_refines`) covers the empty grid; only this connection does not. -/
theorem arc_makeFeasible_connection {o : ArcObj} (hc : o.Coherent) (hT : o.inst.T ≠ []) (high : Rat) :
    (∀ J sol, o.inst.makeFeasible high = .ok (J, sol) ↔
        ((o.makeFeasible high).2 = .ok () ∧ (o.makeFeasible high).1.inst = J ∧ (o.makeFeasible high).1.sol = some sol)) ∧
    (∀ e, o.inst.makeFeasible high = .error e ↔ (o.makeFeasible high).2 = .error e) := by
  obtain ⟨_, h2, h3⟩ := ArcObj.makeFeasible_spec hc high
  rw [arc_makeFeasible_eq_heurP _ hT]
  cases hr : (o.inst.heurP high).2 with
  | ok sol' =>
    rw [hr] at h3
    simp only [h3.1, h3.2, h2]
    constructor
    · intro J sol
      constructor
      · intro h
        simp only [Except.ok.injEq, Prod.mk.injEq] at h
        exact ⟨trivial, h.1, by rw [h.2]⟩
      · rintro ⟨_, h1, h2⟩
        rw [h1, Option.some.inj h2]
    · intro e
      simp
  | lookupFailed =>
    rw [hr] at h3
    simp only [h3.1, h3.2]
    constructor
    · intro J sol
      simp
    · intro e
      simp only [Except.error.injEq]
  | raised e' =>
    rw [hr] at h3
    simp only [h3.2]
    constructor
    · intro J sol
      simp
    · intro e
      simp only [Except.error.injEq]

/-- the same along any history that ends with a non-empty time grid: whatever was asked before, a heuristic call on the
    object behaves as `ArcInst.makeFeasible` on the current problem data -/
theorem arc_makeFeasible_connection_run (I : ArcInst) (ops : List ArcFOp) (high : Rat)
    (hT : ((ArcObj.init I).run ops).1.inst.T ≠ []) :
    let o := ((ArcObj.init I).run ops).1
    (∀ J sol, o.inst.makeFeasible high = .ok (J, sol) ↔
        ((o.makeFeasible high).2 = .ok () ∧ (o.makeFeasible high).1.inst = J ∧ (o.makeFeasible high).1.sol = some sol)) ∧
    (∀ e, o.inst.makeFeasible high = .error e ↔ (o.makeFeasible high).2 = .error e) :=
  arc_makeFeasible_connection (arc_run_refines (arc_coherent_init I) ops).2.2 hT high

/-! ### the explicit flag resets inside the arc heuristic after the introduction of the hook

Before the mutators called `_problem_changed()`, the two explicit reset sites of `make_feasible` (loop head,
`check_and_add_exit_arc`) were the only thing that kept the caches honest, and the variants V1b / V1c / V2 below
(a forgotten flag, a dropped loop-head reset) broke refinement (`v1b_not_refines`, `v1c_not_refines`,
`v2_not_refines` of the previous version of this file, proved by `decide` on `exHist`).  Now every change of the problem
data inside the heuristic goes through the public `add_arc`, which runs the hook first.  Consequently **those three
statements are no longer true**; what is true, and proved here, is the opposite: ANY harmless flag action at the two
sites (in particular the three variants) refines the specification on every history (`arc_runWith_refines`).  The
variants remain distinguishable from the code at flag level (`v2_flags_differ`), which is what the differential harness
compares. -/

/-- a reset that forgets `objective_built` -/
def resetVC (o : ArcObj) : ArcObj := { o with variablesEnumerated := false, constraintsBuilt := false }

theorem harmless_resetVC : ArcObj.Harmless resetVC :=
  ⟨fun _ => ⟨rfl, rfl⟩, fun _ hc => ⟨by simp [resetVC], hc.obj, by simp [resetVC]⟩⟩

theorem v1_dummyStep (t0 high : Rat) (o : ArcObj) (used : List ATup) (n : Nat) :
    ArcObj.dummyStep ArcObj.resetAll resetVC t0 high o used n
      = ArcObj.dummyStep ArcObj.resetAll ArcObj.resetAll t0 high o used n := rfl

theorem v1_dummyLoop (t0 high : Rat) (o : ArcObj) (used : List ATup) (l : List Nat) :
    ArcObj.dummyLoop ArcObj.resetAll resetVC t0 high o used l
      = ArcObj.dummyLoop ArcObj.resetAll ArcObj.resetAll t0 high o used l := by
  induction l generalizing o used with
  | nil => rfl
  | cons n rest ih =>
    unfold ArcObj.dummyLoop
    simp only [v1_dummyStep]
    cases (ArcObj.dummyStep ArcObj.resetAll ArcObj.resetAll t0 high o used n).2 with
    | error e => rfl
    | ok used' => exact ih _ _

/-- **V1 of the task is not a defect**: if `check_and_add_exit_arc` forgets to reset `objective_built`, `make_feasible`
    behaves exactly as the real code, on every object, flags included — the hook inside `add_arc` (and the loop head)
    has already unset the flag and nothing can set it again before the exit-arc site -/
theorem v1_equivalent (o : ArcObj) (high : Rat) :
    o.makeFeasibleWith ArcObj.resetAll resetVC high = o.makeFeasible high := by
  unfold ArcObj.makeFeasible ArcObj.makeFeasibleWith
  simp only [v1_dummyLoop]

def exNode (s : String) : Node := { name := s, demand := 0, lo := 0, hi := none }

/-- depot `D`, customer `A` on the route `D → A → D`, customer `B` without any arc: the heuristic has to add the
    entry arc `D → B` AND the exit arc `B → D` -/
def exInst1 : ArcInst :=
  { g := { nodes := [exNode "D", exNode "A", exNode "B"],
           arcs := [((0, 1), ⟨"D", "A", 1, 1⟩), ((1, 0), ⟨"A", "D", 1, 1⟩)] },
    T := [0, 1, 2] }

/-- as `exInst1`, but `B` already has its exit arc `B → D`: only the entry arc is added, the exit-arc site is passed
    without a reset -/
def exInst2 : ArcInst :=
  { g := { nodes := [exNode "D", exNode "A", exNode "B"],
           arcs := [((0, 1), ⟨"D", "A", 1, 1⟩), ((1, 0), ⟨"A", "D", 1, 1⟩), ((2, 0), ⟨"B", "D", 1, 1⟩)] },
    T := [0, 1, 2] }

def exHist : List ArcFOp := [.objective, .heur 100, .objective]

/-- **V1b** (`objective_built` forgotten at BOTH explicit reset sites).  RESTATED (was `v1b_not_refines`, which held
    while `add_arc` did not invalidate the caches): the variant now refines the specification on every history, because
    the entry arc is added through `add_arc`, whose hook unsets all three flags. -/
theorem v1b_refines (I : ArcInst) (ops : List ArcFOp) :
    ((ArcObj.init I).runWith resetVC resetVC ops).2 = (({ inst := I } : ArcAbs).specRun ops).2 :=
  (arc_runWith_refines harmless_resetVC harmless_resetVC (arc_coherent_init I) ops).1

/-- the former counterexample of V1b, evaluated: the replies now agree -/
theorem v1b_former_cex_agrees :
    ((ArcObj.init exInst1).runWith resetVC resetVC exHist).2 = (({ inst := exInst1 } : ArcAbs).specRun exHist).2 := by
  decide +kernel

/-- **V1c** (`objective_built` forgotten at the loop head only).  RESTATED (was `v1c_not_refines`): refines on every
    history, for the same reason. -/
theorem v1c_refines (I : ArcInst) (ops : List ArcFOp) :
    ((ArcObj.init I).runWith resetVC ArcObj.resetAll ops).2 = (({ inst := I } : ArcAbs).specRun ops).2 :=
  (arc_runWith_refines harmless_resetVC ArcObj.harmless_resetAll (arc_coherent_init I) ops).1

theorem v1c_former_cex_agrees :
    ((ArcObj.init exInst2).runWith resetVC ArcObj.resetAll exHist).2 = (({ inst := exInst2 } : ArcAbs).specRun exHist).2 := by
  decide +kernel

theorem v1c_unnoticed_on_exInst1 :
    ((ArcObj.init exInst1).runWith resetVC ArcObj.resetAll exHist).2 = (({ inst := exInst1 } : ArcAbs).specRun exHist).2 :=
  v1c_refines exInst1 exHist

/-- **V2** (the loop head resets nothing, only the exit-arc site resets).  RESTATED (was `v2_not_refines`: with the old
    `add_arc` the final `enumerate_variables()` was skipped and the heuristic raised): refines on every history — the
    entry arc's `add_arc` unsets `variables_enumerated`, so the final enumeration does run. -/
theorem v2_refines (I : ArcInst) (ops : List ArcFOp) :
    ((ArcObj.init I).runWith id ArcObj.resetAll ops).2 = (({ inst := I } : ArcAbs).specRun ops).2 :=
  (arc_runWith_refines ArcObj.harmless_id ArcObj.harmless_resetAll (arc_coherent_init I) ops).1

/-- even with NO explicit reset at all inside `make_feasible` the object refines the specification -/
theorem arc_no_explicit_reset_refines (I : ArcInst) (ops : List ArcFOp) :
    ((ArcObj.init I).runWith id id ops).2 = (({ inst := I } : ArcAbs).specRun ops).2 :=
  (arc_runWith_refines ArcObj.harmless_id ArcObj.harmless_id (arc_coherent_init I) ops).1

/-- what the V2 object answers on its former counterexample: the heuristic now succeeds, as in the specification -/
theorem v2_replies :
    (((ArcObj.init exInst2).runWith id ArcObj.resetAll exHist).2)[1]? = some .done ∧
    ((({ inst := exInst2 } : ArcAbs).specRun exHist).2)[1]? = some .done := by
  decide +kernel

theorem v2_unnoticed_without_query :
    ((ArcObj.init exInst2).runWith id ArcObj.resetAll [.heur 100, .objective]).2
      = (({ inst := exInst2 } : ArcAbs).specRun [.heur 100, .objective]).2 :=
  v2_refines exInst2 _

/-- depot `D` and customer `B`, joined by arcs that are too long for the time grid: the greedy phase cannot visit `B`,
    and the dummy-arc loop stops at `assert not self.check_arc((0, n))` — after the loop-head reset, before any
    `add_arc` -/
def exInst3 : ArcInst :=
  { g := { nodes := [exNode "D", exNode "B"],
           arcs := [((0, 1), ⟨"D", "B", 5, 1⟩), ((1, 0), ⟨"B", "D", 5, 1⟩)] },
    T := [0, 1, 2] }

/-- the model still tells V2 from the code at FLAG level (which the differential harness compares after every call):
    when the heuristic raises at the `assert` before its first `add_arc`, the code has unset the three flags, V2 has
    not.  (Not a refinement failure: the problem data did not change.) -/
theorem v2_flags_differ :
    let o₁ := ((ArcObj.init exInst3).run [.objective, .heur 100]).1
    let o₂ := ((ArcObj.init exInst3).runWith id ArcObj.resetAll [.objective, .heur 100]).1
    ((ArcObj.init exInst3).run [.objective, .heur 100]).2 = [.obj [] 0, .raised .assert] ∧
    (o₁.variablesEnumerated, o₁.objectiveBuilt, o₁.constraintsBuilt) = (false, false, false) ∧
    (o₂.variablesEnumerated, o₂.objectiveBuilt, o₂.constraintsBuilt) = (true, true, false) := by
  decide +kernel

/-! ### expressiveness: a mutator that forgets the hook -/

/-- DEFECTIVE variant: `add_time_points` without `self._problem_changed()` (the code before the repair) -/
def arcStepNoHookTP (o : ArcObj) : ArcFOp → ArcObj × ArcReply
  | .addTimePoints pts => (o.addTimePointsWith id pts, .done)
  | op => o.step op

def arcRunNoHookTP (o : ArcObj) : List ArcFOp → ArcObj × List ArcReply
  | [] => (o, [])
  | op :: rest =>
    let r := arcStepNoHookTP o op
    let q := arcRunNoHookTP r.1 rest
    (q.1, r.2 :: q.2)

def exHistTP : List ArcFOp := [.numVars, .addTimePoints [0, 1, 2, 3], .numVars]

/-- **query, mutator, query**: without the hook in `add_time_points` the variable count asked for before the grid was
    extended is served again afterwards — refinement fails -/
theorem arc_addTimePoints_nohook_not_refines :
    (arcRunNoHookTP (ArcObj.init exInst1) exHistTP).2 ≠ (({ inst := exInst1 } : ArcAbs).specRun exHistTP).2 := by
  decide +kernel

theorem arc_addTimePoints_nohook_replies :
    (arcRunNoHookTP (ArcObj.init exInst1) exHistTP).2 = [.num 6, .done, .num 6] ∧
    (({ inst := exInst1 } : ArcAbs).specRun exHistTP).2 = [.num 6, .done, .num 12] ∧
    ((ArcObj.init exInst1).run exHistTP).2 = [.num 6, .done, .num 12] := by
  decide +kernel

/-! ### the empty time grid

`make_feasible` reaches `self.time_points[0]` at two program points: at the top of the vehicle loop (skipped when
`estimate_max_vehicles() = 0`) and in the dummy-arc loop AFTER `self.add_arc(depot, node, 0, high_cost)`.  With an empty
grid and `max_vehicles = 0` the second one raises `IndexError` on an object that already holds the new entry arc; with no
unvisited node either, nothing raises and the empty all-zero solution is stored. -/

/-- two nodes `d`, `a`, no arcs (so `max_vehicles = 0`), depot `d`, EMPTY time grid -/
def exInstE : ArcInst :=
  { g := { nodes := [exNode "d", exNode "a"], arcs := [] }, T := [] }

/-- the audit's history `n; heur 100; tp [0]; n` on `exInstE` -/
def exHistE : List ArcFOp := [.numVars, .heur 100, .addTimePoints [0], .numVars]

/-- **replay of the audit's history on the model**: `get_num_variables()` → 0 and `variables_enumerated` is set;
    `make_feasible(100)` raises `IndexError`, and afterwards the problem HAS the entry arc `(0, 1)` and all three flags
    are unset; after `add_time_points([0])`, `get_num_variables()` → 1 (the tuple `(0, 0, 1, 0)` of the arc that the
    failed heuristic left behind) -/
theorem arc_empty_grid_history :
    let o₁ := ((ArcObj.init exInstE).run [.numVars]).1
    let o₂ := ((ArcObj.init exInstE).run [.numVars, .heur 100]).1
    ((ArcObj.init exInstE).run exHistE).2 = [.num 0, .raised .index, .done, .num 1] ∧
    (o₁.variablesEnumerated, o₁.objectiveBuilt, o₁.constraintsBuilt) = (true, false, false) ∧
    o₁.inst.g.arcs.map (·.1) = [] ∧
    o₂.inst.g.arcs.map (·.1) = [(0, 1)] ∧ o₂.inst.g.hasArc 0 1 = true ∧ o₂.inst.T = [] ∧ o₂.sol = none ∧
    (o₂.variablesEnumerated, o₂.objectiveBuilt, o₂.constraintsBuilt) = (false, false, false) := by
  decide +kernel

/-- the specification gives the same replies on that history, and ends in the same problem data (an instance of
    `arc_refines`, here by evaluation) -/
example :
    (({ inst := exInstE } : ArcAbs).specRun exHistE).2 = [.num 0, .raised .index, .done, .num 1] ∧
    ((({ inst := exInstE } : ArcAbs).specRun exHistE).1.inst.g.arcs.map (·.1)) = [(0, 1)] := by
  decide +kernel

/-- `max_vehicles ≥ 1` on an empty grid: `IndexError` at the top of the vehicle loop, nothing written — the flag set by
    the preceding query is still set and no arc has been added -/
example :
    let I : ArcInst := { g := { nodes := [exNode "d", exNode "a"],
                                arcs := [((0, 1), ⟨"d", "a", 1, 1⟩), ((1, 0), ⟨"a", "d", 1, 1⟩)] }, T := [] }
    let o := ((ArcObj.init I).run [.numVars, .heur 100]).1
    ((ArcObj.init I).run [.numVars, .heur 100]).2 = [.num 0, .raised .index] ∧
    o.variablesEnumerated = true ∧ o.inst.g.arcs.length = 2 := by
  decide +kernel

/-- only the depot, empty grid -/
def exInstE0 : ArcInst := { g := { nodes := [exNode "d"], arcs := [] }, T := [] }

/-- **why `arc_makeFeasible_connection` needs `o.inst.T ≠ []`**: with an empty grid, `max_vehicles = 0` and no unvisited
    node the object's `make_feasible` returns normally and stores the empty solution, whereas `ArcInst.makeFeasible`
    answers `.error .index` -/
theorem arc_connection_fails_on_empty_grid :
    ((ArcObj.init exInstE0).makeFeasible 100).2 = .ok () ∧ ((ArcObj.init exInstE0).makeFeasible 100).1.sol = some [] ∧
    exInstE0.makeFeasible 100 = .error .index :=
  ⟨by rfl, by decide +kernel, arc_makeFeasible_emptyGrid _ rfl _⟩

/-! ## sequence-based object

The statements are those of the arc object.  Unlike `C14.seq_refines` (coarse model, reset predicate derived from the
number of arcs) no hypothesis on the node names is needed: `_ensure_exit_arc` resets the flags whenever `add_arc`
returns `True`, also when the assignment overwrites an existing dictionary key. -/

theorem seq_abs_of_qpost {o o' : SeqObj} (h : SeqObj.QPost o o') : o'.abs = o.abs := by
  unfold SeqObj.abs
  rw [h.2.1, h.2.2]

/-- a forwarded mutator: same reply as the specification, abstraction commutes, and the object is coherent afterwards
    because the hook has unset every flag (also when the call raises) -/
theorem seq_mutate_refines (o : SeqObj) (m : GMut) :
    SeqReply.ofGOut (o.mutate m).2 = (o.abs.mutate m).2 ∧ (o.mutate m).1.abs = (o.abs.mutate m).1 ∧
      (o.mutate m).1.Coherent :=
  ⟨rfl, rfl, (SeqObj.mutate_spec o m).1.coherent⟩

/-- one call from a coherent state, with the loop-head reset of the code and ANY harmless flag action at the explicit
    reset site of `_ensure_exit_arc`: same reply as the specification, abstraction commutes, coherence preserved (every
    operation — queries, mutators including raising ones, and heuristic runs including raising ones) -/
theorem seq_stepWith_refines {exit : SeqObj → SeqObj} (hx : SeqObj.Harmless exit) {o : SeqObj} (hc : o.Coherent)
    (op : SeqFOp) :
    (o.stepWith SeqObj.resetAll exit op).2 = (o.abs.specStep op).2 ∧
      (o.stepWith SeqObj.resetAll exit op).1.abs = (o.abs.specStep op).1 ∧
      (o.stepWith SeqObj.resetAll exit op).1.Coherent := by
  cases op with
  | numVars =>
    have hs : o.stepWith SeqObj.resetAll exit .numVars = (o.getNumVariables.1, SeqReply.num o.getNumVariables.2) := rfl
    rw [hs, SeqObj.getNum_eq hc]
    exact ⟨rfl, seq_abs_of_qpost (SeqObj.qpost_E hc), SeqObj.coherent_E hc⟩
  | varIndex u =>
    have hs : o.stepWith SeqObj.resetAll exit (.varIndex u) = ((o.getVarIndex u).1, SeqReply.idx (o.getVarIndex u).2) := rfl
    rw [hs, SeqObj.getVarIndex_eq hc]
    exact ⟨rfl, seq_abs_of_qpost (SeqObj.qpost_E hc), SeqObj.coherent_E hc⟩
  | varTuple k =>
    have hs : o.stepWith SeqObj.resetAll exit (.varTuple k) = ((o.getVarTupleIndex k).1, SeqReply.tup (o.getVarTupleIndex k).2) := rfl
    rw [hs, SeqObj.getVarTupleIndex_eq hc]
    exact ⟨rfl, seq_abs_of_qpost (SeqObj.qpost_E hc), SeqObj.coherent_E hc⟩
  | objective =>
    obtain ⟨hq, hd⟩ := SeqObj.getObjectiveData_spec hc
    have hs : o.stepWith SeqObj.resetAll exit .objective = (o.getObjectiveData.1,
        SeqReply.obj o.getObjectiveData.2.1 o.getObjectiveData.2.2.1 o.getObjectiveData.2.2.2) := rfl
    rw [hs, hd]
    exact ⟨rfl, seq_abs_of_qpost hq, hq.1⟩
  | constraints =>
    obtain ⟨hq, hd⟩ := SeqObj.getConstraintData_spec hc
    have hs : o.stepWith SeqObj.resetAll exit .constraints = (o.getConstraintData.1, (match o.getConstraintData.2 with
          | .ok d => SeqReply.con d.1 d.2.1 d.2.2.1 d.2.2.2.1 d.2.2.2.2
          | .error e => SeqReply.raised e)) := rfl
    rw [hs, hd]
    refine ⟨?_, seq_abs_of_qpost hq, hq.1⟩
    show _ = (match o.inst.quadCons with | none => _ | some R => _)
    cases o.inst.quadCons with
    | none => rfl
    | some R => rfl
  | qubo feas rho? =>
    obtain ⟨hq, hd⟩ := SeqObj.getQubo_spec hc feas rho?
    have hs : o.stepWith SeqObj.resetAll exit (.qubo feas rho?) = ((o.getQubo feas rho?).1, (match (o.getQubo feas rho?).2 with
        | .ok q => SeqReply.qubo q | .error e => SeqReply.raised e)) := rfl
    rw [hs, hd]
    refine ⟨?_, seq_abs_of_qpost hq, hq.1⟩
    show _ = (match o.inst.data with | none => _ | some d => _)
    cases o.inst.data with
    | none => rfl
    | some d => rfl
  | decode x =>
    have hs : o.stepWith SeqObj.resetAll exit (.decode x) = ((o.getRoutes x).1, (match (o.getRoutes x).2 with
        | .ok rs => SeqReply.routesS rs | .error e => SeqReply.raised e)) := rfl
    rw [hs, SeqObj.getRoutes_eq hc]
    have hq : SeqObj.QPost o (if (selectedIdx x).isEmpty then o else o.E) := by
      split
      · exact SeqObj.QPost.refl hc
      · exact SeqObj.qpost_E hc
    exact ⟨rfl, seq_abs_of_qpost hq, hq.1⟩
  | heur high =>
    obtain ⟨h1, h2, h3⟩ := SeqObj.makeFeasibleWith_spec hx hc high
    have hs : o.stepWith SeqObj.resetAll exit (.heur high) = ((o.makeFeasibleWith SeqObj.resetAll exit high).1, (match (o.makeFeasibleWith SeqObj.resetAll exit high).2 with
        | .ok _ => SeqReply.done | .error e => SeqReply.raised e)) := rfl
    rw [hs]
    unfold SeqAbs.specStep
    simp only
    have ha : o.abs.inst = o.inst := rfl
    have hs : o.abs.sol = o.sol := rfl
    rw [ha, hs]
    cases hr : (o.inst.heurP high).2 with
    | ok sol =>
      rw [hr] at h3
      simp only [h3.2]
      exact ⟨trivial, by unfold SeqObj.abs; rw [h2, h3.1], h1⟩
    | lookupFailed =>
      rw [hr] at h3
      simp only [h3.2]
      exact ⟨trivial, by unfold SeqObj.abs; rw [h2, h3.1], h1⟩
    | raised e =>
      rw [hr] at h3
      simp only [h3.2]
      exact ⟨trivial, by unfold SeqObj.abs; rw [h2, h3.1], h1⟩
  | setMaxVehicles v => exact ⟨rfl, rfl, (SeqObj.setMaxVehicles_spec o v).1.coherent⟩
  | setMaxSeqLen l => exact ⟨rfl, rfl, (SeqObj.setMaxSeqLen_spec o l).1.coherent⟩
  | addArc og d t c => exact seq_mutate_refines o _
  | addNode nm dem lo hi => exact seq_mutate_refines o _
  | setDepot nm => exact seq_mutate_refines o _
  | setVehicleCap c => exact seq_mutate_refines o (.cap c)
  | setInitialLoading l => exact seq_mutate_refines o (.init l)

/-- one call on the real object from a coherent state -/
theorem seq_step_refines {o : SeqObj} (hc : o.Coherent) (op : SeqFOp) :
    (o.step op).2 = (o.abs.specStep op).2 ∧ (o.step op).1.abs = (o.abs.specStep op).1 ∧ (o.step op).1.Coherent :=
  seq_stepWith_refines SeqObj.harmless_resetAll hc op

/-- `coherent_init` -/
theorem seq_coherent_init (I : SeqInst) : (SeqObj.init I).Coherent := SeqObj.coherent_init I

/-- `step_coherent`: every operation preserves the coherence invariant -/
theorem seq_step_coherent {o : SeqObj} (hc : o.Coherent) (op : SeqFOp) : (o.step op).1.Coherent :=
  (seq_step_refines hc op).2.2

theorem seq_run_cons (o : SeqObj) (op : SeqFOp) (rest : List SeqFOp) :
    o.run (op :: rest) = (((o.step op).1.run rest).1, (o.step op).2 :: ((o.step op).1.run rest).2) := rfl

theorem seq_run_append (o : SeqObj) (a b : List SeqFOp) :
    o.run (a ++ b) = (((o.run a).1.run b).1, (o.run a).2 ++ ((o.run a).1.run b).2) := by
  induction a generalizing o with
  | nil => rfl
  | cons op rest ih =>
    rw [List.cons_append, seq_run_cons, ih, seq_run_cons]
    rfl

/-- refinement from an arbitrary coherent state, for any harmless flag action at the explicit reset site of
    `_ensure_exit_arc` -/
theorem seq_runWith_refines {exit : SeqObj → SeqObj} (hx : SeqObj.Harmless exit) {o : SeqObj} (hc : o.Coherent)
    (ops : List SeqFOp) :
    (o.runWith SeqObj.resetAll exit ops).2 = (o.abs.specRun ops).2 ∧
      (o.runWith SeqObj.resetAll exit ops).1.abs = (o.abs.specRun ops).1 ∧
      (o.runWith SeqObj.resetAll exit ops).1.Coherent := by
  induction ops generalizing o with
  | nil => exact ⟨rfl, rfl, hc⟩
  | cons op rest ih =>
    obtain ⟨h1, h2, h3⟩ := seq_stepWith_refines hx hc op
    obtain ⟨i1, i2, i3⟩ := ih h3
    unfold SeqObj.runWith SeqAbs.specRun
    simp only
    rw [← h2, ← h1, i1, i2]
    exact ⟨rfl, rfl, i3⟩

/-- refinement from an arbitrary coherent state -/
theorem seq_run_refines {o : SeqObj} (hc : o.Coherent) (ops : List SeqFOp) :
    (o.run ops).2 = (o.abs.specRun ops).2 ∧ (o.run ops).1.abs = (o.abs.specRun ops).1 ∧ (o.run ops).1.Coherent :=
  seq_runWith_refines SeqObj.harmless_resetAll hc ops

/-- **refinement**: for every history the object produces exactly the replies of the cache-free specification, and
    the final problem data and stored solution agree -/
theorem seq_refines (I : SeqInst) (ops : List SeqFOp) :
    ((SeqObj.init I).run ops).2 = (({ inst := I } : SeqAbs).specRun ops).2 ∧
    ((SeqObj.init I).run ops).1.abs = (({ inst := I } : SeqAbs).specRun ops).1 := by
  obtain ⟨h1, h2, _⟩ := seq_run_refines (seq_coherent_init I) ops
  exact ⟨h1, h2⟩

/-- in the specification a query (neither heuristic nor mutator) changes nothing -/
theorem seq_spec_query_pure (s : SeqAbs) (q : SeqFOp) (hq : q.isChange = false) : (s.specStep q).1 = s := by
  cases q <;> first | rfl | simp [SeqFOp.isChange, SeqFOp.isHeur, SeqFOp.isMutator, SeqFOp.gmut?] at hq

theorem seq_isChange_false {q : SeqFOp} (hq : q.isHeur = false) (hm : q.isMutator = false) : q.isChange = false := by
  unfold SeqFOp.isChange
  rw [hq, hm]
  rfl

/-- in the specification the final state only depends on the state-changing calls (heuristic runs and mutators) -/
theorem seq_spec_run_filter (s : SeqAbs) (ops : List SeqFOp) :
    (s.specRun ops).1 = (s.specRun (ops.filter SeqFOp.isChange)).1 := by
  induction ops generalizing s with
  | nil => rfl
  | cons op rest ih =>
    cases hq : op.isChange with
    | true =>
      rw [List.filter_cons_of_pos hq]
      simp only [SeqAbs.specRun]
      exact ih _
    | false =>
      rw [List.filter_cons_of_neg (by simp [hq])]
      simp only [SeqAbs.specRun]
      rw [seq_spec_query_pure s op hq]
      exact ih s

/-- replies given to the state-changing calls (heuristic runs and mutators) of a history -/
def seqChangeReplies (ops : List SeqFOp) (rs : List SeqReply) : List SeqReply :=
  ((ops.zip rs).filter fun e => e.1.isHeur || e.1.isMutator).map (·.2)

theorem seq_spec_change_replies (s : SeqAbs) (ops : List SeqFOp) :
    seqChangeReplies ops (s.specRun ops).2 = (s.specRun (ops.filter SeqFOp.isChange)).2 := by
  induction ops generalizing s with
  | nil => rfl
  | cons op rest ih =>
    have hp : ∀ (r : SeqReply) l, ((op, r) :: l).filter (fun e => e.1.isHeur || e.1.isMutator)
        = if op.isChange then (op, r) :: l.filter (fun e => e.1.isHeur || e.1.isMutator)
          else l.filter (fun e => e.1.isHeur || e.1.isMutator) := fun r l => by
      rw [List.filter_cons]
      rfl
    cases hq : op.isChange with
    | true =>
      rw [List.filter_cons_of_pos hq]
      simp only [SeqAbs.specRun, seqChangeReplies, List.zip_cons_cons, hp, hq, if_true, List.map_cons]
      exact congrArg _ (ih _)
    | false =>
      rw [List.filter_cons_of_neg (by simp [hq])]
      simp only [SeqAbs.specRun, seqChangeReplies, List.zip_cons_cons, hp, hq, Bool.false_eq_true, if_false]
      rw [seq_spec_query_pure s op hq]
      exact ih s

/-- **asking twice gives equal results**: after any history (queries, mutators, heuristic runs), repeating a query gives
    the same reply, and the query leaves the problem data and the stored solution as they were -/
theorem seq_query_idempotent (I : SeqInst) (ops : List SeqFOp) (q : SeqFOp) (hq : q.isHeur = false)
    (hm : q.isMutator = false) :
    let o := ((SeqObj.init I).run ops).1
    (o.step q).2 = ((o.step q).1.step q).2 ∧ (o.step q).1.abs = o.abs ∧ ((o.step q).1.step q).1.abs = o.abs := by
  intro o
  have hq := seq_isChange_false hq hm
  obtain ⟨_, _, hc⟩ := seq_run_refines (seq_coherent_init I) ops
  obtain ⟨h1, h2, h3⟩ := seq_step_refines hc q
  obtain ⟨k1, k2, _⟩ := seq_step_refines h3 q
  have e1 : (o.step q).1.abs = o.abs := by rw [h2, seq_spec_query_pure _ q hq]
  refine ⟨?_, e1, ?_⟩
  · rw [k1, e1, h1]
  · rw [k2, e1, seq_spec_query_pure _ q hq]

/-- any two queries commute as far as replies are concerned: the reply to `q₂` does not depend on whether `q₁` was
    asked before ("in any order") -/
theorem seq_query_order (I : SeqInst) (ops : List SeqFOp) (q₁ q₂ : SeqFOp) (hq : q₁.isHeur = false)
    (hm : q₁.isMutator = false) :
    let o := ((SeqObj.init I).run ops).1
    ((o.step q₁).1.step q₂).2 = (o.step q₂).2 := by
  intro o
  have hq := seq_isChange_false hq hm
  obtain ⟨_, _, hc⟩ := seq_run_refines (seq_coherent_init I) ops
  obtain ⟨_, h2, h3⟩ := seq_step_refines hc q₁
  rw [(seq_step_refines h3 q₂).1, (seq_step_refines hc q₂).1, h2, seq_spec_query_pure _ q₁ hq]

/-- **queries do not alter anything obtained afterwards**: deleting all queries from a history — keeping every
    state-changing call, i.e. every heuristic run and every mutator — changes neither the problem data, nor the stored
    solution, nor the reply of any kept call (outcome of a heuristic run, return value / exception of a mutator), nor
    any reply to calls made later -/
theorem seq_queries_irrelevant (I : SeqInst) (ops later : List SeqFOp) :
    let f := ops.filter (fun op => op.isHeur || op.isMutator)
    ((SeqObj.init I).run ops).1.abs = ((SeqObj.init I).run f).1.abs ∧
    seqChangeReplies ops ((SeqObj.init I).run ops).2 = ((SeqObj.init I).run f).2 ∧
    (((SeqObj.init I).run ops).1.run later).2 = (((SeqObj.init I).run f).1.run later).2 := by
  show ((SeqObj.init I).run ops).1.abs = ((SeqObj.init I).run (ops.filter SeqFOp.isChange)).1.abs ∧
    seqChangeReplies ops ((SeqObj.init I).run ops).2 = ((SeqObj.init I).run (ops.filter SeqFOp.isChange)).2 ∧
    (((SeqObj.init I).run ops).1.run later).2 = (((SeqObj.init I).run (ops.filter SeqFOp.isChange)).1.run later).2
  obtain ⟨r1, a1, c1⟩ := seq_run_refines (seq_coherent_init I) ops
  obtain ⟨r2, a2, c2⟩ := seq_run_refines (seq_coherent_init I) (ops.filter SeqFOp.isChange)
  have h : ((SeqObj.init I).run ops).1.abs = ((SeqObj.init I).run (ops.filter SeqFOp.isChange)).1.abs := by
    rw [a1, a2]; exact seq_spec_run_filter _ ops
  refine ⟨h, ?_, ?_⟩
  · rw [r1, r2]; exact seq_spec_change_replies _ ops
  · rw [(seq_run_refines c1 later).1, (seq_run_refines c2 later).1, h]

/-- in particular the routes decoded from any solution vector and the index maps are the same -/
theorem seq_queries_irrelevant_decode (I : SeqInst) (ops : List SeqFOp) (x : List Rat) (u : STup) (k : Nat) :
    let o₁ := ((SeqObj.init I).run ops).1
    let o₂ := ((SeqObj.init I).run (ops.filter (fun op => op.isHeur || op.isMutator))).1
    o₁.inst.decode x = o₂.inst.decode x ∧ o₁.inst.varIndex u = o₂.inst.varIndex u ∧
      o₁.inst.varTuple k = o₂.inst.varTuple k ∧ o₁.sol = o₂.sol := by
  intro o₁ o₂
  have h := (seq_queries_irrelevant I ops []).1
  have hi : o₁.inst = o₂.inst := congrArg SeqAbs.inst h
  have hs : o₁.sol = o₂.sol := congrArg SeqAbs.sol h
  rw [hi]
  exact ⟨rfl, rfl, rfl, hs⟩

/-! ### connection to `SeqInst.makeFeasible` -/

/-- when `make_feasible` on a coherent object succeeds, the resulting problem data and stored solution are those of
    `SeqInst.makeFeasible`; and it raises iff that one fails (with the same error) -/
theorem seq_makeFeasible_connection {o : SeqObj} (hc : o.Coherent) (high : Rat) :
    (∀ J sol, o.inst.makeFeasible high = .ok (J, sol) ↔
        ((o.makeFeasible high).2 = .ok () ∧ (o.makeFeasible high).1.inst = J ∧ (o.makeFeasible high).1.sol = some sol)) ∧
    (∀ e, o.inst.makeFeasible high = .error e ↔ (o.makeFeasible high).2 = .error e) := by
  obtain ⟨_, h2, h3⟩ := SeqObj.makeFeasible_spec hc high
  rw [seq_makeFeasible_eq_heurP]
  cases hr : (o.inst.heurP high).2 with
  | ok sol' =>
    rw [hr] at h3
    simp only [h3.1, h3.2, h2]
    constructor
    · intro J sol
      constructor
      · intro h
        simp only [Except.ok.injEq, Prod.mk.injEq] at h
        exact ⟨trivial, h.1, by rw [h.2]⟩
      · rintro ⟨_, h1, h2⟩
        rw [h1, Option.some.inj h2]
    · intro e
      simp
  | lookupFailed =>
    rw [hr] at h3
    simp only [h3.1, h3.2]
    constructor
    · intro J sol
      simp
    · intro e
      simp only [Except.error.injEq]
  | raised e' =>
    rw [hr] at h3
    simp only [h3.2]
    constructor
    · intro J sol
      simp
    · intro e
      simp only [Except.error.injEq]

/-- the same along any history: whatever was asked before, a heuristic call on the object behaves as
    `SeqInst.makeFeasible` on the current problem data -/
theorem seq_makeFeasible_connection_run (I : SeqInst) (ops : List SeqFOp) (high : Rat) :
    let o := ((SeqObj.init I).run ops).1
    (∀ J sol, o.inst.makeFeasible high = .ok (J, sol) ↔
        ((o.makeFeasible high).2 = .ok () ∧ (o.makeFeasible high).1.inst = J ∧ (o.makeFeasible high).1.sol = some sol)) ∧
    (∀ e, o.inst.makeFeasible high = .error e ↔ (o.makeFeasible high).2 = .error e) :=
  seq_makeFeasible_connection (seq_run_refines (seq_coherent_init I) ops).2.2 high


/-! ### the counterexample of the coarse model is an artifact of its reset predicate -/

/-- `C14.seq_not_refines` exhibits an instance with two nodes of the same name on which the COARSE cached object
    (`VrpModel/Cache.lean`, reset predicate "the number of arcs changed") disagrees with its specification.  The real
    `_ensure_exit_arc` resets the flags whenever `add_arc` returns `True`; at flag level the same instance and history
    refine (an instance of `seq_refines`, which needs no hypothesis on the names) -/
theorem seq_coarse_cex_refines :
    ((SeqObj.init C14.cexInst).run [.objective, .heur 100, .objective]).2
      = (({ inst := C14.cexInst } : SeqAbs).specRun [.objective, .heur 100, .objective]).2 :=
  (seq_refines C14.cexInst _).1

/-! ### the explicit flag resets inside the sequence heuristic after the introduction of the hook -/

/-- depot `D` (with its self-arc) and one customer `A` that can be entered but has no arc back -/
def exSeq : SeqInst :=
  { g := { nodes := [exNode "D", exNode "A"],
           arcs := [((0, 0), ⟨"D", "D", 0, 0⟩), ((0, 1), ⟨"D", "A", 1, 1⟩)] },
    strict := false, V := 1, L := 4, vcost := [0] }

theorem seq_resetAll_of_unset {o : SeqObj} (h : SeqObj.Unset o) : o.resetAll = o := by
  obtain ⟨h1, h2, h3, h4⟩ := h
  cases o
  simp_all [SeqObj.resetAll]

theorem seq_ensureExitArc_id (o : SeqObj) (cur : Nat) :
    o.ensureExitArc id cur = o.ensureExitArc SeqObj.resetAll cur := by
  unfold SeqObj.ensureExitArc
  simp only [id, seq_resetAll_of_unset (SeqObj.addArcIdx_spec o cur 0 0 0).1]

theorem seq_fill_id (v k p cur : Nat) (o : SeqObj) (unv : List Nat) (used : List STup) :
    SeqObj.fill id v k p cur o unv used = SeqObj.fill SeqObj.resetAll v k p cur o unv used := by
  induction k generalizing p cur unv used with
  | zero => unfold SeqObj.fill; rw [seq_ensureExitArc_id]
  | succ k ih =>
    unfold SeqObj.fill
    rw [seq_ensureExitArc_id]
    cases List.find? (fun n => o.inst.g.hasArc cur n) unv with
    | some n => exact ih _ _ _ _
    | none => rfl

theorem seq_vehLoop_id (vs : List Nat) (o : SeqObj) (unv : List Nat) (used : List STup) :
    SeqObj.vehLoop id vs o unv used = SeqObj.vehLoop SeqObj.resetAll vs o unv used := by
  induction vs generalizing o unv used with
  | nil => rfl
  | cons v vs ih =>
    unfold SeqObj.vehLoop
    rw [seq_fill_id]
    simp only [ih]

/-- **`_ensure_exit_arc` without its four flag resets.**  RESTATED (was `seq_exit_noreset_not_refines`, which held while
    `add_arc` did not invalidate the caches: on `exSeq` the variable count asked for before the heuristic was served
    again afterwards).  `_ensure_exit_arc` adds its arc through the public `add_arc`, whose hook has already unset the
    four flags, so the explicit reset after it is redundant: the variant is the code, on every object, flags included. -/
theorem seq_exit_noreset_equivalent (o : SeqObj) (high : Rat) :
    o.makeFeasibleWith SeqObj.resetAll id high = o.makeFeasible high := by
  unfold SeqObj.makeFeasible SeqObj.makeFeasibleWith
  simp only [seq_vehLoop_id]

/-- hence it refines the specification on every history -/
theorem seq_exit_noreset_refines (I : SeqInst) (ops : List SeqFOp) :
    ((SeqObj.init I).runWith SeqObj.resetAll id ops).2 = (({ inst := I } : SeqAbs).specRun ops).2 :=
  (seq_runWith_refines SeqObj.harmless_id (seq_coherent_init I) ops).1

/-- the former counterexample, evaluated: the second count is now the fresh one -/
theorem seq_exit_noreset_replies :
    ((SeqObj.init exSeq).runWith SeqObj.resetAll id [.numVars, .heur 10, .numVars]).2 = [.num 3, .done, .num 4] ∧
    (({ inst := exSeq } : SeqAbs).specRun [.numVars, .heur 10, .numVars]).2 = [.num 3, .done, .num 4] := by
  decide +kernel

/-! ### expressiveness: the loop-head reset of the sequence heuristic is still needed -/

/-- depot `D` and one customer `A` with both arcs present, but NO regular vehicle: `A` is left for the dummy-vehicle
    loop, which appends a vehicle (direct writes of `max_vehicles` / `vehicle_cost`, no hook) and finds both arcs in
    place, so no `add_arc` — hence no hook — is executed -/
def exSeq0 : SeqInst :=
  { g := { nodes := [exNode "D", exNode "A"],
           arcs := [((0, 0), ⟨"D", "D", 0, 0⟩), ((0, 1), ⟨"D", "A", 1, 1⟩), ((1, 0), ⟨"A", "D", 1, 1⟩)] },
    strict := false, V := 0, L := 4, vcost := [] }

/-- without the four resets at the head of the dummy-vehicle loop the variable count asked for before the heuristic is
    served again although a vehicle was added, the final `enumerate_variables()` is skipped, and the heuristic raises
    where the specification succeeds — refinement fails -/
theorem seq_head_noreset_not_refines :
    ((SeqObj.init exSeq0).runWith id SeqObj.resetAll [.numVars, .heur 10, .numVars]).2
      ≠ (({ inst := exSeq0 } : SeqAbs).specRun [.numVars, .heur 10, .numVars]).2 := by
  decide +kernel

theorem seq_head_noreset_replies :
    ((SeqObj.init exSeq0).runWith id SeqObj.resetAll [.numVars, .heur 10, .numVars]).2
      = [.num 0, .raised .value, .num 0] ∧
    (({ inst := exSeq0 } : SeqAbs).specRun [.numVars, .heur 10, .numVars]).2 = [.num 0, .done, .num 4] := by
  decide +kernel

/-! ### expressiveness: a mutator that forgets the hook -/

/-- DEFECTIVE variant: `set_max_vehicles` without `self._problem_changed()` (the code before the repair) -/
def seqStepNoHookV (o : SeqObj) : SeqFOp → SeqObj × SeqReply
  | .setMaxVehicles v => (o.setMaxVehiclesWith id v, .done)
  | op => o.step op

def seqRunNoHookV (o : SeqObj) : List SeqFOp → SeqObj × List SeqReply
  | [] => (o, [])
  | op :: rest =>
    let r := seqStepNoHookV o op
    let q := seqRunNoHookV r.1 rest
    (q.1, r.2 :: q.2)

def exHistV : List SeqFOp := [.numVars, .setMaxVehicles 2, .numVars]

/-- **query, mutator, query**: without the hook in `set_max_vehicles` the variable count asked for before the second
    vehicle was made available is served again afterwards — refinement fails -/
theorem seq_setMaxVehicles_nohook_not_refines :
    (seqRunNoHookV (SeqObj.init exSeq) exHistV).2 ≠ (({ inst := exSeq } : SeqAbs).specRun exHistV).2 := by
  decide +kernel

theorem seq_setMaxVehicles_nohook_replies :
    (seqRunNoHookV (SeqObj.init exSeq) exHistV).2 = [.num 3, .done, .num 3] ∧
    (({ inst := exSeq } : SeqAbs).specRun exHistV).2 = [.num 3, .done, .num 6] ∧
    ((SeqObj.init exSeq).run exHistV).2 = [.num 3, .done, .num 6] := by
  decide +kernel

/-! ## route decoding (`get_routes`) as an operation of the two machines

`get_routes(x)` looks every selected index up through `get_var_tuple_index` (which enumerates lazily and sets
`variables_enumerated`) and, in the sequence formulation, reads the dict `fixed_values` that `enumerate_variables`
rebuilds.  It is the operation `decode x` of `ArcFOp` / `SeqFOp` (a query), and the coherence invariant carries the
clause "`variablesEnumerated` ⇒ `o.fixedOnes = o.inst.fixedOnes`" (`SeqObj.Coherent.fixed`).  All theorems above
(`arc_refines`, `seq_refines`, `…_query_idempotent`, `…_query_order`, `…_queries_irrelevant`, …) quantify over the
enlarged operation types; the statements below spell out what they give for `decode`. -/

/-- `decode` is a query of both machines (so `arc_query_idempotent`, `arc_query_order`, `arc_queries_irrelevant` and
    their `seq_` twins apply to it) -/
theorem decode_isQuery (x : List Rat) :
    (ArcFOp.decode x).isHeur = false ∧ (ArcFOp.decode x).isMutator = false ∧
    (SeqFOp.decode x).isHeur = false ∧ (SeqFOp.decode x).isMutator = false := ⟨rfl, rfl, rfl, rfl⟩

/-- **arc `get_routes` refines**: for every object reachable from `init` by any call history, the reply of `decode x`
    is the reply the cache-free specification gives in its own state after the same history (corollary of
    `arc_run_refines`), and decoding leaves problem data and stored solution alone -/
theorem arc_decode_refines (I : ArcInst) (ops : List ArcFOp) (x : List Rat) :
    let o := ((ArcObj.init I).run ops).1
    let s := (({ inst := I } : ArcAbs).specRun ops).1
    (o.step (.decode x)).2 = (s.specStep (.decode x)).2 ∧ (o.step (.decode x)).1.abs = s := by
  intro o s
  obtain ⟨_, ha, hc⟩ := arc_run_refines (arc_coherent_init I) ops
  obtain ⟨h1, h2, _⟩ := arc_step_refines hc (.decode x)
  have ha' : o.abs = s := ha
  rw [ha'] at h1 h2
  exact ⟨h1, h2⟩

/-- **sequence `get_routes` refines**: for every object reachable from `init` by any call history, the reply of
    `decode x` is the reply the cache-free specification gives in its own state after the same history (corollary of
    `seq_run_refines`): in particular the `fixed_values` the object reads from its cache are the fresh ones -/
theorem seq_decode_refines (I : SeqInst) (ops : List SeqFOp) (x : List Rat) :
    let o := ((SeqObj.init I).run ops).1
    let s := (({ inst := I } : SeqAbs).specRun ops).1
    (o.step (.decode x)).2 = (s.specStep (.decode x)).2 ∧ (o.step (.decode x)).1.abs = s := by
  intro o s
  obtain ⟨_, ha, hc⟩ := seq_run_refines (seq_coherent_init I) ops
  obtain ⟨h1, h2, _⟩ := seq_step_refines hc (.decode x)
  have ha' : o.abs = s := ha
  rw [ha'] at h1 h2
  exact ⟨h1, h2⟩

/-- what the reply of `decode x` on a reachable object IS: the cache-free `ArcInst.getRoutes` of the current problem
    data -/
theorem arc_decode_reply (I : ArcInst) (ops : List ArcFOp) (x : List Rat) :
    let o := ((ArcObj.init I).run ops).1
    (o.step (.decode x)).2 = match o.inst.getRoutes x with | .ok rs => .routesA rs | .error e => .raised e := by
  intro o
  obtain ⟨_, _, hc⟩ := arc_run_refines (arc_coherent_init I) ops
  exact (arc_step_refines hc (.decode x)).1

/-- what the reply of `decode x` on a reachable object IS: the cache-free `SeqInst.getRoutes` of the current problem
    data -/
theorem seq_decode_reply (I : SeqInst) (ops : List SeqFOp) (x : List Rat) :
    let o := ((SeqObj.init I).run ops).1
    (o.step (.decode x)).2 = match o.inst.getRoutes x with | .ok rs => .routesS rs | .error e => .raised e := by
  intro o
  obtain ⟨_, _, hc⟩ := seq_run_refines (seq_coherent_init I) ops
  exact (seq_step_refines hc (.decode x)).1

/-- **connection to the instance-level arc decoder** (`ArcInst.decode` / `ArcInst.decodeAsserts`, `VrpModel/ArcBased.lean`,
    the functions the route theorems are about): on a reachable object, when every selected index is a variable index
    of the CURRENT problem, `decode x` returns `ArcInst.decode` of the current problem data if the assertions of
    `get_routes` hold and raises `AssertionError` otherwise.  The empty selection is included (no hypothesis
    `selectedIdx x ≠ []`): then `ArcInst.decode x = []` and the visit assertion alone decides. -/
theorem arc_decode_inst (I : ArcInst) (ops : List ArcFOp) (x : List Rat) :
    let o := ((ArcObj.init I).run ops).1
    (∀ k ∈ selectedIdx x, k < o.inst.vars.length) →
    (o.step (.decode x)).2 = if o.inst.decodeAsserts x then .routesA (o.inst.decode x) else .raised .assert := by
  intro o hr
  rw [arc_decode_reply I ops x, ArcInst.getRoutes_eq_decode o.inst x hr]
  cases o.inst.decodeAsserts x with
  | true => rfl
  | false => rfl

/-- **connection to the instance-level sequence decoder** (`SeqInst.decode`, `VrpModel/SeqBased.lean`, the function the
    C07 theorems are about): on a reachable object, when at least one index is selected and every selected index is a
    variable index of the CURRENT problem, `decode x` answers as `SeqInst.decode` of the current problem data -/
theorem seq_decode_inst (I : SeqInst) (ops : List SeqFOp) (x : List Rat) :
    let o := ((SeqObj.init I).run ops).1
    selectedIdx x ≠ [] → (∀ k ∈ selectedIdx x, k < o.inst.vars.length) →
    (o.step (.decode x)).2 = match o.inst.decode x with | .ok r => .routesS r | .error e => .raised e := by
  intro o hne hr
  rw [seq_decode_reply I ops x, SeqInst.getRoutes_eq_decode o.inst x hne hr]

/-- nothing selected: no lookup happens in either formulation — the object (flags and caches included) is exactly as it
    was.  The sequence object returns `[]`; the arc object has no route and its final visit assertion decides: `[]` when
    the problem has no customer, `AssertionError` otherwise (`arcAssertsTuples_nil`). -/
theorem decode_nothing_selected (x : List Rat) (hx : selectedIdx x = []) (oa : ArcObj) (os : SeqObj) :
    oa.step (.decode x) = (oa, if arcAssertsTuples oa.inst.g [] then .routesA [] else .raised .assert) ∧
    os.step (.decode x) = (os, .routesS []) := by
  have ha : oa.getRoutes x = (oa, if arcAssertsTuples oa.inst.g [] then .ok [] else .error .assert) := by
    unfold ArcObj.getRoutes; simp [hx]
  have hs : os.getRoutes x = (os, .ok []) := by unfold SeqObj.getRoutes; simp [hx]
  constructor
  · show ((oa.getRoutes x).1, (match (oa.getRoutes x).2 with
        | .ok rs => ArcReply.routesA rs | .error e => ArcReply.raised e)) = _
    rw [ha]
    cases arcAssertsTuples oa.inst.g [] with
    | true => rfl
    | false => rfl
  · show ((os.getRoutes x).1, (match (os.getRoutes x).2 with
        | .ok rs => SeqReply.routesS rs | .error e => SeqReply.raised e)) = _
    rw [hs]

/-- the visit assertion on the empty selection holds exactly when the problem has no customer -/
theorem arcAssertsTuples_nil (g : Graph) : arcAssertsTuples g [] = decide (g.nodes.length ≤ 1) := by
  unfold arcAssertsTuples
  cases h : g.nodes.length - 1 with
  | zero =>
    have : g.nodes.length ≤ 1 := by omega
    simp [this]
  | succ n =>
    have : ¬ g.nodes.length ≤ 1 := by omega
    simp [this, List.range_succ_eq_map]

/-- something selected: afterwards `variables_enumerated` is set (also when the decoding raises) -/
theorem decode_enumerates (x : List Rat) (hx : selectedIdx x ≠ []) (oa : ArcObj) (os : SeqObj) :
    (oa.step (.decode x)).1.variablesEnumerated = true ∧ (os.step (.decode x)).1.variablesEnumerated = true := by
  have hemp : (selectedIdx x).isEmpty = false := by
    cases h : selectedIdx x with
    | nil => exact absurd h hx
    | cons a l => rfl
  constructor
  · show (oa.getRoutes x).1.variablesEnumerated = true
    unfold ArcObj.getRoutes ArcObj.enumerateVariables
    simp only [hemp, Bool.false_eq_true, if_false]
    cases h : oa.variablesEnumerated with
    | true => simp [h]
    | false => simp
  · show (os.getRoutes x).1.variablesEnumerated = true
    unfold SeqObj.getRoutes SeqObj.enumerateVariables
    simp only [hemp, Bool.false_eq_true, if_false]
    cases h : os.variablesEnumerated with
    | true => simp [h]
    | false => simp

/-! ### expressiveness: reading `fixed_values` before the lookups -/

/-- depot `D` (with its self-arc) and one customer `A` with both arcs, one vehicle, four positions: the free variables
    are `(0,1,0) (0,1,1) (0,2,0) (0,2,1)`, the tuples fixed to 1 are `(0,0,0)` and `(0,3,0)` -/
def exSeqD : SeqInst :=
  { g := { nodes := [exNode "D", exNode "A"],
           arcs := [((0, 0), ⟨"D", "D", 0, 0⟩), ((0, 1), ⟨"D", "A", 1, 1⟩), ((1, 0), ⟨"A", "D", 1, 1⟩)] },
    strict := false, V := 1, L := 4, vcost := [0] }

/-- DEFECTIVE variant of the sequence `get_routes`: the tuples fixed to 1 are taken from `fixed_values` BEFORE the
    first `get_var_tuple_index` (i.e. from the incoming object `o` instead of the enumerated `o1`) -/
def seqGetRoutesStale (o : SeqObj) (x : List Rat) : SeqObj × SeqReply :=
  let sel := selectedIdx x
  if sel.isEmpty then (o, .routesS [])
  else
    let fixed := o.fixedOnes
    let o1 := o.enumerateVariables
    (o1, match seqRoutesFrom o1.inst.g o1.inst.V o1.inst.L o1.varMapping fixed sel with
         | .ok rs => .routesS rs
         | .error e => .raised e)

/-- **a decoder that reads `fixed_values` before enumerating is unsound**: on the fresh object (nothing enumerated yet,
    `fixed_values` empty) it raises `IndexError`, after a size query it returns the route — the reply depends on
    whether a query was made before.  The modelled `get_routes` answers `[[0, 1, 0, 0]]` both times. -/
theorem seq_decode_stale_unsound :
    let o := SeqObj.init exSeqD
    (seqGetRoutesStale o [0, 1, 1, 0]).2 ≠ (seqGetRoutesStale (o.step .numVars).1 [0, 1, 1, 0]).2 ∧
    (seqGetRoutesStale o [0, 1, 1, 0]).2 = .raised .index ∧
    (seqGetRoutesStale (o.step .numVars).1 [0, 1, 1, 0]).2 = .routesS [[0, 1, 0, 0]] ∧
    (o.step (.decode [0, 1, 1, 0])).2 = .routesS [[0, 1, 0, 0]] ∧
    ((o.step .numVars).1.step (.decode [0, 1, 1, 0])).2 = .routesS [[0, 1, 0, 0]] := by
  decide +kernel

/-! ### non-vacuity: `decode` evaluated -/

/-- sequence object, decoding as the FIRST call: the lookups enumerate, the cached `fixed_values` are filled before
    they are read; the flag is set afterwards -/
example :
    ((SeqObj.init exSeqD).run [.decode [0, 1, 1, 0]]).2 = [.routesS [[0, 1, 0, 0]]] ∧
    ((SeqObj.init exSeqD).run [.decode [0, 1, 1, 0]]).1.variablesEnumerated = true ∧
    ((SeqObj.init exSeqD).run [.decode [0, 1, 1, 0]]).1.fixedOnes = [(0, 0, 0), (0, 3, 0)] := by
  decide +kernel

/-- sequence object, decoding right after a reconfiguration that follows a size query: `set_max_sequence_length(5)`
    unsets the flag, so `var_mapping` (now six variables) and `fixed_values` (now `(0,0,0)`, `(0,4,0)`) are rebuilt; the
    old four-entry vector now leaves position 3 empty and `pop(0)` raises; an index beyond the variables raises
    `TypeError`; the empty selection returns `[]` without touching the flag -/
example :
    ((SeqObj.init exSeqD).run [.numVars, .setMaxSeqLen 5, .decode [0, 1, 1, 0, 1, 0], .decode [0, 1, 1, 0],
        .decode [0, 0, 0, 0, 0, 0, 1], .numVars]).2
      = [.num 4, .done, .routesS [[0, 1, 0, 0, 0]], .raised .index, .raised .type, .num 6] ∧
    ((SeqObj.init exSeqD).run [.numVars, .setMaxSeqLen 5, .decode [0, 0]]).2 = [.num 4, .done, .routesS []] ∧
    ((SeqObj.init exSeqD).run [.numVars, .setMaxSeqLen 5, .decode [0, 0]]).1.variablesEnumerated = false ∧
    ((SeqObj.init exSeqD).run [.numVars, .setMaxSeqLen 5, .decode [0, 1, 1, 0, 1, 0]]).1.fixedOnes
      = [(0, 0, 0), (0, 4, 0)] := by
  decide +kernel

/-- the specification gives the same replies (an instance of `seq_refines`, here by evaluation) -/
example :
    (({ inst := exSeqD } : SeqAbs).specRun [.numVars, .setMaxSeqLen 5, .decode [0, 1, 1, 0, 1, 0], .decode [0, 1, 1, 0],
        .decode [0, 0, 0, 0, 0, 0, 1], .numVars]).2
      = [.num 4, .done, .routesS [[0, 1, 0, 0, 0]], .raised .index, .raised .type, .num 6] := by
  decide +kernel

/-- depot `D`, customer `A`, arcs `D → A → D` of duration 1, grid `0, 1, 2`: six variables
    `(0,0,1,1) (0,0,1,2) (0,1,1,2) (1,0,0,1) (1,0,0,2) (1,1,0,2)` -/
def exArcD : ArcInst :=
  { g := { nodes := [exNode "D", exNode "A"],
           arcs := [((0, 1), ⟨"D", "A", 1, 1⟩), ((1, 0), ⟨"A", "D", 1, 1⟩)] },
    T := [0, 1, 2] }

/-- arc object, decoding as the FIRST call; the empty selection makes no lookup (flag still unset) and, `A` being
    unvisited, fails the visit assertion; an index beyond the variables raises `TypeError` after the enumeration; two
    arrivals at `A` violate the visit assertion -/
example :
    ((ArcObj.init exArcD).run [.decode [1, 0, 0, 0, 0, 1]]).2 = [.routesA [[(0, 0), (1, 1), (0, 2)]]] ∧
    ((ArcObj.init exArcD).run [.decode [1, 0, 0, 0, 0, 1]]).1.variablesEnumerated = true ∧
    ((ArcObj.init exArcD).run [.decode [0, 0]]).2 = [.raised .assert] ∧
    ((ArcObj.init exArcD).run [.decode [0, 0]]).1.variablesEnumerated = false ∧
    ((ArcObj.init exArcD).run [.decode [0, 0, 0, 0, 0, 0, 1]]).2 = [.raised .type] ∧
    ((ArcObj.init exArcD).run [.decode [0, 0, 0, 0, 0, 0, 1]]).1.variablesEnumerated = true ∧
    ((ArcObj.init exArcD).run [.decode [1, 1, 0, 0, 0, 1]]).2 = [.raised .assert] := by
  decide +kernel

/-- empty selection on a DEPOT-ONLY arc problem (`exInstE0`: one node, no arc): no route, the visit assertion is
    vacuous — `get_routes` returns `[]`, nothing is enumerated; the specification agrees -/
example :
    ((ArcObj.init exInstE0).run [.decode []]).2 = [.routesA []] ∧
    ((ArcObj.init exInstE0).run [.decode [0, 0]]).2 = [.routesA []] ∧
    ((ArcObj.init exInstE0).run [.decode []]).1.variablesEnumerated = false ∧
    (({ inst := exInstE0 } : ArcAbs).specRun [.decode []]).2 = [.routesA []] := by
  decide +kernel

/-- empty selection on an arc problem WITH a customer (`exArcD`): no route, customer `A` is not visited —
    `AssertionError`, nothing is enumerated (also after a size query and a reconfiguration); the specification agrees -/
example :
    ((ArcObj.init exArcD).run [.decode []]).2 = [.raised .assert] ∧
    ((ArcObj.init exArcD).run [.decode []]).1.variablesEnumerated = false ∧
    ((ArcObj.init exArcD).run [.numVars, .addTimePoints [0, 1, 2, 3], .decode []]).2 = [.num 6, .done, .raised .assert] ∧
    ((ArcObj.init exArcD).run [.numVars, .addTimePoints [0, 1, 2, 3], .decode []]).1.variablesEnumerated = false ∧
    (({ inst := exArcD } : ArcAbs).specRun [.decode []]).2 = [.raised .assert] := by
  decide +kernel

/-- arc object, decoding right after a reconfiguration that follows a size query: `add_time_points` unsets the flag,
    the twelve variables of the longer grid are enumerated afresh; the old six-entry vector now selects
    `(0,0,1,1)` and `(0,2,1,3)` — two arrivals at `A` — and the visit assertion fails -/
example :
    ((ArcObj.init exArcD).run [.numVars, .addTimePoints [0, 1, 2, 3], .decode [1, 0, 0, 0, 0, 0, 0, 0, 0, 1, 0, 0],
        .decode [1, 0, 0, 0, 0, 1], .numVars]).2
      = [.num 6, .done, .routesA [[(0, 0), (1, 1), (0, 2)]], .raised .assert, .num 12] ∧
    (({ inst := exArcD } : ArcAbs).specRun [.numVars, .addTimePoints [0, 1, 2, 3],
        .decode [1, 0, 0, 0, 0, 0, 0, 0, 0, 1, 0, 0], .decode [1, 0, 0, 0, 0, 1], .numVars]).2
      = [.num 6, .done, .routesA [[(0, 0), (1, 1), (0, 2)]], .raised .assert, .num 12] := by
  decide +kernel

/-- the hypotheses of `seq_decode_inst` / `arc_decode_inst` are satisfiable, and both sides are a proper route -/
example :
    selectedIdx [0, 1, 1, 0] = [1, 2] ∧ exSeqD.vars.length = 4 ∧ exSeqD.decode [0, 1, 1, 0] = .ok [[0, 1, 0, 0]] ∧
    selectedIdx [1, 0, 0, 0, 0, 1] = [0, 5] ∧ exArcD.vars.length = 6 ∧ exArcD.decodeAsserts [1, 0, 0, 0, 0, 1] = true ∧
    exArcD.decode [1, 0, 0, 0, 0, 1] = [[(0, 0), (1, 1), (0, 2)]] := by
  decide +kernel

end Vrp.C14c
