import VrpModel.PathFlags
import VrpProofs.Props.C06d
import VrpProofs.Props.C09c

/-!
# C14d — the path-based formulation object: queries are pure (operation-level machine `PathObj`)

`Props/C14c.lean` proves property C14 for the arc- and the sequence-based objects on their flag-level machines.  This
file treats the third formulation object, `PathBasedRoutingProblem` (`VrpModel/PathFlags.lean`: `PathObj`, operations
`PathFOp`, `PathObj.step`, `PathObj.run`).  The object keeps no cache, so there is nothing to refine: the content is

* `path_query_pure`, `path_query_step`: a query (`numVars`, `objective`, `constraints`, `qubo`, `decode`, `checkRoute`)
  returns the object unchanged; its reply is `o.answer op`, a function of the state;
* `path_query_idempotent`, `path_query_order`: asking twice / in any order gives equal results;
* `path_queries_irrelevant` (and `…_state`, `path_queries_only`): deleting all queries from a history — keeping every
  `add_route`, `make_feasible` and mutator — changes neither the object reached, nor the reply of a kept call, nor any
  later reply;
* the connection of the object's `make_feasible` to the instance-level heuristic of C09: `PathInst.makeFeasibleP`
  (state-returning, side effects in program order, vehicle data as they are) agrees with `PathInst.makeFeasible`
  (`makeFeasibleP_of_ok`: same instance and solution whenever that one returns; `makeFeasibleP_of_error`: same error
  whenever that one fails and capacity and initial loading are set; `makeFeasible_of_P_ok`: the converse);
  `path_heur_connection`, `path_heur_of_makeFeasible`, `path_heur_of_makeFeasible_error` lift this to the object and
  `path_heur_sound` is the C09 soundness theorem on the object (the stored vector satisfies the constraints the object
  reports next);
* capacity or initial loading unset: `PathInst.makeFeasible` answers `.error .type` up front, the code is lazy.
  `makeFeasibleP_unset` / `path_heur_unset`: the code raises too as soon as there is a customer
  (`makeFeasibleP_unset_raises`), possibly AFTER it has added a dummy node (example `nvO3`); on a problem without
  customers whose greedy phase reaches no load arithmetic it returns normally with the all-zero vector (example `nvO4`:
  the one place where `PathInst.makeFeasible` and the code differ — which is why `makeFeasibleP_of_error` and
  `path_heur_connection` assume the vehicle data set);
* non-vacuity by evaluation: queries before and after a successful run (`nvO`), a raising run with its partial state
  and the queries answering from it (`nvO2`, `nvO3`), mutators that do not revalidate the pool.
-/
namespace Vrp.C14d
open Vrp

/-! ## `makeFeasibleP` (state-returning, lazy in the vehicle data) against `PathInst.makeFeasible` -/

theorem routeCandsO_set (g : Graph) (cap : ℚ) (cur : ℕ) (time load : ℚ) (unv : List ℕ) :
    routeCandsO g (some cap) cur time (some load) unv = .ok (routeCands g cap cur time load unv) := by
  induction unv with
  | nil => rfl
  | cons n rest ih =>
    unfold routeCandsO
    rw [C06.checkArcO_set, ih]
    simp only [routeCands, List.filter_cons]

theorem genRouteO_set (g : Graph) (cap : ℚ) (pick : ℕ → List ℕ → ℕ) :
    ∀ (legs cur x : ℕ) (time load : ℚ) (unv r : List ℕ) (c : ℕ),
      genRouteO g (some cap) pick legs cur time (some load) unv r c =
        .ok (genRoute g cap pick legs cur x time load unv r c) := by
  intro legs
  induction legs with
  | zero => intros; rfl
  | succ legs ih =>
    intro cur x time load unv r c
    unfold genRouteO genRoute
    rw [routeCandsO_set]
    simp only [C06.checkArcO_set]
    cases checkArc g cap time load cur (pick c (routeCands g cap cur time load unv)) with
    | none => split_ifs <;> rfl
    | some p =>
      obtain ⟨t, l⟩ := p
      simp only
      split_ifs <;> first | rfl | exact ih _ _ _ _ _ _ _

theorem addRoute_g (P : PathInst) (route : List Stop) : (P.addRoute route).1.g = P.g := by
  unfold PathInst.addRoute
  split
  · rfl
  · dsimp only
    split_ifs <;> rfl

theorem addRouteO_g (P : PathInst) (route : List Stop) : (P.addRouteO route).1.g = P.g := by
  unfold PathInst.addRouteO
  split
  · rfl
  · dsimp only
    split_ifs <;> rfl

/-- with the vehicle data set, `add_route` on a list of indices does not raise -/
theorem addRoute_idx_ne_error (P : PathInst) (cap init : ℚ) (hc : P.g.cap = some cap) (hi : P.g.init = some init)
    (r : List ℕ) (e : Err) : (P.addRoute (r.map Stop.idx)).2 ≠ .error e := by
  obtain ⟨rc, h, _⟩ := C06.checkRoute_idx_iff_valid P.g cap init hc hi r
  unfold PathInst.addRoute
  rw [h]
  simp only
  split_ifs <;> simp

/-- the greedy phase: with the vehicle data set, `greedyLoopP` never raises and computes the fold of
    `PathInst.addRoutesBetter` -/
theorem greedyLoopP_set (cap init : ℚ) (pick : ℕ → List ℕ → ℕ) :
    ∀ (l : List ℕ) (Q : PathInst) (unv : List ℕ) (routes : List (List ℕ)) (c : ℕ),
      Q.g.cap = some cap → Q.g.init = some init →
      PathInst.greedyLoopP pick l.length Q unv routes c =
        ((l.foldl (fun s _ => C09.greedyStep cap init pick s) (Q, unv, routes, c)).1,
          .ok ((l.foldl (fun s _ => C09.greedyStep cap init pick s) (Q, unv, routes, c)).2.1,
            (l.foldl (fun s _ => C09.greedyStep cap init pick s) (Q, unv, routes, c)).2.2.1,
            (l.foldl (fun s _ => C09.greedyStep cap init pick s) (Q, unv, routes, c)).2.2.2)) := by
  intro l
  induction l with
  | nil => intros; rfl
  | cons a l ih =>
    intro Q unv routes c hc hi
    rw [List.length_cons, List.foldl_cons]
    unfold PathInst.greedyLoopP
    rw [hc, hi, genRouteO_set Q.g cap pick _ _ 0]
    simp only
    rw [C06.addRouteO_eq_of_set Q _ cap init hc hi]
    have hstep : C09.greedyStep cap init pick (Q, unv, routes, c) =
        (match (Q.addRoute ((genRoute Q.g cap pick (2 + Q.g.nodes.length) 0 0 (Q.g.lo 0) init unv [0] c).1.map
            Stop.idx)).2 with
          | .ok (true, _) =>
            ((Q.addRoute ((genRoute Q.g cap pick (2 + Q.g.nodes.length) 0 0 (Q.g.lo 0) init unv [0] c).1.map
                Stop.idx)).1,
              unv.filter (fun n => n = 0 ∨
                n ∉ (genRoute Q.g cap pick (2 + Q.g.nodes.length) 0 0 (Q.g.lo 0) init unv [0] c).1),
              routes ++ [(genRoute Q.g cap pick (2 + Q.g.nodes.length) 0 0 (Q.g.lo 0) init unv [0] c).1],
              (genRoute Q.g cap pick (2 + Q.g.nodes.length) 0 0 (Q.g.lo 0) init unv [0] c).2)
          | _ => (Q, unv, routes,
              (genRoute Q.g cap pick (2 + Q.g.nodes.length) 0 0 (Q.g.lo 0) init unv [0] c).2)) := rfl
    rw [hstep]
    cases hr : (Q.addRoute ((genRoute Q.g cap pick (2 + Q.g.nodes.length) 0 0 (Q.g.lo 0) init unv [0] c).1.map
        Stop.idx)).2 with
    | error e => exact absurd hr (addRoute_idx_ne_error Q cap init hc hi _ e)
    | ok p =>
      obtain ⟨f, ad⟩ := p
      cases f with
      | true =>
        simp only
        exact ih _ _ _ _ (by rw [addRoute_g]; exact hc) (by rw [addRoute_g]; exact hi)
      | false =>
        simp only
        exact ih _ _ _ _ hc hi

/-! ### the dummy-node loop -/

theorem dummyLoadO_set (cap init d : ℚ) : dummyLoadO (some cap) (init - d) = .ok (C09.dummyLoad cap init d) := by
  unfold dummyLoadO C09.dummyLoad
  dsimp only
  split_ifs <;> rfl

theorem gstep_addArc_fst (g : Graph) (o d : String) (t c : ℚ) :
    (gstep .base g (.addArc o d t c)).1 = gAddArc g o d t c := rfl

theorem gstep_addNode (g : Graph) (nm : String) (d lo : ℚ) (hi : ERat) :
    gstep .base g (.addNode nm d lo hi) = addNodeStep g nm d lo hi := rfl

theorem addNodeStep_cap (g : Graph) (nm : String) (d lo : ℚ) (hi : ERat) :
    (addNodeStep g nm d lo hi).1.cap = g.cap ∧ (addNodeStep g nm d lo hi).1.init = g.init := by
  unfold addNodeStep
  split_ifs <;> exact ⟨rfl, rfl⟩

/-- the graph after the (up to) three `add_arc` calls of one dummy iteration -/
def g4Of (high : ℚ) (g1 : Graph) (nm : String) (u : ℕ) : Graph :=
  let g2 := gAddArc g1 (nameOf g1 0) nm 0 high
  let g3 := gAddArc g2 nm (nameOf g2 u) 0 high
  if g3.hasArc u 0 then g3 else gAddArc g3 (nameOf g3 u) (nameOf g3 0) 0 0

theorem g4Of_cap (high : ℚ) (g1 : Graph) (nm : String) (u : ℕ) :
    (g4Of high g1 nm u).cap = g1.cap ∧ (g4Of high g1 nm u).init = g1.init := by
  unfold g4Of
  dsimp only
  split_ifs <;> simp only [gAddArc_cap, gAddArc_init, and_self]

/-- `dummyStepP` in named pieces -/
theorem dummyStepP_eq (high : ℚ) (Q : PathInst) (routes : List (List ℕ)) (u : ℕ) :
    Q.dummyStepP high routes u =
      match Q.g.init with
      | none => (Q, .error .type)
      | some init =>
        match dummyLoadO Q.g.cap (init - Q.g.demand u) with
        | .error e => (Q, .error e)
        | .ok newLoad =>
          match (addNodeStep Q.g (C09.dummyName Q.g u) (-newLoad) (Q.g.lo 0) none).2 with
          | .error e => (Q, .error e)
          | .ok _ =>
            let g1 := (addNodeStep Q.g (C09.dummyName Q.g u) (-newLoad) (Q.g.lo 0) none).1
            let x := ({ Q with g := g4Of high g1 (C09.dummyName Q.g u) u } : PathInst).addRouteO
              ([0, g1.nodes.length - 1, u, 0].map Stop.idx)
            match x.2 with
            | .error e => (x.1, .error e)
            | .ok (true, _) => (x.1, .ok (routes ++ [[0, g1.nodes.length - 1, u, 0]]))
            | .ok (false, _) => (x.1, .error .assert) := rfl

/-- the vehicle data survive an iteration of the dummy loop, whatever its outcome -/
theorem dummyStepP_cap (high : ℚ) (Q : PathInst) (routes : List (List ℕ)) (u : ℕ) :
    (Q.dummyStepP high routes u).1.g.cap = Q.g.cap ∧ (Q.dummyStepP high routes u).1.g.init = Q.g.init := by
  rw [dummyStepP_eq]
  split
  · exact ⟨rfl, rfl⟩
  · split
    · exact ⟨rfl, rfl⟩
    · rename_i newLoad _
      split
      · exact ⟨rfl, rfl⟩
      · dsimp only
        have h4 := g4Of_cap high (addNodeStep Q.g (C09.dummyName Q.g u) (-newLoad) (Q.g.lo 0) none).1
          (C09.dummyName Q.g u) u
        have h1 := addNodeStep_cap Q.g (C09.dummyName Q.g u) (-newLoad) (Q.g.lo 0) none
        split <;> (rw [addRouteO_g]; exact ⟨h4.1.trans h1.1, h4.2.trans h1.2⟩)

/-- `C09.dummyBody` in the same named pieces -/
theorem dummyBody_eq (cap init high : ℚ) (Q : PathInst) (routes : List (List ℕ)) (u : ℕ) :
    C09.dummyBody cap init high Q routes u =
      match (addNodeStep Q.g (C09.dummyName Q.g u) (-C09.dummyLoad cap init (Q.g.demand u)) (Q.g.lo 0) none).2 with
      | .error e => .error e
      | .ok _ =>
        let g1 := (addNodeStep Q.g (C09.dummyName Q.g u) (-C09.dummyLoad cap init (Q.g.demand u)) (Q.g.lo 0) none).1
        let a := ({ Q with g := g4Of high g1 (C09.dummyName Q.g u) u } : PathInst).addRoute
          ([0, g1.nodes.length - 1, u, 0].map Stop.idx)
        match a.2 with
        | .ok (true, _) => .ok (a.1, routes ++ [[0, g1.nodes.length - 1, u, 0]])
        | .ok (false, _) => .error .assert
        | .error e => .error e := by
  unfold C09.dummyBody
  dsimp only
  rcases addNodeStep Q.g (C09.dummyName Q.g u) (-C09.dummyLoad cap init (Q.g.demand u)) (Q.g.lo 0) none with ⟨g1, out⟩
  cases out <;> rfl

/-- one dummy iteration with the vehicle data set: `dummyStepP` returns what `C09.dummyBody` returns, and the same
    error when that one fails -/
theorem dummyStepP_set (cap init high : ℚ) (Q : PathInst) (routes : List (List ℕ)) (u : ℕ)
    (hc : Q.g.cap = some cap) (hi : Q.g.init = some init) :
    match C09.dummyBody cap init high Q routes u with
    | .ok p => Q.dummyStepP high routes u = (p.1, .ok p.2)
    | .error e => (Q.dummyStepP high routes u).2 = .error e := by
  rw [dummyStepP_eq, dummyBody_eq, hi, hc]
  simp only [dummyLoadO_set]
  cases hn : (addNodeStep Q.g (C09.dummyName Q.g u) (-C09.dummyLoad cap init (Q.g.demand u)) (Q.g.lo 0) none).2 with
  | error e => rfl
  | ok b =>
    dsimp only
    have h4 := g4Of_cap high (addNodeStep Q.g (C09.dummyName Q.g u) (-C09.dummyLoad cap init (Q.g.demand u))
      (Q.g.lo 0) none).1 (C09.dummyName Q.g u) u
    have h1 := addNodeStep_cap Q.g (C09.dummyName Q.g u) (-C09.dummyLoad cap init (Q.g.demand u)) (Q.g.lo 0) none
    rw [C06.addRouteO_eq_of_set _ _ cap init (h4.1.trans (h1.1.trans hc)) (h4.2.trans (h1.2.trans hi))]
    cases ha : (PathInst.addRoute _ _).2 with
    | error e => rfl
    | ok q =>
      obtain ⟨f, ad⟩ := q
      cases f <;> rfl

theorem dummyLoopP_set (cap init high : ℚ) : ∀ (l : List ℕ) (Q : PathInst) (routes : List (List ℕ)),
    Q.g.cap = some cap → Q.g.init = some init →
    match l.foldl (C09.dummyStep cap init high) (.ok (Q, routes)) with
    | .ok p => PathInst.dummyLoopP high Q routes l = (p.1, .ok p.2)
    | .error e => (PathInst.dummyLoopP high Q routes l).2 = .error e := by
  intro l
  induction l with
  | nil => intros; rfl
  | cons u rest ih =>
    intro Q routes hc hi
    rw [List.foldl_cons]
    have hstep : C09.dummyStep cap init high (.ok (Q, routes)) u = C09.dummyBody cap init high Q routes u := rfl
    rw [hstep]
    have h := dummyStepP_set cap init high Q routes u hc hi
    have hcap := dummyStepP_cap high Q routes u
    unfold PathInst.dummyLoopP
    cases hb : C09.dummyBody cap init high Q routes u with
    | error e =>
      rw [hb] at h
      rw [C09.dummyFold_error]
      simp only [h]
    | ok p =>
      rw [hb] at h
      rw [h] at hcap
      simp only [h]
      exact ih p.1 p.2 (hcap.1.trans hc) (hcap.2.trans hi)

theorem greedyStep_g (cap init : ℚ) (pick : ℕ → List ℕ → ℕ) (s : PathInst × List ℕ × List (List ℕ) × ℕ) :
    (C09.greedyStep cap init pick s).1.g = s.1.g := by
  unfold C09.greedyStep
  dsimp only
  split
  · exact addRoute_g _ _
  · rfl

theorem greedyFold_g (cap init : ℚ) (pick : ℕ → List ℕ → ℕ) (l : List ℕ) :
    ∀ s : PathInst × List ℕ × List (List ℕ) × ℕ,
      (l.foldl (fun s _ => C09.greedyStep cap init pick s) s).1.g = s.1.g := by
  induction l with
  | nil => intro s; rfl
  | cons a l ih => intro s; rw [List.foldl_cons, ih, greedyStep_g]

theorem solVecP_eq (Q : PathInst) (routes : List (List ℕ)) : Q.solVecP routes = solOf Q routes := rfl

/-- **agreement, vehicle data set**: `makeFeasibleP` returns the instance and the solution of `PathInst.makeFeasible`
    when that one succeeds, and raises the same error when it fails -/
theorem makeFeasibleP_set (P : PathInst) (high : ℚ) (pick : ℕ → List ℕ → ℕ) (cap init : ℚ)
    (hc : P.g.cap = some cap) (hi : P.g.init = some init) :
    match P.makeFeasible high pick with
    | .ok p => P.makeFeasibleP high pick = (p.1, .ok p.2)
    | .error e => (P.makeFeasibleP high pick).2 = .error e := by
  rw [C09.makeFeasible_eq P high pick cap init hc hi, C09.addRoutesBetter_eq P pick 0 cap init hc hi]
  unfold PathInst.makeFeasibleP PathInst.addRoutesBetterP
  have hg := greedyLoopP_set cap init pick (List.range P.g.estimateMaxVehicles) P (List.range P.g.nodes.length) [] 0
    hc hi
  rw [List.length_range] at hg
  rw [hg]
  dsimp only
  have hgg := greedyFold_g cap init pick (List.range P.g.estimateMaxVehicles) (P, List.range P.g.nodes.length, [], 0)
  generalize (List.range P.g.estimateMaxVehicles).foldl (fun s _ => C09.greedyStep cap init pick s)
    (P, List.range P.g.nodes.length, [], 0) = S at hgg ⊢
  have hd := dummyLoopP_set cap init high (S.2.1.filter (· ≠ 0)) S.1 S.2.2.1 (by rw [hgg]; exact hc)
    (by rw [hgg]; exact hi)
  cases hf : List.foldl (C09.dummyStep cap init high) (Except.ok (S.1, S.2.2.1))
      (List.filter (fun x => decide (x ≠ 0)) S.2.1) with
  | error e =>
    rw [hf] at hd
    simp only [hd]
  | ok p =>
    rw [hf] at hd
    obtain ⟨Q, routes⟩ := p
    simp only [hd]
    rfl

/-- **agreement (1)**: whenever `PathInst.makeFeasible` returns normally, `makeFeasibleP` returns the same instance and
    the same solution -/
theorem makeFeasibleP_of_ok (P : PathInst) (high : ℚ) (pick : ℕ → List ℕ → ℕ) (Q : PathInst) (sol : List ℚ)
    (h : P.makeFeasible high pick = .ok (Q, sol)) : P.makeFeasibleP high pick = (Q, .ok sol) := by
  cases hc : P.g.cap with
  | none => rw [C09.makeFeasible_unset P high pick (Or.inl hc)] at h; cases h
  | some cap =>
    cases hi : P.g.init with
    | none => rw [C09.makeFeasible_unset P high pick (Or.inr hi)] at h; cases h
    | some init =>
      have := makeFeasibleP_set P high pick cap init hc hi
      rw [h] at this
      exact this

/-- **agreement (2)**: with capacity and initial loading set, whenever `PathInst.makeFeasible` fails, `makeFeasibleP`
    raises the same error (and additionally reports the instance the object is left with) -/
theorem makeFeasibleP_of_error (P : PathInst) (high : ℚ) (pick : ℕ → List ℕ → ℕ) (e : Err)
    (hc : P.g.cap ≠ none) (hi : P.g.init ≠ none)
    (h : P.makeFeasible high pick = .error e) : (P.makeFeasibleP high pick).2 = .error e := by
  obtain ⟨cap, hc⟩ := Option.ne_none_iff_exists'.1 hc
  obtain ⟨init, hi⟩ := Option.ne_none_iff_exists'.1 hi
  have := makeFeasibleP_set P high pick cap init hc hi
  rw [h] at this
  exact this

/-- conversely, with the vehicle data set a normal return of `makeFeasibleP` is a normal return of
    `PathInst.makeFeasible` with the same instance and solution -/
theorem makeFeasible_of_P_ok (P : PathInst) (high : ℚ) (pick : ℕ → List ℕ → ℕ) (sol : List ℚ)
    (hc : P.g.cap ≠ none) (hi : P.g.init ≠ none) (h : (P.makeFeasibleP high pick).2 = .ok sol) :
    P.makeFeasible high pick = .ok ((P.makeFeasibleP high pick).1, sol) := by
  obtain ⟨cap, hc⟩ := Option.ne_none_iff_exists'.1 hc
  obtain ⟨init, hi⟩ := Option.ne_none_iff_exists'.1 hi
  have hs := makeFeasibleP_set P high pick cap init hc hi
  cases hm : P.makeFeasible high pick with
  | error e => rw [hm] at hs; rw [hs] at h; cases h
  | ok p =>
    rw [hm] at hs
    rw [hs] at h ⊢
    cases h
    rfl

/-! ### capacity or initial loading unset: the lazy `TypeError` -/

theorem routeCandsO_unset (g : Graph) (cap load : Option ℚ) (hu : cap = none ∨ load = none) (cur : ℕ) (time : ℚ)
    (unv : List ℕ) :
    routeCandsO g cap cur time load unv = .error .type ∨ routeCandsO g cap cur time load unv = .ok [] := by
  induction unv with
  | nil => exact Or.inr rfl
  | cons n rest ih =>
    unfold routeCandsO
    rw [C06.checkArcO_unset g cap load hu]
    split_ifs
    · exact Or.inl rfl
    · rcases ih with h | h <;> rw [h]
      · exact Or.inl rfl
      · exact Or.inr rfl

theorem genRouteO_unset (g : Graph) (cap load : Option ℚ) (hu : cap = none ∨ load = none)
    (pick : ℕ → List ℕ → ℕ) (legs cur : ℕ) (time : ℚ) (unv r : List ℕ) (c : ℕ) :
    genRouteO g cap pick (legs + 1) cur time load unv r c = .error .type ∨
      genRouteO g cap pick (legs + 1) cur time load unv r c = .ok (r, c) := by
  unfold genRouteO
  rcases routeCandsO_unset g cap load hu cur time unv with h | h <;> rw [h]
  · exact Or.inl rfl
  · exact Or.inr rfl

/-- without vehicle data the greedy phase either raises `TypeError` (a feasible-in-time arc leaves the depot) or does
    nothing at all: no route is added, nothing is marked visited -/
theorem greedyLoopP_unset (pick : ℕ → List ℕ → ℕ) (Q : PathInst) (hu : Q.g.cap = none ∨ Q.g.init = none) :
    ∀ (k : ℕ) (unv : List ℕ) (routes : List (List ℕ)) (c : ℕ),
      PathInst.greedyLoopP pick k Q unv routes c = (Q, .error .type) ∨
        PathInst.greedyLoopP pick k Q unv routes c = (Q, .ok (unv, routes, c)) := by
  intro k
  induction k with
  | zero => intros; exact Or.inr rfl
  | succ k ih =>
    intro unv routes c
    unfold PathInst.greedyLoopP
    have h2 : 2 + Q.g.nodes.length = (Q.g.nodes.length + 1) + 1 := by omega
    rw [h2]
    rcases genRouteO_unset Q.g Q.g.cap Q.g.init hu pick (Q.g.nodes.length + 1) 0 (Q.g.lo 0) unv [0] c with h | h <;>
      rw [h]
    · exact Or.inl rfl
    · have ha : Q.addRouteO ([0].map Stop.idx) = (Q, .ok (false, false)) := by
        simp [PathInst.addRouteO, checkRouteO]
      simp only [ha]
      exact ih unv routes c

theorem addRouteO_unset_reply (P : PathInst) (route : List Stop) (hu : P.g.cap = none ∨ P.g.init = none) :
    (∃ e, (P.addRouteO route).2 = .error e) ∨ (P.addRouteO route).2 = .ok (false, false) := by
  unfold PathInst.addRouteO
  cases hr : checkRouteO P.g route with
  | error e => exact Or.inl ⟨e, rfl⟩
  | ok rc =>
    have := C06.checkRouteO_unset_not_accepted P.g route hu rc hr
    simp [this]

/-- without vehicle data every iteration of the dummy loop raises (possibly after the dummy node and its arcs have
    been added: initial loading set, capacity unset, `loading < 0`) -/
theorem dummyStepP_unset (high : ℚ) (Q : PathInst) (routes : List (List ℕ)) (u : ℕ)
    (hu : Q.g.cap = none ∨ Q.g.init = none) : ∃ e, (Q.dummyStepP high routes u).2 = .error e := by
  rw [dummyStepP_eq]
  split
  · exact ⟨_, rfl⟩
  · split
    · exact ⟨_, rfl⟩
    · rename_i newLoad _
      split
      · exact ⟨_, rfl⟩
      · dsimp only
        have h1 := addNodeStep_cap Q.g (C09.dummyName Q.g u) (-newLoad) (Q.g.lo 0) none
        generalize (addNodeStep Q.g (C09.dummyName Q.g u) (-newLoad) (Q.g.lo 0) none).1 = g1 at h1 ⊢
        have h4 := g4Of_cap high g1 (C09.dummyName Q.g u) u
        generalize g4Of high g1 (C09.dummyName Q.g u) u = G at h4 ⊢
        have hu' : ({ Q with g := G } : PathInst).g.cap = none ∨ ({ Q with g := G } : PathInst).g.init = none := by
          rcases hu with h | h
          · exact Or.inl (h4.1.trans (h1.1.trans h))
          · exact Or.inr (h4.2.trans (h1.2.trans h))
        rcases addRouteO_unset_reply _ ([0, g1.nodes.length - 1, u, 0].map Stop.idx) hu' with ⟨e, he⟩ | he <;> rw [he]
        · exact ⟨_, rfl⟩
        · exact ⟨_, rfl⟩

/-- **capacity or initial loading unset**: `makeFeasibleP` (the code) raises, except on a problem without customers
    whose greedy phase does not reach any load arithmetic — there it returns normally, leaves the instance as it is and
    stores the all-zero vector.  (`PathInst.makeFeasible` answers `.error .type` for every problem without vehicle data:
    `C09.makeFeasible_unset`.) -/
theorem makeFeasibleP_unset (P : PathInst) (high : ℚ) (pick : ℕ → List ℕ → ℕ)
    (hu : P.g.cap = none ∨ P.g.init = none) :
    (∃ e, (P.makeFeasibleP high pick).2 = .error e) ∨
      (P.g.nodes.length ≤ 1 ∧ P.makeFeasibleP high pick = (P, .ok (List.replicate P.costs.length 0))) := by
  unfold PathInst.makeFeasibleP PathInst.addRoutesBetterP
  rcases greedyLoopP_unset pick P hu P.g.estimateMaxVehicles (List.range P.g.nodes.length) [] 0 with h | h <;> rw [h]
  · exact Or.inl ⟨_, rfl⟩
  · dsimp only
    cases hl : (List.range P.g.nodes.length).filter (· ≠ 0) with
    | nil =>
      right
      constructor
      · by_contra hN
        have : 1 ∈ (List.range P.g.nodes.length).filter (· ≠ 0) := by
          rw [List.mem_filter]
          exact ⟨List.mem_range.2 (by omega), by decide⟩
        rw [hl] at this
        cases this
      · unfold PathInst.dummyLoopP
        simp [PathInst.solVecP]
    | cons u rest =>
      left
      unfold PathInst.dummyLoopP
      obtain ⟨e, he⟩ := dummyStepP_unset high P [] u hu
      simp only [he]
      exact ⟨_, rfl⟩

/-- with at least one customer and capacity or initial loading unset the heuristic raises -/
theorem makeFeasibleP_unset_raises (P : PathInst) (high : ℚ) (pick : ℕ → List ℕ → ℕ)
    (hu : P.g.cap = none ∨ P.g.init = none) (hN : 2 ≤ P.g.nodes.length) :
    ∃ e, (P.makeFeasibleP high pick).2 = .error e := by
  rcases makeFeasibleP_unset P high pick hu with h | ⟨h, _⟩
  · exact h
  · omega

/-! ## the object: queries are pure -/

/-- **a query leaves the object as it is** (instance data and stored solution): size, objective, constraints, QUBO,
    route decoding, route check -/
theorem path_query_pure (pick : ℕ → List ℕ → ℕ) (o : PathObj) (op : PathFOp) (hq : op.isQuery = true) :
    (o.step pick op).1 = o := by
  cases op <;> first | rfl | exact absurd hq (by simp [PathFOp.isQuery, PathFOp.isChange])

/-- what a query returns is a function of the state alone (`PathObj.answer`): the step is `(o, o.answer op)` -/
theorem path_query_step (pick : ℕ → List ℕ → ℕ) (o : PathObj) (op : PathFOp) (hq : op.isQuery = true) :
    o.step pick op = (o, o.answer pick op) :=
  Prod.ext (path_query_pure pick o op hq) rfl

/-- **asking twice gives equal results** (in any state, i.e. after any history), and the object is the same after
    one or two askings -/
theorem path_query_idempotent (pick : ℕ → List ℕ → ℕ) (o : PathObj) (q : PathFOp) (hq : q.isQuery = true) :
    (o.step pick q).2 = ((o.step pick q).1.step pick q).2 ∧ ((o.step pick q).1.step pick q).1 = o := by
  rw [path_query_pure pick o q hq]
  exact ⟨rfl, path_query_pure pick o q hq⟩

/-- **in any order**: the reply to `q₂` does not depend on whether the query `q₁` was asked before -/
theorem path_query_order (pick : ℕ → List ℕ → ℕ) (o : PathObj) (q₁ q₂ : PathFOp) (hq : q₁.isQuery = true) :
    ((o.step pick q₁).1.step pick q₂).2 = (o.step pick q₂).2 := by
  rw [path_query_pure pick o q₁ hq]

/-- replies given to the state-changing calls (`add_route`, `make_feasible`, mutators) of a history -/
def pathChangeReplies (ops : List PathFOp) (rs : List PathReply) : List PathReply :=
  ((ops.zip rs).filter fun e => e.1.isChange).map (·.2)

theorem path_run_filter (pick : ℕ → List ℕ → ℕ) (ops : List PathFOp) : ∀ o : PathObj,
    (o.run pick ops).1 = (o.run pick (ops.filter PathFOp.isChange)).1 ∧
      pathChangeReplies ops (o.run pick ops).2 = (o.run pick (ops.filter PathFOp.isChange)).2 := by
  induction ops with
  | nil => intro o; exact ⟨rfl, rfl⟩
  | cons op rest ih =>
    intro o
    cases hq : op.isChange with
    | true =>
      rw [List.filter_cons_of_pos hq]
      simp only [PathObj.run, pathChangeReplies, List.zip_cons_cons, List.filter_cons, hq, if_true, List.map_cons]
      exact ⟨(ih _).1, congrArg _ (ih _).2⟩
    | false =>
      rw [List.filter_cons_of_neg (by simp [hq])]
      have hp : (o.step pick op).1 = o := path_query_pure pick o op (by simp [PathFOp.isQuery, hq])
      simp only [PathObj.run, pathChangeReplies, List.zip_cons_cons, List.filter_cons, hq, Bool.false_eq_true,
        if_false, hp]
      exact ih o

/-- **queries do not alter anything obtained afterwards**: deleting all queries from a history — keeping every
    `add_route`, every heuristic run and every mutator — changes neither the object reached (instance data: graph,
    routes, costs, visit lists; stored solution), nor the reply of any kept call, nor any reply to calls made later.
    In particular queries issued before `make_feasible` do not alter what it produces. -/
theorem path_queries_irrelevant (pick : ℕ → List ℕ → ℕ) (o : PathObj) (ops later : List PathFOp) :
    let f := ops.filter (fun op => op.isChange)
    (o.run pick ops).1 = (o.run pick f).1 ∧
    pathChangeReplies ops (o.run pick ops).2 = (o.run pick f).2 ∧
    ((o.run pick ops).1.run pick later).2 = ((o.run pick f).1.run pick later).2 := by
  intro f
  obtain ⟨h1, h2⟩ := path_run_filter pick ops o
  exact ⟨h1, h2, by rw [h1]⟩

/-- spelled out on the components of the state -/
theorem path_queries_irrelevant_state (pick : ℕ → List ℕ → ℕ) (o : PathObj) (ops : List PathFOp) :
    let o₁ := (o.run pick ops).1
    let o₂ := (o.run pick (ops.filter (fun op => op.isChange))).1
    o₁.inst.g = o₂.inst.g ∧ o₁.inst.routes = o₂.inst.routes ∧ o₁.inst.costs = o₂.inst.costs ∧
      o₁.inst.visited = o₂.inst.visited ∧ o₁.sol = o₂.sol := by
  intro o₁ o₂
  have h : o₁ = o₂ := (path_queries_irrelevant pick o ops []).1
  rw [h]
  exact ⟨rfl, rfl, rfl, rfl, rfl⟩

/-- a history of queries only: the object is untouched and every reply is the answer in the initial state -/
theorem path_queries_only (pick : ℕ → List ℕ → ℕ) (o : PathObj) (ops : List PathFOp)
    (hq : ∀ op ∈ ops, op.isQuery = true) :
    (o.run pick ops).1 = o ∧ (o.run pick ops).2 = ops.map (o.answer pick) := by
  induction ops with
  | nil => exact ⟨rfl, rfl⟩
  | cons op rest ih =>
    have hp := path_query_pure pick o op (hq op List.mem_cons_self)
    obtain ⟨h1, h2⟩ := ih (fun op' h => hq op' (List.mem_cons_of_mem _ h))
    simp only [PathObj.run, hp, List.map_cons]
    exact ⟨h1, by rw [h2]; rfl⟩

/-! ## the heuristic run of the object and `PathInst.makeFeasible` -/

theorem path_heur_step (pick : ℕ → List ℕ → ℕ) (o : PathObj) (high : ℚ) :
    o.step pick (.heur high) =
      match (o.inst.makeFeasibleP high pick).2 with
      | .ok sol => ({ inst := (o.inst.makeFeasibleP high pick).1, sol := some sol }, .done)
      | .error e => ({ o with inst := (o.inst.makeFeasibleP high pick).1 }, .raised e) := rfl

/-- **connection**, capacity and initial loading set: when `make_feasible` on the object returns normally, the new
    instance and the stored solution are exactly those of `PathInst.makeFeasible` -/
theorem path_heur_connection (pick : ℕ → List ℕ → ℕ) (o : PathObj) (high : ℚ)
    (hc : o.inst.g.cap ≠ none) (hi : o.inst.g.init ≠ none) (h : (o.step pick (.heur high)).2 = .done) :
    ∃ sol, o.inst.makeFeasible high pick = .ok ((o.step pick (.heur high)).1.inst, sol) ∧
      (o.step pick (.heur high)).1.sol = some sol := by
  rw [path_heur_step] at h ⊢
  cases hr : (o.inst.makeFeasibleP high pick).2 with
  | error e => rw [hr] at h; cases h
  | ok sol => exact ⟨sol, makeFeasible_of_P_ok o.inst high pick sol hc hi hr, rfl⟩

/-- the other direction, for any vehicle data: a normal return of `PathInst.makeFeasible` is a normal return of the
    object's `make_feasible`, with that instance and that solution stored -/
theorem path_heur_of_makeFeasible (pick : ℕ → List ℕ → ℕ) (o : PathObj) (high : ℚ) (Q : PathInst) (sol : List ℚ)
    (h : o.inst.makeFeasible high pick = .ok (Q, sol)) :
    o.step pick (.heur high) = ({ inst := Q, sol := some sol }, .done) := by
  rw [path_heur_step, makeFeasibleP_of_ok o.inst high pick Q sol h]

/-- … and a failure of `PathInst.makeFeasible` (vehicle data set) is the same exception on the object; the stored
    solution is untouched, the instance is the partial one `makeFeasibleP` reports -/
theorem path_heur_of_makeFeasible_error (pick : ℕ → List ℕ → ℕ) (o : PathObj) (high : ℚ) (e : Err)
    (hc : o.inst.g.cap ≠ none) (hi : o.inst.g.init ≠ none) (h : o.inst.makeFeasible high pick = .error e) :
    (o.step pick (.heur high)).2 = .raised e ∧ (o.step pick (.heur high)).1.sol = o.sol ∧
      (o.step pick (.heur high)).1.inst = (o.inst.makeFeasibleP high pick).1 := by
  rw [path_heur_step, makeFeasibleP_of_error o.inst high pick e hc hi h]
  exact ⟨rfl, rfl, rfl⟩

/-- capacity or initial loading unset: the object's `make_feasible` raises as soon as there is a customer; on a
    problem without customers it may return normally, and then nothing but the stored solution (all zero) has changed -/
theorem path_heur_unset (pick : ℕ → List ℕ → ℕ) (o : PathObj) (high : ℚ)
    (hu : o.inst.g.cap = none ∨ o.inst.g.init = none) :
    (∃ e, (o.step pick (.heur high)).2 = .raised e) ∨
      (o.inst.g.nodes.length ≤ 1 ∧
        o.step pick (.heur high) = ({ inst := o.inst, sol := some (List.replicate o.inst.costs.length 0) }, .done)) := by
  rw [path_heur_step]
  rcases makeFeasibleP_unset o.inst high pick hu with ⟨e, he⟩ | ⟨hN, he⟩
  · left; rw [he]; exact ⟨e, rfl⟩
  · right; rw [he]; exact ⟨hN, rfl⟩

/-- **the stored solution satisfies the constraints the object then reports** (corollary of the C09 soundness theorem
    `C09.path_makeFeasible_sound`, under its hypotheses: the sampler picks among the candidates, graph invariant,
    pool invariant): after a normal return of `make_feasible` the object holds a vector `sol` with one 0/1 entry per
    variable, and the reply to `get_constraint_data` issued next is `con A (m, n) b n` with
    `A`, `b` the data of a program that `sol` satisfies; the invariants hold again -/
theorem path_heur_sound (pick : ℕ → List ℕ → ℕ) (hpick : ∀ c l, l ≠ [] → pick c l ∈ l) (o : PathObj) (high : ℚ)
    (hc : o.inst.g.cap ≠ none) (hi : o.inst.g.init ≠ none)
    (hg : C15.Inv o.inst.g) (hp : C06.PoolInv o.inst) (h : (o.step pick (.heur high)).2 = .done) :
    let o' := (o.step pick (.heur high)).1
    ∃ sol, o'.sol = some sol ∧
      (o'.step pick .numVars).2 = .num sol.length ∧
      (∀ v ∈ sol, v = 0 ∨ v = 1) ∧
      (o'.step pick .constraints).2 =
        .con o'.inst.data.A (o'.inst.data.m, o'.inst.data.n) o'.inst.data.b o'.inst.data.n ∧
      o'.inst.data.feasibleB (vecOf sol) = true ∧
      C06.PoolInv o'.inst ∧ C15.Inv o'.inst.g := by
  intro o'
  obtain ⟨sol, hm, hs⟩ := path_heur_connection pick o high hc hi h
  obtain ⟨s1, s2, s3, s4, s5⟩ := C09.path_makeFeasible_sound o.inst high pick o'.inst sol hpick hg hp hm
  refine ⟨sol, hs, ?_, s2, rfl, s3, s4, s5⟩
  show PathReply.num o'.inst.costs.length = PathReply.num sol.length
  rw [s1]
  rfl

/-! ## non-vacuity -/

/-- the exception of a result, for evaluation -/
def errOf {α : Type} (r : Except Err α) : Option Err :=
  match r with
  | .error e => some e
  | .ok _ => none

/-- depot `D`, customers `a` (demand 1) and `b` (demand `db`), arcs `D ↔ a`, `D ↔ b` (time 1, cost 1) -/
def nvG (db : ℚ) (cap init : Option ℚ) : Graph :=
  { nodes := [⟨"D", 0, 0, none⟩, ⟨"a", 1, 0, none⟩, ⟨"b", db, 0, none⟩],
    arcs := [((0, 1), ⟨"D", "a", 1, 1⟩), ((1, 0), ⟨"a", "D", 1, 1⟩), ((0, 2), ⟨"D", "b", 1, 1⟩),
             ((2, 0), ⟨"b", "D", 1, 1⟩)],
    cap := cap, init := init }

/-- the sampler takes the first candidate -/
def nvPick (_ : ℕ) (l : List ℕ) : ℕ := l.headD 0

/-- fresh object (empty pool), capacity 3, initial loading 1, `b` asks for 2 (no regular vehicle can serve it) -/
def nvO : PathObj := PathObj.init { g := nvG 2 (some 3) (some 1) }

/-- a history with queries BEFORE and AFTER a heuristic run -/
def nvOps : List PathFOp :=
  [.numVars, .constraints, .qubo false none, .checkRoute [.name "D", .name "a", .name "D"], .decode [],
   .heur 100,
   .numVars, .objective, .constraints, .decode [1, 1], .qubo true (some 2)]

/-- the replies: before the run there is no variable (two constraint rows `= 1`, no column); the run adds the greedy
    route `D a D` and the dummy route `D mf_Dum_2 b D`; afterwards the queries see two variables and three rows -/
example : (nvO.run nvPick nvOps).2 =
    [.num 0, .con [] (2, 0) [1, 1] 0, .qubo (0, 1, [], 2), .chk true 2, .routes [],
     .done,
     .num 2, .obj [2, 201] 2, .con [(0, 0, 1), (1, 1, 1), (2, 1, 1)] (3, 2) [1, 1, 1] 2,
     .routes [["D", "a", "D"], ["D", "mf_Dum_2", "b", "D"]],
     .qubo (2, 2, [[-2, 0], [0, -4]], 6)] := by decide +kernel

/-- the object afterwards, and the same object when all queries are deleted (`path_queries_irrelevant` on the
    instance) -/
example : (nvO.run nvPick nvOps).1.inst.routes = [[0, 1, 0], [0, 3, 2, 0]] ∧
    (nvO.run nvPick nvOps).1.inst.costs = [2, 201] ∧
    (nvO.run nvPick nvOps).1.inst.g.names = ["D", "a", "b", "mf_Dum_2"] ∧
    (nvO.run nvPick nvOps).1.sol = some [1, 1] ∧
    nvOps.filter (fun op => op.isChange) = [.heur 100] ∧
    (nvO.run nvPick [.heur 100]).1.inst.routes = [[0, 1, 0], [0, 3, 2, 0]] ∧
    (nvO.run nvPick [.heur 100]).1.sol = some [1, 1] ∧
    (nvO.run nvPick [.heur 100]).2 = [.done] := by decide +kernel

/-- the hypotheses of `path_heur_sound` hold for `nvO` -/
theorem nvPick_mem : ∀ c l, l ≠ [] → nvPick c l ∈ l := by
  intro c l hl
  cases l with
  | nil => exact absurd rfl hl
  | cons a t => simp [nvPick]

theorem nvO_inv : C15.Inv nvO.inst.g := C15.nv_inv_of_invB _ (by decide +kernel)

example : (nvO.step nvPick (.heur 100)).2 = .done := by decide +kernel

example :
    let o' := (nvO.step nvPick (.heur 100)).1
    ∃ sol, o'.sol = some sol ∧ (o'.step nvPick .numVars).2 = .num sol.length ∧ (∀ v ∈ sol, v = 0 ∨ v = 1) ∧
      (o'.step nvPick .constraints).2 =
        .con o'.inst.data.A (o'.inst.data.m, o'.inst.data.n) o'.inst.data.b o'.inst.data.n ∧
      o'.inst.data.feasibleB (vecOf sol) = true ∧ C06.PoolInv o'.inst ∧ C15.Inv o'.inst.g :=
  path_heur_sound nvPick nvPick_mem nvO 100 (by decide +kernel) (by decide +kernel) nvO_inv (C06.poolInv_init _)
    (by decide +kernel)

/-- a RAISING heuristic: `b` is a pick-up of 5 units, more than the capacity 3 — the dummy route `D mf_Dum_2 b D` is
    rejected and `assert feas` fails -/
def nvO2 : PathObj := PathObj.init { g := nvG (-5) (some 3) (some 1) }

def nvOps2 : List PathFOp :=
  [.numVars, .constraints, .heur 100, .numVars, .constraints, .decode [1], .qubo false none,
   .checkRoute [.idx 0, .idx 3, .idx 2, .idx 0]]

/-- the exception, and the queries afterwards still answer — from the PARTIAL state: the greedy route `D a D` is in the
    pool (one variable), the dummy node is a fourth node (three constraint rows) -/
example : (nvO2.run nvPick nvOps2).2 =
    [.num 0, .con [] (2, 0) [1, 1] 0, .raised .assert, .num 1, .con [(0, 0, 1)] (3, 1) [1, 1, 1] 1,
     .routes [["D", "a", "D"]], .qubo (1, 3, [[-1]], 9), .chk false 0] := by decide +kernel

/-- the partial state: dummy node and its two arcs present, greedy route kept, no solution stored;
    `PathInst.makeFeasible` reports the same error (without a state) -/
example : (nvO2.run nvPick nvOps2).1.inst.g.names = ["D", "a", "b", "mf_Dum_2"] ∧
    (nvO2.run nvPick nvOps2).1.inst.g.hasArc 0 3 = true ∧ (nvO2.run nvPick nvOps2).1.inst.g.hasArc 3 2 = true ∧
    (nvO2.run nvPick nvOps2).1.inst.routes = [[0, 1, 0]] ∧ (nvO2.run nvPick nvOps2).1.sol = none ∧
    errOf (nvO2.inst.makeFeasible 100 nvPick) = some .assert := by decide +kernel

/-- a second run from the partial state takes the next free name (`mf_Dum_2_`) and raises again -/
example : ((nvO2.run nvPick nvOps2).1.run nvPick [.heur 100, .numVars]).2 = [.raised .assert, .num 1] ∧
    ((nvO2.run nvPick nvOps2).1.run nvPick [.heur 100]).1.inst.g.names =
      ["D", "a", "b", "mf_Dum_2", "mf_Dum_2_"] := by decide +kernel

/-- capacity UNSET, initial loading 1, no arcs, customer `a` asks for 2: `loading < 0` needs no capacity, so the dummy
    node and its arcs are added and the `TypeError` comes from `check_arc` inside `add_route` — the dummy node stays -/
def nvO3 : PathObj :=
  PathObj.init { g := { nodes := [⟨"D", 0, 0, none⟩, ⟨"a", 2, 0, none⟩], init := some 1 } }

example : (nvO3.run nvPick [.numVars, .heur 100, .numVars, .constraints, .decode []]).2 =
      [.num 0, .raised .type, .num 0, .con [] (2, 0) [1, 1] 0, .routes []] ∧
    (nvO3.run nvPick [.numVars, .heur 100]).1.inst.g.names = ["D", "a", "mf_Dum_1"] ∧
    (nvO3.run nvPick [.numVars, .heur 100]).1.inst.g.hasArc 0 2 = true ∧
    (nvO3.run nvPick [.numVars, .heur 100]).1.sol = none := by decide +kernel

/-- the corner where `PathInst.makeFeasible` and the code differ: a depot-only problem without vehicle data.  The code
    (and `makeFeasibleP`) returns normally and stores the empty vector; `PathInst.makeFeasible` answers `.error .type` -/
def nvO4 : PathObj := PathObj.init { g := { nodes := [⟨"D", 0, 0, none⟩] } }

example : (nvO4.step nvPick (.heur 100)).2 = .done ∧ (nvO4.step nvPick (.heur 100)).1.sol = some [] ∧
    errOf (nvO4.inst.makeFeasible 100 nvPick) = some .type := by decide +kernel

/-- mutators do not revalidate the pool: after `set_depot("a")` the stored route `[0, 1, 0]` is decoded with the new
    node order, and the constraint rows follow the current node list -/
example : (nvO.run nvPick [.addRoute [.name "D", .name "a", .name "D"], .decode [1], .setDepot "a", .decode [1],
      .addNode "c" 1 0 none, .constraints, .setVehicleCap 5, .addArc "D" "c" 1 1, .addArc "D" "zz" 1 1]).2 =
    [.added true true, .routes [["D", "a", "D"]], .done, .routes [["a", "D", "a"]], .done,
     .con [(0, 0, 1)] (3, 1) [1, 1, 1] 1, .done, .arcAdded true, .raised .value] := by decide +kernel

end Vrp.C14d
