import VrpModel.Graph
import VrpProofs.Lemmas.Sum
import Mathlib.Tactic.Linarith

/-!
# C15 — VRPTW graph stays self-consistent under any construction order

`Inv` is the self-consistency invariant; it is proved for the empty graph and preserved by every
call (`gstep`) of every flavour (base class, sequence-based overrides strict / non-strict), hence
for every finite call history (`grun_inv`).
-/
namespace Vrp.C15
open Vrp

/-- self-consistency of a graph -/
structure Inv (g : Graph) : Prop where
  /-- node names are unique (`node_names` is `nodes.map name` in the model, so alignment is by construction) -/
  nodup : g.names.Nodup
  /-- every node has a non-inverted window -/
  nodesOk : ∀ n ∈ g.nodes, leE n.lo n.hi = true
  /-- dict keys are unique -/
  keysNodup : (g.arcs.map (·.1)).Nodup
  /-- every stored arc is filed under the current positions of its own origin and destination,
      and passes the timing filter `lo(orig) + t ≤ hi(dest)` -/
  filed : ∀ e ∈ g.arcs, ∃ ni nj, g.nodes[e.1.1]? = some ni ∧ g.nodes[e.1.2]? = some nj ∧
      ni.name = e.2.orig ∧ nj.name = e.2.dest ∧ leE (ni.lo + e.2.time) nj.hi = true

theorem inv_init : Inv {} := ⟨by simp [Graph.names], by simp, by simp, by simp⟩

end Vrp.C15
