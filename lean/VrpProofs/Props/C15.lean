import VrpModel.Graph
import VrpProofs.Lemmas.Sum
import VrpProofs.Lemmas.Graph
import Mathlib.Tactic.Linarith

/-!
# C15 — VRPTW graph stays self-consistent under any construction order

`Inv` is the self-consistency invariant; it is proved for the empty graph and preserved by every
call (`gstep`) of every flavour (base class, sequence-based overrides strict / non-strict), hence
for every finite call history (`grun_inv`).
-/
namespace Vrp.C15
open Vrp

/-- self-consistency of a graph -/
structure Inv (g : Graph) : Prop where
  /-- node names are unique (`node_names` is `nodes.map name` in the model, so alignment is by construction) -/
  nodup : g.names.Nodup
  /-- every node has a non-inverted window -/
  nodesOk : ∀ n ∈ g.nodes, leE n.lo n.hi = true
  /-- dict keys are unique -/
  keysNodup : (g.arcs.map (·.1)).Nodup
  /-- every stored arc is filed under the current positions of its own origin and destination,
      and passes the timing filter `lo(orig) + t ≤ hi(dest)` -/
  filed : ∀ e ∈ g.arcs, ∃ ni nj, g.nodes[e.1.1]? = some ni ∧ g.nodes[e.1.2]? = some nj ∧
      ni.name = e.2.orig ∧ nj.name = e.2.dest ∧ leE (ni.lo + e.2.time) nj.hi = true

theorem inv_init : Inv {} := ⟨by simp [Graph.names], by simp, by simp, by simp⟩


/-! ## preservation lemmas, one per primitive -/

theorem addNodeStep_inv (g : Graph) (nm : String) (d lo : ℚ) (hi : ERat) (h : Inv g) :
    Inv (addNodeStep g nm d lo hi).1 := by
  unfold addNodeStep
  split_ifs with h1 h2
  · exact h
  · exact h
  · refine ⟨?_, ?_, h.keysNodup, ?_⟩
    · have : ({ g with nodes := g.nodes ++ [⟨nm, d, lo, hi⟩] } : Graph).names = g.names ++ [nm] := by
        simp [Graph.names]
      rw [this]
      exact List.Nodup.append h.nodup (List.nodup_singleton nm) (by simpa using h1)
    · intro n hn
      simp only [List.mem_append, List.mem_singleton] at hn
      rcases hn with hn | rfl
      · exact h.nodesOk n hn
      · exact leE_of_ltE_false (by simpa using h2)
    · intro e he
      obtain ⟨ni, nj, h1, h2, h3⟩ := h.filed e he
      refine ⟨ni, nj, ?_, ?_, h3⟩
      · exact List.getElem?_append_left (List.getElem?_eq_some_iff.mp h1).1 ▸ h1
      · exact List.getElem?_append_left (List.getElem?_eq_some_iff.mp h2).1 ▸ h2

/-- the timing test of `add_arc` (strict rule on / off) -/
def okTiming (g : Graph) (rule : Bool) (i j : ℕ) (t : ℚ) : Bool :=
  if rule then
    (match g.hi i with
     | none => (g.hi j).isNone
     | some b => leE (b + t) (g.hi j))
  else leE (g.lo i + t) (g.hi j)

theorem addArcWith_eq (g : Graph) (o d : String) (t c : ℚ) (rule : ℕ → Bool) (i j : ℕ)
    (hi : g.indexOf? o = some i) (hj : g.indexOf? d = some j) :
    addArcWith g o d t c rule =
      if okTiming g (rule i) i j t then
        ({ g with arcs := dictSet g.arcs (i, j) ⟨o, d, t, c⟩ }, .ok (some true))
      else (g, .ok (some false)) := by
  unfold addArcWith okTiming
  simp only [hi, hj]
  rfl

theorem addArcWith_err (g : Graph) (o d : String) (t c : ℚ) (rule : ℕ → Bool)
    (h : g.indexOf? o = none ∨ g.indexOf? d = none) :
    addArcWith g o d t c rule = (g, .error .value) := by
  unfold addArcWith
  rcases h with h | h
  · simp only [h]
  · cases g.indexOf? o <;> simp only [h]

/-- the timing test of either flavour implies the invariant's timing clause -/
theorem okTiming_imp (g : Graph) (h : Inv g) (rule : Bool) (i j : ℕ) (t : ℚ) (ni nj : Node)
    (hni : g.nodes[i]? = some ni) (hnj : g.nodes[j]? = some nj)
    (hok : okTiming g rule i j t = true) :
    leE (ni.lo + t) nj.hi = true := by
  have hlo : g.lo i = ni.lo := by simp [Graph.lo, hni]
  have hhi : g.hi i = ni.hi := by simp [Graph.hi, hni]
  have hhj : g.hi j = nj.hi := by simp [Graph.hi, hnj]
  have hw := h.nodesOk ni (List.mem_of_getElem? hni)
  unfold okTiming at hok
  rw [hlo, hhi, hhj] at hok
  cases rule with
  | false => simpa using hok
  | true =>
    simp only [if_true] at hok
    cases hj : nj.hi with
    | none => simp [leE]
    | some c =>
      cases hb : ni.hi with
      | none => simp [hb, hj] at hok
      | some b =>
        simp only [hb, hj, leE, decide_eq_true_eq] at hok hw ⊢
        linarith

theorem addArcWith_inv (g : Graph) (o d : String) (t c : ℚ) (rule : ℕ → Bool) (h : Inv g) :
    Inv (addArcWith g o d t c rule).1 := by
  cases hi : g.indexOf? o with
  | none => rw [addArcWith_err _ _ _ _ _ _ (Or.inl hi)]; exact h
  | some i =>
    cases hj : g.indexOf? d with
    | none => rw [addArcWith_err _ _ _ _ _ _ (Or.inr hj)]; exact h
    | some j =>
      rw [addArcWith_eq g o d t c rule i j hi hj]
      by_cases hok : okTiming g (rule i) i j t = true
      · rw [if_pos hok]
        obtain ⟨ni, hni, hnin⟩ := Graph.indexOf?_eq_some hi
        obtain ⟨nj, hnj, hnjn⟩ := Graph.indexOf?_eq_some hj
        refine ⟨h.nodup, h.nodesOk, dictSet_keys_nodup _ _ _ h.keysNodup, ?_⟩
        intro e he
        rcases mem_dictSet he with rfl | he
        · exact ⟨ni, nj, hni, hnj, hnin, hnjn, okTiming_imp g h (rule i) i j t ni nj hni hnj hok⟩
        · exact h.filed e he
      · rw [if_neg hok]; exact h

theorem setDepotBase_inv (g : Graph) (nm : String) (h : Inv g) : Inv (setDepotBase g nm).1 := by
  unfold setDepotBase
  cases hd : g.indexOf? nm with
  | none => exact h
  | some d =>
    simp only
    split_ifs with h0
    · exact h
    · obtain ⟨nd, hnd, _⟩ := Graph.indexOf?_eq_some hd
      have hdlt : d < g.nodes.length := (List.getElem?_eq_some_iff.mp hnd).1
      refine ⟨?_, ?_, ?_, ?_⟩
      · show ((moveFront g.nodes d).map (·.name)).Nodup
        rw [moveFront_map]
        exact ((moveFront_perm _ d).nodup_iff).mpr h.nodup
      · intro n hn
        exact h.nodesOk n ((moveFront_perm _ d).mem_iff.mp hn)
      · show ((g.arcs.map fun e => ((remap d e.1.1, remap d e.1.2), e.2)).map (·.1)).Nodup
        have : ((g.arcs.map fun e => ((remap d e.1.1, remap d e.1.2), e.2)).map (·.1))
            = (g.arcs.map (·.1)).map (fun k : Key => ((remap d k.1, remap d k.2) : Key)) := by
          simp [List.map_map, Function.comp_def]
        rw [this]
        exact List.Nodup.map (remapKey_injective d) h.keysNodup
      · intro e' he'
        simp only [List.mem_map] at he'
        obtain ⟨e, he, rfl⟩ := he'
        obtain ⟨ni, nj, h1, h2, h3⟩ := h.filed e he
        refine ⟨ni, nj, ?_, ?_, h3⟩
        · show (moveFront g.nodes d)[remap d e.1.1]? = some ni
          rw [moveFront_get _ _ _ hdlt (List.getElem?_eq_some_iff.mp h1).1]; exact h1
        · show (moveFront g.nodes d)[remap d e.1.2]? = some nj
          rw [moveFront_get _ _ _ hdlt (List.getElem?_eq_some_iff.mp h2).1]; exact h2

/-- a successful base `set_depot` leaves a non-empty node list headed by the requested node -/
theorem setDepotBase_ok (g : Graph) (nm : String) (d : ℕ) (hd : g.indexOf? nm = some d) :
    (setDepotBase g nm).2 = .ok none ∧
    ∃ n0, (setDepotBase g nm).1.nodes.head? = some n0 ∧ n0.name = nm := by
  obtain ⟨nd, hnd, hnm⟩ := Graph.indexOf?_eq_some hd
  have hdlt : d < g.nodes.length := (List.getElem?_eq_some_iff.mp hnd).1
  unfold setDepotBase
  simp only [hd]
  split_ifs with h0
  · subst h0
    exact ⟨rfl, nd, by rw [List.head?_eq_getElem?]; exact hnd, hnm⟩
  · exact ⟨rfl, nd, by show (moveFront g.nodes d).head? = some nd
                       rw [moveFront_head _ _ hdlt]; exact hnd, hnm⟩

theorem setDepotBase_err (g : Graph) (nm : String) (hd : g.indexOf? nm = none) :
    setDepotBase g nm = (g, .error .value) := by
  unfold setDepotBase; simp [hd]

/-! ## the strict re-check of `set_depot` (`recheckArcs`) -/

theorem okTiming_congr_nodes {g g' : Graph} (h : g.nodes = g'.nodes) (rule : Bool) (i j : ℕ) (t : ℚ) :
    okTiming g rule i j t = okTiming g' rule i j t := by
  unfold okTiming
  rw [Graph.hi_congr_nodes h i, Graph.hi_congr_nodes h j, Graph.lo_congr_nodes h i]

/-- `add_arc` never touches the nodes, the capacity, the initial load -/
theorem addArcWith_fields (g : Graph) (o d : String) (t c : ℚ) (rule : ℕ → Bool) :
    (addArcWith g o d t c rule).1.nodes = g.nodes ∧ (addArcWith g o d t c rule).1.cap = g.cap ∧
      (addArcWith g o d t c rule).1.init = g.init := by
  cases hi : g.indexOf? o with
  | none => rw [addArcWith_err _ _ _ _ _ _ (Or.inl hi)]; exact ⟨rfl, rfl, rfl⟩
  | some i =>
    cases hj : g.indexOf? d with
    | none => rw [addArcWith_err _ _ _ _ _ _ (Or.inr hj)]; exact ⟨rfl, rfl, rfl⟩
    | some j =>
      rw [addArcWith_eq g o d t c rule i j hi hj]
      split_ifs <;> exact ⟨rfl, rfl, rfl⟩

/-- the step function of the re-check loop -/
def recheckStep (rule : ℕ → Bool) (acc : Graph) (e : Key × Arc) : Graph :=
  (addArcWith acc e.2.orig e.2.dest e.2.time e.2.cost rule).1

theorem recheckArcs_def (g : Graph) (rule : ℕ → Bool) :
    recheckArcs g rule = g.arcs.foldl (recheckStep rule) { g with arcs := [] } := rfl

theorem recheckFold_fields (rule : ℕ → Bool) (l : List (Key × Arc)) (acc : Graph) :
    (l.foldl (recheckStep rule) acc).nodes = acc.nodes ∧ (l.foldl (recheckStep rule) acc).cap = acc.cap ∧
      (l.foldl (recheckStep rule) acc).init = acc.init := by
  induction l generalizing acc with
  | nil => exact ⟨rfl, rfl, rfl⟩
  | cons e rest ih =>
    rw [List.foldl_cons]
    obtain ⟨h1, h2, h3⟩ := ih (recheckStep rule acc e)
    obtain ⟨k1, k2, k3⟩ := addArcWith_fields acc e.2.orig e.2.dest e.2.time e.2.cost rule
    exact ⟨h1.trans k1, h2.trans k2, h3.trans k3⟩

theorem recheckFold_inv (rule : ℕ → Bool) (l : List (Key × Arc)) (acc : Graph) (h : Inv acc) :
    Inv (l.foldl (recheckStep rule) acc) := by
  induction l generalizing acc with
  | nil => exact h
  | cons e rest ih => exact ih _ (addArcWith_inv acc _ _ _ _ rule h)

/-- the re-check keeps the node list (no invariant needed) -/
theorem recheckArcs_nodes (g : Graph) (rule : ℕ → Bool) : (recheckArcs g rule).nodes = g.nodes :=
  (recheckFold_fields rule g.arcs { g with arcs := [] }).1

theorem recheckArcs_cap (g : Graph) (rule : ℕ → Bool) : (recheckArcs g rule).cap = g.cap :=
  (recheckFold_fields rule g.arcs { g with arcs := [] }).2.1

theorem recheckArcs_init (g : Graph) (rule : ℕ → Bool) : (recheckArcs g rule).init = g.init :=
  (recheckFold_fields rule g.arcs { g with arcs := [] }).2.2

/-- the re-check preserves the invariant -/
theorem recheckArcs_inv (g : Graph) (rule : ℕ → Bool) (h : Inv g) : Inv (recheckArcs g rule) :=
  recheckFold_inv rule g.arcs { g with arcs := [] } ⟨h.nodup, h.nodesOk, by simp, by simp⟩

/-- the test a stored arc `e` of `g` has to pass in the re-check: the timing test of `add_arc` at the
    key the arc is filed under -/
def recheckPass (g : Graph) (rule : ℕ → Bool) (e : Key × Arc) : Bool :=
  okTiming g (rule e.1.1) e.1.1 e.1.2 e.2.time

/-- re-adding an arc that is correctly filed in `g` to a graph with the same nodes: it is filed under
    its old key with its old value, or dropped -/
theorem recheckStep_eq (g : Graph) (hinv : Inv g) (rule : ℕ → Bool) (acc : Graph) (hn : acc.nodes = g.nodes)
    (e : Key × Arc) (he : e ∈ g.arcs) :
    recheckStep rule acc e =
      if recheckPass g rule e then { acc with arcs := dictSet acc.arcs e.1 e.2 } else acc := by
  obtain ⟨ni, nj, h1, h2, h3, h4, _⟩ := hinv.filed e he
  have hi : acc.indexOf? e.2.orig = some e.1.1 := by
    rw [Graph.indexOf?_congr_nodes hn, ← h3]; exact Graph.indexOf?_of_getElem? hinv.nodup h1
  have hj : acc.indexOf? e.2.dest = some e.1.2 := by
    rw [Graph.indexOf?_congr_nodes hn, ← h4]; exact Graph.indexOf?_of_getElem? hinv.nodup h2
  unfold recheckStep recheckPass
  rw [addArcWith_eq acc _ _ _ _ rule _ _ hi hj, okTiming_congr_nodes hn]
  split_ifs <;> rfl

theorem recheckFold_eq (g : Graph) (hinv : Inv g) (rule : ℕ → Bool) (l : List (Key × Arc)) (acc : Graph)
    (hn : acc.nodes = g.nodes) (hl : ∀ e ∈ l, e ∈ g.arcs) (hnd : ((acc.arcs ++ l).map (·.1)).Nodup) :
    l.foldl (recheckStep rule) acc = { acc with arcs := acc.arcs ++ l.filter (recheckPass g rule) } := by
  induction l generalizing acc with
  | nil => simp
  | cons e rest ih =>
    rw [List.foldl_cons, recheckStep_eq g hinv rule acc hn e (hl e List.mem_cons_self)]
    have hl' : ∀ e' ∈ rest, e' ∈ g.arcs := fun e' h' => hl e' (List.mem_cons_of_mem _ h')
    by_cases hp : recheckPass g rule e = true
    · have hnew : e.1 ∉ acc.arcs.map (·.1) := by
        intro hmem
        rw [List.map_append, List.map_cons] at hnd
        exact (List.disjoint_of_nodup_append hnd) hmem List.mem_cons_self
      rw [if_pos hp, dictSet_of_not_mem_keys _ _ _ hnew]
      have hnd' : (((acc.arcs ++ [(e.1, e.2)]) ++ rest).map (·.1)).Nodup := by
        simpa using hnd
      rw [ih { acc with arcs := acc.arcs ++ [(e.1, e.2)] } hn hl' hnd', List.filter_cons_of_pos hp]
      simp
    · rw [if_neg hp]
      have hnd' : ((acc.arcs ++ rest).map (·.1)).Nodup :=
        List.Nodup.sublist
          ((List.Sublist.append_left (List.sublist_cons_self e rest) acc.arcs).map _) hnd
      rw [ih acc hn hl' hnd', List.filter_cons_of_neg hp]

/-- **the re-check is a filter**: on a self-consistent graph the re-check keeps the keys, the values and the
    order of the stored arcs and drops exactly the arcs that fail `add_arc`'s timing test at their key -/
theorem recheckArcs_eq_filter (g : Graph) (hinv : Inv g) (rule : ℕ → Bool) :
    recheckArcs g rule = { g with arcs := g.arcs.filter (recheckPass g rule) } := by
  rw [recheckArcs_def, recheckFold_eq g hinv rule g.arcs { g with arcs := [] } rfl (fun _ h => h)
    (by simpa using hinv.keysNodup)]
  simp

/-- every arc that survives the re-check was stored before under the same key and passes the test -/
theorem recheckArcs_mem (g : Graph) (hinv : Inv g) (rule : ℕ → Bool) (e : Key × Arc)
    (he : e ∈ (recheckArcs g rule).arcs) : e ∈ g.arcs ∧ recheckPass g rule e = true := by
  rw [recheckArcs_eq_filter g hinv rule] at he
  simpa using he

/-- the arcs handed to the `(0,0)` assignment of the sequence-based `set_depot` -/
def seqRecheck (strict : Bool) (g : Graph) : Graph :=
  if strict then recheckArcs g (fun i => strict && i != 0) else g

theorem seqRecheck_nodes (s : Bool) (g : Graph) : (seqRecheck s g).nodes = g.nodes := by
  unfold seqRecheck; split_ifs
  · exact recheckArcs_nodes g _
  · rfl

theorem seqRecheck_inv (s : Bool) (g : Graph) (h : Inv g) : Inv (seqRecheck s g) := by
  unfold seqRecheck; split_ifs
  · exact recheckArcs_inv g _ h
  · exact h

/-- the sequence-based `set_depot`, unfolded -/
def setDepotSeq (strict : Bool) (g : Graph) (nm : String) : Graph × GOut :=
  let r := setDepotBase g nm
  match r.2 with
  | .error e => (g, .error e)
  | .ok _ =>
    match (seqRecheck strict r.1).nodes.head? with
    | none => (g, .error .index)
    | some n0 =>
      ({ seqRecheck strict r.1 with
          arcs := dictSet (seqRecheck strict r.1).arcs (0, 0) ⟨n0.name, n0.name, 0, 0⟩ }, .ok none)

theorem gstep_setDepot_seq (s : Bool) (g : Graph) (nm : String) :
    gstep (.seq s) g (.setDepot nm) = setDepotSeq s g nm := rfl

theorem setDepotSeq_err (s : Bool) (g : Graph) (nm : String) (hd : g.indexOf? nm = none) :
    setDepotSeq s g nm = (g, .error .value) := by
  unfold setDepotSeq; simp [setDepotBase_err g nm hd]

theorem setDepotSeq_ok (s : Bool) (g : Graph) (nm : String) (d : ℕ) (hd : g.indexOf? nm = some d) :
    ∃ n0, (setDepotBase g nm).1.nodes.head? = some n0 ∧ n0.name = nm ∧
      setDepotSeq s g nm =
        ({ seqRecheck s (setDepotBase g nm).1 with
            arcs := dictSet (seqRecheck s (setDepotBase g nm).1).arcs (0, 0) ⟨n0.name, n0.name, 0, 0⟩ },
          .ok none) := by
  obtain ⟨hok, n0, hn0, hnm⟩ := setDepotBase_ok g nm d hd
  refine ⟨n0, hn0, hnm, ?_⟩
  unfold setDepotSeq
  simp [hok, seqRecheck_nodes, hn0]

theorem setDepotSeq_inv (s : Bool) (g : Graph) (nm : String) (h : Inv g) : Inv (setDepotSeq s g nm).1 := by
  cases hd : g.indexOf? nm with
  | none => rw [setDepotSeq_err s g nm hd]; exact h
  | some d =>
    obtain ⟨n0, hn0, _, heq⟩ := setDepotSeq_ok s g nm d hd
    rw [heq]
    have hb := seqRecheck_inv s _ (setDepotBase_inv g nm h)
    have hn0' : (seqRecheck s (setDepotBase g nm).1).nodes[0]? = some n0 := by
      rw [seqRecheck_nodes, ← List.head?_eq_getElem?]; exact hn0
    refine ⟨hb.nodup, hb.nodesOk, dictSet_keys_nodup _ _ _ hb.keysNodup, ?_⟩
    intro e he
    rcases mem_dictSet he with rfl | he
    · refine ⟨n0, n0, hn0', hn0', rfl, rfl, ?_⟩
      have := hb.nodesOk n0 (List.mem_of_getElem? hn0')
      simpa using this
    · exact hb.filed e he

/-! ## the property theorems -/

theorem gstep_addArc (fl : Flavor) (g : Graph) (o d : String) (t c : ℚ) :
    ∃ rule : ℕ → Bool, gstep fl g (.addArc o d t c) = addArcWith g o d t c rule := by
  cases fl with
  | base => exact ⟨_, rfl⟩
  | seq s => exact ⟨_, rfl⟩

theorem gstep_setDepot (fl : Flavor) (g : Graph) (nm : String) :
    gstep fl g (.setDepot nm) = setDepotBase g nm ∨
      ∃ s, gstep fl g (.setDepot nm) = setDepotSeq s g nm := by
  cases fl with
  | base => exact Or.inl rfl
  | seq s => exact Or.inr ⟨s, rfl⟩

/-- a call that raises leaves the graph unchanged -/
theorem error_leaves_state (fl : Flavor) (g : Graph) (op : GOp) (e : Err)
    (h : (gstep fl g op).2 = .error e) : (gstep fl g op).1 = g := by
  cases op with
  | addNode nm d lo hi =>
    simp only [gstep, addNodeStep] at h ⊢
    split_ifs at h ⊢ <;> rfl
  | setDepot nm =>
    cases hd : g.indexOf? nm with
    | none =>
      rcases gstep_setDepot fl g nm with h' | ⟨s, h'⟩
      · rw [h', setDepotBase_err g nm hd]
      · rw [h', setDepotSeq_err s g nm hd]
    | some d =>
      exfalso
      rcases gstep_setDepot fl g nm with h' | ⟨s, h'⟩
      · rw [h', (setDepotBase_ok g nm d hd).1] at h; simp at h
      · obtain ⟨n0, _, _, heq⟩ := setDepotSeq_ok s g nm d hd
        rw [h', heq] at h; simp at h
  | addArc o d t c =>
    obtain ⟨rule, hr⟩ := gstep_addArc fl g o d t c
    rw [hr] at h ⊢
    cases hi : g.indexOf? o with
    | none => rw [addArcWith_err _ _ _ _ _ _ (Or.inl hi)]
    | some i =>
      cases hj : g.indexOf? d with
      | none => rw [addArcWith_err _ _ _ _ _ _ (Or.inr hj)]
      | some j =>
        rw [addArcWith_eq g o d t c rule i j hi hj] at h
        split_ifs at h

/-- `add_node` raises exactly for a duplicate name or an inverted window -/
theorem addNode_raises_iff (fl : Flavor) (g : Graph) (nm : String) (d lo : ℚ) (hi : ERat) :
    (∃ e, (gstep fl g (.addNode nm d lo hi)).2 = .error e) ↔ (nm ∈ g.names ∨ ltE hi lo = true) := by
  simp only [gstep, addNodeStep]
  by_cases h1 : nm ∈ g.names
  · simp [h1]
  · by_cases h2 : ltE hi lo = true
    · simp [h1, h2]
    · simp [h1, h2]

/-- `set_depot` raises exactly for an unknown name -/
theorem setDepot_raises_iff (fl : Flavor) (g : Graph) (hinv : Inv g) (nm : String) :
    (∃ e, (gstep fl g (.setDepot nm)).2 = .error e) ↔ nm ∉ g.names := by
  have _ := hinv  -- not needed: the equivalence holds for every graph
  rw [← Graph.indexOf?_eq_none_iff]
  cases hd : g.indexOf? nm with
  | none =>
    rcases gstep_setDepot fl g nm with h' | ⟨s, h'⟩
    · rw [h', setDepotBase_err g nm hd]; simp
    · rw [h', setDepotSeq_err s g nm hd]; simp
  | some d =>
    rcases gstep_setDepot fl g nm with h' | ⟨s, h'⟩
    · rw [h', (setDepotBase_ok g nm d hd).1]; simp
    · obtain ⟨n0, _, _, heq⟩ := setDepotSeq_ok s g nm d hd
      rw [h', heq]; simp

/-- `add_arc` raises exactly when one of the names is unknown -/
theorem addArc_raises_iff (fl : Flavor) (g : Graph) (o d : String) (t c : ℚ) :
    (∃ e, (gstep fl g (.addArc o d t c)).2 = .error e) ↔ (o ∉ g.names ∨ d ∉ g.names) := by
  obtain ⟨rule, hr⟩ := gstep_addArc fl g o d t c
  rw [hr, ← Graph.indexOf?_eq_none_iff, ← Graph.indexOf?_eq_none_iff]
  cases hi : g.indexOf? o with
  | none => rw [addArcWith_err _ _ _ _ _ _ (Or.inl hi)]; simp
  | some i =>
    cases hj : g.indexOf? d with
    | none => rw [addArcWith_err _ _ _ _ _ _ (Or.inr hj)]; simp
    | some j =>
      rw [addArcWith_eq g o d t c rule i j hi hj]
      split_ifs <;> simp

/-- after a successful `set_depot nm` the node `nm` is first -/
theorem setDepot_first (fl : Flavor) (g : Graph) (nm : String) (hinv : Inv g)
    (h : (gstep fl g (.setDepot nm)).2 = .ok none) :
    ((gstep fl g (.setDepot nm)).1.nodes.head?).map (·.name) = some nm := by
  have _ := hinv  -- not needed: holds for every graph
  cases hd : g.indexOf? nm with
  | none =>
    exfalso
    rcases gstep_setDepot fl g nm with h' | ⟨s, h'⟩
    · rw [h', setDepotBase_err g nm hd] at h; simp at h
    · rw [h', setDepotSeq_err s g nm hd] at h; simp at h
  | some d =>
    rcases gstep_setDepot fl g nm with h' | ⟨s, h'⟩
    · obtain ⟨_, n0, hn0, hnm⟩ := setDepotBase_ok g nm d hd
      rw [h', hn0]; simp [hnm]
    · obtain ⟨n0, hn0, hnm, heq⟩ := setDepotSeq_ok s g nm d hd
      rw [h', heq]
      show ((seqRecheck s (setDepotBase g nm).1).nodes.head?).map (·.name) = some nm
      rw [seqRecheck_nodes, hn0]; simp [hnm]

/-- base class: `add_arc` reports success iff the timing filter holds iff the arc was stored;
    on `False` the graph is unchanged -/
theorem addArc_result_base (g : Graph) (o d : String) (t c : ℚ) (i j : ℕ)
    (hi : g.indexOf? o = some i) (hj : g.indexOf? d = some j) :
    let r := gstep .base g (.addArc o d t c)
    (r.2 = .ok (some true) ↔ leE (g.lo i + t) (g.hi j) = true) ∧
    (r.2 = .ok (some false) ↔ leE (g.lo i + t) (g.hi j) = false) ∧
    (r.2 = .ok (some true) → dictGet r.1.arcs (i, j) = some ⟨o, d, t, c⟩ ∧ r.1.nodes = g.nodes) ∧
    (r.2 = .ok (some false) → r.1 = g) := by
  intro r
  have hr : r = addArcWith g o d t c (fun _ => false) := rfl
  rw [addArcWith_eq g o d t c _ i j hi hj] at hr
  have hk : okTiming g false i j t = leE (g.lo i + t) (g.hi j) := by simp [okTiming]
  rw [hk] at hr
  rw [hr]
  cases hle : leE (g.lo i + t) (g.hi j) with
  | true => simp [dictGet_dictSet_self]
  | false => simp

/-- the timing test of the strict `add_arc` for origin position `i`, destination position `j`: the depot
    (position 0) is exempt from the strict rule and is tested with its window START; every other origin is
    tested with its window END (`∞ + t ≤ hi(j)` holds only for `hi(j) = ∞`) -/
def strictTiming (g : Graph) (i j : ℕ) (t : ℚ) : Bool :=
  if i = 0 then leE (g.lo i + t) (g.hi j)
  else
    (match g.hi i with
     | none => (g.hi j).isNone
     | some b => leE (b + t) (g.hi j))

/-- strict sequence-based class: `add_arc` reports success iff the strict timing test holds iff the arc was
    stored (under the current positions); on `False` the graph is unchanged -/
theorem addArc_result_strict (g : Graph) (o d : String) (t c : ℚ) (i j : ℕ)
    (hi : g.indexOf? o = some i) (hj : g.indexOf? d = some j) :
    let r := gstep (.seq true) g (.addArc o d t c)
    (r.2 = .ok (some true) ↔ strictTiming g i j t = true) ∧
    (r.2 = .ok (some false) ↔ strictTiming g i j t = false) ∧
    (r.2 = .ok (some true) → dictGet r.1.arcs (i, j) = some ⟨o, d, t, c⟩ ∧ r.1.nodes = g.nodes) ∧
    (r.2 = .ok (some false) → r.1 = g) := by
  intro r
  have hr : r = addArcWith g o d t c (fun i => true && i != 0) := rfl
  rw [addArcWith_eq g o d t c _ i j hi hj] at hr
  have hk : okTiming g (true && i != 0) i j t = strictTiming g i j t := by
    unfold okTiming strictTiming
    by_cases h0 : i = 0
    · simp [h0]
    · simp [h0]
  rw [hk] at hr
  rw [hr]
  cases hle : strictTiming g i j t with
  | true => simp [dictGet_dictSet_self]
  | false => simp

/-- every call of every flavour preserves the invariant -/
theorem gstep_inv (fl : Flavor) (g : Graph) (op : GOp) (h : Inv g) : Inv (gstep fl g op).1 := by
  cases op with
  | addNode nm d lo hi => exact addNodeStep_inv g nm d lo hi h
  | setDepot nm =>
    rcases gstep_setDepot fl g nm with h' | ⟨s, h'⟩
    · rw [h']; exact setDepotBase_inv g nm h
    · rw [h']; exact setDepotSeq_inv s g nm h
  | addArc o d t c =>
    obtain ⟨rule, hr⟩ := gstep_addArc fl g o d t c
    rw [hr]; exact addArcWith_inv g o d t c rule h

theorem grun_inv_of (fl : Flavor) (ops : List GOp) (g : Graph) (h : Inv g) : Inv (grun fl g ops) := by
  induction ops generalizing g with
  | nil => exact h
  | cons op rest ih => exact ih _ (gstep_inv fl g op h)

/-- the invariant holds after every finite call history, starting from the empty graph -/
theorem grun_inv (fl : Flavor) (ops : List GOp) : Inv (grun fl {} ops) :=
  grun_inv_of fl ops {} inv_init

/-- regression of the model: the pinned `set_depot` (keys not re-mapped) breaks the invariant on the
    history a, b, d, a→b, d→a, set_depot d -/
theorem setDepotPinned_breaks :
    let g := grun .base {} [.addNode "a" 0 0 none, .addNode "b" 0 0 none, .addNode "d" 0 0 none,
                            .addArc "a" "b" 1 1, .addArc "d" "a" 1 2]
    Inv g ∧ ¬ Inv (setDepotPinned g "d").1 := by
  intro g
  refine ⟨grun_inv _ _, ?_⟩
  intro h
  have hmem : (((0, 1), ⟨"a", "b", 1, 1⟩) : Key × Arc) ∈ (setDepotPinned g "d").1.arcs := by
    decide +kernel
  have hnode : ((setDepotPinned g "d").1.nodes[0]?).map (·.name) = some "d" := by
    decide +kernel
  obtain ⟨ni, nj, h1, _, h3, _⟩ := h.filed _ hmem
  simp only at h1 h3
  rw [h1] at hnode
  simp only [Option.map_some, Option.some.injEq] at hnode
  rw [h3] at hnode
  exact absurd hnode (by decide)

/-! ## non-vacuity -/

/-- a history of the base class: depot `d` added LAST and then moved to the front, two customers with
    windows, five accepted arcs and one refused by the timing filter (`b → a`: 6 + 1 > 5) -/
def nv_ops : List GOp :=
  [.addNode "a" 1 2 (some 5), .addNode "b" 2 6 (some 9), .addNode "d" 0 0 none,
   .addArc "d" "a" 2 1, .addArc "d" "b" 6 3, .addArc "a" "b" 3 1, .addArc "b" "a" 1 1, .addArc "b" "d" 2 2,
   .addArc "a" "d" 2 1, .setDepot "d"]

def nv_g : Graph := grun .base {} nv_ops

/-- the reached graph, literally: depot first, keys re-mapped, `b → a` absent -/
example : nv_g.names = ["d", "a", "b"] ∧ nv_g.arcs.map (·.1) = [(0, 1), (0, 2), (1, 2), (2, 0), (1, 0)] := by
  decide +kernel

/-- `grun_inv` on it -/
theorem nv_inv : Inv nv_g := grun_inv .base nv_ops

/-- hypotheses of `addArc_result_base` (both names known) hold on `nv_g`; the conclusion then says that
    `b → a` is refused and the graph unchanged, and `d → b` with time 7 is stored under `(0, 2)` -/
example : nv_g.indexOf? "b" = some 2 ∧ nv_g.indexOf? "a" = some 1 ∧ nv_g.indexOf? "d" = some 0 := by
  decide +kernel

example : (gstep .base nv_g (.addArc "b" "a" 1 1)).1 = nv_g :=
  (addArc_result_base nv_g "b" "a" 1 1 2 1 (by decide +kernel) (by decide +kernel)).2.2.2
    ((addArc_result_base nv_g "b" "a" 1 1 2 1 (by decide +kernel) (by decide +kernel)).2.1.2 (by decide +kernel))

example : dictGet (gstep .base nv_g (.addArc "d" "b" 7 3)).1.arcs (0, 2) = some ⟨"d", "b", 7, 3⟩ :=
  ((addArc_result_base nv_g "d" "b" 7 3 0 2 (by decide +kernel) (by decide +kernel)).2.2.1
    ((addArc_result_base nv_g "d" "b" 7 3 0 2 (by decide +kernel) (by decide +kernel)).1.2 (by decide +kernel))).1

/-- hypotheses of `setDepot_first` (`Inv`, successful call) for every flavour, on a non-first node -/
example : (gstep .base nv_g (.setDepot "b")).2 = .ok none ∧ (gstep (.seq true) nv_g (.setDepot "b")).2 = .ok none ∧
    (gstep (.seq false) nv_g (.setDepot "b")).2 = .ok none := by decide +kernel

example : ((gstep (.seq true) nv_g (.setDepot "b")).1.nodes.head?).map (·.name) = some "b" :=
  setDepot_first (.seq true) nv_g "b" nv_inv (by decide +kernel)

/-- hypotheses of `addArc_result_strict` on the strict flavour: `a → b` passes the lenient test (2 + 3 ≤ 9) and
    is refused by the strict one only for time > 4 (window END 5 + t ≤ 9) -/
example : strictTiming nv_g 1 2 3 = true ∧ strictTiming nv_g 1 2 5 = false ∧
    leE (nv_g.lo 1 + 5) (nv_g.hi 2) = true := by decide +kernel

example : (gstep (.seq true) nv_g (.addArc "a" "b" 5 1)).2 = .ok (some false) :=
  (addArc_result_strict nv_g "a" "b" 5 1 1 2 (by decide +kernel) (by decide +kernel)).2.1.2 (by decide +kernel)

/-- `recheckArcs_eq_filter` (hypothesis `Inv`) is not the identity on a reachable graph: with `a → b` of time 5
    stored by the base class, the strict re-check drops exactly that arc -/
def nv_g5 : Graph := grun .base nv_g [.addArc "a" "b" 5 1]

example : ((recheckArcs nv_g5 (fun i => true && i != 0)).arcs.map (·.1)) = [(0, 1), (0, 2), (2, 0), (1, 0)] := by
  rw [recheckArcs_eq_filter nv_g5 (grun_inv_of .base _ nv_g nv_inv)]
  decide +kernel

/-- hypothesis of `error_leaves_state`: a call that raises -/
example : (gstep .base nv_g (.addArc "zz" "a" 1 1)).2 = .error .value ∧
    (gstep (.seq true) nv_g (.addNode "a" 0 0 none)).2 = .error .value ∧
    (gstep .base nv_g (.addNode "c" 0 3 (some 2))).2 = .error .value := by decide +kernel

/-- the same history with zero demands (for the capacity-free statements of C07b / C08b) -/
def nv_ops0 : List GOp :=
  [.addNode "a" 0 2 (some 5), .addNode "b" 0 6 (some 9), .addNode "d" 0 0 none,
   .addArc "d" "a" 2 1, .addArc "d" "b" 6 3, .addArc "a" "b" 3 1, .addArc "b" "a" 1 1, .addArc "b" "d" 2 2,
   .addArc "a" "d" 2 1, .setDepot "d"]

def nv_g0 : Graph := grun .base {} nv_ops0
theorem nv_inv0 : Inv nv_g0 := grun_inv .base nv_ops0

example : nv_g0.arcs = nv_g.arcs ∧ nv_g0.names = nv_g.names := by decide +kernel

/-- executable check of `Inv` (for the non-vacuity sections of the files that import this one) -/
def nv_invB (g : Graph) : Bool :=
  decide g.names.Nodup && g.nodes.all (fun n => leE n.lo n.hi) && decide (g.arcs.map (·.1)).Nodup &&
  g.arcs.all fun e =>
    match g.nodes[e.1.1]?, g.nodes[e.1.2]? with
    | some ni, some nj => decide (ni.name = e.2.orig) && decide (nj.name = e.2.dest) &&
        leE (ni.lo + e.2.time) nj.hi
    | _, _ => false

theorem nv_inv_of_invB (g : Graph) (h : nv_invB g = true) : Inv g := by
  unfold nv_invB at h
  simp only [Bool.and_eq_true, decide_eq_true_eq, List.all_eq_true] at h
  obtain ⟨⟨⟨h1, h2⟩, h3⟩, h4⟩ := h
  refine ⟨h1, h2, h3, ?_⟩
  intro e he
  have := h4 e he
  cases e1 : g.nodes[e.1.1]? with
  | none => simp [e1] at this
  | some ni =>
    cases e2 : g.nodes[e.1.2]? with
    | none => simp [e1, e2] at this
    | some nj =>
      simp only [e1, e2, Bool.and_eq_true, decide_eq_true_eq] at this
      exact ⟨ni, nj, rfl, rfl, this.1.1, this.1.2, this.2⟩

/-- the checker agrees with `grun_inv` on the reached graph -/
example : nv_invB nv_g = true := by decide +kernel

end Vrp.C15
